(* C03 with `with`: chain elements that carry a :with directive in addition to the condition.
   Model facts (Html/Exec.v), all proved below:
   - SortedAttr puts :with before the condition, so the invocation that owns the condition (mask 0)
     first runs WithAssign in the chain's scope sc (scope sc', log lg0) and then processIfElse with
     l_sc = sc';
   - the re-execution of the selected element gets the EXTENDED scope sc' and mask 1; with mask <> 0
     the :with attribute is skipped (attr_step_with_skip): the bindings are evaluated once;
   - the bindings of one element are not visible to the next one (each starts from sc);
   - an element BEHIND the selected one still evaluates its with-bindings (they sort before the
     condition, the "chain already satisfied" test belongs to the condition); its condition is not
     evaluated, nothing is rendered; a failing with-binding there fails the render.
   Everything is stated for an arbitrary recursive call [exec] with ChainProps.keeps_own. *)
From Tpl Require Import Html.Exec Proofs.ChainProps.
From Coq Require Import Lia.
Open Scope N_scope.

(* ------------------------------------------------------------------------------------------ *)
(* Tag.SortedAttr restricted to the directive (prefixed) attributes                            *)
(* ------------------------------------------------------------------------------------------ *)
Definition pref (p : str) (b : attr) : bool := prefixb p (a_name b).

Lemma attr_less_pref_plain : forall p x y, prefixb p x = true -> prefixb p y = false -> attr_less p x y = true.
Proof. intros p x y Hx Hy. unfold attr_less. rewrite Hx, Hy. reflexivity. Qed.

Lemma filter_insert_plain : forall p x acc, pref p x = false ->
  filter (pref p) (insert_sorted p x acc) = filter (pref p) acc.
Proof.
  intros p x acc Hx. induction acc as [|b r IH]; cbn [insert_sorted filter].
  - rewrite Hx. reflexivity.
  - destruct (attr_less p (a_name x) (a_name b)); cbn [filter].
    + rewrite IH. reflexivity.
    + rewrite Hx. reflexivity.
Qed.

Lemma filter_insert_pref : forall p x acc, pref p x = true ->
  filter (pref p) (insert_sorted p x acc) = insert_sorted p x (filter (pref p) acc).
Proof.
  intros p x acc Hx. induction acc as [|b r IH]; cbn [insert_sorted filter].
  - rewrite Hx. reflexivity.
  - destruct (pref p b) eqn:Hb.
    + cbn [insert_sorted]. destruct (attr_less p (a_name x) (a_name b)); cbn [filter].
      * rewrite Hb, IH. reflexivity.
      * rewrite Hx, Hb. reflexivity.
    + unfold pref in Hx, Hb. rewrite (attr_less_pref_plain p _ _ Hx Hb). cbn [filter].
      fold (pref p b). unfold pref at 1. rewrite Hb. exact IH.
Qed.

Lemma filter_fold_insert : forall p l acc,
  filter (pref p) (fold_left (fun acc a => insert_sorted p a acc) l acc)
  = fold_left (fun acc a => insert_sorted p a acc) (filter (pref p) l) (filter (pref p) acc).
Proof.
  intros p l. induction l as [|x l IH]; intros acc; cbn [fold_left filter]; [reflexivity|].
  rewrite IH. destruct (pref p x) eqn:Hx; cbn [fold_left].
  - rewrite filter_insert_pref by exact Hx. reflexivity.
  - rewrite filter_insert_plain by exact Hx. reflexivity.
Qed.

Lemma filter_rev_c : forall (A : Type) (f : A -> bool) l, filter f (rev l) = rev (filter f l).
Proof.
  intros A f l. induction l as [|x l IH]; [reflexivity|]. cbn [rev filter].
  rewrite filter_app, IH. cbn [filter]. destruct (f x); cbn [rev]; [reflexivity|apply app_nil_r].
Qed.

Theorem filter_sorted_attrs : forall p l, filter (pref p) (sorted_attrs p l) = sorted_attrs p (filter (pref p) l).
Proof. intros p l. unfold sorted_attrs. rewrite filter_rev_c, filter_fold_insert. reflexivity. Qed.

Lemma filter_cons_split : forall (A : Type) (f : A -> bool) l x r, filter f l = x :: r ->
  exists l1 l2, l = l1 ++ x :: l2 /\ Forall (fun b => f b = false) l1 /\ filter f l2 = r.
Proof.
  intros A f l. induction l as [|y l IH]; intros x r H; cbn [filter] in H; [discriminate|].
  destruct (f y) eqn:Ey.
  - inversion H; subst. exists [], l. split; [reflexivity|]. split; [constructor|reflexivity].
  - destruct (IH x r H) as [l1 [l2 [Hl [HF Hr]]]]. exists (y :: l1), l2.
    split; [rewrite Hl; reflexivity|]. split; [constructor; assumption|exact Hr].
Qed.

Lemma attr_less_with_cond : forall p cmd, is_cond_name cmd = true ->
  attr_less p (p ++ d_with) (p ++ cmd) = true /\ attr_less p (p ++ cmd) (p ++ d_with) = false.
Proof.
  intros p cmd Hc. unfold attr_less. cbv zeta. rewrite !prefixb_app, !skipn_app_len. cbn [andb negb].
  unfold weight. rewrite (cond_name_not_with cmd Hc), Hc, seqb_refl. split; reflexivity.
Qed.

(* with sorts before the condition, whatever the source order *)
Lemma sorted_with_cond : forall p w a cmd,
  a_name w = p ++ d_with -> a_name a = p ++ cmd -> is_cond_name cmd = true ->
  sorted_attrs p [w; a] = [w; a] /\ sorted_attrs p [a; w] = [w; a].
Proof.
  intros p w a cmd Hw Ha Hc. destruct (attr_less_with_cond p cmd Hc) as [H1 H2].
  unfold sorted_attrs. cbn [fold_left insert_sorted]. rewrite Hw, Ha, H1, H2. split; reflexivity.
Qed.

(* ------------------------------------------------------------------------------------------ *)
(* chain elements with an optional :with attribute                                             *)
(* ------------------------------------------------------------------------------------------ *)
Record celemw := mkCW { cw_elem : celem; cw_with : option attr }.
Inductive itemw := WGap (g : node) | WElem (e : celemw).
Definition cw_node (e : celemw) : node := ce_node (cw_elem e).
Definition cw_tok (e : celemw) : token := ce_tok (cw_elem e).
Definition cw_attr (e : celemw) : attr := ce_attr (cw_elem e).
Definition cw_cmd (e : celemw) : str := ce_cmd (cw_elem e).
Definition cw_id (e : celemw) : N := ce_id (cw_elem e).
(* forgetting / adding the with component *)
Definition strip1 (i : itemw) : item := match i with WGap g => IGap g | WElem e => IElem (cw_elem e) end.
Definition strip (l : list itemw) : list item := map strip1 l.
Definition lift1 (i : item) : itemw := match i with IGap g => WGap g | IElem e => WElem (mkCW e None) end.
Definition lift (l : list item) : list itemw := map lift1 l.
Definition itemw_node (i : itemw) : node := match i with WGap g => g | WElem e => cw_node e end.
(* record [b] for every element of the segment *)
Fixpoint set_elemsw (b : bool) (items : list itemw) (t : tbl) : tbl :=
  match items with
  | [] => t
  | WGap _ :: r => set_elemsw b r t
  | WElem e :: r => set_elemsw b r (tbl_set t (cw_id e) b)
  end.

Lemma strip_lift : forall l, strip (lift l) = l.
Proof. induction l as [|[g|e] l IH]; cbn [lift strip map lift1 strip1 cw_elem]; [reflexivity| |]; f_equal; exact IH. Qed.
Lemma set_elemsw_strip : forall b items t, set_elemsw b items t = set_elems b (strip items) t.
Proof. intros b items. induction items as [|[g|e] items IH]; intros t; cbn [set_elemsw strip map strip1 set_elems]; [reflexivity|apply IH|apply IH]. Qed.
Lemma itemw_node_strip : forall items, map itemw_node items = map item_node (strip items).
Proof. induction items as [|[g|e] items IH]; cbn [map strip strip1 itemw_node item_node]; [reflexivity| |]; f_equal; exact IH. Qed.

(* ------------------------------------------------------------------------------------------ *)
Section ChainW.
Variable is_space : rune -> bool.
Variable to_lower : rune -> rune.
Variable is_letter : rune -> bool.
Variable is_udigit : rune -> bool.
Variable methods : N -> bool -> list (str * N).
Variable call_fn : N -> list value -> fres.
Variable mgr : manager.
Variable exec : N -> list node -> node -> scope -> bool -> tbl -> rst -> R.

Notation aeval := (attr_evaluate is_letter is_udigit methods call_fn mgr).
Notation wassign := (with_assign is_space is_letter is_udigit methods call_fn mgr).
Notation econd := (eval_cond is_letter is_udigit methods call_fn mgr exec).
Notation cowner := (cond_owner is_letter is_udigit methods call_fn mgr exec).
Notation astep := (attr_step is_space is_letter is_udigit methods call_fn mgr exec).
Notation rattrs := (run_attrs is_space is_letter is_udigit methods call_fn mgr exec).
Notation rchild := (run_child is_space is_letter is_udigit methods call_fn mgr exec).
Notation etag := (exec_tag is_space to_lower is_letter is_udigit methods call_fn mgr exec).
Notation ebody := (exec_body is_space to_lower is_letter is_udigit methods call_fn mgr exec).
Notation ilstate := (init_lstate to_lower mgr).
Notation keeps_own := (ChainProps.keeps_own exec).
Notation cond_only := (ChainProps.cond_only to_lower mgr).
Notation gap_text := (ChainProps.gap_text is_space).
Notation gaps_text := (ChainProps.gaps_text is_space).

(* ------------------------------------------------------------------------------------------ *)
(* (a) the :with step of the attribute loop                                                    *)
(* ------------------------------------------------------------------------------------------ *)
Definition set_sc (ls : lstate) (sc : scope) : lstate :=
  mkL sc (l_np ls) (l_child ls) (l_tagbuf ls) (l_content ls) (l_direct ls) (l_replace ls).

(* the invocation that owns the element (mask 0) runs WithAssign in the current scope *)
Lemma attr_step_with : forall ctx n attrs w ls t st,
  a_name w = m_attr_prefix mgr ++ d_with ->
  astep 0 ctx n attrs w ls t st =
    match wassign w (l_sc ls) (r_log st) with
    | (inl sc', lg) => (inl (set_sc ls sc'), t, set_log st lg)
    | (inr e, lg) => (inr e, t, set_log st lg)
    end.
Proof.
  intros ctx n attrs w ls t st Hw. unfold attr_step. cbv zeta. unfold prefix.
  rewrite Hw, prefixb_app, skipn_app_len, seqb_refl. reflexivity.
Qed.

(* a re-execution (if / range mark set) skips :with: the bindings are NOT evaluated again *)
Lemma attr_step_with_skip : forall mask ctx n attrs w ls t st,
  a_name w = m_attr_prefix mgr ++ d_with -> mask <> 0 ->
  astep mask ctx n attrs w ls t st = (inl ls, t, st).
Proof.
  intros mask ctx n attrs w ls t st Hw Hm. unfold attr_step. cbv zeta. unfold prefix.
  rewrite Hw, prefixb_app, skipn_app_len, seqb_refl.
  apply N.eqb_neq in Hm. rewrite Hm. reflexivity.
Qed.

Lemma is_owner_with : forall mask w, a_name w = m_attr_prefix mgr ++ d_with -> is_owner mgr mask w = false.
Proof.
  intros mask w Hw. unfold is_owner. cbv zeta. unfold prefix. rewrite Hw, prefixb_app, skipn_app_len. reflexivity.
Qed.

(* ------------------------------------------------------------------------------------------ *)
(* (b) one element with :with and a condition                                                  *)
(* ------------------------------------------------------------------------------------------ *)
Definition dirs (tok : token) : list attr := filter (pref (m_attr_prefix mgr)) (t_attrs tok).

(* a tag node whose directive attributes are exactly w (:with) and a (the condition cmd), in
   either source order; all other attributes are plain; not a block tag *)
Definition cond_with (n : node) (tok : token) (w a : attr) (cmd : str) : Prop :=
  n_tok n = Some tok /\ t_kind tok = KTag /\
  a_name w = m_attr_prefix mgr ++ d_with /\ a_name a = m_attr_prefix mgr ++ cmd /\
  is_cond_name cmd = true /\ a_value a <> None /\
  (dirs tok = [w; a] \/ dirs tok = [a; w]) /\
  str_eqb (block_key to_lower (t_name tok)) (m_tag_prefix mgr ++ d_block) = false.

Definition finish (n : node) (top : bool) (x : LR) : R :=
  match x with
  | (inr r, t', st') => ([], r, t', st')
  | (inl ls, t', st') =>
    seq2 (wr top (token_buf ls) t' st') (fun t2 st2 =>
      seq2 (rchild n ls top t2 st2)
           (fun t3 st3 =>
              match n_end n with
              | Some e => if l_np ls then ([], ROk, t3, st3) else wr top (t_value e) t3 st3
              | None => ([], ROk, t3, st3)
              end))
  end.

Lemma exec_tag_finish : forall mask ctx n tok sc top t st,
  etag mask ctx n tok sc top t st =
    finish n top (rattrs mask ctx n (t_attrs tok) (sorted_attrs (m_attr_prefix mgr) (t_attrs tok)) (ilstate mask tok sc) t st).
Proof. reflexivity. Qed.

(* from the condition attribute on: exactly as for an element without :with *)
Lemma cond_tail : forall ctx n tok a cmd sc tb rest top t st,
  In a (t_attrs tok) -> a_name a = m_attr_prefix mgr ++ cmd -> is_cond_name cmd = true -> a_value a <> None ->
  str_eqb (block_key to_lower (t_name tok)) (m_tag_prefix mgr ++ d_block) = false ->
  finish n top (rattrs 0 ctx n (t_attrs tok) (a :: rest) (set_tagbuf (ilstate 0 tok sc) tb) t st)
  = match cowner 0 ctx n a cmd (ilstate 0 tok sc) t st with
    | (inl ls, t', st') => wr top (l_direct ls) t' st'
    | (inr r, t', st') => ([], r, t', st')
    end.
Proof.
  intros ctx n tok a cmd sc tb rest top t st Hin Hname Hcn Hv Hblk.
  cbn [run_attrs].
  rewrite (attr_step_cond is_space is_letter is_udigit methods call_fn mgr exec 0 ctx n (t_attrs tok) a cmd _ t st Hname Hcn Hv eq_refl).
  rewrite (is_owner_cond mgr 0 a cmd Hname Hcn eq_refl).
  rewrite cond_owner_tagbuf.
  destruct (init_lstate_cond to_lower mgr tok a cmd sc Hin Hname Hcn Hblk) as (Hnp & _ & _ & _).
  destruct (cowner 0 ctx n a cmd (ilstate 0 tok sc) t st) as [[[ls'|r] t'] st'] eqn:Eco; [|reflexivity].
  destruct (cond_owner_ls _ _ _ _ _ _ _ _ _ _ _ _ _ _ _ _ _ Eco) as (Hnp' & Hch' & _).
  rewrite Hnp in Hnp'. unfold finish.
  assert (Hbuf : token_buf (set_tagbuf ls' tb) = l_direct ls').
  { unfold token_buf. cbn [set_tagbuf l_direct l_np]. rewrite Hnp'. apply app_nil_r. }
  rewrite Hbuf. apply seq2_wr_nop. intros t2 st2.
  unfold run_child. cbn [set_tagbuf l_child l_np]. rewrite Hch', Hnp'. cbn [seq2].
  destruct (n_end n); reflexivity.
Qed.

Lemma cond_with_in : forall n tok w a cmd, cond_with n tok w a cmd -> In w (t_attrs tok) /\ In a (t_attrs tok).
Proof.
  intros n tok w a cmd (_ & _ & _ & _ & _ & _ & Hd & _).
  assert (H : In w (dirs tok) /\ In a (dirs tok)) by (destruct Hd as [Hd|Hd]; rewrite Hd; cbn; auto).
  unfold dirs in H. rewrite !filter_In in H. tauto.
Qed.

Lemma cond_with_sorted : forall n tok w a cmd, cond_with n tok w a cmd ->
  exists l1 l2 l3, sorted_attrs (m_attr_prefix mgr) (t_attrs tok) = l1 ++ w :: l2 ++ a :: l3 /\
    Forall (fun b => prefixb (m_attr_prefix mgr) (a_name b) = false) l1 /\
    Forall (fun b => prefixb (m_attr_prefix mgr) (a_name b) = false) l2.
Proof.
  intros n tok w a cmd (_ & _ & Hw & Ha & Hcn & _ & Hd & _).
  assert (Hf : filter (pref (m_attr_prefix mgr)) (sorted_attrs (m_attr_prefix mgr) (t_attrs tok)) = [w; a]).
  { rewrite filter_sorted_attrs. fold (dirs tok).
    destruct (sorted_with_cond (m_attr_prefix mgr) w a cmd Hw Ha Hcn) as [H1 H2].
    destruct Hd as [Hd|Hd]; rewrite Hd; assumption. }
  destruct (filter_cons_split _ _ _ _ _ Hf) as [l1 [r1 [Hs1 [HF1 Hr1]]]].
  destruct (filter_cons_split _ _ _ _ _ Hr1) as [l2 [l3 [Hs2 [HF2 _]]]].
  exists l1, l2, l3. split; [rewrite Hs1, Hs2; reflexivity|]. split; assumption.
Qed.

(* THE ELEMENT LEMMA: WithAssign in the caller's scope sc, then processIfElse in the extended
   scope; a failing binding is the element's result (nothing else of the element is looked at) *)
Theorem cond_with_exec : forall ctx n tok w a cmd sc top t st,
  cond_with n tok w a cmd ->
  ebody 0 ctx n sc top t st =
    match wassign w sc (r_log st) with
    | (inl sc', lg) =>
      match cowner 0 ctx n a cmd (ilstate 0 tok sc') t (set_log st lg) with
      | (inl ls, t', st') => wr top (l_direct ls) t' st'
      | (inr r, t', st') => ([], r, t', st')
      end
    | (inr e, lg) => ([], e, t, set_log st lg)
    end.
Proof.
  intros ctx n tok w a cmd sc top t st Hcw.
  destruct (cond_with_sorted n tok w a cmd Hcw) as [l1 [l2 [l3 [Hsort [HF1 HF2]]]]].
  destruct (cond_with_in n tok w a cmd Hcw) as [_ Hina].
  destruct Hcw as (Htok & Hkind & Hw & Ha & Hcn & Hv & _ & Hblk).
  unfold exec_body. rewrite Htok, Hkind. rewrite exec_tag_finish, Hsort.
  destruct (run_attrs_plain is_space is_letter is_udigit methods call_fn mgr exec 0 ctx n (t_attrs tok) l1
              (w :: l2 ++ a :: l3) t st HF1 (ilstate 0 tok sc)) as [tb1 Htb1].
  rewrite Htb1. cbn [run_attrs].
  rewrite (attr_step_with ctx n (t_attrs tok) w _ t st Hw), (is_owner_with 0 w Hw).
  change (l_sc (set_tagbuf (ilstate 0 tok sc) tb1)) with sc.
  destruct (wassign w sc (r_log st)) as [[sc'|e] lg]; [|reflexivity].
  destruct (run_attrs_plain is_space is_letter is_udigit methods call_fn mgr exec 0 ctx n (t_attrs tok) l2
              (a :: l3) t (set_log st lg) HF2 (set_sc (set_tagbuf (ilstate 0 tok sc) tb1) sc')) as [tb2 Htb2].
  rewrite Htb2.
  change (set_tagbuf (set_sc (set_tagbuf (ilstate 0 tok sc) tb1) sc') tb2) with (set_tagbuf (ilstate 0 tok sc') tb2).
  apply cond_tail; assumption.
Qed.

(* ------------------------------------------------------------------------------------------ *)
(* (c) chains                                                                                  *)
(* ------------------------------------------------------------------------------------------ *)
(* the with step of an element: nothing to do without :with *)
Definition pre_with (ow : option attr) (sc : scope) (lg : log) : (scope + rres) * log :=
  match ow with None => (inl sc, lg) | Some w => wassign w sc lg end.

(* WithAssign never reports "ok" on its error side (small dedicated lemma: unfolds with_assign) *)
Lemma with_assign_inr : forall w sc lg x lg', wassign w sc lg = (inr x, lg') -> x <> ROk.
Proof.
  intros w sc lg x lg' H. unfold with_assign in H.
  destruct (a_value w); [|inversion H; discriminate].
  destruct (with_collect is_space (ctoks_of is_letter is_udigit mgr w) [] []) as [[names codes]|]; [|inversion H; discriminate].
  destruct names as [|nm names]; [inversion H; discriminate|].
  destruct (negb (Nat.eqb (length codes) (length (nm :: names)))); [inversion H; discriminate|].
  destruct (with_eval is_letter is_udigit methods call_fn sc (nm :: names) codes [] lg) as [[m|e|] lg1];
    inversion H; discriminate.
Qed.
Lemma pre_with_inr : forall ow sc lg x lg', pre_with ow sc lg = (inr x, lg') -> x <> ROk.
Proof. intros [w|] sc lg x lg' H; cbn [pre_with] in H; [exact (with_assign_inr _ _ _ _ _ H)|discriminate]. Qed.
Lemma seq2_fail : forall x t st (K : tbl -> rst -> R), x <> ROk -> seq2 ([], x, t, st) K = ([], x, t, st).
Proof. intros x t st K Hx. destruct x; [contradiction|reflexivity|reflexivity]. Qed.

Definition cw_ok (e : celemw) : Prop :=
  match cw_with e with
  | None => ce_ok to_lower mgr (cw_elem e)
  | Some w => cond_with (cw_node e) (cw_tok e) w (cw_attr e) (cw_cmd e)
  end.
Definition else_okw (e : celemw) : Prop := cw_ok e /\ cw_cmd e <> d_if.
Definition item_okw (i : itemw) : Prop := match i with WGap g => is_gap g | WElem e => else_okw e end.

Lemma cw_facts : forall e, cw_ok e ->
  In (cw_attr e) (t_attrs (cw_tok e)) /\ a_name (cw_attr e) = m_attr_prefix mgr ++ cw_cmd e /\
  is_cond_name (cw_cmd e) = true /\
  str_eqb (block_key to_lower (t_name (cw_tok e))) (m_tag_prefix mgr ++ d_block) = false /\
  is_tag_node (cw_node e) = true.
Proof.
  intros e Hok. unfold cw_ok in Hok. destruct (cw_with e) as [w|].
  - destruct (cond_with_in _ _ _ _ _ Hok) as [_ Hin].
    destruct Hok as (Htok & Hkind & _ & Ha & Hcn & _ & _ & Hblk).
    repeat split; try assumption. unfold is_tag_node. rewrite Htok, Hkind. reflexivity.
  - pose proof (cond_only_is_tag _ _ _ _ _ _ Hok) as Htag.
    destruct Hok as (_ & _ & Hin & Ha & Hcn & _ & _ & Hblk). repeat split; assumption.
Qed.

Lemma elemw_exec : forall ctx e sc top t st, cw_ok e ->
  ebody 0 ctx (cw_node e) sc top t st =
    match pre_with (cw_with e) sc (r_log st) with
    | (inl sc', lg) =>
      match cowner 0 ctx (cw_node e) (cw_attr e) (cw_cmd e) (ilstate 0 (cw_tok e) sc') t (set_log st lg) with
      | (inl ls, t', st') => wr top (l_direct ls) t' st'
      | (inr r, t', st') => ([], r, t', st')
      end
    | (inr r, lg) => ([], r, t, set_log st lg)
    end.
Proof.
  intros ctx e sc top t st Hok. unfold cw_ok in Hok. unfold pre_with. destruct (cw_with e) as [w|].
  - apply cond_with_exec. exact Hok.
  - rewrite set_log_same. apply cond_only_exec. exact Hok.
Qed.

(* --- the executable specification --- *)
Definition eval_branchw (ctx : list node) (e : celemw) (sc : scope) (top : bool) (t : tbl) (st : rst)
    (k : bool -> tbl -> rst -> R) : R :=
  match pre_with (cw_with e) sc (r_log st) with
  | (inr x, lg0) => ([], x, t, set_log st lg0)
  | (inl sc', lg0) =>
    match aeval (cw_attr e) sc' lg0 with
    | (AOk s, lg) =>
      if str_eqb s s_true then
        match exec 1 ctx (cw_node e) sc' false (tbl_set t (cw_id e) true) (set_log st lg) with
        | (o, ROk, t2, st2) => seq2 (wr top o t2 st2) (k true)
        | (_, r, t2, st2) => ([], r, t2, st2)
        end
      else seq2 (wr top [] (tbl_set t (cw_id e) false) (set_log st lg)) (k false)
    | (AErr c, lg) => ([], RErr c, t, set_log st lg)
    | (AUnm, lg) => ([], RUnmodelled, t, set_log st lg)
    end
  end.

(* [sat]: an earlier element of the chain was selected.  A later element still runs its with step *)
Fixpoint chain_specw (ctx : list node) (sat : bool) (items : list itemw) (sc : scope) (top : bool) (t : tbl) (st : rst) : R :=
  match items with
  | [] => ([], ROk, t, st)
  | WGap g :: r => seq2 (wr top (gap_text g) t st) (chain_specw ctx sat r sc top)
  | WElem e :: r =>
    if sat then
      match pre_with (cw_with e) sc (r_log st) with
      | (inl _, lg) => seq2 (wr top [] (tbl_set t (cw_id e) true) (set_log st lg)) (chain_specw ctx true r sc top)
      | (inr x, lg) => ([], x, t, set_log st lg)
      end
    else eval_branchw ctx e sc top t st (fun b => chain_specw ctx b r sc top)
  end.

(* an element whose condition is evaluated *)
Lemma elemw_eval_step : forall ctx e sc top t st (K : tbl -> rst -> R) (K' : bool -> tbl -> rst -> R),
  cw_ok e -> keeps_own ctx (cw_node e) ->
  (forall ls st0, cowner 0 ctx (cw_node e) (cw_attr e) (cw_cmd e) ls t st0
                  = econd 0 ctx (cw_node e) (cw_attr e) ls t st0) ->
  (forall b t' st', tbl_get t' (cw_id e) = Some b -> K t' st' = K' b t' st') ->
  seq2 (ebody 0 ctx (cw_node e) sc top t st) K = eval_branchw ctx e sc top t st K'.
Proof.
  intros ctx e sc top t st K K' Hok Hkeep Hco HK.
  rewrite (elemw_exec ctx e sc top t st Hok). unfold eval_branchw.
  destruct (pre_with (cw_with e) sc (r_log st)) as [[sc'|x] lg0] eqn:Ew;
    [|apply seq2_fail; exact (pre_with_inr _ _ _ _ _ Ew)].
  rewrite Hco.
  destruct (cw_facts e Hok) as (Hin & Hname & Hcn & Hblk & _).
  destruct (init_lstate_cond to_lower mgr (cw_tok e) (cw_attr e) (cw_cmd e) sc' Hin Hname Hcn Hblk) as (_ & _ & Hdir & Hsc).
  unfold eval_cond. rewrite Hsc. change (r_log (set_log st lg0)) with lg0.
  destruct (aeval (cw_attr e) sc' lg0) as [[s|c|] lg]; [|reflexivity|reflexivity].
  change (set_log (set_log st lg0) lg) with (set_log st lg).
  destruct (str_eqb s s_true).
  - change (N.lor 0 1) with 1. change (n_id (cw_node e)) with (cw_id e).
    destruct (exec 1 ctx (cw_node e) sc' false (tbl_set t (cw_id e) true) (set_log st lg))
      as [[[o r] t2] st2] eqn:Ex.
    destruct r; try reflexivity.
    cbn [l_direct add_direct set_child]. rewrite Hdir. cbn [app].
    apply seq2_wr_ext. intros st'. apply HK.
    change (cw_id e) with (n_id (cw_node e)). rewrite (Hkeep _ _ _ _ _ _ Ex). apply tbl_get_set_same.
  - cbn [l_direct set_child]. rewrite Hdir. change (n_id (cw_node e)) with (cw_id e).
    apply seq2_wr_ext. intros st'. apply HK. apply tbl_get_set_same.
Qed.

(* an element behind an already selected one: only its with step runs *)
Lemma elemw_sat_step : forall ctx e p sc top t st (K K' : tbl -> rst -> R),
  else_okw e -> prev_tag ctx (cw_id e) None = Some p -> tbl_get t (n_id p) = Some true ->
  (forall t' st', tbl_get t' (cw_id e) = Some true -> K t' st' = K' t' st') ->
  seq2 (ebody 0 ctx (cw_node e) sc top t st) K =
    match pre_with (cw_with e) sc (r_log st) with
    | (inl _, lg) => seq2 (wr top [] (tbl_set t (cw_id e) true) (set_log st lg)) K'
    | (inr x, lg) => ([], x, t, set_log st lg)
    end.
Proof.
  intros ctx e p sc top t st K K' [Hok Hne] Hprev Hget HK.
  rewrite (elemw_exec ctx e sc top t st Hok).
  destruct (pre_with (cw_with e) sc (r_log st)) as [[sc'|x] lg0] eqn:Ew;
    [|apply seq2_fail; exact (pre_with_inr _ _ _ _ _ Ew)].
  rewrite (else_after_selected is_letter is_udigit methods call_fn mgr exec 0 ctx (cw_node e) (cw_attr e) (cw_cmd e) _ t _ p
             (seqb_neq _ _ Hne) Hprev Hget).
  destruct (cw_facts e Hok) as (Hin & Hname & Hcn & Hblk & _).
  destruct (init_lstate_cond to_lower mgr (cw_tok e) (cw_attr e) (cw_cmd e) sc' Hin Hname Hcn Hblk) as (_ & _ & Hdir & _).
  cbn [l_direct set_child]. rewrite Hdir. change (n_id (cw_node e)) with (cw_id e).
  apply seq2_wr_ext. intros st'. apply HK. apply tbl_get_set_same.
Qed.

Lemma chain_restw : forall ctx sc top items pre prev gs post sat t st,
  ctx = pre ++ prev :: gs ++ map itemw_node items ++ post ->
  NoDup (map n_id ctx) -> is_tag_node prev = true -> Forall is_gap gs -> Forall item_okw items ->
  (forall e, In (WElem e) items -> keeps_own ctx (cw_node e)) ->
  tbl_get t (n_id prev) = Some sat ->
  exec_list ebody ctx (map itemw_node items) sc top t st = chain_specw ctx sat items sc top t st.
Proof.
  intros ctx sc top items. induction items as [|[g|e] items IH];
    intros pre prev gs post sat t st Hctx Hnd Hprev Hgs Hok Hkeep Hget.
  - reflexivity.
  - cbn [map itemw_node exec_list chain_specw].
    inversion Hok as [|x l Hg Hok']; subst x l. cbn [item_okw] in Hg.
    rewrite (gap_exec is_space to_lower is_letter is_udigit methods call_fn mgr exec 0 ctx g sc top t st Hg).
    apply seq2_wr_ext. intros st'.
    apply (IH pre prev (gs ++ [g]) post sat t st').
    + rewrite Hctx. cbn [map itemw_node]. rewrite <- (app_assoc gs). reflexivity.
    + exact Hnd.
    + exact Hprev.
    + apply Forall_app. split; [exact Hgs|constructor; [exact Hg|constructor]].
    + exact Hok'.
    + intros e He. apply Hkeep. right. exact He.
    + exact Hget.
  - cbn [map itemw_node exec_list chain_specw].
    inversion Hok as [|x l He Hok']; subst x l. cbn [item_okw] in He.
    assert (Htag : is_tag_node (cw_node e) = true) by (destruct He as [He _]; apply (cw_facts e He)).
    assert (Hpt : prev_tag ctx (cw_id e) None = Some prev).
    { apply (prev_tag_chain ctx pre prev gs (cw_node e) (map itemw_node items ++ post)); assumption. }
    assert (Hnext : forall b t' st', tbl_get t' (cw_id e) = Some b ->
              exec_list ebody ctx (map itemw_node items) sc top t' st' = chain_specw ctx b items sc top t' st').
    { intros b t' st' Hb.
      apply (IH (pre ++ prev :: gs) (cw_node e) [] post b t' st').
      - rewrite Hctx. cbn [map itemw_node app]. rewrite <- app_assoc. reflexivity.
      - exact Hnd.
      - exact Htag.
      - constructor.
      - exact Hok'.
      - intros e' He'. apply Hkeep. right. exact He'.
      - exact Hb. }
    destruct sat.
    + rewrite (elemw_sat_step ctx e prev sc top t st _ (chain_specw ctx true items sc top) He Hpt Hget); [reflexivity|].
      intros t' st' Hb. apply Hnext. exact Hb.
    + destruct He as [Hce Hne].
      apply (elemw_eval_step ctx e sc top t st _ (fun b => chain_specw ctx b items sc top) Hce).
      * apply Hkeep. left. reflexivity.
      * intros ls st0.
        apply (else_after_unselected is_letter is_udigit methods call_fn mgr exec 0 ctx (cw_node e) (cw_attr e) (cw_cmd e) ls t st0 prev
                 (seqb_neq _ _ Hne) Hpt Hget).
      * intros b t' st' Hb. apply Hnext. exact Hb.
Qed.

(* THE CHAIN THEOREM with :with.  e1 carries :if (and possibly :with); rest = gaps and else-ish
   elements (each possibly with :with) in document order, contiguous in ctx; t is ARBITRARY. *)
Definition chain_inw (ctx : list node) (pre : list node) (e1 : celemw) (rest : list itemw) (post : list node) : Prop :=
  ctx = pre ++ cw_node e1 :: map itemw_node rest ++ post /\ NoDup (map n_id ctx) /\
  cw_ok e1 /\ cw_cmd e1 = d_if /\ Forall item_okw rest /\
  (forall e, In (WElem e) (WElem e1 :: rest) -> keeps_own ctx (cw_node e)).

Theorem chainw_exec : forall ctx pre e1 rest post sc top t st,
  chain_inw ctx pre e1 rest post ->
  exec_list ebody ctx (cw_node e1 :: map itemw_node rest) sc top t st
    = chain_specw ctx false (WElem e1 :: rest) sc top t st.
Proof.
  intros ctx pre e1 rest post sc top t st (Hctx & Hnd & Hok & Hcmd & Hrest & Hkeep).
  cbn [exec_list chain_specw].
  apply (elemw_eval_step ctx e1 sc top t st _ (fun b => chain_specw ctx b rest sc top) Hok).
  - apply Hkeep. left. reflexivity.
  - intros ls st0. rewrite Hcmd. apply if_owner.
  - intros b t' st' Hb.
    apply (chain_restw ctx sc top rest pre (cw_node e1) [] post b t' st').
    + exact Hctx.
    + exact Hnd.
    + apply (cw_facts e1 Hok).
    + constructor.
    + exact Hrest.
    + intros e He. apply Hkeep. right. exact He.
    + exact Hb.
Qed.

(* ------------------------------------------------------------------------------------------ *)
(* consequences                                                                                *)
(* ------------------------------------------------------------------------------------------ *)
Fixpoint gaps_textw (items : list itemw) : str :=
  match items with [] => [] | WGap g :: r => gap_text g ++ gaps_textw r | WElem _ :: r => gaps_textw r end.

(* The behaviour of a chain segment behind the selected element: each element runs its with step in
   the chain's scope sc (the extended scope is dropped), writes nothing and records "true"; a failing
   binding stops the render.  This function mentions neither attr_evaluate nor exec. *)
Fixpoint inertw (items : list itemw) (sc : scope) (top : bool) (t : tbl) (st : rst) : R :=
  match items with
  | [] => ([], ROk, t, st)
  | WGap g :: r => seq2 (wr top (gap_text g) t st) (inertw r sc top)
  | WElem e :: r =>
    match pre_with (cw_with e) sc (r_log st) with
    | (inl _, lg) => seq2 (wr top [] (tbl_set t (cw_id e) true) (set_log st lg)) (inertw r sc top)
    | (inr x, lg) => ([], x, t, set_log st lg)
    end
  end.

(* Evaluate, for each element in turn, first its with-bindings in the chain's scope sc (giving the
   element's own extended scope sc'), then its condition IN sc'; the next element starts again from
   sc.  Some lg' iff every with step succeeds and every condition yields AOk s with s <> "true". *)
Fixpoint conds_falsew (items : list itemw) (sc : scope) (lg : log) : option log :=
  match items with
  | [] => Some lg
  | WGap _ :: r => conds_falsew r sc lg
  | WElem e :: r =>
    match pre_with (cw_with e) sc lg with
    | (inl sc', lg0) =>
      match aeval (cw_attr e) sc' lg0 with
      | (AOk s, lg') => if str_eqb s s_true then None else conds_falsew r sc lg'
      | _ => None
      end
    | (inr _, _) => None
    end
  end.

(* the with steps only (conditions are not looked at): Some lg' iff all of them succeed *)
Fixpoint withs_ok (items : list itemw) (sc : scope) (lg : log) : option log :=
  match items with
  | [] => Some lg
  | WGap _ :: r => withs_ok r sc lg
  | WElem e :: r =>
    match pre_with (cw_with e) sc lg with
    | (inl _, lg') => withs_ok r sc lg'
    | (inr _, _) => None
    end
  end.
(* the log after the with steps of a segment, stopping at the first failing one *)
Fixpoint withs_log (items : list itemw) (sc : scope) (lg : log) : log :=
  match items with
  | [] => lg
  | WGap _ :: r => withs_log r sc lg
  | WElem e :: r =>
    match pre_with (cw_with e) sc lg with
    | (inl _, lg') => withs_log r sc lg'
    | (inr _, lg') => lg'
    end
  end.

Lemma withs_ok_log : forall items sc lg lg', withs_ok items sc lg = Some lg' -> withs_log items sc lg = lg'.
Proof.
  induction items as [|[g|e] items IH]; intros sc lg lg' H; cbn [withs_ok withs_log] in *.
  - inversion H; reflexivity.
  - apply IH; exact H.
  - destruct (pre_with (cw_with e) sc lg) as [[sc'|x] lg1]; [apply IH; exact H|discriminate].
Qed.

Lemma chain_specw_sat : forall ctx sc top items t st, chain_specw ctx true items sc top t st = inertw items sc top t st.
Proof.
  intros ctx sc top items. induction items as [|[g|e] items IH]; intros t st; cbn [chain_specw inertw].
  - reflexivity.
  - apply seq2_ext; exact IH.
  - destruct (pre_with (cw_with e) sc (r_log st)) as [[sc'|x] lg]; [apply seq2_ext; exact IH|reflexivity].
Qed.

(* buffer writer, all with steps succeed *)
Lemma inertw_false : forall items sc t st lg, withs_ok items sc (r_log st) = Some lg ->
  inertw items sc false t st = (gaps_textw items, ROk, set_elemsw true items t, set_log st lg).
Proof.
  induction items as [|[g|e] items IH]; intros sc t st lg H; cbn [withs_ok] in H; cbn [inertw gaps_textw set_elemsw].
  - inversion H; subst. rewrite set_log_same. reflexivity.
  - unfold wr, write. cbn [seq2]. rewrite (IH sc t st lg H). reflexivity.
  - destruct (pre_with (cw_with e) sc (r_log st)) as [[sc'|x] lg1]; [|discriminate].
    unfold wr, write. cbn [seq2].
    rewrite (IH sc (tbl_set t (cw_id e) true) (set_log st lg1) lg H). reflexivity.
Qed.

(* buffer writer, the with step of ej fails *)
Lemma inertw_false_fails : forall b1 ej b2 sc t st lg1 x lg2,
  withs_ok b1 sc (r_log st) = Some lg1 -> pre_with (cw_with ej) sc lg1 = (inr x, lg2) ->
  inertw (b1 ++ WElem ej :: b2) sc false t st = (gaps_textw b1, x, set_elemsw true b1 t, set_log st lg2).
Proof.
  induction b1 as [|[g|e] b1 IH]; intros ej b2 sc t st lg1 x lg2 H Hw; cbn [withs_ok] in H;
    cbn [app inertw gaps_textw set_elemsw].
  - inversion H; subst. rewrite Hw. reflexivity.
  - unfold wr, write. cbn [seq2]. rewrite (IH ej b2 sc t st lg1 x lg2 H Hw). reflexivity.
  - destruct (pre_with (cw_with e) sc (r_log st)) as [[sc'|y] lg0]; [|discriminate].
    unfold wr, write. cbn [seq2].
    rewrite (IH ej b2 sc (tbl_set t (cw_id e) true) (set_log st lg0) lg1 x lg2 H Hw). reflexivity.
Qed.

(* any writer: the final log is the log after the with steps of the part of the segment that ran *)
Lemma inertw_log : forall items sc top t st o r t' st', inertw items sc top t st = (o, r, t', st') ->
  exists front back, items = front ++ back /\ r_log st' = withs_log front sc (r_log st).
Proof.
  intros items sc top.
  assert (Hstep : forall s T st0 rest o r t' st',
            (forall t1 st1 o r t' st', inertw rest sc top t1 st1 = (o, r, t', st') ->
               exists front back, rest = front ++ back /\ r_log st' = withs_log front sc (r_log st1)) ->
            seq2 (wr top s T st0) (inertw rest sc top) = (o, r, t', st') ->
            r_log st' = r_log st0 \/
            exists front back, rest = front ++ back /\ r_log st' = withs_log front sc (r_log st0)).
  { intros s T st0 rest o r t' st' Hrest. unfold wr. destruct (write top s st0) as [[o1 r1] st1] eqn:Ew.
    pose proof (write_log _ _ _ _ _ _ Ew) as Hl.
    destruct r1; cbn [seq2]; try (intros H; inversion H; subst; left; exact Hl).
    destruct (inertw rest sc top T st1) as [[[o2 r2] t2] st2] eqn:Ef. intros H. inversion H; subst.
    right. destruct (Hrest _ _ _ _ _ _ Ef) as [front [back [Hs Hlg]]]. exists front, back.
    split; [exact Hs|]. rewrite Hlg, Hl. reflexivity. }
  induction items as [|[g|e] items IH]; intros t st o r t' st'; cbn [inertw].
  - intros H. inversion H; subst. exists [], []. split; reflexivity.
  - intros H. destruct (Hstep _ _ _ _ _ _ _ _ IH H) as [Hl|[front [back [Hs Hl]]]].
    + exists [], (WGap g :: items). split; [reflexivity|exact Hl].
    + exists (WGap g :: front), back. split; [rewrite Hs; reflexivity|exact Hl].
  - destruct (pre_with (cw_with e) sc (r_log st)) as [[sc'|x] lg] eqn:Ew.
    + intros H. destruct (Hstep _ _ _ _ _ _ _ _ IH H) as [Hl|[front [back [Hs Hl]]]].
      * exists [WElem e], items. split; [reflexivity|]. cbn [withs_log]. rewrite Ew. exact Hl.
      * exists (WElem e :: front), back. split; [rewrite Hs; reflexivity|]. cbn [withs_log]. rewrite Ew. exact Hl.
    + intros H. inversion H; subst. exists [WElem e], items. split; [reflexivity|].
      cbn [withs_log]. rewrite Ew. reflexivity.
Qed.

(* a segment whose conditions are all not "true" (buffer writer) *)
Lemma spec_prefix_falsew : forall ctx sc front rest lg t st,
  conds_falsew front sc (r_log st) = Some lg ->
  chain_specw ctx false (front ++ rest) sc false t st =
    (let '(o, r, t', st') := chain_specw ctx false rest sc false (set_elemsw false front t) (set_log st lg) in
     (gaps_textw front ++ o, r, t', st')).
Proof.
  intros ctx sc front rest. induction front as [|[g|e] front IH]; intros lg t st Hc; cbn [conds_falsew] in Hc.
  - inversion Hc; subst. rewrite set_log_same. cbn [app set_elemsw gaps_textw].
    destruct (chain_specw ctx false rest sc false t st) as [[[o r] t'] st']. reflexivity.
  - cbn [app chain_specw set_elemsw gaps_textw]. unfold wr, write. cbn [seq2].
    rewrite (IH lg t st Hc).
    destruct (chain_specw ctx false rest sc false (set_elemsw false front t) (set_log st lg)) as [[[o r] t'] st'].
    rewrite app_assoc. reflexivity.
  - cbn [app chain_specw set_elemsw gaps_textw]. unfold eval_branchw.
    destruct (pre_with (cw_with e) sc (r_log st)) as [[sc'|x] lg0]; [|discriminate].
    destruct (aeval (cw_attr e) sc' lg0) as [[s|c|] lg'] eqn:Ea; try discriminate.
    destruct (str_eqb s s_true); [discriminate|].
    unfold wr, write. cbn [seq2].
    rewrite (IH lg (tbl_set t (cw_id e) false) (set_log st lg') Hc).
    change (set_log (set_log st lg') lg) with (set_log st lg).
    destruct (chain_specw ctx false rest sc false (set_elemsw false front (tbl_set t (cw_id e) false)) (set_log st lg))
      as [[[o r] t'] st']. reflexivity.
Qed.

Lemma spec_nonew : forall ctx sc items lg t st,
  conds_falsew items sc (r_log st) = Some lg ->
  chain_specw ctx false items sc false t st = (gaps_textw items, ROk, set_elemsw false items t, set_log st lg).
Proof.
  intros ctx sc items lg t st Hc.
  pose proof (spec_prefix_falsew ctx sc items [] lg t st Hc) as H. rewrite app_nil_r in H.
  rewrite H. cbn [chain_specw]. rewrite app_nil_r. reflexivity.
Qed.

(* the state in which ek's nested render is started, and what happens behind it *)
Lemma spec_selectedw_gen : forall ctx sc front ek back t st lg1 sck lgw s lg2 o t2 st2,
  conds_falsew front sc (r_log st) = Some lg1 ->
  pre_with (cw_with ek) sc lg1 = (inl sck, lgw) ->
  aeval (cw_attr ek) sck lgw = (AOk s, lg2) -> str_eqb s s_true = true ->
  exec 1 ctx (cw_node ek) sck false (tbl_set (set_elemsw false front t) (cw_id ek) true) (set_log st lg2) = (o, ROk, t2, st2) ->
  chain_specw ctx false (front ++ WElem ek :: back) sc false t st
    = (let '(o', r, t', st') := inertw back sc false t2 st2 in (gaps_textw front ++ o ++ o', r, t', st')).
Proof.
  intros ctx sc front ek back t st lg1 sck lgw s lg2 o t2 st2 Hc Hw Ha Hs Hex.
  rewrite (spec_prefix_falsew ctx sc front (WElem ek :: back) lg1 t st Hc).
  cbn [chain_specw]. unfold eval_branchw.
  change (r_log (set_log st lg1)) with lg1. rewrite Hw, Ha, Hs.
  change (set_log (set_log st lg1) lg2) with (set_log st lg2). rewrite Hex.
  unfold wr, write. cbn [seq2]. rewrite chain_specw_sat.
  destruct (inertw back sc false t2 st2) as [[[o' r] t'] st']. reflexivity.
Qed.

(* ------------------------------------------------------------------------------------------ *)
(* THE THEOREMS (buffer writer: top = false)                                                   *)
(* ------------------------------------------------------------------------------------------ *)
(* 1. Exactly the first element whose condition is "true" is rendered.  The elements before it had
   their with-bindings and then their conditions evaluated, in order, each condition in its own
   extended scope (conds_falsew, log lg1).  ek's with-bindings are evaluated in sc (scope sck, log
   lgw), its condition in sck (log lg2); the nested render is the call exec 1 ctx ek sck ... : the
   EXTENDED scope, mask 1 (for which :with is skipped: attr_step_with_skip).  Behind ek the
   with-bindings of the remaining elements are evaluated (withs_ok, log lg3) and nothing else. *)
Theorem chainw_first_true : forall ctx pre e1 rest post sc t st front ek back lg1 sck lgw s lg2 o t2 st2 lg3,
  chain_inw ctx pre e1 rest post ->
  WElem e1 :: rest = front ++ WElem ek :: back ->
  conds_falsew front sc (r_log st) = Some lg1 ->
  pre_with (cw_with ek) sc lg1 = (inl sck, lgw) ->
  aeval (cw_attr ek) sck lgw = (AOk s, lg2) -> str_eqb s s_true = true ->
  exec (N.lor 0 1) ctx (cw_node ek) sck false (tbl_set (set_elemsw false front t) (cw_id ek) true) (set_log st lg2)
    = (o, ROk, t2, st2) ->
  withs_ok back sc (r_log st2) = Some lg3 ->
  exec_list ebody ctx (cw_node e1 :: map itemw_node rest) sc false t st
    = (gaps_textw front ++ o ++ gaps_textw back, ROk, set_elemsw true back t2, set_log st2 lg3).
Proof.
  intros ctx pre e1 rest post sc t st front ek back lg1 sck lgw s lg2 o t2 st2 lg3 Hch Hsplit Hc Hw Ha Hs Hex Hb.
  rewrite (chainw_exec ctx pre e1 rest post sc false t st Hch). rewrite Hsplit.
  rewrite (spec_selectedw_gen ctx sc front ek back t st lg1 sck lgw s lg2 o t2 st2 Hc Hw Ha Hs Hex).
  rewrite (inertw_false back sc t2 st2 lg3 Hb). reflexivity.
Qed.

(* 1'. ... and a with-binding of a LATER (unselected) element ej fails: the render fails with that
   error after ek was rendered; nothing behind ej is touched *)
Theorem chainw_first_true_later_with_fails :
  forall ctx pre e1 rest post sc t st front ek b1 ej b2 lg1 sck lgw s lg2 o t2 st2 lg3 x lg4,
  chain_inw ctx pre e1 rest post ->
  WElem e1 :: rest = front ++ WElem ek :: b1 ++ WElem ej :: b2 ->
  conds_falsew front sc (r_log st) = Some lg1 ->
  pre_with (cw_with ek) sc lg1 = (inl sck, lgw) ->
  aeval (cw_attr ek) sck lgw = (AOk s, lg2) -> str_eqb s s_true = true ->
  exec (N.lor 0 1) ctx (cw_node ek) sck false (tbl_set (set_elemsw false front t) (cw_id ek) true) (set_log st lg2)
    = (o, ROk, t2, st2) ->
  withs_ok b1 sc (r_log st2) = Some lg3 -> pre_with (cw_with ej) sc lg3 = (inr x, lg4) ->
  exec_list ebody ctx (cw_node e1 :: map itemw_node rest) sc false t st
    = (gaps_textw front ++ o ++ gaps_textw b1, x, set_elemsw true b1 t2, set_log st2 lg4).
Proof.
  intros ctx pre e1 rest post sc t st front ek b1 ej b2 lg1 sck lgw s lg2 o t2 st2 lg3 x lg4 Hch Hsplit Hc Hw Ha Hs Hex Hb Hf.
  rewrite (chainw_exec ctx pre e1 rest post sc false t st Hch). rewrite Hsplit.
  rewrite (spec_selectedw_gen ctx sc front ek (b1 ++ WElem ej :: b2) t st lg1 sck lgw s lg2 o t2 st2 Hc Hw Ha Hs Hex).
  rewrite (inertw_false_fails b1 ej b2 sc t2 st2 lg3 x lg4 Hb Hf). reflexivity.
Qed.

(* the selected element's nested render fails: its output is dropped, nothing after it runs *)
Theorem chainw_selected_fails : forall ctx pre e1 rest post sc t st front ek back lg1 sck lgw s lg2 o r t2 st2,
  chain_inw ctx pre e1 rest post ->
  WElem e1 :: rest = front ++ WElem ek :: back ->
  conds_falsew front sc (r_log st) = Some lg1 ->
  pre_with (cw_with ek) sc lg1 = (inl sck, lgw) ->
  aeval (cw_attr ek) sck lgw = (AOk s, lg2) -> str_eqb s s_true = true ->
  exec (N.lor 0 1) ctx (cw_node ek) sck false (tbl_set (set_elemsw false front t) (cw_id ek) true) (set_log st lg2)
    = (o, r, t2, st2) -> r <> ROk ->
  exec_list ebody ctx (cw_node e1 :: map itemw_node rest) sc false t st = (gaps_textw front, r, t2, st2).
Proof.
  intros ctx pre e1 rest post sc t st front ek back lg1 sck lgw s lg2 o r t2 st2 Hch Hsplit Hc Hw Ha Hs Hex Hr.
  rewrite (chainw_exec ctx pre e1 rest post sc false t st Hch). rewrite Hsplit.
  rewrite (spec_prefix_falsew ctx sc front (WElem ek :: back) lg1 t st Hc).
  cbn [chain_specw]. unfold eval_branchw.
  change (r_log (set_log st lg1)) with lg1. rewrite Hw, Ha, Hs.
  change (set_log (set_log st lg1) lg2) with (set_log st lg2). change (N.lor 0 1) with 1 in Hex. rewrite Hex.
  destruct r; [contradiction| |]; rewrite app_nil_r; reflexivity.
Qed.

(* 2a. no condition is "true": only the gaps are printed, every entry becomes false, exec is not called *)
Theorem chainw_none_rendered : forall ctx pre e1 rest post sc t st lg,
  chain_inw ctx pre e1 rest post ->
  conds_falsew (WElem e1 :: rest) sc (r_log st) = Some lg ->
  exec_list ebody ctx (cw_node e1 :: map itemw_node rest) sc false t st
    = (gaps_textw rest, ROk, set_elemsw false (WElem e1 :: rest) t, set_log st lg).
Proof.
  intros ctx pre e1 rest post sc t st lg Hch Hc.
  rewrite (chainw_exec ctx pre e1 rest post sc false t st Hch).
  exact (spec_nonew ctx sc (WElem e1 :: rest) lg t st Hc).
Qed.

(* 2b. the condition of ek fails to evaluate (in ek's extended scope): the chain stops there *)
Theorem chainw_eval_fails : forall ctx pre e1 rest post sc t st front ek back lg1 sck lgw c lg2,
  chain_inw ctx pre e1 rest post ->
  WElem e1 :: rest = front ++ WElem ek :: back ->
  conds_falsew front sc (r_log st) = Some lg1 ->
  pre_with (cw_with ek) sc lg1 = (inl sck, lgw) ->
  aeval (cw_attr ek) sck lgw = (AErr c, lg2) ->
  exec_list ebody ctx (cw_node e1 :: map itemw_node rest) sc false t st
    = (gaps_textw front, RErr c, set_elemsw false front t, set_log st lg2).
Proof.
  intros ctx pre e1 rest post sc t st front ek back lg1 sck lgw c lg2 Hch Hsplit Hc Hw Ha.
  rewrite (chainw_exec ctx pre e1 rest post sc false t st Hch). rewrite Hsplit.
  rewrite (spec_prefix_falsew ctx sc front (WElem ek :: back) lg1 t st Hc).
  cbn [chain_specw]. unfold eval_branchw.
  change (r_log (set_log st lg1)) with lg1. rewrite Hw, Ha. rewrite app_nil_r. reflexivity.
Qed.

(* 2c. a with-binding of ek fails: the condition of ek is NOT evaluated, the chain stops there *)
Theorem chainw_with_fails : forall ctx pre e1 rest post sc t st front ek back lg1 x lg2,
  chain_inw ctx pre e1 rest post ->
  WElem e1 :: rest = front ++ WElem ek :: back ->
  conds_falsew front sc (r_log st) = Some lg1 ->
  pre_with (cw_with ek) sc lg1 = (inr x, lg2) ->
  exec_list ebody ctx (cw_node e1 :: map itemw_node rest) sc false t st
    = (gaps_textw front, x, set_elemsw false front t, set_log st lg2).
Proof.
  intros ctx pre e1 rest post sc t st front ek back lg1 x lg2 Hch Hsplit Hc Hw.
  rewrite (chainw_exec ctx pre e1 rest post sc false t st Hch). rewrite Hsplit.
  rewrite (spec_prefix_falsew ctx sc front (WElem ek :: back) lg1 t st Hc).
  cbn [chain_specw]. unfold eval_branchw.
  change (r_log (set_log st lg1)) with lg1. rewrite Hw. rewrite app_nil_r. reflexivity.
Qed.

(* 3. Once the entry of the previous chain element is true, the rest of the chain evaluates ONLY its
   with-bindings, for ANY writer and without any assumption about exec: [inertw] mentions neither
   attr_evaluate (no condition, no other expression) nor exec (nothing is rendered); its final log
   is the log after the with steps of the part of the segment that ran (all of it when no write and
   no binding fails: chainw_after_selected_buffer). *)
Theorem chainw_after_selected : forall ctx sc top items pre prev gs post t st,
  ctx = pre ++ prev :: gs ++ map itemw_node items ++ post ->
  NoDup (map n_id ctx) -> is_tag_node prev = true -> Forall is_gap gs -> Forall item_okw items ->
  tbl_get t (n_id prev) = Some true ->
  exec_list ebody ctx (map itemw_node items) sc top t st = inertw items sc top t st /\
  (forall o r t' st', inertw items sc top t st = (o, r, t', st') ->
     exists front back, items = front ++ back /\ r_log st' = withs_log front sc (r_log st)).
Proof.
  intros ctx sc top items pre prev gs post t st Hctx Hnd Hprev Hgs Hok Hget.
  split; [|intros o r t' st'; apply inertw_log].
  revert pre prev gs post t st Hctx Hnd Hprev Hgs Hok Hget.
  induction items as [|[g|e] items IH]; intros pre prev gs post t st Hctx Hnd Hprev Hgs Hok Hget.
  - reflexivity.
  - cbn [map itemw_node exec_list inertw].
    inversion Hok as [|x l Hg Hok']; subst x l. cbn [item_okw] in Hg.
    rewrite (gap_exec is_space to_lower is_letter is_udigit methods call_fn mgr exec 0 ctx g sc top t st Hg).
    apply seq2_wr_ext. intros st'.
    apply (IH pre prev (gs ++ [g]) post t st'); try assumption.
    + rewrite Hctx. cbn [map itemw_node]. rewrite <- (app_assoc gs). reflexivity.
    + apply Forall_app. split; [exact Hgs|constructor; [exact Hg|constructor]].
  - cbn [map itemw_node exec_list inertw].
    inversion Hok as [|x l He Hok']; subst x l. cbn [item_okw] in He.
    assert (Htag : is_tag_node (cw_node e) = true) by (destruct He as [He _]; apply (cw_facts e He)).
    assert (Hpt : prev_tag ctx (cw_id e) None = Some prev).
    { apply (prev_tag_chain ctx pre prev gs (cw_node e) (map itemw_node items ++ post)); assumption. }
    rewrite (elemw_sat_step ctx e prev sc top t st _ (inertw items sc top) He Hpt Hget); [reflexivity|].
    intros t' st' Hb.
    apply (IH (pre ++ prev :: gs) (cw_node e) [] post t' st'); try assumption.
    + rewrite Hctx. cbn [map itemw_node app]. rewrite <- app_assoc. reflexivity.
    + constructor.
Qed.

(* 3 for the buffer writer, explicit: the log grows exactly by the with evaluations *)
Theorem chainw_after_selected_buffer : forall ctx sc items pre prev gs post t st,
  ctx = pre ++ prev :: gs ++ map itemw_node items ++ post ->
  NoDup (map n_id ctx) -> is_tag_node prev = true -> Forall is_gap gs -> Forall item_okw items ->
  tbl_get t (n_id prev) = Some true ->
  (forall lg, withs_ok items sc (r_log st) = Some lg ->
     exec_list ebody ctx (map itemw_node items) sc false t st
       = (gaps_textw items, ROk, set_elemsw true items t, set_log st lg)) /\
  (forall b1 ej b2 lg1 x lg2, items = b1 ++ WElem ej :: b2 ->
     withs_ok b1 sc (r_log st) = Some lg1 -> pre_with (cw_with ej) sc lg1 = (inr x, lg2) ->
     exec_list ebody ctx (map itemw_node items) sc false t st
       = (gaps_textw b1, x, set_elemsw true b1 t, set_log st lg2)).
Proof.
  intros ctx sc items pre prev gs post t st Hctx Hnd Hprev Hgs Hok Hget.
  destruct (chainw_after_selected ctx sc false items pre prev gs post t st Hctx Hnd Hprev Hgs Hok Hget) as [Heq _].
  split.
  - intros lg H. rewrite Heq. apply inertw_false. exact H.
  - intros b1 ej b2 lg1 x lg2 Hs H1 H2. rewrite Heq, Hs. apply (inertw_false_fails b1 ej b2 sc t st lg1 x lg2 H1 H2).
Qed.

(* --- broken chains --- *)
(* an else-ish element (with or without :with) whose previous tag sibling p has no entry: its
   with-bindings are evaluated, then the syntax error is reported *)
Theorem chainw_broken_by_tag : forall ctx pre p gs e post sc top t st sc' lg,
  ctx = pre ++ p :: gs ++ cw_node e :: post -> NoDup (map n_id ctx) ->
  is_tag_node p = true -> Forall is_gap gs -> else_okw e -> tbl_get t (n_id p) = None ->
  pre_with (cw_with e) sc (r_log st) = (inl sc', lg) ->
  ebody 0 ctx (cw_node e) sc top t st = ([], RErr RSyntax, t, set_log st lg).
Proof.
  intros ctx pre p gs e post sc top t st sc' lg Hctx Hnd Hp Hgs [Hok Hne] Hget Hw.
  rewrite (elemw_exec ctx e sc top t st Hok), Hw.
  rewrite (else_orphan is_letter is_udigit methods call_fn mgr exec 0 ctx (cw_node e) (cw_attr e) (cw_cmd e) _ t _ (seqb_neq _ _ Hne)); [reflexivity|].
  right. exists p. split; [|exact Hget].
  apply (prev_tag_chain ctx pre p gs (cw_node e) post); assumption.
Qed.

(* ------------------------------------------------------------------------------------------ *)
(* (b) one element with :with and :if, no chain: the four outcomes in one equation             *)
(* ------------------------------------------------------------------------------------------ *)
(* with-bindings in sc; condition in the extended scope sc'; "true": the nested render (mask 1,
   scope sc') is the element's output; not "true": nothing is written (one empty Write), entry false;
   failing binding: that error, the condition is not evaluated; failing condition: that error *)
Theorem with_if_exec : forall ctx n tok w a sc top t st,
  cond_with n tok w a d_if ->
  ebody 0 ctx n sc top t st =
    match wassign w sc (r_log st) with
    | (inr x, lg0) => ([], x, t, set_log st lg0)
    | (inl sc', lg0) =>
      match aeval a sc' lg0 with
      | (AOk s, lg) =>
        if str_eqb s s_true then
          match exec 1 ctx n sc' false (tbl_set t (n_id n) true) (set_log st lg) with
          | (o, ROk, t2, st2) => wr top o t2 st2
          | (_, r, t2, st2) => ([], r, t2, st2)
          end
        else wr top [] (tbl_set t (n_id n) false) (set_log st lg)
      | (AErr c, lg) => ([], RErr c, t, set_log st lg)
      | (AUnm, lg) => ([], RUnmodelled, t, set_log st lg)
      end
    end.
Proof.
  intros ctx n tok w a sc top t st Hcw.
  rewrite (cond_with_exec ctx n tok w a d_if sc top t st Hcw).
  destruct (cond_with_in n tok w a d_if Hcw) as [_ Hin].
  destruct Hcw as (_ & _ & _ & Ha & Hcn & _ & _ & Hblk).
  destruct (wassign w sc (r_log st)) as [[sc'|x] lg0]; [|reflexivity].
  rewrite if_owner.
  destruct (init_lstate_cond to_lower mgr tok a d_if sc' Hin Ha Hcn Hblk) as (_ & _ & Hdir & Hsc).
  unfold eval_cond. rewrite Hsc. change (r_log (set_log st lg0)) with lg0.
  destruct (aeval a sc' lg0) as [[s|c|] lg]; [|reflexivity|reflexivity].
  change (set_log (set_log st lg0) lg) with (set_log st lg).
  destruct (str_eqb s s_true).
  - change (N.lor 0 1) with 1.
    destruct (exec 1 ctx n sc' false (tbl_set t (n_id n) true) (set_log st lg)) as [[[o r] t2] st2].
    destruct r; try reflexivity; cbn [l_direct add_direct set_child]; rewrite Hdir; reflexivity.
  - cbn [l_direct set_child]. rewrite Hdir. reflexivity.
Qed.

(* ------------------------------------------------------------------------------------------ *)
(* the re-execution (mask 1) of an element with :with and a condition, for the body itself:    *)
(* neither directive is evaluated; the tag with its plain attributes and the children are       *)
(* rendered in the scope handed in (for the selected element: the extended scope)              *)
(* ------------------------------------------------------------------------------------------ *)
Fixpoint plain_out (attrs l : list attr) : str :=
  match l with
  | [] => []
  | b :: r =>
    (if prefixb (m_attr_prefix mgr) (a_name b) then []
     else if has_attr_named attrs (m_attr_prefix mgr ++ a_name b) then []
     else [cSP] ++ a_name b ++ match a_value b with Some v => cEQ :: v | None => [] end) ++ plain_out attrs r
  end.

Lemma plain_out_app : forall attrs l1 l2, plain_out attrs (l1 ++ l2) = plain_out attrs l1 ++ plain_out attrs l2.
Proof. intros attrs l1 l2. induction l1 as [|b l1 IH]; [reflexivity|]. cbn [app plain_out]. rewrite IH, app_assoc. reflexivity. Qed.

Lemma run_attrs_plain_out : forall mask ctx n attrs l1 l2 t st,
  Forall (fun b => prefixb (m_attr_prefix mgr) (a_name b) = false) l1 ->
  forall ls, rattrs mask ctx n attrs (l1 ++ l2) ls t st
             = rattrs mask ctx n attrs l2 (set_tagbuf ls (l_tagbuf ls ++ plain_out attrs l1)) t st.
Proof.
  intros mask ctx n attrs l1 l2 t st HF. induction HF as [|b l1 Hb HF IH]; intros ls.
  - cbn [app plain_out]. rewrite app_nil_r. destruct ls; reflexivity.
  - cbn [app run_attrs plain_out]. rewrite Hb.
    assert (Hown : is_owner mgr mask b = false).
    { unfold is_owner, prefix. rewrite Hb. reflexivity. }
    unfold attr_step. cbv zeta. unfold prefix. rewrite Hb.
    destruct (has_attr_named attrs (m_attr_prefix mgr ++ a_name b)); rewrite Hown; rewrite IH.
    + reflexivity.
    + cbn [add_tagbuf set_tagbuf l_sc l_np l_child l_tagbuf l_content l_direct l_replace].
      rewrite <- app_assoc. reflexivity.
Qed.

Lemma filter_nil_forall : forall (A : Type) (f : A -> bool) l, filter f l = [] -> Forall (fun b => f b = false) l.
Proof.
  intros A f l. induction l as [|x l IH]; intros H; [constructor|]. cbn [filter] in H.
  destruct (f x) eqn:E; [discriminate|]. constructor; [exact E|apply IH; exact H].
Qed.

Lemma cond_with_sorted3 : forall n tok w a cmd, cond_with n tok w a cmd ->
  exists l1 l2 l3, sorted_attrs (m_attr_prefix mgr) (t_attrs tok) = l1 ++ w :: l2 ++ a :: l3 /\
    Forall (fun b => prefixb (m_attr_prefix mgr) (a_name b) = false) l1 /\
    Forall (fun b => prefixb (m_attr_prefix mgr) (a_name b) = false) l2 /\
    Forall (fun b => prefixb (m_attr_prefix mgr) (a_name b) = false) l3.
Proof.
  intros n tok w a cmd (_ & _ & Hw & Ha & Hcn & _ & Hd & _).
  assert (Hf : filter (pref (m_attr_prefix mgr)) (sorted_attrs (m_attr_prefix mgr) (t_attrs tok)) = [w; a]).
  { rewrite filter_sorted_attrs. fold (dirs tok).
    destruct (sorted_with_cond (m_attr_prefix mgr) w a cmd Hw Ha Hcn) as [H1 H2].
    destruct Hd as [Hd|Hd]; rewrite Hd; assumption. }
  destruct (filter_cons_split _ _ _ _ _ Hf) as [l1 [r1 [Hs1 [HF1 Hr1]]]].
  destruct (filter_cons_split _ _ _ _ _ Hr1) as [l2 [l3 [Hs2 [HF2 Hr2]]]].
  exists l1, l2, l3. split; [rewrite Hs1, Hs2; reflexivity|]. split; [exact HF1|]. split; [exact HF2|].
  exact (filter_nil_forall _ _ _ Hr2).
Qed.

(* the only directives of the tag are :with and the condition *)
Lemma cond_with_has_dir : forall n tok w a cmd d, cond_with n tok w a cmd ->
  has_dir mgr (t_attrs tok) d = true -> d = d_with \/ d = cmd.
Proof.
  intros n tok w a cmd d (_ & _ & Hw & Ha & _ & _ & Hd & _) H.
  unfold has_dir, has_attr_named, prefix in H. apply existsb_exists in H. destruct H as [b [Hin Hb]].
  apply seqb_eq in Hb.
  assert (Hdb : In b (dirs tok)).
  { unfold dirs. apply filter_In. split; [exact Hin|]. unfold pref. rewrite Hb. apply prefixb_app. }
  assert (Hwa : b = w \/ b = a) by (destruct Hd as [Hd|Hd]; rewrite Hd in Hdb; cbn in Hdb; intuition).
  destruct Hwa as [E|E]; subst b; [left; rewrite Hw in Hb|right; rewrite Ha in Hb];
    apply app_inv_head in Hb; symmetry; exact Hb.
Qed.

Lemma cond_with_init1 : forall n tok w a cmd sc, cond_with n tok w a cmd ->
  ilstate 1 tok sc = mkL sc false CDefault (cLT :: t_name tok) [] [] false.
Proof.
  intros n tok w a cmd sc Hcw.
  assert (Hno : forall d, d <> d_with -> is_cond_name d = false -> has_dir mgr (t_attrs tok) d = false).
  { intros d H1 H2. destruct (has_dir mgr (t_attrs tok) d) eqn:E; [|reflexivity].
    destruct (cond_with_has_dir n tok w a cmd d Hcw E) as [->| ->]; [contradiction|].
    destruct Hcw as (_ & _ & _ & _ & Hcn & _). rewrite Hcn in H2. discriminate. }
  destruct Hcw as (_ & _ & _ & _ & _ & _ & _ & Hblk).
  unfold init_lstate. cbv zeta. rewrite Hblk.
  rewrite (Hno d_define), (Hno d_replace), (Hno d_range), (Hno d_insert); try discriminate; try reflexivity.
  change (N.eqb (N.land 1 1) 0) with false. rewrite andb_false_r. reflexivity.
Qed.

Theorem cond_with_reexec : forall ctx n tok w a cmd sc top t st,
  cond_with n tok w a cmd ->
  ebody 1 ctx n sc top t st =
    seq2 (wr top (cLT :: t_name tok ++ plain_out (t_attrs tok) (sorted_attrs (m_attr_prefix mgr) (t_attrs tok)) ++ [cGT]) t st)
      (fun t2 st2 =>
         seq2 (exec_list exec (n_children n) (n_children n) sc top t2 st2)
              (fun t3 st3 => match n_end n with Some e => wr top (t_value e) t3 st3 | None => ([], ROk, t3, st3) end)).
Proof.
  intros ctx n tok w a cmd sc top t st Hcw.
  destruct (cond_with_sorted3 n tok w a cmd Hcw) as [l1 [l2 [l3 [Hsort [HF1 [HF2 HF3]]]]]].
  pose proof (cond_with_init1 n tok w a cmd sc Hcw) as Hinit.
  destruct Hcw as (Htok & Hkind & Hw & Ha & Hcn & Hv & _ & _).
  unfold exec_body. rewrite Htok, Hkind. rewrite exec_tag_finish, Hsort, Hinit.
  assert (Hpw : prefixb (m_attr_prefix mgr) (a_name w) = true) by (rewrite Hw; apply prefixb_app).
  assert (Hpa : prefixb (m_attr_prefix mgr) (a_name a) = true) by (rewrite Ha; apply prefixb_app).
  rewrite !plain_out_app. cbn [plain_out]. rewrite plain_out_app. cbn [plain_out]. rewrite Hpw, Hpa. cbn [app].
  rewrite (run_attrs_plain_out 1 ctx n (t_attrs tok) l1 (w :: l2 ++ a :: l3) t st HF1).
  cbn [run_attrs].
  rewrite (attr_step_with_skip 1 ctx n (t_attrs tok) w _ t st Hw) by discriminate.
  rewrite (is_owner_with 1 w Hw).
  rewrite (run_attrs_plain_out 1 ctx n (t_attrs tok) l2 (a :: l3) t st HF2).
  cbn [run_attrs].
  assert (Hstep : forall ls, astep 1 ctx n (t_attrs tok) a ls t st = (inl ls, t, st)).
  { intros ls. unfold attr_step. cbv zeta. unfold prefix. rewrite Ha, prefixb_app, skipn_app_len.
    rewrite (cond_name_not_with cmd Hcn), Hcn. destruct (a_value a) as [v|]; [reflexivity|contradiction]. }
  assert (Hown : is_owner mgr 1 a = false).
  { unfold is_owner. cbv zeta. unfold prefix. rewrite Ha, prefixb_app, skipn_app_len, Hcn.
    change (N.eqb (N.land 1 1) 0) with false. cbn [andb orb].
    destruct (str_eqb cmd d_range) eqn:E; [|reflexivity].
    apply seqb_eq in E. subst cmd. discriminate Hcn. }
  rewrite Hstep, Hown.
  pose proof (run_attrs_plain_out 1 ctx n (t_attrs tok) l3 [] t st HF3) as H3. rewrite app_nil_r in H3. rewrite H3.
  cbn [run_attrs]. unfold finish, token_buf, run_child, set_tagbuf.
  cbn [l_sc l_np l_child l_tagbuf l_content l_direct l_replace app].
  rewrite <- !app_assoc. reflexivity.
Qed.

(* ------------------------------------------------------------------------------------------ *)
(* 4. the theorems of ChainProps / Props.C03 as corollaries (elements without :with)           *)
(* ------------------------------------------------------------------------------------------ *)
Notation conds_false := (ChainProps.conds_false is_letter is_udigit methods call_fn mgr).
Notation chain_in := (ChainProps.chain_in to_lower mgr exec).
Notation item_ok := (ChainProps.item_ok to_lower mgr).
Notation inert := (ChainProps.inert is_space).

Lemma lift_conds_false : forall l sc lg, conds_falsew (lift l) sc lg = conds_false l sc lg.
Proof.
  induction l as [|[g|e] l IH]; intros sc lg; cbn [lift map lift1 conds_falsew ChainProps.conds_false]; [reflexivity|apply IH|].
  cbn [cw_with pre_with]. change (cw_attr (mkCW e None)) with (ce_attr e).
  destruct (aeval (ce_attr e) sc lg) as [[s|c|] lg']; try reflexivity.
  destruct (str_eqb s s_true); [reflexivity|apply IH].
Qed.
Lemma lift_withs_ok : forall l sc lg, withs_ok (lift l) sc lg = Some lg.
Proof. induction l as [|[g|e] l IH]; intros sc lg; cbn [lift map lift1 withs_ok cw_with pre_with]; [reflexivity|apply IH|apply IH]. Qed.
Lemma lift_gaps : forall l, gaps_textw (lift l) = gaps_text l.
Proof. induction l as [|[g|e] l IH]; cbn [lift map lift1 gaps_textw ChainProps.gaps_text]; [reflexivity|rewrite <- IH; reflexivity|exact IH]. Qed.
Lemma lift_set_elems : forall b l t, set_elemsw b (lift l) t = set_elems b l t.
Proof. intros b l. induction l as [|[g|e] l IH]; intros t; cbn [lift map lift1 set_elemsw set_elems]; [reflexivity|apply IH|apply IH]. Qed.
Lemma lift_nodes : forall l, map itemw_node (lift l) = map item_node l.
Proof. induction l as [|[g|e] l IH]; cbn [lift map lift1 itemw_node item_node]; [reflexivity| |]; f_equal; exact IH. Qed.
Lemma lift_inert : forall l sc top t st, inertw (lift l) sc top t st = inert l top t st.
Proof.
  induction l as [|[g|e] l IH]; intros sc top t st; cbn [lift map lift1 inertw ChainProps.inert cw_with pre_with]; [reflexivity| |].
  - apply seq2_ext. intros t1 st1. apply IH.
  - rewrite set_log_same. apply seq2_ext. intros t1 st1. apply IH.
Qed.
Lemma lift_item_ok : forall l, Forall item_ok l -> Forall item_okw (lift l).
Proof.
  intros l H. induction H as [|[g|e] l Hx H IH]; cbn [lift map lift1]; constructor; try exact IH; exact Hx.
Qed.
Lemma lift_in : forall l e, In (WElem e) (lift l) -> exists e0, e = mkCW e0 None /\ In (IElem e0) l.
Proof.
  intros l e H. unfold lift in H. apply in_map_iff in H. destruct H as [[g|e0] [H1 H2]]; cbn [lift1] in H1; [discriminate|].
  inversion H1; subst. exists e0. split; [reflexivity|exact H2].
Qed.
Lemma lift_chain_in : forall ctx pre e1 rest post, chain_in ctx pre e1 rest post ->
  chain_inw ctx pre (mkCW e1 None) (lift rest) post.
Proof.
  intros ctx pre e1 rest post (Hctx & Hnd & Hok & Hcmd & Hrest & Hkeep).
  unfold chain_inw. rewrite lift_nodes.
  split; [exact Hctx|]. split; [exact Hnd|]. split; [exact Hok|]. split; [exact Hcmd|].
  split; [apply lift_item_ok; exact Hrest|].
  intros e [He|He].
  - inversion He; subst. apply Hkeep. left. reflexivity.
  - destruct (lift_in _ _ He) as [e0 [-> Hin]]. apply Hkeep. right. exact Hin.
Qed.

Corollary chain_first_true_cor : forall ctx pre e1 rest post sc t st front ek back lg1 s lg2 o t2 st2,
  chain_in ctx pre e1 rest post ->
  IElem e1 :: rest = front ++ IElem ek :: back ->
  conds_false front sc (r_log st) = Some lg1 ->
  aeval (ce_attr ek) sc lg1 = (AOk s, lg2) -> str_eqb s s_true = true ->
  exec (N.lor 0 1) ctx (ce_node ek) sc false (tbl_set (set_elems false front t) (ce_id ek) true) (set_log st lg2)
    = (o, ROk, t2, st2) ->
  exec_list ebody ctx (ce_node e1 :: map item_node rest) sc false t st
    = (gaps_text front ++ o ++ gaps_text back, ROk, set_elems true back t2, st2).
Proof.
  intros ctx pre e1 rest post sc t st front ek back lg1 s lg2 o t2 st2 Hch Hsplit Hc Ha Hs Hex.
  pose proof (chainw_first_true ctx pre (mkCW e1 None) (lift rest) post sc t st (lift front) (mkCW ek None) (lift back)
                lg1 sc lg1 s lg2 o t2 st2 (r_log st2) (lift_chain_in _ _ _ _ _ Hch)) as H.
  rewrite lift_nodes, !lift_gaps, !lift_set_elems, lift_conds_false, lift_withs_ok, set_log_same in H.
  apply H; try assumption; try reflexivity.
  change (WElem (mkCW e1 None) :: lift rest) with (lift (IElem e1 :: rest)). rewrite Hsplit.
  unfold lift. rewrite map_app. reflexivity.
Qed.

Corollary chain_none_rendered_cor : forall ctx pre e1 rest post sc t st lg,
  chain_in ctx pre e1 rest post ->
  conds_false (IElem e1 :: rest) sc (r_log st) = Some lg ->
  exec_list ebody ctx (ce_node e1 :: map item_node rest) sc false t st
    = (gaps_text rest, ROk, set_elems false (IElem e1 :: rest) t, set_log st lg).
Proof.
  intros ctx pre e1 rest post sc t st lg Hch Hc.
  pose proof (chainw_none_rendered ctx pre (mkCW e1 None) (lift rest) post sc t st lg (lift_chain_in _ _ _ _ _ Hch)) as H.
  change (WElem (mkCW e1 None) :: lift rest) with (lift (IElem e1 :: rest)) in H.
  rewrite lift_nodes, lift_gaps, lift_set_elems, lift_conds_false in H. apply H. exact Hc.
Qed.

Corollary chain_eval_fails_cor : forall ctx pre e1 rest post sc t st front ek back lg1 c lg2,
  chain_in ctx pre e1 rest post ->
  IElem e1 :: rest = front ++ IElem ek :: back ->
  conds_false front sc (r_log st) = Some lg1 ->
  aeval (ce_attr ek) sc lg1 = (AErr c, lg2) ->
  exec_list ebody ctx (ce_node e1 :: map item_node rest) sc false t st
    = (gaps_text front, RErr c, set_elems false front t, set_log st lg2).
Proof.
  intros ctx pre e1 rest post sc t st front ek back lg1 c lg2 Hch Hsplit Hc Ha.
  pose proof (chainw_eval_fails ctx pre (mkCW e1 None) (lift rest) post sc t st (lift front) (mkCW ek None) (lift back)
                lg1 sc lg1 c lg2 (lift_chain_in _ _ _ _ _ Hch)) as H.
  rewrite lift_nodes, lift_gaps, lift_set_elems, lift_conds_false in H.
  apply H; try assumption; try reflexivity.
  change (WElem (mkCW e1 None) :: lift rest) with (lift (IElem e1 :: rest)). rewrite Hsplit.
  unfold lift. rewrite map_app. reflexivity.
Qed.

Corollary chain_no_eval_after_selected_cor : forall ctx sc top items pre prev gs post t st,
  ctx = pre ++ prev :: gs ++ map item_node items ++ post ->
  NoDup (map n_id ctx) -> is_tag_node prev = true -> Forall is_gap gs -> Forall item_ok items ->
  tbl_get t (n_id prev) = Some true ->
  exec_list ebody ctx (map item_node items) sc top t st = inert items top t st.
Proof.
  intros ctx sc top items pre prev gs post t st Hctx Hnd Hprev Hgs Hok Hget.
  rewrite <- (lift_nodes items) in Hctx |- *.
  destruct (chainw_after_selected ctx sc top (lift items) pre prev gs post t st Hctx Hnd Hprev Hgs (lift_item_ok _ Hok) Hget) as [H _].
  rewrite H. apply lift_inert.
Qed.

End ChainW.

(* ------------------------------------------------------------------------------------------ *)
(* The renderer itself (exec_node, any fuel): keeps_own is discharged by ChainProps.Touch       *)
(* ------------------------------------------------------------------------------------------ *)
Section NodeW.
Variable is_space : rune -> bool.
Variable to_lower : rune -> rune.
Variable is_letter : rune -> bool.
Variable is_udigit : rune -> bool.
Variable methods : N -> bool -> list (str * N).
Variable call_fn : N -> list value -> fres.
Variable mgr : manager.
Notation enode := (exec_node is_space to_lower is_letter is_udigit methods call_fn mgr).

Lemma chain_inw_node : forall f ctx pre e1 rest post,
  ctx = pre ++ cw_node e1 :: map itemw_node rest ++ post -> NoDup (map n_id ctx) ->
  cw_ok to_lower mgr e1 -> cw_cmd e1 = d_if -> Forall (item_okw to_lower mgr) rest ->
  (forall e, In (WElem e) (WElem e1 :: rest) -> ~ In (cw_id e) (sub_ids (cw_node e))) ->
  chain_inw to_lower mgr (enode f) ctx pre e1 rest post.
Proof.
  intros f ctx pre e1 rest post Hctx Hnd Hok Hcmd Hrest Hids.
  unfold chain_inw. split; [exact Hctx|]. split; [exact Hnd|]. split; [exact Hok|]. split; [exact Hcmd|]. split; [exact Hrest|].
  intros e He. apply exec_node_keeps_own. apply Hids. exact He.
Qed.

(* fuel S f for the chain elements, f for the nested render of the selected element *)
Theorem chainw_exec_node : forall f ctx pre e1 rest post sc top t st,
  ctx = pre ++ cw_node e1 :: map itemw_node rest ++ post -> NoDup (map n_id ctx) ->
  cw_ok to_lower mgr e1 -> cw_cmd e1 = d_if -> Forall (item_okw to_lower mgr) rest ->
  (forall e, In (WElem e) (WElem e1 :: rest) -> ~ In (cw_id e) (sub_ids (cw_node e))) ->
  exec_list (enode (S f)) ctx (cw_node e1 :: map itemw_node rest) sc top t st
  = chain_specw is_space is_letter is_udigit methods call_fn mgr (enode f) ctx false (WElem e1 :: rest) sc top t st.
Proof.
  intros f ctx pre e1 rest post sc top t st Hctx Hnd Hok Hcmd Hrest Hids.
  change (enode (S f)) with (exec_body is_space to_lower is_letter is_udigit methods call_fn mgr (enode f)).
  apply (chainw_exec is_space to_lower is_letter is_udigit methods call_fn mgr _ ctx pre e1 rest post).
  apply chain_inw_node; assumption.
Qed.

(* the nested render of the selected element by the renderer itself: the tag, its plain attributes
   and its children in the scope handed in; neither :with nor the condition is evaluated again *)
Theorem cond_with_reexec_node : forall f ctx n tok w a cmd sc top t st,
  cond_with to_lower mgr n tok w a cmd ->
  enode (S f) 1 ctx n sc top t st =
    seq2 (wr top (cLT :: t_name tok ++ plain_out mgr (t_attrs tok) (sorted_attrs (m_attr_prefix mgr) (t_attrs tok)) ++ [cGT]) t st)
      (fun t2 st2 =>
         seq2 (exec_list (enode f) (n_children n) (n_children n) sc top t2 st2)
              (fun t3 st3 => match n_end n with Some e => wr top (t_value e) t3 st3 | None => ([], ROk, t3, st3) end)).
Proof.
  intros f ctx n tok w a cmd sc top t st Hcw.
  change (enode (S f)) with (exec_body is_space to_lower is_letter is_udigit methods call_fn mgr (enode f)).
  apply (cond_with_reexec is_space to_lower is_letter is_udigit methods call_fn mgr (enode f) ctx n tok w a cmd sc top t st Hcw).
Qed.
End NodeW.

(* ------------------------------------------------------------------------------------------ *)
(* Non-vacuity: <div class="x" :if="${a}" :with="a := ${p}"> text                              *)
(*              <div class="x" :with="b := ${q}" :else-if="${b}"> <div class="x" :else="true"> *)
(* (prefix ":"; the first element has the condition BEFORE :with in the source)                *)
(* ------------------------------------------------------------------------------------------ *)
Definition exw_tok (l : list attr) : token := mkTok KTag [] (1,1) (1,1) [100;105;118] (ex_class :: l).
Definition exw_w1 : attr := ex_attr d_with [34;97;32;58;61;32;36;123;112;125;34].     (* "a := ${p}" *)
Definition exw_w2 : attr := ex_attr d_with [34;98;32;58;61;32;36;123;113;125;34].     (* "b := ${q}" *)
Definition exw_c1 : attr := ex_attr d_if [34;36;123;97;125;34].                       (* "${a}" *)
Definition exw_c2 : attr := ex_attr d_else_if [34;36;123;98;125;34].                  (* "${b}" *)
Definition exw_e1 : celemw :=
  mkCW (mkCE (Node 1 (Some (exw_tok [exw_c1; exw_w1])) [] None) (exw_tok [exw_c1; exw_w1]) exw_c1 d_if) (Some exw_w1).
Definition exw_e2 : celemw :=
  mkCW (mkCE (Node 3 (Some (exw_tok [exw_w2; exw_c2])) [] None) (exw_tok [exw_w2; exw_c2]) exw_c2 d_else_if) (Some exw_w2).
Definition exw_e3 : celemw := mkCW ex_e3 None.
Definition exw_rest : list itemw := [WGap ex_text; WElem exw_e2; WElem exw_e3].
Definition exw_ctx : list node := cw_node exw_e1 :: map itemw_node exw_rest.

Example exw_ok1 : cw_ok ex_lower ex_mgr exw_e1.
Proof.
  unfold cw_ok, cond_with. cbn [exw_e1 cw_with cw_node cw_tok cw_attr cw_cmd cw_elem ce_node ce_tok ce_attr ce_cmd n_tok].
  repeat split; try reflexivity; try discriminate. right. reflexivity.
Qed.
Example exw_ok2 : cw_ok ex_lower ex_mgr exw_e2.
Proof.
  unfold cw_ok, cond_with. cbn [exw_e2 cw_with cw_node cw_tok cw_attr cw_cmd cw_elem ce_node ce_tok ce_attr ce_cmd n_tok].
  repeat split; try reflexivity; try discriminate. left. reflexivity.
Qed.
Example exw_ok3 : cw_ok ex_lower ex_mgr exw_e3.
Proof. unfold cw_ok. cbn [exw_e3 cw_with cw_elem]. apply ex_cond_only. reflexivity. Qed.

(* the chain rendered by the renderer itself (any fuel): every hypothesis is discharged *)
Example exw_chain_exec_node : forall is_space is_letter is_udigit methods call_fn f sc top t st,
  exec_list (exec_node is_space ex_lower is_letter is_udigit methods call_fn ex_mgr (S f)) exw_ctx exw_ctx sc top t st
    = chain_specw is_space is_letter is_udigit methods call_fn ex_mgr
        (exec_node is_space ex_lower is_letter is_udigit methods call_fn ex_mgr f) exw_ctx false (WElem exw_e1 :: exw_rest) sc top t st.
Proof.
  intros. apply (chainw_exec_node is_space ex_lower is_letter is_udigit methods call_fn ex_mgr f exw_ctx [] exw_e1 exw_rest []).
  - reflexivity.
  - cbn. repeat constructor; cbn; intuition discriminate.
  - exact exw_ok1.
  - reflexivity.
  - constructor; [exact ex_gap|].
    constructor; [split; [exact exw_ok2|discriminate]|].
    constructor; [split; [exact exw_ok3|discriminate]|].
    constructor.
  - intros e [H|[H|[H|[H|[]]]]]; try discriminate; inversion H; subst e; intros [].
Qed.

Print Assumptions filter_sorted_attrs.
Print Assumptions cond_with_exec.
Print Assumptions with_if_exec.
Print Assumptions cond_with_reexec.
Print Assumptions chainw_exec.
Print Assumptions chainw_first_true.
Print Assumptions chainw_first_true_later_with_fails.
Print Assumptions chainw_selected_fails.
Print Assumptions chainw_none_rendered.
Print Assumptions chainw_eval_fails.
Print Assumptions chainw_with_fails.
Print Assumptions chainw_after_selected.
Print Assumptions chainw_after_selected_buffer.
Print Assumptions chainw_broken_by_tag.
Print Assumptions chain_first_true_cor.
Print Assumptions chain_none_rendered_cor.
Print Assumptions chain_eval_fails_cor.
Print Assumptions chain_no_eval_after_selected_cor.
Print Assumptions chainw_exec_node.
Print Assumptions cond_with_reexec_node.
Print Assumptions exw_chain_exec_node.

(* ------------------------------------------------------------------------------------------ *)
(* the table after a chain in which ek was selected (ChainProps.selected_final_table, lifted)  *)
(* ------------------------------------------------------------------------------------------ *)
Theorem selected_final_tablew : forall front ek back (t t2 : tbl),
  NoDup (elem_ids (strip (front ++ WElem ek :: back))) ->
  (forall id, In id (elem_ids (strip (front ++ WElem ek :: back))) ->
     tbl_get t2 id = tbl_get (tbl_set (set_elemsw false front t) (cw_id ek) true) id) ->
  let final := set_elemsw true back t2 in
  (forall e, In (WElem e) front -> tbl_get final (cw_id e) = Some false) /\
  tbl_get final (cw_id ek) = Some true /\
  (forall e, In (WElem e) back -> tbl_get final (cw_id e) = Some true).
Proof.
  intros front ek back t t2 Hnd Hkeep final. subst final.
  assert (Hs : strip (front ++ WElem ek :: back) = strip front ++ IElem (cw_elem ek) :: strip back)
    by (unfold strip; rewrite map_app; reflexivity).
  rewrite Hs in Hnd, Hkeep. rewrite set_elemsw_strip in *.
  assert (Hk : forall id, In id (elem_ids (strip front ++ IElem (cw_elem ek) :: strip back)) ->
             tbl_get t2 id = tbl_get (tbl_set (set_elems false (strip front) t) (ce_id (cw_elem ek)) true) id).
  { intros id Hid. exact (Hkeep id Hid). }
  destruct (selected_final_table (strip front) (cw_elem ek) (strip back) t t2 Hnd Hk) as (H1 & H2 & H3 & _).
  split; [|split].
  - intros e He. apply (H1 (cw_elem e)). unfold strip. apply in_map_iff. exists (WElem e). split; [reflexivity|exact He].
  - exact H2.
  - intros e He. apply (H3 (cw_elem e)). unfold strip. apply in_map_iff. exists (WElem e). split; [reflexivity|exact He].
Qed.
Print Assumptions selected_final_tablew.
