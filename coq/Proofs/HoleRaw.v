(* C02, structure clause, extension to raw-text elements (script, style, ...): a string without '<'
   inserted in the content of a raw-text element, at a point where no candidate closing tag is being
   matched (x_tagbuf = []), never changes how the surrounding document is tokenised.
   Same assumption Hcomp on the attribute compiler as in HoleInvariant.v. *)
From Coq Require Import List NArith Bool Lia Arith.
From Tpl Require Import Html.Scan Proofs.ScanConcat Proofs.PrintScanDefs Proofs.PrintScanSteps
  Proofs.HoleSim Proofs.HoleInvariant.
Import ListNotations.
Open Scope N_scope.
Local Arguments adv : simpl never.
Local Arguments Scan.step : simpl never.

(* the text token of the raw content: absent only if the content is empty *)
Definition raw_hole (ox w : str) (h : list token) : Prop :=
  (h = [] /\ ox ++ w = []) \/ exists st e, h = [mkTok KText (ox ++ w) st e [] []].

(* the same at the point where the closing tag is recognised: a token iff the content is non-empty *)
Definition raw_hole_s (ox w : str) (h : list token) : Prop :=
  (h = [] /\ ox ++ w = []) \/ exists st e, h = [mkTok KText (ox ++ w) st e [] []] /\ ox ++ w <> [].

Lemma raw_hole_weaken ox w h : raw_hole_s ox w h -> raw_hole ox w h.
Proof. intros [H|(st & e & H & _)]; [left; exact H|right; eauto]. Qed.

Lemma raw_hole_s_len ox1 ox2 w h1 h2 : (ox1 = [] <-> ox2 = []) ->
  raw_hole_s ox1 w h1 -> raw_hole_s ox2 w h2 -> length h1 = length h2.
Proof.
  intros HP [(-> & V1)|(st1 & en1 & -> & N1)] [(-> & V2)|(st2 & en2 & -> & N2)]; try reflexivity; exfalso.
  - apply app_eq_nil in V1 as [V1 ->]. apply N2. rewrite (proj1 HP V1). reflexivity.
  - apply app_eq_nil in V2 as [V2 ->]. apply N1. rewrite (proj2 HP V2). reflexivity.
Qed.

Section Raw.
Variable is_space : rune -> bool.
Variable to_lower : rune -> rune.
Variable text_tags : list str.
Variable attr_prefix : str.
Variable compile : attr -> bool.
Hypothesis Hcomp : forall a1 a2, a_name a1 = a_name a2 -> a_value a1 = a_value a2 -> compile a1 = compile a2.

Notation step := (Scan.step is_space to_lower text_tags attr_prefix compile).
Notation run := (@fold_left sstate rune (Scan.step is_space to_lower text_tags attr_prefix compile)).
Notation scan := (Scan.scan is_space to_lower text_tags attr_prefix compile).
Notation text_step := (Scan.text_step is_space to_lower).
Notation raw_tag_of_last := (Scan.raw_tag_of_last to_lower text_tags).
Notation run_app := (HoleSim.run_app is_space to_lower text_tags attr_prefix compile).
Notation simB := (HoleSim.simB to_lower text_tags).

Section R.
Variables ox1 ox2 : str.

(* raw text states: the contents are ox_i ++ pre ++ tagbuf, everything else equal up to positions *)
Inductive xr_rel : textst -> textst -> Prop :=
| XRR b1 b2 pre tagbuf st1 st2 close rawname e1 e2 namebuf :
    b1 = ox1 ++ pre ++ tagbuf -> b2 = ox2 ++ pre ++ tagbuf ->
    xr_rel (mkText b1 st1 true close rawname e1 tagbuf namebuf) (mkText b2 st2 true close rawname e2 tagbuf namebuf).

Inductive rres_rel (toks1 toks2 : list token) : tres -> tres -> Prop :=
| RRR_text x1 x2 : xr_rel x1 x2 -> rres_rel toks1 toks2 (TR toks1 (MText x1) false) (TR toks2 (MText x2) false)
| RRR_emit w tb rawname e1 e2 p1 p2 h1 h2 :
    raw_hole_s ox1 w h1 -> raw_hole_s ox2 w h2 ->
    rres_rel toks1 toks2 (TR (mkTok KTag tb e1 p1 (cSLASH :: rawname) [] :: h1 ++ toks1) MInit false)
                         (TR (mkTok KTag tb e2 p2 (cSLASH :: rawname) [] :: h2 ++ toks2) MInit false).

Ltac xr P T := apply RRR_text; apply (XRR _ _ P T); rewrite ?app_nil_r, <- ?app_assoc; cbn [app]; reflexivity.

Lemma raw_step_sim toks1 toks2 x1 x2 r p0 p1 q0 q1 :
  xr_rel x1 x2 -> rres_rel toks1 toks2 (text_step toks1 x1 r p0 p1) (text_step toks2 x2 r q0 q1).
Proof.
  intros [b1 b2 pre tagbuf st1 st2 close rawname e1 e2 namebuf -> ->].
  unfold Scan.text_step. text_cbn.
  destruct (N.eqb r cLT) eqn:Elt; text_cbn.
  - cbn [negb app].
    destruct (prefixb _ close).
    + destruct (N.eqb r cGT) eqn:Egt.
      * apply N.eqb_eq in Elt, Egt. subst r. discriminate.
      * xr (pre ++ tagbuf) [r].
    + xr (pre ++ tagbuf ++ [r]) (@nil rune).
  - destruct tagbuf as [|t0 tb]; cbn [negb].
    + xr (pre ++ [r]) (@nil rune).
    + destruct (prefixb _ close).
      * destruct (N.eqb r cGT) eqn:Egt.
        -- rewrite !(app_assoc _ pre), !firstn_pre_app.
           destruct (ox1 ++ pre) as [|c1 l1] eqn:E1; destruct (ox2 ++ pre) as [|c2 l2] eqn:E2.
           ++ apply (RRR_emit toks1 toks2 pre _ _ _ _ _ _ [] []); left; auto.
           ++ apply (RRR_emit toks1 toks2 pre _ _ _ _ _ _ [] [_]); [left; auto|right; rewrite E2; do 2 eexists; split; [reflexivity|discriminate]].
           ++ apply (RRR_emit toks1 toks2 pre _ _ _ _ _ _ [_] []); [right; rewrite E1; do 2 eexists; split; [reflexivity|discriminate]|left; auto].
           ++ apply (RRR_emit toks1 toks2 pre _ _ _ _ _ _ [_] [_]); right; [rewrite E1|rewrite E2]; do 2 eexists; (split; [reflexivity|discriminate]).
        -- xr pre ((t0 :: tb) ++ [r]).
      * xr (pre ++ (t0 :: tb) ++ [r]) (@nil rune).
Qed.

Inductive simR (toks1 toks2 : list token) : sstate -> sstate -> Prop :=
| SR p1 p2 x1 x2 : xr_rel x1 x2 -> simR toks1 toks2 (mkS toks1 p1 (MText x1)) (mkS toks2 p2 (MText x2)).

Definition emitR (toks1 toks2 : list token) (s1 s2 : sstate) : Prop :=
  exists w tb rawname e1 e2 p1 p2 q1 q2 h1 h2,
    raw_hole_s ox1 w h1 /\ raw_hole_s ox2 w h2 /\
    s1 = mkS (mkTok KTag tb e1 p1 (cSLASH :: rawname) [] :: h1 ++ toks1) q1 MInit /\
    s2 = mkS (mkTok KTag tb e2 p2 (cSLASH :: rawname) [] :: h2 ++ toks2) q2 MInit.

Lemma stepR toks1 toks2 s1 s2 r : simR toks1 toks2 s1 s2 ->
  simR toks1 toks2 (step s1 r) (step s2 r) \/ emitR toks1 toks2 (step s1 r) (step s2 r).
Proof.
  intros [p1 p2 x1 x2 Hx]. unfold Scan.step. cbn [s_toks s_pos s_mode Scan.dispatch].
  pose proof (raw_step_sim toks1 toks2 x1 x2 r p1 (adv p1 r) p2 (adv p2 r) Hx) as T.
  remember (text_step toks1 x1 r p1 (adv p1 r)) as R1 eqn:E1.
  remember (text_step toks2 x2 r p2 (adv p2 r)) as R2 eqn:E2.
  destruct T as [x1' x2' Hx'|w tb rawname e1 e2 a1 a2 h1 h2 H1 H2]; clear E1 E2.
  - left. constructor. exact Hx'.
  - right. unfold emitR. do 11 eexists. split; [exact H1|]. split; [exact H2|]. split; reflexivity.
Qed.

Lemma runR toks1 toks2 (src : str) : forall s1 s2, simR toks1 toks2 s1 s2 ->
  simR toks1 toks2 (run src s1) (run src s2) \/
  (exists pre rest : str, src = pre ++ rest /\ emitR toks1 toks2 (run pre s1) (run pre s2)).
Proof.
  induction src as [|r src IH]; intros s1 s2 H; cbn [fold_left]; [left; exact H|].
  destruct (stepR _ _ _ _ r H) as [H'|H'].
  - destruct (IH _ _ H') as [L|(pre & rest & E & HE)]; [left; exact L|].
    right. exists (r :: pre), rest. rewrite E. split; [reflexivity|exact HE].
  - right. exists [r], src. split; [reflexivity|exact H'].
Qed.
End R.

(* raw-text context with no candidate closing tag in progress *)
Definition raw_ctx (S : sstate) : Prop :=
  exists x, s_mode S = MText x /\ x_raw x = true /\ x_tagbuf x = [].

Lemma raw_char toks p (buf : str) st close rawname en namebuf (r : rune) : N.eqb r cLT = false ->
  step (mkS toks p (MText (mkText buf st true close rawname en [] namebuf))) r =
  mkS toks (adv p r) (MText (mkText (buf ++ [r]) st true close rawname (adv p r) [] namebuf)).
Proof.
  intros Hr. unfold Scan.step. cbn [s_toks s_pos s_mode Scan.dispatch]. unfold Scan.text_step.
  text_cbn. rewrite Hr. reflexivity.
Qed.

Lemma run_raw (s : str) : ~ In cLT s -> forall toks p (buf : str) st close rawname en namebuf,
  exists p' en',
    run s (mkS toks p (MText (mkText buf st true close rawname en [] namebuf))) =
    mkS toks p' (MText (mkText (buf ++ s) st true close rawname en' [] namebuf)).
Proof.
  induction s as [|c s IH]; intros Hs toks p buf st close rawname en namebuf.
  - exists p, en. cbn [fold_left]. rewrite app_nil_r. reflexivity.
  - apply notin_cons in Hs as (_ & Hc & Hs). cbn [fold_left]. rewrite (raw_char _ _ _ _ _ _ _ _ _ Hc).
    destruct (IH Hs toks (adv p c) (buf ++ [c]) st close rawname (adv p c) namebuf) as (p' & en' & E).
    exists p', en'. rewrite E, <- app_assoc. reflexivity.
Qed.

Lemma raw_hole_rev ox w h : raw_hole ox w h -> rev h = h.
Proof. intros [(-> & _)|(st & e & ->)]; reflexivity. Qed.

(* Core statement: the two results are  l ++ h1 ++ r1  and  l ++ h2 ++ r2,  l = tokens before the
   hole (identical), h_i = the text token of the raw content (value: content before the hole, inserted
   string, content w after the hole), absent only if that content is empty; r1, r2 equal up to positions. *)
Theorem raw_hole_core S0 (s1 s2 post : str) :
  raw_ctx S0 -> ~ In cLT s1 -> ~ In cLT s2 ->
  (exists e, finish (run (s1 ++ post) S0) = inr e /\ finish (run (s2 ++ post) S0) = inr e) \/
  (exists w h1 h2 r1 r2,
     finish (run (s1 ++ post) S0) = inl (rev (s_toks S0) ++ h1 ++ r1) /\
     finish (run (s2 ++ post) S0) = inl (rev (s_toks S0) ++ h2 ++ r2) /\
     raw_hole (pending S0 ++ s1) w h1 /\ raw_hole (pending S0 ++ s2) w h2 /\
     ((pending S0 ++ s1 = [] <-> pending S0 ++ s2 = []) -> length h1 = length h2) /\
     map tok_np r1 = map tok_np r2).
Proof.
  intros (x & Hm & Hraw & Htb) Hs1 Hs2.
  destruct S0 as [toks p m]. cbn [s_mode] in Hm. subst m.
  destruct x as [buf st raw close rawname en tagbuf namebuf]. cbn [x_raw x_tagbuf] in Hraw, Htb. subst raw tagbuf.
  unfold pending. cbn [s_mode s_toks x_buf].
  rewrite !run_app.
  destruct (run_raw s1 Hs1 toks p buf st close rawname en namebuf) as (p1 & en1 & ->).
  destruct (run_raw s2 Hs2 toks p buf st close rawname en namebuf) as (p2 & en2 & ->).
  assert (HR : simR (buf ++ s1) (buf ++ s2) toks toks
                 (mkS toks p1 (MText (mkText (buf ++ s1) st true close rawname en1 [] namebuf)))
                 (mkS toks p2 (MText (mkText (buf ++ s2) st true close rawname en2 [] namebuf)))).
  { constructor. apply (XRR _ _ _ _ [] []); rewrite !app_nil_r; reflexivity. }
  destruct (runR _ _ toks toks post _ _ HR) as [HF|(pre' & rest' & E & HE)].
  - (* the element is never closed *)
    right. remember (run post _) as F1 eqn:EF1 in HF. remember (run post _) as F2 eqn:EF2 in HF.
    rewrite <- EF1, <- EF2. clear EF1 EF2.
    destruct HF as [a1 a2 x1 x2 Hx]. destruct Hx as [b1 b2 pre tagbuf st1 st2 close' rawname' e1 e2 namebuf' -> ->].
    exists (pre ++ tagbuf), [mkTok KText ((buf ++ s1) ++ pre ++ tagbuf) st1 a1 [] []],
           [mkTok KText ((buf ++ s2) ++ pre ++ tagbuf) st2 a2 [] []], [], [].
    unfold finish. cbn [s_mode s_toks s_pos x_buf x_start rev]. rewrite !app_nil_r.
    split; [reflexivity|]. split; [reflexivity|]. split; [right; eauto|]. split; [right; eauto|]. split; reflexivity.
  - rewrite E, !run_app.
    destruct HE as (w & tb & rn & e1 & e2 & a1 & a2 & q1 & q2 & h1 & h2 & H1 & H2 & -> & ->).
    set (T1 := mkTok KTag tb e1 a1 (cSLASH :: rn) []). set (T2 := mkTok KTag tb e2 a2 (cSLASH :: rn) []).
    assert (SIM : simB (T1 :: h1 ++ toks) (T2 :: h2 ++ toks) (mkS (T1 :: h1 ++ toks) q1 MInit) (mkS (T2 :: h2 ++ toks) q2 MInit)).
    { apply (SB to_lower text_tags (T1 :: h1 ++ toks) (T2 :: h2 ++ toks) [] []); [reflexivity|constructor|].
      intros _. reflexivity. }
    apply (runB is_space to_lower text_tags attr_prefix compile Hcomp _ _ rest') in SIM.
    apply finishB in SIM. destruct SIM as [L|(r1 & r2 & F1 & F2 & Hr)]; [left; exact L|].
    right. exists w, h1, h2, (T1 :: r1), (T2 :: r2). rewrite F1, F2. cbn [rev].
    pose proof (raw_hole_weaken _ _ _ H1) as H1'. pose proof (raw_hole_weaken _ _ _ H2) as H2'.
    rewrite !rev_app_distr, (raw_hole_rev _ _ _ H1'), (raw_hole_rev _ _ _ H2'), <- !app_assoc. cbn [app].
    split; [reflexivity|]. split; [reflexivity|]. split; [exact H1'|]. split; [exact H2'|].
    split; [intros HP; exact (raw_hole_s_len _ _ _ _ _ HP H1 H2)|].
    cbn [map]. rewrite Hr. reflexivity.
Qed.

Lemma raw_hole_struct ox w h : raw_hole ox w h ->
  tag_struct h = [] /\ filter (fun t => negb (is_text_tok t)) h = [].
Proof. intros [(-> & _)|(st & e & ->)]; split; reflexivity. Qed.

Lemma raw_hole_same ox1 ox2 w h1 h2 : length h1 = length h2 ->
  raw_hole ox1 w h1 -> raw_hole ox2 w h2 -> map shape_no_text h1 = map shape_no_text h2.
Proof.
  intros HL [(-> & V1)|(st1 & en1 & ->)] [(-> & V2)|(st2 & en2 & ->)]; try reflexivity; discriminate.
Qed.

Theorem raw_hole_invariant (pre s1 s2 post : str) :
  raw_ctx (run pre init) -> ~ In cLT s1 -> ~ In cLT s2 ->
  (exists e, scan (pre ++ s1 ++ post) = inr e /\ scan (pre ++ s2 ++ post) = inr e) \/
  (exists toks1 toks2,
     scan (pre ++ s1 ++ post) = inl toks1 /\ scan (pre ++ s2 ++ post) = inl toks2 /\
     tag_struct toks1 = tag_struct toks2 /\
     map tok_np (filter (fun t => negb (is_text_tok t)) toks1) =
     map tok_np (filter (fun t => negb (is_text_tok t)) toks2) /\
     (pending (run pre init) <> [] \/ (s1 = [] <-> s2 = []) ->
        map shape_no_text toks1 = map shape_no_text toks2 /\ length toks1 = length toks2)).
Proof.
  intros H0 Hs1 Hs2. unfold Scan.scan. rewrite !(run_app pre).
  destruct (raw_hole_core _ s1 s2 post H0 Hs1 Hs2) as [L|(w & h1 & h2 & r1 & r2 & E1 & E2 & D1 & D2 & HL & Hr)]; [left; exact L|].
  right. eexists. eexists. split; [exact E1|]. split; [exact E2|].
  destruct (np_struct _ _ Hr) as (R1 & R2 & _ & R4).
  destruct (raw_hole_struct _ _ _ D1) as [K1 K1']. destruct (raw_hole_struct _ _ _ D2) as [K2 K2'].
  split; [rewrite !tag_struct_app, K1, K2, R1; reflexivity|].
  split; [rewrite !filter_app, K1', K2', !map_app, R4; reflexivity|].
  intros HP.
  assert (HP' : pending (run pre init) ++ s1 = [] <-> pending (run pre init) ++ s2 = []).
  { destruct HP as [HP|HP].
    - split; intros H; apply app_eq_nil in H as [H _]; contradiction.
    - split; intros H; apply app_eq_nil in H as [H H']; rewrite H; [rewrite (proj1 HP H')|rewrite (proj2 HP H')]; reflexivity. }
  pose proof (HL HP') as S2. pose proof (raw_hole_same _ _ _ _ _ S2 D1 D2) as S1.
  split; [rewrite !map_app, S1, R2; reflexivity|].
  rewrite !app_length, S2. apply (f_equal (@length _)) in Hr. rewrite !map_length in Hr. lia.
Qed.

End Raw.

(* non-vacuity:  <script>a | x&lt;y  or  nothing | b</script><i> *)
Definition hx_pre3 : str := [60;115;99;114;105;112;116;62;97].
Definition hx_post3 : str := [98;60;47;115;99;114;105;112;116;62;60;105;62].

Example raw_ctx_example :
  raw_ctx (fold_left (Scan.step hx_space (fun r => r) [[115;99;114;105;112;116]] [58] (fun _ => true)) hx_pre3 init).
Proof. eexists. split; [vm_compute; reflexivity|]. split; reflexivity. Qed.

Example raw_hole_example :
  exists toks1 toks2,
    Scan.scan hx_space (fun r => r) [[115;99;114;105;112;116]] [58] (fun _ => true) (hx_pre3 ++ hx_s1 ++ hx_post3) = inl toks1 /\
    Scan.scan hx_space (fun r => r) [[115;99;114;105;112;116]] [58] (fun _ => true) (hx_pre3 ++ [] ++ hx_post3) = inl toks2 /\
    tag_struct toks1 = [([115;99;114;105;112;116], []); ([47;115;99;114;105;112;116], []); ([105], [])] /\
    tag_struct toks2 = tag_struct toks1 /\ length toks1 = 4%nat /\ length toks2 = 4%nat.
Proof. eexists. eexists. split; [vm_compute; reflexivity|]. split; [vm_compute; reflexivity|]. repeat split. Qed.

Print Assumptions raw_hole_core.
Print Assumptions raw_hole_invariant.
