(* C20, END TO END: from SOURCE TEXT to the POT CATALOGUE, for every msgid string.

       scan (Html/Scan.v) -> directive-value compiler (Html/Code.v, exp.ParseCode = Exp/Lex.v + Exp/Parse.v)
       -> tree builder (Html/Tree.v) -> xtpl extraction (Sys/Xtpl.v) -> catalogue merge (Sys/XtplCat.v)

   With the ASCII tables bx_* of Proofs/ReadbackExample.v, the default raw-text / void lists of Gen/Facts.v, the
   attribute prefix colon and the keyword list [ __ : msgid at position 1 ], for EVERY non-empty string s without
   the double quote (34) the source
       <p :text=DQ${__(LIT)}DQ>x</p>          LIT = quote_with cSQ s, the canonical single-quoted spelling of s
   LOADS, and the catalogue of the one-file set [(fname, root)] is
       [cat_header; mkCe false [] s [] [(fname, 1, 16)]]
   for every file name and every fuel >= 2.  The msgid is s itself (the decoded literal = the string the evaluator
   passes at run time, XtplProps.extracted_is_runtime_value), not its quoted spelling.  Column 16 is the 1-based
   column of the opening quote of the literal in the source line (the 16th rune of the line): start of the code
   block (1,13) = column of the first rune after the dollar-brace, plus the 0-based lexer column 3 of the literal
   inside the block (pos_add).

     xtpl_literal_end_to_end        one file, every s
     xtpl_two_files_end_to_end      two files with the same s: ONE entry, both occurrences referenced
     xtpl_non_literal_adds_nothing  msgid argument is a variable: only the header
     xtpl_too_few_args              keyword needs two arguments, the call has one: only the header

   Side conditions on s: no double quote (the attribute value would end there, EndToEnd.e2e_needs_no_dq) and
   s non-empty (xtpl skips an empty msgid, it would collide with the header entry; xtpl_empty_adds_nothing). *)
From Coq Require Import List NArith ZArith Bool Lia Arith String Ascii.
From Tpl Require Import Html.Exec Sys.Xtpl Sys.XtplCat Gen.Facts Proofs.LitSpec Proofs.LitRoundtrip
  Proofs.PrintScanDefs Proofs.PrintScanSteps Proofs.ReadbackExample Proofs.EndToEnd Proofs.XtplProps.
Import ListNotations.
Open Scope N_scope.

(* ------------------------------------------------------------------------------------------ *)
(* 0. the objects                                                                             *)
(* ------------------------------------------------------------------------------------------ *)
Definition kw_us : keyword := mkKw [95; 95] 0 1 0.                        (* __ : msgid = argument 1 *)
Definition kw_x : keyword := mkKw (s2l "_x") 1 2 0.                       (* _x : context = 1, msgid = 2 *)
(* the text of the code block:  __(LIT)  *)
Definition call_text (lit : str) : str := 95 :: 95 :: 40 :: lit ++ [41].
(* the source  <p :text=DQ${__(LIT)}DQ>x</p>  *)
Definition x_src (s : str) : str := s2l "<p :text=""${__(" ++ quote_with cSQ s ++ s2l ")}"">x</p>".
Definition x_load (src : str) : node + serr :=
  load bx_space bx_lower default_text_tags default_void_elements [cCOLON] (parse_ok bx_letter bx_digit) src.
Definition x_cat (fuel : nat) (kws : list keyword) (files : list (str * node)) : list centry :=
  catalogue bx_letter bx_digit [cCOLON] fuel kws files.
(* load every file, then build the catalogue (None: some file does not load) *)
Fixpoint x_load_all (files : list (str * str)) : option (list (str * node)) :=
  match files with
  | [] => Some []
  | (n, src) :: r =>
    match x_load src, x_load_all r with
    | inl root, Some l => Some ((n, root) :: l)
    | _, _ => None
    end
  end.
Definition x_run (kws : list keyword) (files : list (str * str)) : option (list centry) :=
  match x_load_all files with Some l => Some (x_cat 5 kws l) | None => None end.

(* the catalogue of three sample strings, computed by the model before anything is proved:
   ab, it's (the literal's own delimiter, escaped in the source), a}b${c (braces and dollar-brace) *)
Eval vm_compute in x_run [kw_us] [(s2l "f.html", x_src (s2l "ab"))].
Eval vm_compute in x_run [kw_us] [(s2l "f.html", x_src (s2l "it's"))].
Eval vm_compute in x_run [kw_us] [(s2l "f.html", x_src (s2l "a}b${c"))].

(* ------------------------------------------------------------------------------------------ *)
(* 1. exp.ParseCode on  __(LIT)  : four tokens, the call expression                            *)
(* ------------------------------------------------------------------------------------------ *)
(* the string matcher on a canonical literal FOLLOWED by anything: the token ends at the closing quote *)
Lemma mq_gen_app : forall q : rune, q = cDQ \/ q = cSQ ->
  forall (s rest : str) (f : nat),
  (length (flat_map (esc_rune q) s) < f)%nat ->
  m_qbody f q (flat_map (esc_rune q) s ++ q :: rest) = S (length (flat_map (esc_rune q) s)).
Proof.
  intros q Hq. destruct (isquote_facts q Hq) as [_ [Hqb [Hbq _]]].
  induction s as [|c s IH]; intros rest f Hf.
  - cbn [flat_map length app] in *. destruct f as [|f]; [lia|]. apply mq_close.
  - cbn [flat_map] in *. rewrite app_length in Hf. rewrite app_length. rewrite <- app_assoc.
    destruct (esc_rune_cases q c) as [[Hc He]|[[Hcq [Hc He]]|[[Hcq [Hb [Hc He]]]|[Hcq [Hb [Hn He]]]]]];
      rewrite He in *; cbn [length app] in *; (destruct f as [|f]; [lia|]).
    + rewrite (mq_esc f q q _ Hbq (mesc_quote q _ Hq)). rewrite IH by lia. reflexivity.
    + rewrite (mq_esc f q cBS _ Hbq (mesc_bs _)). rewrite IH by lia. reflexivity.
    + rewrite (mq_esc f q 110 _ Hbq (mesc_n _)). rewrite IH by lia. reflexivity.
    + rewrite (mq_plain f q c _ Hcq Hb). rewrite IH by lia. reflexivity.
Qed.

Lemma sq_token_app : forall s rest : str,
  m_string (quote_with cSQ s ++ rest) = length (quote_with cSQ s).
Proof.
  intros s rest. unfold quote_with. cbn [app]. rewrite <- app_assoc. cbn [app].
  unfold m_string. change (N.eqb cSQ cBQ) with false. change (N.eqb cSQ cDQ || N.eqb cSQ cSQ) with true. cbv iota.
  rewrite (mq_gen_app cSQ (or_intror eq_refl)).
  - cbn [length]. rewrite app_length. cbn [length]. lia.
  - rewrite app_length. cbn [length]. lia.
Qed.

Section LexCall.
Notation lexd := (lex_default bx_letter bx_digit).
Notation lexl := (lex_loop bx_letter bx_digit).

(* one round of the lexer loop *)
Lemma lex_loop_token : forall f x s0 line col acc n k nl', let s := x :: s0 in
  lexd s = mkCand (S n) (Some k) nl' ->
  lexl (S f) false s line col acc =
  lexl f nl' (skipn (S n) s) (fst (advance line col (firstn (S n) s))) (snd (advance line col (firstn (S n) s)))
       (mkE k (firstn (S n) s) line col :: acc).
Proof.
  intros f x s line col acc n k nl' s1 Hd. subst s1.
  cbn [lex_loop]. rewrite Hd. cbn [c_len c_tk c_nlsemi].
  destruct (advance line col (firstn (S n) (x :: s))) as [l2 c2]. reflexivity.
Qed.
Lemma lex_loop_back : forall f x s line col acc,
  c_len (lex_nlsemi (x :: s)) = O ->
  lexl (S f) true (x :: s) line col acc = lexl f false (x :: s) line col acc.
Proof.
  intros f x s line col acc Hd.
  cbn [lex_loop]. rewrite Hd. reflexivity.
Qed.

(* the string token in front of more input *)
Lemma lex_default_sq_app : forall c t rest,
  m_string ((cSQ :: c :: t) ++ rest) = length (cSQ :: c :: t) ->
  lexd ((cSQ :: c :: t) ++ rest) = mkCand (length (cSQ :: c :: t)) (Some TStr) true.
Proof.
  intros c t rest Hm. cbn [app] in *. unfold lex_default. cbv zeta.
  assert (Hid : m_ident bx_letter bx_digit (cSQ :: c :: t ++ rest) = O) by reflexivity.
  rewrite Hid. cbn [firstn].
  assert (Hp : m_punct puncts (cSQ :: c :: t ++ rest) None = None) by reflexivity.
  rewrite Hp.
  assert (H1 : m_decimal (cSQ :: c :: t ++ rest) = O) by reflexivity.
  assert (H2 : m_binary (cSQ :: c :: t ++ rest) = O) by reflexivity.
  assert (H3 : m_octal (cSQ :: c :: t ++ rest) = O) by reflexivity.
  assert (H4 : m_hex (cSQ :: c :: t ++ rest) = O) by reflexivity.
  assert (H5 : m_float (cSQ :: c :: t ++ rest) = O) by reflexivity.
  assert (H6 : m_imag (cSQ :: c :: t ++ rest) = O) by reflexivity.
  assert (H7 : m_byteval (cSQ :: c :: t ++ rest) = O) by reflexivity.
  assert (H8 : m_ws (cSQ :: c :: t ++ rest) = O) by reflexivity.
  assert (H9 : m_comment true (cSQ :: c :: t ++ rest) = O) by reflexivity.
  assert (H10 : m_term (cSQ :: c :: t ++ rest) = O) by reflexivity.
  assert (H11 : m_line_comment (cSQ :: c :: t ++ rest) = O) by reflexivity.
  rewrite H1, H2, H3, H4, H5, H6, H7, H8, H9, H10, H11, Hm.
  reflexivity.
Qed.

Lemma firstn_length_app : forall (a b : str), firstn (length a) (a ++ b) = a.
Proof. induction a as [|x a IH]; intros b; [reflexivity|]. cbn [length app firstn]. rewrite IH. reflexivity. Qed.

(* the seven rounds on  __(LIT)  *)
Lemma lex_loop_call : forall c t f,
  m_string ((cSQ :: c :: t) ++ [41]) = length (cSQ :: c :: t) ->
  exists l2 c2,
  lexl (7 + f) false (call_text (cSQ :: c :: t)) 1 0 [] =
  Some [mkE TIdent [95; 95] 1 0; mkE (TP LPAREN) [40] 1 2; mkE TStr (cSQ :: c :: t) 1 3; mkE (TP RPAREN) [41] l2 c2].
Proof.
  intros c t f Hm. unfold call_text.
  set (lit := cSQ :: c :: t) in *.
  assert (E1 : lexd (95 :: 95 :: 40 :: lit ++ [41]) = mkCand 2 (Some TIdent) true) by (subst lit; vm_compute; reflexivity).
  assert (E2 : c_len (lex_nlsemi (40 :: lit ++ [41])) = O) by (subst lit; vm_compute; reflexivity).
  assert (E3 : lexd (40 :: lit ++ [41]) = mkCand 1 (Some (TP LPAREN)) false) by (subst lit; vm_compute; reflexivity).
  assert (E4 : lexd (lit ++ [41]) = mkCand (length lit) (Some TStr) true) by (subst lit; apply lex_default_sq_app; exact Hm).
  assert (E5 : c_len (lex_nlsemi [41]) = O) by (vm_compute; reflexivity).
  assert (E6 : lexd [41] = mkCand 1 (Some (TP RPAREN)) true) by (vm_compute; reflexivity).
  assert (Hlen : length lit = S (S (length t))) by reflexivity.
  change (7 + f)%nat with (S (S (S (S (S (S (S f))))))).
  rewrite (lex_loop_token _ _ _ 1 0 [] 1%nat TIdent true E1).
  cbn [firstn skipn]. change (advance 1 0 [95; 95]) with (1, 2). cbn [fst snd].
  rewrite (lex_loop_back _ _ _ 1 2 _ E2).
  rewrite (lex_loop_token _ _ _ 1 2 _ 0%nat (TP LPAREN) false E3).
  cbn [firstn skipn]. change (advance 1 2 [40]) with (1, 3). cbn [fst snd].
  rewrite Hlen in E4.
  rewrite (lex_loop_token _ cSQ (c :: t ++ [41]) 1 3 _ (S (length t)) TStr true E4).
  rewrite <- Hlen. change (cSQ :: c :: t ++ [41]) with (lit ++ [41]). rewrite firstn_length_app, skipn_length_app.
  destruct (advance 1 3 lit) as [l2 c2]. cbn [fst snd]. exists l2, c2.
  rewrite (lex_loop_back _ _ _ l2 c2 _ E5).
  rewrite (lex_loop_token _ _ _ l2 c2 _ 0%nat (TP RPAREN) true E6).
  cbn [firstn skipn]. destruct f; reflexivity.
Qed.

Lemma parse_call_shape : forall c t,
  m_string ((cSQ :: c :: t) ++ [41]) = length (cSQ :: c :: t) ->
  parse_code bx_letter bx_digit (call_text (cSQ :: c :: t)) =
  Some (ECall (EName [95; 95] 1 0) [ELit LStr (cSQ :: c :: t) 1 3] false false).
Proof.
  intros c t Hm. unfold parse_code, lex.
  assert (Hf : (2 * length (call_text (cSQ :: c :: t)) + 2 = 7 + (2 * length (call_text (cSQ :: c :: t)) - 5))%nat)
    by (unfold call_text; cbn [length]; lia).
  rewrite Hf. destruct (lex_loop_call c t (2 * length (call_text (cSQ :: c :: t)) - 5) Hm) as (l2 & c2 & E).
  rewrite E. generalize (cSQ :: c :: t). intros lit. vm_compute. reflexivity.
Qed.
End LexCall.

Theorem parse_call : forall s : str,
  parse_code bx_letter bx_digit (call_text (quote_with cSQ s)) =
  Some (ECall (EName [95; 95] 1 0) [ELit LStr (quote_with cSQ s) 1 3] false false).
Proof.
  intros s. destruct (quote_with_shape cSQ s) as (c & t & E).
  pose proof (sq_token_app s [41]) as Hm. rewrite E in *. apply parse_call_shape. exact Hm.
Qed.

(* ------------------------------------------------------------------------------------------ *)
(* 2. the directive-value compiler on  DQ${__(LIT)}DQ  : the code token and ITS START POSITION   *)
(* ------------------------------------------------------------------------------------------ *)
Section CodeScan.
Variable compile : pos -> str -> bool.

Lemma step_block_plain : forall r t p f b buf st e,
  N.eqb r cLB = false -> N.eqb r cRB = false -> (N.eqb r cDQ || N.eqb r cSQ || N.eqb r cBQ) = false ->
  cstep compile (mkCS t p f b (CBlock buf st e)) r = mkCS t (adv p r) f b (CBlock (buf ++ [r]) st (adv p r)).
Proof.
  intros r t p f b buf st e H1 H2 H3. apply cstep_noagain. cbn [cdispatch]. rewrite H1, H2, H3. reflexivity.
Qed.

(* quoted_in_block with any buffer in front *)
Lemma quoted_in_block_buf : forall (q : rune) (s : str), q = cDQ \/ q = cSQ ->
  forall t p f b buf st e,
  fold_left (cstep compile) (quote_with q s) (mkCS t p f b (CBlock buf st e)) =
  mkCS t (pos_after p (quote_with q s)) f b (CBlock (buf ++ quote_with q s) st (pos_after p (quote_with q s))).
Proof.
  intros q s Hq t p f b buf st e. destruct (isquote_facts q Hq) as [Hbq [Hqb _]].
  unfold quote_with. cbn [fold_left].
  rewrite (step_open compile q t p f b buf st e) by tauto.
  rewrite fold_left_app. rewrite (run_str_body compile q Hq). cbn [fold_left].
  rewrite (step_str_close compile q _ _ _ _ _ _ Hbq Hqb).
  cbn [pos_after fold_left app]. rewrite fold_left_app. cbn [fold_left].
  rewrite <- !app_assoc. cbn [app]. reflexivity.
Qed.

(* L1 for the call: the code scanner stays in the block at depth 0 over  __(LIT)  *)
Lemma call_in_block : forall (s : str) t p f b st e,
  fold_left (cstep compile) (call_text (quote_with cSQ s)) (mkCS t p f b (CBlock [] st e)) =
  mkCS t (pos_after p (call_text (quote_with cSQ s))) f b
       (CBlock (call_text (quote_with cSQ s)) st (pos_after p (call_text (quote_with cSQ s)))).
Proof.
  intros s t p f b st e. unfold call_text, pos_after.
  rewrite !fold_left_cons. rewrite !fold_left_app.
  rewrite !step_block_plain by reflexivity.
  rewrite (quoted_in_block_buf cSQ s (or_intror eq_refl)).
  cbn [fold_left]. rewrite step_block_plain by reflexivity.
  unfold pos_after. cbn [app]. try rewrite <- !app_assoc. cbn [app]. reflexivity.
Qed.

(* scan_block_with, keeping the code token and its start *)
Lemma cscan_block_pos : forall (start : pos) (lit : str),
  (forall t p f b st e,
     fold_left (cstep compile) lit (mkCS t p f b (CBlock [] st e)) =
     mkCS t (pos_after p lit) f b (CBlock lit st (pos_after p lit))) ->
  compile (adv (adv (adv start cDQ) cDOLLAR) cLB) lit = true ->
  exists t1 t2 e3 t4 t5,
    cscan compile start (cDQ :: cDOLLAR :: cLB :: lit ++ [cRB; cDQ]) =
      inl [t1; t2; mkC CodeValue lit (adv (adv (adv start cDQ) cDOLLAR) cLB) e3; t4; t5] /\
    c_kind t1 = BegEnd /\ c_kind t2 = CodeStart /\ c_kind t4 = CodeEnd /\ c_kind t5 = BegEnd.
Proof.
  intros start lit Hlit Hc. unfold cscan.
  cbn [fold_left]. rewrite (step_init compile start cDQ eq_refl). rewrite step_dollar. rewrite step_lb.
  rewrite fold_left_app. rewrite Hlit. cbn [fold_left].
  rewrite (step_rb compile _ _ _ _ _ _ Hc). rewrite (step_endq compile _ _ cDQ _ _ _ eq_refl).
  unfold cfinish. cbn [k_mode k_toks rev app].
  do 5 eexists. split; [reflexivity|]. repeat split.
Qed.
End CodeScan.

(* ------------------------------------------------------------------------------------------ *)
(* 3. the HTML scanner on  <p :text=D body D>x</p>  : EndToEnd.scan_p_text, keeping the value start (1,10) *)
(* ------------------------------------------------------------------------------------------ *)
Section ScanSrcPos.
Variable is_space : rune -> bool.
Variable to_lower : rune -> rune.
Variable text_tags : list str.
Variable attr_prefix : str.
Variable compile : attr -> bool.
Hypothesis Hsp : is_space cSP = true.
Hypothesis Hnsp : forall c, In c [cEQ; cSLASH; cCOLON; 112; 116; 101; 120] -> is_space c = false.
Hypothesis Hraw_p : existsb (fun tt => str_eqb (Scan.lower to_lower [112]) (Scan.lower to_lower tt)) text_tags = false.
Variable d : rune.
Variable body : str.
Hypothesis Hd : is_quote d = true.
Hypothesis Hdsp : is_space d = false.
Hypothesis Hbody : ~ In d body.
Hypothesis Hcomp : forall a, a_name a = s_text_attr -> a_value a = Some (d :: body ++ [d]) -> compile a = true.

Lemma scan_p_text_pos : exists gs pe ans ane ave xs xe es ee,
  Scan.scan is_space to_lower text_tags attr_prefix compile (pre_src ++ d :: body ++ d :: post_src) =
  inl [ mkTok KTag (pre_src ++ d :: body ++ [d; cGT]) gs pe [112] [mkAttr s_text_attr ans ane (Some (d :: body ++ [d])) (1, 10) ave];
        mkTok KText [120] xs xe [] [];
        mkTok KTag s_close_p es ee [cSLASH; 112] [] ].
Proof.
  assert (S112 : is_space 112 = false) by (apply Hnsp; cbn; tauto).
  assert (S116 : is_space 116 = false) by (apply Hnsp; cbn; tauto).
  assert (S101 : is_space 101 = false) by (apply Hnsp; cbn; tauto).
  assert (S120 : is_space 120 = false) by (apply Hnsp; cbn; tauto).
  assert (Scol : is_space cCOLON = false) by (apply Hnsp; cbn; tauto).
  assert (Seq : is_space cEQ = false) by (apply Hnsp; cbn; tauto).
  assert (Ssl : is_space cSLASH = false) by (apply Hnsp; cbn; tauto).
  assert (Hngt : N.eqb d cGT = false).
  { pose proof Hd as Hq. unfold is_quote in Hq. apply orb_true_iff in Hq as [H|H]; apply N.eqb_eq in H; rewrite H; reflexivity. }
  do 9 eexists. match goal with |- _ = ?R => set (rhs := R) end.
  unfold Scan.scan, init. rewrite src_cons. rewrite !fold_left_cons.
  rewrite fold_left_app. unfold post_src. rewrite !fold_left_cons.
  cbv beta iota delta [fold_left].
  rewrite init_lt by reflexivity. unfold new_tag.
  rewrite tname_char_plain by (try reflexivity; assumption).
  rewrite tname_sp by exact Hsp.
  rewrite tspace_char by (try reflexivity; assumption).
  rewrite aname_char by (try reflexivity; assumption).
  rewrite aname_char by (try reflexivity; assumption).
  rewrite aname_char by (try reflexivity; assumption).
  rewrite aname_char by (try reflexivity; assumption).
  rewrite aname_eq by exact Seq.
  rewrite aval_first by assumption.
  rewrite (aval_q_run is_space to_lower text_tags attr_prefix compile body d []) by assumption.
  rewrite aval_q_end; [| exact Hd | apply Hcomp; reflexivity | reflexivity].
  rewrite tspace_gt.
  rewrite init_char; [| apply (raw_tag_p to_lower text_tags Hraw_p); reflexivity | reflexivity].
  rewrite text_lt. unfold new_tag.
  rewrite tname_char_plain by (try reflexivity; assumption).
  rewrite tname_char_plain by (try reflexivity; assumption).
  rewrite tname_gt.
  unfold Scan.finish. cbn [s_mode s_toks rev app trim_sp N.eqb Pos.eqb cSP].
  rewrite <- !app_assoc. cbn [app]. subst rhs. unfold pre_src. cbn [app]. reflexivity.
Qed.
End ScanSrcPos.

(* ------------------------------------------------------------------------------------------ *)
(* 4. load and extraction, for any block text lit with: L1 (stays in the block), lit parses, no DQ in lit *)
(* ------------------------------------------------------------------------------------------ *)
Section LoadExtract.
Variable lit : str.
Variable ex : expr.
Hypothesis Hblock : forall (compile : pos -> str -> bool) t p f b st e,
  fold_left (cstep compile) lit (mkCS t p f b (CBlock [] st e)) =
  mkCS t (pos_after p lit) f b (CBlock lit st (pos_after p lit)).
Hypothesis Hparse : parse_code bx_letter bx_digit lit = Some ex.
Hypothesis Hnod : ~ In cDQ lit.

Lemma x_attr_ctoks : forall (compile : pos -> str -> bool) a,
  (forall p, compile p lit = true) ->
  a_name a = s_text_attr -> a_value a = Some (code_value cDQ lit) ->
  exists t1 t2 e3 t4 t5,
    attr_ctoks [cCOLON] compile a =
      inl [t1; t2; mkC CodeValue lit (adv (adv (adv (a_vstart a) cDQ) cDOLLAR) cLB) e3; t4; t5] /\
    c_kind t1 = BegEnd /\ c_kind t2 = CodeStart /\ c_kind t4 = CodeEnd /\ c_kind t5 = BegEnd.
Proof.
  intros compile a Hc Hn Hv. unfold attr_ctoks. rewrite Hv, Hn.
  change (prefixb [cCOLON] s_text_attr) with true. cbv iota. unfold code_value.
  apply cscan_block_pos; [apply Hblock | apply Hc].
Qed.

Lemma pok_lit : forall p, parse_ok bx_letter bx_digit p lit = true.
Proof. intros p. unfold parse_ok. rewrite Hparse. reflexivity. Qed.
Lemma pok'_lit : forall p, pok' bx_letter bx_digit p lit = true.
Proof. intros p. unfold pok'. rewrite Hparse. reflexivity. Qed.

Lemma x_attr_compiles : forall a, a_name a = s_text_attr -> a_value a = Some (cDQ :: block_body lit ++ [cDQ]) ->
  compile_attr [cCOLON] (parse_ok bx_letter bx_digit) a = true.
Proof.
  intros a Hn Hv. rewrite <- value_split in Hv. unfold compile_attr.
  destruct (x_attr_ctoks (parse_ok bx_letter bx_digit) a pok_lit Hn Hv) as (t1 & t2 & e3 & t4 & t5 & E & _).
  rewrite E. reflexivity.
Qed.

Definition x_loaded (root : node) : Prop :=
  exists gs pe ans ane ave xs xe es ee,
    root = Node 0 None
      [Node 1 (Some (mkTok KTag (pre_src ++ code_value cDQ lit ++ [cGT]) gs pe [112]
                            [mkAttr s_text_attr ans ane (Some (code_value cDQ lit)) (1, 10) ave]))
              [Node 2 (Some (mkTok KText [120] xs xe [] [])) [] None]
              (Some (mkTok KTag s_close_p es ee [cSLASH; 112] []))] None.

Lemma x_source_loads : exists root, x_load (src_of cDQ lit) = inl root /\ x_loaded root.
Proof.
  destruct bx_env as (_ & Hraw & Hv1 & Hv2 & Hsp & Hnsp).
  destruct (scan_p_text_pos bx_space bx_lower default_text_tags [cCOLON]
              (compile_attr [cCOLON] (parse_ok bx_letter bx_digit)) Hsp Hnsp Hraw
              cDQ (block_body lit) eq_refl eq_refl (body_no_d cDQ lit eq_refl Hnod) x_attr_compiles)
    as (gs & pe & ans & ane & ave & xs & xe & es & ee & Hscan).
  unfold x_load, load, scan_html. rewrite src_split, Hscan. eexists. split; [reflexivity|].
  rewrite build_three.
  - exists gs, pe, ans, ane, ave, xs, xe, es, ee.
    assert (Ev : pre_src ++ code_value cDQ lit ++ [cGT] = pre_src ++ cDQ :: block_body lit ++ [cDQ; cGT])
      by (rewrite value_split; cbn [app]; rewrite <- app_assoc; reflexivity).
    rewrite Ev, value_split. reflexivity.
  - reflexivity.
  - unfold is_close, is_self_close. cbn [t_name t_attrs rev app a_value prefixb N.eqb cSLASH Pos.eqb andb orb].
    unfold ends_slash. change (cDQ :: block_body lit ++ [cDQ]) with ((cDQ :: block_body lit) ++ [cDQ]).
    rewrite last_rune_snoc. reflexivity.
  - exact Hv1.
  - reflexivity.
  - reflexivity.
  - reflexivity.
  - reflexivity.
  - exact Hv2.
Qed.

(* the entries of a loaded tree: those of the parsed block, moved to the block start (1,13) *)
Definition at_block (en : entry) : entry :=
  let '(l, co) := pos_add (1, 13) (en_line en) (en_col en) in mkEn (en_ctxt en) (en_id en) (en_id2 en) l co.

Lemma x_extract : forall root kws fuel, x_loaded root -> (2 <= fuel)%nat ->
  extract_node bx_letter bx_digit [cCOLON] fuel kws root = map at_block (extract_expr kws ex).
Proof.
  intros root kws fuel (gs & pe & ans & ane & ave & xs & xe & es & ee & ->) Hf.
  destruct fuel as [|[|f]]; [lia|lia|].
  set (a := mkAttr s_text_attr ans ane (Some (code_value cDQ lit)) (1, 10) ave).
  cbn [extract_node n_tok n_children t_kind t_attrs flat_map app].
  assert (Hx : extract_node bx_letter bx_digit [cCOLON] f kws (Node 2 (Some (mkTok KText [120] xs xe [] [])) [] None) = [])
    by (destruct f; reflexivity).
  rewrite Hx. rewrite !app_nil_r.
  unfold extract_attr.
  destruct (x_attr_ctoks (pok' bx_letter bx_digit) a pok'_lit eq_refl eq_refl)
    as (t1 & t2 & e3 & t4 & t5 & E & K1 & K2 & K4 & K5).
  rewrite E. cbn [flat_map]. unfold extract_ctok at 1 2 4 5. rewrite K1, K2, K4, K5. cbn [app]. rewrite app_nil_r.
  unfold extract_ctok. cbn [c_kind c_value c_start a_vstart a]. rewrite Hparse.
  reflexivity.
Qed.
End LoadExtract.

(* ------------------------------------------------------------------------------------------ *)
(* 5. SOURCE TEXT TO CATALOGUE                                                                 *)
(* ------------------------------------------------------------------------------------------ *)
Lemma x_src_is : forall s, x_src s = src_of cDQ (call_text (quote_with cSQ s)).
Proof.
  intros s. unfold x_src, src_of, code_value, call_text.
  assert (E1 : s2l "<p :text=""${__(" = pre_src ++ [cDQ; cDOLLAR; cLB; 95; 95; 40]) by (vm_compute; reflexivity).
  assert (E2 : s2l ")}"">x</p>" = [41; cRB; cDQ] ++ post_src) by (vm_compute; reflexivity).
  rewrite E1, E2. rewrite <- !app_assoc. cbn [app]. rewrite <- !app_assoc. cbn [app]. reflexivity.
Qed.

Lemma call_no_dq : forall s, ~ In cDQ s -> ~ In cDQ (call_text (quote_with cSQ s)).
Proof.
  intros s Hs H. unfold call_text in H.
  destruct H as [H|[H|[H|H]]]; try discriminate H.
  apply in_app_or in H as [H|[H|[]]]; [|discriminate H].
  apply Hs. apply (in_quote_with cDQ cSQ s); [discriminate|discriminate|discriminate|exact H].
Qed.

(* the one entry of the call: msgid = the DECODED literal, at the literal's position in the block *)
Lemma call_entries : forall s x, unquote_lit (quote_with cSQ (x :: s)) = Ok (x :: s) ->
  extract_expr [kw_us] (ECall (EName [95; 95] 1 0) [ELit LStr (quote_with cSQ (x :: s)) 1 3] false false) =
  [mkEn [] (x :: s) [] 1 3].
Proof.
  intros s x Hu. cbn [extract_expr fn_name flat_map app]. unfold do_extract.
  cbn [kw_us kw_name kw_ctxt kw_id kw_id2 str_eqb N.eqb Pos.eqb andb negb length max_index Nat.max Nat.ltb Nat.leb
       arg_lit nth_error str_lit].
  rewrite Hu. reflexivity.
Qed.

(* the entries of the file: one, referenced at line 1 column 16 *)
Lemma x_literal_entries : forall s : str, s <> [] -> ~ In cDQ s ->
  exists root, x_load (x_src s) = inl root /\
    forall fuel, (2 <= fuel)%nat ->
      extract_node bx_letter bx_digit [cCOLON] fuel [kw_us] root = [mkEn [] s [] 1 16].
Proof.
  intros s Hne Hs. rewrite x_src_is.
  destruct (x_source_loads (call_text (quote_with cSQ s)) _
              (fun compile => call_in_block compile s) (parse_call s) (call_no_dq s Hs)) as (root & Hl & Hr).
  exists root. split; [exact Hl|]. intros fuel Hf.
  rewrite (x_extract _ _ (fun compile => call_in_block compile s) (parse_call s) root [kw_us] fuel Hr Hf).
  destruct s as [|x s]; [congruence|].
  rewrite (call_entries s x (sq_roundtrip (x :: s))). reflexivity.
Qed.

Lemma cat_one : forall (fname s : str) x l c,
  cat_of [(fname, mkEn [] (x :: s) [] l c)] = [cat_header; mkCe false [] (x :: s) [] [(fname, l, c)]].
Proof. intros. reflexivity. Qed.

Lemma cat_two : forall (f1 f2 s : str) x l c l' c',
  cat_of [(f1, mkEn [] (x :: s) [] l c); (f2, mkEn [] (x :: s) [] l' c')] =
  [cat_header; mkCe false [] (x :: s) [] [(f1, l, c); (f2, l', c')]].
Proof.
  intros. unfold cat_of. rewrite !fold_left_cons. cbn [fold_left].
  change (cat_add [cat_header] (f1, mkEn [] (x :: s) [] l c)) with [cat_header; mkCe false [] (x :: s) [] [(f1, l, c)]].
  unfold cat_add. cbn [en_key en_ctxt en_id en_id2 ckey app cat_find ce_key ce_ctxt ce_id cat_header].
  cbn [str_eqb]. rewrite N.eqb_refl, (str_eqb_refl s). cbn [N.eqb andb ce_hdr ce_refs app].
  cbn [cat_put ce_key ce_ctxt ce_id ckey app str_eqb]. rewrite N.eqb_refl, (str_eqb_refl s). cbn [N.eqb andb]. reflexivity.
Qed.

(* (1) one file *)
Theorem xtpl_literal_end_to_end : forall s : str, s <> [] -> ~ In cDQ s ->
  exists root, x_load (x_src s) = inl root /\
    forall (fuel : nat) (fname : str), (2 <= fuel)%nat ->
      x_cat fuel [kw_us] [(fname, root)] = [cat_header; mkCe false [] s [] [(fname, 1, 16)]].
Proof.
  intros s Hne Hs. destruct (x_literal_entries s Hne Hs) as (root & Hl & He).
  exists root. split; [exact Hl|]. intros fuel fname Hf.
  unfold x_cat, catalogue, set_entries. cbn [flat_map fst snd]. rewrite (He fuel Hf). cbn [map app].
  destruct s as [|x s]; [congruence|]. apply cat_one.
Qed.

(* (3) two files with the same source: one entry, both occurrences *)
Theorem xtpl_two_files_end_to_end : forall s : str, s <> [] -> ~ In cDQ s ->
  exists root, x_load (x_src s) = inl root /\
    forall (fuel : nat), (2 <= fuel)%nat ->
      x_cat fuel [kw_us] [(s2l "a.html", root); (s2l "b.html", root)] =
      [cat_header; mkCe false [] s [] [(s2l "a.html", 1, 16); (s2l "b.html", 1, 16)]].
Proof.
  intros s Hne Hs. destruct (x_literal_entries s Hne Hs) as (root & Hl & He).
  exists root. split; [exact Hl|]. intros fuel Hf.
  unfold x_cat, catalogue, set_entries. cbn [flat_map fst snd]. rewrite (He fuel Hf). cbn [map app].
  destruct s as [|x s]; [congruence|]. apply cat_two.
Qed.

(* (2) calls that add nothing: concrete sources, computed *)
Theorem xtpl_non_literal_adds_nothing : exists root,
  x_load (s2l "<p :text=""${__(name)}"">x</p>") = inl root /\
  forall (fuel : nat) (fname : str), x_cat fuel [kw_us] [(fname, root)] = [cat_header].
Proof.
  eexists. split; [vm_compute; reflexivity|].
  intros fuel fname. destruct fuel as [|[|[|f]]]; vm_compute; reflexivity.
Qed.

Theorem xtpl_too_few_args : exists root,
  x_load (s2l "<p :text=""${_x('ctx')}"">x</p>") = inl root /\
  forall (fuel : nat) (fname : str), x_cat fuel [kw_x] [(fname, root)] = [cat_header].
Proof.
  eexists. split; [vm_compute; reflexivity|].
  intros fuel fname. destruct fuel as [|[|[|f]]]; vm_compute; reflexivity.
Qed.

(* the same call with both arguments IS extracted (the keyword and the source are not vacuous) *)
Example xtpl_enough_args :
  x_run [kw_x] [(s2l "f.html", s2l "<p :text=""${_x('ctx','m')}"">x</p>")] =
  Some [cat_header; mkCe false (s2l "ctx") (s2l "m") [] [(s2l "f.html", 1, 22)]].
Proof. vm_compute. reflexivity. Qed.

(* necessity of s <> [] : an empty msgid is skipped *)
Example xtpl_empty_adds_nothing : x_run [kw_us] [(s2l "f.html", x_src [])] = Some [cat_header].
Proof. vm_compute. reflexivity. Qed.

(* the theorem instantiated and the model run agree on the three samples *)
Example xtpl_samples_computed :
  map (fun s => x_run [kw_us] [(s2l "f.html", x_src s)]) [s2l "ab"; s2l "it's"; s2l "a}b${c"] =
  map (fun s => Some [cat_header; mkCe false [] s [] [(s2l "f.html", 1, 16)]]) [s2l "ab"; s2l "it's"; s2l "a}b${c"].
Proof. vm_compute. reflexivity. Qed.

(* (1) with every definition of this file unfolded *)
Theorem xtpl_literal_end_to_end_unfolded : forall s : str, s <> [] -> ~ In 34 s ->
  exists root,
    load bx_space bx_lower default_text_tags default_void_elements [58] (parse_ok bx_letter bx_digit)
         (s2l "<p :text=""${__(" ++ quote_with 39 s ++ s2l ")}"">x</p>") = inl root /\
    forall (fuel : nat) (fname : str), (2 <= fuel)%nat ->
      catalogue bx_letter bx_digit [58] fuel [mkKw [95; 95] 0 1 0] [(fname, root)] =
      [cat_header; mkCe false [] s [] [(fname, 1, 16)]].
Proof. exact xtpl_literal_end_to_end. Qed.

Print Assumptions xtpl_literal_end_to_end.
Print Assumptions xtpl_two_files_end_to_end.
Print Assumptions xtpl_non_literal_adds_nothing.
Print Assumptions xtpl_too_few_args.
