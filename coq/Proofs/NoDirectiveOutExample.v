(* C05, last clause: the theorems of Proofs/NoDirectiveOut.v applied to elements scanned and built by
   the pipeline model (attribute prefix ":", tag prefix "t:"), compared with what the renderer model
   computes; and the model facts reported there as executable examples. *)
From Coq Require Import List NArith ZArith Bool Lia String Ascii.
From Tpl Require Import Html.Exec Html.Manager Proofs.ExecSpec Proofs.EmitProps Proofs.RenderPlain
  Proofs.NoDirectiveOut Proofs.NoDirectiveOutExp.
Import ListNotations.
Open Scope N_scope.

Notation nx_attrs := (run_attrs nx_space nx_letter nx_digit nx_methods nx_call nx_mgr).
Notation nx_body := (exec_body nx_space nx_lower nx_letter nx_digit nx_methods nx_call nx_mgr).
Notation nx_init := (init_lstate nx_lower nx_mgr).
Definition tok_of (n : node) : token := match n_tok n with Some t => t | None => mkTok KText [] (0,0) (0,0) [] [] end.

(* ---- ONE element carrying with + if + range + remove + two dynamic + four plain attributes + text ---- *)
Definition many_src : string :=
  "<p id=""a"" :title=""${x}"" :remove=""none"" title=""old"" class=k :range=""i, x : xs"" :if=""${yes}"" :with=""w := ${v}"" :data-w=""${w}"" hidden :text=""${x}"">old</p>".
Definition n_many : node := elem many_src.
Definition tok_many : token := tok_of n_many.
(* the scope of the innermost invocation (mask 3: one range item, condition satisfied) *)
Definition sc_item : scope := SCombine (SData (VMap [(s2l "x", VStr (s2l "a<b")); (s2l "w", VStr (s2l "W"))])) sc0.
(* (a notation, so that the kernel never has to unfold the loop applied to the scanned element by conversion) *)
Notation loop mask sc :=
  (nx_attrs (nx_node 9) mask [n_many] n_many (t_attrs tok_many) (sorted_attrs (m_attr_prefix nx_mgr) (t_attrs tok_many))
           (nx_init mask tok_many sc) [] st0).
Definition tagbuf_of (x : (lstate + rres) * tbl * rst) : string * bool :=
  match x with (inl ls, _, _) => (l2s (l_tagbuf ls), l_np ls) | _ => (EmptyString, true) end.

(* the tag buffer after the loop, per invocation: the owner invocations (mask 0: if, mask 1: range) return
   at their directive, before any dynamic attribute; the innermost one prints the tag *)
Example many_tagbufs :
  tagbuf_of (loop 0 sc0) = ("<p"%string, true) /\
  tagbuf_of (loop 1 sc_item) = ("<p"%string, true) /\
  tagbuf_of (loop 3 sc_item) = ("<p title=""a&lt;b"" data-w=""W"" id=""a"" class=k hidden"%string, false).
Proof. vm_compute. repeat split. Qed.

(* run_attrs_tag_shape applied: the buffer of the innermost invocation has tag_shape (not vacuous: the loop succeeds) *)
Lemma shape_of_loop : forall mask sc ls t' st', loop mask sc = (inl ls, t', st') -> tag_shape nx_mgr tok_many (l_tagbuf ls).
Proof.
  intros mask sc ls t' st' H.
  refine (run_attrs_tag_shape nx_space nx_lower nx_letter nx_digit nx_methods nx_call nx_mgr (nx_node 9)
            mask [n_many] n_many tok_many (sorted_attrs (m_attr_prefix nx_mgr) (t_attrs tok_many)) sc [] st0 ls t' st' _ H).
  intros x Hx. apply ChainProps.in_sorted_attrs in Hx. exact Hx.
Qed.

Definition buf_of (x : (lstate + rres) * tbl * rst) : option str :=
  match x with (inl ls, _, _) => Some (l_tagbuf ls) | _ => None end.

Example many_tag_shape :
  tag_shape nx_mgr tok_many (s2l "<p title=""a&lt;b"" data-w=""W"" id=""a"" class=k hidden").
Proof.
  assert (Hc : buf_of (loop 3 sc_item) = Some (s2l "<p title=""a&lt;b"" data-w=""W"" id=""a"" class=k hidden"))
    by (vm_compute; reflexivity).
  destruct (loop 3 sc_item) as [[[ls|r] t'] st'] eqn:E; [|discriminate Hc].
  cbn [buf_of] in Hc. injection Hc as Hc.
  pose proof (shape_of_loop 3 sc_item ls t' st' E) as G. rewrite Hc in G. exact G.
Qed.

(* the whole render: two items; no directive attribute in the output *)
Example many_render :
  render (many_src ++ " <q>z</q>") =
  ("<p title=""a"" data-w=""&lt;&amp;&gt;"" id=""a"" class=k hidden>a</p> <p title=""b&#34;"" data-w=""&lt;&amp;&gt;"" id=""a"" class=k hidden>b&#34;</p> <q>z</q>"%string, ROk).
Proof. vm_compute. reflexivity. Qed.

(* ---- FINDING 1: "no printed attribute name starts with the prefix" is FALSE without a side condition:
        the source attribute "::x" is the dynamic attribute with command ":x" and prints the name ":x";
        the attribute ":" (empty command) prints an EMPTY name; the plain "x" is shadowed by ":x" ---- *)
Example printed_name_may_start_with_prefix :
  render "<p ::x=""${v}"" :x=""1"" x=""0"" :=""e"" id=1>c</p>" = ("<p :x=""&lt;&amp;&gt;"" x=""1"" =""e"" id=1>c</p>"%string, ROk).
Proof. vm_compute. reflexivity. Qed.
(* the side condition of no_prefixed_name_printed fails exactly for that element *)
Example side_condition_fails :
  existsb (fun a => prefixb ([58] ++ [58]) (a_name a)) (t_attrs (tok_of (elem "<p ::x=""${v}"" :x=""1"" x=""0"" :=""e"" id=1>c</p>"))) = true /\
  existsb (fun a => prefixb ([58] ++ [58]) (a_name a)) (t_attrs tok_many) = false.
Proof. vm_compute. split; reflexivity. Qed.

(* ---- plain attributes named like directives are printed (they are not directive attributes) unless shadowed ---- *)
Example plain_named_like_directive :
  render "<p if=""a"" text=b :text=""${v}"" remove>c</p>" = ("<p if=""a"" remove>&lt;&amp;&gt;</p>"%string, ROk).
Proof. vm_compute. reflexivity. Qed.

(* ---- FINDING 2 (what :replace does): it appends the fragment to l_direct and sets l_replace; a LATER :insert then
        also goes to l_direct.  The tag itself is suppressed by the pre-check (the tag has :replace). ---- *)
Example insert_replace_define :
  render "<p a=1 :insert=""f"" :b=""${v}"">c</p>|<p a=1 :replace=""g"" :b=""${v}"">c</p>|<p a=1 :define=""h"" :b=""${v}"">c</p>"
  = ("<p b=""&lt;&amp;&gt;"" a=1><b k=""&lt;&amp;&gt;"">F</b></p>|<i>&lt;&amp;&gt;</i>|"%string, ROk) /\
  render "<p a=1 :insert=""f"" :replace=""g"">c</p>" = ("<i>&lt;&amp;&gt;</i>"%string, ROk) /\
  render "<p a=1 :replace=""g"" :insert=""f"">c</p>" = ("<i>&lt;&amp;&gt;</i><b k=""&lt;&amp;&gt;"">F</b>"%string, ROk).
Proof. vm_compute. repeat split. Qed.

(* ---- block tags ---- *)
Definition n_block : node := elem "<t:block>in<b>x</b></t:block>".
Example block_by_theorem : forall top t st,
  nx_node 10 0 [] n_block sc0 top t st
  = seq2 (wr top [] t st) (exec_list (nx_node 9) (n_children n_block) (n_children n_block) sc0 top).
Proof.
  intros top t st. cbn [exec_node].
  apply (block_tag_plain nx_space nx_lower nx_letter nx_digit nx_methods nx_call nx_mgr (nx_node 9) 0 [] n_block (tok_of n_block));
    vm_compute; reflexivity.
Qed.
(* block tag with attributes: the dynamic attribute is evaluated but nothing of the tag is written; the name is
   compared lower-cased, without the trailing '/' of a self-closing tag: "t:blocks" is printed, the self-closing
   "<t:block/>" (token name "t:block/") is a block tag (it was printed before the fix ffc2788 in /repo) *)
Example block_tags :
  render "<t:block a=1 :k=""${v}"">in<b>x</b></t:block>|<T:Block>y</T:Block>|<t:blocks>n</t:blocks>|<t:block/>|<t:block :text=""${v}"">o</t:block>"
  = ("in<b>x</b>|y|<t:blocks>n</t:blocks>||&lt;&amp;&gt;"%string, ROk) /\
  l2s (t_name (tok_of (elem "<t:block/>"))) = "t:block/"%string.
Proof. vm_compute. split; reflexivity. Qed.

(* ---- hidden comments ---- *)
Definition n_hidden : node := elem "<!-- /* hidden */ -->".
Example hidden_by_theorem : forall mask ctx sc top t st, RenderPlain.wok top st ->
  nx_node 5 mask ctx n_hidden sc top t st = ([], ROk, t, st).
Proof.
  intros mask ctx sc top t st Hw. cbn [exec_node].
  apply (hidden_comment_out nx_space nx_lower nx_letter nx_digit nx_methods nx_call nx_mgr (nx_node 4) mask ctx n_hidden (tok_of n_hidden));
    try (vm_compute; reflexivity). exact Hw.
Qed.
Example comments :
  render "a<!--/* hidden */-->b<!-- /*h*/ -->c<!--shown-->d<!--/* not hidden -->e<!--/**/-->f<!--/*/-->g"
  = ("abc<!--shown-->d<!--/* not hidden -->efg"%string, ROk).
Proof. vm_compute. reflexivity. Qed.
(* the empty Write of a hidden comment is observable with an exhausted top-level writer *)
Example hidden_comment_writes_once :
  nx_node 12 0 [] n_hidden sc0 true [] (mkR [] (Some O)) = ([], RErr RWriter, [], mkR [] (Some O)) /\
  nx_node 12 0 [] n_hidden sc0 false [] (mkR [] (Some O)) = ([], ROk, [], mkR [] (Some O)).
Proof. vm_compute. split; reflexivity. Qed.

Print Assumptions many_tag_shape.
Print Assumptions block_by_theorem.
Print Assumptions hidden_by_theorem.
