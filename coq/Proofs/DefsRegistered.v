(* C07 / C19: what [add_defs] (addDefinedTpl) registers.

   [add_defs fuel root tps] walks the tree in pre-order and registers every element that carries the
   directive attribute [attr_prefix ++ d_define], at ANY depth (inside other definitions, inside
   ordinary elements), under the name its value evaluates to; the body is the element's children
   with blank first / last text dropped.  The walk is characterised completely by a fold [reg] over
   the pre-order list [nodes root] of the tree ([add_defs_reg]); everything else is derived from it.

   The name of a definition is evaluated with [mk_mgr tps] as manager, but [attr_evaluate] uses the
   manager only for its attribute prefix, which does not depend on [tps] ([aev_mgr_indep]); so the
   name of a node does not depend on what is registered: [def_name_of] has no [tps] parameter. *)
From Coq Require Import List NArith Bool Lia.
From Tpl Require Import Html.Exec Html.Manager Proofs.PureRenderTree Proofs.FsProps.
Import ListNotations.
Open Scope N_scope.

(* ---------- lists of pairs ---------- *)
Definition keys {A} (l : list (str * A)) : list str := map fst l.

Lemma keys_app : forall A (a b : list (str * A)), keys (a ++ b) = keys a ++ keys b.
Proof. intros A a b. unfold keys. apply map_app. Qed.

Lemma str_eqb_neq : forall a b : str, a <> b -> str_eqb a b = false.
Proof.
  intros a b Hne. destruct (str_eqb a b) eqn:E; [|reflexivity].
  exfalso. apply Hne. apply fp_str_eqb_eq. exact E.
Qed.

Lemma assoc_nil : forall A (k : str), assoc k (@nil (str * A)) = None.
Proof. reflexivity. Qed.

Lemma assoc_none_not_in : forall A (k : str) (l : list (str * A)), assoc k l = None -> ~ In k (keys l).
Proof.
  induction l as [|[k' v] l IH]; intros H Hin; [destruct Hin|].
  rewrite assoc_cons in H. cbn [keys map fst In] in Hin.
  destruct Hin as [Hk|Hin].
  - subst k'. rewrite fp_str_eqb_refl in H. discriminate.
  - destruct (str_eqb k' k); [discriminate|]. exact (IH H Hin).
Qed.

Lemma assoc_not_in_none : forall A (k : str) (l : list (str * A)), ~ In k (keys l) -> assoc k l = None.
Proof.
  induction l as [|[k' v] l IH]; intros Hn; [reflexivity|].
  rewrite assoc_cons. cbn [keys map fst In] in Hn.
  rewrite str_eqb_neq by (intros E; apply Hn; left; exact E).
  apply IH. intros Hin. apply Hn. right. exact Hin.
Qed.

Lemma assoc_in_some : forall A (k : str) (l : list (str * A)), In k (keys l) -> assoc k l <> None.
Proof. intros A k l Hin H. exact (assoc_none_not_in _ _ _ H Hin). Qed.

Lemma assoc_app_none_l : forall A (k : str) (l1 l2 : list (str * A)), assoc k (l1 ++ l2) = None -> assoc k l1 = None.
Proof.
  intros A k l1 l2 H. destruct (assoc k l1) as [v|] eqn:E; [|reflexivity].
  rewrite (assoc_app_some _ _ _ l2 _ E) in H. discriminate.
Qed.

Lemma assoc_app_none_both : forall A (k : str) (l1 l2 : list (str * A)),
  assoc k l1 = None -> assoc k l2 = None -> assoc k (l1 ++ l2) = None.
Proof. intros A k l1 l2 H1 H2. rewrite (assoc_app_none _ _ _ _ H1). exact H2. Qed.

Lemma assoc_snoc_new : forall A (k : str) (v : A) (l : list (str * A)),
  assoc k l = None -> assoc k (l ++ [(k, v)]) = Some v.
Proof. intros A k v l H. rewrite (assoc_app_none _ _ _ _ H), assoc_cons, fp_str_eqb_refl. reflexivity. Qed.

(* ---------- the height of a tree: the fuel [add_defs] needs ---------- *)
Fixpoint height (n : node) : nat := let 'Node _ _ ch _ := n in S (list_max (map height ch)).
Lemma height_unfold : forall n, height n = S (list_max (map height (n_children n))).
Proof. intros n. destruct n; reflexivity. Qed.
Lemma height_children : forall n f, (height n <= S f)%nat <-> Forall (fun c => (height c <= f)%nat) (n_children n).
Proof.
  intros n f. rewrite height_unfold, <- Forall_map with (P := fun k => (k <= f)%nat), <- list_max_le. lia.
Qed.
Lemma height_pos : forall n, (1 <= height n)%nat.
Proof. intros n. rewrite height_unfold. lia. Qed.

(* ---------- descendants: [nodes n] is the pre-order list of [n] and all its descendants ---------- *)
Inductive desc : node -> node -> Prop :=
| desc_refl : forall n, desc n n
| desc_child : forall n c d, In c (n_children n) -> desc c d -> desc n d.

Lemma desc_nodes : forall n d, desc n d <-> In d (nodes n).
Proof.
  intros n d. split.
  - intros H. induction H as [n|n c d Hc _ IH]; [apply nodes_self|].
    rewrite nodes_unfold. right. exact (in_forest c _ Hc d IH).
  - revert d. apply (node_ind' (fun n => forall d, In d (nodes n) -> desc n d)).
    intros i tok ch e IH d Hd. rewrite nodes_unfold in Hd. cbn [n_children] in Hd.
    destruct Hd as [Hd|Hd]; [subst d; apply desc_refl|].
    apply in_flat_map in Hd as (c & Hc & Hdc).
    rewrite Forall_forall in IH. eapply desc_child; [exact Hc | exact (IH c Hc d Hdc)].
Qed.

Section Defs.
Variable is_space : rune -> bool.
Variable is_letter : rune -> bool.
Variable is_udigit : rune -> bool.
Variable methods : N -> bool -> list (str * N).
Variable call_fn : N -> list value -> fres.
Variable tag_prefix : str.
Variable attr_prefix : str.
Variable global : scope.

Notation T := (list (str * template)).
Notation adddefs := (add_defs is_space is_letter is_udigit methods call_fn tag_prefix attr_prefix global).
Notation mgr := (mk_mgr tag_prefix attr_prefix global).
Notation aev := (attr_evaluate is_letter is_udigit methods call_fn).
Notation trim := (trim_blank_ends is_space).

(* the manager is used by [attr_evaluate] only through its attribute prefix *)
Lemma aev_mgr_indep : forall tps1 tps2 a sc lg, aev (mgr tps1) a sc lg = aev (mgr tps2) a sc lg.
Proof. intros tps1 tps2 a sc lg. reflexivity. Qed.

(* ---------- the definition carried by a node ---------- *)
Definition define_attr (n : node) : option attr :=
  match n_tok n with
  | Some tok =>
    match t_kind tok with
    | KTag => find (fun a => str_eqb (a_name a) (attr_prefix ++ d_define)) (t_attrs tok)
    | _ => None
    end
  | None => None
  end.

(* no define attribute / the name it evaluates to (empty data, empty log) / evaluation fails *)
Inductive dkind := DNo | DOk (nm : str) | DErr.
Definition def_kind (n : node) : dkind :=
  match define_attr n with
  | None => DNo
  | Some a => match aev (mgr []) a (SData (VMap [])) [] with
              | (AOk nm, _) => DOk nm
              | _ => DErr
              end
  end.
Definition def_name_of (n : node) : option str := match def_kind n with DOk nm => Some nm | _ => None end.
Definition body_of (d : node) : template := mkT (trim (n_children d)) (n_children d).
Definition entry_of (d : node) : T := match def_name_of d with Some nm => [(nm, body_of d)] | None => [] end.
(* the entries of the defining nodes of a list of nodes, in order *)
Definition defs_of (l : list node) : T := flat_map entry_of l.

Definition is_def (d : node) : bool := match def_name_of d with Some _ => true | None => false end.
Definition entry (d : node) : str * template :=
  (match def_name_of d with Some nm => nm | None => [] end, body_of d).
Lemma defs_of_map : forall l, defs_of l = map entry (filter is_def l).
Proof.
  induction l as [|d l IH]; [reflexivity|].
  unfold defs_of in *. cbn [flat_map filter]. rewrite IH.
  unfold entry_of, is_def. destruct (def_name_of d) as [nm|] eqn:En; [|reflexivity].
  cbn [map app]. f_equal. unfold entry. rewrite En. reflexivity.
Qed.

Lemma defs_of_app : forall a b, defs_of (a ++ b) = defs_of a ++ defs_of b.
Proof. intros a b. unfold defs_of. apply flat_map_app. Qed.
Lemma defs_of_cons : forall d l, defs_of (d :: l) = entry_of d ++ defs_of l.
Proof. reflexivity. Qed.

Lemma in_keys_defs_of : forall l k, In k (keys (defs_of l)) <-> exists d, In d l /\ def_name_of d = Some k.
Proof.
  intros l k. unfold keys, defs_of. rewrite in_map_iff. split.
  - intros ([k' b] & Hk & Hin). cbn [fst] in Hk. subst k'. apply in_flat_map in Hin as (d & Hd & He).
    exists d. split; [exact Hd|]. unfold entry_of in He. destruct (def_name_of d) as [nm|]; [|destruct He].
    destruct He as [He|[]]. inversion He. reflexivity.
  - intros (d & Hd & Hn). exists (k, body_of d). split; [reflexivity|]. apply in_flat_map. exists d.
    split; [exact Hd|]. unfold entry_of. rewrite Hn. left. reflexivity.
Qed.

(* ---------- the walk, with named pieces ---------- *)
Definition bind (x : T * option lerr) (k : T -> T * option lerr) : T * option lerr :=
  match x with (t, None) => k t | (t, Some e) => (t, Some e) end.

(* what [add_defs] does at the node itself *)
Definition own_def (n : node) (tps : T) : T * option lerr :=
  match def_kind n with
  | DNo => (tps, None)
  | DErr => (tps, Some LEval)
  | DOk nm => match assoc nm tps with
              | Some _ => (tps, Some LDup)
              | None => (tps ++ [(nm, body_of n)], None)
              end
  end.

Fixpoint go_defs (f : nat) (l : list node) (tps : T) : T * option lerr :=
  match l with
  | [] => (tps, None)
  | c :: r => bind (adddefs f c tps) (go_defs f r)
  end.

Lemma go_defs_eq : forall f l t,
  (fix go (l : list node) (tps : T) {struct l} : T * option lerr :=
     match l with
     | [] => (tps, None)
     | c :: r => match adddefs f c tps with
                 | (tps', None) => go r tps'
                 | e => e
                 end
     end) l t = go_defs f l t.
Proof.
  intros f. induction l as [|c r IH]; intros t; [reflexivity|].
  cbn [go_defs]. destruct (adddefs f c t) as [t' [e|]]; cbn [bind]; [reflexivity|apply IH].
Qed.

Lemma add_defs_O : forall n tps, adddefs O n tps = (tps, Some LEval).
Proof. reflexivity. Qed.

Lemma add_defs_S : forall f n tps,
  adddefs (S f) n tps = bind (own_def n tps) (go_defs f (n_children n)).
Proof.
  intros f n tps. cbn [add_defs]. unfold own_def, def_kind, define_attr.
  destruct (n_tok n) as [tok|]; [|apply go_defs_eq].
  destruct (t_kind tok); try apply go_defs_eq.
  destruct (find _ (t_attrs tok)) as [a|]; [|apply go_defs_eq].
  rewrite (aev_mgr_indep tps []).
  destruct (aev (mgr []) a (SData (VMap [])) []) as [[nm|c|] lg]; try reflexivity.
  destruct (assoc nm tps) as [tp|]; [reflexivity|]. cbn [bind]. apply go_defs_eq.
Qed.

(* ---------- the reference: a fold over a list of nodes ---------- *)
Fixpoint reg (l : list node) (tps : T) : T * option lerr :=
  match l with
  | [] => (tps, None)
  | d :: r => bind (own_def d tps) (reg r)
  end.

Lemma reg_app : forall l1 l2 t, reg (l1 ++ l2) t = bind (reg l1 t) (reg l2).
Proof.
  induction l1 as [|d l1 IH]; intros l2 t; [reflexivity|].
  cbn [app reg]. destruct (own_def d t) as [t1 [e|]]; cbn [bind]; [reflexivity|apply IH].
Qed.

(* with enough fuel [add_defs] IS the fold over the pre-order list of the tree *)
Theorem add_defs_reg : forall f n tps, (height n <= f)%nat -> adddefs f n tps = reg (nodes n) tps.
Proof.
  induction f as [|f IH]; intros n tps Hh.
  - pose proof (height_pos n). lia.
  - assert (Hgo : forall l, Forall (fun c => (height c <= f)%nat) l ->
                  forall t, go_defs f l t = reg (flat_map nodes l) t).
    { induction l as [|c r IHl]; intros Hl t; [reflexivity|].
      inversion Hl as [|c' r' Hc Hr]; subst.
      cbn [go_defs flat_map]. rewrite reg_app, (IH c t Hc).
      destruct (reg (nodes c) t) as [t' [e|]]; cbn [bind]; [reflexivity|apply IHl; exact Hr]. }
    rewrite add_defs_S, nodes_unfold. cbn [reg].
    apply height_children in Hh.
    destruct (own_def n tps) as [t1 [e|]]; cbn [bind]; [reflexivity|apply Hgo; exact Hh].
Qed.

(* the walk cannot succeed without enough fuel: when the fuel runs out the result is [Some LEval] *)
Theorem add_defs_success_fuel : forall f n tps tps', adddefs f n tps = (tps', None) -> (height n <= f)%nat.
Proof.
  induction f as [|f IH]; intros n tps tps' H.
  - rewrite add_defs_O in H. discriminate.
  - assert (Hgo : forall l t t', go_defs f l t = (t', None) -> Forall (fun c => (height c <= f)%nat) l).
    { induction l as [|c r IHl]; intros t t' Hg; [constructor|].
      cbn [go_defs] in Hg. destruct (adddefs f c t) as [t1 [e|]] eqn:Hc; cbn [bind] in Hg; [discriminate|].
      constructor; [exact (IH _ _ _ Hc)|exact (IHl _ _ Hg)]. }
    rewrite add_defs_S in H. destruct (own_def n tps) as [t1 [e|]]; cbn [bind] in H; [discriminate|].
    apply height_children. exact (Hgo _ _ _ H).
Qed.

Corollary add_defs_low_fuel : forall f n tps, (f < height n)%nat -> snd (adddefs f n tps) <> None.
Proof.
  intros f n tps Hlt H. destruct (adddefs f n tps) as [tps' r] eqn:E. cbn [snd] in H. subst r.
  apply add_defs_success_fuel in E. lia.
Qed.

(* ---------- facts about one node ---------- *)
Lemma own_def_extends : forall n tps t1 r, own_def n tps = (t1, r) -> exists added, t1 = tps ++ added.
Proof.
  intros n tps t1 r H. unfold own_def in H.
  destruct (def_kind n) as [|nm|].
  - inversion H; subst. exists []. rewrite app_nil_r. reflexivity.
  - destruct (assoc nm tps) as [tp|]; inversion H; subst.
    + exists []. rewrite app_nil_r. reflexivity.
    + eexists. reflexivity.
  - inversion H; subst. exists []. rewrite app_nil_r. reflexivity.
Qed.

Lemma own_def_ok : forall n tps t1, own_def n tps = (t1, None) ->
  t1 = tps ++ entry_of n /\ def_kind n <> DErr /\ (forall nm, def_name_of n = Some nm -> assoc nm tps = None).
Proof.
  intros n tps t1 H. unfold own_def in H. unfold entry_of, def_name_of.
  destruct (def_kind n) as [|nm|].
  - inversion H; subst. rewrite app_nil_r. split; [reflexivity|]. split; [discriminate|]. intros nm E; discriminate.
  - destruct (assoc nm tps) as [tp|] eqn:Ea; inversion H; subst.
    split; [reflexivity|]. split; [discriminate|]. intros nm' E. inversion E; subst. exact Ea.
  - discriminate.
Qed.

Lemma own_def_complete : forall n tps, def_kind n <> DErr ->
  (forall nm, def_name_of n = Some nm -> assoc nm tps = None) ->
  own_def n tps = (tps ++ entry_of n, None).
Proof.
  intros n tps Hne Hfresh. unfold own_def, entry_of, def_name_of in *.
  destruct (def_kind n) as [|nm|].
  - rewrite app_nil_r. reflexivity.
  - rewrite (Hfresh nm eq_refl). reflexivity.
  - congruence.
Qed.

Lemma own_def_fail : forall n tps t1 e, own_def n tps = (t1, Some e) ->
  t1 = tps /\ ((e = LDup /\ exists nm, def_name_of n = Some nm /\ assoc nm tps <> None) \/
               (e = LEval /\ def_kind n = DErr)).
Proof.
  intros n tps t1 e H. unfold own_def in H. unfold def_name_of.
  destruct (def_kind n) as [|nm|].
  - discriminate.
  - destruct (assoc nm tps) as [tp|] eqn:Ea; inversion H; subst.
    split; [reflexivity|]. left. split; [reflexivity|]. exists nm. split; [reflexivity|]. rewrite Ea. discriminate.
  - inversion H; subst. split; [reflexivity|]. right. split; reflexivity.
Qed.

(* ---------- facts about the fold ---------- *)
Lemma reg_extends : forall l tps tps' r, reg l tps = (tps', r) -> exists added, tps' = tps ++ added.
Proof.
  induction l as [|d l IH]; intros tps tps' r H.
  - inversion H; subst. exists []. rewrite app_nil_r. reflexivity.
  - cbn [reg] in H. destruct (own_def d tps) as [t1 [e|]] eqn:Ho; cbn [bind] in H.
    + inversion H; subst. exact (own_def_extends _ _ _ _ Ho).
    + destruct (own_def_extends _ _ _ _ Ho) as [a1 ->]. destruct (IH _ _ _ H) as [a2 ->].
      exists (a1 ++ a2). rewrite app_assoc. reflexivity.
Qed.

(* success: what is added is exactly the entries of the defining nodes, in order; no node fails to
   evaluate; the names are pairwise distinct and were not registered before *)
Lemma reg_ok : forall l tps tps', reg l tps = (tps', None) ->
  tps' = tps ++ defs_of l /\
  (forall d, In d l -> def_kind d <> DErr) /\
  NoDup (keys (defs_of l)) /\
  (forall k, In k (keys (defs_of l)) -> assoc k tps = None).
Proof.
  induction l as [|d l IH]; intros tps tps' H.
  - inversion H; subst. rewrite app_nil_r. split; [reflexivity|]. split; [intros d []|].
    split; [constructor|intros k []].
  - cbn [reg] in H. destruct (own_def d tps) as [t1 [e|]] eqn:Ho; cbn [bind] in H; [discriminate|].
    destruct (own_def_ok _ _ _ Ho) as (Ht1 & Hne & Hfresh).
    destruct (IH _ _ H) as (Ht' & Hall & Hnd & Hnew).
    rewrite defs_of_cons, keys_app.
    split; [rewrite Ht', Ht1, app_assoc; reflexivity|].
    split; [intros d' [<-|Hd']; [exact Hne|exact (Hall d' Hd')]|].
    unfold entry_of in *. destruct (def_name_of d) as [nm|] eqn:En.
    + cbn [keys map fst app]. split.
      * constructor; [|exact Hnd]. intros Hin. apply Hnew in Hin. subst t1.
        exact (assoc_snoc_self _ _ _ _ Hin).
      * intros k [<-|Hk]; [exact (Hfresh nm eq_refl)|].
        apply Hnew in Hk. subst t1. exact (assoc_app_none_l _ _ _ _ Hk).
    + cbn [keys map app]. rewrite app_nil_r in Ht1. subst t1. split; [exact Hnd|exact Hnew].
Qed.

(* ... and conversely *)
Lemma reg_complete : forall l tps,
  (forall d, In d l -> def_kind d <> DErr) ->
  NoDup (keys (defs_of l)) ->
  (forall k, In k (keys (defs_of l)) -> assoc k tps = None) ->
  reg l tps = (tps ++ defs_of l, None).
Proof.
  induction l as [|d l IH]; intros tps Hall Hnd Hnew.
  - cbn [reg defs_of flat_map]. rewrite app_nil_r. reflexivity.
  - rewrite defs_of_cons, keys_app in Hnd, Hnew.
    assert (Ho : own_def d tps = (tps ++ entry_of d, None)).
    { apply own_def_complete; [apply Hall; left; reflexivity|].
      intros nm En. apply Hnew. apply in_or_app. left. unfold entry_of. rewrite En. left. reflexivity. }
    cbn [reg]. rewrite Ho. cbn [bind]. rewrite defs_of_cons, app_assoc.
    apply IH.
    + intros d' Hd'. apply Hall. right. exact Hd'.
    + unfold keys in Hnd. exact (NoDup_app_remove_l _ _ Hnd).
    + intros k Hk. apply assoc_app_none_both; [apply Hnew; apply in_or_app; right; exact Hk|].
      apply assoc_not_in_none. intros Hin.
      unfold entry_of in *. destruct (def_name_of d) as [nm|]; [|destruct Hin].
      cbn [keys map fst app In] in Hin, Hnd. destruct Hin as [<-|[]].
      apply NoDup_cons_iff in Hnd as [Hni _]. exact (Hni Hk).
Qed.

Lemma reg_lookup : forall l tps tps', reg l tps = (tps', None) ->
  forall d nm, In d l -> def_name_of d = Some nm -> assoc nm tps' = Some (body_of d).
Proof.
  induction l as [|d0 l IH]; intros tps tps' H d nm Hd Hn; [destruct Hd|].
  cbn [reg] in H. destruct (own_def d0 tps) as [t1 [e|]] eqn:Ho; cbn [bind] in H; [discriminate|].
  destruct Hd as [<-|Hd]; [|exact (IH _ _ H d nm Hd Hn)].
  destruct (own_def_ok _ _ _ Ho) as (Ht1 & _ & Hfresh).
  destruct (reg_extends _ _ _ _ H) as [added ->].
  apply assoc_app_some. subst t1. unfold entry_of. rewrite Hn.
  apply assoc_snoc_new. exact (Hfresh nm Hn).
Qed.

(* failure: the first node that cannot be registered, what was registered before it, and why *)
Lemma reg_fail : forall l tps tps' e, reg l tps = (tps', Some e) ->
  exists pre d post, l = pre ++ d :: post /\ tps' = tps ++ defs_of pre /\
    (forall p, In p pre -> def_kind p <> DErr) /\
    ((e = LDup /\ exists nm, def_name_of d = Some nm /\ assoc nm (tps ++ defs_of pre) <> None) \/
     (e = LEval /\ def_kind d = DErr)).
Proof.
  induction l as [|d0 l IH]; intros tps tps' e H; [discriminate|].
  cbn [reg] in H. destruct (own_def d0 tps) as [t1 [e1|]] eqn:Ho; cbn [bind] in H.
  - inversion H; subst. destruct (own_def_fail _ _ _ _ Ho) as [-> Hwhy].
    exists [], d0, l. cbn [app defs_of flat_map]. rewrite app_nil_r.
    split; [reflexivity|]. split; [reflexivity|]. split; [intros p []|exact Hwhy].
  - destruct (own_def_ok _ _ _ Ho) as (Ht1 & Hne & _).
    destruct (IH _ _ _ H) as (pre & d & post & Hl & Ht' & Hpre & Hwhy).
    exists (d0 :: pre), d, post. rewrite defs_of_cons.
    replace (tps ++ entry_of d0 ++ defs_of pre) with (t1 ++ defs_of pre) by (rewrite Ht1, app_assoc; reflexivity).
    split; [rewrite Hl; reflexivity|]. split; [exact Ht'|].
    split; [intros p [<-|Hp]; [exact Hne|exact (Hpre p Hp)]|exact Hwhy].
Qed.

(* a node whose name is already taken (by [tps] or by an earlier node) makes the fold fail, with
   [LDup] when every earlier node evaluates *)
Lemma reg_dup : forall pre d post nm tps,
  def_name_of d = Some nm -> assoc nm (tps ++ defs_of pre) <> None ->
  snd (reg (pre ++ d :: post) tps) <> None /\
  ((forall p, In p pre -> def_kind p <> DErr) -> snd (reg (pre ++ d :: post) tps) = Some LDup).
Proof.
  intros pre d post nm tps Hn Ha. rewrite reg_app.
  destruct (reg pre tps) as [t1 [e|]] eqn:Hp; cbn [bind snd].
  - split; [discriminate|]. intros Hall.
    destruct (reg_fail _ _ _ _ Hp) as (pre' & d' & post' & Hl & _ & _ & [[-> _]|[_ Hd']]); [reflexivity|].
    exfalso. apply (Hall d'); [|exact Hd']. rewrite Hl. apply in_or_app. right. left. reflexivity.
  - destruct (reg_ok _ _ _ Hp) as (-> & _).
    cbn [reg]. unfold own_def. unfold def_name_of in Hn.
    destruct (def_kind d) as [|nm'|]; try discriminate. inversion Hn; subst nm'.
    destruct (assoc nm (tps ++ defs_of pre)) as [tp|]; [|congruence].
    cbn [bind snd]. split; [discriminate|reflexivity].
Qed.

(* ================= the theorems about [add_defs] ================= *)

(* 2. nothing already registered is changed or removed, whatever the result *)
Theorem add_defs_extends : forall f n tps tps' r,
  adddefs f n tps = (tps', r) -> exists added, tps' = tps ++ added.
Proof.
  induction f as [|f IH]; intros n tps tps' r H.
  - rewrite add_defs_O in H. inversion H; subst. exists []. rewrite app_nil_r. reflexivity.
  - assert (Hgo : forall l t t' r', go_defs f l t = (t', r') -> exists added, t' = t ++ added).
    { induction l as [|c l IHl]; intros t t' r' Hg.
      - inversion Hg; subst. exists []. rewrite app_nil_r. reflexivity.
      - cbn [go_defs] in Hg. destruct (adddefs f c t) as [t1 [e|]] eqn:Hc; cbn [bind] in Hg.
        + inversion Hg; subst. exact (IH _ _ _ _ Hc).
        + destruct (IH _ _ _ _ Hc) as [a1 ->]. destruct (IHl _ _ _ Hg) as [a2 ->].
          exists (a1 ++ a2). rewrite app_assoc. reflexivity. }
    rewrite add_defs_S in H. destruct (own_def n tps) as [t1 [e|]] eqn:Ho; cbn [bind] in H.
    + inversion H; subst. exact (own_def_extends _ _ _ _ Ho).
    + destruct (own_def_extends _ _ _ _ Ho) as [a1 ->]. destruct (Hgo _ _ _ _ H) as [a2 ->].
      exists (a1 ++ a2). rewrite app_assoc. reflexivity.
Qed.

Lemma add_defs_ok_reg : forall f n tps tps', adddefs f n tps = (tps', None) -> reg (nodes n) tps = (tps', None).
Proof.
  intros f n tps tps' H. rewrite <- (add_defs_reg f n tps (add_defs_success_fuel _ _ _ _ H)). exact H.
Qed.

(* 3. on success EVERY defining node of the tree, at any depth, is registered under its name with
      its trimmed children as body *)
Theorem add_defs_registers_every_definition : forall f n tps tps',
  adddefs f n tps = (tps', None) ->
  forall d nm, desc n d -> def_name_of d = Some nm ->
  assoc nm tps' = Some (mkT (trim (n_children d)) (n_children d)).
Proof.
  intros f n tps tps' H d nm Hd Hn. apply desc_nodes in Hd.
  exact (reg_lookup _ _ _ (add_defs_ok_reg _ _ _ _ H) d nm Hd Hn).
Qed.

(* 4. on success what is added is exactly the entries of the defining nodes, in pre-order: there
      are no spurious names *)
Theorem add_defs_only_definitions : forall f n tps tps',
  adddefs f n tps = (tps', None) ->
  tps' = tps ++ map entry (filter is_def (nodes n)).
Proof.
  intros f n tps tps' H. rewrite <- defs_of_map.
  exact (proj1 (reg_ok _ _ _ (add_defs_ok_reg _ _ _ _ H))).
Qed.

(* 3b. on success the names added are pairwise distinct and were not registered before; every
       define attribute of the tree evaluates *)
Theorem add_defs_names_distinct : forall f n tps tps',
  adddefs f n tps = (tps', None) ->
  NoDup (keys (defs_of (nodes n))) /\
  (forall k, In k (keys (defs_of (nodes n))) -> assoc k tps = None) /\
  (forall d, desc n d -> def_kind d <> DErr).
Proof.
  intros f n tps tps' H.
  destruct (reg_ok _ _ _ (add_defs_ok_reg _ _ _ _ H)) as (_ & Hall & Hnd & Hnew).
  split; [exact Hnd|]. split; [exact Hnew|]. intros d Hd. apply Hall. apply desc_nodes. exact Hd.
Qed.

(* success, characterised: enough fuel, every define attribute evaluates, the names are pairwise
   distinct and new *)
Theorem add_defs_success_iff : forall f n tps,
  (exists tps', adddefs f n tps = (tps', None)) <->
  (height n <= f)%nat /\
  (forall d, desc n d -> def_kind d <> DErr) /\
  NoDup (keys (defs_of (nodes n))) /\
  (forall k, In k (keys (defs_of (nodes n))) -> assoc k tps = None).
Proof.
  intros f n tps. split.
  - intros [tps' H]. split; [exact (add_defs_success_fuel _ _ _ _ H)|].
    destruct (add_defs_names_distinct _ _ _ _ H) as (Hnd & Hnew & Hall). auto.
  - intros (Hf & Hall & Hnd & Hnew). exists (tps ++ defs_of (nodes n)).
    rewrite (add_defs_reg _ _ _ Hf). apply reg_complete; [|exact Hnd|exact Hnew].
    intros d Hd. apply Hall. apply desc_nodes. exact Hd.
Qed.

(* 5. duplicates.  [nodes n = pre ++ d :: post]: [pre] is what the walk visits before [d].
      If the name of [d] is already registered when the walk reaches it -- it is in [tps], or it is the
      name of an earlier defining node -- the walk does not succeed, for any fuel; with enough fuel
      the error is [LDup] provided every define attribute visited before [d] evaluates (otherwise
      the walk has already stopped, with [LEval] or an earlier [LDup]) *)
Theorem add_defs_duplicate : forall f n tps pre d post nm,
  nodes n = pre ++ d :: post ->
  def_name_of d = Some nm ->
  assoc nm tps <> None \/ (exists d1, In d1 pre /\ def_name_of d1 = Some nm) ->
  snd (adddefs f n tps) <> None /\
  ((height n <= f)%nat -> (forall p, In p pre -> def_kind p <> DErr) -> snd (adddefs f n tps) = Some LDup).
Proof.
  intros f n tps pre d post nm Hl Hn Hdup.
  assert (Ha : assoc nm (tps ++ defs_of pre) <> None).
  { destruct Hdup as [Ht|(d1 & Hd1 & Hn1)].
    - destruct (assoc nm tps) as [tp|] eqn:E; [|congruence].
      rewrite (assoc_app_some _ _ _ (defs_of pre) _ E). discriminate.
    - apply assoc_in_some. rewrite keys_app. apply in_or_app. right.
      apply in_keys_defs_of. exists d1. split; assumption. }
  destruct (reg_dup pre d post nm tps Hn Ha) as [Hne Hld]. rewrite <- Hl in Hne, Hld.
  split.
  - destruct (Nat.le_gt_cases (height n) f) as [Hf|Hf].
    + rewrite (add_defs_reg _ _ _ Hf). exact Hne.
    + apply add_defs_low_fuel. exact Hf.
  - intros Hf Hall. rewrite (add_defs_reg _ _ _ Hf). exact (Hld Hall).
Qed.

(* the two cases in the form "the tree has two defining nodes with one name" / "a defining node
   has a registered name" *)
Corollary add_defs_duplicate_in_tree : forall f n tps l1 d1 l2 d2 l3 nm,
  nodes n = l1 ++ d1 :: l2 ++ d2 :: l3 -> def_name_of d1 = Some nm -> def_name_of d2 = Some nm ->
  snd (adddefs f n tps) <> None.
Proof.
  intros f n tps l1 d1 l2 d2 l3 nm Hl H1 H2.
  refine (proj1 (add_defs_duplicate f n tps (l1 ++ d1 :: l2) d2 l3 nm _ H2 _)).
  - rewrite Hl, <- app_assoc. reflexivity.
  - right. exists d1. split; [apply in_or_app; right; left; reflexivity|exact H1].
Qed.

Corollary add_defs_duplicate_existing : forall f n tps d nm,
  desc n d -> def_name_of d = Some nm -> assoc nm tps <> None ->
  snd (adddefs f n tps) <> None.
Proof.
  intros f n tps d nm Hd Hn Ha. apply desc_nodes in Hd. apply in_split in Hd as (pre & post & Hl).
  exact (proj1 (add_defs_duplicate f n tps pre d post nm Hl Hn (or_introl Ha))).
Qed.

(* failure with enough fuel, characterised: the first node that cannot be registered; everything
   registered before it stays registered (the model does not roll back) *)
Theorem add_defs_failure : forall f n tps tps' e,
  (height n <= f)%nat -> adddefs f n tps = (tps', Some e) ->
  exists pre d post, nodes n = pre ++ d :: post /\ tps' = tps ++ defs_of pre /\
    (forall p, In p pre -> def_kind p <> DErr) /\
    ((e = LDup /\ exists nm, def_name_of d = Some nm /\ assoc nm (tps ++ defs_of pre) <> None) \/
     (e = LEval /\ def_kind d = DErr)).
Proof.
  intros f n tps tps' e Hf H. rewrite (add_defs_reg _ _ _ Hf) in H. exact (reg_fail _ _ _ _ H).
Qed.

(* the only errors of the walk are [LDup] and [LEval] *)
Theorem add_defs_errors : forall f n tps tps' e, adddefs f n tps = (tps', Some e) -> e = LDup \/ e = LEval.
Proof.
  induction f as [|f IH]; intros n tps tps' e H.
  - rewrite add_defs_O in H. inversion H; subst. right. reflexivity.
  - assert (Hgo : forall l t t' e', go_defs f l t = (t', Some e') -> e' = LDup \/ e' = LEval).
    { induction l as [|c l IHl]; intros t t' e' Hg; [discriminate|].
      cbn [go_defs] in Hg. destruct (adddefs f c t) as [t1 [e1|]] eqn:Hc; cbn [bind] in Hg.
      - inversion Hg; subst. exact (IH _ _ _ _ Hc).
      - exact (IHl _ _ _ Hg). }
    rewrite add_defs_S in H. destruct (own_def n tps) as [t1 [e1|]] eqn:Ho; cbn [bind] in H.
    + inversion H; subst. destruct (own_def_fail _ _ _ _ Ho) as [_ [[-> _]|[-> _]]]; auto.
    + exact (Hgo _ _ _ _ H).
Qed.

End Defs.

Print Assumptions add_defs_reg.
Print Assumptions add_defs_extends.
Print Assumptions add_defs_registers_every_definition.
Print Assumptions add_defs_only_definitions.
Print Assumptions add_defs_names_distinct.
Print Assumptions add_defs_success_iff.
Print Assumptions add_defs_duplicate.
Print Assumptions add_defs_failure.
