(* C01, last clause: non-vacuity examples at the level of the rendered tree. *)
From Coq Require Import Ascii String.
From Coq Require Import List NArith Bool Lia.
From Tpl Require Import Proofs.ScanSpec Proofs.ExecSpec Proofs.TagPrint Proofs.TagPrintTree.
Import ListNotations.
Open Scope N_scope.

Definition s2r (s : string) : str := map N_of_ascii (list_ascii_of_string s).
Definition nl : string := String (ascii_of_nat 10) EmptyString.

Definition ex_void : list str := [[98;114]].                              (* br *)
Definition ex_build := build ex_lower ex_void.
(* the renderer itself, with attribute prefix ":" and tag prefix "t:" *)
Definition ex_render (n : node) :=
  let m := mkM [116;58] [58] [] (SData (VMap [])) in
  exec_node ex_space ex_lower (fun _ => false) (fun _ => false) (fun _ _ => []) (fun _ _ => FPanic) m 10 0 [] n
            (SData (VMap [])) true [] (mkR [] None).

(* extra white space inside tags, an attribute list over two lines, blanks around '=', a void element,
   a comment, a close tag that closes an element of another name (printed verbatim), a raw-text element closed in upper case (n_end: verbatim),
   and a stray close tag "</div >" (printed through print_tag) *)
Definition ex_doc : str :=
  s2r ("<div  id = ""a b""" ++ nl ++ "   class='c' ><br  >text<!-- c --></span ><p x>y</p  >"
       ++ "<script>if (a<b) {}</SCRIPT ></div >").
Definition ex_out : str :=
  s2r "<div id=""a b"" class='c'><br>text<!-- c --></span ><p x>y</p  ><script>if (a<b) {}</SCRIPT ></div>".

Example render_example :
  exists toks,
    ex_scan ex_doc = inl toks /\
    print_plain (ex_build toks) = ex_out /\
    ex_render (ex_build toks) = (ex_out, ROk, [], mkR [] None) /\     (* the renderer prints exactly that *)
    ex_out <> ex_doc /\                                               (* really different ... *)
    ex_nsp ex_out = ex_nsp ex_doc /\                                  (* ... but only by white space *)
    concat (ptoks ex_lower ex_void 0 toks) = ex_out /\
    length toks = 12%nat.
Proof.
  eexists. split; [vm_compute; reflexivity|].
  split; [vm_compute; reflexivity|]. split; [vm_compute; reflexivity|].
  split; [vm_compute; discriminate|]. split; [vm_compute; reflexivity|].
  split; vm_compute; reflexivity.
Qed.

(* the same conclusion obtained from the theorem: its hypotheses are satisfiable *)
Definition ex_toks : list token :=
  Eval vm_compute in match ex_scan ex_doc with inl t => t | inr _ => [] end.
Lemma ex_scan_toks : scan ex_space ex_lower ex_text_tags [58] (fun _ => true) ex_doc = inl ex_toks.
Proof. vm_compute. reflexivity. Qed.

Lemma ex_toks_no_synth : forall t, In t ex_toks -> t_kind t = KTag -> no_synth_else [58] t.
Proof.
  intros t Ht _ a Ha Hn. unfold ex_toks in Ht.
  repeat (destruct Ht as [<-|Ht]; [cbn [t_attrs] in Ha;
    repeat (destruct Ha as [<-|Ha]; [vm_compute in Hn; discriminate Hn|]); contradiction Ha|]).
  contradiction Ht.
Qed.

Lemma ex_lower_slash : forall c, ex_lower c = cSLASH -> c = cSLASH.
Proof.
  intros c. unfold ex_lower, cSLASH. destruct ((65 <=? c) && (c <=? 90)) eqn:E; [|auto].
  apply andb_true_iff in E as [E1 E2]. apply N.leb_le in E1. intros H. lia.
Qed.

Example render_example_by_theorem :
  nsp ex_space (print_plain (build ex_lower ex_void ex_toks)) = nsp ex_space ex_doc.
Proof.
  exact (proj1 (render_differs_only_by_space ex_space ex_lower ex_text_tags [58] (fun _ => true) ex_lower ex_void
                 eq_refl eq_refl eq_refl ex_lower_slash ex_doc ex_toks ex_scan_toks ex_toks_no_synth)).
Qed.

(* ---------- a close tag of a raw-text element that does not close anything (the open tag is
   self-closing) and is spelled in upper case: "<script a/>x</SCRIPT >".  It becomes a leaf and is printed
   through print_tag, which keeps the name as written: only the blank disappears.
   (With the former scanner model the printed name was the lower-cased name of the open tag.) ---------- *)
Definition raw_doc : str := s2r "<script a/>x</SCRIPT >".
Definition raw_out : str := s2r "<script a/>x</SCRIPT>".
Example render_stray_raw_close :
  exists toks,
    ex_scan raw_doc = inl toks /\
    print_plain (ex_build toks) = raw_out /\
    ex_render (ex_build toks) = (raw_out, ROk, [], mkR [] None) /\
    ex_nsp (print_plain (ex_build toks)) = ex_nsp raw_doc /\
    (forall t, In t toks -> t_kind t = KTag -> no_synth_else [58] t).
Proof.
  eexists. split; [vm_compute; reflexivity|].
  split; [vm_compute; reflexivity|]. split; [vm_compute; reflexivity|].
  split; [vm_compute; reflexivity|].
  intros t Ht _ a Ha Hn.
  repeat (destruct Ht as [<-|Ht]; [cbn [t_attrs] in Ha;
    repeat (destruct Ha as [<-|Ha]; [vm_compute in Hn; discriminate Hn|]); contradiction Ha|]).
  contradiction Ht.
Qed.

(* when the raw-text element is really open, the close tag is its n_end and is printed verbatim *)
Example raw_close_verbatim :
  let src := s2r "<script>x</SCRIPT >" in
  exists toks, ex_scan src = inl toks /\ print_plain (ex_build toks) = src.
Proof. eexists. split; vm_compute; reflexivity. Qed.

Print Assumptions render_example.
Print Assumptions render_example_by_theorem.
Print Assumptions render_stray_raw_close.
