(* The scanner depends on the attribute compiler only through the attributes that end up in the tokens:
   if a scan succeeds with compiler c1 and compiler c2 accepts every attribute of the resulting tokens,
   the scan with c2 gives the same tokens.  Used to carry the idempotence theorem (proved for compilers
   that ignore source positions) over to the real pipeline, whose compiler looks at the position of a
   DIRECTIVE attribute's value but accepts every other attribute. *)
From Coq Require Import List NArith Bool Lia Arith.
From Tpl Require Import Html.Scan Proofs.ScanConcat Proofs.TagPrint Proofs.HoleSim.
Import ListNotations.
Open Scope N_scope.
Local Arguments adv : simpl never.

Definition mode_attrs (m : mode) : list attr :=
  match m with MTag g => if attr_st (g_state g) then g_attrs g else [] | _ => [] end.
Definition all_attrs (toks : list token) (m : mode) : list attr := flat_map t_attrs toks ++ mode_attrs m.
Definition is_err (m : mode) : bool := match m with MErr _ => true | _ => false end.

Lemma all_attrs_cons t toks m a : In a (all_attrs toks m) -> In a (all_attrs (t :: toks) m).
Proof.
  unfold all_attrs. cbn [flat_map]. intros H. apply in_app_or in H as [H|H]; apply in_or_app; [left|right; exact H].
  apply in_or_app. right. exact H.
Qed.

Section T.
Variable is_space : rune -> bool.
Variable to_lower : rune -> rune.
Variable text_tags : list str.
Variable attr_prefix : str.

Notation fix_else := (Scan.fix_else attr_prefix).

Lemma text_step_shape toks x r p0 p1 t m u :
  Scan.text_step is_space to_lower toks x r p0 p1 = TR t m u ->
  u = false /\ is_err m = false /\ mode_attrs m = [] /\ exists n, t = n ++ toks.
Proof.
  unfold Scan.text_step. intros E.
  repeat match type of E with
         | context [if ?b then _ else _] => destruct b
         | context [match ?l with [] => _ | _ :: _ => _ end] => destruct l
         end;
  inversion E; subst; (split; [reflexivity|split; [reflexivity|split; [reflexivity|]]]);
  first [exists []; reflexivity | eexists [_]; reflexivity | eexists [_; _]; reflexivity].
Qed.

Section Two.
Variables c1 c2 : attr -> bool.
Notation step1 := (Scan.step is_space to_lower text_tags attr_prefix c1).
Notation step2 := (Scan.step is_space to_lower text_tags attr_prefix c2).
Notation tag_step1 := (Scan.tag_step is_space attr_prefix c1).
Notation tag_step2 := (Scan.tag_step is_space attr_prefix c2).

Lemma add_attr_same b a g g' :
  Scan.add_attr attr_prefix c1 b a g = inl g' -> (b = true -> c2 (fix_else a) = true) ->
  Scan.add_attr attr_prefix c2 b a g = inl g'.
Proof.
  unfold Scan.add_attr. cbv zeta. intros H Hc.
  assert (E : b && negb (c2 (fix_else a)) = false).
  { destruct b; [rewrite (Hc eq_refl)|]; reflexivity. }
  rewrite E. destruct (b && negb (c1 (fix_else a))); [discriminate H|exact H].
Qed.

Lemma finish_or_in toks g r p1 t m u a :
  finish_or toks g r p1 = TR t m u -> attr_st (g_state g) = true -> In a (g_attrs g) -> In a (all_attrs t m).
Proof.
  unfold finish_or, emit_tag, all_attrs. intros E Hst Hi. destruct (N.eqb r cGT); inversion E; subst.
  - cbn [flat_map t_attrs]. apply in_or_app. left. apply in_or_app. left. apply in_rev. rewrite rev_involutive. exact Hi.
  - cbn [mode_attrs]. rewrite Hst. apply in_or_app. right. exact Hi.
Qed.

Lemma tr_in toks g t m u a :
  TR toks (MTag g) false = TR t m u -> attr_st (g_state g) = true -> In a (g_attrs g) -> In a (all_attrs t m).
Proof.
  intros E Hst Hi. inversion E; subst. unfold all_attrs. cbn [mode_attrs]. rewrite Hst. apply in_or_app. right. exact Hi.
Qed.

Ltac add_case Hne Hc :=
  match goal with
  | |- match Scan.add_attr _ _ ?b ?a ?G with inl _ => _ | inr _ => _ end = _ -> _ =>
    let g' := fresh "g'" in let e := fresh "e" in let Ea := fresh "Ea" in let E := fresh "E" in
    destruct (Scan.add_attr attr_prefix c1 b a G) as [g'|e] eqn:Ea; intros E;
    [|inversion E; subst; discriminate Hne];
    pose proof (add_attr_eq attr_prefix c1 b a G g' Ea) as Eg;
    rewrite (add_attr_same b a G g' Ea); [exact E|];
    let Hb := fresh "Hb" in intros Hb; try discriminate Hb;
    apply Hc; [|cbn [Scan.fix_else a_value]; discriminate]; subst g'; tag_cbn_in E;
    first [ eapply finish_or_in; [exact E|reflexivity|tag_cbn; left; reflexivity]
          | eapply tr_in; [exact E|reflexivity|tag_cbn; left; reflexivity] ]
  end.

Lemma tag_step_same toks g r p0 p1 t m u :
  tag_step1 toks g r p0 p1 = TR t m u -> is_err m = false ->
  (forall a, In a (all_attrs t m) -> a_value a <> None -> c2 a = true) ->
  tag_step2 toks g r p0 p1 = TR t m u.
Proof.
  intros E Hne Hc. revert E. unfold Scan.tag_step. tag_cbn.
  destruct (g_state g); tag_cbn;
    repeat match goal with
           | |- context [if ?b then _ else _] => destruct b
           | |- context [match ?l with [] => _ | _ :: _ => _ end] => destruct l
           end;
    try (intros E; exact E); add_case Hne Hc.
Qed.

End Two.

(* an unread does not involve the compiler and keeps the attributes *)
Lemma tag_step_unread c toks g r p0 p1 t m :
  Scan.tag_step is_space attr_prefix c toks g r p0 p1 = TR t m true ->
  t = toks /\ exists g', m = MTag g' /\ g_state g' = TAttrName /\ g_attrs g' = g_attrs g /\
  forall c', Scan.tag_step is_space attr_prefix c' toks g r p0 p1 = TR t m true.
Proof.
  unfold Scan.tag_step. tag_cbn. intros E.
  destruct (g_state g); tag_cbn_in E; tag_cbn;
    repeat match type of E with
           | context [if ?b then _ else _] => destruct b
           | context [match ?l with [] => _ | _ :: _ => _ end] => destruct l
           | context [match ?a with inl _ => _ | inr _ => _ end] => destruct a
           end;
    unfold finish_or in E;
    repeat match type of E with context [if ?b then _ else _] => destruct b end;
    try discriminate E.
  inversion E; subst. split; [reflexivity|]. eexists. split; [reflexivity|]. tag_cbn. auto.
Qed.

(* attributes are never lost (in a step that does not fail) *)
Lemma finish_or_mono toks g r p1 t m u a (old : list attr) :
  finish_or toks g r p1 = TR t m u -> (attr_st (g_state g) = true \/ N.eqb r cGT = true) ->
  (In a old -> In a (g_attrs g)) ->
  In a (flat_map t_attrs toks ++ old) -> In a (all_attrs t m).
Proof.
  unfold finish_or, emit_tag, all_attrs. intros E Hst Hsub Hi.
  apply in_app_or in Hi as [Hi|Hi].
  - destruct (N.eqb r cGT); inversion E; subst; apply in_or_app; left; [cbn [flat_map]; apply in_or_app; right|]; exact Hi.
  - destruct (N.eqb r cGT) eqn:Egt; inversion E; subst.
    + cbn [flat_map t_attrs]. apply in_or_app. left. apply in_or_app. left. apply in_rev. rewrite rev_involutive. auto.
    + destruct Hst as [Hst|Hst]; [|discriminate Hst]. cbn [mode_attrs]. rewrite Hst. apply in_or_app. right. auto.
Qed.

Lemma tag_step_mono c toks g r p0 p1 t m u a :
  Scan.tag_step is_space attr_prefix c toks g r p0 p1 = TR t m u -> is_err m = false ->
  In a (all_attrs toks (MTag g)) -> In a (all_attrs t m).
Proof.
  intros E Hne. revert E. unfold Scan.tag_step. tag_cbn. unfold all_attrs at 1. cbn [mode_attrs].
  destruct (g_state g) eqn:Est; cbn [attr_st]; tag_cbn.
  - (* TName: nothing counted before *)
    intros E Hi. rewrite app_nil_r in Hi.
    assert (Hm : forall G0 : tagst, finish_or toks G0 r p1 = TR t m u -> In a (all_attrs t m)).
    { intros G0 E0. unfold finish_or, emit_tag in E0. destruct (N.eqb r cGT); inversion E0; subst; unfold all_attrs;
        apply in_or_app; left; [cbn [flat_map]; apply in_or_app; right|]; exact Hi. }
    destruct (N.eqb r cGT); [exact (Hm _ E)|]. destruct (is_space r); [|exact (Hm _ E)].
    inversion E; subst. unfold all_attrs. apply in_or_app. left. exact Hi.
  - (* TCData *)
    intros E Hi. rewrite app_nil_r in Hi. destruct (suffixb _ _); inversion E; subst; unfold all_attrs; apply in_or_app; left;
      [cbn [flat_map t_attrs app]|]; exact Hi.
  - (* TComment *)
    intros E Hi. rewrite app_nil_r in Hi.
    repeat match type of E with context [if ?b then _ else _] => destruct b end;
      inversion E; subst; try discriminate Hne; unfold all_attrs; apply in_or_app; left;
      try (cbn [flat_map t_attrs app]); exact Hi.
  - (* TSpace *)
    intros E Hi.
    destruct (N.eqb r cGT) eqn:Egt.
    + eapply finish_or_mono; [exact E|right; exact Egt| |exact Hi]. tag_cbn. auto.
    + destruct (is_space r); inversion E; subst; unfold all_attrs; cbn [mode_attrs]; tag_cbn; cbn [attr_st]; exact Hi.
  - (* TAttrName *)
    intros E Hi.
    repeat match type of E with
           | context [if ?b then _ else _] => destruct b eqn:?
           end;
    repeat match type of E with
           | context [match Scan.add_attr ?p ?cc ?b ?aa ?GG with inl _ => _ | inr _ => _ end] =>
             let Ea := fresh "Ea" in
             destruct (Scan.add_attr p cc b aa GG) as [g'|e] eqn:Ea;
             [apply add_attr_eq in Ea; subst g'; tag_cbn_in E|inversion E; subst; discriminate Hne]
           end;
    first [ eapply finish_or_mono; [exact E|first [left; reflexivity|right; assumption]|tag_cbn; intros H; try right; exact H|exact Hi]
          | inversion E; subst; unfold all_attrs; cbn [mode_attrs]; tag_cbn; cbn [attr_st];
            apply in_app_or in Hi as [Hi|Hi]; apply in_or_app; [left; exact Hi|right; try right; exact Hi] ].
  - (* TAttrValue *)
    intros E Hi.
    destruct (g_aval g);
    repeat match type of E with
           | context [if ?b then _ else _] => destruct b eqn:?
           end;
    repeat match type of E with
           | context [match Scan.add_attr ?p ?cc ?b ?aa ?GG with inl _ => _ | inr _ => _ end] =>
             let Ea := fresh "Ea" in
             destruct (Scan.add_attr p cc b aa GG) as [g'|e] eqn:Ea;
             [apply add_attr_eq in Ea; subst g'; tag_cbn_in E|inversion E; subst; discriminate Hne]
           end;
    first [ eapply finish_or_mono; [exact E|first [left; reflexivity|right; assumption]|tag_cbn; intros H; try right; exact H|exact Hi]
          | inversion E; subst; unfold all_attrs; cbn [mode_attrs]; tag_cbn; cbn [attr_st];
            apply in_app_or in Hi as [Hi|Hi]; apply in_or_app; [left; exact Hi|right; try right; exact Hi] ].
Qed.

Section Run.
Variables c1 c2 : attr -> bool.
Notation step1 := (Scan.step is_space to_lower text_tags attr_prefix c1).
Notation step2 := (Scan.step is_space to_lower text_tags attr_prefix c2).
Notation run1 := (@fold_left sstate rune (Scan.step is_space to_lower text_tags attr_prefix c1)).
Notation run2 := (@fold_left sstate rune (Scan.step is_space to_lower text_tags attr_prefix c2)).
Notation tag_step1 := (Scan.tag_step is_space attr_prefix c1).

Definition sattrs (s : sstate) : list attr := all_attrs (s_toks s) (s_mode s).
Definition serr (s : sstate) : bool := is_err (s_mode s).

Lemma text_mono toks x r p0 p1 t m u a :
  Scan.text_step is_space to_lower toks x r p0 p1 = TR t m u ->
  In a (flat_map t_attrs toks ++ []) -> In a (all_attrs t m).
Proof.
  intros E Hi. apply text_step_shape in E as (_ & _ & Hm & n & ->). unfold all_attrs. rewrite Hm, flat_map_app.
  rewrite app_nil_r in Hi |- *. apply in_or_app. right. exact Hi.
Qed.

Lemma step_mono s (r : rune) a : serr (step1 s r) = false -> In a (sattrs s) -> In a (sattrs (step1 s r)).
Proof.
  destruct s as [toks p m]. unfold serr, sattrs, Scan.step. cbn [s_toks s_pos s_mode].
  destruct m as [|x|g|e]; cbn [dispatch].
  - unfold all_attrs at 1. cbn [mode_attrs].
    destruct (Scan.raw_tag_of_last to_lower text_tags toks).
    + destruct (Scan.text_step _ _ _ _ _ _ _) as [t m u] eqn:E. pose proof (text_mono _ _ _ _ _ _ _ _ a E) as M.
      apply text_step_shape in E as (-> & _). cbn [s_toks s_mode]. intros _. exact M.
    + destruct (N.eqb r cLT).
      * cbn [s_toks s_mode]. intros _ H. exact H.
      * destruct (Scan.text_step _ _ _ _ _ _ _) as [t m u] eqn:E. pose proof (text_mono _ _ _ _ _ _ _ _ a E) as M.
        apply text_step_shape in E as (-> & _). cbn [s_toks s_mode]. intros _. exact M.
  - unfold all_attrs at 1. cbn [mode_attrs].
    destruct (Scan.text_step _ _ _ _ _ _ _) as [t m u] eqn:E. pose proof (text_mono _ _ _ _ _ _ _ _ a E) as M.
    apply text_step_shape in E as (-> & _). cbn [s_toks s_mode]. intros _. exact M.
  - destruct (tag_step1 toks g r p (adv p r)) as [t m u] eqn:E. destruct u.
    + apply tag_step_unread in E as (-> & g' & -> & Hst & Hat & _). cbn [dispatch].
      destruct (tag_step1 toks g' r p (adv p r)) as [t' m' u'] eqn:E2. cbn [s_toks s_mode]. intros Hne Hi.
      apply (tag_step_mono c1 toks g' r p (adv p r) t' m' u' a E2 Hne).
      unfold all_attrs in *. cbn [mode_attrs] in *. rewrite Hst. cbn [attr_st]. rewrite Hat.
      apply in_app_or in Hi as [Hi|Hi]; apply in_or_app; [left; exact Hi|right].
      destruct (attr_st (g_state g)); [exact Hi|contradiction].
    + cbn [s_toks s_mode]. intros Hne Hi. exact (tag_step_mono c1 toks g r p (adv p r) t m false a E Hne Hi).
  - cbn [s_toks s_mode is_err]. intros H. discriminate H.
Qed.

Lemma step_same s (r : rune) :
  serr (step1 s r) = false -> (forall a, In a (sattrs (step1 s r)) -> a_value a <> None -> c2 a = true) -> step2 s r = step1 s r.
Proof.
  destruct s as [toks p m]. unfold serr, sattrs, Scan.step. cbn [s_toks s_pos s_mode].
  destruct m as [|x|g|e]; cbn [dispatch].
  - intros _ _. destruct (Scan.raw_tag_of_last to_lower text_tags toks).
    + destruct (Scan.text_step _ _ _ _ _ _ _) as [t m u] eqn:E. apply text_step_shape in E as (-> & _). reflexivity.
    + destruct (N.eqb r cLT); [reflexivity|].
      destruct (Scan.text_step _ _ _ _ _ _ _) as [t m u] eqn:E. apply text_step_shape in E as (-> & _). reflexivity.
  - intros _ _. destruct (Scan.text_step _ _ _ _ _ _ _) as [t m u] eqn:E. apply text_step_shape in E as (-> & _). reflexivity.
  - destruct (tag_step1 toks g r p (adv p r)) as [t m u] eqn:E. destruct u.
    + pose proof E as E'. apply tag_step_unread in E' as (-> & g' & -> & Hst & Hat & Hall). rewrite (Hall c2). cbn [dispatch].
      destruct (tag_step1 toks g' r p (adv p r)) as [t' m' u'] eqn:E2. cbn [s_toks s_mode]. intros Hne Hc.
      rewrite (tag_step_same c1 c2 toks g' r p (adv p r) t' m' u' E2 Hne Hc). reflexivity.
    + cbn [s_toks s_mode]. intros Hne Hc. rewrite (tag_step_same c1 c2 toks g r p (adv p r) t m false E Hne Hc). reflexivity.
  - reflexivity.
Qed.

Lemma run_err_abs (src : str) : forall s, serr s = true -> serr (run1 src s) = true.
Proof.
  induction src as [|r src IH]; intros s H; cbn [fold_left]; [exact H|]. apply IH.
  destruct s as [toks p m]. unfold serr in *. cbn [s_mode] in H. destruct m; try discriminate H. reflexivity.
Qed.

Lemma run_first_ok (src : str) s (r : rune) : serr (run1 src (step1 s r)) = false -> serr (step1 s r) = false.
Proof.
  intros H. destruct (serr (step1 s r)) eqn:E; [|reflexivity]. rewrite (run_err_abs src _ E) in H. discriminate H.
Qed.

Lemma run_mono (src : str) : forall s a, serr (run1 src s) = false -> In a (sattrs s) -> In a (sattrs (run1 src s)).
Proof.
  induction src as [|r src IH]; intros s a Hne Hi; cbn [fold_left] in *; [exact Hi|].
  apply IH; [exact Hne|]. apply step_mono; [exact (run_first_ok src s r Hne)|exact Hi].
Qed.

Lemma run_same (src : str) : forall s,
  serr (run1 src s) = false -> (forall a, In a (sattrs (run1 src s)) -> a_value a <> None -> c2 a = true) -> run2 src s = run1 src s.
Proof.
  induction src as [|r src IH]; intros s Hne Hc; cbn [fold_left] in *; [reflexivity|].
  rewrite step_same; [apply IH; assumption|exact (run_first_ok src s r Hne)|].
  intros a Ha Hv. apply Hc; [|exact Hv]. apply run_mono; assumption.
Qed.

(* the scan with c1 succeeded, and c2 accepts every VALUED attribute of its tokens: the scan with c2 is the same *)
Theorem scan_same (src : str) (toks : list token) :
  Scan.scan is_space to_lower text_tags attr_prefix c1 src = inl toks ->
  (forall t a, In t toks -> In a (t_attrs t) -> a_value a <> None -> c2 a = true) ->
  Scan.scan is_space to_lower text_tags attr_prefix c2 src = inl toks.
Proof.
  unfold Scan.scan. intros Hs Hc. rewrite run_same; [exact Hs| |].
  - unfold serr. unfold finish in Hs. destruct (s_mode (run1 src init)); try discriminate Hs; reflexivity.
  - intros a Ha Hv. unfold sattrs, all_attrs in Ha. unfold finish in Hs.
    destruct (s_mode (run1 src init)) eqn:Em; try discriminate Hs; cbn [mode_attrs] in Ha; rewrite app_nil_r in Ha;
      apply in_flat_map in Ha as (t & Ht & Ha); injection Hs as <-; apply (Hc t a); try exact Ha; try exact Hv.
    + apply in_rev in Ht. exact Ht.
    + first [apply in_or_app; left; apply in_rev in Ht; exact Ht | apply in_rev; rewrite rev_involutive; right; exact Ht].
Qed.
End Run.

End T.

Check (scan_same : forall (is_space : rune -> bool) (to_lower : rune -> rune) (text_tags : list str) (attr_prefix : str)
    (c1 c2 : attr -> bool) (src : str) (toks : list token),
  Scan.scan is_space to_lower text_tags attr_prefix c1 src = inl toks ->
  (forall t a, In t toks -> In a (t_attrs t) -> a_value a <> None -> c2 a = true) ->
  Scan.scan is_space to_lower text_tags attr_prefix c2 src = inl toks).
Print Assumptions scan_same.
