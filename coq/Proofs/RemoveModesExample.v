(* C05 remove modes: the theorems of Proofs/RemoveModes.v applied to
     <ul id="d" :remove="MODE">\n <!--c--><li>a</li> <li>b</li>\n</ul>
   scanned and built by the pipeline model (prefix ":"), and compared with the result computed by
   the renderer model; plus the model facts reported in RemoveModes.v as executable examples. *)
From Coq Require Import List NArith ZArith Bool Lia String Ascii.
From Tpl Require Import Html.Exec Html.Manager Proofs.ExecSpec Proofs.RenderPlain Proofs.ChainWith Proofs.RemoveModes.
Import ListNotations.
Open Scope N_scope.

Fixpoint s2l (s : string) : str := match s with EmptyString => [] | String a r => N_of_ascii a :: s2l r end.
Definition rx_space (r : rune) : bool := N.eqb r 32 || N.eqb r 10.
Definition rx_lower (r : rune) : rune := r.
Definition rx_letter (r : rune) : bool := (97 <=? r) && (r <=? 122).
Definition rx_digit (_ : rune) : bool := false.
Definition rx_methods (_ : N) (_ : bool) : list (str * N) := [].
Definition rx_call (_ : N) (_ : list value) : fres := FPanic.
Definition rx_mgr : manager := mkM [116; 58] [58] [] (SData (VMap [])).
Definition rx_pok (_ : pos) (s : str) : bool := match parse_code rx_letter rx_digit s with Some _ => true | None => false end.
Definition nl : string := String (ascii_of_N 10) EmptyString.

(* the single element of a document *)
Definition elem (s : string) : node :=
  match load rx_space rx_lower [] [] [58] rx_pok (s2l s) with
  | inl (Node _ _ [n] _) => n
  | _ => Node 0 None [] None
  end.
Definition tok_of (n : node) : token := match n_tok n with Some t => t | None => mkTok KText [] (0,0) (0,0) [] [] end.
Definition dir_of (n : node) : attr :=
  match filter (pref [58]) (t_attrs (tok_of n)) with a :: _ => a | [] => mkAttr [] (0,0) (0,0) None (0,0) (0,0) end.
Definition doc (mode : string) : string :=
  ("<ul id=""d"" :remove=""" ++ mode ++ """>" ++ nl ++ " <!--c--><li>a</li> <li>b</li>" ++ nl ++ "</ul>")%string.
Notation rx_node := (exec_node rx_space rx_lower rx_letter rx_digit rx_methods rx_call rx_mgr).
Definition st0 : rst := mkR [] None.
Definition render (n : node) : R := rx_node 10 0 [n] n (SData (VMap [])) true [] st0.

Lemma rx_remove_only : forall mode, let n := elem (doc mode) in
  n_tok n = Some (tok_of n) -> t_kind (tok_of n) = KTag -> a_name (dir_of n) = [58] ++ d_remove ->
  filter (pref [58]) (t_attrs (tok_of n)) = [dir_of n] ->
  str_eqb (block_key rx_lower (t_name (tok_of n))) ([116; 58] ++ d_block) = false ->
  remove_only rx_lower rx_mgr n (tok_of n) (dir_of n).
Proof. intros mode n H1 H2 H3 H4 H5. repeat split; assumption. Qed.

Ltac ro := apply rx_remove_only; vm_compute; reflexivity.
Ltac mode_dq := eexists; split; [vm_compute; reflexivity|left; reflexivity].
Ltac wok_top := right; reflexivity.

(* a computable check of the side conditions on the children (plain, shaped, height) *)
Section Check.
Variable is_space : rune -> bool.
Variable to_lower : rune -> rune.
Variable mgr : manager.
Definition leafb (ch : list node) (e : option token) : bool :=
  match ch, e with [], None => true | _, _ => false end.
Definition headb (tok : option token) (ch : list node) (e : option token) : bool :=
  match tok with
  | None => match e with None => true | Some _ => false end
  | Some t =>
    match t_kind t with
    | KTag => forallb (fun a => negb (prefixb (m_attr_prefix mgr) (a_name a))) (t_attrs t) &&
              negb (str_eqb (block_key to_lower (t_name t)) (m_tag_prefix mgr ++ d_block))
    | KComment => negb (is_hidden_comment is_space (t_value t)) && leafb ch e
    | _ => leafb ch e
    end
  end.
Fixpoint checkb (fuel : nat) (n : node) : bool :=
  match fuel with
  | O => false
  | S f => let 'Node _ tok ch e := n in headb tok ch e && forallb (checkb f) ch
  end.

Lemma plain_node : forall i tok ch e,
  plain is_space to_lower mgr (Node i tok ch e) <->
  (match tok with Some t => plain_tok is_space to_lower mgr t | None => True end) /\ Forall (plain is_space to_lower mgr) ch.
Proof.
  intros i tok ch e. cbn [plain].
  assert (H : (fix all (l : list node) : Prop := match l with [] => True | c :: r => plain is_space to_lower mgr c /\ all r end) ch
              <-> Forall (plain is_space to_lower mgr) ch).
  { induction ch as [|c r IH]; split; intros H.
    - constructor.
    - exact I.
    - destruct H as [H1 H2]. constructor; [exact H1|apply IH; exact H2].
    - inversion H as [|c' r' H1 H2]; subst c' r'. split; [exact H1|apply IH; exact H2]. }
  rewrite H. reflexivity.
Qed.

Lemma leafb_sound : forall ch e, leafb ch e = true -> ch = [] /\ e = None.
Proof. intros [|c r] [e|] H; try discriminate H. split; reflexivity. Qed.

Lemma checkb_sound : forall fuel n, checkb fuel n = true ->
  plain is_space to_lower mgr n /\ shaped n /\ (height n <= fuel)%nat.
Proof.
  induction fuel as [|f IH]; intros [i tok ch e] H; [discriminate H|].
  cbn [checkb] in H. apply andb_true_iff in H. destruct H as [Hh Hc]. rewrite forallb_forall in Hc.
  assert (Hall : forall c, In c ch -> plain is_space to_lower mgr c /\ shaped c /\ (height c <= f)%nat)
    by (intros c Hin; apply IH; apply Hc; exact Hin).
  split; [|split].
  - apply plain_node. split.
    + destruct tok as [t|]; [|exact I]. unfold headb in Hh. unfold plain_tok. destruct (t_kind t).
      * apply andb_true_iff in Hh. destruct Hh as [Ha Hb]. rewrite forallb_forall in Ha. split.
        -- intros a Hin. apply negb_true_iff. apply Ha. exact Hin.
        -- apply negb_true_iff. exact Hb.
      * exact I.
      * apply andb_true_iff in Hh. destruct Hh as [Hhid _]. apply negb_true_iff. exact Hhid.
      * exact I.
    + apply Forall_forall. intros c Hin. exact (proj1 (Hall c Hin)).
  - apply shaped_node. split.
    + unfold shaped_head. destruct tok as [t|].
      * unfold headb in Hh. destruct (t_kind t); [exact I|apply leafb_sound; exact Hh| |apply leafb_sound; exact Hh].
        apply andb_true_iff in Hh. apply leafb_sound. exact (proj2 Hh).
      * unfold headb in Hh. destruct e; [discriminate Hh|reflexivity].
    + apply Forall_forall. intros c Hin. exact (proj1 (proj2 (Hall c Hin))).
  - cbn [height]. apply le_n_S.
    assert (Hm : forall l, (forall c, In c l -> (height c <= f)%nat) -> (fold_right (fun c m => Nat.max (height c) m) O l <= f)%nat).
    { induction l as [|c l IHl]; intros Hl; cbn [fold_right]; [lia|].
      pose proof (Hl c (or_introl eq_refl)). assert ((fold_right (fun c m => Nat.max (height c) m) O l <= f)%nat) by (apply IHl; intros x Hx; apply Hl; right; exact Hx). lia. }
    apply Hm. intros c Hin. exact (proj2 (proj2 (Hall c Hin))).
Qed.

Lemma plain_children_check : forall n fuel, forallb (checkb fuel) (n_children n) = true ->
  plain_children is_space to_lower mgr n fuel.
Proof. intros n fuel H c Hin. rewrite forallb_forall in H. apply checkb_sound. apply H. exact Hin. Qed.
End Check.

Ltac pc := apply plain_children_check; vm_compute; reflexivity.

Definition n_all : node := elem (doc "all").
Definition n_body : node := elem (doc "body").
Definition n_tag : node := elem (doc "tag").
Definition n_abf : node := elem (doc "all-but-first").
Definition n_none : node := elem (doc "none").

(* ---------- the five modes: the theorem, and the value it predicts ---------- *)
Example ex_all : render n_all = ([], ROk, [], st0).
Proof. unfold render. apply (remove_all_plain rx_space rx_lower rx_letter rx_digit rx_methods rx_call rx_mgr 9 0 [n_all] n_all (tok_of n_all) (dir_of n_all)); [ro|mode_dq|wok_top]. Qed.

Example ex_body : render n_body = (s2l "<ul id=""d""></ul>", ROk, [], st0).
Proof.
  unfold render. rewrite (remove_body_plain rx_space rx_lower rx_letter rx_digit rx_methods rx_call rx_mgr 9 0 [n_body] n_body (tok_of n_body) (dir_of n_body)); [|ro|mode_dq|wok_top].
  vm_compute. reflexivity.
Qed.

Example ex_tag : render n_tag = (s2l (nl ++ " <!--c--><li>a</li> <li>b</li>" ++ nl), ROk, [], st0).
Proof.
  unfold render. rewrite (remove_tag_plain rx_space rx_lower rx_letter rx_digit rx_methods rx_call rx_mgr 9 0 [n_tag] n_tag (tok_of n_tag) (dir_of n_tag)); [|ro|mode_dq|wok_top|pc].
  vm_compute. reflexivity.
Qed.

Example ex_abf : render n_abf = (s2l ("<ul id=""d"">" ++ nl ++ " <li>a</li>" ++ nl ++ "</ul>"), ROk, [], st0).
Proof.
  unfold render. rewrite (remove_abf_plain rx_space rx_lower rx_letter rx_digit rx_methods rx_call rx_mgr 9 0 [n_abf] n_abf (tok_of n_abf) (dir_of n_abf)); [|ro|mode_dq|wok_top|pc].
  vm_compute. reflexivity.
Qed.

Example ex_other : render n_none
  = (s2l ("<ul id=""d"">" ++ nl ++ " <!--c--><li>a</li> <li>b</li>" ++ nl ++ "</ul>"), ROk, [], st0).
Proof.
  unfold render. rewrite (remove_other_plain rx_space rx_lower rx_letter rx_digit rx_methods rx_call rx_mgr 9 0 [n_none] n_none (tok_of n_none) (dir_of n_none)); [|ro| |wok_top|pc].
  - vm_compute. reflexivity.
  - intros m Hm. vm_compute in Hm. repeat (destruct Hm as [Hm|Hm]; [subst m; vm_compute; intuition discriminate|]). contradiction.
Qed.

(* the statements agree with what the model computes (the examples above are not vacuous) *)
Example ex_by_computation :
  render (elem (doc "all-but-first")) = (s2l ("<ul id=""d"">" ++ nl ++ " <li>a</li>" ++ nl ++ "</ul>"), ROk, [], st0) /\
  render (elem (doc "ALL")) = render (elem (doc "none")) /\
  abf_spec rx_space (n_children (elem (doc "all-but-first")))
  = [nth 0 (n_children (elem (doc "all-but-first"))) (Node 0 None [] None);
     nth 2 (n_children (elem (doc "all-but-first"))) (Node 0 None [] None);
     nth 5 (n_children (elem (doc "all-but-first"))) (Node 0 None [] None)].
Proof. vm_compute. repeat split. Qed.

(* ---------- model facts ---------- *)
(* (1) a plain attribute named "remove" is dropped together with the directive; the other plain
       attributes keep their source order even when one is named like a weighted directive *)
Example plain_remove_attribute_dropped :
  render (elem "<ul remove=""x"" id='d' with :remove='body'>z</ul>") = (s2l "<ul id='d' with></ul>", ROk, [], st0).
Proof. vm_compute. reflexivity. Qed.
(* (2) all-but-first without a tag child: the trailing blank is still rendered; a leading blank is not *)
Example abf_without_tag_child :
  render (elem "<ul :remove=""all-but-first""> x  </ul>") = (s2l "<ul></ul>", ROk, [], st0) /\
  render (elem ("<ul :remove=""all-but-first""> <!--c-->" ++ nl ++ "</ul>")) = (s2l ("<ul>" ++ nl ++ "</ul>"), ROk, [], st0).
Proof. vm_compute. split; reflexivity. Qed.
(* (3) the leading blank is the FIRST child only: here the blank before <li> is not the first child *)
Example abf_leading_blank_first_child_only :
  render (elem "<ul :remove=""all-but-first"">x <li>a</li><li>b</li></ul>") = (s2l "<ul><li>a</li></ul>", ROk, [], st0).
Proof. vm_compute. reflexivity. Qed.
(* (4) the attribute without value, or an upper-case mode: rendered as if absent *)
Example remove_without_value :
  render (elem "<ul :remove>x</ul>") = (s2l "<ul>x</ul>", ROk, [], st0) /\
  render (elem "<ul :remove=""Body"">x</ul>") = (s2l "<ul>x</ul>", ROk, [], st0).
Proof. vm_compute. split; reflexivity. Qed.
(* (5) a top-level writer with an exhausted budget: mode all still performs one (empty) Write call *)
Example remove_all_writes_once :
  rx_node 10 0 [] (elem (doc "all")) (SData (VMap [])) true [] (mkR [] (Some O)) = ([], RErr RWriter, [], mkR [] (Some O)).
Proof. vm_compute. reflexivity. Qed.

Print Assumptions ex_abf.
