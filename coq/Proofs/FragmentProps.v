(* C07 and parts of C05/C06 — fragments (:define / :insert / :replace), trimming of fragment
   bodies, scoping of :with bindings, the scope of a render.
   Everything is stated for an ARBITRARY recursive call [exec] (the variable of [Section Body] in
   Html/Exec.v), so the results hold whatever nested renders do. *)
From Tpl Require Import Proofs.ExecSpec.
From Coq Require Import Lia.
Open Scope N_scope.

(* ---------- small string facts ---------- *)
Lemma prefixb_app : forall p s, prefixb p (p ++ s) = true.
Proof. induction p as [|c p IH]; intros s; cbn [prefixb app]; [reflexivity|]. rewrite N.eqb_refl, IH. reflexivity. Qed.
Lemma skipn_app_len : forall (p s : str), skipn (length p) (p ++ s) = s.
Proof. induction p as [|c p IH]; intros s; cbn [length skipn app]; [reflexivity | apply IH]. Qed.

(* decide the tests on closed directive names that [attr_step] performs *)
Ltac closed_tests :=
  repeat match goal with
  | |- context [str_eqb ?a ?b] =>
      let v := eval vm_compute in (str_eqb a b) in
      match v with true => idtac | false => idtac end; change (str_eqb a b) with v
  | |- context [is_cond_name ?a] =>
      let v := eval vm_compute in (is_cond_name a) in
      match v with true => idtac | false => idtac end; change (is_cond_name a) with v
  end.

(* a chain of combined scopes, innermost first *)
Fixpoint chain (l : list scope) (last : scope) : scope :=
  match l with [] => last | s :: r => SCombine s (chain r last) end.
(* the first lookup result that is not Absent; [d] when all are Absent *)
Fixpoint first_present (l : list lookup) (d : lookup) : lookup :=
  match l with
  | [] => d
  | Absent :: r => first_present r d
  | x :: _ => x
  end.

(* dropping a first / last element that satisfies [p] *)
Definition drop_head_if {A} (p : A -> bool) (l : list A) : list A :=
  match l with c :: r => if p c then r else l | [] => [] end.
Definition drop_tail_if {A} (p : A -> bool) (l : list A) : list A := rev (drop_head_if p (rev l)).

Lemma drop_tail_if_snoc : forall A (p : A -> bool) l z,
  drop_tail_if p (l ++ [z]) = if p z then l else l ++ [z].
Proof.
  intros A p l z. unfold drop_tail_if. rewrite rev_unit. cbn [drop_head_if].
  destruct (p z).
  - apply rev_involutive.
  - change (z :: rev l) with ([z] ++ rev l). rewrite rev_app_distr, rev_involutive. reflexivity.
Qed.

Section Frag.
(* the variables of [Section Exec] ... *)
Variable is_space : rune -> bool.
Variable to_lower : rune -> rune.
Variable is_letter : rune -> bool.
Variable is_udigit : rune -> bool.
Variable methods : N -> bool -> list (str * N).
Variable call_fn : N -> list value -> fres.
Variable mgr : manager.
(* ... plus the recursive call *)
Variable exec : N -> list node -> node -> scope -> bool -> tbl -> rst -> R.

Notation attr_ev := (attr_evaluate is_letter is_udigit methods call_fn mgr).
Notation step := (attr_step is_space is_letter is_udigit methods call_fn mgr exec).
Notation pfx := (prefix mgr).

(* ---------- :insert wraps, :replace substitutes ---------- *)
(* :insert — the fragment's output is appended to the CONTENT of the element (printed after the
   start tag, i.e. inside it); the element itself is kept *)
Theorem insert_step : forall mask ctx n attrs a ls t st name lg tp o st2,
  a_name a = pfx ++ d_insert ->
  l_replace ls = false ->
  attr_ev a (l_sc ls) (r_log st) = (AOk name, lg) ->
  assoc name (m_templates mgr) = Some tp ->
  run_template exec tp (l_sc ls) (set_log st lg) = (o, ROk, st2) ->
  step mask ctx n attrs a ls t st
  = (inl (mkL (l_sc ls) (l_np ls) (l_child ls) (l_tagbuf ls) (l_content ls ++ o) (l_direct ls) (l_replace ls)), t, st2).
Proof.
  intros mask ctx n attrs a ls t st name lg tp o st2 Hname Hrep Hev Hassoc Hrun.
  unfold attr_step. rewrite Hname, prefixb_app, skipn_app_len. closed_tests.
  cbv beta iota zeta. cbn [orb negb]. rewrite Hev, Hassoc, Hrun, Hrep. reflexivity.
Qed.

(* :replace — the fragment's output goes to the DIRECT output (printed instead of the element,
   whose own tag is suppressed by [init_lstate], see [replace_discards_host]) *)
Theorem replace_step : forall mask ctx n attrs a ls t st name lg tp o st2,
  a_name a = pfx ++ d_replace ->
  attr_ev a (l_sc ls) (r_log st) = (AOk name, lg) ->
  assoc name (m_templates mgr) = Some tp ->
  run_template exec tp (l_sc ls) (set_log st lg) = (o, ROk, st2) ->
  step mask ctx n attrs a ls t st
  = (inl (mkL (l_sc ls) (l_np ls) (l_child ls) (l_tagbuf ls) (l_content ls) (l_direct ls ++ o) true), t, st2).
Proof.
  intros mask ctx n attrs a ls t st name lg tp o st2 Hname Hev Hassoc Hrun.
  unfold attr_step. rewrite Hname, prefixb_app, skipn_app_len. closed_tests.
  cbv beta iota zeta. cbn [orb negb]. rewrite Hev, Hassoc, Hrun, orb_true_r. reflexivity.
Qed.

(* once a :replace has been processed on the element, a later :insert also writes to the direct
   output (the flag is sticky) *)
Theorem insert_after_replace : forall mask ctx n attrs a ls t st name lg tp o st2,
  a_name a = pfx ++ d_insert ->
  l_replace ls = true ->
  attr_ev a (l_sc ls) (r_log st) = (AOk name, lg) ->
  assoc name (m_templates mgr) = Some tp ->
  run_template exec tp (l_sc ls) (set_log st lg) = (o, ROk, st2) ->
  step mask ctx n attrs a ls t st
  = (inl (mkL (l_sc ls) (l_np ls) (l_child ls) (l_tagbuf ls) (l_content ls) (l_direct ls ++ o) true), t, st2).
Proof.
  intros mask ctx n attrs a ls t st name lg tp o st2 Hname Hrep Hev Hassoc Hrun.
  unfold attr_step. rewrite Hname, prefixb_app, skipn_app_len. closed_tests.
  cbv beta iota zeta. cbn [orb negb]. rewrite Hev, Hassoc, Hrun, Hrep. reflexivity.
Qed.

(* an unknown fragment name is an error (nothing is rendered, the table is unchanged) *)
Theorem unknown_template : forall mask ctx n attrs a ls t st name lg,
  a_name a = pfx ++ d_insert \/ a_name a = pfx ++ d_replace ->
  attr_ev a (l_sc ls) (r_log st) = (AOk name, lg) ->
  assoc name (m_templates mgr) = None ->
  step mask ctx n attrs a ls t st = (inr (RErr RNotFound), t, set_log st lg).
Proof.
  intros mask ctx n attrs a ls t st name lg [Hname|Hname] Hev Hassoc;
    unfold attr_step; rewrite Hname, prefixb_app, skipn_app_len; closed_tests;
    cbv beta iota zeta; cbn [orb negb]; rewrite Hev, Hassoc; reflexivity.
Qed.

(* a failing fragment render fails the element with the same result *)
Theorem fragment_failure : forall mask ctx n attrs a ls t st name lg tp o r st2,
  a_name a = pfx ++ d_insert \/ a_name a = pfx ++ d_replace ->
  attr_ev a (l_sc ls) (r_log st) = (AOk name, lg) ->
  assoc name (m_templates mgr) = Some tp ->
  run_template exec tp (l_sc ls) (set_log st lg) = (o, r, st2) -> r <> ROk ->
  step mask ctx n attrs a ls t st = (inr r, t, st2).
Proof.
  intros mask ctx n attrs a ls t st name lg tp o r st2 [Hname|Hname] Hev Hassoc Hrun Hr;
    unfold attr_step; rewrite Hname, prefixb_app, skipn_app_len; closed_tests;
    cbv beta iota zeta; cbn [orb negb]; rewrite Hev, Hassoc, Hrun;
    (destruct r as [|c|]; [congruence | reflexivity | reflexivity]).
Qed.

(* the :define attribute itself does nothing when the element is processed *)
Theorem define_step : forall mask ctx n attrs a ls t st,
  a_name a = pfx ++ d_define -> step mask ctx n attrs a ls t st = (inl ls, t, st).
Proof.
  intros mask ctx n attrs a ls t st Hname.
  unfold attr_step. rewrite Hname, prefixb_app, skipn_app_len. closed_tests. reflexivity.
Qed.

(* the fragment is evaluated in the scope of the call site, with a FRESH condition table (the
   caller's table is neither read nor changed), writing to a buffer (top = false) *)
Theorem fragment_scope_is_call_site : forall tp sc st,
  run_template exec tp sc st
  = let '(o, r, _, st') := exec_list exec (tp_ctx tp) (tp_children tp) sc false [] st in (o, r, st').
Proof. intros tp sc st. unfold run_template. destruct (exec_list exec (tp_ctx tp) (tp_children tp) sc false [] st) as [[[o r] t'] st']. reflexivity. Qed.

(* ---------- :define is invisible, host children are discarded ---------- *)
Theorem define_invisible : forall mask tok sc,
  has_dir mgr (t_attrs tok) d_define = true ->
  l_np (init_lstate to_lower mgr mask tok sc) = true /\ l_child (init_lstate to_lower mgr mask tok sc) = CNop.
Proof.
  intros mask tok sc H. unfold init_lstate. cbn [l_np l_child]. rewrite H. cbn [orb].
  rewrite orb_true_r. cbn [orb]. split; reflexivity.
Qed.

Theorem replace_discards_host : forall mask tok sc,
  has_dir mgr (t_attrs tok) d_replace = true ->
  l_np (init_lstate to_lower mgr mask tok sc) = true /\ l_child (init_lstate to_lower mgr mask tok sc) = CNop.
Proof.
  intros mask tok sc H. unfold init_lstate. cbn [l_np l_child]. rewrite H.
  rewrite (orb_true_r (has_dir mgr (t_attrs tok) d_define)). rewrite orb_true_r. cbn [orb]. split; reflexivity.
Qed.

Theorem insert_discards_children : forall mask tok sc,
  has_dir mgr (t_attrs tok) d_insert = true ->
  l_child (init_lstate to_lower mgr mask tok sc) = CNop.
Proof.
  intros mask tok sc H. unfold init_lstate. cbn [l_child]. rewrite H. rewrite orb_true_r. reflexivity.
Qed.

(* with [l_np] set, neither the start tag, nor the content, nor the end tag is printed: only the
   direct output (what :replace / a taken condition / :range produced) *)
Theorem np_prints_direct_only : forall ls, l_np ls = true -> token_buf ls = l_direct ls.
Proof. intros ls H. unfold token_buf. rewrite H. apply app_nil_r. Qed.
(* with [l_child = CNop] the children of the element are not rendered *)
Theorem nop_child_renders_nothing : forall n ls top t st,
  l_child ls = CNop ->
  run_child is_space is_letter is_udigit methods call_fn mgr exec n ls top t st = ([], ROk, t, st).
Proof. intros n ls top t st H. unfold run_child. rewrite H. reflexivity. Qed.

(* ---------- trimming of a fragment body ---------- *)
Notation blank := (is_blank_text is_space).

(* drop the first element if it is blank text, then the last element if it is blank text; keep
   everything else *)
Theorem trim_spec : forall ch,
  trim_blank_ends is_space ch = drop_tail_if blank (drop_head_if blank ch).
Proof.
  intros ch. unfold trim_blank_ends, drop_tail_if.
  destruct ch as [|c [|c' r]].
  - reflexivity.
  - cbn [drop_head_if]. destruct (blank c) eqn:Hb; cbn [rev app drop_head_if]; [reflexivity|].
    rewrite Hb. reflexivity.
  - cbn [drop_head_if].
    set (df := if blank c then c' :: r else c :: c' :: r).
    destruct (rev df) as [|l r'] eqn:Hrev.
    + reflexivity.
    + cbn [drop_head_if]. destruct (blank l).
      * reflexivity.
      * rewrite <- Hrev. symmetry. apply rev_involutive.
Qed.

Theorem trim_nil : trim_blank_ends is_space [] = [].
Proof. reflexivity. Qed.
Theorem trim_single : forall c, trim_blank_ends is_space [c] = if blank c then [] else [c].
Proof. reflexivity. Qed.
(* only the two ends are looked at: the inner elements are kept whatever they are (blank or not) *)
Theorem trim_inner_untouched : forall a mid z,
  trim_blank_ends is_space (a :: mid ++ [z])
  = (if blank a then [] else [a]) ++ mid ++ (if blank z then [] else [z]).
Proof.
  intros a mid z. rewrite trim_spec. cbn [drop_head_if]. destruct (blank a).
  - rewrite drop_tail_if_snoc. destruct (blank z); cbn [app]; rewrite ?app_nil_r; reflexivity.
  - change (a :: mid ++ [z]) with ((a :: mid) ++ [z]). rewrite drop_tail_if_snoc.
    destruct (blank z); cbn [app]; rewrite ?app_nil_r; reflexivity.
Qed.

(* ---------- scopes: :with bindings shadow, never leak ---------- *)
Lemma get_value_map : forall name m,
  get_value methods name (VMap m) = match assoc name m with Some v => Found v | None => Absent end.
Proof. reflexivity. Qed.

(* a successful :with produces the element's scope extended by ONE map in front of it: the bound
   names shadow, every other name is looked up in the scope the element was entered with *)
Theorem with_scope_lookup : forall a sc lg sc' lg',
  with_assign is_space is_letter is_udigit methods call_fn mgr a sc lg = (inl sc', lg') ->
  exists m, sc' = SCombine (SData (VMap m)) sc /\
    forall name, sget methods sc' name
                 = match assoc name m with Some v => Found v | None => sget methods sc name end.
Proof.
  intros a sc lg sc' lg' H. unfold with_assign in H.
  destruct (a_value a) as [av|]; [|discriminate H].
  destruct (with_collect is_space (ctoks_of is_letter is_udigit mgr a) [] []) as [[names codes]|]; [|discriminate H].
  destruct names as [|nm names]; [discriminate H|].
  destruct (negb (Nat.eqb (length codes) (length (nm :: names)))); [discriminate H|].
  destruct (with_eval is_letter is_udigit methods call_fn sc (nm :: names) codes [] lg) as [[m|e|] lg1];
    try discriminate H.
  injection H as <- <-. exists m. split; [reflexivity|].
  intros name. cbn [sget]. rewrite get_value_map. destruct (assoc name m); reflexivity.
Qed.

(* every sibling is rendered in the list's scope: a binding made on one element is never passed
   to the next (the result of a render carries output, result, table and state — no scope) *)
Theorem exec_list_same_scope : forall ctx c r sc top t st,
  exec_list exec ctx (c :: r) sc top t st
  = seq2 (exec 0 ctx c sc top t st) (exec_list exec ctx r sc top).
Proof. reflexivity. Qed.

(* a chain of SCombine's resolves a name in the first scope whose lookup is not Absent (a Failed
   lookup also stops the search) *)
Theorem sget_chain : forall l last name,
  sget methods (chain l last) name
  = first_present (map (fun s => sget methods s name) l) (sget methods last name).
Proof.
  induction l as [|s l IH]; intros last name.
  - reflexivity.
  - cbn [chain map first_present sget]. rewrite IH. destruct (sget methods s name); reflexivity.
Qed.

Corollary sget_chain_found : forall pre s post last name v,
  (forall x, In x pre -> sget methods x name = Absent) ->
  sget methods s name = Found v ->
  sget methods (chain (pre ++ s :: post) last) name = Found v.
Proof.
  intros pre s post last name v Habs Hs. rewrite sget_chain.
  induction pre as [|p pre IH]; cbn [app map first_present].
  - rewrite Hs. reflexivity.
  - rewrite (Habs p (or_introl eq_refl)). apply IH. intros x Hx. apply Habs. right. exact Hx.
Qed.
End Frag.

(* ---------- the scope of a render ---------- *)
Definition render_scope (mgr : manager) (data : value) : scope :=
  SCombine (SData (match data with VNil => VMap [] | d => d end)) (m_global mgr).

Section Render.
Variable is_space : rune -> bool.
Variable to_lower : rune -> rune.
Variable is_letter : rune -> bool.
Variable is_udigit : rune -> bool.
Variable methods : N -> bool -> list (str * N).
Variable call_fn : N -> list value -> fres.

(* the scope of a render is built from THIS call's data and the manager's global scope only:
   nothing from the table, the state or earlier renders enters it *)
Theorem execute_scope : forall mgr fuel tp data t st,
  execute is_space to_lower is_letter is_udigit methods call_fn mgr fuel tp data t st
  = exec_node is_space to_lower is_letter is_udigit methods call_fn mgr fuel 0 (tp_ctx tp)
      (Node 0 None (tp_children tp) None) (render_scope mgr data) true t st.
Proof. reflexivity. Qed.

(* the data is consulted first, the global scope only for names the data does not have *)
Theorem render_scope_lookup : forall mgr data name,
  sget methods (render_scope mgr data) name
  = match get_value methods name (match data with VNil => VMap [] | d => d end) with
    | Absent => sget methods (m_global mgr) name
    | r => r
    end.
Proof. reflexivity. Qed.

(* a history of renders on one template object: each render starts from an empty log and its own
   budget, in the scope of its own data; only the condition table is carried over *)
Theorem run_history_cons : forall fuel m tp d b r t,
  run_history is_space to_lower is_letter is_udigit methods call_fn
    fuel m tp ((d, b) :: r) t
  = let '(o, res, t', st) :=
        exec_node is_space to_lower is_letter is_udigit methods call_fn m fuel 0 (tp_ctx tp)
          (Node 0 None (tp_children tp) None) (render_scope m d) true t (mkR [] b) in
    (o, res, r_log st) ::
    run_history is_space to_lower is_letter is_udigit methods call_fn
      fuel m tp r t'.
Proof. reflexivity. Qed.
End Render.

(* ---------- manager: names are resolved regardless of load order ---------- *)
Lemma str_eqb_refl' : forall s, str_eqb s s = true.
Proof. induction s as [|c s IH]; cbn [str_eqb]; [reflexivity|]. rewrite N.eqb_refl, IH. reflexivity. Qed.
Lemma str_eqb_true : forall a b, str_eqb a b = true -> a = b.
Proof.
  induction a as [|x a IH]; intros [|y b] H; cbn [str_eqb] in H; try discriminate H; [reflexivity|].
  apply andb_true_iff in H. destruct H as [Hx Hr]. apply N.eqb_eq in Hx. rewrite Hx, (IH b Hr). reflexivity.
Qed.

Definition keys {A} (l : list (str * A)) : list str := map fst l.

Lemma NoDup_snoc : forall A (l : list A) a, NoDup l -> ~ In a l -> NoDup (l ++ [a]).
Proof.
  intros A l a Hnd Hnotin. apply (Permutation_NoDup (l := a :: l)).
  - apply Permutation_cons_append.
  - constructor; assumption.
Qed.

Lemma assoc_app : forall A k (l1 l2 : list (str * A)),
  assoc k (l1 ++ l2) = match assoc k l1 with Some v => Some v | None => assoc k l2 end.
Proof.
  intros A k l1 l2. unfold assoc. induction l1 as [|[k1 v1] l1 IH]; cbn [app find fst snd]; [reflexivity|].
  destruct (str_eqb k1 k); [reflexivity | exact IH].
Qed.
Lemma assoc_none_notin : forall A k (l : list (str * A)), assoc k l = None -> ~ In k (keys l).
Proof.
  intros A k l. unfold assoc, keys. induction l as [|[k1 v1] l IH]; cbn [find map fst snd In]; intros H.
  - intros [].
  - destruct (str_eqb k1 k) eqn:E; [discriminate H|]. intros [Heq|Hin].
    + subst k1. rewrite str_eqb_refl' in E. discriminate E.
    + exact (IH H Hin).
Qed.
Lemma assoc_in : forall A k v (l : list (str * A)), assoc k l = Some v -> In (k, v) l.
Proof.
  intros A k v l. unfold assoc. induction l as [|[k1 v1] l IH]; cbn [find fst snd In]; intros H.
  - discriminate H.
  - destruct (str_eqb k1 k) eqn:E.
    + injection H as <-. left. rewrite (str_eqb_true _ _ E). reflexivity.
    + right. exact (IH H).
Qed.
Lemma in_assoc : forall A k v (l : list (str * A)), NoDup (keys l) -> In (k, v) l -> assoc k l = Some v.
Proof.
  intros A k v l. unfold assoc, keys. induction l as [|[k1 v1] l IH]; cbn [find map fst snd In]; intros Hnd Hin.
  - contradiction Hin.
  - inversion Hnd as [|x xs Hnotin Hnd']; subst. destruct Hin as [Heq|Hin].
    + injection Heq as -> ->. rewrite str_eqb_refl'. reflexivity.
    + destruct (str_eqb k1 k) eqn:E.
      * apply str_eqb_true in E. subst k1. exfalso. apply Hnotin.
        change k with (fst (k, v)). apply in_map. exact Hin.
      * exact (IH Hnd' Hin).
Qed.

(* with distinct keys, lookup does not depend on the order of the table *)
Lemma assoc_perm : forall A k (l1 l2 : list (str * A)),
  NoDup (keys l1) -> Permutation l1 l2 -> assoc k l1 = assoc k l2.
Proof.
  intros A k l1 l2 Hnd Hp.
  assert (Hnd2 : NoDup (keys l2)).
  { unfold keys. apply (Permutation_NoDup (l := map fst l1)); [apply Permutation_map; exact Hp | exact Hnd]. }
  destruct (assoc k l1) as [v1|] eqn:E1.
  - symmetry. apply in_assoc; [exact Hnd2|]. apply (Permutation_in _ Hp). apply assoc_in. exact E1.
  - destruct (assoc k l2) as [v2|] eqn:E2; [|reflexivity].
    apply assoc_in in E2. apply (Permutation_in _ (Permutation_sym Hp)) in E2.
    rewrite (in_assoc _ _ _ _ Hnd E2) in E1. discriminate E1.
Qed.

Section MgrOrder.
Variable is_space : rune -> bool.
Variable to_lower : rune -> rune.
Variable is_letter : rune -> bool.
Variable is_udigit : rune -> bool.
Variable methods : N -> bool -> list (str * N).
Variable call_fn : N -> list value -> fres.
Variable text_tags : list str.
Variable void_elements : list str.
Variable tag_prefix : str.
Variable attr_prefix : str.
Variable global : scope.

Notation T := (list (str * template)).
Notation addfile := (add_file is_space to_lower is_letter is_udigit methods call_fn text_tags void_elements tag_prefix attr_prefix global).
Notation addfiles := (add_files is_space to_lower is_letter is_udigit methods call_fn text_tags void_elements tag_prefix attr_prefix global).
Notation adddefs := (add_defs is_space is_letter is_udigit methods call_fn tag_prefix attr_prefix global).

(* a registration step [F] is "extending": when it succeeds on a table it appends entries [new]
   with fresh, distinct names, and it succeeds with the same [new] on every suffix of that table
   (fewer names already taken) *)
Definition ext_ok (F : T -> T * option lerr) : Prop :=
  forall pre tps2 tps', F (pre ++ tps2) = (tps', None) ->
  exists new, tps' = (pre ++ tps2) ++ new /\ F tps2 = (tps2 ++ new, None) /\
              (NoDup (keys (pre ++ tps2)) -> NoDup (keys tps')).

Definition then_ (F G : T -> T * option lerr) (tps : T) : T * option lerr :=
  match F tps with (t1, None) => G t1 | e => e end.

Lemma ext_ok_then : forall F G, ext_ok F -> ext_ok G -> ext_ok (then_ F G).
Proof.
  intros F G HF HG pre tps2 tps' H. unfold then_ in H.
  destruct (F (pre ++ tps2)) as [t1 [e|]] eqn:EF; [discriminate H|].
  destruct (HF pre tps2 t1 EF) as [nf [-> [HF2 HndF]]].
  rewrite <- app_assoc in H.
  destruct (HG pre (tps2 ++ nf) tps' H) as [ng [-> [HG2 HndG]]].
  exists (nf ++ ng). split; [|split].
  - rewrite !app_assoc. reflexivity.
  - unfold then_. rewrite HF2, HG2. rewrite app_assoc. reflexivity.
  - intros Hnd. apply HndG. rewrite app_assoc. apply HndF. exact Hnd.
Qed.

Lemma ext_ok_ext : forall F G, (forall x, F x = G x) -> ext_ok F -> ext_ok G.
Proof.
  intros F G Heq HF pre tps2 tps' H. rewrite <- Heq in H.
  destruct (HF pre tps2 tps' H) as [new [H1 [H2 H3]]]. exists new. rewrite <- Heq. auto.
Qed.

Lemma ext_ok_id : ext_ok (fun tps => (tps, None)).
Proof.
  intros pre tps2 tps' H. injection H as <-. exists []. rewrite !app_nil_r. auto.
Qed.

Definition add_one (name : str) (tp : template) (tps : T) : T * option lerr :=
  match assoc name tps with Some _ => (tps, Some LDup) | None => (tps ++ [(name, tp)], None) end.

Lemma ext_ok_add_one : forall name tp, ext_ok (add_one name tp).
Proof.
  intros name tp pre tps2 tps' H. unfold add_one in H.
  destruct (assoc name (pre ++ tps2)) as [x|] eqn:E; [discriminate H|]. injection H as <-.
  exists [(name, tp)]. split; [reflexivity|]. split.
  - unfold add_one. rewrite assoc_app in E. destruct (assoc name pre); [discriminate E|]. rewrite E. reflexivity.
  - intros Hnd. unfold keys. rewrite map_app. cbn [map fst].
    apply NoDup_snoc; [exact Hnd | exact (assoc_none_notin _ _ _ E)].
Qed.

(* add_defs, cut into its two stages: the element's own :define, then the children in order *)
Definition own_def (n : node) (tps : T) : T * option lerr :=
  match n_tok n with
  | Some tok =>
    match t_kind tok with
    | KTag =>
      match find (fun a => str_eqb (a_name a) (attr_prefix ++ d_define)) (t_attrs tok) with
      | Some a =>
        match attr_evaluate is_letter is_udigit methods call_fn (mk_mgr tag_prefix attr_prefix global tps) a (SData (VMap [])) [] with
        | (AOk name, _) =>
          match assoc name tps with
          | Some _ => (tps, Some LDup)
          | None => (tps ++ [(name, mkT (trim_blank_ends is_space (n_children n)) (n_children n))], None)
          end
        | _ => (tps, Some LEval)
        end
      | None => (tps, None)
      end
    | _ => (tps, None)
    end
  | None => (tps, None)
  end.
Definition go_defs (rec : node -> T -> T * option lerr) : list node -> T -> T * option lerr :=
  fix go (l : list node) (tps : T) : T * option lerr :=
    match l with
    | [] => (tps, None)
    | c :: r => match rec c tps with (tps', None) => go r tps' | e => e end
    end.

Lemma add_defs_S : forall f n tps,
  adddefs (S f) n tps
  = match own_def n tps with
    | (tps1, Some e) => (tps1, Some e)
    | (tps1, None) => go_defs (adddefs f) (n_children n) tps1
    end.
Proof. reflexivity. Qed.

Lemma ext_ok_fail : forall e : T -> lerr, ext_ok (fun tps => (tps, Some (e tps))).
Proof. intros e pre tps2 tps' H. discriminate H. Qed.

(* the name of a fragment does not depend on what is already registered *)
Lemma ext_ok_own : forall n, ext_ok (own_def n).
Proof.
  intros n. unfold own_def.
  destruct (n_tok n) as [tok|]; [|apply ext_ok_id].
  destruct (t_kind tok); try apply ext_ok_id.
  destruct (find (fun a => str_eqb (a_name a) (attr_prefix ++ d_define)) (t_attrs tok)) as [a|]; [|apply ext_ok_id].
  apply (ext_ok_ext (fun tps =>
    match attr_evaluate is_letter is_udigit methods call_fn (mk_mgr tag_prefix attr_prefix global []) a (SData (VMap [])) [] with
    | (AOk name, _) => add_one name (mkT (trim_blank_ends is_space (n_children n)) (n_children n)) tps
    | _ => (tps, Some LEval)
    end)).
  - intros x. reflexivity.
  - destruct (attr_evaluate is_letter is_udigit methods call_fn (mk_mgr tag_prefix attr_prefix global []) a (SData (VMap [])) []) as [[name|c|] lg].
    + apply ext_ok_add_one.
    + apply (ext_ok_fail (fun _ => LEval)).
    + apply (ext_ok_fail (fun _ => LEval)).
Qed.

Lemma ext_ok_go : forall rec, (forall c, ext_ok (rec c)) -> forall l, ext_ok (go_defs rec l).
Proof.
  intros rec Hrec. induction l as [|c r IH].
  - apply ext_ok_id.
  - apply (ext_ok_ext (then_ (rec c) (go_defs rec r))).
    + intros x. reflexivity.
    + apply ext_ok_then; [apply Hrec | exact IH].
Qed.

Lemma ext_ok_add_defs : forall fuel n, ext_ok (adddefs fuel n).
Proof.
  induction fuel as [|f IH]; intros n.
  - apply (ext_ok_fail (fun _ => LEval)).
  - apply (ext_ok_ext (then_ (own_def n) (go_defs (adddefs f) (n_children n)))).
    + intros x. rewrite add_defs_S. unfold then_. destruct (own_def n x) as [t1 [e|]]; reflexivity.
    + apply ext_ok_then; [apply ext_ok_own | apply ext_ok_go; exact IH].
Qed.

Lemma ext_ok_add_file : forall n s, ext_ok (fun tps => addfile tps n s).
Proof.
  intros n s. unfold add_file.
  destruct (load is_space to_lower text_tags void_elements attr_prefix (pok is_letter is_udigit) s) as [root|e].
  - apply (ext_ok_ext (then_ (add_one n (mkT (n_children root) (n_children root))) (adddefs (S (length s)) root))).
    + intros x. unfold then_, add_one. destruct (assoc n x); reflexivity.
    + apply ext_ok_then; [apply ext_ok_add_one | apply ext_ok_add_defs].
  - intros pre tps2 tps' H. destruct (assoc n (pre ++ tps2)); discriminate H.
Qed.

(* what a file contributes to the table: its own entry followed by the fragments it defines *)
Definition contrib (f : str * str) : T := fst (addfile [] (fst f) (snd f)).

Lemma add_file_contrib : forall tps n s tps',
  addfile tps n s = (tps', None) ->
  tps' = tps ++ contrib (n, s) /\ (NoDup (keys tps) -> NoDup (keys tps')).
Proof.
  intros tps n s tps' H.
  assert (H' : (fun x => addfile x n s) (tps ++ []) = (tps', None)) by (cbv beta; rewrite app_nil_r; exact H).
  destruct (ext_ok_add_file n s tps [] tps' H') as [new [E1 [E2 E3]]].
  cbv beta in E2. rewrite app_nil_r in E1, E3. cbn [app] in E2.
  unfold contrib. cbn [fst snd]. rewrite E2. cbn [fst]. split; assumption.
Qed.

Lemma add_files_contrib : forall files tps tps',
  addfiles tps files = (tps', None) ->
  tps' = tps ++ flat_map contrib files /\ (NoDup (keys tps) -> NoDup (keys tps')).
Proof.
  induction files as [|[n s] r IH]; intros tps tps' H.
  - cbn [add_files] in H. injection H as <-. cbn [flat_map]. rewrite app_nil_r. auto.
  - cbn [add_files] in H. destruct (addfile tps n s) as [t1 [e|]] eqn:E; [discriminate H|].
    destruct (add_file_contrib tps n s t1 E) as [-> Hnd1].
    destruct (IH _ _ H) as [-> Hnd2]. cbn [flat_map]. rewrite app_assoc. auto.
Qed.

(* loading the same files in another order gives the same table up to the order of its entries *)
Theorem add_files_tables_perm : forall tps0 files1 files2 T1 T2,
  Permutation files1 files2 ->
  addfiles tps0 files1 = (T1, None) -> addfiles tps0 files2 = (T2, None) ->
  Permutation T1 T2.
Proof.
  intros tps0 files1 files2 T1 T2 Hp H1 H2.
  destruct (add_files_contrib _ _ _ H1) as [-> _]. destruct (add_files_contrib _ _ _ H2) as [-> _].
  apply Permutation_app_head. apply Permutation_flat_map. exact Hp.
Qed.

(* ... and therefore every name resolves to the same template *)
Theorem add_files_templates_perm : forall tps0 files1 files2 T1 T2,
  NoDup (keys tps0) -> Permutation files1 files2 ->
  addfiles tps0 files1 = (T1, None) -> addfiles tps0 files2 = (T2, None) ->
  forall name, assoc name T1 = assoc name T2.
Proof.
  intros tps0 files1 files2 T1 T2 Hnd Hp H1 H2 name.
  apply assoc_perm.
  - exact (proj2 (add_files_contrib _ _ _ H1) Hnd).
  - exact (add_files_tables_perm tps0 files1 files2 T1 T2 Hp H1 H2).
Qed.

Corollary add_files_templates_perm_empty : forall files1 files2 T1 T2,
  Permutation files1 files2 ->
  addfiles [] files1 = (T1, None) -> addfiles [] files2 = (T2, None) ->
  forall name, assoc name T1 = assoc name T2.
Proof. intros files1 files2 T1 T2. apply add_files_templates_perm. constructor. Qed.
End MgrOrder.

Print Assumptions insert_step.
Print Assumptions replace_step.
Print Assumptions insert_after_replace.
Print Assumptions unknown_template.
Print Assumptions fragment_failure.
Print Assumptions fragment_scope_is_call_site.
Print Assumptions define_invisible.
Print Assumptions insert_discards_children.
Print Assumptions replace_discards_host.
Print Assumptions trim_spec.
Print Assumptions trim_inner_untouched.
Print Assumptions with_scope_lookup.
Print Assumptions exec_list_same_scope.
Print Assumptions sget_chain.
Print Assumptions execute_scope.
Print Assumptions run_history_cons.
Print Assumptions add_files_tables_perm.
Print Assumptions add_files_templates_perm.
