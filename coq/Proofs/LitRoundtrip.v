(* Canonical string literals round-trip: quoting a string (double-quoted, single-quoted, raw)
   and decoding it with the model of VisitLiteral gives the string back; the lexer takes the whole
   literal as one string token; and inside a ${...} block of a directive value the code scanner
   does not end the block inside such a literal. *)
From Tpl Require Import Proofs.LitSpec.
From Coq Require Import Lia.
Open Scope N_scope.

(* ------------------------------------------------------------------------------------------ *)
(* generalities *)

Lemma inner_quote : forall (q : rune) (body : str), inner (q :: body ++ [q]) = body.
Proof. intros q body. unfold inner. cbn [tl]. apply removelast_last. Qed.

Lemma esc_rune_cases : forall q c : rune,
  (c = q /\ esc_rune q c = [cBS; q]) \/
  (N.eqb c q = false /\ c = cBS /\ esc_rune q c = [cBS; cBS]) \/
  (N.eqb c q = false /\ N.eqb c cBS = false /\ c = cNL /\ esc_rune q c = [cBS; 110]) \/
  (N.eqb c q = false /\ N.eqb c cBS = false /\ N.eqb c cNL = false /\ esc_rune q c = [c]).
Proof.
  intros q c. unfold esc_rune.
  destruct (N.eqb_spec c q) as [Eq|Nq].
  - left. subst c. split; reflexivity.
  - right. destruct (N.eqb_spec c cBS) as [Eb|Nb].
    + left. split; [reflexivity|]. split; [exact Eb|reflexivity].
    + right. destruct (N.eqb_spec c cNL) as [En|Nn].
      * left. split; [reflexivity|]. split; [reflexivity|]. split; [exact En|reflexivity].
      * right. repeat (split; [reflexivity|]). reflexivity.
Qed.

Lemma isquote_facts : forall q : rune, q = cDQ \/ q = cSQ ->
  N.eqb q cBQ = false /\ N.eqb q cBS = false /\ N.eqb cBS q = false /\
  (N.eqb q cDQ || N.eqb q cSQ) = true.
Proof. intros q [Hq|Hq]; subst q; repeat split; reflexivity. Qed.

(* ------------------------------------------------------------------------------------------ *)
(* unquote_body on canonically escaped double-quoted bodies *)

Lemma ub_plain : forall f c t acc,
  N.eqb c cDQ = false -> N.eqb c cNL = false -> N.eqb c cBS = false ->
  unquote_body (S f) cDQ (c :: t) acc = unquote_body f cDQ t (c :: acc).
Proof.
  intros f c t acc H1 H2 H3. cbn [unquote_body]. rewrite H1, H2, H3. reflexivity.
Qed.
Lemma ub_dq : forall f t acc,
  unquote_body (S f) cDQ (cBS :: cDQ :: t) acc = unquote_body f cDQ t (cDQ :: acc).
Proof. reflexivity. Qed.
Lemma ub_bs : forall f t acc,
  unquote_body (S f) cDQ (cBS :: cBS :: t) acc = unquote_body f cDQ t (cBS :: acc).
Proof. reflexivity. Qed.
Lemma ub_nl : forall f t acc,
  unquote_body (S f) cDQ (cBS :: 110 :: t) acc = unquote_body f cDQ t (cNL :: acc).
Proof. reflexivity. Qed.

Lemma ub_gen : forall (s : str) (f : nat) (acc : str),
  (length (flat_map (esc_rune cDQ) s) < f)%nat ->
  unquote_body f cDQ (flat_map (esc_rune cDQ) s) acc = Ok (rev acc ++ s).
Proof.
  induction s as [|c s IH]; intros f acc Hf.
  - cbn [flat_map length] in *. destruct f as [|f]; [lia|].
    cbn [unquote_body]. rewrite app_nil_r. reflexivity.
  - cbn [flat_map] in *. rewrite app_length in Hf.
    destruct (esc_rune_cases cDQ c) as [[Hc He]|[[Hq [Hc He]]|[[Hq [Hb [Hc He]]]|[Hq [Hb [Hn He]]]]]];
      rewrite He in *; cbn [length app] in *; (destruct f as [|f]; [lia|]).
    + subst c. rewrite ub_dq. rewrite IH by lia. cbn [rev]. rewrite <- app_assoc. reflexivity.
    + subst c. rewrite ub_bs. rewrite IH by lia. cbn [rev]. rewrite <- app_assoc. reflexivity.
    + subst c. rewrite ub_nl. rewrite IH by lia. cbn [rev]. rewrite <- app_assoc. reflexivity.
    + rewrite (ub_plain f c _ acc Hq Hn Hb). rewrite IH by lia.
      cbn [rev]. rewrite <- app_assoc. reflexivity.
Qed.

Theorem dq_roundtrip : forall s : str, unquote_lit (quote_with cDQ s) = Ok s.
Proof.
  intros s. unfold quote_with, unquote_lit.
  change (N.eqb cDQ cBQ) with false. change (N.eqb cDQ cSQ) with false. cbv iota.
  rewrite inner_quote. rewrite ub_gen.
  - reflexivity.
  - cbn [length]. rewrite app_length. cbn [length]. lia.
Qed.

(* ------------------------------------------------------------------------------------------ *)
(* the single-quote rewriting turns the canonical single-quoted body into the canonical
   double-quoted body *)

Lemma sq_sq : forall f t, sq_to_dq (S f) (cBS :: cSQ :: t) = cSQ :: sq_to_dq f t.
Proof. reflexivity. Qed.
Lemma sq_bs : forall f t, sq_to_dq (S f) (cBS :: cBS :: t) = cBS :: cBS :: sq_to_dq f t.
Proof. reflexivity. Qed.
Lemma sq_nl : forall f t, sq_to_dq (S f) (cBS :: 110 :: t) = cBS :: 110 :: sq_to_dq f t.
Proof. reflexivity. Qed.
Lemma sq_dq : forall f t, sq_to_dq (S f) (cDQ :: t) = cBS :: cDQ :: sq_to_dq f t.
Proof. reflexivity. Qed.
Lemma sq_plain : forall f c t, N.eqb c cBS = false -> N.eqb c cDQ = false ->
  sq_to_dq (S f) (c :: t) = c :: sq_to_dq f t.
Proof. intros f c t H1 H2. cbn [sq_to_dq]. rewrite H1, H2. reflexivity. Qed.

Lemma sq_gen : forall (s : str) (f : nat),
  (length (flat_map (esc_rune cSQ) s) <= f)%nat ->
  sq_to_dq f (flat_map (esc_rune cSQ) s) = flat_map (esc_rune cDQ) s.
Proof.
  induction s as [|c s IH]; intros f Hf.
  - cbn [flat_map]. destruct f as [|f]; reflexivity.
  - cbn [flat_map] in *. rewrite app_length in Hf.
    destruct (esc_rune_cases cSQ c) as [[Hc He]|[[Hq [Hc He]]|[[Hq [Hb [Hc He]]]|[Hq [Hb [Hn He]]]]]];
      rewrite He in *; cbn [length app] in *; (destruct f as [|f]; [lia|]).
    + subst c. rewrite sq_sq. rewrite IH by lia. reflexivity.
    + subst c. rewrite sq_bs. rewrite IH by lia. reflexivity.
    + subst c. rewrite sq_nl. rewrite IH by lia. reflexivity.
    + destruct (N.eqb_spec c cDQ) as [Ed|Nd].
      * subst c. rewrite sq_dq. rewrite IH by lia. reflexivity.
      * apply N.eqb_neq in Nd. rewrite (sq_plain f c _ Hb Nd). rewrite IH by lia.
        assert (Hec : esc_rune cDQ c = [c]) by (unfold esc_rune; rewrite Nd, Hb, Hn; reflexivity).
        rewrite Hec. reflexivity.
Qed.

Theorem sq_roundtrip : forall s : str, unquote_lit (quote_with cSQ s) = Ok s.
Proof.
  intros s. unfold quote_with, unquote_lit.
  change (N.eqb cSQ cBQ) with false. change (N.eqb cSQ cSQ) with true. cbv iota.
  rewrite inner_quote. rewrite sq_gen.
  - rewrite ub_gen; [reflexivity|lia].
  - cbn [length]. rewrite app_length. cbn [length]. lia.
Qed.

(* ------------------------------------------------------------------------------------------ *)
(* raw literals *)

Lemma filter_id : forall (f : rune -> bool) (s : str),
  (forall c, In c s -> f c = true) -> filter f s = s.
Proof.
  intros f. induction s as [|c s IH]; intros H.
  - reflexivity.
  - cbn [filter]. rewrite (H c (or_introl eq_refl)). rewrite IH; [reflexivity|].
    intros c' Hc'. apply H. right. exact Hc'.
Qed.

Theorem raw_roundtrip : forall s : str, ~ In cBQ s -> ~ In cCR s -> unquote_lit (quote_raw s) = Ok s.
Proof.
  intros s _ Hcr. unfold quote_raw, unquote_lit.
  change (N.eqb cBQ cBQ) with true. cbv iota.
  rewrite inner_quote. rewrite filter_id; [reflexivity|].
  intros c Hc. destruct (N.eqb_spec c cCR) as [Ec|Nc].
  - subst c. exfalso. exact (Hcr Hc).
  - reflexivity.
Qed.

(* ------------------------------------------------------------------------------------------ *)
(* the lexer: one string token *)

Lemma mq_close : forall f q t, m_qbody (S f) q (q :: t) = 1%nat.
Proof. intros f q t. cbn [m_qbody]. rewrite N.eqb_refl. reflexivity. Qed.

Lemma mq_plain : forall f q c t, N.eqb c q = false -> N.eqb c cBS = false ->
  m_qbody (S f) q (c :: t) = match m_qbody f q t with O => O | S k => S (S k) end.
Proof.
  intros f q c t H1 H2. cbn [m_qbody]. rewrite H1, H2.
  destruct (m_qbody f q t); reflexivity.
Qed.

Lemma mq_esc : forall f q e t, N.eqb cBS q = false -> m_escape (e :: t) = 2%nat ->
  m_qbody (S f) q (cBS :: e :: t) = match m_qbody f q t with O => O | S k => S (S (S k)) end.
Proof.
  intros f q e t H1 H2. cbn [m_qbody]. rewrite H1, H2.
  change (N.eqb cBS cBS) with true. cbv iota. cbn [Nat.sub skipn].
  destruct (m_qbody f q t); reflexivity.
Qed.

Lemma mesc_quote : forall q t, q = cDQ \/ q = cSQ -> m_escape (q :: t) = 2%nat.
Proof. intros q t [Hq|Hq]; subst q; reflexivity. Qed.
Lemma mesc_bs : forall t, m_escape (cBS :: t) = 2%nat.
Proof. reflexivity. Qed.
Lemma mesc_n : forall t, m_escape (110 :: t) = 2%nat.
Proof. reflexivity. Qed.

Lemma mq_gen : forall q : rune, q = cDQ \/ q = cSQ ->
  forall (s : str) (f : nat),
  (length (flat_map (esc_rune q) s) < f)%nat ->
  m_qbody f q (flat_map (esc_rune q) s ++ [q]) = S (length (flat_map (esc_rune q) s)).
Proof.
  intros q Hq. destruct (isquote_facts q Hq) as [_ [Hqb [Hbq _]]].
  induction s as [|c s IH]; intros f Hf.
  - cbn [flat_map length app] in *. destruct f as [|f]; [lia|]. apply mq_close.
  - cbn [flat_map] in *. rewrite app_length in *.
    destruct (esc_rune_cases q c) as [[Hc He]|[[Hcq [Hc He]]|[[Hcq [Hb [Hc He]]]|[Hcq [Hb [Hn He]]]]]];
      rewrite He in *; cbn [length app] in *; (destruct f as [|f]; [lia|]).
    + rewrite (mq_esc f q q _ Hbq (mesc_quote q _ Hq)). rewrite IH by lia. reflexivity.
    + rewrite (mq_esc f q cBS _ Hbq (mesc_bs _)). rewrite IH by lia. reflexivity.
    + rewrite (mq_esc f q 110 _ Hbq (mesc_n _)). rewrite IH by lia. reflexivity.
    + rewrite (mq_plain f q c _ Hcq Hb). rewrite IH by lia. reflexivity.
Qed.

Lemma quoted_one_token : forall (q : rune) (s : str), q = cDQ \/ q = cSQ ->
  m_string (quote_with q s) = length (quote_with q s).
Proof.
  intros q s Hq. destruct (isquote_facts q Hq) as [Hbq [_ [_ Hisq]]].
  unfold quote_with, m_string. rewrite Hbq, Hisq.
  rewrite (mq_gen q Hq).
  - cbn [length]. rewrite app_length. cbn [length]. lia.
  - rewrite app_length. cbn [length]. lia.
Qed.

Theorem dq_one_token : forall s : str, m_string (quote_with cDQ s) = length (quote_with cDQ s).
Proof. intros s. apply quoted_one_token. left. reflexivity. Qed.

Theorem sq_one_token : forall s : str, m_string (quote_with cSQ s) = length (quote_with cSQ s).
Proof. intros s. apply quoted_one_token. right. reflexivity. Qed.

Lemma not_in_cons : forall (x c : rune) (s : str), ~ In x (c :: s) -> N.eqb c x = false /\ ~ In x s.
Proof.
  intros x c s H. split.
  - apply N.eqb_neq. intros E. apply H. left. exact E.
  - intros Hi. apply H. right. exact Hi.
Qed.

Lemma span_raw : forall s : str, ~ In cBQ s ->
  span (fun r => negb (N.eqb r cBQ)) (s ++ [cBQ]) = length s.
Proof.
  induction s as [|c s IH]; intros Hn.
  - reflexivity.
  - destruct (not_in_cons cBQ c s Hn) as [Hc Hs].
    cbn [app span length]. rewrite Hc. cbn [negb]. rewrite (IH Hs). reflexivity.
Qed.

Lemma skipn_length_app : forall (s t : str), skipn (length s) (s ++ t) = t.
Proof. induction s as [|c s IH]; intros t; [reflexivity|]. cbn [length app skipn]. apply IH. Qed.

Theorem raw_one_token : forall s : str, ~ In cBQ s -> m_string (quote_raw s) = length (quote_raw s).
Proof.
  intros s Hn. unfold quote_raw, m_string.
  change (N.eqb cBQ cBQ) with true. cbv iota zeta.
  rewrite (span_raw s Hn). rewrite skipn_length_app.
  cbn [length]. rewrite app_length. cbn [length]. lia.
Qed.

(* ------------------------------------------------------------------------------------------ *)
(* the code scanner *)

Section Scan.
Variable compile : pos -> str -> bool.

Lemma cstep_noagain : forall t p f b m r t' f' b' m',
  cdispatch compile t f b m r p (adv p r) = CR t' f' b' m' false ->
  cstep compile (mkCS t p f b m) r = mkCS t' (adv p r) f' b' m'.
Proof.
  intros t p f b m r t' f' b' m' H. unfold cstep.
  cbn [k_toks k_pos k_first k_brace k_mode]. rewrite H. reflexivity.
Qed.

Lemma step_init : forall p d, isq d = true ->
  cstep compile (cinit p) d = mkCS [mkC BegEnd [d] p (adv p d)] (adv p d) d 0 (CText [] (adv p d) (adv p d)).
Proof.
  intros p d Hd. unfold cinit. apply cstep_noagain. cbn [cdispatch]. rewrite Hd. reflexivity.
Qed.

Lemma step_dollar : forall t p f b st e,
  cstep compile (mkCS t p f b (CText [] st e)) cDOLLAR = mkCS t (adv p cDOLLAR) f b (CDollar [] st p).
Proof. reflexivity. Qed.

Lemma step_lb : forall t p f b st e,
  cstep compile (mkCS t p f b (CDollar [] st e)) cLB =
  mkCS (mkC CodeStart [cDOLLAR; cLB] e (adv p cLB) :: t) (adv p cLB) f b (CBlock [] (adv p cLB) (adv p cLB)).
Proof. reflexivity. Qed.

Lemma step_open : forall q t p f b buf st e, q = cDQ \/ q = cSQ \/ q = cBQ ->
  cstep compile (mkCS t p f b (CBlock buf st e)) q = mkCS t (adv p q) f b (CStr q false (buf ++ [q]) st).
Proof. intros q t p f b buf st e [Hq|[Hq|Hq]]; subst q; reflexivity. Qed.

Lemma step_rb : forall t p f buf st e, compile st buf = true ->
  cstep compile (mkCS t p f 0 (CBlock buf st e)) cRB =
  mkCS (mkC CodeEnd [cRB] p (adv p cRB) :: mkC CodeValue buf st p :: t) (adv p cRB) f 0
       (CText [] (adv p cRB) (adv p cRB)).
Proof.
  intros t p f buf st e Hc. apply cstep_noagain. cbn [cdispatch].
  change (N.eqb cRB cLB) with false. change (N.eqb cRB cRB) with true. change (N.eqb 0 0) with true.
  cbv iota. rewrite Hc. reflexivity.
Qed.

Lemma step_endq : forall t p d b st e, isq d = true ->
  cstep compile (mkCS t p d b (CText [] st e)) d = mkCS (mkC BegEnd [d] st (adv p d) :: t) (adv p d) d b CClosed.
Proof.
  intros t p d b st e Hd. apply cstep_noagain. cbn [cdispatch]. rewrite Hd, N.eqb_refl. reflexivity.
Qed.

(* inside an interpreted string *)
Lemma step_str_plain : forall q r t p f b buf st,
  N.eqb q cBQ = false -> N.eqb r cBS = false -> N.eqb r q = false ->
  cstep compile (mkCS t p f b (CStr q false buf st)) r = mkCS t (adv p r) f b (CStr q false (buf ++ [r]) st).
Proof.
  intros q r t p f b buf st H1 H2 H3. apply cstep_noagain. cbn [cdispatch]. rewrite H1, H2, H3. reflexivity.
Qed.

Lemma step_str_bs : forall q t p f b buf st, N.eqb q cBQ = false ->
  cstep compile (mkCS t p f b (CStr q false buf st)) cBS = mkCS t (adv p cBS) f b (CStr q true (buf ++ [cBS]) st).
Proof.
  intros q t p f b buf st H1. apply cstep_noagain. cbn [cdispatch]. rewrite H1. reflexivity.
Qed.

Lemma step_str_esc : forall q r t p f b buf st,
  cstep compile (mkCS t p f b (CStr q true buf st)) r = mkCS t (adv p r) f b (CStr q false (buf ++ [r]) st).
Proof. reflexivity. Qed.

Lemma step_str_close : forall q t p f b buf st, N.eqb q cBQ = false -> N.eqb q cBS = false ->
  cstep compile (mkCS t p f b (CStr q false buf st)) q = mkCS t (adv p q) f b (CBlock (buf ++ [q]) st (adv p q)).
Proof.
  intros q t p f b buf st H1 H2. apply cstep_noagain. cbn [cdispatch]. rewrite H1, H2, N.eqb_refl. reflexivity.
Qed.

(* an escape pair \x, a plain rune *)
Lemma step_str_pair : forall q x (l : str) t p f b buf st, N.eqb q cBQ = false -> l = [cBS; x] ->
  fold_left (cstep compile) l (mkCS t p f b (CStr q false buf st)) =
  mkCS t (pos_after p l) f b (CStr q false (buf ++ l) st).
Proof.
  intros q x l t p f b buf st H1 Hl. subst l. cbn [fold_left]. rewrite (step_str_bs q t p f b buf st H1).
  rewrite step_str_esc. rewrite <- app_assoc. reflexivity.
Qed.

Lemma step_str_single : forall q c (l : str) t p f b buf st,
  N.eqb q cBQ = false -> N.eqb c cBS = false -> N.eqb c q = false -> l = [c] ->
  fold_left (cstep compile) l (mkCS t p f b (CStr q false buf st)) =
  mkCS t (pos_after p l) f b (CStr q false (buf ++ l) st).
Proof.
  intros q c l t p f b buf st H1 H2 H3 Hl. subst l. cbn [fold_left].
  rewrite (step_str_plain q c t p f b buf st H1 H2 H3). reflexivity.
Qed.

Lemma run_str_body : forall q : rune, q = cDQ \/ q = cSQ ->
  forall (s : str) t p f b buf st,
  fold_left (cstep compile) (flat_map (esc_rune q) s) (mkCS t p f b (CStr q false buf st)) =
  mkCS t (pos_after p (flat_map (esc_rune q) s)) f b (CStr q false (buf ++ flat_map (esc_rune q) s) st).
Proof.
  intros q Hq. destruct (isquote_facts q Hq) as [Hbq _].
  induction s as [|c s IH]; intros t p f b buf st.
  - cbn [flat_map fold_left pos_after]. rewrite app_nil_r. reflexivity.
  - cbn [flat_map]. rewrite fold_left_app.
    assert (Hstep : fold_left (cstep compile) (esc_rune q c) (mkCS t p f b (CStr q false buf st)) =
                    mkCS t (pos_after p (esc_rune q c)) f b (CStr q false (buf ++ esc_rune q c) st)).
    { destruct (esc_rune_cases q c) as [[Hc He]|[[Hcq [Hc He]]|[[Hcq [Hb [Hc He]]]|[Hcq [Hb [Hn He]]]]]].
      - exact (step_str_pair q q _ t p f b buf st Hbq He).
      - exact (step_str_pair q cBS _ t p f b buf st Hbq He).
      - exact (step_str_pair q 110 _ t p f b buf st Hbq He).
      - exact (step_str_single q c _ t p f b buf st Hbq Hb Hcq He). }
    rewrite Hstep. rewrite IH. unfold pos_after. rewrite fold_left_app. rewrite <- app_assoc. reflexivity.
Qed.

(* inside a raw string *)
Lemma step_raw_plain : forall r t p f b buf st, N.eqb r cBQ = false ->
  cstep compile (mkCS t p f b (CStr cBQ false buf st)) r = mkCS t (adv p r) f b (CStr cBQ false (buf ++ [r]) st).
Proof.
  intros r t p f b buf st H1. apply cstep_noagain. cbn [cdispatch].
  change (N.eqb cBQ cBQ) with true. cbv iota. rewrite H1. reflexivity.
Qed.

Lemma step_raw_close : forall t p f b buf st,
  cstep compile (mkCS t p f b (CStr cBQ false buf st)) cBQ = mkCS t (adv p cBQ) f b (CBlock (buf ++ [cBQ]) st (adv p cBQ)).
Proof. reflexivity. Qed.

Lemma run_raw_body : forall (s : str) t p f b buf st, ~ In cBQ s ->
  fold_left (cstep compile) s (mkCS t p f b (CStr cBQ false buf st)) =
  mkCS t (pos_after p s) f b (CStr cBQ false (buf ++ s) st).
Proof.
  induction s as [|c s IH]; intros t p f b buf st Hn.
  - cbn [fold_left pos_after]. rewrite app_nil_r. reflexivity.
  - destruct (not_in_cons cBQ c s Hn) as [Hc Hs].
    cbn [fold_left pos_after]. rewrite (step_raw_plain c t p f b buf st Hc). rewrite (IH _ _ _ _ _ _ Hs).
    rewrite <- app_assoc. reflexivity.
Qed.

(* the whole scan of  d ${ lit } d  given what the literal does to the block state *)
Lemma scan_block_with : forall (start : pos) (d : rune) (lit : str),
  isq d = true ->
  (forall t p f b st e,
     fold_left (cstep compile) lit (mkCS t p f b (CBlock [] st e)) =
     mkCS t (pos_after p lit) f b (CBlock lit st (pos_after p lit))) ->
  compile (adv (adv (adv start d) cDOLLAR) cLB) lit = true ->
  exists toks, cscan compile start (d :: cDOLLAR :: cLB :: lit ++ [cRB; d]) = inl toks /\
               map c_kind toks = [BegEnd; CodeStart; CodeValue; CodeEnd; BegEnd] /\
               map c_value toks = [[d]; [cDOLLAR; cLB]; lit; [cRB]; [d]].
Proof.
  intros start d lit Hd Hlit Hc. unfold cscan.
  cbn [fold_left]. rewrite (step_init start d Hd). rewrite step_dollar. rewrite step_lb.
  rewrite fold_left_app. rewrite Hlit. cbn [fold_left].
  rewrite (step_rb _ _ _ _ _ _ Hc). rewrite (step_endq _ _ _ _ _ _ Hd).
  unfold cfinish. cbn [k_mode k_toks rev app].
  eexists. split; [reflexivity|]. split; reflexivity.
Qed.
End Scan.

Lemma quoted_in_block : forall compile (q : rune) (s : str), q = cDQ \/ q = cSQ ->
  forall t p f b st e,
  fold_left (cstep compile) (quote_with q s) (mkCS t p f b (CBlock [] st e)) =
  mkCS t (pos_after p (quote_with q s)) f b (CBlock (quote_with q s) st (pos_after p (quote_with q s))).
Proof.
  intros compile q s Hq t p f b st e. destruct (isquote_facts q Hq) as [Hbq [Hqb _]].
  unfold quote_with. cbn [fold_left].
  rewrite (step_open compile q t p f b [] st e) by tauto.
  rewrite fold_left_app. rewrite (run_str_body compile q Hq). cbn [fold_left].
  rewrite (step_str_close compile q _ _ _ _ _ _ Hbq Hqb).
  cbn [pos_after fold_left app]. rewrite fold_left_app. cbn [fold_left]. reflexivity.
Qed.

Lemma raw_in_block : forall compile (s : str), ~ In cBQ s ->
  forall t p f b st e,
  fold_left (cstep compile) (quote_raw s) (mkCS t p f b (CBlock [] st e)) =
  mkCS t (pos_after p (quote_raw s)) f b (CBlock (quote_raw s) st (pos_after p (quote_raw s))).
Proof.
  intros compile s Hn t p f b st e.
  unfold quote_raw. cbn [fold_left].
  rewrite (step_open compile cBQ t p f b [] st e) by tauto.
  rewrite fold_left_app. rewrite (run_raw_body compile s _ _ _ _ _ _ Hn). cbn [fold_left].
  rewrite step_raw_close.
  cbn [pos_after fold_left app]. rewrite fold_left_app. cbn [fold_left]. reflexivity.
Qed.

Theorem literal_inside_block : forall (compile : pos -> str -> bool) (start : pos) (d q : rune) (s : str),
  isq d = true -> (q = cDQ \/ q = cSQ) ->
  let lit := quote_with q s in
  compile (adv (adv (adv start d) cDOLLAR) cLB) lit = true ->
  exists toks, cscan compile start (d :: cDOLLAR :: cLB :: lit ++ [cRB; d]) = inl toks /\
               map c_kind toks = [BegEnd; CodeStart; CodeValue; CodeEnd; BegEnd] /\
               map c_value toks = [[d]; [cDOLLAR; cLB]; lit; [cRB]; [d]].
Proof.
  intros compile start d q s Hd Hq lit Hc.
  apply (scan_block_with compile start d lit Hd); [|exact Hc].
  intros t p f b st e. apply (quoted_in_block compile q s Hq).
Qed.

Theorem raw_literal_inside_block : forall (compile : pos -> str -> bool) (start : pos) (d : rune) (s : str),
  isq d = true -> ~ In cBQ s ->
  let lit := quote_raw s in
  compile (adv (adv (adv start d) cDOLLAR) cLB) lit = true ->
  exists toks, cscan compile start (d :: cDOLLAR :: cLB :: lit ++ [cRB; d]) = inl toks /\
               map c_value toks = [[d]; [cDOLLAR; cLB]; lit; [cRB]; [d]].
Proof.
  intros compile start d s Hd Hn lit Hc.
  destruct (scan_block_with compile start d lit Hd) as [toks [Hs [_ Hv]]]; [|exact Hc|].
  - intros t p f b st e. apply (raw_in_block compile s Hn).
  - exists toks. split; [exact Hs|exact Hv].
Qed.

Print Assumptions dq_roundtrip.
Print Assumptions sq_roundtrip.
Print Assumptions raw_roundtrip.
Print Assumptions dq_one_token.
Print Assumptions sq_one_token.
Print Assumptions raw_one_token.
Print Assumptions literal_inside_block.
Print Assumptions raw_literal_inside_block.
