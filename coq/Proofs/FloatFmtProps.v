(* What is PROVED about the %v formatter model (Exp/FloatFmt.v); its agreement with Go's strconv is validated by the
   fmtfloat stream, not proved.
   [shortest] only ever returns a decimal c * 10^k lying in the rounding interval of the float (strictly inside, or on
   a boundary when the mantissa is even: the round-to-nearest-even rule) — so whatever digits are printed denote a
   number that rounds back to the same float: that [mk_fdec] really is (inside) the float's rounding interval is proved
   in Proofs/FloatFmtRead.v (inside_reads_back).  It never returns fewer digits than a shorter candidate that is inside: candidates are tried
   with 1, 2, 3, ... digits and the first precision with a candidate inside wins. *)
From Tpl Require Import Exp.FloatFmt.
From Coq Require Import Lia.
Open Scope Z_scope.

Lemma shortest_inside : forall fuel f p n c k, shortest fuel f p n = Some (c, k) -> inside f c k = true.
Proof.
  induction fuel as [|fu IH]; intros f p n c k H; cbn [shortest] in H; [discriminate|].
  cbv zeta in H.
  set (kk := p - n + 1) in *.
  set (lo := if 0 <=? kk then fd_x f / (fd_den f * pow10 kk) else fd_x f * pow10 (- kk) / fd_den f) in *.
  destruct (inside f lo kk) eqn:Elo; destruct (inside f (lo + 1) kk) eqn:Ehi.
  - destruct (dist f (lo + 1) kk <? dist f lo kk).
    + injection H as <- <-. exact Ehi.
    + destruct (dist f lo kk <? dist f (lo + 1) kk).
      * injection H as <- <-. exact Elo.
      * destruct (Z.even lo); injection H as <- <-; assumption.
  - injection H as <- <-. exact Elo.
  - injection H as <- <-. exact Ehi.
  - exact (IH _ _ _ _ _ H).
Qed.

(* the number of significant digits tried grows by one per step: a result found at precision n' >= n, and no
   candidate (floor or ceiling) of a smaller precision was inside *)
Lemma shortest_first : forall fuel f p n c k, shortest fuel f p n = Some (c, k) ->
  exists n', n <= n' /\ k = p - n' + 1 /\
    forall m, n <= m < n' ->
      let km := p - m + 1 in
      let lo := if 0 <=? km then fd_x f / (fd_den f * pow10 km) else fd_x f * pow10 (- km) / fd_den f in
      inside f lo km = false /\ inside f (lo + 1) km = false.
Proof.
  induction fuel as [|fu IH]; intros f p n c k H; cbn [shortest] in H; [discriminate|].
  cbv zeta in H.
  set (kk := p - n + 1) in *.
  set (lo := if 0 <=? kk then fd_x f / (fd_den f * pow10 kk) else fd_x f * pow10 (- kk) / fd_den f) in *.
  assert (Hhere : forall c' , Some (c', kk) = Some (c, k) ->
            exists n', n <= n' /\ k = p - n' + 1 /\ forall m, n <= m < n' ->
              let km := p - m + 1 in
              let lo := if 0 <=? km then fd_x f / (fd_den f * pow10 km) else fd_x f * pow10 (- km) / fd_den f in
              inside f lo km = false /\ inside f (lo + 1) km = false).
  { intros c' E. injection E as _ <-. exists n. split; [lia|]. split; [reflexivity|]. intros m Hm. lia. }
  destruct (inside f lo kk) eqn:Elo; destruct (inside f (lo + 1) kk) eqn:Ehi.
  - destruct (dist f (lo + 1) kk <? dist f lo kk); [exact (Hhere _ H)|].
    destruct (dist f lo kk <? dist f (lo + 1) kk); [exact (Hhere _ H)|].
    destruct (Z.even lo); exact (Hhere _ H).
  - exact (Hhere _ H).
  - exact (Hhere _ H).
  - destruct (IH _ _ _ _ _ H) as [n' [Hn [Hk Hall]]].
    exists n'. split; [lia|]. split; [exact Hk|].
    intros m Hm. destruct (Z.eq_dec m n) as [->|Hne].
    + cbv zeta. fold kk. fold lo. split; assumption.
    + apply Hall. lia.
Qed.

Print Assumptions shortest_inside.
Print Assumptions shortest_first.
