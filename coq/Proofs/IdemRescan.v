(* C01, last clause, part 2: scanning the re-printed form of a tag.
   If a tag token satisfies the facts of IdemTagWf.v ([twf]) and its valued attributes are accepted by the
   attribute compiler wherever they stand, then scanning  name attr1 ... attrk >  (the text of [print_tag]
   after its '<') from the state reached after '<' produces a tag token with the same name and the same
   attribute names and raw values.  Generalizes PrintScan.tag_scan to the irregular forms a scan can produce:
   an empty tag name, an attribute with an empty name ( =x ), an empty last value ( a=> ). *)
From Coq Require Import List NArith Bool Lia Arith.
From Tpl Require Import Html.Scan Proofs.ScanConcat Proofs.PrintScanDefs Proofs.PrintScanSteps Proofs.TagPrint
  Proofs.ExecSpec Proofs.IdemTagWf.
Import ListNotations.
Open Scope N_scope.
Local Arguments adv : simpl never.
Local Arguments Scan.step : simpl never.

(* printed form of one attribute shape *)
Definition pa (x : ash) : str :=
  match x with
  | (n, None) => cSP :: n
  | (n, Some v) => cSP :: n ++ cEQ :: v
  end.

Lemma pa_print_attr a : pa (ashape a) = print_attr a.
Proof. unfold ashape, print_attr, pa. destruct (a_value a); cbn [app]; [reflexivity|rewrite app_nil_r; reflexivity]. Qed.

Lemma pattrs_pa l : flat_map print_attr l = concat (map pa (map ashape l)).
Proof.
  induction l as [|a l IH]; [reflexivity|]. cbn [flat_map map concat]. rewrite IH, pa_print_attr. reflexivity.
Qed.

Definition head_none (l : list ash) : bool := match l with (_, None) :: _ => true | _ => false end.
Lemma not_none_head l : not_none l -> head_none l = false.
Proof. destruct l as [|[n [v|]] l]; cbn; intros H; [reflexivity|reflexivity|contradiction]. Qed.

Section P.
Variable is_space : rune -> bool.
Variable to_lower : rune -> rune.
Variable text_tags : list str.
Variable attr_prefix : str.
Variable compile : attr -> bool.
Hypothesis Hsp : is_space cSP = true.
Hypothesis Hgt : is_space cGT = false.
Hypothesis Heq : is_space cEQ = false.

Notation step := (Scan.step is_space to_lower text_tags attr_prefix compile).
Notation run := (@fold_left sstate rune (Scan.step is_space to_lower text_tags attr_prefix compile)).
Notation else_name := (Scan.else_name attr_prefix).
Notation plain := (PrintScanDefs.plain is_space).
Notation aplain := (PrintScanDefs.aplain is_space).
Notation val_ok := (IdemTagWf.val_ok is_space).
Notation rwf := (IdemTagWf.rwf is_space attr_prefix).
Notation name_ok := (IdemTagWf.name_ok is_space).

Lemma run_app (a b : str) s : run (a ++ b) s = run b (run a s).
Proof. apply fold_left_app. Qed.

Ltac open_step :=
  unfold Scan.step; cbn [s_toks s_pos s_mode dispatch]; unfold tag_step;
  cbn [g_state g_buf g_name g_comment g_cdata set_g g_attrs g_aname g_anstart g_anend
       g_aval g_avstart g_avend g_start].
Ltac gcbn :=
  cbn [g_state g_buf g_name g_comment g_cdata set_g g_attrs g_aname g_anstart g_anend
       g_aval g_avstart g_avend g_start a_name a_value a_nstart a_nend a_vstart a_vend].

(* accepted by the compiler wherever it stands *)
Definition cc (an : str) (v : str) : Prop := forall ns ne vs ve, compile (mkAttr an ns ne (Some v) vs ve) = true.

(* ---------- two more one-rune transitions ---------- *)
(* '=' right after blanks: an attribute with an empty name *)
Lemma tspace_eq toks p (buf : str) gs attrs (name cm cd an : str) ans ane (av : str) avs ave :
  step (mkS toks p (MTag (mkTag TSpace buf gs attrs name cm cd an ans ane av avs ave))) cEQ =
  mkS toks (adv p cEQ) (MTag (mkTag TAttrValue (buf ++ [cEQ]) gs attrs name cm cd [] p ane [] (adv p cEQ) ave)).
Proof.
  open_step. replace (N.eqb cEQ cGT) with false by reflexivity. rewrite Heq.
  cbn [dispatch]. unfold tag_step. gcbn. rewrite Heq.
  replace (N.eqb cEQ cGT) with false by reflexivity. replace (N.eqb cEQ cEQ) with true by reflexivity. reflexivity.
Qed.

(* '>' right after '=' : the empty value *)
Lemma aval_e_gt toks p (buf : str) gs attrs (name cm cd an : str) ans ane avs ave :
  compile (mkAttr (trim_sp an) ans ane (Some []) avs avs) = true ->
  has_attr (trim_sp an) attrs = false ->
  step (mkS toks p (MTag (mkTag TAttrValue buf gs attrs name cm cd an ans ane [] avs ave))) cGT =
  mkS (mkTok KTag (buf ++ [cGT]) gs (adv p cGT) name
         (rev (mkAttr (trim_sp an) ans ane (Some []) avs avs :: attrs)) :: toks) (adv p cGT) MInit.
Proof.
  intros Hc Hd. open_step. rewrite Hgt. replace (N.eqb cGT cGT) with true by reflexivity.
  rewrite (add_attr_some attr_prefix compile) by (gcbn; assumption). reflexivity.
Qed.

(* ---------- state descriptions (position-free) ---------- *)
Lemma shapes_has (attrs : list attr) (done : list ash) (an : str) :
  map ashape (rev attrs) = done -> ~ In an (map fst done) -> has_attr an attrs = false.
Proof.
  intros Hs Hn. unfold has_attr. destruct (existsb _ attrs) eqn:E; [|reflexivity]. exfalso.
  apply existsb_exists in E as (a & Ha & He). apply str_eqb_eq in He. apply Hn. subst done.
  rewrite map_map. apply in_map_iff. exists a. split; [exact He|]. apply in_rev in Ha. exact Ha.
Qed.

Lemma shapes_snoc (a : attr) attrs (done : list ash) (an : str) v :
  map ashape (rev attrs) = done -> a_name a = an -> a_value a = v ->
  map ashape (rev (a :: attrs)) = done ++ [(an, v)].
Proof. intros H Hn Hv. cbn [rev]. rewrite map_app, H. cbn [map]. unfold ashape. rewrite Hn, Hv. reflexivity. Qed.

(* after the tag name or after a printed attribute; the boolean tells that a value-less attribute is pending *)
Inductive bnd (n : str) : list ash -> bool -> tagst -> Prop :=
| BName buf gs cm cd an ans ane av avs ave :
    bnd n [] false (mkTag TName buf gs [] n cm cd an ans ane av avs ave)
| BPend done buf gs attrs cm cd an ans ane av avs ave :
    map ashape (rev attrs) = done -> forallb aplain an = true ->
    str_eqb an else_name = false -> has_attr an attrs = false ->
    bnd n (done ++ [(an, None)]) true (mkTag TAttrName buf gs attrs n cm cd an ans ane av avs ave)
| BSpace done buf gs attrs cm cd an ans ane av avs ave :
    map ashape (rev attrs) = done ->
    bnd n done false (mkTag TSpace buf gs attrs n cm cd an ans ane av avs ave)
| BVal done buf gs attrs cm cd an ans ane f t avs ave :
    map ashape (rev attrs) = done -> is_quote f = false -> forallb aplain an = true ->
    cc an (f :: t) -> has_attr an attrs = false ->
    bnd n (done ++ [(an, Some (f :: t))]) false (mkTag TAttrValue buf gs attrs n cm cd an ans ane (f :: t) avs ave).

(* inside an attribute name / value, everything in [done] committed *)
Inductive anm (n : str) (done : list ash) (acc : str) : tagst -> Prop :=
| ANm buf gs attrs cm cd ans ane av avs ave :
    map ashape (rev attrs) = done ->
    anm n done acc (mkTag TAttrName buf gs attrs n cm cd acc ans ane av avs ave).
Inductive avl (n : str) (done : list ash) (an v : str) : tagst -> Prop :=
| AVl buf gs attrs cm cd ans ane avs ave :
    map ashape (rev attrs) = done ->
    avl n done an v (mkTag TAttrValue buf gs attrs n cm cd an ans ane v avs ave).

Lemma aplain_inv r : aplain r = true -> is_space r = false /\ N.eqb r cGT = false /\ N.eqb r cEQ = false.
Proof.
  unfold PrintScanDefs.aplain, PrintScanDefs.plain. intros H. apply andb_true_iff in H as [H1 H2].
  apply andb_true_iff in H1 as [H1 H3]. apply negb_true_iff in H1, H2, H3. repeat split; assumption.
Qed.
Lemma plain_inv r : plain r = true -> is_space r = false /\ N.eqb r cGT = false.
Proof.
  unfold PrintScanDefs.plain. intros H. apply andb_true_iff in H as [H1 H2].
  apply negb_true_iff in H1, H2. split; assumption.
Qed.

(* ---------- tag name ---------- *)
Lemma name_loop : forall (rest acc : str) toks p buf gs attrs cm cd an ans ane av avs ave,
  forallb plain rest = true ->
  prefixb sBANGDD (acc ++ rest) = false -> prefixb sCDATA (acc ++ rest) = false ->
  exists p' buf',
    run rest (mkS toks p (MTag (mkTag TName buf gs attrs acc cm cd an ans ane av avs ave))) =
    mkS toks p' (MTag (mkTag TName buf' gs attrs (acc ++ rest) cm cd an ans ane av avs ave)).
Proof.
  induction rest as [|r rest IH]; intros acc toks p buf gs attrs cm cd an ans ane av avs ave Hp H1 H2.
  - exists p, buf. rewrite app_nil_r. reflexivity.
  - cbn [forallb] in Hp. apply andb_true_iff in Hp as [Hr Hp]. apply plain_inv in Hr as [Hr1 Hr2].
    cbn [fold_left]. rewrite tname_char by assumption.
    change (r :: rest) with ([r] ++ rest) in H1, H2. rewrite app_assoc in H1, H2.
    rewrite (str_eqb_neq (acc ++ [r]) sBANGDD).
    2:{ intros E. rewrite E, prefixb_app in H1. discriminate. }
    rewrite (str_eqb_neq (acc ++ [r]) sCDATA).
    2:{ intros E. rewrite E, prefixb_app in H2. discriminate. }
    destruct (IH (acc ++ [r]) toks (adv p r) (buf ++ [r]) gs attrs cm cd an ans ane av avs ave Hp H1 H2) as (p' & buf' & E).
    rewrite E. exists p', buf'. rewrite <- app_assoc. reflexivity.
Qed.

(* ---------- closing '>' ---------- *)
Lemma tag_close n done pn g toks p :
  bnd n done pn g ->
  exists tok, step (mkS toks p (MTag g)) cGT = mkS (tok :: toks) (adv p cGT) MInit /\
              t_kind tok = KTag /\ t_name tok = n /\ map ashape (t_attrs tok) = done.
Proof.
  intros B. destruct B as [buf gs cm cd an ans ane av avs ave
                          |done buf gs attrs cm cd an ans ane av avs ave Hs Hpl Hel Hd
                          |done buf gs attrs cm cd an ans ane av avs ave Hs
                          |done buf gs attrs cm cd an ans ane f t avs ave Hs Hq Hpl Hc Hd].
  - rewrite tname_gt. eexists. split; [reflexivity|]. repeat split.
  - destruct (aplain_nosp is_space Hsp an Hpl) as [_ Ht].
    rewrite aname_gt; [|exact Hgt|rewrite Ht; exact Hel|rewrite Ht; exact Hd].
    eexists. split; [reflexivity|]. cbn [t_kind t_name t_attrs]. split; [reflexivity|]. split; [reflexivity|].
    apply shapes_snoc; [exact Hs|exact Ht|reflexivity].
  - rewrite tspace_gt. eexists. split; [reflexivity|]. cbn [t_kind t_name t_attrs]. auto.
  - destruct (aplain_nosp is_space Hsp an Hpl) as [_ Ht].
    rewrite aval_u_gt; [|exact Hq|rewrite Ht; apply Hc|rewrite Ht; exact Hd].
    eexists. split; [reflexivity|]. cbn [t_kind t_name t_attrs]. split; [reflexivity|]. split; [reflexivity|].
    apply shapes_snoc; [exact Hs|exact Ht|reflexivity].
Qed.

(* ---------- the blank before an attribute ---------- *)
(* after the blank: either between attributes, or a value-less name followed by its blank marker *)
Inductive blk (n : str) : list ash -> bool -> tagst -> Prop :=
| KSpace done buf gs attrs cm cd an ans ane av avs ave :
    map ashape (rev attrs) = done ->
    blk n done false (mkTag TSpace buf gs attrs n cm cd an ans ane av avs ave)
| KPend done buf gs attrs cm cd an ans ane av avs ave :
    map ashape (rev attrs) = done -> forallb aplain an = true ->
    str_eqb an else_name = false -> has_attr an attrs = false ->
    blk n (done ++ [(an, None)]) true (mkTag TAttrName buf gs attrs n cm cd (an ++ [cSP]) ans ane av avs ave).

Lemma tag_blank n done pn g toks p :
  bnd n done pn g ->
  exists g', step (mkS toks p (MTag g)) cSP = mkS toks (adv p cSP) (MTag g') /\ blk n done pn g'.
Proof.
  intros B. destruct B as [buf gs cm cd an ans ane av avs ave
                          |done buf gs attrs cm cd an ans ane av avs ave Hs Hpl Hel Hd
                          |done buf gs attrs cm cd an ans ane av avs ave Hs
                          |done buf gs attrs cm cd an ans ane f t avs ave Hs Hq Hpl Hc Hd].
  - rewrite tname_sp by exact Hsp. eexists. split; [reflexivity|]. apply KSpace. reflexivity.
  - destruct (aplain_nosp is_space Hsp an Hpl) as [He _].
    rewrite aname_sp; [|exact Hsp|exact He]. eexists. split; [reflexivity|]. apply KPend; assumption.
  - rewrite tspace_sp by exact Hsp. eexists. split; [reflexivity|]. apply KSpace. exact Hs.
  - destruct (aplain_nosp is_space Hsp an Hpl) as [_ Ht].
    rewrite aval_u_sp; [|exact Hq|exact Hsp|rewrite Ht; apply Hc|rewrite Ht; exact Hd].
    eexists. split; [reflexivity|]. apply KSpace. apply shapes_snoc; [exact Hs|exact Ht|reflexivity].
Qed.

(* ---------- first rune of an attribute name ---------- *)
Lemma tag_first n done pn g toks p r :
  blk n done pn g -> aplain r = true ->
  exists g', step (mkS toks p (MTag g)) r = mkS toks (adv p r) (MTag g') /\ anm n done [r] g'.
Proof.
  intros B Hr. apply aplain_inv in Hr as (Hr1 & Hr2 & Hr3).
  destruct B as [done buf gs attrs cm cd an ans ane av avs ave Hs
                |done buf gs attrs cm cd an ans ane av avs ave Hs Hpl Hel Hd].
  - rewrite tspace_char by assumption. eexists. split; [reflexivity|]. apply ANm. exact Hs.
  - destruct (trim_snoc_sp an) as [He Ht].
    rewrite aname_commit_char; try assumption.
    + eexists. split; [reflexivity|]. apply ANm. apply shapes_snoc; [exact Hs|exact Ht|reflexivity].
    + rewrite Ht. exact Hel.
    + rewrite Ht. exact Hd.
Qed.

Lemma aname_loop n done : forall (rest acc : str) g toks p,
  anm n done acc g -> forallb aplain acc = true -> forallb aplain rest = true ->
  exists g' p', run rest (mkS toks p (MTag g)) = mkS toks p' (MTag g') /\ anm n done (acc ++ rest) g'.
Proof.
  induction rest as [|r rest IH]; intros acc g toks p A Ha Hr.
  - exists g, p. rewrite app_nil_r. split; [reflexivity|exact A].
  - cbn [forallb] in Hr. apply andb_true_iff in Hr as [Hr1 Hr].
    pose proof (aplain_inv _ Hr1) as (Hr2 & Hr3 & Hr4).
    destruct A as [buf gs attrs cm cd ans ane av avs ave Hs].
    cbn [fold_left]. rewrite aname_char; try assumption; [|exact (proj1 (aplain_nosp is_space Hsp acc Ha))].
    edestruct (IH (acc ++ [r])) as (g' & p' & E & A').
    + apply ANm. exact Hs.
    + apply forallb_snoc; assumption.
    + exact Hr.
    + exists g', p'. split; [exact E|]. rewrite <- app_assoc in A'. exact A'.
Qed.

(* blank and a non-empty name *)
Lemma tag_name n done pn g toks p (an : str) :
  bnd n done pn g -> an <> [] -> forallb aplain an = true ->
  exists g' p', run (cSP :: an) (mkS toks p (MTag g)) = mkS toks p' (MTag g') /\ anm n done an g'.
Proof.
  intros B Hne Hpl. destruct an as [|r rest]; [contradiction|].
  cbn [forallb] in Hpl. apply andb_true_iff in Hpl as [Hr Hrest].
  destruct (tag_blank n done pn g toks p B) as (g1 & E1 & K1).
  destruct (tag_first n done pn g1 toks (adv p cSP) r K1 Hr) as (g2 & E2 & A2).
  destruct (aname_loop n done rest [r] g2 toks (adv (adv p cSP) r) A2) as (g3 & p3 & E3 & A3);
    [cbn [forallb]; rewrite Hr; reflexivity|exact Hrest|].
  exists g3, p3. split; [|exact A3]. cbn [fold_left]. rewrite E1, E2. exact E3.
Qed.

(* blank, name (possibly empty), '=' *)
Lemma tag_name_eq n done pn g toks p (an : str) :
  bnd n done pn g -> forallb aplain an = true -> (an = [] -> pn = false) ->
  exists g' p', run (cSP :: an ++ [cEQ]) (mkS toks p (MTag g)) = mkS toks p' (MTag g') /\ avl n done an [] g'.
Proof.
  intros B Hpl Hem. destruct an as [|r rest].
  - specialize (Hem eq_refl). subst pn.
    destruct (tag_blank n done false g toks p B) as (g1 & E1 & K1).
    cbn [app fold_left]. rewrite E1.
    inversion K1 as [done' buf gs attrs cm cd an ans ane av avs ave Hs|]; subst.
    rewrite tspace_eq. eexists _, _. split; [reflexivity|]. apply AVl. reflexivity.
  - destruct (tag_name n done pn g toks p (r :: rest) B) as (g1 & p1 & E1 & A1); [discriminate|exact Hpl|].
    change (cSP :: (r :: rest) ++ [cEQ]) with ((cSP :: r :: rest) ++ [cEQ]). rewrite run_app, E1.
    destruct A1 as [buf gs attrs cm cd ans ane av avs ave Hs]. cbn [fold_left].
    rewrite aname_eq by exact Heq. eexists _, _. split; [reflexivity|]. apply AVl. exact Hs.
Qed.

(* ---------- value bodies ---------- *)
Lemma q_loop n done an f : is_quote f = true -> forall (body acc : str) g toks p,
  avl n done an (f :: acc) g -> forallb (fun c => negb (N.eqb c f)) body = true ->
  exists g' p', run body (mkS toks p (MTag g)) = mkS toks p' (MTag g') /\ avl n done an (f :: acc ++ body) g'.
Proof.
  intros Hq. induction body as [|r body IH]; intros acc g toks p A Hb.
  - exists g, p. rewrite app_nil_r. split; [reflexivity|exact A].
  - cbn [forallb] in Hb. apply andb_true_iff in Hb as [Hr Hb]. apply negb_true_iff in Hr. rewrite N.eqb_sym in Hr.
    destruct A as [buf gs attrs cm cd ans ane avs ave Hs].
    cbn [fold_left]. rewrite aval_q_char by assumption.
    edestruct (IH (acc ++ [r])) as (g' & p' & E & A').
    + apply AVl. exact Hs.
    + exact Hb.
    + exists g', p'. split; [exact E|]. rewrite <- app_assoc in A'. exact A'.
Qed.

Lemma u_loop n done an f : is_quote f = false -> forall (body acc : str) g toks p,
  avl n done an (f :: acc) g -> forallb plain body = true ->
  exists g' p', run body (mkS toks p (MTag g)) = mkS toks p' (MTag g') /\ avl n done an (f :: acc ++ body) g'.
Proof.
  intros Hq. induction body as [|r body IH]; intros acc g toks p A Hb.
  - exists g, p. rewrite app_nil_r. split; [reflexivity|exact A].
  - cbn [forallb] in Hb. apply andb_true_iff in Hb as [Hr Hb]. apply plain_inv in Hr as [Hr1 Hr2].
    destruct A as [buf gs attrs cm cd ans ane avs ave Hs].
    cbn [fold_left]. rewrite aval_u_char by assumption.
    edestruct (IH (acc ++ [r])) as (g' & p' & E & A').
    + apply AVl. exact Hs.
    + exact Hb.
    + exists g', p'. split; [exact E|]. rewrite <- app_assoc in A'. exact A'.
Qed.

Lemma forallb_rev_true {A} (f : A -> bool) l : forallb f l = true -> forallb f (rev l) = true.
Proof. rewrite !forallb_forall. intros H x Hx. apply H. apply in_rev. exact Hx. Qed.

(* ---------- one printed attribute with a value-less name or a non-empty value ---------- *)
Lemma tag_attr n done pn g toks p (an : str) v :
  bnd n done pn g -> forallb aplain an = true ->
  (an = [] -> v <> None /\ pn = false) ->
  (v = None -> str_eqb an else_name = false) -> v <> Some [] -> val_ok v ->
  (forall v0, v = Some v0 -> cc an v0) -> ~ In an (map fst done) ->
  exists g' p', run (pa (an, v)) (mkS toks p (MTag g)) = mkS toks p' (MTag g') /\
                bnd n (done ++ [(an, v)]) (head_none [(an, v)]) g'.
Proof.
  intros B Hpl Hem Hel Hv0 Hvok Hcc Hnd.
  destruct v as [v|].
  - destruct v as [|f t]; [contradiction Hv0; reflexivity|].
    destruct Hvok as [Hf Hvok]. apply plain_inv in Hf as [Hf1 Hf2]. specialize (Hcc _ eq_refl).
    destruct (tag_name_eq n done pn g toks p an B Hpl) as (g1 & p1 & E1 & A1);
      [intros H; exact (proj2 (Hem H))|].
    destruct A1 as [buf gs attrs cm cd ans ane avs ave Hs].
    assert (Hd : has_attr an attrs = false) by (apply (shapes_has attrs done); assumption).
    destruct (aplain_nosp is_space Hsp an Hpl) as [_ Ht].
    cbn [value_okb] in Hvok. cbn [head_none].
    destruct (is_quote f) eqn:Hq.
    + destruct (rev t) as [|l m] eqn:Et; [discriminate|].
      apply andb_true_iff in Hvok as [Hl Hm]. apply N.eqb_eq in Hl. subst l.
      assert (t = rev m ++ [f]) as ->.
      { rewrite <- (rev_involutive t), Et. reflexivity. }
      edestruct (q_loop n done an f Hq (rev m) [] (mkTag TAttrValue (buf ++ [f]) gs attrs n cm cd an ans ane [f] avs (adv p1 f)) toks (adv p1 f)) as (g4 & p4 & E4 & A4).
      * apply AVl. exact Hs.
      * apply forallb_rev_true. exact Hm.
      * cbn [app] in A4.
        destruct A4 as [buf4 gs4 attrs4 cm4 cd4 ans4 ane4 avs4 ave4 Hs4].
        eexists _, _. split.
        -- cbn [pa].
           replace (cSP :: an ++ cEQ :: f :: rev m ++ [f]) with ((cSP :: an ++ [cEQ]) ++ [f] ++ rev m ++ [f])
             by (cbn [app]; rewrite <- app_assoc; reflexivity).
           rewrite run_app, E1. rewrite run_app. cbn [fold_left].
           rewrite aval_first by assumption.
           rewrite run_app, E4. cbn [fold_left].
           rewrite aval_q_end; [reflexivity|exact Hq|rewrite Ht; apply Hcc|].
           rewrite Ht. apply (shapes_has attrs4 done); assumption.
        -- apply BSpace. apply shapes_snoc; [exact Hs4|exact Ht|reflexivity].
    + cbn [forallb] in Hvok. apply andb_true_iff in Hvok as [_ Hvt].
      edestruct (u_loop n done an f Hq t [] (mkTag TAttrValue (buf ++ [f]) gs attrs n cm cd an ans ane [f] avs (adv p1 f)) toks (adv p1 f)) as (g4 & p4 & E4 & A4).
      * apply AVl. exact Hs.
      * exact Hvt.
      * cbn [app] in A4.
        destruct A4 as [buf4 gs4 attrs4 cm4 cd4 ans4 ane4 avs4 ave4 Hs4].
        eexists _, _. split.
        -- cbn [pa].
           replace (cSP :: an ++ cEQ :: f :: t) with ((cSP :: an ++ [cEQ]) ++ [f] ++ t)
             by (cbn [app]; rewrite <- app_assoc; reflexivity).
           rewrite run_app, E1. rewrite run_app. cbn [fold_left].
           rewrite aval_first by assumption. exact E4.
        -- apply BVal; try assumption. apply (shapes_has attrs4 done); assumption.
  - assert (Hne : an <> []) by (intros H; destruct (Hem H) as [H' _]; contradiction H'; reflexivity).
    destruct (tag_name n done pn g toks p an B Hne Hpl) as (g1 & p1 & E1 & A1).
    destruct A1 as [buf gs attrs cm cd ans ane av avs ave Hs].
    eexists _, _. split; [exact E1|]. cbn [head_none].
    apply BPend; [exact Hs|exact Hpl|exact (Hel eq_refl)|apply (shapes_has attrs done); assumption].
Qed.

(* ---------- all attributes, none with an empty value ---------- *)
Definition ccl (l : list ash) : Prop := forall an v, In (an, Some v) l -> cc an v.

Lemma tag_attrs n toks : forall (l : list ash) g0 p0,
  bnd n [] false g0 -> rwf l -> Forall nonempty_val l -> ccl l ->
  exists g p, run (concat (map pa (rev l))) (mkS toks p0 (MTag g0)) = mkS toks p (MTag g) /\
              bnd n (rev l) (head_none l) g.
Proof.
  induction l as [|[an v] l IH]; intros g0 p0 B0 Hw Hne Hc.
  - exists g0, p0. split; [reflexivity|exact B0].
  - cbn [IdemTagWf.rwf] in Hw. destruct Hw as (Hnd & Hpl & Hem & Hel & Hvok & Hne' & Hw).
    destruct (IH g0 p0 B0 Hw Hne') as (g1 & p1 & E1 & B1).
    { intros an' v' Hi. apply Hc. right. exact Hi. }
    destruct (tag_attr n (rev l) (head_none l) g1 toks p1 an v B1 Hpl) as (g2 & p2 & E2 & B2).
    + intros H. destruct (Hem H) as [H1 H2]. split; [exact H1|apply not_none_head; exact H2].
    + exact Hel.
    + inversion Hne as [|x y Hx _]; subst. exact Hx.
    + exact Hvok.
    + intros v0 ->. apply Hc. left. reflexivity.
    + rewrite map_rev. intros Hi. apply in_rev in Hi. exact (Hnd Hi).
    + exists g2, p2. cbn [rev]. rewrite map_app, concat_app, run_app, E1. cbn [map concat]. rewrite app_nil_r.
      split; [exact E2|]. destruct v; exact B2.
Qed.

(* ---------- the whole tag ---------- *)
Theorem reprint_scan toks p p0 (n : str) (l : list ash) :
  name_ok n -> rwf (rev l) -> ccl l ->
  exists p' tok,
    run (n ++ concat (map pa l) ++ [cGT]) (mkS toks p (MTag (new_tag p0))) = mkS (tok :: toks) p' MInit /\
    t_kind tok = KTag /\ t_name tok = n /\ map ashape (t_attrs tok) = l.
Proof.
  intros (W1 & W2 & W3) Hw Hc.
  destruct (name_loop n [] toks p [cLT] p0 [] [] [] [] (0,0) (0,0) [] (0,0) (0,0) W1 W2 W3) as (p1 & buf1 & E1).
  cbn [app] in E1.
  pose proof (BName n buf1 p0 [] [] [] (0,0) (0,0) [] (0,0) (0,0)) as B0.
  assert (Hc' : forall l', (forall x, In x l' -> In x l) -> ccl l').
  { intros l' Hsub an v Hi. apply Hc. apply Hsub. exact Hi. }
  rewrite run_app. unfold new_tag. rewrite E1, run_app.
  destruct (rev l) as [|[an v] r] eqn:Er.
  - assert (l = []) as -> by (rewrite <- (rev_involutive l), Er; reflexivity).
    cbn [map concat fold_left].
    destruct (tag_close n [] false _ toks p1 B0) as (tok & E3 & H3). cbn [fold_left]. rewrite E3. eauto.
  - assert (El : l = rev r ++ [(an, v)]) by (rewrite <- (rev_involutive l), Er; reflexivity).
    cbn [IdemTagWf.rwf] in Hw. destruct Hw as (Hnd & Hpl & Hem & Hel & Hvok & Hne' & Hw).
    destruct (tag_attrs n toks r _ p1 B0 Hw Hne') as (g1 & p2 & E2 & B1).
    { apply Hc'. intros x Hx. rewrite El. apply in_or_app. left. apply in_rev in Hx. exact Hx. }
    assert (Hnd' : ~ In an (map fst (rev r))).
    { rewrite map_rev. intros Hi. apply in_rev in Hi. exact (Hnd Hi). }
    assert (Hsome : forall v0, v = Some v0 -> cc an v0).
    { intros v0 ->. apply Hc. rewrite El. apply in_or_app. right. left. reflexivity. }
    destruct v as [[|f t]|] eqn:Ev.
    + (* the empty last value *)
      destruct (tag_name_eq n (rev r) (head_none r) g1 toks p2 an B1 Hpl) as (g2 & p3 & E3 & A3).
      { intros H. apply not_none_head. exact (proj2 (Hem H)). }
      destruct A3 as [buf gs attrs cm cd ans ane avs ave Hs].
      destruct (aplain_nosp is_space Hsp an Hpl) as [_ Ht].
      rewrite El, map_app, concat_app, run_app, E2. cbn [map concat pa]. rewrite app_nil_r.
      unfold ash, str, rune in *. rewrite E3. cbn [fold_left].
      rewrite aval_e_gt; [|rewrite Ht; apply (Hsome [] eq_refl)|rewrite Ht; apply (shapes_has attrs (rev r)); assumption].
      eexists _, _. split; [reflexivity|]. cbn [t_kind t_name t_attrs]. split; [reflexivity|]. split; [reflexivity|].
      apply shapes_snoc; [exact Hs|exact Ht|reflexivity].
    + destruct (tag_attr n (rev r) (head_none r) g1 toks p2 an (Some (f :: t)) B1 Hpl) as (g2 & p3 & E3 & B2);
        try assumption; try discriminate.
      { intros H. destruct (Hem H) as [H1 H2]. split; [exact H1|apply not_none_head; exact H2]. }
      rewrite El, map_app, concat_app, run_app, E2. cbn [map concat]. rewrite app_nil_r.
      unfold ash, str, rune in *. rewrite E3.
      destruct (tag_close n _ _ g2 toks p3 B2) as (tok & E4 & H4). cbn [fold_left]. rewrite E4. eauto.
    + destruct (tag_attr n (rev r) (head_none r) g1 toks p2 an None B1 Hpl) as (g2 & p3 & E3 & B2);
        try assumption; try discriminate.
      { intros H. destruct (Hem H) as [H1 H2]. split; [exact H1|apply not_none_head; exact H2]. }
      rewrite El, map_app, concat_app, run_app, E2. cbn [map concat]. rewrite app_nil_r.
      unfold ash, str, rune in *. rewrite E3.
      destruct (tag_close n _ _ g2 toks p3 B2) as (tok & E4 & H4). cbn [fold_left]. rewrite E4. eauto.
Qed.

(* in terms of a token *)
Definition ccond (t : token) : Prop :=
  forall a v, In a (t_attrs t) -> a_value a = Some v ->
  forall a', a_name a' = a_name a -> a_value a' = Some v -> compile a' = true.

Theorem reprint_tag toks p p0 (t : token) :
  twf is_space attr_prefix compile t -> ccond t ->
  exists p' tok,
    run (tl (print_tag t)) (mkS toks p (MTag (new_tag p0))) = mkS (tok :: toks) p' MInit /\
    t_kind tok = KTag /\ t_name tok = t_name t /\ map ashape (t_attrs tok) = map ashape (t_attrs t).
Proof.
  intros (Hn & Hw & _) Hc. unfold print_tag. cbn [app tl]. rewrite pattrs_pa.
  apply reprint_scan; [exact Hn|rewrite <- map_rev; exact Hw|].
  intros an v Hi. apply in_map_iff in Hi as (a & Ha & Hi). unfold ashape in Ha. injection Ha as Hn' Hv'.
  intros ns ne vs ve. apply (Hc a v Hi Hv'); cbn [a_name a_value]; [symmetry; exact Hn'|reflexivity].
Qed.

End P.

(* (c) the per-token re-scan lemma *)
Check (reprint_tag : forall (is_space : rune -> bool) (to_lower : rune -> rune) (text_tags : list str) (attr_prefix : str)
    (compile : attr -> bool),
  is_space cSP = true -> is_space cGT = false -> is_space cEQ = false ->
  forall (toks : list token) (p p0 : pos) (t : token),
  twf is_space attr_prefix compile t -> ccond compile t ->
  exists p' tok,
    fold_left (Scan.step is_space to_lower text_tags attr_prefix compile) (tl (print_tag t)) (mkS toks p (MTag (new_tag p0))) =
    mkS (tok :: toks) p' MInit /\
    t_kind tok = KTag /\ t_name tok = t_name t /\ map ashape (t_attrs tok) = map ashape (t_attrs t)).
Print Assumptions reprint_tag.
