(* Experiment for C03 with `with` bindings on chain elements: which user functions are called?
   Chain (prefix ":"):
     <p :with="a := ${f1()}" :if="${c1(a)}"      :title="${t1(a)}">A</p>
     <p :with="b := ${f2()}" :else-if="${c2(b)}" :title="${t2(b)}">B</p>
     <p :with="c := ${f3()}" :else="${c3(c)}"    :title="${t3(c)}">C</p>
   Function ids: f_i = i, c_i = 10+i, t_i = 20+i.  Every call is recorded in the log (most recent
   first).  f_i returns the value [fv i]; c_i returns [cv i]; t_i returns its argument. *)
From Coq Require Import List NArith ZArith Bool Lia.
From Tpl Require Import Html.Exec Proofs.ChainProps Proofs.ChainWith.
Import ListNotations.
Open Scope N_scope.

Definition w_space (r : rune) : bool := N.eqb r 32 || N.eqb r 10.
Definition w_lower (r : rune) : rune := r.
Definition w_letter (r : rune) : bool := (97 <=? r) && (r <=? 122).
Definition w_digit (r : rune) : bool := (48 <=? r) && (r <=? 57).
Definition w_methods (_ : N) (_ : bool) : list (str * N) := [].
Definition w_mgr : manager := mkM [116; 58] [58] [] (SData (VMap [])).

Definition q (s : str) : str := [34] ++ s ++ [34].
Definition code (s : str) : str := [36;123] ++ s ++ [125].
Definition p0 : pos := (1, 1).
Definition mk (name v : str) : attr := mkAttr ([58] ++ name) p0 p0 (Some (q v)) p0 p0.
(* names: f1 = "fa", f2 = "fb", f3 = "fc"; c1 = "ca" ...; t1 = "ta" ... ; variables a b c *)
Definition call0 (f : str) : str := code (f ++ [40;41]).
Definition call1 (f x : str) : str := code (f ++ [40] ++ x ++ [41]).
Definition w_with (x f : str) : attr := mk d_with (x ++ [32] ++ s_assign ++ [32] ++ call0 f).
Definition w_elem (id : N) (x f cmd c t : str) (body : rune) : node :=
  Node id (Some (mkTok KTag [] p0 p0 [112] [mk [116;105;116;108;101] (call1 t x); mk cmd (call1 c x); w_with x f]))
       [Node (id + 100) (Some (mkTok KText [body] p0 p0 [] [])) [] None]
       (Some (mkTok KTag [60;47;112;62] p0 p0 [47;112] [])).
Definition e1 := w_elem 1 [97] [102;97] d_if      [99;97] [116;97] 65.
Definition e2 := w_elem 2 [98] [102;98] d_else_if [99;98] [116;98] 66.
Definition e3 := w_elem 3 [99] [102;99] d_else    [99;99] [116;99] 67.
Definition w_ctx := [e1; e2; e3].
Definition w_tp : template := mkT w_ctx w_ctx.
Definition w_data : value := VMap
  [([102;97], VFunc 1 []); ([102;98], VFunc 2 []); ([102;99], VFunc 3 []);
   ([99;97], VFunc 11 []); ([99;98], VFunc 12 []); ([99;99], VFunc 13 []);
   ([116;97], VFunc 21 []); ([116;98], VFunc 22 []); ([116;99], VFunc 23 [])].

Definition w_call (cv : N -> bool) (fail : N) (id : N) (args : list value) : fres :=
  if N.eqb id fail then FErrS 7
  else if id <? 10 then FOk (VStr [120; 48 + id])
  else if id <? 20 then FOk (VBool (cv (id - 10)))
  else match args with [v] => FOk v | _ => FBadArgs end.

Definition w_run (cv : N -> bool) (fail : N) : R :=
  execute w_space w_lower w_letter w_digit w_methods (w_call cv fail) w_mgr 10 w_tp w_data [] (mkR [] None).
Definition summary (x : R) := let '(o, r, t, st) := x in (o, r, t, map fst (rev (r_log st))).

(* ANSWER to "are the with-bindings of later, unselected elements evaluated?": YES.
   first condition true: calls f1 c1 t1 (nested render, f1 NOT called again), then f2 and f3 -- the
   with-bindings of the unselected elements -- but neither c2, c3 (conditions) nor t2, t3 *)
Example exp_first_true : summary (w_run (fun i => N.eqb i 1) 0) =
  ([60;112;32;116;105;116;108;101;61;34;120;49;34;62;65;60;47;112;62],      (* <p title="x1">A</p> *)
   ROk, [(3, true); (2, true); (1, true)], [1; 11; 21; 2; 3]).
Proof. vm_compute. reflexivity. Qed.
(* second condition true: f1 c1 | f2 c2 t2 | f3; title="x2": the re-execution sees b, bound by f2 *)
Example exp_second_true : summary (w_run (fun i => N.eqb i 2) 0) =
  ([60;112;32;116;105;116;108;101;61;34;120;50;34;62;66;60;47;112;62],
   ROk, [(3, true); (2, true); (1, false)], [1; 11; 2; 12; 22; 3]).
Proof. vm_compute. reflexivity. Qed.
(* none true: every with-binding and every condition, nothing rendered *)
Example exp_none_true : summary (w_run (fun _ => false) 0) =
  ([], ROk, [(3, false); (2, false); (1, false)], [1; 11; 2; 12; 3; 13]).
Proof. vm_compute. reflexivity. Qed.
(* first true, the with-binding of the THIRD (unselected) element fails: the render FAILS (after the
   selected element was written) *)
Example exp_later_with_fails : summary (w_run (fun i => N.eqb i 1) 3) =
  ([60;112;32;116;105;116;108;101;61;34;120;49;34;62;65;60;47;112;62],
   RErr (RC (CUser 7)), [(2, true); (1, true)], [1; 11; 21; 2; 3]).
Proof. vm_compute. reflexivity. Qed.
(* first true, the condition of the second would fail if it were evaluated: it is not *)
Example exp_later_cond_not_evaluated : summary (w_run (fun i => N.eqb i 1) 12) = summary (w_run (fun i => N.eqb i 1) 0).
Proof. vm_compute. reflexivity. Qed.

(* ------------------------------------------------------------------------------------------ *)
(* chainw_first_true instantiated on a concrete chain (elements with exactly :with + condition) *)
(* ------------------------------------------------------------------------------------------ *)
Definition v_tok (x f cmd c : str) : token := mkTok KTag [] p0 p0 [112] [mk cmd (call1 c x); w_with x f].
Definition v_elem (id : N) (x f cmd c : str) (body : rune) : celemw :=
  mkCW (mkCE (Node id (Some (v_tok x f cmd c)) [Node (id + 100) (Some (mkTok KText [body] p0 p0 [] [])) [] None]
                   (Some (mkTok KTag [60;47;112;62] p0 p0 [47;112] [])))
             (v_tok x f cmd c) (mk cmd (call1 c x)) cmd)
       (Some (w_with x f)).
Definition v1 := v_elem 1 [97] [102;97] d_if      [99;97] 65.
Definition v2 := v_elem 2 [98] [102;98] d_else_if [99;98] 66.
Definition v3 := v_elem 3 [99] [102;99] d_else    [99;99] 67.
Definition v_ctx : list node := [cw_node v1; cw_node v2; cw_node v3].
Definition v_sc : scope := SCombine (SData w_data) (m_global w_mgr).
Definition v_call := w_call (fun i => N.eqb i 2) 0.

Lemma v_ok : forall id x f cmd c body, is_cond_name cmd = true -> cw_ok w_lower w_mgr (v_elem id x f cmd c body).
Proof.
  intros id x f cmd c body Hc. unfold cw_ok, cond_with.
  cbn [v_elem cw_with cw_node cw_tok cw_attr cw_cmd cw_elem ce_node ce_tok ce_attr ce_cmd n_tok].
  split; [reflexivity|]. split; [reflexivity|]. split; [reflexivity|]. split; [reflexivity|].
  split; [exact Hc|]. split; [discriminate|]. split; [|reflexivity].
  right. reflexivity.
Qed.

Example v_chain_in : forall f, chain_inw w_lower w_mgr
  (exec_node w_space w_lower w_letter w_digit w_methods v_call w_mgr f) v_ctx [] v1 [WElem v2; WElem v3] [].
Proof.
  intros f. apply chain_inw_node.
  - reflexivity.
  - cbn. repeat constructor; cbn; intuition discriminate.
  - apply v_ok. reflexivity.
  - reflexivity.
  - constructor; [split; [apply v_ok; reflexivity|discriminate]|].
    constructor; [split; [apply v_ok; reflexivity|discriminate]|]. constructor.
  - intros e [H|[H|[H|[]]]]; inversion H; subst e; cbn; intuition discriminate.
Qed.

(* second element selected: the result predicted BY THE THEOREM (every hypothesis is computed) *)
Example v_by_theorem :
  exec_list (exec_body w_space w_lower w_letter w_digit w_methods v_call w_mgr
               (exec_node w_space w_lower w_letter w_digit w_methods v_call w_mgr 5))
            v_ctx v_ctx v_sc false [] (mkR [] None)
  = ([60;112;62;66;60;47;112;62],                                          (* <p>B</p> *)
     ROk, [(3, true); (2, true); (1, false)],
     mkR [(3, []); (12, [VStr [120;50]]); (2, []); (11, [VStr [120;49]]); (1, [])] None).
Proof.
  etransitivity.
  - eapply (chainw_first_true w_space w_lower w_letter w_digit w_methods v_call w_mgr _ v_ctx [] v1 [WElem v2; WElem v3] []
              v_sc [] (mkR [] None) [WElem v1] v2 [WElem v3]).
    + apply v_chain_in.
    + reflexivity.
    + vm_compute. reflexivity.
    + vm_compute. reflexivity.
    + vm_compute. reflexivity.
    + reflexivity.
    + vm_compute. reflexivity.
    + vm_compute. reflexivity.
  - vm_compute. reflexivity.
Qed.
(* ... and the same equation computed directly *)
Example v_direct :
  exec_list (exec_body w_space w_lower w_letter w_digit w_methods v_call w_mgr
               (exec_node w_space w_lower w_letter w_digit w_methods v_call w_mgr 5))
            v_ctx v_ctx v_sc false [] (mkR [] None)
  = ([60;112;62;66;60;47;112;62], ROk, [(3, true); (2, true); (1, false)],
     mkR [(3, []); (12, [VStr [120;50]]); (2, []); (11, [VStr [120;49]]); (1, [])] None).
Proof. vm_compute. reflexivity. Qed.
Print Assumptions v_by_theorem.
