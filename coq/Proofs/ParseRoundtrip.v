(* Round trip print -> parse for the expression parser model (Exp/Parse.v):
   for every well-formed AST e, parsing the tokens of e (with enough fuel) gives back e. *)
From Tpl Require Import Proofs.ParseSpec.
From Coq Require Import Arith Lia.
Local Open Scope nat_scope.

(* ------------------------------------------------------------------------------------------ *)
(* Well-formedness: every operand whose level is below what its position requires is an EParen *)

Fixpoint wf (e : expr) : Prop :=
  match e with
  | ELit _ _ _ _ => True
  | EName _ _ _ => True
  | EParen a => wf a
  | EUnary _ a _ _ => wf a /\ 7 <= level a
  | EBin b x y _ _ => wf x /\ wf y /\ blevel b <= level x /\ blevel b < level y
  | ECond c x y => wf c /\ wf x /\ wf y /\ 2 <= level y
  | EField a _ _ => wf a /\ level a = 8
  | EIndex a i => wf a /\ level a = 8 /\ wf i
  | ESlice a lo hi =>
    wf a /\ level a = 8 /\
    match lo with Some x => wf x | None => True end /\
    match hi with Some x => wf x | None => True end
  | ESlice3 a lo hi cp =>
    wf a /\ level a = 8 /\
    match lo with Some x => wf x | None => True end /\ wf hi /\ wf cp
  | ECall f args ell cm =>
    wf f /\ level f = 8 /\
    (fix all (l : list expr) : Prop := match l with [] => True | x :: r => wf x /\ all r end) args /\
    (args = [] -> ell = false /\ cm = false)
  end.

(* The variant with the extra requirement "2 <= level c" on the test operand of a conditional.
   The model does not need it (the loop that takes `?` runs with p <= 1, so its accumulated lhs
   may itself be a conditional: the operator is left-associative); wf_strict implies wf. *)
Fixpoint wf_strict (e : expr) : Prop :=
  match e with
  | ELit _ _ _ _ => True
  | EName _ _ _ => True
  | EParen a => wf_strict a
  | EUnary _ a _ _ => wf_strict a /\ 7 <= level a
  | EBin b x y _ _ => wf_strict x /\ wf_strict y /\ blevel b <= level x /\ blevel b < level y
  | ECond c x y => wf_strict c /\ wf_strict x /\ wf_strict y /\ 2 <= level c /\ 2 <= level y
  | EField a _ _ => wf_strict a /\ level a = 8
  | EIndex a i => wf_strict a /\ level a = 8 /\ wf_strict i
  | ESlice a lo hi =>
    wf_strict a /\ level a = 8 /\
    match lo with Some x => wf_strict x | None => True end /\
    match hi with Some x => wf_strict x | None => True end
  | ESlice3 a lo hi cp =>
    wf_strict a /\ level a = 8 /\
    match lo with Some x => wf_strict x | None => True end /\ wf_strict hi /\ wf_strict cp
  | ECall f args ell cm =>
    wf_strict f /\ level f = 8 /\
    (fix all (l : list expr) : Prop := match l with [] => True | x :: r => wf_strict x /\ all r end) args /\
    (args = [] -> ell = false /\ cm = false)
  end.

(* ------------------------------------------------------------------------------------------ *)
(* Induction principle with hypotheses for the nested option / list occurrences *)

Definition optP (P : expr -> Prop) (o : option expr) : Prop :=
  match o with Some x => P x | None => True end.

Lemma expr_ind2 (P : expr -> Prop) :
  (forall k t l c, P (ELit k t l c)) ->
  (forall s l c, P (EName s l c)) ->
  (forall a, P a -> P (EParen a)) ->
  (forall u a l c, P a -> P (EUnary u a l c)) ->
  (forall b x y l c, P x -> P y -> P (EBin b x y l c)) ->
  (forall c x y, P c -> P x -> P y -> P (ECond c x y)) ->
  (forall a s n, P a -> P (EField a s n)) ->
  (forall a i, P a -> P i -> P (EIndex a i)) ->
  (forall a lo hi, P a -> optP P lo -> optP P hi -> P (ESlice a lo hi)) ->
  (forall a lo hi cp, P a -> optP P lo -> P hi -> P cp -> P (ESlice3 a lo hi cp)) ->
  (forall f args ell cm, P f -> Forall P args -> P (ECall f args ell cm)) ->
  forall e, P e.
Proof.
  intros HLit HName HParen HUn HBin HCond HField HIndex HSlice HSlice3 HCall.
  fix IH 1. intros e. destruct e as [k t l c|s l c|a|u a l c|b x y l c|c x y|a s n|a i|a lo hi|a lo hi cp|f args ell cm].
  - apply HLit.
  - apply HName.
  - apply HParen, IH.
  - apply HUn, IH.
  - apply HBin; apply IH.
  - apply HCond; apply IH.
  - apply HField, IH.
  - apply HIndex; apply IH.
  - apply HSlice; [apply IH| |]; [destruct lo as [x|]|destruct hi as [x|]]; cbn [optP]; solve [apply IH | exact I].
  - apply HSlice3; [apply IH| |apply IH|apply IH]; destruct lo as [x|]; cbn [optP]; solve [apply IH | exact I].
  - apply HCall; [apply IH|].
    revert args. fix IHl 1. intros args. destruct args as [|x r]; [constructor|].
    constructor; [apply IH|apply IHl].
Qed.

Definition wf_all (l : list expr) : Prop :=
  (fix all (l : list expr) : Prop := match l with [] => True | x :: r => wf x /\ all r end) l.

Lemma wf_all_Forall l : wf_all l -> Forall wf l.
Proof.
  induction l as [|x r IH]; intros H; [constructor|].
  destruct H as [Hx Hr]. constructor; [exact Hx|apply IH; exact Hr].
Qed.

Lemma wf_strict_wf e : wf_strict e -> wf e.
Proof.
  induction e as [k t l c|s l c|a IHa|u a l c IHa|b x y l c IHx IHy|c x y IHc IHx IHy|a s n IHa|a i IHa IHi
                 |a lo hi IHa IHlo IHhi|a lo hi cp IHa IHlo IHhi IHcp|f args ell cm IHf IHargs] using expr_ind2;
    cbn [wf wf_strict]; intros H.
  - exact I.
  - exact I.
  - auto.
  - destruct H as (H1 & H2). auto.
  - destruct H as (H1 & H2 & H3 & H4). auto.
  - destruct H as (H1 & H2 & H3 & H4 & H5). auto.
  - destruct H as (H1 & H2). auto.
  - destruct H as (H1 & H2 & H3). auto.
  - destruct H as (H1 & H2 & H3 & H4). repeat split; auto.
    + destruct lo; cbn [optP] in IHlo; auto.
    + destruct hi; cbn [optP] in IHhi; auto.
  - destruct H as (H1 & H2 & H3 & H4 & H5). repeat split; auto.
    destruct lo; cbn [optP] in IHlo; auto.
  - destruct H as (H1 & H2 & H3 & H4). split; [auto|]. split; [auto|]. split; [|exact H4].
    clear H4. induction IHargs as [|x r Hx Hr IHr]; [exact I|].
    destruct H3 as [H3 H3']. split; [apply Hx; exact H3|apply IHr; exact H3'].
Qed.

(* ------------------------------------------------------------------------------------------ *)
(* Basic facts about tokens *)

Lemma binop_of_punct b : binop_of (punct_of_binop b) = Some b.
Proof. destruct b; reflexivity. Qed.
Lemma unop_of_punct u : unop_of (punct_of_unop u) = Some u.
Proof. destruct u; reflexivity. Qed.
Lemma lit_of_kind k : lit_of (kind_of_lit k) = Some k.
Proof. destruct k; reflexivity. Qed.
Lemma blevel_range b : 2 <= blevel b <= 6.
Proof. destruct b; cbn; lia. Qed.
Lemma level_range e : 1 <= level e <= 8.
Proof. destruct e; cbn [level]; try lia. pose proof (blevel_range op). lia. Qed.

(* what the loops look at in the remaining input *)
Definition postopen (ts : list etok) : bool :=
  match ts with
  | t :: _ => is_p DOT t || is_p SAFEINDEX t || is_p LBRACK t || is_p LPAREN t
  | [] => false
  end.
Definition oplead (ts : list etok) : nat :=
  match ts with
  | t :: _ =>
    match e_kind t with
    | TP q => match binop_of q with
              | Some b => blevel b
              | None => match q with QUESTION => 1 | _ => 0 end
              end
    | _ => 0
    end
  | [] => 0
  end.
(* 9 = "the postfix loop of a primary would continue" *)
Definition lead (ts : list etok) : nat := if postopen ts then 9 else oplead ts.
Definition stops (p : nat) (ts : list etok) : Prop :=
  match ts with
  | t :: _ =>
    match e_kind t with
    | TP q => match binop_of q with
              | Some b => blevel b < p
              | None => match q with QUESTION => 1 < p | _ => True end
              end
    | _ => True
    end
  | [] => True
  end.
(* tokens that follow a bracketed / argument expression *)
Definition closer (ts : list etok) : bool :=
  match ts with
  | t :: _ => is_p RPAREN t || is_p RBRACK t || is_p COLON t || is_p COMMA t || is_p ELLIPSIS t
  | [] => true
  end.

Lemma lead_stops L ts : lead ts <= L -> stops (S L) ts.
Proof.
  unfold lead, stops, oplead, postopen. destruct ts as [|t ts]; [intros; exact I|].
  unfold is_p. destruct (e_kind t) as [| | |q| | | | | |]; try (intros; exact I).
  destruct q; cbn; lia.
Qed.

Lemma lead_small ts : lead ts <= 8 -> lead ts <= 6.
Proof.
  unfold lead, oplead. destruct (postopen ts); [lia|]. intros _.
  destruct ts as [|t ts]; [lia|]. destruct (e_kind t) as [| | |q| | | | | |]; try lia.
  destruct (binop_of q) as [b|]; [pose proof (blevel_range b); lia|]. destruct q; lia.
Qed.

Lemma lead_binop b l c ts : lead (ptok (punct_of_binop b) l c :: ts) = blevel b.
Proof. destruct b; reflexivity. Qed.

Lemma lead_nopost ts : lead ts <= 8 -> postopen ts = false.
Proof. unfold lead. destruct (postopen ts); [lia|reflexivity]. Qed.

Lemma closer_lead ts : closer ts = true -> lead ts = 0 /\ stops 0 ts.
Proof.
  unfold closer, lead, stops, oplead, postopen. destruct ts as [|t ts]; [intros; split; [reflexivity|exact I]|].
  unfold is_p. destruct (e_kind t) as [| | |q| | | | | |]; try (cbn; discriminate).
  destruct q; cbn; intros H; try discriminate; split; solve [reflexivity | exact I].
Qed.

(* ------------------------------------------------------------------------------------------ *)
(* When the loops stop *)

Lemma loop_stops pe p k lhs ts : stops p ts -> 1 <= k -> loop pe p k lhs ts = Some (lhs, ts).
Proof.
  intros H Hk. destruct k as [|k]; [lia|]. cbn [loop].
  destruct ts as [|t ts']; [reflexivity|]. unfold stops in H.
  destruct (e_kind t) as [| | |q| | | | | |]; try reflexivity.
  destruct (binop_of q) as [b|] eqn:Eb.
  - destruct (Nat.leb_spec p (blevel b)); [lia|reflexivity].
  - destruct q; try reflexivity. unfold cond_level. destruct (Nat.leb_spec p 1); [lia|reflexivity].
Qed.

Lemma postfix_stops pe k e ts : postopen ts = false -> 1 <= k -> postfix pe k e ts = Some (e, ts).
Proof.
  intros H Hk. destruct k as [|k]; [lia|]. cbn [postfix].
  destruct ts as [|t ts']; [reflexivity|]. unfold postopen in H.
  apply orb_false_elim in H. destruct H as [H H4].
  apply orb_false_elim in H. destruct H as [H H3].
  apply orb_false_elim in H. destruct H as [H1 H2].
  rewrite H1, H2, H3, H4. reflexivity.
Qed.

(* ------------------------------------------------------------------------------------------ *)
(* print, equation by equation *)

Definition popt (o : option expr) : list etok := match o with Some x => print x | None => [] end.
Definition print_args : list expr -> list etok :=
  fix go (l : list expr) : list etok :=
    match l with
    | [] => []
    | [x] => print x
    | x :: r => print x ++ ptok COMMA 0 0 :: go r
    end.
Definition call_tail (ell cm : bool) (rest : list etok) : list etok :=
  (if ell then [ptok ELLIPSIS 0 0] else []) ++ (if cm then [ptok COMMA 0 0] else []) ++ ptok RPAREN 0 0 :: rest.

Lemma print_args_cons2 x y r : print_args (x :: y :: r) = print x ++ ptok COMMA 0 0 :: print_args (y :: r).
Proof. reflexivity. Qed.
Lemma print_args_one x : print_args [x] = print x.
Proof. reflexivity. Qed.

Ltac norm := repeat first [rewrite <- app_assoc | progress cbn [app]].

Lemma print_paren_app a rest : print (EParen a) ++ rest = ptok LPAREN 0 0 :: print a ++ ptok RPAREN 0 0 :: rest.
Proof. cbn [print]. norm. reflexivity. Qed.
Lemma print_unary_app u a l c rest : print (EUnary u a l c) ++ rest = ptok (punct_of_unop u) l c :: print a ++ rest.
Proof. reflexivity. Qed.
Lemma print_bin_app b x y l c rest :
  print (EBin b x y l c) ++ rest = print x ++ ptok (punct_of_binop b) l c :: print y ++ rest.
Proof. cbn [print]. norm. reflexivity. Qed.
Lemma print_cond_app c x y rest :
  print (ECond c x y) ++ rest = print c ++ ptok QUESTION 0 0 :: print x ++ ptok COLON 0 0 :: print y ++ rest.
Proof. cbn [print]. norm. reflexivity. Qed.
Lemma print_field_app a safe n rest :
  print (EField a safe n) ++ rest = print a ++ ptok (if safe then SAFEINDEX else DOT) 0 0 :: mkE TIdent n 0 0 :: rest.
Proof. cbn [print]. norm. reflexivity. Qed.
Lemma print_index_app a i rest :
  print (EIndex a i) ++ rest = print a ++ ptok LBRACK 0 0 :: print i ++ ptok RBRACK 0 0 :: rest.
Proof. cbn [print]. norm. reflexivity. Qed.
Lemma print_slice_eq a lo hi :
  print (ESlice a lo hi) = print a ++ ptok LBRACK 0 0 :: popt lo ++ ptok COLON 0 0 :: popt hi ++ [ptok RBRACK 0 0].
Proof. reflexivity. Qed.
Lemma print_slice_app a lo hi rest :
  print (ESlice a lo hi) ++ rest = print a ++ ptok LBRACK 0 0 :: popt lo ++ ptok COLON 0 0 :: popt hi ++ ptok RBRACK 0 0 :: rest.
Proof. rewrite print_slice_eq. norm. reflexivity. Qed.
Lemma print_slice3_eq a lo hi cp :
  print (ESlice3 a lo hi cp) =
  print a ++ ptok LBRACK 0 0 :: popt lo ++ ptok COLON 0 0 :: print hi ++ ptok COLON 0 0 :: print cp ++ [ptok RBRACK 0 0].
Proof. reflexivity. Qed.
Lemma print_slice3_app a lo hi cp rest :
  print (ESlice3 a lo hi cp) ++ rest =
  print a ++ ptok LBRACK 0 0 :: popt lo ++ ptok COLON 0 0 :: print hi ++ ptok COLON 0 0 :: print cp ++ ptok RBRACK 0 0 :: rest.
Proof. rewrite print_slice3_eq. norm. reflexivity. Qed.
Lemma print_call_eq f args ell cm :
  print (ECall f args ell cm) = print f ++ ptok LPAREN 0 0 :: print_args args ++ call_tail ell cm [].
Proof. reflexivity. Qed.
Lemma call_tail_app ell cm rest : call_tail ell cm [] ++ rest = call_tail ell cm rest.
Proof. unfold call_tail. destruct ell, cm; reflexivity. Qed.
Lemma print_call_app f args ell cm rest :
  print (ECall f args ell cm) ++ rest = print f ++ ptok LPAREN 0 0 :: print_args args ++ call_tail ell cm rest.
Proof. rewrite print_call_eq. norm. rewrite call_tail_app. reflexivity. Qed.

(* the first token of an expression is never one of the closers the postfix loop tests for *)
Lemma print_head e : exists t r, print e = t :: r /\
  is_p COLON t = false /\ is_p RPAREN t = false /\ is_p RBRACK t = false.
Proof.
  induction e as [k t l c|s l c|a IHa|u a l c IHa|b x IHx y IHy l c|c IHc x IHx y IHy|a IHa s n|a IHa i IHi
                 |a IHa lo hi|a IHa lo hi IHhi cp IHcp|f IHf args ell cm].
  - eexists _, _. split; [reflexivity|]. destruct k; repeat split; reflexivity.
  - eexists _, _. split; [reflexivity|]. repeat split; reflexivity.
  - eexists _, _. split; [reflexivity|]. repeat split; reflexivity.
  - eexists _, _. split; [reflexivity|]. destruct u; repeat split; reflexivity.
  - destruct IHx as (t & r & E & H). cbn [print]. rewrite E. eexists _, _. split; [reflexivity|exact H].
  - destruct IHc as (t & r & E & H). cbn [print]. rewrite E. eexists _, _. split; [reflexivity|exact H].
  - destruct IHa as (t & r & E & H). cbn [print]. rewrite E. eexists _, _. split; [reflexivity|exact H].
  - destruct IHa as (t & r & E & H). cbn [print]. rewrite E. eexists _, _. split; [reflexivity|exact H].
  - destruct IHa as (t & r & E & H). rewrite print_slice_eq. rewrite E. eexists _, _. split; [reflexivity|exact H].
  - destruct IHa as (t & r & E & H). rewrite print_slice3_eq. rewrite E. eexists _, _. split; [reflexivity|exact H].
  - destruct IHf as (t & r & E & H). rewrite print_call_eq. rewrite E. eexists _, _. split; [reflexivity|exact H].
Qed.

Lemma print_nonempty e : 1 <= length (print e).
Proof. destruct (print_head e) as (t & r & E & _). rewrite E. cbn [length]. lia. Qed.

Lemma print_args_head x r : exists t r', print_args (x :: r) = t :: r' /\ is_p RPAREN t = false.
Proof.
  destruct (print_head x) as (t & r' & E & _ & H & _).
  destruct r as [|y r].
  - rewrite print_args_one, E. eexists _, _. split; [reflexivity|exact H].
  - rewrite print_args_cons2, E. eexists _, _. split; [reflexivity|exact H].
Qed.

(* ------------------------------------------------------------------------------------------ *)
(* parse_expr, one leading token at a time *)

Definition after (pe : nat -> list etok -> pres) (p k1 k2 : nat) (e : expr) (r : list etok) : pres :=
  match postfix pe k1 e r with
  | Some (e', r') => loop pe p k2 e' r'
  | None => None
  end.

Lemma pe_lit f p k t l c ts' :
  parse_expr (S f) p (mkE (kind_of_lit k) t l c :: ts') =
  after (parse_expr f) p (S (S (length ts'))) (S (S (length ts'))) (ELit k t l c) ts'.
Proof. destruct k; reflexivity. Qed.

Lemma pe_name f p s l c ts' :
  parse_expr (S f) p (mkE TIdent s l c :: ts') =
  after (parse_expr f) p (S (S (length ts'))) (S (S (length ts'))) (EName s l c) ts'.
Proof. reflexivity. Qed.

Lemma pe_paren f p l c ts' e r :
  parse_expr f 0 ts' = Some (e, ptok RPAREN 0 0 :: r) ->
  parse_expr (S f) p (ptok LPAREN l c :: ts') =
  after (parse_expr f) p (S (S (length ts'))) (S (S (length ts'))) (EParen e) r.
Proof. intros H. cbn [parse_expr ptok e_kind]. rewrite H. reflexivity. Qed.

Lemma pe_unary f p u l c ts' e r :
  parse_expr f 7 ts' = Some (e, r) ->
  parse_expr (S f) p (ptok (punct_of_unop u) l c :: ts') =
  loop (parse_expr f) p (S (S (length ts'))) (EUnary u e l c) r.
Proof. intros H. destruct u; cbn [parse_expr ptok e_kind punct_of_unop unop_of]; unfold unary_operand_prec; rewrite H; reflexivity. Qed.

(* ------------------------------------------------------------------------------------------ *)
(* One step of the operator loop *)

Lemma loop_bin pe p k lhs b l c y rest :
  p <= blevel b ->
  pe (S (blevel b)) (print y ++ rest) = Some (y, rest) ->
  loop pe p (S k) lhs (ptok (punct_of_binop b) l c :: print y ++ rest) = loop pe p k (EBin b lhs y l c) rest.
Proof.
  intros Hp H. cbn [loop ptok e_kind e_line e_col]. rewrite binop_of_punct.
  destruct (Nat.leb_spec p (blevel b)); [|lia]. rewrite H. reflexivity.
Qed.

Lemma loop_cond pe p k lhs x y rest :
  p <= 1 ->
  pe 0 (print x ++ ptok COLON 0 0 :: print y ++ rest) = Some (x, ptok COLON 0 0 :: print y ++ rest) ->
  pe 2 (print y ++ rest) = Some (y, rest) ->
  loop pe p (S k) lhs (ptok QUESTION 0 0 :: print x ++ ptok COLON 0 0 :: print y ++ rest) = loop pe p k (ECond lhs x y) rest.
Proof.
  intros Hp Hx Hy. cbn [loop ptok e_kind binop_of]. unfold cond_level, cond_mid_prec, cond_right_prec.
  destruct (Nat.leb_spec p 1); [|lia]. rewrite Hx.
  change (is_p COLON (ptok COLON 0 0)) with true. cbn iota. rewrite Hy. reflexivity.
Qed.

(* ------------------------------------------------------------------------------------------ *)
(* One step of the postfix loop *)

Definition pe_opt (pe : nat -> list etok -> pres) (o : option expr) (tl : list etok) : Prop :=
  match o with Some x => pe 0 (print x ++ tl) = Some (x, tl) | None => True end.

Lemma after_field pe p k1 k2 e (safe : bool) n r :
  after pe p (S k1) k2 e (ptok (if safe then SAFEINDEX else DOT) 0 0 :: mkE TIdent n 0 0 :: r) =
  after pe p k1 k2 (EField e safe n) r.
Proof. destruct safe; reflexivity. Qed.

Lemma after_index pe p k1 k2 e i rest :
  pe 0 (print i ++ ptok RBRACK 0 0 :: rest) = Some (i, ptok RBRACK 0 0 :: rest) ->
  after pe p (S k1) k2 e (ptok LBRACK 0 0 :: print i ++ ptok RBRACK 0 0 :: rest) = after pe p k1 k2 (EIndex e i) rest.
Proof.
  intros H. destruct (print_head i) as (t & r & E & Hc & _ & _).
  unfold after. rewrite E in *. cbn [app] in *.
  cbn [postfix].
  change (is_p DOT (ptok LBRACK 0 0)) with false. change (is_p SAFEINDEX (ptok LBRACK 0 0)) with false.
  change (is_p LBRACK (ptok LBRACK 0 0)) with true. cbn [orb]. cbn iota.
  rewrite Hc. rewrite H.
  change (is_p RBRACK (ptok RBRACK 0 0)) with true. cbn iota. reflexivity.
Qed.

(* the "lo" part of a slice: either absent (next token is the colon) or an expression *)
Lemma slice_lo pe lo tl :
  pe_opt pe lo (ptok COLON 0 0 :: tl) ->
  match popt lo ++ ptok COLON 0 0 :: tl with
  | c :: _ => if is_p COLON c then Some (@None expr, popt lo ++ ptok COLON 0 0 :: tl)
              else match pe 0 (popt lo ++ ptok COLON 0 0 :: tl) with
                   | Some (lo', r1) => Some (Some lo', r1) | None => None end
  | [] => None
  end = Some (lo, ptok COLON 0 0 :: tl).
Proof.
  intros H. destruct lo as [x|]; cbn [popt pe_opt] in *.
  - destruct (print_head x) as (t & r & E & Hc & _ & _). rewrite E in *. cbn [app] in *.
    rewrite Hc, H. reflexivity.
  - reflexivity.
Qed.

Lemma after_slice pe p k1 k2 e lo hi rest :
  pe_opt pe lo (ptok COLON 0 0 :: popt hi ++ ptok RBRACK 0 0 :: rest) ->
  pe_opt pe hi (ptok RBRACK 0 0 :: rest) ->
  after pe p (S k1) k2 e (ptok LBRACK 0 0 :: popt lo ++ ptok COLON 0 0 :: popt hi ++ ptok RBRACK 0 0 :: rest) =
  after pe p k1 k2 (ESlice e lo hi) rest.
Proof.
  intros Hlo Hhi. unfold after. cbn [postfix].
  change (is_p DOT (ptok LBRACK 0 0)) with false. change (is_p SAFEINDEX (ptok LBRACK 0 0)) with false.
  change (is_p LBRACK (ptok LBRACK 0 0)) with true. cbn [orb]. cbn iota.
  rewrite (slice_lo pe lo _ Hlo).
  change (is_p RBRACK (ptok COLON 0 0)) with false. change (is_p COLON (ptok COLON 0 0)) with true. cbn iota.
  destruct hi as [x|]; cbn [popt pe_opt app] in *.
  - destruct (print_head x) as (t & r & E & _ & _ & Hb). rewrite E in *. cbn [app] in *.
    rewrite Hb, Hhi.
    change (is_p RBRACK (ptok RBRACK 0 0)) with true. cbn iota. reflexivity.
  - change (is_p RBRACK (ptok RBRACK 0 0)) with true. cbn iota. reflexivity.
Qed.

Lemma after_slice3 pe p k1 k2 e lo hi cp rest :
  pe_opt pe lo (ptok COLON 0 0 :: print hi ++ ptok COLON 0 0 :: print cp ++ ptok RBRACK 0 0 :: rest) ->
  pe 0 (print hi ++ ptok COLON 0 0 :: print cp ++ ptok RBRACK 0 0 :: rest) =
    Some (hi, ptok COLON 0 0 :: print cp ++ ptok RBRACK 0 0 :: rest) ->
  pe 0 (print cp ++ ptok RBRACK 0 0 :: rest) = Some (cp, ptok RBRACK 0 0 :: rest) ->
  after pe p (S k1) k2 e
    (ptok LBRACK 0 0 :: popt lo ++ ptok COLON 0 0 :: print hi ++ ptok COLON 0 0 :: print cp ++ ptok RBRACK 0 0 :: rest) =
  after pe p k1 k2 (ESlice3 e lo hi cp) rest.
Proof.
  intros Hlo Hhi Hcp. unfold after. cbn [postfix].
  change (is_p DOT (ptok LBRACK 0 0)) with false. change (is_p SAFEINDEX (ptok LBRACK 0 0)) with false.
  change (is_p LBRACK (ptok LBRACK 0 0)) with true. cbn [orb]. cbn iota.
  rewrite (slice_lo pe lo _ Hlo).
  change (is_p RBRACK (ptok COLON 0 0)) with false. change (is_p COLON (ptok COLON 0 0)) with true. cbn iota.
  destruct (print_head hi) as (t & r & E & _ & _ & Hb). rewrite E in *. cbn [app] in *.
  rewrite Hb, Hhi.
  change (is_p RBRACK (ptok COLON 0 0)) with false. change (is_p COLON (ptok COLON 0 0)) with true. cbn iota.
  rewrite Hcp.
  change (is_p RBRACK (ptok RBRACK 0 0)) with true. cbn iota. reflexivity.
Qed.

Lemma after_call_nil pe p k1 k2 e rest :
  after pe p (S k1) k2 e (ptok LPAREN 0 0 :: ptok RPAREN 0 0 :: rest) = after pe p k1 k2 (ECall e [] false false) rest.
Proof. reflexivity. Qed.

Lemma after_call pe p k1 k2 e x args ell cm rest :
  parse_args pe (S (length (print_args (x :: args) ++ call_tail ell cm rest))) (print_args (x :: args) ++ call_tail ell cm rest) [] =
    Some (x :: args, call_tail ell cm rest) ->
  after pe p (S k1) k2 e (ptok LPAREN 0 0 :: print_args (x :: args) ++ call_tail ell cm rest) =
  after pe p k1 k2 (ECall e (x :: args) ell cm) rest.
Proof.
  intros H. destruct (print_args_head x args) as (t & r & E & Hr).
  unfold after. cbn [postfix].
  change (is_p DOT (ptok LPAREN 0 0)) with false. change (is_p SAFEINDEX (ptok LPAREN 0 0)) with false.
  change (is_p LBRACK (ptok LPAREN 0 0)) with false.
  change (is_p LPAREN (ptok LPAREN 0 0)) with true. cbn [orb]. cbn iota.
  remember (print_args (x :: args)) as pa eqn:Epa. rewrite E in *. cbn [app] in *. rewrite Hr.
  rewrite H. destruct ell, cm; reflexivity.
Qed.

(* the argument list *)
Lemma parse_args_last pe ell cm rest x k acc :
  pe 0 (print x ++ call_tail ell cm rest) = Some (x, call_tail ell cm rest) ->
  parse_args pe (S k) (print x ++ call_tail ell cm rest) acc = Some (rev acc ++ [x], call_tail ell cm rest).
Proof.
  intros H. cbn [parse_args]. rewrite H.
  change (rev (x :: acc)) with (rev acc ++ [x]).
  unfold call_tail. destruct ell, cm, rest as [|t2 rest]; reflexivity.
Qed.

Lemma parse_args_step pe x y args tail k acc :
  pe 0 (print x ++ ptok COMMA 0 0 :: print_args (y :: args) ++ tail) =
    Some (x, ptok COMMA 0 0 :: print_args (y :: args) ++ tail) ->
  parse_args pe (S k) (print x ++ ptok COMMA 0 0 :: print_args (y :: args) ++ tail) acc =
  parse_args pe k (print_args (y :: args) ++ tail) (x :: acc).
Proof.
  intros H. cbn [parse_args]. rewrite H.
  destruct (print_args_head y args) as (t & r & E & Hr).
  rewrite E. cbn [app tl].
  change (is_p COMMA (ptok COMMA 0 0)) with true. rewrite Hr. reflexivity.
Qed.

(* ------------------------------------------------------------------------------------------ *)
(* Hiding the fuel: "for all sufficiently large fuel" *)

Definition succeeds (p : nat) (ts : list etok) (res : expr * list etok) : Prop :=
  exists f0, forall f, f0 <= f -> parse_expr f p ts = Some res.
Definition lsucceeds (p : nat) (lhs : expr) (ts : list etok) (res : expr * list etok) : Prop :=
  exists f0, forall f k, f0 <= f -> length ts < k -> loop (parse_expr f) p k lhs ts = Some res.
Definition asucceeds (p : nat) (e : expr) (ts : list etok) (res : expr * list etok) : Prop :=
  exists f0, forall f k1 k2, f0 <= f -> length ts < k1 -> length ts < k2 ->
    after (parse_expr f) p k1 k2 e ts = Some res.

Lemma lsucceeds_stops p lhs ts : stops p ts -> lsucceeds p lhs ts (lhs, ts).
Proof. intros H. exists 0. intros f k _ Hk. apply loop_stops; [exact H|lia]. Qed.

Lemma lsucceeds_asucceeds p e ts res : postopen ts = false -> lsucceeds p e ts res -> asucceeds p e ts res.
Proof.
  intros Hn [f0 H]. exists f0. intros f k1 k2 Hf Hk1 Hk2. unfold after.
  rewrite postfix_stops by (assumption || lia). apply H; assumption.
Qed.

(* the three statements proved together by induction on the expression *)
Definition PA (e : expr) : Prop := forall p rest res,
  level e = 8 -> asucceeds p e rest res -> succeeds p (print e ++ rest) res.
Definition PB (e : expr) : Prop := forall p rest res,
  p <= level e -> lead rest <= level e -> lsucceeds p e rest res -> succeeds p (print e ++ rest) res.
Definition PQ (e : expr) : Prop := forall tl, closer tl = true -> succeeds 0 (print e ++ tl) (e, tl).

Lemma PA_PB e : level e = 8 -> PA e -> PB e.
Proof.
  intros He HA p rest res Hp Hl HL. apply HA; [exact He|].
  apply lsucceeds_asucceeds; [apply lead_nopost; lia|exact HL].
Qed.

Lemma PB_at e : PB e -> forall p rest, p <= level e -> lead rest <= level e -> stops p rest ->
  succeeds p (print e ++ rest) (e, rest).
Proof. intros HB p rest Hp Hl Hs. apply HB; [exact Hp|exact Hl|apply lsucceeds_stops; exact Hs]. Qed.

Lemma PB_PQ e : PB e -> PQ e.
Proof.
  intros HB tl Hc. destruct (closer_lead tl Hc) as [Hl Hs].
  apply PB_at; [exact HB|lia|lia|exact Hs].
Qed.

Lemma opt_succeeds o tl : optP PQ o -> closer tl = true ->
  exists f0, forall f, f0 <= f -> pe_opt (parse_expr f) o tl.
Proof.
  intros H Hc. destruct o as [x|]; cbn [optP pe_opt] in *.
  - exact (H tl Hc).
  - exists 0. intros; exact I.
Qed.

Lemma args_succeeds ell cm rest args : forall x, Forall PQ (x :: args) ->
  exists f0, forall f, f0 <= f -> forall k acc,
    length (print_args (x :: args) ++ call_tail ell cm rest) < k ->
    parse_args (parse_expr f) k (print_args (x :: args) ++ call_tail ell cm rest) acc =
    Some (rev acc ++ x :: args, call_tail ell cm rest).
Proof.
  induction args as [|y args IH]; intros x HF; inversion HF as [|? ? Hx HF']; subst.
  - destruct (Hx (call_tail ell cm rest)) as [f0 H0]; [destruct ell, cm; reflexivity|].
    exists f0. intros f Hf k acc Hk. destruct k as [|k]; [lia|].
    rewrite print_args_one. apply parse_args_last. apply H0; exact Hf.
  - destruct (IH y HF') as [f1 H1].
    destruct (Hx (ptok COMMA 0 0 :: print_args (y :: args) ++ call_tail ell cm rest)) as [f0 H0]; [reflexivity|].
    exists (max f0 f1). intros f Hf k acc Hk. destruct k as [|k]; [lia|].
    rewrite print_args_cons2 in *. rewrite <- app_assoc in *. cbn [app] in *.
    rewrite parse_args_step by (apply H0; lia).
    rewrite H1; [|lia|rewrite app_length in Hk; cbn [length] in Hk; lia].
    change (rev (x :: acc)) with (rev acc ++ [x]). rewrite <- app_assoc. reflexivity.
Qed.

Ltac len := repeat first [rewrite app_length | progress cbn [length]]; lia.

Lemma wf_all_PQ args : Forall (fun e => wf e -> PA e /\ PB e) args -> wf_all args -> Forall PQ args.
Proof.
  intros HF. induction HF as [|x r Hx Hr IH]; intros Hw; [constructor|].
  destruct Hw as [Hwx Hwr]. constructor; [apply PB_PQ, Hx, Hwx|apply IH, Hwr].
Qed.

Lemma main e : wf e -> PA e /\ PB e.
Proof.
  induction e as [k t l c|s l c|a IHa|u a l c IHa|b x y l c IHx IHy|c x y IHc IHx IHy|a s n IHa|a i IHa IHi
                 |a lo hi IHa IHlo IHhi|a lo hi cp IHa IHlo IHhi IHcp|fn args ell cm IHf IHargs] using expr_ind2;
    intros Hwf.
  - (* literal *)
    assert (HA : PA (ELit k t l c)).
    { intros p rest res _ [f0 H]. exists (S f0). intros f Hf. destruct f as [|f]; [lia|].
      cbn [print app]. rewrite pe_lit. apply H; lia. }
    split; [exact HA|apply PA_PB; [reflexivity|exact HA]].
  - (* name *)
    assert (HA : PA (EName s l c)).
    { intros p rest res _ [f0 H]. exists (S f0). intros f Hf. destruct f as [|f]; [lia|].
      cbn [print app]. rewrite pe_name. apply H; lia. }
    split; [exact HA|apply PA_PB; [reflexivity|exact HA]].
  - (* parentheses *)
    cbn [wf] in Hwf. destruct (IHa Hwf) as [_ HBa].
    assert (HA : PA (EParen a)).
    { intros p rest res _ [f0 H]. rewrite print_paren_app.
      destruct (PB_PQ a HBa (ptok RPAREN 0 0 :: rest)) as [f1 H1]; [reflexivity|].
      exists (S (max f0 f1)). intros f Hf. destruct f as [|f]; [lia|].
      rewrite (pe_paren f p 0%N 0%N _ a rest) by (apply H1; lia).
      apply H; [lia|len|len]. }
    split; [exact HA|apply PA_PB; [reflexivity|exact HA]].
  - (* unary *)
    cbn [wf] in Hwf. destruct Hwf as [Hwa Hla]. destruct (IHa Hwa) as [_ HBa].
    split; [intros p rest res Hl; discriminate Hl|].
    intros p rest res Hp Hl [f0 H]. cbn [level] in Hp, Hl. rewrite print_unary_app.
    destruct (PB_at a HBa 7 rest) as [f1 H1]; [lia|lia|apply lead_stops; apply lead_small; lia|].
    exists (S (max f0 f1)). intros f Hf. destruct f as [|f]; [lia|].
    rewrite (pe_unary f p u l c _ a rest) by (apply H1; lia).
    apply H; [lia|len].
  - (* binary *)
    cbn [wf] in Hwf. destruct Hwf as (Hwx & Hwy & Hlx & Hly).
    destruct (IHx Hwx) as [_ HBx]. destruct (IHy Hwy) as [_ HBy].
    split; [intros p rest res Hl; cbn [level] in Hl; pose proof (blevel_range b); lia|].
    intros p rest res Hp Hl [f0 H]. cbn [level] in Hp, Hl. rewrite print_bin_app.
    destruct (PB_at y HBy (S (blevel b)) rest) as [f1 H1]; [lia|lia|apply lead_stops; lia|].
    apply HBx; [lia| |].
    { rewrite lead_binop. lia. }
    exists (max f0 f1). intros f k Hf Hk. destruct k as [|k]; [lia|].
    rewrite loop_bin by first [lia | apply H1; lia].
    apply H; [lia|]. revert Hk. len.
  - (* conditional *)
    cbn [wf] in Hwf. destruct Hwf as (Hwc & Hwx & Hwy & Hly).
    destruct (IHc Hwc) as [_ HBc]. destruct (IHx Hwx) as [_ HBx]. destruct (IHy Hwy) as [_ HBy].
    split; [intros p rest res Hl; discriminate Hl|].
    intros p rest res Hp Hl [f0 H]. cbn [level] in Hp, Hl. rewrite print_cond_app.
    destruct (PB_at y HBy 2 rest) as [f2 H2]; [lia|lia|apply lead_stops; lia|].
    destruct (PB_PQ x HBx (ptok COLON 0 0 :: print y ++ rest)) as [f1 H1]; [reflexivity|].
    pose proof (level_range c) as Hrc.
    apply HBc; [lia|cbn; lia|].
    exists (max f0 (max f1 f2)). intros f k Hf Hk. destruct k as [|k]; [lia|].
    rewrite loop_cond by first [lia | apply H1; lia | apply H2; lia].
    apply H; [lia|]. revert Hk. len.
  - (* field *)
    cbn [wf] in Hwf. destruct Hwf as (Hwa & Hla). destruct (IHa Hwa) as [HAa _].
    assert (HA : PA (EField a s n)).
    { intros p rest res _ [f0 H]. rewrite print_field_app. apply HAa; [exact Hla|].
      exists f0. intros f k1 k2 Hf Hk1 Hk2. destruct k1 as [|k1]; [lia|].
      rewrite after_field. apply H; [lia| |]; [revert Hk1|revert Hk2]; len. }
    split; [exact HA|apply PA_PB; [reflexivity|exact HA]].
  - (* index *)
    cbn [wf] in Hwf. destruct Hwf as (Hwa & Hla & Hwi). destruct (IHa Hwa) as [HAa _]. destruct (IHi Hwi) as [_ HBi].
    assert (HA : PA (EIndex a i)).
    { intros p rest res _ [f0 H]. rewrite print_index_app. apply HAa; [exact Hla|].
      destruct (PB_PQ i HBi (ptok RBRACK 0 0 :: rest)) as [f1 H1]; [reflexivity|].
      exists (max f0 f1). intros f k1 k2 Hf Hk1 Hk2. destruct k1 as [|k1]; [lia|].
      rewrite after_index by (apply H1; lia).
      apply H; [lia| |]; [revert Hk1|revert Hk2]; len. }
    split; [exact HA|apply PA_PB; [reflexivity|exact HA]].
  - (* slice *)
    cbn [wf] in Hwf. destruct Hwf as (Hwa & Hla & Hwlo & Hwhi). destruct (IHa Hwa) as [HAa _].
    assert (Qlo : optP PQ lo). { destruct lo as [x|]; cbn [optP] in *; [apply PB_PQ, IHlo, Hwlo|exact I]. }
    assert (Qhi : optP PQ hi). { destruct hi as [x|]; cbn [optP] in *; [apply PB_PQ, IHhi, Hwhi|exact I]. }
    assert (HA : PA (ESlice a lo hi)).
    { intros p rest res _ [f0 H]. rewrite print_slice_app. apply HAa; [exact Hla|].
      destruct (opt_succeeds lo (ptok COLON 0 0 :: popt hi ++ ptok RBRACK 0 0 :: rest) Qlo) as [f1 H1]; [reflexivity|].
      destruct (opt_succeeds hi (ptok RBRACK 0 0 :: rest) Qhi) as [f2 H2]; [reflexivity|].
      exists (max f0 (max f1 f2)). intros f k1 k2 Hf Hk1 Hk2. destruct k1 as [|k1]; [lia|].
      rewrite after_slice by first [apply H1; lia | apply H2; lia].
      apply H; [lia| |]; [revert Hk1|revert Hk2]; len. }
    split; [exact HA|apply PA_PB; [reflexivity|exact HA]].
  - (* 3-index slice *)
    cbn [wf] in Hwf. destruct Hwf as (Hwa & Hla & Hwlo & Hwhi & Hwcp). destruct (IHa Hwa) as [HAa _].
    destruct (IHhi Hwhi) as [_ HBhi]. destruct (IHcp Hwcp) as [_ HBcp].
    assert (Qlo : optP PQ lo). { destruct lo as [x|]; cbn [optP] in *; [apply PB_PQ, IHlo, Hwlo|exact I]. }
    assert (HA : PA (ESlice3 a lo hi cp)).
    { intros p rest res _ [f0 H]. rewrite print_slice3_app. apply HAa; [exact Hla|].
      destruct (opt_succeeds lo (ptok COLON 0 0 :: print hi ++ ptok COLON 0 0 :: print cp ++ ptok RBRACK 0 0 :: rest) Qlo)
        as [f1 H1]; [reflexivity|].
      destruct (PB_PQ hi HBhi (ptok COLON 0 0 :: print cp ++ ptok RBRACK 0 0 :: rest)) as [f2 H2]; [reflexivity|].
      destruct (PB_PQ cp HBcp (ptok RBRACK 0 0 :: rest)) as [f3 H3]; [reflexivity|].
      exists (max f0 (max f1 (max f2 f3))). intros f k1 k2 Hf Hk1 Hk2. destruct k1 as [|k1]; [lia|].
      rewrite after_slice3 by first [apply H1; lia | apply H2; lia | apply H3; lia].
      apply H; [lia| |]; [revert Hk1|revert Hk2]; len. }
    split; [exact HA|apply PA_PB; [reflexivity|exact HA]].
  - (* call *)
    cbn [wf] in Hwf. destruct Hwf as (Hwf & Hlf & Hwargs & Hnil). destruct (IHf Hwf) as [HAf _].
    pose proof (wf_all_PQ args IHargs Hwargs) as Qargs.
    assert (HA : PA (ECall fn args ell cm)).
    { intros p rest res _ [f0 H]. rewrite print_call_app. apply HAf; [exact Hlf|].
      destruct args as [|x args].
      - destruct (Hnil eq_refl) as [-> ->]. cbn [print_args app]. unfold call_tail. cbn [app].
        exists f0. intros f k1 k2 Hf Hk1 Hk2. destruct k1 as [|k1]; [lia|].
        rewrite after_call_nil. apply H; [lia| |]; [revert Hk1|revert Hk2]; len.
      - destruct (args_succeeds ell cm rest args x Qargs) as [f1 H1].
        exists (max f0 f1). intros f k1 k2 Hf Hk1 Hk2. destruct k1 as [|k1]; [lia|].
        rewrite after_call by (rewrite H1; [reflexivity|lia|lia]).
        assert (Hct : length rest < length (call_tail ell cm rest)).
        { unfold call_tail. destruct ell, cm; cbn [app length]; lia. }
        apply H; [lia| |]; [revert Hk1|revert Hk2]; cbn [length]; rewrite app_length; lia. }
    split; [exact HA|apply PA_PB; [reflexivity|exact HA]].
Qed.

(* ------------------------------------------------------------------------------------------ *)
(* The round trip *)

Theorem parse_print : forall e, wf e -> exists f0, forall f, (f0 <= f)%nat -> parse_expr f 0 (print e) = Some (e, []).
Proof.
  intros e Hwf. destruct (main e Hwf) as [_ HB].
  pose proof (PB_at e HB 0 []) as M. rewrite app_nil_r in M.
  apply M; [lia|cbn; lia|exact I].
Qed.

(* the same under the stricter condition that also asks for 2 <= level c in c ? x : y *)
Corollary parse_print_strict : forall e, wf_strict e ->
  exists f0, forall f, (f0 <= f)%nat -> parse_expr f 0 (print e) = Some (e, []).
Proof. intros e H. apply parse_print, wf_strict_wf, H. Qed.

(* ------------------------------------------------------------------------------------------ *)
(* Non-vacuity: an expression using every constructor, well-formed, and round-tripping.
      a || -1 ? (f)?.g(x[2], s[i:], s[:j:k], t.u(), v...,) : (b ? c : d) * "z" < nil         *)
Local Open Scope N_scope.
Definition ex_all : expr :=
  ECond
    (EBin BLOr (EName [97] 1 0) (EUnary UMinus (ELit LInt [49] 1 6) 1 5) 1 2)
    (ECall (EField (EParen (EName [102] 1 11)) true [103])
       [ EIndex (EName [120] 1 18) (ELit LInt [50] 1 20);
         ESlice (EName [115] 1 24) (Some (EName [105] 1 26)) None;
         ESlice3 (EName [115] 1 31) None (EName [106] 1 34) (EName [107] 1 36);
         ECall (EField (EName [116] 1 40) false [117]) [] false false;
         EName [118] 1 47 ]
       true true)
    (EBin BLt
       (EBin BMul (EParen (ECond (EName [98] 1 57) (EName [99] 1 61) (EName [100] 1 65))) (ELit LStr [34;122;34] 1 70) 1 68)
       (ELit LNil [110;105;108] 1 76) 1 74).
Definition ex_lnc : expr :=
  ECond (ECond (EName [97] 1 0) (EName [98] 1 4) (EName [99] 1 8)) (EName [100] 1 12) (EName [101] 1 16).
Local Open Scope nat_scope.

Lemma ex_all_wf : wf ex_all.
Proof. cbn. repeat split; try lia; try discriminate. Qed.

Lemma ex_all_wf_strict : wf_strict ex_all.
Proof. cbn. repeat split; try lia; try discriminate. Qed.

Lemma ex_all_roundtrip : parse_expr 100 0 (print ex_all) = Some (ex_all, []).
Proof. vm_compute. reflexivity. Qed.

(* the left-nested conditional is well-formed (but not wf_strict) and round-trips, too *)
Lemma ex_left_nested_cond :
  wf ex_lnc /\ ~ wf_strict ex_lnc /\ parse_expr 100 0 (print ex_lnc) = Some (ex_lnc, []).
Proof. split; [cbn; repeat split; lia|]. split; [cbn; lia|vm_compute; reflexivity]. Qed.

Print Assumptions parse_print.
Print Assumptions parse_print_strict.
Print Assumptions ex_all_wf.
Print Assumptions ex_all_roundtrip.
Print Assumptions ex_left_nested_cond.
