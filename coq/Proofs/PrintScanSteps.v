(* Print/scan round trip: string facts and the one-rune transitions of the scanner used on printed input. *)
From Coq Require Import List NArith Bool Lia Arith.
From Tpl Require Import Html.Scan Proofs.ScanConcat Proofs.PrintScanDefs.
Import ListNotations.
Open Scope N_scope.
Local Arguments adv : simpl never.

(* ---------- string facts ---------- *)

Lemma prefixb_app p t : prefixb p (p ++ t) = true.
Proof.
  induction p as [|x p IH]; cbn [prefixb app]; [reflexivity|].
  rewrite N.eqb_refl, IH; reflexivity.
Qed.

Lemma prefixb_mono p q t : prefixb p q = true -> prefixb p (q ++ t) = true.
Proof.
  intros H. apply prefixb_spec in H as [u ->]. rewrite <- app_assoc. apply prefixb_app.
Qed.

Lemma containsb_intro p d t : containsb p (d ++ p ++ t) = true.
Proof.
  induction d as [|x d IH]; cbn [app].
  - destruct (p ++ t) eqn:E; cbn [containsb]; rewrite <- E, prefixb_app; reflexivity.
  - cbn [containsb]. rewrite IH. apply orb_true_r.
Qed.

Lemma suffixb_intro p d : suffixb p (d ++ p) = true.
Proof. unfold suffixb. rewrite rev_app_distr. apply prefixb_app. Qed.

Lemma drop_last_app (p d : str) : drop_last (length p) (d ++ p) = d.
Proof.
  unfold drop_last. rewrite app_length.
  replace (length d + length p - length p)%nat with (length d) by lia.
  rewrite firstn_app, Nat.sub_diag, firstn_all. cbn [firstn]. apply app_nil_r.
Qed.

Lemma str_eqb_refl a : str_eqb a a = true.
Proof. induction a as [|x a IH]; cbn [str_eqb]; [reflexivity|]. rewrite N.eqb_refl, IH; reflexivity. Qed.

Lemma str_eqb_neq a b : a <> b -> str_eqb a b = false.
Proof.
  intros H. destruct (str_eqb a b) eqn:E; [|reflexivity]. apply str_eqb_eq in E. contradiction.
Qed.

(* a suffix test fails when the last runes differ *)
Lemma suffixb_last_neq p c s d : N.eqb c d = false -> suffixb (p ++ [c]) (s ++ [d]) = false.
Proof.
  intros H. unfold suffixb. rewrite !rev_app_distr. cbn [rev app prefixb]. rewrite H. reflexivity.
Qed.

(* a proper suffix test that succeeds inside q1, where q1 is a prefix of b, shows containment *)
Lemma suffix_in_prefix_contains p q1 u : suffixb p q1 = true -> containsb p (q1 ++ u) = true.
Proof.
  intros H. apply suffixb_spec in H. rewrite H, <- app_assoc. apply containsb_intro.
Qed.

Lemma ends_sp_snoc s c : ends_sp (s ++ [c]) = N.eqb c cSP.
Proof. unfold ends_sp. rewrite rev_app_distr. reflexivity. Qed.

Lemma trim_sp_snoc_sp s : trim_sp (s ++ [cSP]) = s.
Proof. unfold trim_sp. rewrite rev_app_distr. cbn [rev app]. cbn. apply rev_involutive. Qed.

Lemma trim_sp_noend s : ends_sp s = false -> trim_sp s = s.
Proof. unfold ends_sp, trim_sp. destruct (rev s) as [|c r]; [reflexivity|]. intros ->. reflexivity. Qed.

Section P.
Variable is_space : rune -> bool.
Variable to_lower : rune -> rune.
Variable text_tags : list str.
Variable attr_prefix : str.
Variable compile : attr -> bool.
Notation step := (Scan.step is_space to_lower text_tags attr_prefix compile).
Notation raw_tag_of_last := (Scan.raw_tag_of_last to_lower text_tags).
Notation else_name := (Scan.else_name attr_prefix).

Ltac open_step :=
  unfold Scan.step; cbn [s_toks s_pos s_mode dispatch]; unfold tag_step;
  cbn [g_state g_buf g_name g_comment g_cdata set_g g_attrs g_aname g_anstart g_anend
       g_aval g_avstart g_avend g_start].
Ltac gcbn :=
  cbn [g_state g_buf g_name g_comment g_cdata set_g g_attrs g_aname g_anstart g_anend
       g_aval g_avstart g_avend g_start a_name a_value a_nstart a_nend a_vstart a_vend].

(* ----- opening '<' ----- *)
Lemma init_lt toks p : raw_tag_of_last toks = None ->
  step (mkS toks p MInit) cLT = mkS toks (adv p cLT) (MTag (new_tag p)).
Proof. intros H. unfold Scan.step. cbn [s_toks s_pos s_mode dispatch]. rewrite H. reflexivity. Qed.

Lemma text_lt toks p buf st a b c d e :
  step (mkS toks p (MText (mkText buf st false a b c d e))) cLT =
  mkS (mkTok KText buf st p [] [] :: toks) (adv p cLT) (MTag (new_tag p)).
Proof. reflexivity. Qed.

Lemma init_char toks p (r : rune) : raw_tag_of_last toks = None -> N.eqb r cLT = false ->
  step (mkS toks p MInit) r = mkS toks (adv p r) (MText (mkText [r] p false [] [] (0,0) [] [])).
Proof.
  intros H Hr. unfold Scan.step. cbn [s_toks s_pos s_mode dispatch]. rewrite H, Hr.
  unfold text_step, new_text. rewrite H. cbn [x_raw x_buf x_start]. rewrite Hr. reflexivity.
Qed.

Lemma text_char toks p (buf : str) st a b c d e (r : rune) : N.eqb r cLT = false ->
  step (mkS toks p (MText (mkText buf st false a b c d e))) r =
  mkS toks (adv p r) (MText (mkText (buf ++ [r]) st false [] [] (0,0) [] [])).
Proof.
  intros Hr. unfold Scan.step. cbn [s_toks s_pos s_mode dispatch]. unfold text_step.
  cbn [x_raw x_buf x_start]. rewrite Hr. reflexivity.
Qed.

(* ----- tag name ----- *)
Lemma tname_char toks p (buf : str) gs attrs (name cm cd an : str) ans ane (av : str) avs ave (r : rune) :
  N.eqb r cGT = false -> is_space r = false ->
  step (mkS toks p (MTag (mkTag TName buf gs attrs name cm cd an ans ane av avs ave))) r =
  mkS toks (adv p r) (MTag (mkTag
     (if str_eqb (name ++ [r]) sBANGDD then TComment else if str_eqb (name ++ [r]) sCDATA then TCData else TName)
     (buf ++ [r]) gs attrs (name ++ [r]) cm cd an ans ane av avs ave)).
Proof.
  intros Hgt Hsp. open_step. rewrite Hgt, Hsp. unfold finish_or. rewrite Hgt. reflexivity.
Qed.

Lemma tname_gt toks p (buf : str) gs attrs (name cm cd an : str) ans ane (av : str) avs ave :
  step (mkS toks p (MTag (mkTag TName buf gs attrs name cm cd an ans ane av avs ave))) cGT =
  mkS (mkTok KTag (buf ++ [cGT]) gs (adv p cGT) name (rev attrs) :: toks) (adv p cGT) MInit.
Proof. reflexivity. Qed.

Lemma tname_sp toks p (buf : str) gs attrs (name cm cd an : str) ans ane (av : str) avs ave :
  is_space cSP = true ->
  step (mkS toks p (MTag (mkTag TName buf gs attrs name cm cd an ans ane av avs ave))) cSP =
  mkS toks (adv p cSP) (MTag (mkTag TSpace (buf ++ [cSP]) gs attrs name cm cd an ans ane av avs ave)).
Proof. intros Hsp. open_step. cbn [N.eqb cSP cGT Pos.eqb]. rewrite Hsp. reflexivity. Qed.

(* ----- comments ----- *)
Lemma comment_char toks p (buf : str) gs attrs (name cm cd an : str) ans ane (av : str) avs ave (r : rune) :
  suffixb sDDGT (cm ++ [r]) = false ->
  prefixb [cGT] (cm ++ [r]) = false -> prefixb [cDASH; cGT] (cm ++ [r]) = false ->
  step (mkS toks p (MTag (mkTag TComment buf gs attrs name cm cd an ans ane av avs ave))) r =
  mkS toks (adv p r) (MTag (mkTag TComment (buf ++ [r]) gs attrs name (cm ++ [r]) cd an ans ane av avs ave)).
Proof. intros H1 H2 H3. open_step. rewrite H1, H2, H3. reflexivity. Qed.

Lemma comment_end toks p (buf : str) gs attrs (name cm cd an : str) ans ane (av : str) avs ave (r : rune) (text : str) :
  cm ++ [r] = text ++ sDDGT ->
  prefixb [cGT] text = false -> prefixb [cDASH; cGT] text = false ->
  containsb sLTBDD text = false -> containsb sDDGT text = false -> containsb sDDBGT text = false ->
  suffixb sLTBD text = false ->
  step (mkS toks p (MTag (mkTag TComment buf gs attrs name cm cd an ans ane av avs ave))) r =
  mkS (mkTok KComment (sLTBDD ++ text ++ sDDGT) gs (adv p r) [] [] :: toks) (adv p r) MInit.
Proof.
  intros E H2 H3 H4 H5 H6 H7. open_step. rewrite E, suffixb_intro.
  change 3%nat with (length sDDGT). rewrite drop_last_app.
  rewrite H2, H3, H4, H5, H6, H7. reflexivity.
Qed.

(* ----- CDATA ----- *)
Lemma cdata_char toks p (buf : str) gs attrs (name cm cd an : str) ans ane (av : str) avs ave (r : rune) :
  suffixb sRRGT (cd ++ [r]) = false ->
  step (mkS toks p (MTag (mkTag TCData buf gs attrs name cm cd an ans ane av avs ave))) r =
  mkS toks (adv p r) (MTag (mkTag TCData (buf ++ [r]) gs attrs name cm (cd ++ [r]) an ans ane av avs ave)).
Proof. intros H1. open_step. rewrite H1. reflexivity. Qed.

Lemma cdata_end toks p (buf : str) gs attrs (name cm cd an : str) ans ane (av : str) avs ave (r : rune) :
  suffixb sRRGT (cd ++ [r]) = true ->
  step (mkS toks p (MTag (mkTag TCData buf gs attrs name cm cd an ans ane av avs ave))) r =
  mkS (mkTok KCDATA ((cLT :: sCDATA) ++ cd ++ [r]) gs (adv p r) [] [] :: toks) (adv p r) MInit.
Proof. intros H1. open_step. rewrite H1. reflexivity. Qed.

(* ----- between attributes ----- *)
Lemma tspace_gt toks p (buf : str) gs attrs (name cm cd an : str) ans ane (av : str) avs ave :
  step (mkS toks p (MTag (mkTag TSpace buf gs attrs name cm cd an ans ane av avs ave))) cGT =
  mkS (mkTok KTag (buf ++ [cGT]) gs (adv p cGT) name (rev attrs) :: toks) (adv p cGT) MInit.
Proof. reflexivity. Qed.

Lemma tspace_sp toks p (buf : str) gs attrs (name cm cd an : str) ans ane (av : str) avs ave :
  is_space cSP = true ->
  step (mkS toks p (MTag (mkTag TSpace buf gs attrs name cm cd an ans ane av avs ave))) cSP =
  mkS toks (adv p cSP) (MTag (mkTag TSpace (buf ++ [cSP]) gs attrs name cm cd an ans ane av avs ave)).
Proof. intros Hsp. open_step. cbn [N.eqb cSP cGT Pos.eqb]. rewrite Hsp. reflexivity. Qed.

(* first rune of an attribute name after blanks: unread and re-dispatch *)
Lemma tspace_char toks p (buf : str) gs attrs (name cm cd an : str) ans ane (av : str) avs ave (r : rune) :
  N.eqb r cGT = false -> is_space r = false -> N.eqb r cEQ = false ->
  step (mkS toks p (MTag (mkTag TSpace buf gs attrs name cm cd an ans ane av avs ave))) r =
  mkS toks (adv p r) (MTag (mkTag TAttrName (buf ++ [r]) gs attrs name cm cd [r] p (adv p r) av avs ave)).
Proof.
  intros Hgt Hsp Heq. open_step. rewrite Hgt, Hsp.
  cbn [dispatch]. unfold tag_step. gcbn. rewrite Hsp, Hgt, Heq. cbn [ends_sp rev]. reflexivity.
Qed.

(* ----- attribute names ----- *)
Lemma aname_char toks p (buf : str) gs attrs (name cm cd an : str) ans ane (av : str) avs ave (r : rune) :
  N.eqb r cGT = false -> is_space r = false -> N.eqb r cEQ = false -> ends_sp an = false ->
  step (mkS toks p (MTag (mkTag TAttrName buf gs attrs name cm cd an ans ane av avs ave))) r =
  mkS toks (adv p r) (MTag (mkTag TAttrName (buf ++ [r]) gs attrs name cm cd (an ++ [r]) ans (adv p r) av avs ave)).
Proof. intros Hgt Hsp Heq He. open_step. rewrite Hsp, Hgt, Heq, He. reflexivity. Qed.

Lemma aname_sp toks p (buf : str) gs attrs (name cm cd an : str) ans ane (av : str) avs ave :
  is_space cSP = true -> ends_sp an = false ->
  step (mkS toks p (MTag (mkTag TAttrName buf gs attrs name cm cd an ans ane av avs ave))) cSP =
  mkS toks (adv p cSP) (MTag (mkTag TAttrName (buf ++ [cSP]) gs attrs name cm cd (an ++ [cSP]) ans ane av avs ave)).
Proof. intros Hsp He. open_step. rewrite Hsp, He. reflexivity. Qed.

Lemma aname_eq toks p (buf : str) gs attrs (name cm cd an : str) ans ane (av : str) avs ave :
  is_space cEQ = false ->
  step (mkS toks p (MTag (mkTag TAttrName buf gs attrs name cm cd an ans ane av avs ave))) cEQ =
  mkS toks (adv p cEQ) (MTag (mkTag TAttrValue (buf ++ [cEQ]) gs attrs name cm cd an ans ane [] (adv p cEQ) ave)).
Proof. intros Hsp. open_step. rewrite Hsp. reflexivity. Qed.

(* committing a value-less attribute *)
Lemma add_attr_none an ans ane g :
  str_eqb an else_name = false -> has_attr an (g_attrs g) = false ->
  add_attr attr_prefix compile false (mkAttr an ans ane None (0,0) (0,0)) g =
  inl (mkTag (g_state g) (g_buf g) (g_start g) (mkAttr an ans ane None (0,0) (0,0) :: g_attrs g) (g_name g)
             (g_comment g) (g_cdata g) (g_aname g) (g_anstart g) (g_anend g) (g_aval g) (g_avstart g) (g_avend g)).
Proof.
  intros He Hd. unfold add_attr, fix_else. gcbn. rewrite He. gcbn. rewrite Hd. reflexivity.
Qed.

Lemma add_attr_some an ans ane v vs ve g :
  compile (mkAttr an ans ane (Some v) vs ve) = true -> has_attr an (g_attrs g) = false ->
  add_attr attr_prefix compile true (mkAttr an ans ane (Some v) vs ve) g =
  inl (mkTag (g_state g) (g_buf g) (g_start g) (mkAttr an ans ane (Some v) vs ve :: g_attrs g) (g_name g)
             (g_comment g) (g_cdata g) (g_aname g) (g_anstart g) (g_anend g) (g_aval g) (g_avstart g) (g_avend g)).
Proof.
  intros Hc Hd. unfold add_attr, fix_else. gcbn. rewrite Hc. gcbn. rewrite Hd. reflexivity.
Qed.

Lemma aname_gt toks p (buf : str) gs attrs (name cm cd an : str) ans ane (av : str) avs ave :
  is_space cGT = false ->
  str_eqb (trim_sp an) else_name = false -> has_attr (trim_sp an) attrs = false ->
  step (mkS toks p (MTag (mkTag TAttrName buf gs attrs name cm cd an ans ane av avs ave))) cGT =
  mkS (mkTok KTag (buf ++ [cGT]) gs (adv p cGT) name
         (rev (mkAttr (trim_sp an) ans ane None (0,0) (0,0) :: attrs)) :: toks) (adv p cGT) MInit.
Proof.
  intros Hsp He Hd. open_step. rewrite Hsp. cbn [N.eqb cGT Pos.eqb].
  rewrite add_attr_none by (gcbn; assumption). reflexivity.
Qed.

(* a new attribute name begins right after "name " : the pending value-less attribute is committed *)
Lemma aname_commit_char toks p (buf : str) gs attrs (name cm cd an : str) ans ane (av : str) avs ave (r : rune) :
  N.eqb r cGT = false -> is_space r = false -> N.eqb r cEQ = false -> ends_sp an = true ->
  str_eqb (trim_sp an) else_name = false -> has_attr (trim_sp an) attrs = false ->
  step (mkS toks p (MTag (mkTag TAttrName buf gs attrs name cm cd an ans ane av avs ave))) r =
  mkS toks (adv p r) (MTag (mkTag TAttrName (buf ++ [r]) gs (mkAttr (trim_sp an) ans ane None (0,0) (0,0) :: attrs)
                                  name cm cd [r] p (adv p r) av avs ave)).
Proof.
  intros Hgt Hsp Heq Hes He Hd. open_step. rewrite Hsp, Hgt, Heq, Hes.
  rewrite add_attr_none by (gcbn; assumption). reflexivity.
Qed.

(* ----- attribute values ----- *)
Lemma aval_first toks p (buf : str) gs attrs (name cm cd an : str) ans ane avs ave (r : rune) :
  N.eqb r cGT = false -> is_space r = false ->
  step (mkS toks p (MTag (mkTag TAttrValue buf gs attrs name cm cd an ans ane [] avs ave))) r =
  mkS toks (adv p r) (MTag (mkTag TAttrValue (buf ++ [r]) gs attrs name cm cd an ans ane [r] avs (adv p r))).
Proof. intros Hgt Hsp. open_step. rewrite Hsp, Hgt. reflexivity. Qed.

Lemma aval_q_char toks p (buf : str) gs attrs (name cm cd an : str) ans ane (f : rune) (t : str) avs ave (r : rune) :
  is_quote f = true -> N.eqb f r = false ->
  step (mkS toks p (MTag (mkTag TAttrValue buf gs attrs name cm cd an ans ane (f :: t) avs ave))) r =
  mkS toks (adv p r) (MTag (mkTag TAttrValue (buf ++ [r]) gs attrs name cm cd an ans ane ((f :: t) ++ [r]) avs (adv p r))).
Proof.
  intros Hq Hr. open_step. unfold is_quote in Hq. rewrite Hq, Hr. cbn [andb negb orb]. reflexivity.
Qed.

Lemma aval_q_end toks p (buf : str) gs attrs (name cm cd an : str) ans ane (f : rune) (t : str) avs ave :
  is_quote f = true ->
  compile (mkAttr (trim_sp an) ans ane (Some ((f :: t) ++ [f])) avs (adv p f)) = true ->
  has_attr (trim_sp an) attrs = false ->
  step (mkS toks p (MTag (mkTag TAttrValue buf gs attrs name cm cd an ans ane (f :: t) avs ave))) f =
  mkS toks (adv p f) (MTag (mkTag TSpace (buf ++ [f]) gs
        (mkAttr (trim_sp an) ans ane (Some ((f :: t) ++ [f])) avs (adv p f) :: attrs)
        name cm cd an ans ane ((f :: t) ++ [f]) avs (adv p f))).
Proof.
  intros Hq Hc Hd. open_step. pose proof Hq as Hq'. unfold is_quote in Hq'. rewrite Hq', N.eqb_refl. cbn [andb orb].
  rewrite add_attr_some by (gcbn; assumption). gcbn. unfold finish_or.
  assert (N.eqb f cGT = false) as ->.
  { unfold is_quote in Hq. apply orb_true_iff in Hq as [Hq|Hq]; apply N.eqb_eq in Hq; subst f; reflexivity. }
  reflexivity.
Qed.

Lemma aval_u_char toks p (buf : str) gs attrs (name cm cd an : str) ans ane (f : rune) (t : str) avs ave (r : rune) :
  is_quote f = false -> N.eqb r cGT = false -> is_space r = false ->
  step (mkS toks p (MTag (mkTag TAttrValue buf gs attrs name cm cd an ans ane (f :: t) avs ave))) r =
  mkS toks (adv p r) (MTag (mkTag TAttrValue (buf ++ [r]) gs attrs name cm cd an ans ane ((f :: t) ++ [r]) avs (adv p r))).
Proof.
  intros Hq Hgt Hsp. open_step. unfold is_quote in Hq. rewrite Hq, Hsp, Hgt. cbn [andb negb orb].
  unfold finish_or. rewrite Hgt. reflexivity.
Qed.

Lemma aval_u_sp toks p (buf : str) gs attrs (name cm cd an : str) ans ane (f : rune) (t : str) avs ave :
  is_quote f = false -> is_space cSP = true ->
  compile (mkAttr (trim_sp an) ans ane (Some (f :: t)) avs ave) = true ->
  has_attr (trim_sp an) attrs = false ->
  step (mkS toks p (MTag (mkTag TAttrValue buf gs attrs name cm cd an ans ane (f :: t) avs ave))) cSP =
  mkS toks (adv p cSP) (MTag (mkTag TSpace (buf ++ [cSP]) gs
        (mkAttr (trim_sp an) ans ane (Some (f :: t)) avs ave :: attrs)
        name cm cd an ans ane (f :: t) avs ave)).
Proof.
  intros Hq Hsp Hc Hd. open_step. unfold is_quote in Hq. rewrite Hq, Hsp. cbn [andb negb orb].
  rewrite add_attr_some by (gcbn; assumption). reflexivity.
Qed.

Lemma aval_u_gt toks p (buf : str) gs attrs (name cm cd an : str) ans ane (f : rune) (t : str) avs ave :
  is_quote f = false ->
  compile (mkAttr (trim_sp an) ans ane (Some (f :: t)) avs ave) = true ->
  has_attr (trim_sp an) attrs = false ->
  step (mkS toks p (MTag (mkTag TAttrValue buf gs attrs name cm cd an ans ane (f :: t) avs ave))) cGT =
  mkS (mkTok KTag (buf ++ [cGT]) gs (adv p cGT) name
         (rev (mkAttr (trim_sp an) ans ane (Some (f :: t)) avs ave :: attrs)) :: toks) (adv p cGT) MInit.
Proof.
  intros Hq Hc Hd. open_step. unfold is_quote in Hq. rewrite Hq.
  replace (N.eqb cGT cGT) with true by reflexivity. rewrite orb_true_r. cbn [andb negb orb].
  rewrite add_attr_some by (gcbn; assumption). reflexivity.
Qed.

End P.
