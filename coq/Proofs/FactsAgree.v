(* The constants the models use are the ones the Go sources contain NOW: Gen/Facts.v is regenerated
   from /repo by tools/factgen on every run, and this file is re-checked against it. *)
From Tpl Require Import Gen.Facts Html.Exec Exp.Parse Exp.Eval.
From Coq Require Import Lia.
Open Scope N_scope.

Lemma directive_names_agree :
  d_with = c_attrWith /\ d_if = c_attrIf /\ d_else_if = c_attrElse_If /\ d_elseif = c_attrElseIf /\ d_elif = c_attrElIf /\
  d_else = c_attrElse /\ d_remove = c_attrRemove /\ d_range = c_attrRange /\ d_text = c_attrText /\ d_raw = c_attrRaw /\
  d_define = c_attrDefine /\ d_insert = c_attrInsert /\ d_replace = c_attrReplace /\ d_block = c_tagNameBlock /\ s_true = c_textTrue.
Proof. repeat split; reflexivity. Qed.

Lemma remove_literals_agree :
  remove_values s_all = [c_removeAll1; c_removeAll2] /\ remove_values s_body = [c_removeBody1; c_removeBody2] /\
  remove_values s_tag = [c_removeTag1; c_removeTag2] /\ remove_values s_abf = [c_removeAllButFirst1; c_removeAllButFirst2].
Proof. repeat split; reflexivity. Qed.

(* the weight function of the model is the weight map literal of Tag.SortedAttr (missing keys = 0) *)
Definition facts_weight (n : str) : Z :=
  match find (fun kv => str_eqb n (fst kv)) Facts.weights with Some kv => snd kv | None => 0%Z end.
Lemma weight_agrees : forall n, weight n = facts_weight n.
Proof.
  intros n. unfold weight, facts_weight, is_cond_name, cond_names, Facts.weights.
  cbv [d_with d_if d_else_if d_elseif d_elif d_else d_range d_remove].
  cbn [find existsb fst snd].
  repeat match goal with
         | |- context [str_eqb n ?k] => destruct (str_eqb n k) eqn:?; cbn [orb]; try reflexivity
         end.
Qed.

(* precedence constants of the generated parser *)
Lemma precedences_agree :
  Parse.unary_operand_prec = Facts.unary_operand_prec /\
  Facts.loop_levels = [(6, [7]); (5, [6]); (4, [5]); (3, [4]); (2, [3]); (cond_level, [cond_mid_prec; cond_right_prec])]%nat /\
  (forall b, In (blevel b, [S (blevel b)]) Facts.loop_levels).
Proof.
  repeat split; try reflexivity.
  intros b; destruct b; cbn; auto 10.
Qed.

(* every name of the built-in scope is bound in the model's default scope, and conversely *)
Fixpoint sorted_insert (s : str) (l : list str) : list str :=
  match l with [] => [s] | x :: r => match str_compare s x with Gt => x :: sorted_insert s r | _ => s :: l end end.
Lemma builtin_names_agree :
  fold_right sorted_insert [] (map fst builtins) = Facts.builtin_names.
Proof. vm_compute. reflexivity. Qed.

Print Assumptions weight_agrees.
Print Assumptions precedences_agree.

(* ---- the operator tokens of each precedence level, decoded by factgen from the token-set tests of the generated
        expression(_p) loop, and the lexer's punctuation table against the generated LiteralNames ---- *)
Lemma punct_literals_agree : map fst Lex.puncts = Facts.punct_literals.
Proof. reflexivity. Qed.
Definition ops_of_level (l : nat) : list str :=
  match find (fun x => Nat.eqb (fst x) l) Facts.level_ops with Some x => snd x | None => [] end.
Definition mem_str (s : str) (l : list str) : bool := existsb (str_eqb s) l.
(* a punctuation token is a binary operator of the model at level n  <->  the generated parser accepts it at level n;
   the conditional operator sits alone at cond_level; the unary operators are the generated parser's *)
Definition operator_tables_ok : bool :=
  forallb (fun lp : str * punct =>
             match binop_of (snd lp) with
             | Some b => forallb (fun l => Bool.eqb (mem_str (fst lp) (ops_of_level l)) (Nat.eqb l (blevel b))) [2;3;4;5;6]%nat
             | None => forallb (fun l => negb (mem_str (fst lp) (ops_of_level l))) [2;3;4;5;6]%nat
             end
             && Bool.eqb (mem_str (fst lp) Facts.unary_ops) (match unop_of (snd lp) with Some _ => true | None => false end)
             && Bool.eqb (mem_str (fst lp) (ops_of_level cond_level)) (match snd lp with QUESTION => true | _ => false end))
          Lex.puncts
  && forallb (fun lo : nat * list str => forallb (fun o => mem_str o (map fst Lex.puncts)) (snd lo)) Facts.level_ops
  && forallb (fun o => mem_str o (map fst Lex.puncts)) Facts.unary_ops
  && Nat.eqb (length Facts.level_ops) 6.
Lemma operator_tables_agree : operator_tables_ok = true.
Proof. vm_compute. reflexivity. Qed.
Lemma str_eqb_true_eq : forall a b : str, str_eqb a b = true -> a = b.
Proof. induction a as [|x s IH]; intros [|y t] E; try discriminate; [reflexivity|]. cbn in E. apply andb_prop in E as [E1 E2]. apply N.eqb_eq in E1. subst. f_equal. apply IH. exact E2. Qed.
(* the Prop reading of the first clause: the level the model gives a binary operator is the level at which the
   generated parser accepts its token *)
Lemma binop_level_from_source : forall lit p b, In (lit, p) Lex.puncts -> binop_of p = Some b ->
  In lit (ops_of_level (blevel b)) /\ forall l, In l [2;3;4;5;6]%nat -> l <> blevel b -> ~ In lit (ops_of_level l).
Proof.
  intros lit p b Hin Hb. pose proof operator_tables_agree as H. unfold operator_tables_ok in H.
  do 3 (apply andb_prop in H as [H _]).
  rewrite forallb_forall in H. specialize (H _ Hin). cbn [fst snd] in H.
  do 2 (apply andb_prop in H as [H _]). rewrite Hb in H. rewrite forallb_forall in H.
  assert (M : forall l, mem_str lit (ops_of_level l) = true <-> In lit (ops_of_level l)).
  { intros l. unfold mem_str. rewrite existsb_exists. split.
    - intros [x [Hx E]]. apply str_eqb_true_eq in E. subst. exact Hx.
    - intros Hx. exists lit. split; [exact Hx|]. clear. induction lit as [|c r IH]; [reflexivity|]. cbn. rewrite N.eqb_refl. exact IH. }
  split.
  - assert (Hl : In (blevel b) [2;3;4;5;6]%nat) by (destruct b; cbn; auto 10).
    specialize (H _ Hl). rewrite Nat.eqb_refl in H. apply Bool.eqb_prop in H. apply M. exact H.
  - intros l Hl Hne Hc. specialize (H _ Hl). apply M in Hc. rewrite Hc in H.
    apply Bool.eqb_prop in H. symmetry in H. apply Nat.eqb_eq in H. contradiction.
Qed.
Print Assumptions binop_level_from_source.
