(* The constants the models use are the ones the Go sources contain NOW: Gen/Facts.v is regenerated
   from /repo by tools/factgen on every run, and this file is re-checked against it. *)
From Tpl Require Import Gen.Facts Html.Exec Exp.Parse Exp.Eval.
From Coq Require Import Lia.
Open Scope N_scope.

Lemma directive_names_agree :
  d_with = c_attrWith /\ d_if = c_attrIf /\ d_else_if = c_attrElse_If /\ d_elseif = c_attrElseIf /\ d_elif = c_attrElIf /\
  d_else = c_attrElse /\ d_remove = c_attrRemove /\ d_range = c_attrRange /\ d_text = c_attrText /\ d_raw = c_attrRaw /\
  d_define = c_attrDefine /\ d_insert = c_attrInsert /\ d_replace = c_attrReplace /\ d_block = c_tagNameBlock /\ s_true = c_textTrue.
Proof. repeat split; reflexivity. Qed.

Lemma remove_literals_agree :
  remove_values s_all = [c_removeAll1; c_removeAll2] /\ remove_values s_body = [c_removeBody1; c_removeBody2] /\
  remove_values s_tag = [c_removeTag1; c_removeTag2] /\ remove_values s_abf = [c_removeAllButFirst1; c_removeAllButFirst2].
Proof. repeat split; reflexivity. Qed.

(* the weight function of the model is the weight map literal of Tag.SortedAttr (missing keys = 0) *)
Definition facts_weight (n : str) : Z :=
  match find (fun kv => str_eqb n (fst kv)) Facts.weights with Some kv => snd kv | None => 0%Z end.
Lemma weight_agrees : forall n, weight n = facts_weight n.
Proof.
  intros n. unfold weight, facts_weight, is_cond_name, cond_names, Facts.weights.
  cbv [d_with d_if d_else_if d_elseif d_elif d_else d_range d_remove].
  cbn [find existsb fst snd].
  repeat match goal with
         | |- context [str_eqb n ?k] => destruct (str_eqb n k) eqn:?; cbn [orb]; try reflexivity
         end.
Qed.

(* precedence constants of the generated parser *)
Lemma precedences_agree :
  Parse.unary_operand_prec = Facts.unary_operand_prec /\
  Facts.loop_levels = [(6, [7]); (5, [6]); (4, [5]); (3, [4]); (2, [3]); (cond_level, [cond_mid_prec; cond_right_prec])]%nat /\
  (forall b, In (blevel b, [S (blevel b)]) Facts.loop_levels).
Proof.
  repeat split; try reflexivity.
  intros b; destruct b; cbn; auto 10.
Qed.

(* every name of the built-in scope is bound in the model's default scope, and conversely *)
Fixpoint sorted_insert (s : str) (l : list str) : list str :=
  match l with [] => [s] | x :: r => match str_compare s x with Gt => x :: sorted_insert s r | _ => s :: l end end.
Lemma builtin_names_agree :
  fold_right sorted_insert [] (map fst builtins) = Facts.builtin_names.
Proof. vm_compute. reflexivity. Qed.

Print Assumptions weight_agrees.
Print Assumptions precedences_agree.
