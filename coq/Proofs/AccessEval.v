(* Member access, indexing and slicing at the level of [eval]: a.name, a['name'], a[i], a[i:j] and
   a[i:j:k] return exactly what [get_value] / [slice_seq] return on the value of [a]; everything
   that is not there (absent field or key, out-of-range index or bound, nil receiver, unexported
   field, unsupported kind) is an error - never a zero value.  Complements Proofs/AccessSpec.v,
   which is about [get_value] and [slice_seq] alone. *)
From Tpl Require Import Exp.Eval Proofs.AccessSpec.
From Coq Require Import Lia.
Open Scope N_scope.

Section AccessEval.
Variable methods : N -> bool -> list (str * N).
Variable call_fn : N -> list value -> fres.
Variable sc : scope.

Notation ev := (eval methods call_fn sc).
Notation get := (get_value methods).

(* ---------- unfolding equations (all by computation) ---------- *)
(* an optional slice bound *)
Definition ev_bound (o : option expr) (dflt : Z) (lg : log) : res Z * log :=
  match o with None => (Ok dflt, lg) | Some x => thread (ev x lg) (fun xv => lift (as_int xv)) end.

(* the text an index value selects with *)
Definition index_name (iv : value) : res str :=
  match is_int iv, iv with
  | Some z, _ => Ok (str_of_Z z)
  | None, VStr s => Ok s
  | None, VOpaque _ => Unmodelled
  | None, _ => Err COther
  end.

Lemma eval_field_eq : forall a p name lg,
  ev (EField a p name) lg =
  thread (ev a lg) (fun v => lift
    (match get name v with Found x => Ok x | Absent => Err CNoSuchValue | Failed => Err COther end)).
Proof. reflexivity. Qed.

Lemma eval_index_eq : forall a i lg,
  ev (EIndex a i) lg =
  thread (ev a lg) (fun v lg1 => thread (ev i lg1) (fun iv => lift
    (bind (index_name iv) (fun name =>
       match get name v with Found x => Ok x | Absent => Err CNoSuchValue | Failed => Err COther end)))).
Proof. reflexivity. Qed.

Lemma eval_slice_eq : forall a lo hi lg,
  ev (ESlice a lo hi) lg =
  thread (ev a lg) (fun v lg1 =>
    match v with
    | VSeq arr l ex =>
      thread (ev_bound lo 0%Z lg1) (fun s lg2 =>
        thread (ev_bound hi (Z.of_nat (length l)) lg2) (fun e' => lift
          (if arr then Err COther else slice_seq l ex s e' None)))
    | VOpaque _ => (Unmodelled, lg1)
    | _ => (Err COther, lg1)
    end).
Proof. reflexivity. Qed.

Lemma eval_slice3_eq : forall a lo hi cp lg,
  ev (ESlice3 a lo hi cp) lg =
  thread (ev a lg) (fun v lg1 =>
    match v with
    | VSeq arr l ex =>
      thread (ev_bound lo 0%Z lg1) (fun s lg2 =>
        thread (ev_bound (Some hi) 0%Z lg2) (fun e' lg3 =>
          thread (ev_bound (Some cp) 0%Z lg3) (fun m => lift
            (if arr then Err COther else slice_seq l ex s e' (Some m)))))
    | VOpaque _ => (Unmodelled, lg1)
    | _ => (Err COther, lg1)
    end).
Proof. reflexivity. Qed.

Lemma ev_bound_none : forall dflt lg, ev_bound None dflt lg = (Ok dflt, lg).
Proof. reflexivity. Qed.

(* a bound expression that evaluates to an integer is that integer (as int64); the default is unused *)
Lemma ev_bound_int : forall x dflt lg xv lg' z,
  ev x lg = (Ok xv, lg') -> is_int xv = Some z -> ev_bound (Some x) dflt lg = (Ok z, lg').
Proof.
  intros x dflt lg xv lg' z Hx Hz.
  unfold ev_bound. rewrite Hx. cbn [thread]. unfold lift, as_int. rewrite Hz. reflexivity.
Qed.

(* ---------- 1. a.name ---------- *)
Theorem field_result : forall a p name lg v lg1,
  ev a lg = (Ok v, lg1) ->
  ev (EField a p name) lg =
  (match get name v with Found x => Ok x | Absent => Err CNoSuchValue | Failed => Err COther end, lg1).
Proof.
  intros a p name lg v lg1 Ha.
  rewrite eval_field_eq, Ha. reflexivity.
Qed.

(* a successful member access returns a value that is really there *)
Corollary field_never_invents : forall a p name lg x lg' v lg1,
  ev (EField a p name) lg = (Ok x, lg') -> ev a lg = (Ok v, lg1) ->
  get name v = Found x.
Proof.
  intros a p name lg x lg' v lg1 Hf Ha.
  rewrite (field_result a p name lg v lg1 Ha) in Hf.
  destruct (get name v) as [y | |].
  - injection Hf as Hy _. rewrite Hy. reflexivity.
  - discriminate Hf.
  - discriminate Hf.
Qed.

(* ... and the receiver's failure is the failure of the access (nothing is looked up) *)
Theorem field_of_failure : forall a p name lg c lg1,
  ev a lg = (Err c, lg1) -> ev (EField a p name) lg = (Err c, lg1).
Proof.
  intros a p name lg c lg1 Ha. rewrite eval_field_eq, Ha. reflexivity.
Qed.

(* ---------- 2. a['name'] / a["name"] agrees with a.name ---------- *)
Theorem index_string_agrees_with_field : forall a i lg v lg1 name lg2,
  ev a lg = (Ok v, lg1) -> ev i lg1 = (Ok (VStr name), lg2) ->
  ev (EIndex a i) lg =
  (match get name v with Found x => Ok x | Absent => Err CNoSuchValue | Failed => Err COther end, lg2).
Proof.
  intros a i lg v lg1 name lg2 Ha Hi.
  rewrite eval_index_eq, Ha. cbn [thread]. rewrite Hi. reflexivity.
Qed.

(* when the index expression makes no calls (lg2 = lg1) the two expressions are interchangeable *)
Corollary index_string_same_as_field : forall a i p lg v lg1 name,
  ev a lg = (Ok v, lg1) -> ev i lg1 = (Ok (VStr name), lg1) ->
  ev (EIndex a i) lg = ev (EField a p name) lg.
Proof.
  intros a i p lg v lg1 name Ha Hi.
  rewrite (index_string_agrees_with_field a i lg v lg1 name lg1 Ha Hi).
  rewrite (field_result a p name lg v lg1 Ha). reflexivity.
Qed.

Lemma eval_str_lit : forall t l c lg,
  ev (ELit LStr t l c) lg = (bind (unquote_lit t) (fun s => Ok (VStr s)), lg).
Proof. reflexivity. Qed.

(* the special case of a string literal (either quote style: [unquote_lit] handles both) *)
Corollary index_literal_same_as_field : forall a t l c p lg v lg1 name,
  ev a lg = (Ok v, lg1) -> unquote_lit t = Ok name ->
  ev (EIndex a (ELit LStr t l c)) lg = ev (EField a p name) lg.
Proof.
  intros a t l c p lg v lg1 name Ha Ht.
  apply (index_string_same_as_field a (ELit LStr t l c) p lg v lg1 name Ha).
  rewrite eval_str_lit, Ht. reflexivity.
Qed.

(* ---------- 3. a[i] with an integer i ---------- *)
Theorem index_int_is_get : forall a i lg v lg1 iv lg2 z,
  ev a lg = (Ok v, lg1) -> ev i lg1 = (Ok iv, lg2) -> is_int iv = Some z ->
  ev (EIndex a i) lg =
  (match get (str_of_Z z) v with Found x => Ok x | Absent => Err CNoSuchValue | Failed => Err COther end, lg2).
Proof.
  intros a i lg v lg1 iv lg2 z Ha Hi Hz.
  rewrite eval_index_eq, Ha. cbn [thread]. rewrite Hi. cbn [thread].
  unfold index_name. rewrite Hz. reflexivity.
Qed.

(* an index that is neither an integer nor a string selects nothing: an error *)
Definition bad_index_kind (iv : value) : Prop :=
  match iv with VInt _ _ | VStr _ | VOpaque _ => False | _ => True end.

Theorem index_bad_kind_is_error : forall a i lg v lg1 iv lg2,
  ev a lg = (Ok v, lg1) -> ev i lg1 = (Ok iv, lg2) -> bad_index_kind iv ->
  ev (EIndex a i) lg = (Err COther, lg2).
Proof.
  intros a i lg v lg1 iv lg2 Ha Hi Hk.
  rewrite eval_index_eq, Ha. cbn [thread]. rewrite Hi. cbn [thread].
  destruct iv; try contradiction; reflexivity.
Qed.

(* ---------- 4. kinds without members ---------- *)
(* [methods_of] is [] by definition for every value that is not a struct or a pointer, so no
   hypothesis about the method table is needed *)
Definition memberless_kind (v : value) : Prop :=
  match v with VBool _ | VInt _ _ | VFloat _ _ | VStr _ | VFunc _ _ => True | _ => False end.

Lemma memberless_no_methods : forall v, memberless_kind v -> methods_of methods v = [].
Proof. intros v Hv. destruct v; try contradiction; reflexivity. Qed.

Theorem unsupported_kind_is_absent : forall v name, memberless_kind v -> get name v = Absent.
Proof. intros v name Hv. destruct v; try contradiction; reflexivity. Qed.

Corollary unsupported_kind_is_error : forall a p name lg v lg1,
  ev a lg = (Ok v, lg1) -> memberless_kind v ->
  ev (EField a p name) lg = (Err CNoSuchValue, lg1).
Proof.
  intros a p name lg v lg1 Ha Hv.
  rewrite (field_result a p name lg v lg1 Ha), (unsupported_kind_is_absent v name Hv). reflexivity.
Qed.

(* the same through an index, whatever string or integer the index is *)
Corollary unsupported_kind_index_is_error : forall a i lg v lg1 iv lg2 name,
  ev a lg = (Ok v, lg1) -> ev i lg1 = (Ok iv, lg2) -> index_name iv = Ok name -> memberless_kind v ->
  ev (EIndex a i) lg = (Err CNoSuchValue, lg2).
Proof.
  intros a i lg v lg1 iv lg2 name Ha Hi Hn Hv.
  rewrite eval_index_eq, Ha. cbn [thread]. rewrite Hi. cbn [thread].
  rewrite Hn. cbn [bind]. rewrite (unsupported_kind_is_absent v name Hv). reflexivity.
Qed.

(* nil receivers *)
Corollary nil_receiver_is_error : forall a p name lg lg1,
  ev a lg = (Ok VNil, lg1) -> ev (EField a p name) lg = (Err CNoSuchValue, lg1).
Proof.
  intros a p name lg lg1 Ha. rewrite (field_result a p name lg VNil lg1 Ha). reflexivity.
Qed.

Corollary nil_pointer_receiver_is_error : forall a p name lg addr ty lg1,
  ev a lg = (Ok (VPtr addr ty None), lg1) -> assoc name (methods ty true) = None ->
  ev (EField a p name) lg = (Err CNoSuchValue, lg1).
Proof.
  intros a p name lg addr ty lg1 Ha Hm.
  rewrite (field_result a p name lg _ lg1 Ha).
  unfold get_value. cbn [methods_of]. rewrite Hm. reflexivity.
Qed.

(* unexported fields *)
Corollary unexported_field_is_error : forall a p name lg ty fs x lg1,
  ev a lg = (Ok (VStruct ty fs), lg1) -> assoc name (methods ty false) = None ->
  assoc name fs = Some (false, x) ->
  ev (EField a p name) lg = (Err COther, lg1).
Proof.
  intros a p name lg ty fs x lg1 Ha Hm Hf.
  rewrite (field_result a p name lg _ lg1 Ha).
  rewrite (get_struct_field methods ty fs name Hm), Hf. reflexivity.
Qed.

(* ---------- 5. three-index slices ---------- *)
Theorem slice3_ok : forall l ex lo hi m,
  (0 <= lo)%Z -> (lo <= hi)%Z -> (hi <= m)%Z -> (m <= Z.of_nat (length (l ++ ex)))%Z ->
  slice_seq l ex lo hi (Some m) =
  Ok (VSeq false (firstn (Z.to_nat (hi - lo)) (skipn (Z.to_nat lo) (l ++ ex)))
                 (firstn (Z.to_nat (m - hi)) (skipn (Z.to_nat hi) (l ++ ex)))).
Proof.
  intros l ex lo hi m H0 H1 H2 H3.
  unfold slice_seq. cbv zeta.
  set (all := l ++ ex) in *.
  assert (Hc : ((0 <=? lo) && (lo <=? hi) && (hi <=? m) && (m <=? Z.of_nat (length all)))%Z = true).
  { repeat (apply andb_true_intro; split); apply Z.leb_le; assumption. }
  rewrite Hc. reflexivity.
Qed.

(* new length hi-lo ... *)
Theorem slice3_len : forall (all : list value) lo hi m,
  (0 <= lo)%Z -> (lo <= hi)%Z -> (hi <= m)%Z -> (m <= Z.of_nat (length all))%Z ->
  length (firstn (Z.to_nat (hi - lo)) (skipn (Z.to_nat lo) all)) = Z.to_nat (hi - lo).
Proof.
  intros all lo hi m H0 H1 H2 H3.
  rewrite firstn_length, skipn_length. lia.
Qed.

(* ... the part between the new length and the new capacity has m-hi elements ... *)
Theorem slice3_extra_len : forall (all : list value) lo hi m,
  (0 <= lo)%Z -> (lo <= hi)%Z -> (hi <= m)%Z -> (m <= Z.of_nat (length all))%Z ->
  length (firstn (Z.to_nat (m - hi)) (skipn (Z.to_nat hi) all)) = Z.to_nat (m - hi).
Proof.
  intros all lo hi m H0 H1 H2 H3.
  rewrite firstn_length, skipn_length. lia.
Qed.

(* ... so the new capacity is m-lo *)
Corollary slice3_cap : forall (all : list value) lo hi m,
  (0 <= lo)%Z -> (lo <= hi)%Z -> (hi <= m)%Z -> (m <= Z.of_nat (length all))%Z ->
  (length (firstn (Z.to_nat (hi - lo)) (skipn (Z.to_nat lo) all)) +
   length (firstn (Z.to_nat (m - hi)) (skipn (Z.to_nat hi) all)))%nat = Z.to_nat (m - lo).
Proof.
  intros all lo hi m H0 H1 H2 H3.
  rewrite (slice3_len all lo hi m H0 H1 H2 H3), (slice3_extra_len all lo hi m H0 H1 H2 H3). lia.
Qed.

Lemma nth_error_firstn_lt : forall A (l : list A) (n k : nat), (k < n)%nat ->
  nth_error (firstn n l) k = nth_error l k.
Proof.
  intros A l. induction l as [| x l IH]; intros n k Hk.
  - rewrite firstn_nil. reflexivity.
  - destruct n as [| n]; [inversion Hk|].
    destruct k as [| k]; [reflexivity|].
    cbn [firstn nth_error]. apply IH. apply Nat.succ_lt_mono. exact Hk.
Qed.

Lemma nth_error_skipn_add : forall A (l : list A) (n k : nat),
  nth_error (skipn n l) k = nth_error l (n + k).
Proof.
  intros A l. induction l as [| x l IH]; intros n k.
  - rewrite skipn_nil. destruct k, n; reflexivity.
  - destruct n as [| n]; [reflexivity|].
    cbn [skipn Nat.add nth_error]. apply IH.
Qed.

(* the elements are those of the original, in place: element k of the result is element lo+k *)
Theorem slice3_nth : forall (all : list value) lo hi (k : nat),
  (k < Z.to_nat (hi - lo))%nat ->
  nth_error (firstn (Z.to_nat (hi - lo)) (skipn (Z.to_nat lo) all)) k = nth_error all (Z.to_nat lo + k).
Proof.
  intros all lo hi k Hk.
  rewrite (nth_error_firstn_lt _ _ _ _ Hk).
  apply nth_error_skipn_add.
Qed.

Theorem slice3_bad : forall l ex lo hi m,
  (lo < 0 \/ hi < lo \/ m < hi \/ Z.of_nat (length (l ++ ex)) < m)%Z ->
  slice_seq l ex lo hi (Some m) = Err COther.
Proof.
  intros l ex lo hi m H.
  unfold slice_seq. cbv zeta.
  set (all := l ++ ex) in *.
  destruct (Z.leb_spec 0 lo) as [H0 | H0]; [| reflexivity].
  destruct (Z.leb_spec lo hi) as [H1 | H1]; [| reflexivity].
  destruct (Z.leb_spec hi m) as [H2 | H2]; [| reflexivity].
  destruct (Z.leb_spec m (Z.of_nat (length all))) as [H3 | H3]; [| reflexivity].
  lia.
Qed.

(* slicing a slice at the level of [eval]: exactly [slice_seq] on the evaluated bounds *)
Theorem slice_result : forall a lo hi lg l ex lg1 s lg2 e lg3,
  ev a lg = (Ok (VSeq false l ex), lg1) ->
  ev_bound lo 0%Z lg1 = (Ok s, lg2) -> ev_bound hi (Z.of_nat (length l)) lg2 = (Ok e, lg3) ->
  ev (ESlice a lo hi) lg = (slice_seq l ex s e None, lg3).
Proof.
  intros a lo hi lg l ex lg1 s lg2 e lg3 Ha Hlo Hhi.
  rewrite eval_slice_eq, Ha. cbn [thread]. rewrite Hlo. cbn [thread]. rewrite Hhi. reflexivity.
Qed.

Theorem slice3_result : forall a lo hi cp lg l ex lg1 s lg2 e lg3 m lg4,
  ev a lg = (Ok (VSeq false l ex), lg1) ->
  ev_bound lo 0%Z lg1 = (Ok s, lg2) -> ev_bound (Some hi) 0%Z lg2 = (Ok e, lg3) ->
  ev_bound (Some cp) 0%Z lg3 = (Ok m, lg4) ->
  ev (ESlice3 a lo hi cp) lg = (slice_seq l ex s e (Some m), lg4).
Proof.
  intros a lo hi cp lg l ex lg1 s lg2 e lg3 m lg4 Ha Hlo Hhi Hcp.
  rewrite eval_slice3_eq, Ha. cbn [thread]. rewrite Hlo. cbn [thread]. rewrite Hhi. cbn [thread].
  rewrite Hcp. reflexivity.
Qed.

(* ---------- 6. slicing what is not a slice ---------- *)
Definition not_sliceable (v : value) : Prop :=
  match v with VSeq _ _ _ | VOpaque _ => False | _ => True end.

Theorem slice_of_non_slice_is_error : forall a lo hi lg v lg1,
  ev a lg = (Ok v, lg1) -> not_sliceable v ->
  ev (ESlice a lo hi) lg = (Err COther, lg1).
Proof.
  intros a lo hi lg v lg1 Ha Hv.
  rewrite eval_slice_eq, Ha. cbn [thread].
  destruct v; try contradiction; reflexivity.
Qed.

Theorem slice3_of_non_slice_is_error : forall a lo hi cp lg v lg1,
  ev a lg = (Ok v, lg1) -> not_sliceable v ->
  ev (ESlice3 a lo hi cp) lg = (Err COther, lg1).
Proof.
  intros a lo hi cp lg v lg1 Ha Hv.
  rewrite eval_slice3_eq, Ha. cbn [thread].
  destruct v; try contradiction; reflexivity.
Qed.

(* an array reached through an interface is not addressable *)
Theorem slice_of_array_is_error : forall a lg l ex lg1,
  ev a lg = (Ok (VSeq true l ex), lg1) ->
  ev (ESlice a None None) lg = (Err COther, lg1).
Proof.
  intros a lg l ex lg1 Ha.
  rewrite eval_slice_eq, Ha. reflexivity.
Qed.

(* general bounds: whatever integers they evaluate to *)
Theorem slice_of_array_is_error_bounds : forall a lo hi lg l ex lg1 s lg2 e lg3,
  ev a lg = (Ok (VSeq true l ex), lg1) ->
  ev_bound lo 0%Z lg1 = (Ok s, lg2) -> ev_bound hi (Z.of_nat (length l)) lg2 = (Ok e, lg3) ->
  ev (ESlice a lo hi) lg = (Err COther, lg3).
Proof.
  intros a lo hi lg l ex lg1 s lg2 e lg3 Ha Hlo Hhi.
  rewrite eval_slice_eq, Ha. cbn [thread]. rewrite Hlo. cbn [thread]. rewrite Hhi. reflexivity.
Qed.

Theorem slice3_of_array_is_error_bounds : forall a lo hi cp lg l ex lg1 s lg2 e lg3 m lg4,
  ev a lg = (Ok (VSeq true l ex), lg1) ->
  ev_bound lo 0%Z lg1 = (Ok s, lg2) -> ev_bound (Some hi) 0%Z lg2 = (Ok e, lg3) ->
  ev_bound (Some cp) 0%Z lg3 = (Ok m, lg4) ->
  ev (ESlice3 a lo hi cp) lg = (Err COther, lg4).
Proof.
  intros a lo hi cp lg l ex lg1 s lg2 e lg3 m lg4 Ha Hlo Hhi Hcp.
  rewrite eval_slice3_eq, Ha. cbn [thread]. rewrite Hlo. cbn [thread]. rewrite Hhi. cbn [thread].
  rewrite Hcp. reflexivity.
Qed.

(* a slice expression never succeeds with anything but a (non-array) sequence value *)
Theorem slice_success_is_seq : forall a lo hi lg x lg',
  ev (ESlice a lo hi) lg = (Ok x, lg') -> exists l ex, x = VSeq false l ex.
Proof.
  intros a lo hi lg x lg' H. rewrite eval_slice_eq in H.
  destruct (ev a lg) as [[v | c |] lg1]; cbn [thread] in H; try discriminate H.
  destruct v; try discriminate H.
  destruct (ev_bound lo 0%Z lg1) as [[s | c |] lg2]; cbn [thread] in H; try discriminate H.
  destruct (ev_bound hi (Z.of_nat (length l)) lg2) as [[e | c |] lg3]; cbn [thread] in H; try discriminate H.
  unfold lift in H. destruct arr; [discriminate H|].
  unfold slice_seq in H. cbv zeta in H.
  match type of H with ((if ?c then _ else _), _) = _ => destruct c end; [| discriminate H].
  injection H as Hx _. subst x. eexists. eexists. reflexivity.
Qed.

End AccessEval.

(* ---------- concrete instances (sanity checks of the statements above) ---------- *)
Module Examples.
Definition x_methods : N -> bool -> list (str * N) := fun ty _ => if N.eqb ty 7 then [([77], 500)] else [].
Definition x_call : N -> list value -> fres := fun _ _ => FPanic.
(* struct type 7 { F string; u int } with method M *)
Definition x_struct := VStruct 7 [([70], (true, VStr [104])); ([117], (false, VInt KInt 1))].
Definition x_data : value := VMap
  [ ([109], VMap [([110], VInt KInt 7); ([122], VNil)]);                                            (* m = {n: 7, z: nil} *)
    ([115], VSeq false [VInt KInt 10; VInt KInt 11; VInt KInt 12] [VInt KInt 13; VInt KInt 14]);    (* s: len 3, cap 5 *)
    ([97], VSeq true [VInt KInt 1; VInt KInt 2] []);                                                (* a: [2]int *)
    ([116], x_struct);                                                                              (* t *)
    ([112], VPtr 1 7 None);                                                                         (* p: nil pointer *)
    ([113], VPtr 2 7 (Some x_struct));                                                              (* q: &t *)
    ([102], VFloat false 0%Z);                                                                      (* f *)
    ([105], VInt KInt 5) ].                                                                         (* i *)
Definition x_ev := eval x_methods x_call (with_default (SData x_data)).
Definition nm s := EName s 1 1.
Definition ilit t := ELit LInt t 1 1.
Definition slit t := ELit LStr t 1 1.
Definition ints (l : list Z) := map (VInt KInt) l.

(* m.n, m["n"], m['n'] *)
Example ex_field : x_ev (EField (nm [109]) false [110]) [] = (Ok (VInt KInt 7), []).
Proof. vm_compute. reflexivity. Qed.
Example ex_index_dq : x_ev (EIndex (nm [109]) (slit [34;110;34])) [] = (Ok (VInt KInt 7), []).
Proof. vm_compute. reflexivity. Qed.
Example ex_index_sq : x_ev (EIndex (nm [109]) (slit [39;110;39])) [] = (Ok (VInt KInt 7), []).
Proof. vm_compute. reflexivity. Qed.
(* present with a nil value is found; absent is an error *)
Example ex_present_nil : x_ev (EField (nm [109]) false [122]) [] = (Ok VNil, []).
Proof. vm_compute. reflexivity. Qed.
Example ex_absent_key : x_ev (EField (nm [109]) false [113]) [] = (Err CNoSuchValue, []).
Proof. vm_compute. reflexivity. Qed.
(* s[1], s[3] (inside the capacity, outside the length), s[f] *)
Example ex_index_int : x_ev (EIndex (nm [115]) (ilit [49])) [] = (Ok (VInt KInt 11), []).
Proof. vm_compute. reflexivity. Qed.
Example ex_index_range : x_ev (EIndex (nm [115]) (ilit [51])) [] = (Err COther, []).
Proof. vm_compute. reflexivity. Qed.
Example ex_index_float : x_ev (EIndex (nm [115]) (nm [102])) [] = (Err COther, []).
Proof. vm_compute. reflexivity. Qed.
(* s[1:2], s[:5], s[:6], s[2:1] *)
Example ex_slice : x_ev (ESlice (nm [115]) (Some (ilit [49])) (Some (ilit [50]))) [] =
  (Ok (VSeq false (ints [11]) (ints [12; 13; 14]))%Z, []).
Proof. vm_compute. reflexivity. Qed.
Example ex_slice_to_cap : x_ev (ESlice (nm [115]) None (Some (ilit [53]))) [] =
  (Ok (VSeq false (ints [10; 11; 12; 13; 14]) [])%Z, []).
Proof. vm_compute. reflexivity. Qed.
Example ex_slice_past_cap : x_ev (ESlice (nm [115]) None (Some (ilit [54]))) [] = (Err COther, []).
Proof. vm_compute. reflexivity. Qed.
Example ex_slice_inverted : x_ev (ESlice (nm [115]) (Some (ilit [50])) (Some (ilit [49]))) [] = (Err COther, []).
Proof. vm_compute. reflexivity. Qed.
(* s[1:2:4] has length 1 and capacity 3; s[1:2:6] and s[1:2:1] are errors *)
Example ex_slice3 : x_ev (ESlice3 (nm [115]) (Some (ilit [49])) (ilit [50]) (ilit [52])) [] =
  (Ok (VSeq false (ints [11]) (ints [12; 13]))%Z, []).
Proof. vm_compute. reflexivity. Qed.
Example ex_slice3_past_cap : x_ev (ESlice3 (nm [115]) (Some (ilit [49])) (ilit [50]) (ilit [54])) [] = (Err COther, []).
Proof. vm_compute. reflexivity. Qed.
Example ex_slice3_max_lt_hi : x_ev (ESlice3 (nm [115]) (Some (ilit [49])) (ilit [50]) (ilit [49])) [] = (Err COther, []).
Proof. vm_compute. reflexivity. Qed.
(* a[:], a[0:1], a[0:1:1] on an array; i[:], m[:1:1] on non-sequences *)
Example ex_array_slice : x_ev (ESlice (nm [97]) None None) [] = (Err COther, []).
Proof. vm_compute. reflexivity. Qed.
Example ex_array_slice_bounds : x_ev (ESlice (nm [97]) (Some (ilit [48])) (Some (ilit [49]))) [] = (Err COther, []).
Proof. vm_compute. reflexivity. Qed.
Example ex_array_slice3 : x_ev (ESlice3 (nm [97]) (Some (ilit [48])) (ilit [49]) (ilit [49])) [] = (Err COther, []).
Proof. vm_compute. reflexivity. Qed.
Example ex_int_slice : x_ev (ESlice (nm [105]) None None) [] = (Err COther, []).
Proof. vm_compute. reflexivity. Qed.
Example ex_map_slice3 : x_ev (ESlice3 (nm [109]) None (ilit [49]) (ilit [49])) [] = (Err COther, []).
Proof. vm_compute. reflexivity. Qed.
(* i.x, f.x, len.x: kinds without members *)
Example ex_int_field : x_ev (EField (nm [105]) false [120]) [] = (Err CNoSuchValue, []).
Proof. vm_compute. reflexivity. Qed.
Example ex_float_field : x_ev (EField (nm [102]) false [120]) [] = (Err CNoSuchValue, []).
Proof. vm_compute. reflexivity. Qed.
Example ex_func_field : x_ev (EField (nm [108;101;110]) false [120]) [] = (Err CNoSuchValue, []).
Proof. vm_compute. reflexivity. Qed.
(* t.u (unexported), t["u"], t.F, q.F, t.M, p.F (nil pointer), nil.F *)
Example ex_unexported : x_ev (EField (nm [116]) false [117]) [] = (Err COther, []).
Proof. vm_compute. reflexivity. Qed.
Example ex_unexported_index : x_ev (EIndex (nm [116]) (slit [34;117;34])) [] = (Err COther, []).
Proof. vm_compute. reflexivity. Qed.
Example ex_exported : x_ev (EField (nm [116]) false [70]) [] = (Ok (VStr [104]), []).
Proof. vm_compute. reflexivity. Qed.
Example ex_through_pointer : x_ev (EField (nm [113]) false [70]) [] = (Ok (VStr [104]), []).
Proof. vm_compute. reflexivity. Qed.
Example ex_method : x_ev (EField (nm [116]) false [77]) [] = (Ok (VFunc 500 [x_struct]), []).
Proof. vm_compute. reflexivity. Qed.
Example ex_nil_pointer : x_ev (EField (nm [112]) false [70]) [] = (Err CNoSuchValue, []).
Proof. vm_compute. reflexivity. Qed.
Example ex_nil_receiver : x_ev (EField (ELit LNil [] 1 1) false [70]) [] = (Err CNoSuchValue, []).
Proof. vm_compute. reflexivity. Qed.

(* the general theorems, instantiated: the hypotheses hold by computation *)
Example ex_use_index_literal :
  x_ev (EIndex (nm [109]) (slit [39;110;39])) [] = x_ev (EField (nm [109]) true [110]) [].
Proof.
  apply (index_literal_same_as_field x_methods x_call _ (nm [109]) [39;110;39] 1 1 true []
           (VMap [([110], VInt KInt 7%Z); ([122], VNil)]) [] [110]).
  - vm_compute. reflexivity.
  - vm_compute. reflexivity.
Qed.
Example ex_use_slice3_result :
  x_ev (ESlice3 (nm [115]) (Some (ilit [49])) (ilit [50]) (ilit [52])) [] =
  (slice_seq (ints [10; 11; 12]%Z) (ints [13; 14]%Z) 1 2 (Some 4%Z), []).
Proof.
  apply (slice3_result x_methods x_call _ (nm [115]) (Some (ilit [49])) (ilit [50]) (ilit [52]) []
           (ints [10; 11; 12]%Z) (ints [13; 14]%Z) [] 1%Z [] 2%Z [] 4%Z []); vm_compute; reflexivity.
Qed.
End Examples.

Print Assumptions field_result.
Print Assumptions field_never_invents.
Print Assumptions field_of_failure.
Print Assumptions index_string_agrees_with_field.
Print Assumptions index_string_same_as_field.
Print Assumptions index_literal_same_as_field.
Print Assumptions index_int_is_get.
Print Assumptions index_bad_kind_is_error.
Print Assumptions memberless_no_methods.
Print Assumptions unsupported_kind_is_absent.
Print Assumptions unsupported_kind_is_error.
Print Assumptions unsupported_kind_index_is_error.
Print Assumptions nil_receiver_is_error.
Print Assumptions nil_pointer_receiver_is_error.
Print Assumptions unexported_field_is_error.
Print Assumptions slice3_ok.
Print Assumptions slice3_len.
Print Assumptions slice3_extra_len.
Print Assumptions slice3_cap.
Print Assumptions slice3_nth.
Print Assumptions slice3_bad.
Print Assumptions slice_result.
Print Assumptions slice3_result.
Print Assumptions slice_of_non_slice_is_error.
Print Assumptions slice3_of_non_slice_is_error.
Print Assumptions slice_of_array_is_error.
Print Assumptions slice_of_array_is_error_bounds.
Print Assumptions slice3_of_array_is_error_bounds.
Print Assumptions slice_success_is_seq.
