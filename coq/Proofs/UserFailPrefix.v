(* C12: a failing USER FUNCTION, at the expression level and at the render level.

   The same evaluation / the same render is run with an oracle [call_fn] and with the oracle
   [inject P sn call_fn], in which every call selected by the predicate [P] returns a non-nil error
   with sentinel [sn] ([FErrS sn]) and every other call is answered as before.

   Either the two runs agree in everything (no selected call is reached, or the selected call failed
   with the same sentinel anyway), or the run with the injected failure
     - returns the injected cause itself ([Err (CUser sn)] / [RErr (RC (CUser sn))]): the failure is
       not swallowed, not replaced by a value, not replaced by another error;
     - stops there: its call log is  (id, args) :: lgk  where (id, args) is a call selected by P (the
       failing call IS logged, see [finish_call]), lgk extends the initial log, and the log of the
       other run extends it (logs are most-recent-first): nothing was evaluated after the failure;
     - (render) what it wrote is a prefix of what the other run writes.

   Hypothesis [runs_body]: a selected call is one whose body runs, i.e. [call_fn] does not answer it
   with [FBadArgs] (reflect rejects the argument count / types before the body runs; [finish_call]
   does NOT log such a call).  Without it the log claim is false: see [badargs_counterexample].
   The hypothesis is satisfiable for every P: [total P call_fn] restricts P to the calls whose body
   runs, and the theorems [*_total] are hypothesis-free.

   Organisation as in WriterPrefix.v: one invariant of the recursive call, proved for [exec_body]
   and closed by induction on the fuel.  The invariant carries the single-run fact "the log only
   grows" together with the two-run relation, so no separate single-run pass is needed. *)
From Coq Require Import List NArith ZArith Bool.
From Tpl Require Import Html.Exec Proofs.EvalStrict Proofs.WriterPrefix.
Import ListNotations.
Open Scope N_scope.

Definition inject (P : N -> list value -> bool) (sn : N) (call_fn : N -> list value -> fres)
  : N -> list value -> fres :=
  fun id args => if P id args then FErrS sn else call_fn id args.

Definition runs_body (P : N -> list value -> bool) (call_fn : N -> list value -> fres) : Prop :=
  forall id args, P id args = true -> call_fn id args <> FBadArgs.

Definition is_badargs (r : fres) : bool := match r with FBadArgs => true | _ => false end.
Definition total (P : N -> list value -> bool) (call_fn : N -> list value -> fres) : N -> list value -> bool :=
  fun id args => P id args && negb (is_badargs (call_fn id args)).
Lemma total_runs_body P call_fn : runs_body (total P call_fn) call_fn.
Proof.
  intros id args H E. unfold total in H. rewrite E in H. cbn in H.
  rewrite andb_false_r in H. discriminate.
Qed.

Lemma extends_cons (c : call) lg : extends lg (c :: lg).
Proof. exists [c]. reflexivity. Qed.

(* ====================== the two-run relation on (result, log) pairs ====================== *)
Section Rel.
Variable P : N -> list value -> bool.

(* the second run stopped at a call selected by P *)
Definition stopped (lg lx ly : log) : Prop :=
  exists id args lgk, P id args = true /\ ly = (id, args) :: lgk /\ extends lg lgk /\ extends ly lx.

Lemma stopped_base lg0 lg lx ly : extends lg0 lg -> stopped lg lx ly -> stopped lg0 lx ly.
Proof.
  intros H (id & args & lgk & HP & E & Hk & Hx). exists id, args, lgk.
  repeat split; auto. eapply extends_trans; eauto.
Qed.
Lemma stopped_more lg lx lx' ly : stopped lg lx ly -> extends lx lx' -> stopped lg lx' ly.
Proof.
  intros (id & args & lgk & HP & E & Hk & Hx) H. exists id, args, lgk.
  repeat split; auto. eapply extends_trans; eauto.
Qed.
Lemma stopped_here id args lg : P id args = true -> stopped lg ((id, args) :: lg) ((id, args) :: lg).
Proof.
  intros HP. exists id, args, lg. repeat split; auto; apply extends_refl.
Qed.

(* x: the run with call_fn; y: the run with the injected failure; [fa] is the way the injected
   failure shows in the result type *)
Definition Qg {A} (fa : A) (lg : log) (x y : A * log) : Prop :=
  extends lg (snd x) /\ (y = x \/ (fst y = fa /\ stopped lg (snd x) (snd y))).

Lemma Qg_same {A} (fa : A) lg x : extends lg (snd x) -> Qg fa lg x x.
Proof. intros H. split; [exact H|left; reflexivity]. Qed.
Lemma Qg_ret {A} (fa : A) lg a : Qg fa lg (a, lg) (a, lg).
Proof. apply Qg_same. apply extends_refl. Qed.
Lemma Qg_pre {A} (fa : A) lg0 lg x y : extends lg0 lg -> Qg fa lg x y -> Qg fa lg0 x y.
Proof.
  intros H [He [Hs | [Hf Hst]]]; (split; [eapply extends_trans; eauto|]).
  - left; exact Hs.
  - right. split; [exact Hf|]. eapply stopped_base; eauto.
Qed.
Lemma Qg_map {A B} (g : A -> B) (fa : A) lg x y :
  Qg fa lg x y -> Qg (g fa) lg (g (fst x), snd x) (g (fst y), snd y).
Proof.
  intros [He [Hs | [Hf Hst]]]; (split; [exact He|]).
  - left. rewrite Hs. reflexivity.
  - right. cbn [fst snd]. split; [rewrite Hf; reflexivity|exact Hst].
Qed.
Lemma Qg_stop {A} (fa : A) lg x ly :
  extends lg (snd x) -> stopped lg (snd x) ly -> Qg fa lg x (fa, ly).
Proof. intros He Hst. split; [exact He|]. right. split; [reflexivity|exact Hst]. Qed.
End Rel.

(* ====================== (1) the expression level ====================== *)
Section EvalUF.
Variable methods : N -> bool -> list (str * N).
Variable call_fn : N -> list value -> fres.
Variable P : N -> list value -> bool.
Variable sn : N.
Hypothesis HP : runs_body P call_fn.

Notation call_fn' := (inject P sn call_fn).
Notation QE := (Qg P (Err (CUser sn))).

Lemma thread_Q {A B} lg (p p' : res A * log) (f f' : A -> log -> res B * log) :
  QE lg p p' -> (forall a lg1, QE lg1 (f a lg1) (f' a lg1)) -> QE lg (thread p f) (thread p' f').
Proof.
  destruct p as [[a|c|] lg1]; intros [He [Hs | [Hf Hst]]] Hk; cbn [fst snd] in *.
  - subst p'. cbn [thread]. eapply Qg_pre; [exact He|apply Hk].
  - destruct p' as [r' l']; cbn [fst snd] in *; subst r'. cbn [thread].
    destruct (Hk a lg1) as [Hk1 _].
    apply Qg_stop; [eapply extends_trans; eauto|]. eapply stopped_more; eauto.
  - subst p'. cbn [thread]. apply Qg_same. exact He.
  - destruct p' as [r' l']; cbn [fst snd] in *; subst r'. cbn [thread]. apply Qg_stop; assumption.
  - subst p'. cbn [thread]. apply Qg_same. exact He.
  - destruct p' as [r' l']; cbn [fst snd] in *; subst r'. cbn [thread]. apply Qg_stop; assumption.
Qed.

(* the only place where the two oracles are compared *)
Lemma finish_call_Q id args lg :
  QE lg (finish_call call_fn id args lg) (finish_call call_fn' id args lg).
Proof.
  unfold finish_call.
  destruct (existsb _ args); [apply Qg_ret|].
  destruct (is_builtin id); [apply Qg_ret|].
  unfold inject. destruct (P id args) eqn:EP.
  - pose proof (HP id args EP) as Hb.
    destruct (call_fn id args) eqn:E; try (exfalso; apply Hb; reflexivity);
      (apply Qg_stop; cbn [snd]; [apply extends_cons|apply stopped_here; exact EP]).
  - apply Qg_same. destruct (call_fn id args); cbn [snd]; first [apply extends_refl|apply extends_cons].
Qed.

Lemma apply_args_Q id bound ell vs lg :
  QE lg (apply_args call_fn id bound ell vs lg) (apply_args call_fn' id bound ell vs lg).
Proof.
  unfold apply_args. cbv zeta.
  match goal with |- context [match ?X with Ok _ => _ | Err _ => _ | Unmodelled => _ end] =>
    destruct X as [vs'|c|] end.
  - apply finish_call_Q.
  - apply Qg_ret.
  - apply Qg_ret.
Qed.

Section Sc.
Variable sc : scope.
Notation ev := (eval methods call_fn sc).
Notation ev' := (eval methods call_fn' sc).
Definition Pq (e : expr) : Prop := forall lg, QE lg (ev e lg) (ev' e lg).

Lemma eval_args_Q : forall l, Forall Pq l -> forall acc lg,
  QE lg (eval_args methods call_fn sc l acc lg) (eval_args methods call_fn' sc l acc lg).
Proof.
  intros l Hl. induction Hl as [|x rest Hx Hrest IH]; intros acc lg; cbn [eval_args].
  - apply Qg_ret.
  - apply thread_Q; [apply Hx|]. intros v lg1. apply IH.
Qed.

Lemma as_int_Q x : Pq x -> forall lg,
  QE lg (thread (ev x lg) (fun xv => lift (as_int xv))) (thread (ev' x lg) (fun xv => lift (as_int xv))).
Proof. intros Hx lg. apply thread_Q; [apply Hx|]. intros v lg1. apply Qg_ret. Qed.

Lemma opt_Q o dflt : Popt Pq o -> forall lg,
  QE lg (match o with None => (Ok dflt, lg) | Some x => thread (ev x lg) (fun xv => lift (as_int xv)) end)
        (match o with None => (Ok dflt, lg) | Some x => thread (ev' x lg) (fun xv => lift (as_int xv)) end).
Proof. intros Ho lg. destruct o as [x|]; [apply as_int_Q; exact Ho|apply Qg_ret]. Qed.

Lemma eval_Q : forall e, Pq e.
Proof.
  induction e using expr_ind'; intros lg.
  - (* ELit *) destruct k; cbn [eval]; apply Qg_ret.
  - (* EName *) cbn [eval]. apply Qg_ret.
  - (* EParen *) cbn [eval]. apply IHe.
  - (* EUnary *) cbn [eval]. apply thread_Q; [apply IHe|]. intros v lg1. apply Qg_ret.
  - (* EBin *)
    assert (Hgen : forall lv lg1,
               QE lg1 (thread (ev e2 lg1) (fun r0 => lift (bin_op op lv r0)))
                      (thread (ev' e2 lg1) (fun r0 => lift (bin_op op lv r0)))).
    { intros lv lg1. apply thread_Q; [apply IHe2|]. intros v lg2. apply Qg_ret. }
    destruct op; cbn [eval]; (apply thread_Q; [apply IHe1|]); intros lv lg1; try apply Hgen.
    + (* BLAnd *) destruct lv as [| [|] | | | | | | | | |]; try apply Hgen. apply Qg_ret.
    + (* BLOr *) destruct lv as [| [|] | | | | | | | | |]; try apply Hgen. apply Qg_ret.
  - (* ECond *) cbn [eval]. apply thread_Q; [apply IHe1|]. intros cv lg1.
    destruct cv as [| [|] | | | | | | | | |]; try apply Qg_ret; [apply IHe2|apply IHe3].
  - (* EField *) cbn [eval]. apply thread_Q; [apply IHe|]. intros v lg1. apply Qg_ret.
  - (* EIndex *) cbn [eval]. apply thread_Q; [apply IHe1|]. intros v lg1.
    apply thread_Q; [apply IHe2|]. intros iv lg2. apply Qg_ret.
  - (* ESlice *) cbn [eval]. apply thread_Q; [apply IHe|]. intros v lg1.
    destruct v; try apply Qg_ret.
    apply thread_Q; [apply (opt_Q lo); assumption|]. intros s lg2.
    apply thread_Q; [apply (opt_Q hi); assumption|]. intros e' lg3. apply Qg_ret.
  - (* ESlice3 *) cbn [eval]. apply thread_Q; [apply IHe1|]. intros v lg1.
    destruct v; try apply Qg_ret.
    apply thread_Q; [apply (opt_Q lo); assumption|]. intros s lg2.
    apply thread_Q; [apply as_int_Q; assumption|]. intros e' lg3.
    apply thread_Q; [apply as_int_Q; assumption|]. intros m lg4. apply Qg_ret.
  - (* ECall *) rewrite (eval_call_eq methods call_fn sc), (eval_call_eq methods call_fn' sc).
    apply thread_Q; [apply IHe|]. intros fv lg1.
    destruct fv; try apply Qg_ret.
    apply thread_Q; [apply eval_args_Q; assumption|]. intros vs lg2. apply apply_args_Q.
Qed.
End Sc.

(* A failure of a user function is never swallowed, never replaced by a value, and evaluation stops
   at it.  (r, lg1): the evaluation with call_fn; (r', lg1'): with the injected failure. *)
Theorem eval_user_failure : forall sc e lg r lg1 r' lg1',
  eval methods call_fn sc e lg = (r, lg1) ->
  eval methods call_fn' sc e lg = (r', lg1') ->
  (r' = r /\ lg1' = lg1)
  \/
  (r' = Err (CUser sn) /\
   exists id args lgk, P id args = true /\ lg1' = (id, args) :: lgk /\
     (exists d', lgk = d' ++ lg) /\ exists d, lg1 = d ++ lg1').
Proof.
  intros sc e lg r lg1 r' lg1' E E'.
  pose proof (eval_Q sc e lg) as H. rewrite E, E' in H.
  destruct H as [_ [Hs | [Hf (id & args & lgk & Hp & Hy & Hk & Hx)]]]; cbn [fst snd] in *.
  - left. inversion Hs; auto.
  - right. split; [exact Hf|]. exists id, args, lgk. auto.
Qed.

(* ====================== (2) the render level ====================== *)
Notation UCAUSE := (RErr (RC (CUser sn))).

(* x: the render with call_fn; y: the render with the injected failure, from the same state [st] *)
Definition UR (st : rst) (x y : R) : Prop :=
  extends (r_log st) (r_log (snd x)) /\
  (y = x \/ exists o' t' s' rest, y = (o', UCAUSE, t', s') /\ fst (fst (fst x)) = o' ++ rest /\
     stopped P (r_log st) (r_log (snd x)) (r_log s')).
(* the attribute loop: its buffers are dropped on failure, nothing has reached the writer *)
Definition UL {A} (st : rst) (x y : (A + rres) * tbl * rst) : Prop :=
  extends (r_log st) (r_log (snd x)) /\
  (y = x \/ exists t' s', y = (inr UCAUSE, t', s') /\ stopped P (r_log st) (r_log (snd x)) (r_log s')).
(* a fragment rendered into a buffer *)
Definition UT (st : rst) (x y : str * rres * rst) : Prop :=
  extends (r_log st) (r_log (snd x)) /\
  (y = x \/ exists o' s', y = (o', UCAUSE, s') /\ stopped P (r_log st) (r_log (snd x)) (r_log s')).

Lemma UR_same st x : extends (r_log st) (r_log (snd x)) -> UR st x x.
Proof. intros H. split; [exact H|left; reflexivity]. Qed.
Lemma UR_ret st o r t : UR st (o, r, t, st) (o, r, t, st).
Proof. apply UR_same. apply extends_refl. Qed.
Lemma UR_pre st0 st x y : extends (r_log st0) (r_log st) -> UR st x y -> UR st0 x y.
Proof.
  intros H [He [Hs | (o' & t' & s' & rest & Ey & Ho & Hst)]]; (split; [eapply extends_trans; eauto|]).
  - left; exact Hs.
  - right. exists o', t', s', rest. repeat split; auto. eapply stopped_base; eauto.
Qed.
Lemma UR_stop st x t' s' :
  extends (r_log st) (r_log (snd x)) -> stopped P (r_log st) (r_log (snd x)) (r_log s') ->
  UR st x ([], UCAUSE, t', s').
Proof.
  intros He Hst. split; [exact He|]. right. exists [], t', s', (fst (fst (fst x))). auto.
Qed.

Lemma UL_same {A} st (x : (A + rres) * tbl * rst) : extends (r_log st) (r_log (snd x)) -> UL st x x.
Proof. intros H. split; [exact H|left; reflexivity]. Qed.
Lemma UL_ret {A} st (a : A + rres) t : UL st (a, t, st) (a, t, st).
Proof. apply UL_same. apply extends_refl. Qed.
Lemma UL_pre {A} st0 st (x y : (A + rres) * tbl * rst) :
  extends (r_log st0) (r_log st) -> UL st x y -> UL st0 x y.
Proof.
  intros H [He [Hs | (t' & s' & Ey & Hst)]]; (split; [eapply extends_trans; eauto|]).
  - left; exact Hs.
  - right. exists t', s'. split; [exact Ey|]. eapply stopped_base; eauto.
Qed.
Lemma UL_stop {A} st (x : (A + rres) * tbl * rst) t' s' :
  extends (r_log st) (r_log (snd x)) -> stopped P (r_log st) (r_log (snd x)) (r_log s') ->
  UL st x (inr UCAUSE, t', s').
Proof. intros He Hst. split; [exact He|]. right. exists t', s'. auto. Qed.

Lemma seq2_UR st a a' f f' :
  UR st a a' -> (forall t s, UR s (f t s) (f' t s)) -> UR st (seq2 a f) (seq2 a' f').
Proof.
  destruct a as [[[o r] t] s].
  intros [He [Hs | (o' & t' & s' & rest & Ey & Ho & Hst)]] Hf; cbn [fst snd] in *; subst a'; cbn [seq2].
  - destruct r; [|apply UR_same; exact He|apply UR_same; exact He].
    specialize (Hf t s). destruct (f t s) as [[[o2 r2] t2] s2]. destruct (f' t s) as [[[o2' r2'] t2'] s2'].
    destruct Hf as [He2 [E | (o3 & t3 & s3 & rest3 & Ey & Ho & Hst)]]; cbn [fst snd] in *.
    + inversion E; subst. apply UR_same. cbn [snd]. eapply extends_trans; eauto.
    + inversion Ey; subst. split; [cbn [snd]; eapply extends_trans; eauto|]. right.
      exists (o ++ o3), t3, s3, rest3. split; [reflexivity|].
      split; [cbn [fst]; rewrite <- app_assoc; reflexivity|]. cbn [snd]. eapply stopped_base; eauto.
  - destruct r.
    + specialize (Hf t s). destruct (f t s) as [[[o2 r2] t2] s2]. destruct Hf as [He2 _]; cbn [fst snd] in *.
      split; [eapply extends_trans; eauto|]. right. exists o', t', s', (rest ++ o2).
      split; [reflexivity|]. split; [rewrite Ho; symmetry; apply app_assoc|]. eapply stopped_more; eauto.
    + split; [exact He|]. right. exists o', t', s', rest. auto.
    + split; [exact He|]. right. exists o', t', s', rest. auto.
Qed.

Lemma wr_U top s t st : UR st (wr top s t st) (wr top s t st).
Proof.
  apply UR_same. unfold wr, write. destruct top; [destruct (r_budget st) as [[|b]|]|]; apply extends_refl.
Qed.

(* "evaluate, then continue": the first stage is an evaluation related by Qg, the continuations are
   related for every outcome, and the continuation of the failing run passes the failure on *)
Lemma cont_Q {A B} {fa : A} {fb : B} {lg} r1 l1 r1' l1' (K K' : A -> log -> B * log) :
  Qg P fa lg (r1, l1) (r1', l1') ->
  (forall a l, Qg P fb l (K a l) (K' a l)) ->
  (forall l, K' fa l = (fb, l)) ->
  Qg P fb lg (K r1 l1) (K' r1' l1').
Proof.
  intros [He [Hs | [Hf Hst]]] HK Hfail; cbn [fst snd] in *.
  - inversion Hs; subst. eapply Qg_pre; [exact He|apply HK].
  - subst r1'. rewrite Hfail. destruct (HK r1 l1) as [He2 _].
    apply Qg_stop; [eapply extends_trans; eauto|eapply stopped_more; eauto].
Qed.
Lemma cont_UL {A B} {fa : A} {st} r1 l1 r1' l1' (K K' : A -> log -> (B + rres) * tbl * rst) :
  Qg P fa (r_log st) (r1, l1) (r1', l1') ->
  (forall a l, UL (set_log st l) (K a l) (K' a l)) ->
  (forall l, exists t, K' fa l = (inr UCAUSE, t, set_log st l)) ->
  UL st (K r1 l1) (K' r1' l1').
Proof.
  intros [He [Hs | [Hf Hst]]] HK Hfail; cbn [fst snd] in *.
  - inversion Hs; subst. eapply UL_pre; [|apply HK]. exact He.
  - subst r1'. destruct (Hfail l1') as [t Et]. rewrite Et. destruct (HK r1 l1) as [He2 _]. cbn [set_log r_log] in He2.
    apply UL_stop; [eapply extends_trans; eauto|eapply stopped_more; eauto].
Qed.
Lemma cont_UR {A} {fa : A} {st} r1 l1 r1' l1' (K K' : A -> log -> R) :
  Qg P fa (r_log st) (r1, l1) (r1', l1') ->
  (forall a l, UR (set_log st l) (K a l) (K' a l)) ->
  (forall l, exists t, K' fa l = ([], UCAUSE, t, set_log st l)) ->
  UR st (K r1 l1) (K' r1' l1').
Proof.
  intros [He [Hs | [Hf Hst]]] HK Hfail; cbn [fst snd] in *.
  - inversion Hs; subst. eapply UR_pre; [|apply HK]. exact He.
  - subst r1'. destruct (Hfail l1') as [t Et]. rewrite Et. destruct (HK r1 l1) as [He2 _]. cbn [set_log r_log] in He2.
    apply UR_stop; [eapply extends_trans; eauto|eapply stopped_more; eauto].
Qed.
(* the goal is  REL _ X Y  where X mentions the outcome (r1, l1) of the first stage of the first
   run and Y the outcome (r1', l1') of the first stage of the second run *)
Ltac with_K r1 l1 r1' l1' tac :=
  match goal with |- _ _ ?X ?Y =>
    let KX := (eval pattern r1, l1 in X) in
    let KY := (eval pattern r1', l1' in Y) in
    match KX with ?K _ _ => match KY with ?K' _ _ => tac K K' end end end.
Ltac cont_q HQ r1 l1 r1' l1' :=
  with_K r1 l1 r1' l1' ltac:(fun K K' => refine (cont_Q r1 l1 r1' l1' K K' HQ _ _)).
Ltac cont_ul HQ r1 l1 r1' l1' :=
  with_K r1 l1 r1' l1' ltac:(fun K K' => refine (cont_UL r1 l1 r1' l1' K K' HQ _ _)).
Ltac cont_ur HQ r1 l1 r1' l1' :=
  with_K r1 l1 r1' l1' ltac:(fun K K' => refine (cont_UR r1 l1 r1' l1' K K' HQ _ _)).

Section Render.
Variable is_space : rune -> bool.
Variable to_lower : rune -> rune.
Variable is_letter : rune -> bool.
Variable is_udigit : rune -> bool.
Variable mgr : manager.

Notation EXEC := (N -> list node -> node -> scope -> bool -> tbl -> rst -> R).
Notation EVAL_TEXT := (eval_text is_letter is_udigit methods call_fn).
Notation EVAL_TEXT' := (eval_text is_letter is_udigit methods call_fn').
Notation EVAL_BLOCK := (eval_block is_letter is_udigit methods call_fn).
Notation EVAL_BLOCK' := (eval_block is_letter is_udigit methods call_fn').
Notation EVAL_CTOKS := (eval_ctoks is_letter is_udigit methods call_fn).
Notation EVAL_CTOKS' := (eval_ctoks is_letter is_udigit methods call_fn').
Notation WITH_EVAL := (with_eval is_letter is_udigit methods call_fn).
Notation WITH_EVAL' := (with_eval is_letter is_udigit methods call_fn').
Notation ATTR_EVAL := (attr_evaluate is_letter is_udigit methods call_fn mgr).
Notation ATTR_EVAL' := (attr_evaluate is_letter is_udigit methods call_fn' mgr).
Notation WITH_ASSIGN := (with_assign is_space is_letter is_udigit methods call_fn mgr).
Notation WITH_ASSIGN' := (with_assign is_space is_letter is_udigit methods call_fn' mgr).

(* ---------- the evaluator pieces ---------- *)
Lemma eval_text_Q sc code lg : QE lg (EVAL_TEXT sc code lg) (EVAL_TEXT' sc code lg).
Proof.
  unfold eval_text. destruct (parse_code is_letter is_udigit code) as [e|]; [apply eval_Q|apply Qg_ret].
Qed.

Definition g_block (r : res value) : res str :=
  match r with
  | Ok v => match fmt_v v with Some s => Ok s | None => Unmodelled end
  | Err c => Err c
  | Unmodelled => Unmodelled
  end.
Lemma eval_block_Q sc code lg : QE lg (EVAL_BLOCK sc code lg) (EVAL_BLOCK' sc code lg).
Proof.
  unfold eval_block. pose proof (Qg_map P g_block _ _ _ _ (eval_text_Q sc code lg)) as H. revert H.
  destruct (EVAL_TEXT sc code lg) as [[v|c|] l1]; destruct (EVAL_TEXT' sc code lg) as [[v'|c'|] l1'];
    intros H; exact H.
Qed.

Lemma eval_ctoks_Q sc : forall l acc lg, QE lg (EVAL_CTOKS sc l acc lg) (EVAL_CTOKS' sc l acc lg).
Proof.
  induction l as [|t l IH]; intros acc lg; cbn [eval_ctoks]; [apply Qg_ret|].
  destruct (c_kind t); try apply IH.
  pose proof (eval_block_Q sc (c_value t) lg) as HQ. revert HQ.
  destruct (EVAL_BLOCK sc (c_value t) lg) as [r1 l1]; destruct (EVAL_BLOCK' sc (c_value t) lg) as [r1' l1'];
    intros HQ.
  cont_q HQ r1 l1 r1' l1'.
  - intros [s|c|] l2; [apply IH|apply Qg_ret|apply Qg_ret].
  - intros l2. reflexivity.
Qed.

Definition g_attr (r : res str) : ares :=
  match r with Ok s => AOk s | Err c => AErr (RC c) | Unmodelled => AUnm end.
Lemma attr_evaluate_Q a sc lg :
  Qg P (AErr (RC (CUser sn))) lg (ATTR_EVAL a sc lg) (ATTR_EVAL' a sc lg).
Proof.
  unfold attr_evaluate. destruct (a_value a); [|apply Qg_ret].
  destruct (ctoks_of is_letter is_udigit mgr a) as [|c0 l0]; [apply Qg_ret|].
  pose proof (Qg_map P g_attr _ _ _ _ (eval_ctoks_Q sc (c0 :: l0) [] lg)) as H. revert H.
  destruct (EVAL_CTOKS sc (c0 :: l0) [] lg) as [[s'|c|] l1];
    destruct (EVAL_CTOKS' sc (c0 :: l0) [] lg) as [[s''|c'|] l1']; intros H; exact H.
Qed.

Lemma with_eval_Q sc : forall names codes acc lg,
  QE lg (WITH_EVAL sc names codes acc lg) (WITH_EVAL' sc names codes acc lg).
Proof.
  induction names as [|n ns IH]; intros codes acc lg; cbn [with_eval]; [apply Qg_ret|].
  destruct codes as [|c cs]; [apply Qg_ret|].
  pose proof (eval_text_Q sc (c_value c) lg) as HQ. revert HQ.
  destruct (EVAL_TEXT sc (c_value c) lg) as [r1 l1]; destruct (EVAL_TEXT' sc (c_value c) lg) as [r1' l1'];
    intros HQ.
  cont_q HQ r1 l1 r1' l1'.
  - intros [v|e|] l2; [apply IH|apply Qg_ret|apply Qg_ret].
  - intros l2. reflexivity.
Qed.

Definition g_with (sc : scope) (r : res (list (str * value))) : scope + rres :=
  match r with
  | Ok m => inl (SCombine (SData (VMap m)) sc)
  | Err e => inr (RErr (RC e))
  | Unmodelled => inr RUnmodelled
  end.
Lemma with_assign_Q a sc lg :
  Qg P (inr UCAUSE) lg (WITH_ASSIGN a sc lg) (WITH_ASSIGN' a sc lg).
Proof.
  unfold with_assign. destruct (a_value a); [|apply Qg_ret].
  destruct (with_collect is_space (ctoks_of is_letter is_udigit mgr a) [] []) as [[names codes]|]; [|apply Qg_ret].
  destruct names as [|n0 ns]; [apply Qg_ret|].
  destruct (negb (Nat.eqb (length codes) (length (n0 :: ns)))); [apply Qg_ret|].
  pose proof (Qg_map P (g_with sc) _ _ _ _ (with_eval_Q sc (n0 :: ns) codes [] lg)) as H. revert H.
  destruct (WITH_EVAL sc (n0 :: ns) codes [] lg) as [[m|e|] l1];
    destruct (WITH_EVAL' sc (n0 :: ns) codes [] lg) as [[m'|e'|] l1']; intros H; exact H.
Qed.

(* ---------- the invariant of the recursive call ---------- *)
Definition inv_U (exec exec' : EXEC) : Prop :=
  forall mask ctx n sc top t st, UR st (exec mask ctx n sc top t st) (exec' mask ctx n sc top t st).

Section Body.
Variable exec exec' : EXEC.
Hypothesis HU : inv_U exec exec'.

Notation EVAL_COND := (eval_cond is_letter is_udigit methods call_fn mgr exec).
Notation EVAL_COND' := (eval_cond is_letter is_udigit methods call_fn' mgr exec').
Notation COND_OWNER := (cond_owner is_letter is_udigit methods call_fn mgr exec).
Notation COND_OWNER' := (cond_owner is_letter is_udigit methods call_fn' mgr exec').
Notation RANGE_OWNER := (range_owner is_space is_letter is_udigit methods call_fn exec).
Notation RANGE_OWNER' := (range_owner is_space is_letter is_udigit methods call_fn' exec').
Notation ATTR_STEP := (attr_step is_space is_letter is_udigit methods call_fn mgr exec).
Notation ATTR_STEP' := (attr_step is_space is_letter is_udigit methods call_fn' mgr exec').
Notation RUN_ATTRS := (run_attrs is_space is_letter is_udigit methods call_fn mgr exec).
Notation RUN_ATTRS' := (run_attrs is_space is_letter is_udigit methods call_fn' mgr exec').
Notation RUN_CHILD := (run_child is_space is_letter is_udigit methods call_fn mgr exec).
Notation RUN_CHILD' := (run_child is_space is_letter is_udigit methods call_fn' mgr exec').
Notation EXEC_TAG := (exec_tag is_space to_lower is_letter is_udigit methods call_fn mgr exec).
Notation EXEC_TAG' := (exec_tag is_space to_lower is_letter is_udigit methods call_fn' mgr exec').
Notation EXEC_BODY := (exec_body is_space to_lower is_letter is_udigit methods call_fn mgr exec).
Notation EXEC_BODY' := (exec_body is_space to_lower is_letter is_udigit methods call_fn' mgr exec').

Lemma exec_list_U ctx sc top : forall l t st,
  UR st (exec_list exec ctx l sc top t st) (exec_list exec' ctx l sc top t st).
Proof.
  induction l as [|c r IH]; intros t st; cbn [exec_list]; [apply UR_ret|].
  apply seq2_UR; [apply HU|]. intros t1 s1. apply IH.
Qed.

(* a fragment rendered into a buffer: on failure the buffer is dropped by the caller *)
Lemma run_template_U tp sc st : UT st (run_template exec tp sc st) (run_template exec' tp sc st).
Proof.
  unfold run_template.
  destruct (exec_list_U (tp_ctx tp) sc false (tp_children tp) [] st) as [He [Hs | (o' & t' & s' & rest & Ey & Ho & Hst)]].
  - rewrite Hs. destruct (exec_list exec (tp_ctx tp) (tp_children tp) sc false [] st) as [[[o r] t1] s].
    split; [exact He|left; reflexivity].
  - rewrite Ey. destruct (exec_list exec (tp_ctx tp) (tp_children tp) sc false [] st) as [[[o r] t1] s].
    split; [exact He|]. right. exists o', s'. auto.
Qed.

Lemma eval_cond_U mask ctx n a ls t st :
  UL st (EVAL_COND mask ctx n a ls t st) (EVAL_COND' mask ctx n a ls t st).
Proof.
  unfold eval_cond.
  pose proof (attr_evaluate_Q a (l_sc ls) (r_log st)) as HQ. revert HQ.
  destruct (ATTR_EVAL a (l_sc ls) (r_log st)) as [r1 l1]; destruct (ATTR_EVAL' a (l_sc ls) (r_log st)) as [r1' l1'];
    intros HQ.
  cont_ul HQ r1 l1 r1' l1'.
  - intros [s|c|] l; cbv zeta; try apply UL_ret.
    destruct (str_eqb s s_true); [|apply UL_ret].
    destruct (HU (N.lor mask 1) ctx n (l_sc ls) false (tbl_set t (n_id n) true) (set_log st l))
      as [He [Hs | (o' & t' & s' & rest & Ey & Ho & Hst)]].
    + rewrite Hs.
      destruct (exec (N.lor mask 1) ctx n (l_sc ls) false (tbl_set t (n_id n) true) (set_log st l)) as [[[o r] t2] s2].
      apply UL_same. destruct r; exact He.
    + rewrite Ey.
      destruct (exec (N.lor mask 1) ctx n (l_sc ls) false (tbl_set t (n_id n) true) (set_log st l)) as [[[o r] t2] s2].
      apply UL_stop; destruct r; assumption.
  - intros l. exists t. reflexivity.
Qed.

Lemma cond_owner_U mask ctx n a cmd ls t st :
  UL st (COND_OWNER mask ctx n a cmd ls t st) (COND_OWNER' mask ctx n a cmd ls t st).
Proof.
  unfold cond_owner. destruct (str_eqb cmd d_if); [apply eval_cond_U|].
  destruct (match prev_tag ctx (n_id n) None with Some p => tbl_get t (n_id p) | None => None end) as [[|]|];
    [apply UL_ret|apply eval_cond_U|apply UL_ret].
Qed.

Lemma range_iter_U mask ctx n idx item sc0 sep : forall items first acc t st,
  UL st (range_iter exec mask ctx n idx item sc0 sep items first acc t st)
        (range_iter exec' mask ctx n idx item sc0 sep items first acc t st).
Proof.
  induction items as [|[kk v] more IH]; intros first acc t st; cbn [range_iter]; [apply UL_ret|].
  destruct (HU (N.lor mask 2) ctx n (range_scope idx item kk v sc0) false t st)
    as [He [Hs | (o' & t' & s' & rest & Ey & Ho & Hst)]].
  - rewrite Hs.
    destruct (exec (N.lor mask 2) ctx n (range_scope idx item kk v sc0) false t st) as [[[o r] t2] s2].
    cbn [fst snd] in He.
    destruct r; [eapply UL_pre; [exact He|apply IH]|apply UL_same; exact He|apply UL_same; exact He].
  - rewrite Ey.
    destruct (exec (N.lor mask 2) ctx n (range_scope idx item kk v sc0) false t st) as [[[o r] t2] s2].
    cbn [fst snd] in He, Hst.
    destruct r; [|apply UL_stop; assumption|apply UL_stop; assumption].
    match goal with |- UL _ (range_iter _ _ _ _ _ _ _ _ _ ?f ?ac ?tt ?ss) _ =>
      destruct (IH f ac tt ss) as [He2 _] end.
    apply UL_stop; [eapply extends_trans; eauto|eapply stopped_more; eauto].
Qed.

Lemma range_owner_U mask ctx n av ls t st :
  UL st (RANGE_OWNER mask ctx n av ls t st) (RANGE_OWNER' mask ctx n av ls t st).
Proof.
  unfold range_owner.
  destruct (extract_range is_space (strip_quotes av)) as [[idx item] obj].
  destruct (parse_code is_letter is_udigit obj); [|apply UL_ret]. cbv zeta.
  pose proof (eval_text_Q (with_default (l_sc ls)) obj (r_log st)) as HQ. revert HQ.
  destruct (EVAL_TEXT (with_default (l_sc ls)) obj (r_log st)) as [r1 l1];
    destruct (EVAL_TEXT' (with_default (l_sc ls)) obj (r_log st)) as [r1' l1']; intros HQ.
  cont_ul HQ r1 l1 r1' l1'.
  - intros [v|c|] l; try apply UL_ret.
    destruct (range_items v) as [items|]; [|apply UL_ret].
    match goal with |- context [range_iter exec mask ctx n idx item ?sc0 ?sep items true [] t ?st'] =>
      destruct (range_iter_U mask ctx n idx item sc0 sep items true [] t st') as [He [Hs | (t' & s' & Ey & Hst)]];
      [rewrite Hs|rewrite Ey];
      destruct (range_iter exec mask ctx n idx item sc0 sep items true [] t st') as [[[o|r] t2] s2]
    end; cbn [fst snd] in *.
    + apply UL_same; exact He.
    + apply UL_same; exact He.
    + apply UL_stop; assumption.
    + apply UL_stop; assumption.
  - intros l. exists t. reflexivity.
Qed.

Lemma attr_step_U mask ctx n attrs a ls t st :
  UL st (ATTR_STEP mask ctx n attrs a ls t st) (ATTR_STEP' mask ctx n attrs a ls t st).
Proof.
  unfold attr_step, prefix. cbv zeta.
  destruct (prefixb (m_attr_prefix mgr) (a_name a)).
  2: { destruct (has_attr_named attrs (m_attr_prefix mgr ++ a_name a)); apply UL_ret. }
  set (cmd := skipn (length (m_attr_prefix mgr)) (a_name a)).
  destruct (str_eqb cmd d_with).
  { destruct (negb (N.eqb mask 0)); [apply UL_ret|].
    pose proof (with_assign_Q a (l_sc ls) (r_log st)) as HQ. revert HQ.
    destruct (WITH_ASSIGN a (l_sc ls) (r_log st)) as [r1 l1]; destruct (WITH_ASSIGN' a (l_sc ls) (r_log st)) as [r1' l1'];
      intros HQ.
    cont_ul HQ r1 l1 r1' l1'.
    - intros [sc'|e] l; apply UL_ret.
    - intros l. exists t. reflexivity. }
  destruct (is_cond_name cmd).
  { destruct (a_value a); [|apply UL_ret].
    destruct (negb (N.eqb (N.land mask 1) 0)); [apply UL_ret|apply cond_owner_U]. }
  destruct (str_eqb cmd d_range).
  { destruct (a_value a) as [av|]; [|apply UL_ret].
    destruct (negb (N.eqb (N.land mask 2) 0)); [apply UL_ret|apply range_owner_U]. }
  destruct (str_eqb cmd d_remove); [apply UL_ret|].
  destruct (str_eqb cmd d_text || str_eqb cmd d_raw).
  { destruct (l_child ls); apply UL_ret. }
  destruct (str_eqb cmd d_define); [apply UL_ret|].
  destruct (str_eqb cmd d_replace || str_eqb cmd d_insert).
  { pose proof (attr_evaluate_Q a (l_sc ls) (r_log st)) as HQ. revert HQ.
    destruct (ATTR_EVAL a (l_sc ls) (r_log st)) as [r1 l1]; destruct (ATTR_EVAL' a (l_sc ls) (r_log st)) as [r1' l1'];
      intros HQ.
    cont_ul HQ r1 l1 r1' l1'.
    - intros [name|c|] l; try apply UL_ret.
      destruct (assoc name (m_templates mgr)) as [tp|]; [|apply UL_ret].
      destruct (run_template_U tp (l_sc ls) (set_log st l)) as [He [Hs | (o' & s' & Ey & Hst)]].
      + rewrite Hs. destruct (run_template exec tp (l_sc ls) (set_log st l)) as [[o r] st2].
        apply UL_same. destruct r; exact He.
      + rewrite Ey. destruct (run_template exec tp (l_sc ls) (set_log st l)) as [[o r] st2].
        apply UL_stop; destruct r; assumption.
    - intros l. exists t. reflexivity. }
  pose proof (attr_evaluate_Q a (l_sc ls) (r_log st)) as HQ. revert HQ.
  destruct (ATTR_EVAL a (l_sc ls) (r_log st)) as [r1 l1]; destruct (ATTR_EVAL' a (l_sc ls) (r_log st)) as [r1' l1'];
    intros HQ.
  cont_ul HQ r1 l1 r1' l1'.
  - intros [v|c|] l; apply UL_ret.
  - intros l. exists t. reflexivity.
Qed.

Lemma run_attrs_U mask ctx n attrs : forall l ls t st,
  UL st (RUN_ATTRS mask ctx n attrs l ls t st) (RUN_ATTRS' mask ctx n attrs l ls t st).
Proof.
  induction l as [|a rest IH]; intros ls t st; cbn [run_attrs]; [apply UL_ret|].
  destruct (attr_step_U mask ctx n attrs a ls t st) as [He [Hs | (t' & s' & Ey & Hst)]].
  - rewrite Hs. destruct (ATTR_STEP mask ctx n attrs a ls t st) as [[[ls1|r1] t1] s1]; cbn [fst snd] in He.
    + destruct (is_owner mgr mask a); [apply UL_same; exact He|eapply UL_pre; [exact He|apply IH]].
    + apply UL_same; exact He.
  - rewrite Ey. destruct (ATTR_STEP mask ctx n attrs a ls t st) as [[[ls1|r1] t1] s1]; cbn [fst snd] in He, Hst.
    + destruct (is_owner mgr mask a); [apply UL_stop; assumption|].
      destruct (IH ls1 t1 s1) as [He2 _].
      apply UL_stop; [eapply extends_trans; eauto|eapply stopped_more; eauto].
    + apply UL_stop; assumption.
Qed.

Lemma run_child_U n ls top t st : UR st (RUN_CHILD n ls top t st) (RUN_CHILD' n ls top t st).
Proof.
  unfold run_child. destruct (l_child ls) as [| |a esc|csc];
    [apply exec_list_U|apply UR_ret| |apply exec_list_U].
  pose proof (attr_evaluate_Q a (l_sc ls) (r_log st)) as HQ. revert HQ.
  destruct (ATTR_EVAL a (l_sc ls) (r_log st)) as [r1 l1]; destruct (ATTR_EVAL' a (l_sc ls) (r_log st)) as [r1' l1'];
    intros HQ.
  cont_ur HQ r1 l1 r1' l1'.
  - intros [v|c|] l; [apply wr_U|apply UR_ret|apply UR_ret].
  - intros l. exists t. reflexivity.
Qed.

Lemma tag_end_U n (ls : lstate) top t3 st3 :
  UR st3 (match n_end n with
          | Some e => if l_np ls then ([], ROk, t3, st3) else wr top (t_value e) t3 st3
          | None => ([], ROk, t3, st3)
          end)
         (match n_end n with
          | Some e => if l_np ls then ([], ROk, t3, st3) else wr top (t_value e) t3 st3
          | None => ([], ROk, t3, st3)
          end).
Proof. destruct (n_end n); [destruct (l_np ls); [apply UR_ret|apply wr_U]|apply UR_ret]. Qed.

Lemma exec_tag_U mask ctx n tok sc top t st :
  UR st (EXEC_TAG mask ctx n tok sc top t st) (EXEC_TAG' mask ctx n tok sc top t st).
Proof.
  unfold exec_tag.
  assert (Hrest : forall ls t1 s1,
    UR s1 (seq2 (wr top (token_buf ls) t1 s1) (fun t2 st2 =>
             seq2 (RUN_CHILD n ls top t2 st2)
                  (fun t3 st3 => match n_end n with
                                 | Some e => if l_np ls then ([], ROk, t3, st3) else wr top (t_value e) t3 st3
                                 | None => ([], ROk, t3, st3)
                                 end)))
          (seq2 (wr top (token_buf ls) t1 s1) (fun t2 st2 =>
             seq2 (RUN_CHILD' n ls top t2 st2)
                  (fun t3 st3 => match n_end n with
                                 | Some e => if l_np ls then ([], ROk, t3, st3) else wr top (t_value e) t3 st3
                                 | None => ([], ROk, t3, st3)
                                 end)))).
  { intros ls t1 s1. apply seq2_UR; [apply wr_U|]. intros t2 s2.
    apply seq2_UR; [apply run_child_U|]. intros t3 s3. apply tag_end_U. }
  match goal with |- context [RUN_ATTRS mask ctx n ?ats ?l ?ls0 t st] =>
    destruct (run_attrs_U mask ctx n ats l ls0 t st) as [He [Hs | (t' & s' & Ey & Hst)]];
    [rewrite Hs|rewrite Ey];
    destruct (RUN_ATTRS mask ctx n ats l ls0 t st) as [[[ls|r] t1] s1]
  end; cbn [fst snd] in *.
  - eapply UR_pre; [exact He|apply Hrest].
  - apply UR_same; exact He.
  - destruct (Hrest ls t1 s1) as [He2 _].
    apply UR_stop; [eapply extends_trans; eauto|eapply stopped_more; eauto].
  - apply UR_stop; assumption.
Qed.

Lemma exec_body_U : inv_U EXEC_BODY EXEC_BODY'.
Proof.
  intros mask ctx n sc top t st. unfold exec_body.
  destruct (n_tok n) as [tok|].
  - destruct (t_kind tok); try apply wr_U. apply exec_tag_U.
  - apply seq2_UR; [apply wr_U|]. intros t1 s1. apply exec_list_U.
Qed.
End Body.

(* ====================== the knot ====================== *)
Notation EXEC_NODE := (exec_node is_space to_lower is_letter is_udigit methods call_fn mgr).
Notation EXEC_NODE' := (exec_node is_space to_lower is_letter is_udigit methods call_fn' mgr).
Notation EXECUTE := (execute is_space to_lower is_letter is_udigit methods call_fn mgr).
Notation EXECUTE' := (execute is_space to_lower is_letter is_udigit methods call_fn' mgr).

Lemma exec_node_U : forall fuel, inv_U (EXEC_NODE fuel) (EXEC_NODE' fuel).
Proof.
  induction fuel as [|f IH]; intros mask ctx n sc top t st; cbn [exec_node].
  - apply UR_ret.
  - apply exec_body_U. exact IH.
Qed.

(* Every node, mask, scope, condition table, state and writer (top-level with any budget, or a
   buffer).  (o, r, t1, s1): the render with call_fn; (o', r', t1', s1'): with the injected failure.
   In the second case nothing is claimed about t1' and the budget of s1': the failing render stopped. *)
Theorem user_failure_prefix_node : forall fuel mask ctx n sc top t st o r t1 s1 o' r' t1' s1',
  EXEC_NODE fuel mask ctx n sc top t st = (o, r, t1, s1) ->
  EXEC_NODE' fuel mask ctx n sc top t st = (o', r', t1', s1') ->
  (o' = o /\ r' = r /\ t1' = t1 /\ s1' = s1)
  \/
  (r' = RErr (RC (CUser sn)) /\ (exists rest, o = o' ++ rest) /\
   exists id args lgk, P id args = true /\ r_log s1' = (id, args) :: lgk /\
     (exists d', lgk = d' ++ r_log st) /\ exists later, r_log s1 = later ++ r_log s1').
Proof.
  intros fuel mask ctx n sc top t st o r t1 s1 o' r' t1' s1' E E'.
  pose proof (exec_node_U fuel mask ctx n sc top t st) as H. rewrite E, E' in H.
  destruct H as [_ [Hs | (o2 & t2 & s2 & rest & Ey & Ho & id & args & lgk & Hp & Hy & Hk & Hx)]];
    cbn [fst snd] in *.
  - left. inversion Hs; auto.
  - right. inversion Ey; subst. split; [reflexivity|]. split; [exists rest; reflexivity|].
    exists id, args, lgk. auto.
Qed.

Theorem user_failure_prefix : forall fuel tp data t st o r t1 s1 o' r' t1' s1',
  EXECUTE fuel tp data t st = (o, r, t1, s1) ->
  EXECUTE' fuel tp data t st = (o', r', t1', s1') ->
  (o' = o /\ r' = r /\ t1' = t1 /\ s1' = s1)
  \/
  (r' = RErr (RC (CUser sn)) /\ (exists rest, o = o' ++ rest) /\
   exists id args lgk, P id args = true /\ r_log s1' = (id, args) :: lgk /\
     (exists d', lgk = d' ++ r_log st) /\ exists later, r_log s1 = later ++ r_log s1').
Proof. intros fuel tp data t st. unfold execute. apply user_failure_prefix_node. Qed.
End Render.
End EvalUF.

(* ---------- hypothesis-free forms: P restricted to the calls whose body runs ---------- *)
Theorem eval_user_failure_total : forall methods call_fn P sn sc e lg r lg1 r' lg1',
  eval methods call_fn sc e lg = (r, lg1) ->
  eval methods (inject (total P call_fn) sn call_fn) sc e lg = (r', lg1') ->
  (r' = r /\ lg1' = lg1)
  \/
  (r' = Err (CUser sn) /\
   exists id args lgk, P id args = true /\ call_fn id args <> FBadArgs /\ lg1' = (id, args) :: lgk /\
     (exists d', lgk = d' ++ lg) /\ exists d, lg1 = d ++ lg1').
Proof.
  intros methods call_fn P sn sc e lg r lg1 r' lg1' E E'.
  destruct (eval_user_failure methods call_fn (total P call_fn) sn (total_runs_body P call_fn)
              sc e lg r lg1 r' lg1' E E') as [H | (Hr & id & args & lgk & Hp & H)].
  - left; exact H.
  - right. split; [exact Hr|]. exists id, args, lgk.
    pose proof (total_runs_body P call_fn id args Hp) as Hb.
    unfold total in Hp. apply andb_prop in Hp as [Hp _]. auto.
Qed.

Theorem user_failure_prefix_total :
  forall is_space to_lower is_letter is_udigit methods call_fn mgr P sn fuel tp data t st o r t1 s1 o' r' t1' s1',
  execute is_space to_lower is_letter is_udigit methods call_fn mgr fuel tp data t st = (o, r, t1, s1) ->
  execute is_space to_lower is_letter is_udigit methods (inject (total P call_fn) sn call_fn) mgr fuel tp data t st
    = (o', r', t1', s1') ->
  (o' = o /\ r' = r /\ t1' = t1 /\ s1' = s1)
  \/
  (r' = RErr (RC (CUser sn)) /\ (exists rest, o = o' ++ rest) /\
   exists id args lgk, P id args = true /\ call_fn id args <> FBadArgs /\ r_log s1' = (id, args) :: lgk /\
     (exists d', lgk = d' ++ r_log st) /\ exists later, r_log s1 = later ++ r_log s1').
Proof.
  intros is_space to_lower is_letter is_udigit methods call_fn mgr P sn fuel tp data t st o r t1 s1 o' r' t1' s1' E E'.
  destruct (user_failure_prefix methods call_fn (total P call_fn) sn (total_runs_body P call_fn)
              is_space to_lower is_letter is_udigit mgr fuel tp data t st o r t1 s1 o' r' t1' s1' E E')
    as [H | (Hr & Ho & id & args & lgk & Hp & H)].
  - left; exact H.
  - right. split; [exact Hr|]. split; [exact Ho|]. exists id, args, lgk.
    pose proof (total_runs_body P call_fn id args Hp) as Hb.
    unfold total in Hp. apply andb_prop in Hp as [Hp _]. auto.
Qed.


(* ====================== examples ====================== *)
Definition uf_space (r : rune) : bool := N.eqb r 32 || N.eqb r 10.
Definition uf_letter (r : rune) : bool := (97 <=? r) && (r <=? 122).
Definition uf_digit (r : rune) : bool := (48 <=? r) && (r <=? 57).
Definition uf_mgr : manager := mkM [116; 58] [58] [] (SData (VMap [])).
Definition uf_p0 : pos := (1, 1).
(* :text="${<f>()}" *)
Definition uf_text (f : rune) : attr :=
  mkAttr ([58] ++ d_text) uf_p0 uf_p0 (Some ([34] ++ [36; 123] ++ [f; 40; 41] ++ [125] ++ [34])) uf_p0 uf_p0.
Definition uf_elem (id : N) (f : rune) : node :=
  Node id (Some (mkTok KTag [] uf_p0 uf_p0 [112] [uf_text f]))
       [Node (100 + id) (Some (mkTok KText [111; 108; 100] uf_p0 uf_p0 [] [])) [] None]
       (Some (mkTok KTag [60; 47; 112; 62] uf_p0 uf_p0 [47; 112] [])).
Definition uf_txt (id : N) (s : str) : node := Node id (Some (mkTok KText s uf_p0 uf_p0 [] [])) [] None.
(* H:<p :text="${f()}">old</p><p :text="${g()}">old</p><p :text="${f()}">old</p>z
   f = function 1, g = function 2; function i returns the one-character string "i" *)
Definition uf_ctx : list node := [uf_txt 10 [72; 58]; uf_elem 1 102; uf_elem 2 103; uf_elem 3 102; uf_txt 11 [122]].
Definition uf_data : value := VMap [([102], VFunc 1 []); ([103], VFunc 2 [])].
Definition uf_call (id : N) (_ : list value) : fres := FOk (VStr [48 + id]).
Definition uf_run (cf : N -> list value -> fres) : R :=
  execute uf_space (fun r => r) uf_letter uf_digit (fun _ _ => []) cf uf_mgr 10 (mkT uf_ctx uf_ctx) uf_data []
    (mkR [] None).
Definition uf_P (id : N) (_ : list value) : bool := N.eqb id 2.

(* Non-vacuity: g fails.  "H:<p>1</p><p>" has been written (the second start tag is written before
   its :text is evaluated), nothing after it; the third element's call is not in the log. *)
Example uf_cut :
  uf_run uf_call =
    ([72; 58; 60; 112; 62; 49; 60; 47; 112; 62; 60; 112; 62; 50; 60; 47; 112; 62; 60; 112; 62; 49; 60; 47; 112; 62; 122],
     ROk, [], mkR [(1, []); (2, []); (1, [])] None) /\
  uf_run (inject uf_P 9 uf_call) =
    ([72; 58; 60; 112; 62; 49; 60; 47; 112; 62; 60; 112; 62],
     RErr (RC (CUser 9)), [], mkR [(2, []); (1, [])] None).
Proof. vm_compute. split; reflexivity. Qed.

(* the same through the theorem: its hypothesis is satisfiable, the first alternative is excluded,
   the second gives a non-empty written part and a non-empty rest *)
Example uf_cut_by_theorem :
  exists o' rest, fst (fst (fst (uf_run (inject uf_P 9 uf_call)))) = o' /\
    fst (fst (fst (uf_run uf_call))) = o' ++ rest /\ o' <> [] /\ rest <> [].
Proof.
  destruct uf_cut as [E1 E2].
  assert (Hb : runs_body uf_P uf_call) by (intros id args _ H; discriminate H).
  rewrite E1, E2. unfold uf_run in E1, E2.
  destruct (user_failure_prefix (fun _ _ => []) uf_call uf_P 9 Hb uf_space (fun r => r) uf_letter uf_digit uf_mgr
              10%nat (mkT uf_ctx uf_ctx) uf_data [] (mkR [] None) _ _ _ _ _ _ _ _ E1 E2)
    as [(Ho & _) | (_ & (rest & Ho) & _)].
  - discriminate Ho.
  - cbn [fst]. eexists; exists rest. split; [reflexivity|]. split; [exact Ho|]. split; [discriminate|].
    intros ->. rewrite app_nil_r in Ho. discriminate Ho.
Qed.

(* Why [runs_body]: h = function 8 is rejected by reflect (FBadArgs), so [finish_call] does not log
   the call and reports COther; the injected failure is logged.  The log of the injected run
   [(8, []); (7, []); (99, [])] is then not a part of the log of the other run [(7, []); (99, [])]. *)
Definition uf_ecall (f : rune) : expr := ECall (EName [f] 1 0) [] false false.
Definition uf_esc : scope := with_default (SData (VMap [([103], VFunc 7 []); ([104], VFunc 8 [])])).
Definition uf_efn (id : N) (_ : list value) : fres := if N.eqb id 8 then FBadArgs else FOk (VInt KInt64 1).
Example badargs_counterexample :
  let e := EBin BAdd (uf_ecall 103) (EBin BAdd (uf_ecall 104) (uf_ecall 103) 1 0) 1 0 in   (* g() + (h() + g()) *)
  eval (fun _ _ => []) uf_efn uf_esc e [(99, [])] = (Err COther, [(7, []); (99, [])]) /\
  eval (fun _ _ => []) (inject (fun id _ => N.eqb id 8) 9 uf_efn) uf_esc e [(99, [])]
    = (Err (CUser 9), [(8, []); (7, []); (99, [])]) /\
  (* with P restricted to the calls whose body runs, nothing is injected here *)
  eval (fun _ _ => []) (inject (total (fun id _ => N.eqb id 8) uf_efn) 9 uf_efn) uf_esc e [(99, [])]
    = (Err COther, [(7, []); (99, [])]).
Proof. vm_compute. repeat split. Qed.

(* an expression where the injected failure is reached after a logged call and before another *)
Example eval_cut :
  let e := EBin BAdd (uf_ecall 103) (EBin BAdd (uf_ecall 102) (uf_ecall 103) 1 0) 1 0 in   (* g() + (f() + g()) *)
  let sc := with_default (SData (VMap [([102], VFunc 3 []); ([103], VFunc 7 [])])) in
  let fn := fun (_ : N) (_ : list value) => FOk (VInt KInt64 1) in
  eval (fun _ _ => []) fn sc e [(99, [])] = (Ok (VInt KInt64 3), [(7, []); (3, []); (7, []); (99, [])]) /\
  eval (fun _ _ => []) (inject (fun id _ => N.eqb id 3) 9 fn) sc e [(99, [])]
    = (Err (CUser 9), [(3, []); (7, []); (99, [])]).
Proof. vm_compute. split; reflexivity. Qed.

Print Assumptions eval_user_failure_total.
Print Assumptions user_failure_prefix_total.
Print Assumptions user_failure_prefix_node.
Print Assumptions eval_user_failure.
Print Assumptions user_failure_prefix.
