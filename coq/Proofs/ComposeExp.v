(* C05 experiments: ONE element carrying with + if + range + title (dynamic attribute) + text.
     <p :with="w := ${fa()}" :if="${ca(w)}" :range="i, x : oa(w)" :title="${aa(x)}" :text="${ta(x)}">old</p>
   (prefix ":"; the range header of the model is NOT a ${} block: extract_range splits the raw value
   and hands the object text to parse_code / eval_text directly.)
   Function ids: fa = 1, ca = 11, oa = 31, aa = 41, ta = 21, ia = 51 (used for the index).  Every call is
   recorded in the log WITH ITS ARGUMENTS (most recent first; [calls] reverses it). *)
From Coq Require Import List NArith ZArith Bool Lia.
From Tpl Require Import Html.Exec.
Import ListNotations.
Open Scope N_scope.

Definition x_space (r : rune) : bool := N.eqb r 32 || N.eqb r 10.
Definition x_lower (r : rune) : rune := r.
Definition x_letter (r : rune) : bool := (97 <=? r) && (r <=? 122).
Definition x_digit (r : rune) : bool := (48 <=? r) && (r <=? 57).
Definition x_methods (_ : N) (_ : bool) : list (str * N) := [].
Definition x_mgr : manager := mkM [116; 58] [58] [] (SData (VMap [])).

Definition q (s : str) : str := [34] ++ s ++ [34].
Definition code (s : str) : str := [36;123] ++ s ++ [125].
Definition p0 : pos := (1, 1).
Definition mk (name v : str) : attr := mkAttr ([58] ++ name) p0 p0 (Some (q v)) p0 p0.
Definition call0 (f : str) : str := f ++ [40;41].
Definition call1 (f x : str) : str := f ++ [40] ++ x ++ [41].
Definition s_title : str := [116;105;116;108;101].

Definition a_with : attr := mk d_with ([119;32] ++ s_assign ++ [32] ++ code (call0 [102;97])).        (* w := ${fa()} *)
Definition a_if : attr := mk d_if (code (call1 [99;97] [119])).                                       (* ${ca(w)} *)
Definition a_range : attr := mk d_range ([105;44;32;120;32;58;32] ++ call1 [111;97] [119]).          (* i, x : oa(w) *)
Definition a_range_code : attr := mk d_range ([105;44;32;120;32;58;32] ++ code (call1 [111;97] [119])). (* i, x : ${oa(w)} *)
Definition a_title : attr := mk s_title (code (call1 [97;97] [120])).                                 (* ${aa(x)} *)
Definition a_text : attr := mk d_text (code (call1 [116;97] [120])).                                  (* ${ta(x)} *)
(* variants that also look at the index and at w, to see the scope of the per-item evaluations *)
Definition a_title_iw : attr := mk s_title (code ([97;97;40;120;44;32;105;44;32;119;41])).            (* ${aa(x, i, w)} *)
Definition a_plain : attr := mkAttr [99;108;97;115;115] p0 p0 (Some (q [107])) p0 p0.                 (* class="k" *)

Definition x_elem (attrs : list attr) : node :=
  Node 1 (Some (mkTok KTag [] p0 p0 [112] attrs))
       [Node 101 (Some (mkTok KText [111;108;100] p0 p0 [] [])) [] None]
       (Some (mkTok KTag [60;47;112;62] p0 p0 [47;112] [])).
Definition x_blank : node := Node 2 (Some (mkTok KText [10;32] p0 p0 [] [])) [] None.
Definition x_tail : node := Node 3 (Some (mkTok KText [122] p0 p0 [] [])) [] None.

Definition x_data : value := VMap
  [([102;97], VFunc 1 []); ([99;97], VFunc 11 []); ([111;97], VFunc 31 []); ([97;97], VFunc 41 []); ([116;97], VFunc 21 [])].

Definition item (k : N) : value := VStr [107; 48 + k].          (* "k1", "k2", ... *)
Fixpoint items_n (n : nat) (k : N) : list value := match n with O => [] | S m => item k :: items_n m (k + 1) end.

(* fa returns "W"; ca returns cv; oa returns a slice of n items; aa returns "<"++arg ; ta returns arg++"&";
   the call with id [fail] fails with sentinel 7 -- for aa/ta only on the item [failk] ("" = every item) *)
Definition x_call (cv : value) (n : nat) (fail : N) (failk : str) (id : N) (args : list value) : fres :=
  let failing := N.eqb id fail &&
      match failk, args with
      | [], _ => true
      | _, VStr s :: _ => str_eqb s failk
      | _, _ => false end in
  if failing then FErrS 7
  else if N.eqb id 1 then FOk (VStr [87])
  else if N.eqb id 11 then FOk cv
  else if N.eqb id 31 then FOk (VSeq false (items_n n 1) [])
  else if N.eqb id 41 then match args with VStr s :: _ => FOk (VStr (60 :: s)) | _ => FBadArgs end
  else if N.eqb id 21 then match args with VStr s :: _ => FOk (VStr (s ++ [38])) | _ => FBadArgs end
  else FBadArgs.

Definition x_run (ctx : list node) (cv : value) (n : nat) (fail : N) (failk : str) : R :=
  execute x_space x_lower x_letter x_digit x_methods (x_call cv n fail failk) x_mgr 10 (mkT ctx ctx) x_data [] (mkR [] None).
Definition calls (x : R) := let '(o, r, t, st) := x in (o, r, t, rev (r_log st)).

Definition order1 := [a_with; a_if; a_range; a_title; a_text].     (* documented order *)
Definition order2 := [a_text; a_range; a_plain; a_if; a_title; a_with].   (* text before title; directives reversed *)
Definition order3 := [a_title; a_range; a_text; a_with; a_if].     (* title before text *)
Definition tt := VBool true.

(* ---- 3 items, condition true, blank text behind the element (it separates the instances) ---- *)
Eval vm_compute in calls (x_run [x_elem order1; x_blank; x_tail] tt 3 0 []).
Eval vm_compute in calls (x_run [x_elem order2; x_blank; x_tail] tt 3 0 []).
Eval vm_compute in calls (x_run [x_elem order3; x_blank; x_tail] tt 3 0 []).
(* ---- 1 item / 0 items ---- *)
Eval vm_compute in calls (x_run [x_elem order1; x_blank; x_tail] tt 1 0 []).
Eval vm_compute in calls (x_run [x_elem order2; x_blank; x_tail] tt 1 0 []).
Eval vm_compute in calls (x_run [x_elem order1; x_blank; x_tail] tt 0 0 []).
Eval vm_compute in calls (x_run [x_elem order2; x_blank; x_tail] tt 0 0 []).
(* ---- condition false / the string "true" / failing evaluations ---- *)
Eval vm_compute in calls (x_run [x_elem order1; x_blank; x_tail] (VBool false) 3 0 []).
Eval vm_compute in calls (x_run [x_elem order2; x_blank; x_tail] (VStr s_true) 1 0 []).
Eval vm_compute in calls (x_run [x_elem order1; x_blank; x_tail] tt 3 1 []).     (* with fails *)
Eval vm_compute in calls (x_run [x_elem order1; x_blank; x_tail] tt 3 11 []).    (* condition fails *)
Eval vm_compute in calls (x_run [x_elem order1; x_blank; x_tail] tt 3 31 []).    (* range object fails *)
Eval vm_compute in calls (x_run [x_elem order1; x_blank; x_tail] tt 3 21 [107;50]).  (* text fails at item 2 *)
Eval vm_compute in calls (x_run [x_elem order2; x_blank; x_tail] tt 3 41 [107;50]).  (* title fails at item 2 *)
(* ---- no blank separator behind the element ---- *)
Eval vm_compute in calls (x_run [x_elem order1; x_tail] tt 3 0 []).
(* ---- the per-item scope contains x, i and w ---- *)
Eval vm_compute in calls (x_run [x_elem [a_with; a_if; a_range; a_title_iw; a_text]; x_blank] tt 2 0 []).
(* ---- a ${} block as the range object is NOT accepted by the model's header syntax ---- *)
Eval vm_compute in calls (x_run [x_elem [a_with; a_if; a_range_code; a_title; a_text]; x_blank] tt 2 0 []).
