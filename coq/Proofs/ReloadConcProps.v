(* C18 under concurrency: every schedule of the atomic-step model Sys/ReloadConc.v is linearizable with respect to the
   sequential model Sys/Reload.v.  One invariant over the reachable states (Inv) carries everything. *)
From Tpl Require Import Sys.Reload Sys.ReloadConc Proofs.ReloadProps.
From Coq Require Import Arith Lia List Bool.
Import ListNotations.

(* ---------- concrete schedules (evaluated before anything was proved) ---------- *)

Definition ex_threads : list cthread :=
  [TReload (BOk 1); TReq true; TReload BFail; TReq false; TReload (BOk 2)].

(* thread 1 (a request) loads between thread 0's build and its store, so it is served from the OLD set 0 although it
   returns after the Reload has returned; thread 2 is a failing Reload; thread 3 starts after everything and sees 1;
   thread 4 never runs *)
Example ex_between :
  let s := crun (conc_init (Some 0) ex_threads) [0; 1; 0; 2; 1; 3; 3] in
  c_lin s = [1; 0; 2; 3] /\
  c_threads s = [TDone AReloadOk; TDone (AServed 0); TDone AReloadErr; TDone (ANotFound 1); TReload (BOk 2)] /\
  c_cur s = Some 1 /\
  ops_of ex_threads (c_lin s) = [Get true BFail; Reload (BOk 1); Reload BFail; Get false BFail] /\
  run false (mkRS (Some 0)) (ops_of ex_threads (c_lin s)) = [AServed 0; AReloadOk; AReloadErr; ANotFound 1] /\
  last_success (Some 0) (ops_of ex_threads (c_lin s)) = Some 1 /\
  map (index_of (c_lin s)) [0; 1; 2; 3; 4] = [Some 1; Some 0; Some 2; Some 3; None].
Proof. repeat split; reflexivity. Qed.

(* no set at the start, two successful Reloads whose stores are in the opposite order of their builds, a failing
   Reload, steps of finished threads and of a thread number that does not exist (7) *)
Example ex_two_reloads :
  let s := crun (conc_init None ex_threads) [1; 2; 0; 4; 4; 3; 0; 1; 3; 7; 1; 0] in
  c_lin s = [1; 2; 4; 3; 0] /\
  c_threads s = [TDone AReloadOk; TDone ANoSet; TDone AReloadErr; TDone (ANotFound 2); TDone AReloadOk] /\
  c_cur s = Some 1 /\
  run false (mkRS None) (ops_of ex_threads (c_lin s)) = [ANoSet; AReloadErr; AReloadOk; ANotFound 2; AReloadOk] /\
  last_success None (ops_of ex_threads (c_lin s)) = Some 1.
Proof. repeat split; reflexivity. Qed.

(* ---------- lists ---------- *)

Lemma set_nth_length : forall A (l : list A) i x, length (set_nth l i x) = length l.
Proof. induction l as [|y l IH]; intros [|i] x; cbn; auto. Qed.

Lemma nth_error_set_nth_eq : forall A (l : list A) i x t,
  nth_error l i = Some t -> nth_error (set_nth l i x) i = Some x.
Proof.
  induction l as [|y l IH]; intros [|i] x t H; cbn in *; try discriminate; [reflexivity|].
  apply (IH i x t H).
Qed.

Lemma nth_error_set_nth_neq : forall A (l : list A) i j x,
  i <> j -> nth_error (set_nth l i x) j = nth_error l j.
Proof.
  induction l as [|y l IH]; intros [|i] [|j] x H; cbn; try reflexivity; try congruence.
  apply IH. congruence.
Qed.

Lemma firstn_app_exact : forall A (a b : list A), firstn (length a) (a ++ b) = a.
Proof. induction a as [|x a IH]; intros b; cbn; [reflexivity|]. rewrite IH. reflexivity. Qed.

Lemma nth_error_app_exact : forall A (a b : list A) x, nth_error (a ++ x :: b) (length a) = Some x.
Proof. induction a as [|y a IH]; intros b x; cbn; [reflexivity|]. apply IH. Qed.

(* a ++ b = m1 ++ q :: m2 with q not in a: the split point lies in b *)
Lemma app_split_notin : forall (a b m1 m2 : list nat) q,
  a ++ b = m1 ++ q :: m2 -> ~ In q a -> exists e1, m1 = a ++ e1 /\ b = e1 ++ q :: m2.
Proof.
  induction a as [|x a IH]; intros b m1 m2 q E Hn.
  - exists m1. split; [reflexivity|exact E].
  - destruct m1 as [|y m1]; cbn in E.
    + injection E as E1 _. exfalso. apply Hn. left. exact E1.
    + injection E as E1 E2. subst y.
      destruct (IH b m1 m2 q E2) as [e1 [H1 H2]].
      * intro Hin. apply Hn. right. exact Hin.
      * exists e1. split; [cbn; rewrite H1; reflexivity|exact H2].
Qed.

(* ---------- index_of ---------- *)

Lemma index_of_app_notin : forall a b j, ~ In j a ->
  index_of (a ++ b) j = option_map (fun k => length a + k) (index_of b j).
Proof.
  induction a as [|x a IH]; intros b j Hn.
  - cbn. destruct (index_of b j); reflexivity.
  - cbn [app index_of length].
    assert (Hx : Nat.eqb j x = false).
    { apply Nat.eqb_neq. intro E. apply Hn. left. symmetry. exact E. }
    rewrite Hx. rewrite IH; [|intro Hin; apply Hn; right; exact Hin].
    destruct (index_of b j); reflexivity.
Qed.

Lemma index_of_split : forall a b i, ~ In i a -> index_of (a ++ i :: b) i = Some (length a).
Proof.
  intros a b i Hn. rewrite index_of_app_notin by exact Hn. cbn [index_of]. rewrite Nat.eqb_refl.
  cbn [option_map]. rewrite Nat.add_0_r. reflexivity.
Qed.

Lemma nodup_split_notin : forall (a b : list nat) i, NoDup (a ++ i :: b) -> ~ In i a.
Proof.
  intros a b i H Hin. apply NoDup_remove_2 in H. apply H. apply in_or_app. left. exact Hin.
Qed.

Lemma index_of_nodup_split : forall a b i, NoDup (a ++ i :: b) -> index_of (a ++ i :: b) i = Some (length a).
Proof. intros a b i H. apply index_of_split. exact (nodup_split_notin a b i H). Qed.

(* ---------- last_success, ops_of ---------- *)

Lemma last_success_app : forall a acc b, last_success acc (a ++ b) = last_success (last_success acc a) b.
Proof.
  induction a as [|o a IH]; intros acc b; [reflexivity|]. cbn [app].
  destruct o as [[v|]|ex bb|ex bb]; cbn [last_success]; apply IH.
Qed.

Lemma last_success_some : forall ops v,
  exists v', last_success (Some v) ops = Some v' /\ (v' = v \/ In (Reload (BOk v')) ops).
Proof.
  induction ops as [|o ops IH]; intros v.
  - exists v. split; [reflexivity|left; reflexivity].
  - destruct o as [[w|]|ex bb|ex bb]; cbn [last_success].
    + destruct (IH w) as [v' [H1 [H2|H2]]]; exists v'; (split; [exact H1|right]).
      * left. rewrite H2. reflexivity.
      * right. exact H2.
    + destruct (IH v) as [v' [H1 [H2|H2]]]; exists v'; (split; [exact H1|]); [left; exact H2|right; right; exact H2].
    + destruct (IH v) as [v' [H1 [H2|H2]]]; exists v'; (split; [exact H1|]); [left; exact H2|right; right; exact H2].
    + destruct (IH v) as [v' [H1 [H2|H2]]]; exists v'; (split; [exact H1|]); [left; exact H2|right; right; exact H2].
Qed.

Lemma ops_of_app : forall th a b, ops_of th (a ++ b) = ops_of th a ++ ops_of th b.
Proof. intros th a b. unfold ops_of. apply flat_map_app. Qed.

Lemma ops_of_single : forall th i t o,
  nth_error th i = Some t -> op_of_start t = Some o -> ops_of th [i] = [o].
Proof. intros th i t o H1 H2. unfold ops_of. cbn [flat_map]. rewrite H1, H2. reflexivity. Qed.

Lemma ops_of_split : forall th l1 l2 i t o,
  nth_error th i = Some t -> op_of_start t = Some o ->
  ops_of th (l1 ++ i :: l2) = ops_of th l1 ++ o :: ops_of th l2.
Proof.
  intros th l1 l2 i t o H1 H2. rewrite ops_of_app. change (i :: l2) with ([i] ++ l2).
  rewrite ops_of_app. rewrite (ops_of_single th i t o H1 H2). reflexivity.
Qed.

Lemma in_ops_of : forall th l o, In o (ops_of th l) ->
  exists i t, In i l /\ nth_error th i = Some t /\ op_of_start t = Some o.
Proof.
  intros th l o H. unfold ops_of in H. apply in_flat_map in H. destruct H as [i [Hi Ho]].
  destruct (nth_error th i) as [t|] eqn:Et; [|destruct Ho].
  destruct (op_of_start t) as [o'|] eqn:Eo; [|destruct Ho].
  destruct Ho as [Ho|[]]. subst o'. exists i, t. auto.
Qed.

Lemma fresh_op : forall th i, fresh th -> i < length th ->
  exists t o, nth_error th i = Some t /\ op_of_start t = Some o.
Proof.
  intros th i Hf Hi. destruct (nth_error th i) as [t|] eqn:Et.
  - pose proof (Hf t (nth_error_In th i Et)) as Hn.
    destruct (op_of_start t) as [o|] eqn:Eo; [|congruence]. exists t, o. auto.
  - apply nth_error_None in Et. lia.
Qed.

(* under fresh, position k of the linearization order is position k of the history *)
Lemma ops_of_length : forall th lin, fresh th -> (forall i, In i lin -> i < length th) ->
  length (ops_of th lin) = length lin.
Proof.
  intros th lin Hf. induction lin as [|i lin IH]; intros Hv; [reflexivity|].
  change (i :: lin) with ([i] ++ lin). rewrite ops_of_app, !app_length.
  destruct (fresh_op th i Hf (Hv i (or_introl eq_refl))) as [t [o [H1 H2]]].
  rewrite (ops_of_single th i t o H1 H2). rewrite IH; [reflexivity|].
  intros j Hj. apply Hv. right. exact Hj.
Qed.

(* ---------- the schedule ---------- *)

Lemma crun_app : forall s a b, crun s (a ++ b) = crun (crun s a) b.
Proof. intros s a b. unfold crun. apply fold_left_app. Qed.

Lemma cstep_lin : forall s i, c_lin (cstep s i) = c_lin s \/ c_lin (cstep s i) = c_lin s ++ [i].
Proof.
  intros s i. unfold cstep. destruct (nth_error (c_threads s) i) as [t|]; [|left; reflexivity].
  destruct (tstep (c_cur s) t) as [[c' t'] b]. destruct b; cbn [c_lin]; auto.
Qed.

(* the linearization order only grows, and only by threads that take a step *)
Lemma lin_ext : forall sched s, exists ext,
  c_lin (crun s sched) = c_lin s ++ ext /\ forall x, In x ext -> In x sched.
Proof.
  induction sched as [|i sched IH]; intros s.
  - exists []. cbn. rewrite app_nil_r. split; [reflexivity|intros x []].
  - cbn [crun fold_left]. destruct (IH (cstep s i)) as [ext [E Hin]]. fold (crun (cstep s i) sched).
    destruct (cstep_lin s i) as [Hl|Hl]; rewrite Hl in E.
    + exists ext. split; [exact E|]. intros x Hx. right. apply Hin. exact Hx.
    + exists (i :: ext). split.
      * rewrite E. rewrite <- app_assoc. reflexivity.
      * intros x [Hx|Hx]; [left; exact Hx|right; apply Hin; exact Hx].
Qed.

(* ---------- the invariant ---------- *)

(* what thread i's current state t says about its start state and about the linearization order so far *)
Definition tok (c0 : option version) (th : list cthread) (lin : list nat) (i : nat) (t : cthread) : Prop :=
  match t with
  | TReload b => nth_error th i = Some (TReload b) /\ ~ In i lin
  | TBuilt v => nth_error th i = Some (TReload (BOk v)) /\ ~ In i lin
  | TReq ex => nth_error th i = Some (TReq ex) /\ ~ In i lin
  | TLoaded m ex => nth_error th i = Some (TReq ex) /\
      exists l1 l2, lin = l1 ++ i :: l2 /\ m = last_success c0 (ops_of th l1)
  | TDone a => exists l1 l2 t0 o, lin = l1 ++ i :: l2 /\ nth_error th i = Some t0 /\ op_of_start t0 = Some o /\
      a = snd (rstep false (mkRS (last_success c0 (ops_of th l1))) o)
  end.

Record Inv (c0 : option version) (th : list cthread) (s : cstate) : Prop := mkInv {
  I_len : length (c_threads s) = length th;
  I_nodup : NoDup (c_lin s);
  I_valid : forall i, In i (c_lin s) -> i < length th;
  I_cur : c_cur s = last_success c0 (ops_of th (c_lin s));
  I_thr : forall i t, nth_error (c_threads s) i = Some t -> tok c0 th (c_lin s) i t }.

Lemma tok_mono : forall c0 th lin i j t, j <> i -> tok c0 th lin j t -> tok c0 th (lin ++ [i]) j t.
Proof.
  intros c0 th lin i j t Hne H.
  assert (Hnin : ~ In j lin -> ~ In j (lin ++ [i])).
  { intros Hn Hin. apply in_app_or in Hin. destruct Hin as [Hin|[Hin|[]]]; [exact (Hn Hin)|congruence]. }
  destruct t as [b|v|ex|m ex|a]; cbn [tok] in *.
  - destruct H as [H1 H2]. split; [exact H1|exact (Hnin H2)].
  - destruct H as [H1 H2]. split; [exact H1|exact (Hnin H2)].
  - destruct H as [H1 H2]. split; [exact H1|exact (Hnin H2)].
  - destruct H as [H1 [l1 [l2 [E Hm]]]]. split; [exact H1|]. exists l1, (l2 ++ [i]). split; [|exact Hm].
    rewrite E. rewrite <- app_assoc. reflexivity.
  - destruct H as [l1 [l2 [t0 [o [E [H1 [H2 Ha]]]]]]]. exists l1, (l2 ++ [i]), t0, o.
    split; [|auto]. rewrite E. rewrite <- app_assoc. reflexivity.
Qed.

Lemma inv_init : forall c0 th, fresh th -> Inv c0 th (conc_init c0 th).
Proof.
  intros c0 th Hf. constructor; cbn [conc_init c_cur c_threads c_lin].
  - reflexivity.
  - constructor.
  - intros i [].
  - reflexivity.
  - intros i t Et. pose proof (Hf t (nth_error_In th i Et)) as Hn.
    destruct t as [b|v|ex|m ex|a]; cbn [op_of_start] in Hn; try congruence; cbn [tok]; split; auto.
Qed.

(* a step that is not a linearization step and leaves the shared field alone *)
Lemma inv_nolin : forall c0 th s i t t',
  Inv c0 th s -> nth_error (c_threads s) i = Some t -> tok c0 th (c_lin s) i t' ->
  Inv c0 th (mkCS (c_cur s) (set_nth (c_threads s) i t') (c_lin s)).
Proof.
  intros c0 th s i t t' HI Et Ht'. constructor; cbn [c_cur c_threads c_lin].
  - rewrite set_nth_length. exact (I_len _ _ _ HI).
  - exact (I_nodup _ _ _ HI).
  - exact (I_valid _ _ _ HI).
  - exact (I_cur _ _ _ HI).
  - intros j u Eu. destruct (Nat.eq_dec i j) as [E|E].
    + subst j. rewrite (nth_error_set_nth_eq _ _ _ t' _ Et) in Eu. injection Eu as <-. exact Ht'.
    + rewrite nth_error_set_nth_neq in Eu by exact E. exact (I_thr _ _ _ HI j u Eu).
Qed.

(* a linearization step of thread i, whose operation is o *)
Lemma inv_lin : forall c0 th s i t t' t0 o c',
  Inv c0 th s -> nth_error (c_threads s) i = Some t -> ~ In i (c_lin s) ->
  nth_error th i = Some t0 -> op_of_start t0 = Some o ->
  c' = last_success (c_cur s) [o] ->
  tok c0 th (c_lin s ++ [i]) i t' ->
  Inv c0 th (mkCS c' (set_nth (c_threads s) i t') (c_lin s ++ [i])).
Proof.
  intros c0 th s i t t' t0 o c' HI Et Hnin E0 Eo Ec Ht'. constructor; cbn [c_cur c_threads c_lin].
  - rewrite set_nth_length. exact (I_len _ _ _ HI).
  - apply (NoDup_Add (Add_app i (c_lin s) [])). rewrite app_nil_r.
    split; [exact (I_nodup _ _ _ HI)|exact Hnin].
  - intros j Hj. apply in_app_or in Hj. destruct Hj as [Hj|[Hj|[]]]; [exact (I_valid _ _ _ HI j Hj)|].
    subst j. apply nth_error_Some. rewrite E0. discriminate.
  - rewrite ops_of_app, last_success_app, <- (I_cur _ _ _ HI), (ops_of_single th i t0 o E0 Eo). exact Ec.
  - intros j u Eu. destruct (Nat.eq_dec i j) as [E|E].
    + subst j. rewrite (nth_error_set_nth_eq _ _ _ t' _ Et) in Eu. injection Eu as <-. exact Ht'.
    + rewrite nth_error_set_nth_neq in Eu by exact E. apply tok_mono; [congruence|]. exact (I_thr _ _ _ HI j u Eu).
Qed.

Lemma inv_step : forall c0 th s i, Inv c0 th s -> Inv c0 th (cstep s i).
Proof.
  intros c0 th s i HI. unfold cstep. destruct (nth_error (c_threads s) i) as [t|] eqn:Et; [|exact HI].
  pose proof (I_thr _ _ _ HI i t Et) as Hti.
  destruct t as [[v|]|v|ex|[v|] ex|a]; cbn [tstep tok] in *.
  - (* build succeeded *)
    destruct Hti as [H1 H2]. apply (inv_nolin c0 th s i _ _ HI Et). cbn [tok]. auto.
  - (* build failed: linearized here *)
    destruct Hti as [H1 H2].
    apply (inv_lin c0 th s i _ _ (TReload BFail) (Reload BFail) _ HI Et H2 H1 eq_refl); [reflexivity|].
    cbn [tok]. exists (c_lin s), [], (TReload BFail), (Reload BFail). auto.
  - (* store *)
    destruct Hti as [H1 H2].
    apply (inv_lin c0 th s i _ _ (TReload (BOk v)) (Reload (BOk v)) _ HI Et H2 H1 eq_refl); [reflexivity|].
    cbn [tok]. exists (c_lin s), [], (TReload (BOk v)), (Reload (BOk v)). auto.
  - (* load *)
    destruct Hti as [H1 H2].
    apply (inv_lin c0 th s i _ _ (TReq ex) (Get ex BFail) _ HI Et H2 H1 eq_refl); [reflexivity|].
    cbn [tok]. split; [exact H1|]. exists (c_lin s), []. split; [reflexivity|exact (I_cur _ _ _ HI)].
  - (* lookup in the loaded set *)
    destruct Hti as [H1 [l1 [l2 [E Hm]]]]. apply (inv_nolin c0 th s i _ _ HI Et). cbn [tok].
    exists l1, l2, (TReq ex), (Get ex BFail). repeat (split; [assumption || reflexivity|]).
    rewrite <- Hm. reflexivity.
  - (* nothing loaded *)
    destruct Hti as [H1 [l1 [l2 [E Hm]]]]. apply (inv_nolin c0 th s i _ _ HI Et). cbn [tok].
    exists l1, l2, (TReq ex), (Get ex BFail). repeat (split; [assumption || reflexivity|]).
    rewrite <- Hm. reflexivity.
  - (* finished: no-op *)
    apply (inv_nolin c0 th s i _ _ HI Et). exact Hti.
Qed.

Lemma inv_crun : forall c0 th sched s, Inv c0 th s -> Inv c0 th (crun s sched).
Proof.
  intros c0 th sched. induction sched as [|i sched IH]; intros s HI; [exact HI|].
  cbn [crun fold_left]. apply IH. apply inv_step. exact HI.
Qed.

Lemma inv_reach : forall c th sched, fresh th -> Inv c th (crun (conc_init c th) sched).
Proof. intros c th sched Hf. apply inv_crun. apply inv_init. exact Hf. Qed.

(* a finished thread: its place in the order and its answer *)
Lemma done_answer : forall c0 th s i a l1 l2 t0 o, fresh th -> Inv c0 th s ->
  c_lin s = l1 ++ i :: l2 -> nth_error th i = Some t0 -> op_of_start t0 = Some o ->
  a = snd (rstep false (mkRS (last_success c0 (ops_of th l1))) o) ->
  index_of (c_lin s) i = Some (length l1) /\
  nth_error (run false (mkRS c0) (ops_of th (c_lin s))) (length l1) = Some a.
Proof.
  intros c0 th s i a l1 l2 t0 o Hf HI E E0 Eo Ha.
  pose proof (I_nodup _ _ _ HI) as Hnd. rewrite E in Hnd.
  split; [rewrite E; apply index_of_nodup_split; exact Hnd|].
  assert (Hl : length (ops_of th l1) = length l1).
  { apply ops_of_length; [exact Hf|]. intros j Hj. apply (I_valid _ _ _ HI). rewrite E.
    apply in_or_app. left. exact Hj. }
  rewrite E, (ops_of_split th l1 l2 i t0 o E0 Eo), <- Hl.
  rewrite (run_nth false _ (mkRS c0) _ o (nth_error_app_exact _ _ _ _)).
  cbn [cur]. rewrite firstn_app_exact. rewrite Ha. reflexivity.
Qed.

(* ---------- 5 ---------- *)

Theorem no_torn_state : forall c threads sched, fresh threads ->
  c_cur (crun (conc_init c threads) sched) = last_success c (ops_of threads (c_lin (crun (conc_init c threads) sched))).
Proof. intros c threads sched Hf. exact (I_cur _ _ _ (inv_reach c threads sched Hf)). Qed.

(* ---------- 2 ---------- *)

Theorem lin_nodup : forall c threads sched, fresh threads -> NoDup (c_lin (crun (conc_init c threads) sched)).
Proof. intros c threads sched Hf. exact (I_nodup _ _ _ (inv_reach c threads sched Hf)). Qed.

(* ---------- 1 ---------- *)

Theorem linearizable : forall c threads sched i a, fresh threads ->
  nth_error (c_threads (crun (conc_init c threads) sched)) i = Some (TDone a) ->
  exists k, index_of (c_lin (crun (conc_init c threads) sched)) i = Some k /\
            nth_error (run false (mkRS c) (ops_of threads (c_lin (crun (conc_init c threads) sched)))) k = Some a.
Proof.
  intros c threads sched i a Hf Hd. pose proof (inv_reach c threads sched Hf) as HI.
  pose proof (I_thr _ _ _ HI i _ Hd) as Ht. cbn [tok] in Ht.
  destruct Ht as [l1 [l2 [t0 [o [E [E0 [Eo Ha]]]]]]].
  exists (length l1). exact (done_answer c threads _ i a l1 l2 t0 o Hf HI E E0 Eo Ha).
Qed.

(* ---------- 3 ---------- *)

Theorem real_time_order : forall c threads sched s1 s2 i j kj, fresh threads ->
  sched = s1 ++ s2 ->
  (exists ai, nth_error (c_threads (crun (conc_init c threads) s1)) i = Some (TDone ai)) ->
  ~ In j s1 ->
  index_of (c_lin (crun (conc_init c threads) sched)) j = Some kj ->
  exists ki, index_of (c_lin (crun (conc_init c threads) sched)) i = Some ki /\ ki < kj.
Proof.
  intros c threads sched s1 s2 i j kj Hf Es [ai Hd] Hnj Hj. subst sched.
  pose proof (inv_reach c threads s1 Hf) as HI1.
  pose proof (inv_reach c threads (s1 ++ s2) Hf) as HI.
  pose proof (I_thr _ _ _ HI1 i _ Hd) as Ht. cbn [tok] in Ht.
  destruct Ht as [l1 [l2 [t0 [o [E [E0 [Eo Ha]]]]]]].
  destruct (lin_ext s1 (conc_init c threads)) as [ext1 [X1 Hin1]]. cbn [conc_init c_lin app] in X1.
  rewrite crun_app in *. destruct (lin_ext s2 (crun (conc_init c threads) s1)) as [ext2 [X2 _]].
  assert (Hnj1 : ~ In j (l1 ++ i :: l2)).
  { rewrite <- E, X1. intro Hin. apply Hnj. apply Hin1. exact Hin. }
  rewrite E in X2. pose proof (I_nodup _ _ _ HI) as Hnd. rewrite X2 in Hnd, Hj |- *.
  rewrite <- app_assoc in Hnd, Hj |- *. cbn [app] in Hnd, Hj |- *.
  exists (length l1). split; [apply index_of_nodup_split; exact Hnd|].
  assert (Hj1 : ~ In j l1). { intro Hin. apply Hnj1. apply in_or_app. left. exact Hin. }
  assert (Hji : j <> i). { intro Eji. apply Hnj1. apply in_or_app. right. left. symmetry. exact Eji. }
  rewrite index_of_app_notin in Hj by exact Hj1. cbn [index_of] in Hj.
  apply Nat.eqb_neq in Hji. rewrite Hji in Hj.
  destruct (index_of (l2 ++ ext2) j) as [k|]; cbn [option_map] in Hj; [|discriminate].
  injection Hj as <-. lia.
Qed.

(* ---------- 4 ---------- *)

Lemma reload_start : forall t v, op_of_start t = Some (Reload (BOk v)) -> t = TReload (BOk v).
Proof. intros t v H. destruct t as [b|w|ex|m ex|a]; cbn [op_of_start] in H; try discriminate. congruence. Qed.

(* the strong form: when the request is not served from r's build, it is served from the build of a Reload that is
   linearized strictly between r and the request *)
Theorem request_after_reload_sees_it_strong : forall c threads sched s1 s2 r q v ex a, fresh threads ->
  sched = s1 ++ s2 ->
  nth_error threads r = Some (TReload (BOk v)) -> nth_error threads q = Some (TReq ex) ->
  nth_error (c_threads (crun (conc_init c threads) s1)) r = Some (TDone AReloadOk) -> ~ In q s1 ->
  nth_error (c_threads (crun (conc_init c threads) sched)) q = Some (TDone a) ->
  exists v', a = lookup_in v' ex /\
    (v' = v \/ exists r' kr kr' kq, r' <> r /\ nth_error threads r' = Some (TReload (BOk v')) /\
       index_of (c_lin (crun (conc_init c threads) sched)) r = Some kr /\
       index_of (c_lin (crun (conc_init c threads) sched)) r' = Some kr' /\
       index_of (c_lin (crun (conc_init c threads) sched)) q = Some kq /\ kr < kr' /\ kr' < kq).
Proof.
  intros c threads sched s1 s2 r q v ex a Hf Es Hr Hq Hrd Hnq Hqd. subst sched.
  pose proof (inv_reach c threads s1 Hf) as HI1.
  pose proof (inv_reach c threads (s1 ++ s2) Hf) as HI.
  pose proof (I_thr _ _ _ HI1 r _ Hrd) as Htr. cbn [tok] in Htr.
  destruct Htr as [l1 [l2 [tr [or [Er _]]]]].
  pose proof (I_thr _ _ _ HI q _ Hqd) as Htq. cbn [tok] in Htq.
  destruct Htq as [m1 [m2 [tq [oq [Eq [Eq0 [Eqo Ha]]]]]]].
  rewrite Hq in Eq0. injection Eq0 as <-. cbn [op_of_start] in Eqo. injection Eqo as <-.
  destruct (lin_ext s1 (conc_init c threads)) as [ext1 [X1 Hin1]]. cbn [conc_init c_lin app] in X1.
  pose proof (I_nodup _ _ _ HI) as Hnd.
  rewrite crun_app in *. destruct (lin_ext s2 (crun (conc_init c threads) s1)) as [ext2 [X2 _]].
  assert (Hnq1 : ~ In q (l1 ++ r :: l2)).
  { rewrite <- Er, X1. intro Hin. apply Hnq. apply Hin1. exact Hin. }
  rewrite Er in X2. rewrite Eq in X2. symmetry in X2.
  destruct (app_split_notin _ _ _ _ _ X2 Hnq1) as [e1 [Em1 _]].
  (* the history before the request contains r's store *)
  assert (Em1' : m1 = l1 ++ r :: (l2 ++ e1)). { rewrite Em1, <- app_assoc. reflexivity. }
  rewrite Em1' in Ha. rewrite (ops_of_split threads l1 (l2 ++ e1) r _ _ Hr eq_refl) in Ha.
  rewrite last_success_app in Ha. cbn [last_success] in Ha.
  destruct (last_success_some (ops_of threads (l2 ++ e1)) v) as [v' [Hv' Hor]].
  rewrite Hv' in Ha. cbn [rstep cur snd] in Ha. exists v'. split; [exact Ha|].
  destruct Hor as [Hor|Hor]; [left; exact Hor|right].
  apply in_ops_of in Hor. destruct Hor as [r' [t' [Hin' [Er' Eo']]]].
  apply reload_start in Eo'. subst t'.
  apply in_split in Hin'. destruct Hin' as [n1 [n2 En]].
  rewrite Eq, Em1', En in Hnd |- *.
  (* the order is l1 ++ r :: n1 ++ r' :: n2 ++ q :: m2 *)
  assert (F0 : (l1 ++ r :: n1 ++ r' :: n2) ++ q :: m2 = l1 ++ r :: (n1 ++ r' :: n2 ++ q :: m2)).
  { rewrite <- !app_assoc. cbn [app]. rewrite <- !app_assoc. reflexivity. }
  assert (F1 : (l1 ++ r :: n1 ++ r' :: n2) ++ q :: m2 = (l1 ++ r :: n1) ++ r' :: (n2 ++ q :: m2)).
  { rewrite <- !app_assoc. cbn [app]. rewrite <- !app_assoc. reflexivity. }
  assert (Kq : index_of ((l1 ++ r :: n1 ++ r' :: n2) ++ q :: m2) q = Some (length (l1 ++ r :: n1 ++ r' :: n2))).
  { apply index_of_nodup_split. exact Hnd. }
  assert (Kr : index_of ((l1 ++ r :: n1 ++ r' :: n2) ++ q :: m2) r = Some (length l1)).
  { rewrite F0. apply index_of_nodup_split. rewrite <- F0. exact Hnd. }
  assert (Kr' : index_of ((l1 ++ r :: n1 ++ r' :: n2) ++ q :: m2) r' = Some (length (l1 ++ r :: n1))).
  { rewrite F1. apply index_of_nodup_split. rewrite <- F1. exact Hnd. }
  exists r', (length l1), (length (l1 ++ r :: n1)), (length (l1 ++ r :: n1 ++ r' :: n2)).
  assert (L1 : length (l1 ++ r :: n1) = length l1 + S (length n1)).
  { rewrite app_length. reflexivity. }
  assert (L2 : length (l1 ++ r :: n1 ++ r' :: n2) = length l1 + S (length n1 + S (length n2))).
  { rewrite app_length. cbn [length]. rewrite app_length. reflexivity. }
  split.
  { intro Err. subst r'. rewrite Kr in Kr'. injection Kr' as Kr'. lia. }
  split; [exact Er'|]. split; [exact Kr|]. split; [exact Kr'|]. split; [exact Kq|]. lia.
Qed.

Corollary request_after_reload_sees_it : forall c threads sched s1 s2 r q v ex a, fresh threads ->
  sched = s1 ++ s2 ->
  nth_error threads r = Some (TReload (BOk v)) -> nth_error threads q = Some (TReq ex) ->
  nth_error (c_threads (crun (conc_init c threads) s1)) r = Some (TDone AReloadOk) -> ~ In q s1 ->
  nth_error (c_threads (crun (conc_init c threads) sched)) q = Some (TDone a) ->
  exists v', a = lookup_in v' ex /\
    (v' = v \/ exists r', r' <> r /\ nth_error threads r' = Some (TReload (BOk v'))).
Proof.
  intros c threads sched s1 s2 r q v ex a Hf Es Hr Hq Hrd Hnq Hqd.
  destruct (request_after_reload_sees_it_strong c threads sched s1 s2 r q v ex a Hf Es Hr Hq Hrd Hnq Hqd)
    as [v' [Ha [Hv|[r' [kr [kr' [kq [Hne [Hr' _]]]]]]]]]; exists v'; (split; [exact Ha|]).
  - left. exact Hv.
  - right. exists r'. split; [exact Hne|exact Hr'].
Qed.

Print Assumptions linearizable.
Print Assumptions lin_nodup.
Print Assumptions real_time_order.
Print Assumptions request_after_reload_sees_it_strong.
Print Assumptions request_after_reload_sees_it.
Print Assumptions no_torn_state.
