(* C01, last clause: "every open tag is printed as <name attr[=value]...>, which differs from the
   source tag only in white space inside the tag".

   Scanner side.  For every tag token t of a successful scan:

   - [tag_print_general]  (hypothesis: only [is_space 32 = true])
       either t was cut out of the source by the tag automaton and then
         t_attrs t = map fix_else l0   and
         nsp (t_value t) = nsp ("<" ++ t_name t ++ flat_map print_attr l0 ++ ">")
       ([nsp] = remove white space; [fix_else] is the scanner's "prefix+else without a value gets the
       synthetic value "true" (with quotes)"),
       or t is the close tag of a raw-text element (script, style, ...): no attributes, and its name
       is [written_close_name] of the blank-free copy of its source text.
   - [tag_print_nonspace_open]: nsp (print_tag t) = nsp (t_value t) for every tag whose name does not
     start with '/' and that has no synthetic else value (only [is_space 32 = true]).
   - [tag_print_nonspace]: the same for EVERY tag token without a synthetic else value, under
     is_space '<' = false, is_space '>' = false and "to_lower maps nothing but '/' to '/'"
     (needed for the close tag of a raw-text element; see [tag_print_needs_slash_reflect]).
     The synthetic else value is a real exception: [cex_else].
   - [tag_print_values_verbatim]: every attribute value occurs verbatim in the tag source, at the
     reported positions [a_vstart, a_vend) (the synthetic else value excepted). *)
From Coq Require Import List NArith Bool Lia Arith.
From Tpl Require Import Proofs.ScanSpec Proofs.ScanConcat Proofs.ScanPos Proofs.ScanAttrPos Proofs.ExecSpec.
Import ListNotations.
Open Scope N_scope.

(* ---------- removing white space ---------- *)

Definition nsp (is_space : rune -> bool) (s : str) : str := filter (fun c => negb (is_space c)) s.

Definition pattrs (l : list attr) : str := flat_map print_attr l.

Lemma pattrs_snoc l a : pattrs (l ++ [a]) = pattrs l ++ print_attr a.
Proof. unfold pattrs. rewrite flat_map_app. cbn [flat_map]. rewrite app_nil_r. reflexivity. Qed.

Lemma print_tag_eq t : print_tag t = (cLT :: t_name t) ++ pattrs (t_attrs t) ++ [cGT].
Proof. reflexivity. Qed.

Section P.
Variable is_space : rune -> bool.
Variable to_lower : rune -> rune.
Variable text_tags : list str.
Variable attr_prefix : str.
Variable compile : attr -> bool.
Hypothesis Hsp : is_space cSP = true.

Notation dispatch := (Scan.dispatch is_space to_lower text_tags attr_prefix compile).
Notation step := (Scan.step is_space to_lower text_tags attr_prefix compile).
Notation tag_step := (Scan.tag_step is_space attr_prefix compile).
Notation text_step := (Scan.text_step is_space to_lower).
Notation scan := (Scan.scan is_space to_lower text_tags attr_prefix compile).
Notation add_attr := (Scan.add_attr attr_prefix compile).
Notation fix_else := (Scan.fix_else attr_prefix).
Notation else_name := (Scan.else_name attr_prefix).
Notation new_text := (Scan.new_text to_lower text_tags).
Notation lower := (Scan.lower to_lower).
Notation nsp := (nsp is_space).

Lemma nsp_app a b : nsp (a ++ b) = nsp a ++ nsp b.
Proof. apply filter_app. Qed.

Lemma nsp_nil : nsp [] = [].
Proof. reflexivity. Qed.

Lemma nsp_space r : is_space r = true -> nsp [r] = [].
Proof. intros H. unfold TagPrint.nsp; cbn [filter]. rewrite H. reflexivity. Qed.

Lemma nsp_nonspace r : is_space r = false -> nsp [r] = [r].
Proof. intros H. unfold TagPrint.nsp; cbn [filter]. rewrite H. reflexivity. Qed.

Lemma nsp_sp : nsp [cSP] = [].
Proof. apply nsp_space. exact Hsp. Qed.

Lemma nsp_cons c s : nsp (c :: s) = nsp [c] ++ nsp s.
Proof. exact (nsp_app [c] s). Qed.

Lemma nsp_trim s : nsp (trim_sp s) = nsp s.
Proof.
  unfold trim_sp. destruct (rev s) as [|c r'] eqn:Er; [reflexivity|].
  destruct (N.eqb c cSP) eqn:Ec; [|reflexivity].
  apply N.eqb_eq in Ec; subst c.
  assert (Hs : s = rev r' ++ [cSP]) by (rewrite <- (rev_involutive s), Er; reflexivity).
  rewrite Hs, nsp_app, nsp_sp, app_nil_r. reflexivity.
Qed.

Lemma nsp_mark s : nsp (if ends_sp s then s else s ++ [cSP]) = nsp s.
Proof. destruct (ends_sp s); [reflexivity|]. rewrite nsp_app, nsp_sp, app_nil_r; reflexivity. Qed.

Lemma nsp_print_attr a :
  nsp (print_attr a) =
  nsp (a_name a) ++ match a_value a with Some v => nsp [cEQ] ++ nsp v | None => [] end.
Proof.
  unfold print_attr. rewrite !nsp_app, nsp_sp. cbn [app].
  destruct (a_value a) as [v|]; [rewrite nsp_cons|]; reflexivity.
Qed.

Lemma nsp_idem s : nsp (nsp s) = nsp s.
Proof.
  induction s as [|c s IH]; [reflexivity|]. unfold TagPrint.nsp in *. cbn [filter].
  destruct (negb (is_space c)) eqn:E; [cbn [filter]; rewrite E, IH; reflexivity|exact IH].
Qed.

Lemma nsp_snoc_if nb tb r :
  nb = nsp tb -> (if is_space r then nb else nb ++ [r]) = nsp (tb ++ [r]).
Proof.
  intros ->. rewrite nsp_app. destruct (is_space r) eqn:E.
  - rewrite (nsp_space r E), app_nil_r. reflexivity.
  - rewrite (nsp_nonspace r E). reflexivity.
Qed.

(* ---------- what is claimed of a token ---------- *)

(* cut out of the source by the tag automaton *)
Definition emitted_like (t : token) : Prop :=
  exists l0, t_attrs t = map fix_else l0 /\
             nsp (t_value t) = nsp ((cLT :: t_name t) ++ pattrs l0 ++ [cGT]).

(* close tag of a raw-text element: no attributes; the name is '/' followed by the name as written,
   recovered from the blank-free copy of the source text *)
Definition raw_close_like (t : token) : Prop :=
  t_attrs t = [] /\ t_name t = written_close_name (nsp (t_value t)) /\
  (exists tb : str, t_value t = (cLT :: tb) ++ [cGT]) /\
  exists n : str, In n (map lower text_tags) /\
    prefixb (lower (nsp (t_value t))) ([cLT; cSLASH] ++ n ++ [cGT]) = true.

(* a value is where the token says it is, or it is the synthetic else value *)
Definition vattr_ok (start : pos) (text : str) (a : attr) : Prop :=
  forall v, a_value a = Some v ->
    span_in start text v (a_vstart a) (a_vend a) \/ (a_name a = else_name /\ v = true_q).
Definition vattrs_ok (start : pos) (text : str) (l : list attr) : Prop := Forall (vattr_ok start text) l.

Definition tokP (t : token) : Prop :=
  (t_kind t = KTag -> emitted_like t \/ raw_close_like t) /\
  vattrs_ok (t_start t) (t_value t) (t_attrs t).

Lemma tokP_nontag k v s e n : k <> KTag -> tokP (mkTok k v s e n []).
Proof. intros Hk. split; [intros H; contradiction (Hk H)|constructor]. Qed.

Lemma vattrs_ok_app start text e l : vattrs_ok start text l -> vattrs_ok start (text ++ e) l.
Proof.
  unfold vattrs_ok. apply Forall_impl. intros a Ha v Hv.
  destruct (Ha v Hv) as [H|H]; [left; apply span_in_app; exact H|right; exact H].
Qed.

Lemma vattr_fix start text a :
  (forall v, a_value a = Some v -> span_in start text v (a_vstart a) (a_vend a)) ->
  vattr_ok start text (fix_else a).
Proof.
  intros H v Hv. unfold Scan.fix_else in *.
  destruct (a_value a) as [w|] eqn:Ea.
  - left. rewrite Ea in Hv. apply H. exact Hv.
  - destruct (str_eqb (a_name a) else_name) eqn:Ee.
    + cbn [a_value a_name] in *. right. split; [apply str_eqb_eq; exact Ee|].
      injection Hv as <-. reflexivity.
    + rewrite Ea in Hv. discriminate.
Qed.

Lemma vattrs_cons start text a l :
  (forall v, a_value a = Some v -> span_in start text v (a_vstart a) (a_vend a)) ->
  vattrs_ok start text l -> vattrs_ok start text (fix_else a :: l).
Proof. intros Ha Hl. constructor; [apply vattr_fix; exact Ha|exact Hl]. Qed.

(* ---------- the printing equation of the tag buffer ---------- *)

(* attrs is the reversed list of completed attributes, part the pending attribute as it would be printed *)
Definition pr_eq (buf name : str) (attrs : list attr) (part : str) : Prop :=
  exists l0, attrs = map fix_else l0 /\
             nsp buf = nsp (cLT :: name) ++ nsp (pattrs (rev l0)) ++ nsp part.

Lemma pr_eq_name name : pr_eq (cLT :: name) name [] [].
Proof. exists []. split; [reflexivity|]. cbn [rev pattrs flat_map]. rewrite nsp_nil, !app_nil_r. reflexivity. Qed.

Lemma pr_eq_snoc buf name attrs part r :
  pr_eq buf name attrs part -> pr_eq (buf ++ [r]) name attrs (part ++ [r]).
Proof.
  intros (l0 & Hl & H). exists l0. split; [exact Hl|].
  rewrite !nsp_app, H, <- !app_assoc. reflexivity.
Qed.

Lemma pr_eq_part buf name attrs part part' :
  pr_eq buf name attrs part -> nsp part' = nsp part -> pr_eq buf name attrs part'.
Proof. intros (l0 & Hl & H) E. exists l0. split; [exact Hl|]. rewrite E. exact H. Qed.

Lemma pr_eq_space buf name attrs part r :
  is_space r = true -> pr_eq buf name attrs part -> pr_eq (buf ++ [r]) name attrs part.
Proof.
  intros Hr H. apply (pr_eq_part _ _ _ (part ++ [r])); [apply pr_eq_snoc; exact H|].
  rewrite nsp_app, (nsp_space r Hr), app_nil_r. reflexivity.
Qed.

Lemma pr_eq_add buf name attrs part a :
  pr_eq buf name attrs part -> nsp (print_attr a) = nsp part ->
  pr_eq buf name (fix_else a :: attrs) [].
Proof.
  intros (l0 & Hl & H) E. exists (a :: l0). split; [rewrite Hl; reflexivity|].
  cbn [rev]. rewrite pattrs_snoc, nsp_app, E, nsp_nil, app_nil_r. exact H.
Qed.

Lemma pr_eq_emit buf name attrs s e :
  pr_eq buf name attrs [cGT] -> emitted_like (mkTok KTag buf s e name (rev attrs)).
Proof.
  intros (l0 & Hl & H). exists (rev l0). cbn [t_attrs t_value t_name].
  split; [rewrite Hl, map_rev; reflexivity|].
  rewrite H, !nsp_app. reflexivity.
Qed.

(* the printed form of a just-completed attribute *)
Lemma nsp_attr_none an ns ne vs ve :
  nsp (print_attr (mkAttr (trim_sp an) ns ne None vs ve)) = nsp an.
Proof. rewrite nsp_print_attr. cbn [a_name a_value]. rewrite nsp_trim, app_nil_r. reflexivity. Qed.

Lemma nsp_attr_some an ns ne v vs ve :
  nsp (print_attr (mkAttr (trim_sp an) ns ne (Some v) vs ve)) = nsp (an ++ [cEQ] ++ v).
Proof. rewrite nsp_print_attr. cbn [a_name a_value]. rewrite nsp_trim, !nsp_app. reflexivity. Qed.

(* ---------- the pending value ---------- *)

Definition aval_ok (start : pos) (buf aval : str) (avs ave : pos) : Prop :=
  exists pre, buf = pre ++ aval /\ avs = pos_after start pre /\ (aval <> [] -> ave = pos_after avs aval).

Lemma aval_fresh start buf ave : aval_ok start buf [] (pos_after start buf) ave.
Proof.
  exists buf. split; [rewrite app_nil_r; reflexivity|]. split; [reflexivity|].
  intros H; contradiction H; reflexivity.
Qed.

Lemma aval_snoc start buf aval avs ave r :
  aval_ok start buf aval avs ave ->
  aval_ok start (buf ++ [r]) (aval ++ [r]) avs (pos_after start (buf ++ [r])).
Proof.
  intros (pre & Hb & Hs & _). exists pre. split; [rewrite Hb, <- app_assoc; reflexivity|].
  split; [exact Hs|]. intros _. rewrite Hb, Hs, <- app_assoc, pos_after_app. reflexivity.
Qed.

Lemma aval_span_nil start buf avs ave e :
  aval_ok start buf [] avs ave -> span_in start (buf ++ e) [] avs avs.
Proof.
  intros (pre & Hb & Hs & _). exists pre, e. rewrite app_nil_r in Hb. subst buf.
  split; [reflexivity|]. split; [exact Hs|reflexivity].
Qed.

Lemma aval_span start buf aval avs ave e :
  aval_ok start buf aval avs ave -> aval <> [] -> span_in start (buf ++ e) aval avs ave.
Proof.
  intros (pre & Hb & Hs & He) Hne. exists pre, e.
  split; [rewrite Hb, <- app_assoc; reflexivity|]. split; [exact Hs|exact (He Hne)].
Qed.

Lemma aval_span_q start buf aval avs ave r :
  aval_ok start buf aval avs ave ->
  span_in start (buf ++ [r]) (aval ++ [r]) avs (pos_after start (buf ++ [r])).
Proof.
  intros (pre & Hb & Hs & _). exists pre, [].
  split; [rewrite Hb, app_nil_r, <- app_assoc; reflexivity|]. split; [exact Hs|].
  rewrite Hb, Hs, <- app_assoc, pos_after_app. reflexivity.
Qed.

(* ---------- add_attr ---------- *)

Lemma add_attr_eq b a g g' : add_attr b a g = inl g' ->
  g' = mkTag (g_state g) (g_buf g) (g_start g) (fix_else a :: g_attrs g) (g_name g) (g_comment g) (g_cdata g)
             (g_aname g) (g_anstart g) (g_anend g) (g_aval g) (g_avstart g) (g_avend g).
Proof.
  unfold Scan.add_attr. destruct (b && negb _); [discriminate|].
  destruct (has_attr _ _); [discriminate|]. intros H; inversion H; reflexivity.
Qed.

Lemma quote_not_gt f r : N.eqb f cDQ || N.eqb f cSQ = true -> N.eqb f r = true -> N.eqb r cGT = false.
Proof.
  intros Hq Hr. apply N.eqb_eq in Hr; subst r. apply orb_true_iff in Hq as [H|H];
    apply N.eqb_eq in H; subst f; reflexivity.
Qed.

(* ---------- the invariant ---------- *)

Definition pr_ok (g : tagst) : Prop :=
  match g_state g with
  | TName => g_attrs g = [] /\ g_buf g = cLT :: g_name g
  | TSpace => pr_eq (g_buf g) (g_name g) (g_attrs g) []
  | TAttrName => pr_eq (g_buf g) (g_name g) (g_attrs g) (g_aname g)
  | TAttrValue => pr_eq (g_buf g) (g_name g) (g_attrs g) (g_aname g ++ [cEQ] ++ g_aval g)
  | _ => True
  end.

Definition av_ok (g : tagst) : Prop :=
  g_state g = TAttrValue -> aval_ok (g_start g) (g_buf g) (g_aval g) (g_avstart g) (g_avend g).

Definition ginv (g : tagst) (p : pos) : Prop :=
  p = pos_after (g_start g) (g_buf g) /\ vattrs_ok (g_start g) (g_buf g) (g_attrs g) /\ pr_ok g /\ av_ok g.

Definition tx_ok (x : textst) : Prop :=
  x_raw x = true ->
  x_namebuf x = nsp (x_tagbuf x) /\ x_close x = [cLT; cSLASH] ++ x_rawname x ++ [cGT] /\
  In (x_rawname x) (map lower text_tags) /\
  (x_tagbuf x = [] \/ exists rest : str, x_tagbuf x = cLT :: rest).

Definition ainv (toks : list token) (m : mode) (p : pos) : Prop :=
  Forall tokP toks /\
  match m with
  | MTag g => ginv g p
  | MText x => tx_ok x
  | _ => True
  end.

Definition rinv (res : tres) (p0 p1 : pos) : Prop :=
  match res with
  | TR toks m false => ainv toks m p1
  | TR toks m true => exists g, m = MTag g /\ g_state g = TAttrName /\ ainv toks m p0
  end.

Lemma finish_or_inv toks g r p0 p1 :
  Forall tokP toks -> p1 = pos_after (g_start g) (g_buf g) ->
  vattrs_ok (g_start g) (g_buf g) (g_attrs g) ->
  (N.eqb r cGT = true -> pr_eq (g_buf g) (g_name g) (g_attrs g) [cGT]) ->
  (N.eqb r cGT = false -> pr_ok g /\ av_ok g) ->
  rinv (finish_or toks g r p1) p0 p1.
Proof.
  intros Htoks Hp1 Hva Hemit Hcont. unfold finish_or, emit_tag.
  destruct (N.eqb r cGT) eqn:Egt; cbn [rinv]; unfold ainv.
  - split; [|exact I]. constructor; [|exact Htoks]. split.
    + intros _. left. apply pr_eq_emit. exact (Hemit eq_refl).
    + cbn [t_start t_value t_attrs]. apply Forall_rev. exact Hva.
  - destruct (Hcont eq_refl) as [H1 H2]. split; [exact Htoks|]. repeat split; assumption.
Qed.

Ltac absurd_gt Egt := let H := fresh in intros H; rewrite Egt in H; discriminate H.
Ltac gt_subst Egt r := apply N.eqb_eq in Egt; subst r.

Lemma tag_step_inv toks g r p0 p1 :
  Forall tokP toks -> p1 = adv p0 r -> ginv g p0 ->
  rinv (tag_step toks g r p0 p1) p0 p1.
Proof.
  intros Htoks Hp1 (Hp0 & Hva & Hpr & Hav). unfold Scan.tag_step.
  assert (Hp1' : p1 = pos_after (g_start g) (g_buf g ++ [r])) by (rewrite pos_after_snoc, <- Hp0; exact Hp1).
  assert (Hva' : vattrs_ok (g_start g) (g_buf g ++ [r]) (g_attrs g)) by (apply vattrs_ok_app; exact Hva).
  assert (Herr : forall e, ainv toks (MErr e) p1) by (intros e; exact (conj Htoks I)).
  unfold pr_ok in Hpr. unfold av_ok in Hav.
  destruct (g_state g) eqn:Est; tag_cbn.
  - (* TName *)
    destruct Hpr as (Hat0 & Hb0).
    assert (Hpe : pr_eq (g_buf g) (g_name g) (g_attrs g) []) by (rewrite Hat0, Hb0; apply pr_eq_name).
    destruct (N.eqb r cGT) eqn:Egt.
    + apply finish_or_inv; tag_cbn; [exact Htoks|exact Hp1'|exact Hva'| |absurd_gt Egt].
      intros _. gt_subst Egt r. apply (pr_eq_snoc _ _ _ [] cGT). exact Hpe.
    + destruct (is_space r) eqn:Esp.
      * cbn [rinv]; unfold ainv, ginv; tag_cbn. split; [exact Htoks|]. split; [exact Hp1'|].
        split; [exact Hva'|]. split; [|unfold av_ok; tag_cbn; discriminate].
        unfold pr_ok; tag_cbn. apply pr_eq_space; assumption.
      * apply finish_or_inv; tag_cbn; [exact Htoks|exact Hp1'|exact Hva'|absurd_gt Egt|].
        intros _. split.
        -- unfold pr_ok; tag_cbn.
           destruct (str_eqb (g_name g ++ [r]) sBANGDD) eqn:E1; [exact I|].
           destruct (str_eqb (g_name g ++ [r]) sCDATA) eqn:E2; [exact I|].
           split; [exact Hat0|rewrite Hb0; reflexivity].
        -- unfold av_ok; tag_cbn.
           destruct (str_eqb (g_name g ++ [r]) sBANGDD) eqn:E1; [discriminate|].
           destruct (str_eqb (g_name g ++ [r]) sCDATA) eqn:E2; discriminate.
  - (* TCData *)
    destruct (suffixb sRRGT (g_cdata g ++ [r])) eqn:E; cbn [rinv]; unfold ainv.
    + split; [|exact I]. constructor; [apply tokP_nontag; discriminate|exact Htoks].
    + unfold ginv; tag_cbn. split; [exact Htoks|]. split; [exact Hp1'|]. split; [exact Hva'|].
      split; [unfold pr_ok; tag_cbn; exact I|unfold av_ok; tag_cbn; discriminate].
  - (* TComment *)
    set (ct := g_comment g ++ [r]).
    destruct (suffixb sDDGT ct) eqn:E.
    + destruct (prefixb [cGT] _ || prefixb [cDASH; cGT] _) eqn:Ebad; [apply Herr|].
      destruct (containsb sLTBDD _ || containsb sDDGT _ || containsb sDDBGT _) eqn:Ebad2; [apply Herr|].
      destruct (suffixb sLTBD _) eqn:Ebad3; [apply Herr|].
      cbn [rinv]; unfold ainv. split; [|exact I]. constructor; [apply tokP_nontag; discriminate|exact Htoks].
    + destruct (prefixb [cGT] _ || prefixb [cDASH; cGT] _) eqn:Ebad; [apply Herr|].
      cbn [rinv]; unfold ainv, ginv; tag_cbn. split; [exact Htoks|]. split; [exact Hp1'|]. split; [exact Hva'|].
      split; [unfold pr_ok; tag_cbn; exact I|unfold av_ok; tag_cbn; discriminate].
  - (* TSpace *)
    destruct (N.eqb r cGT) eqn:Egt.
    + apply finish_or_inv; tag_cbn; [exact Htoks|exact Hp1'|exact Hva'| |absurd_gt Egt].
      intros _. gt_subst Egt r. apply (pr_eq_snoc _ _ _ [] cGT). exact Hpr.
    + destruct (is_space r) eqn:Esp; cbn [rinv].
      * unfold ainv, ginv; tag_cbn. split; [exact Htoks|]. split; [exact Hp1'|]. split; [exact Hva'|].
        split; [|unfold av_ok; tag_cbn; discriminate].
        unfold pr_ok; tag_cbn. apply pr_eq_space; assumption.
      * eexists; split; [reflexivity|]. tag_cbn. split; [reflexivity|].
        unfold ainv, ginv; tag_cbn. split; [exact Htoks|]. split; [exact Hp0|]. split; [exact Hva|].
        split; [|unfold av_ok; tag_cbn; discriminate].
        unfold pr_ok; tag_cbn. exact Hpr.
  - (* TAttrName *)
    destruct (is_space r) eqn:Esp.
    { cbn [rinv]; unfold ainv, ginv; tag_cbn. split; [exact Htoks|]. split; [exact Hp1'|]. split; [exact Hva'|].
      split; [|unfold av_ok; tag_cbn; discriminate].
      unfold pr_ok; tag_cbn. apply (pr_eq_part _ _ _ (g_aname g)); [apply pr_eq_space; assumption|apply nsp_mark]. }
    assert (Hadd : forall ns ne vs ve,
      pr_eq (g_buf g) (g_name g) (fix_else (mkAttr (trim_sp (g_aname g)) ns ne None vs ve) :: g_attrs g) []).
    { intros ns ne vs ve. apply (pr_eq_add _ _ _ (g_aname g)); [exact Hpr|apply nsp_attr_none]. }
    destruct (N.eqb r cGT) eqn:Egt.
    + destruct (add_attr _ _ _) as [g'|e] eqn:Ea; [|apply Herr].
      apply add_attr_eq in Ea. tag_cbn_in Ea. subst g'.
      apply finish_or_inv; tag_cbn; [exact Htoks|exact Hp1'| | |absurd_gt Egt].
      * apply vattrs_cons; [cbn [a_value]; intros v Hv; discriminate|exact Hva'].
      * intros _. gt_subst Egt r. apply (pr_eq_snoc _ _ _ [] cGT). apply Hadd.
    + destruct (N.eqb r cEQ) eqn:Eeq.
      { cbn [rinv]; unfold ainv, ginv; tag_cbn. split; [exact Htoks|]. split; [exact Hp1'|]. split; [exact Hva'|].
        split.
        - unfold pr_ok; tag_cbn. gt_subst Eeq r. apply (pr_eq_snoc _ _ _ (g_aname g) cEQ). exact Hpr.
        - unfold av_ok; tag_cbn. intros _. rewrite Hp1'. apply aval_fresh. }
      destruct (ends_sp (g_aname g)) eqn:Eends.
      * destruct (add_attr _ _ _) as [g'|e] eqn:Ea; [|apply Herr].
        apply add_attr_eq in Ea. tag_cbn_in Ea. subst g'.
        cbn [rinv]; unfold ainv, ginv; tag_cbn. split; [exact Htoks|]. split; [exact Hp1'|]. split.
        -- apply vattrs_cons; [cbn [a_value]; intros v Hv; discriminate|exact Hva'].
        -- split; [|unfold av_ok; tag_cbn; discriminate].
           unfold pr_ok; tag_cbn. apply (pr_eq_snoc _ _ _ [] r). apply Hadd.
      * cbn [rinv]; unfold ainv, ginv; tag_cbn. split; [exact Htoks|]. split; [exact Hp1'|]. split; [exact Hva'|].
        split; [|unfold av_ok; tag_cbn; discriminate].
        unfold pr_ok; tag_cbn. apply pr_eq_snoc. exact Hpr.
  - (* TAttrValue *)
    specialize (Hav eq_refl).
    destruct (g_aval g) as [|f av] eqn:Eav.
    + destruct (is_space r) eqn:Esp.
      { cbn [rinv]; unfold ainv, ginv; tag_cbn. split; [exact Htoks|]. split; [exact Hp1'|]. split; [exact Hva'|].
        split.
        - unfold pr_ok; tag_cbn. apply pr_eq_space; assumption.
        - unfold av_ok; tag_cbn. intros _. rewrite Hp1'. apply aval_fresh. }
      destruct (N.eqb r cGT) eqn:Egt.
      * destruct (add_attr _ _ _) as [g'|e] eqn:Ea; [|apply Herr].
        apply add_attr_eq in Ea. tag_cbn_in Ea. subst g'.
        apply finish_or_inv; tag_cbn; [exact Htoks|exact Hp1'| | |absurd_gt Egt].
        -- apply vattrs_cons; [|exact Hva']. cbn [a_value a_vstart a_vend]. intros v Hv. injection Hv as <-.
           apply (aval_span_nil _ _ _ (g_avend g)). exact Hav.
        -- intros _. gt_subst Egt r. apply (pr_eq_snoc _ _ _ [] cGT).
           apply (pr_eq_add _ _ _ (g_aname g ++ [cEQ] ++ [])); [exact Hpr|apply nsp_attr_some].
      * cbn [rinv]; unfold ainv, ginv; tag_cbn. split; [exact Htoks|]. split; [exact Hp1'|]. split; [exact Hva'|].
        split.
        -- unfold pr_ok; tag_cbn.
           apply (pr_eq_part _ _ _ ((g_aname g ++ [cEQ] ++ []) ++ [r])); [apply pr_eq_snoc; exact Hpr|].
           rewrite <- !app_assoc. reflexivity.
        -- unfold av_ok; tag_cbn. intros _. rewrite Hp1'. apply (aval_snoc _ _ [] _ (g_avend g)). exact Hav.
    + destruct (N.eqb f cDQ || N.eqb f cSQ) eqn:Eq; cbn [andb negb orb].
      * (* quoted *)
        destruct (N.eqb f r) eqn:Efr; cbn [orb].
        -- assert (Egt : N.eqb r cGT = false) by (apply (quote_not_gt f); assumption).
           destruct (add_attr _ _ _) as [g'|e] eqn:Ea; [|apply Herr].
           apply add_attr_eq in Ea. tag_cbn_in Ea. subst g'.
           apply finish_or_inv; tag_cbn; [exact Htoks|exact Hp1'| |absurd_gt Egt|].
           ++ apply vattrs_cons; [|exact Hva']. cbn [a_value a_vstart a_vend]. intros v Hv. injection Hv as <-.
              rewrite Hp1'. change (f :: av ++ [r]) with ((f :: av) ++ [r]).
              apply (aval_span_q _ _ _ _ (g_avend g)). exact Hav.
           ++ intros _. split; [|unfold av_ok; tag_cbn; discriminate].
              unfold pr_ok; tag_cbn.
              apply (pr_eq_add _ _ _ ((g_aname g ++ [cEQ] ++ f :: av) ++ [r])); [apply pr_eq_snoc; exact Hpr|].
              rewrite nsp_attr_some, <- !app_assoc. reflexivity.
        -- cbn [rinv]; unfold ainv, ginv; tag_cbn. split; [exact Htoks|]. split; [exact Hp1'|]. split; [exact Hva'|].
           split.
           ++ unfold pr_ok; tag_cbn.
              apply (pr_eq_part _ _ _ ((g_aname g ++ [cEQ] ++ f :: av) ++ [r])); [apply pr_eq_snoc; exact Hpr|].
              rewrite <- !app_assoc. reflexivity.
           ++ unfold av_ok; tag_cbn. intros _. rewrite Hp1'. apply (aval_snoc _ _ _ _ (g_avend g)). exact Hav.
      * (* unquoted *)
        assert (Hadd : pr_eq (g_buf g) (g_name g)
                   (fix_else (mkAttr (trim_sp (g_aname g)) (g_anstart g) (g_anend g) (Some (f :: av)) (g_avstart g) (g_avend g))
                    :: g_attrs g) []).
        { apply (pr_eq_add _ _ _ (g_aname g ++ [cEQ] ++ f :: av)); [exact Hpr|apply nsp_attr_some]. }
        destruct (is_space r || N.eqb r cGT) eqn:Efin.
        -- destruct (add_attr _ _ _) as [g'|e] eqn:Ea; [|apply Herr].
           apply add_attr_eq in Ea. tag_cbn_in Ea. subst g'.
           apply finish_or_inv; tag_cbn; [exact Htoks|exact Hp1'| | |].
           ++ apply vattrs_cons; [|exact Hva']. cbn [a_value a_vstart a_vend]. intros v Hv. injection Hv as <-.
              apply aval_span; [exact Hav|discriminate].
           ++ intros Egt. gt_subst Egt r. apply (pr_eq_snoc _ _ _ [] cGT). exact Hadd.
           ++ intros Egt. rewrite Egt, orb_false_r in Efin. split; [|unfold av_ok; tag_cbn; discriminate].
              unfold pr_ok; tag_cbn. apply pr_eq_space; assumption.
        -- apply orb_false_iff in Efin as [Esp Egt].
           apply finish_or_inv; tag_cbn; [exact Htoks|exact Hp1'|exact Hva'|absurd_gt Egt|].
           intros _. split.
           ++ unfold pr_ok; tag_cbn.
              apply (pr_eq_part _ _ _ ((g_aname g ++ [cEQ] ++ f :: av) ++ [r])); [apply pr_eq_snoc; exact Hpr|].
              rewrite <- !app_assoc. reflexivity.
           ++ unfold av_ok; tag_cbn. intros _. rewrite Hp1'. apply (aval_snoc _ _ _ _ (g_avend g)). exact Hav.
Qed.

Lemma new_tag_inv toks p0 p1 :
  Forall tokP toks -> p1 = adv p0 cLT -> ainv toks (MTag (new_tag p0)) p1.
Proof.
  intros Htoks Hp1. unfold ainv, ginv, new_tag; tag_cbn. split; [exact Htoks|].
  split; [exact Hp1|]. split; [constructor|].
  split; [unfold pr_ok; tag_cbn; split; reflexivity|unfold av_ok; tag_cbn; discriminate].
Qed.

Lemma text_step_inv toks x r p0 p1 :
  Forall tokP toks -> p1 = adv p0 r -> tx_ok x -> rinv (text_step toks x r p0 p1) p0 p1.
Proof.
  intros Htoks Hp1 Hx. unfold Scan.text_step. unfold tx_ok in Hx.
  assert (Hraw : forall (tb : str) s e (n : str), In n (map lower text_tags) ->
            prefixb (lower (nsp ((cLT :: tb) ++ [cGT]))) ([cLT; cSLASH] ++ n ++ [cGT]) = true ->
            tokP (mkTok KTag ((cLT :: tb) ++ [cGT]) s e (written_close_name (nsp ((cLT :: tb) ++ [cGT]))) [])).
  { intros tb s e n Hin Hpre. split; [|constructor]. intros _. right.
    unfold raw_close_like; cbn [t_name t_attrs t_value]. split; [reflexivity|]. split; [reflexivity|].
    split; [exists tb; reflexivity|]. exists n. split; assumption. }
  destruct (x_raw x) eqn:Er.
  - destruct (Hx eq_refl) as (Hnb & Hcl & Hin & Hlt).
    destruct (N.eqb r cLT) eqn:Elt.
    + cbn [negb]. text_cbn.
      destruct (prefixb _ _) eqn:Ecl.
      * destruct (N.eqb r cGT) eqn:Egt.
        { apply N.eqb_eq in Elt, Egt. subst r. discriminate. }
        cbn [rinv]; unfold ainv. split; [exact Htoks|]. unfold tx_ok; text_cbn. intros _.
        split; [apply nsp_snoc_if; reflexivity|]. split; [exact Hcl|]. split; [exact Hin|].
        right. exists []. apply N.eqb_eq in Elt. rewrite Elt. reflexivity.
      * cbn [rinv]; unfold ainv. split; [exact Htoks|]. unfold tx_ok; text_cbn. intros _.
        split; [reflexivity|]. split; [exact Hcl|]. split; [exact Hin|]. left; reflexivity.
    + destruct (x_tagbuf x) as [|t0 tb] eqn:Etb.
      * cbn [negb rinv]; unfold ainv. split; [exact Htoks|]. unfold tx_ok; text_cbn. intros _.
        split; [exact Hnb|]. split; [exact Hcl|]. split; [exact Hin|]. left; reflexivity.
      * cbn [negb].
        assert (Et0 : t0 = cLT).
        { destruct Hlt as [Hlt|(rest & Hlt)]; [discriminate Hlt|]. injection Hlt as -> _. reflexivity. }
        subst t0.
        assert (Hnb' : (if is_space r then x_namebuf x else x_namebuf x ++ [r]) = nsp ((cLT :: tb) ++ [r]))
          by (apply nsp_snoc_if; exact Hnb).
        destruct (prefixb _ _) eqn:Ecl.
        -- destruct (N.eqb r cGT) eqn:Egt.
           ++ match type of Ecl with prefixb (lower ?e) _ = _ =>
                replace e with (nsp ((cLT :: tb) ++ [r])) in Ecl by (symmetry; exact Hnb') end.
              match goal with |- context [written_close_name ?e] =>
                replace e with (nsp ((cLT :: tb) ++ [r])) by (symmetry; exact Hnb') end.
              rewrite Hcl in Ecl. gt_subst Egt r.
              assert (Ht2 : forall s e, tokP (mkTok KTag ((cLT :: tb) ++ [cGT]) s e
                                                 (written_close_name (nsp ((cLT :: tb) ++ [cGT]))) []))
                by (intros s e; apply (Hraw tb s e (x_rawname x)); [exact Hin|exact Ecl]).
              destruct (firstn _ _); cbn [rinv]; unfold ainv; (split; [|exact I]).
              ** constructor; [apply Ht2|exact Htoks].
              ** constructor; [apply Ht2|]. constructor; [apply tokP_nontag; discriminate|exact Htoks].
           ++ cbn [rinv]; unfold ainv. split; [exact Htoks|]. unfold tx_ok; text_cbn. intros _.
              split; [exact Hnb'|]. split; [exact Hcl|]. split; [exact Hin|].
              right. exists (tb ++ [r]). reflexivity.
        -- cbn [rinv]; unfold ainv. split; [exact Htoks|]. unfold tx_ok; text_cbn. intros _.
           split; [reflexivity|]. split; [exact Hcl|]. split; [exact Hin|]. left; reflexivity.
  - destruct (N.eqb r cLT) eqn:Elt.
    + apply N.eqb_eq in Elt; subst r. cbn [rinv]. apply new_tag_inv; [|exact Hp1].
      constructor; [apply tokP_nontag; discriminate|exact Htoks].
    + cbn [rinv]; unfold ainv. split; [exact Htoks|]. unfold tx_ok; text_cbn. intros H; discriminate H.
Qed.

Lemma new_text_ok toks p0 : tx_ok (new_text toks p0).
Proof.
  unfold Scan.new_text. destruct (raw_tag_of_last _ _ _) as [n|] eqn:E; unfold tx_ok; text_cbn.
  - intros _. split; [reflexivity|]. split; [reflexivity|]. split; [|left; reflexivity].
    unfold raw_tag_of_last in E. destruct toks as [|t toks']; [discriminate|].
    destruct (t_kind t); try discriminate.
    destruct (existsb _ _) eqn:Ex; [|discriminate]. injection E as <-.
    apply existsb_exists in Ex as (tt & Htt & Heq). apply str_eqb_eq in Heq.
    fold (lower (t_name t)) in *. rewrite Heq. apply in_map. exact Htt.
  - intros H; discriminate H.
Qed.

Lemma dispatch_inv toks m r p0 p1 :
  ainv toks m p0 -> p1 = adv p0 r -> rinv (dispatch toks m r p0 p1) p0 p1.
Proof.
  intros [Htoks H] Hp1. destruct m as [|x|g|e]; cbn [Scan.dispatch].
  - destruct (raw_tag_of_last _ _ _) as [n|]; [apply text_step_inv; try assumption; apply new_text_ok|].
    destruct (N.eqb r cLT) eqn:Elt.
    + apply N.eqb_eq in Elt; subst r. cbn [rinv]. apply new_tag_inv; assumption.
    + apply text_step_inv; try assumption. apply new_text_ok.
  - apply text_step_inv; assumption.
  - apply tag_step_inv; assumption.
  - exact (conj Htoks I).
Qed.

Definition sinv (s : sstate) : Prop := ainv (s_toks s) (s_mode s) (s_pos s).

Lemma step_inv s r : sinv s -> sinv (step s r).
Proof.
  unfold sinv. intros H. unfold Scan.step.
  pose proof (dispatch_inv (s_toks s) (s_mode s) r (s_pos s) (adv (s_pos s) r) H eq_refl) as D.
  destruct (dispatch _ _ _ _ _) as [toks m [|]] eqn:E1; cbn [rinv] in D.
  - destruct D as (g & -> & Hst & M).
    pose proof (dispatch_inv toks (MTag g) r (s_pos s) (adv (s_pos s) r) M eq_refl) as D2.
    destruct (dispatch toks (MTag g) _ _ _) as [toks' m' u] eqn:E2.
    cbn [Scan.dispatch] in E2. apply attrname_no_unread in E2; [|exact Hst]. subst u.
    cbn [s_pos s_toks s_mode]. exact D2.
  - cbn [s_pos s_toks s_mode]. exact D.
Qed.

Lemma fold_inv src : forall s, sinv s -> sinv (fold_left step src s).
Proof.
  induction src as [|r src IH]; intros s H; cbn [fold_left]; [exact H|].
  apply IH. apply step_inv; exact H.
Qed.

Lemma scan_tokP src toks : scan src = inl toks -> Forall tokP toks.
Proof.
  unfold Scan.scan, finish. intros H.
  assert (I0 : sinv init) by (split; [constructor|exact I]).
  assert (Hall : forall l : list token, @inl _ serr (rev l) = inl toks -> Forall tokP l -> Forall tokP toks).
  { intros l E Hl. injection E as <-. apply Forall_rev. exact Hl. }
  pose proof (fold_inv src init I0) as [F _].
  destruct (s_mode (fold_left step src init)) as [|x|g|e] eqn:Em.
  - apply (Hall _ H). exact F.
  - apply (Hall _ H). constructor; [apply tokP_nontag; discriminate|exact F].
  - discriminate.
  - discriminate.
Qed.

(* ================= the theorems ================= *)

(* 1, general form: no hypothesis on the token *)
Theorem tag_print_general (src : str) (toks : list token) :
  scan src = inl toks ->
  forall t, In t toks -> t_kind t = KTag -> emitted_like t \/ raw_close_like t.
Proof.
  intros H t Ht Hk. apply scan_tokP in H. rewrite Forall_forall in H. exact (proj1 (H t Ht) Hk).
Qed.

(* the tag carries no synthetic else value (in particular: it has no attribute named prefix+"else") *)
Definition no_synth_else (t : token) : Prop :=
  forall a, In a (t_attrs t) -> a_name a = else_name -> a_value a <> Some true_q.

Lemma fix_else_id l0 :
  (forall a, In a (map fix_else l0) -> a_name a = else_name -> a_value a <> Some true_q) ->
  map fix_else l0 = l0.
Proof.
  intros H. rewrite <- (map_id l0) at 2. apply map_ext_in. intros a Ha.
  unfold Scan.fix_else. destruct (a_value a) as [v|] eqn:Ev; [reflexivity|].
  destruct (str_eqb (a_name a) else_name) eqn:Ee; [|reflexivity].
  exfalso. apply (H (fix_else a)).
  - apply in_map. exact Ha.
  - unfold Scan.fix_else. rewrite Ev, Ee. cbn [a_name]. apply str_eqb_eq. exact Ee.
  - unfold Scan.fix_else. rewrite Ev, Ee. reflexivity.
Qed.

Lemma emitted_exact t : no_synth_else t -> emitted_like t -> nsp (print_tag t) = nsp (t_value t).
Proof.
  intros Hn (l0 & Hl & H). unfold no_synth_else in Hn. rewrite Hl in Hn. apply fix_else_id in Hn.
  rewrite print_tag_eq, Hl, Hn. symmetry. exact H.
Qed.

Lemma raw_close_like_slash t : raw_close_like t -> prefixb [cSLASH] (t_name t) = true.
Proof. intros (_ & Hn & _). rewrite Hn. reflexivity. Qed.

(* 1 for open tags (the clause of C01): only [is_space 32 = true] is needed *)
Theorem tag_print_nonspace_open (src : str) (toks : list token) :
  scan src = inl toks ->
  forall t, In t toks -> t_kind t = KTag -> prefixb [cSLASH] (t_name t) = false -> no_synth_else t ->
  nsp (print_tag t) = nsp (t_value t).
Proof.
  intros H t Ht Hk Ho Hn. destruct (tag_print_general src toks H t Ht Hk) as [He|Hc].
  - apply emitted_exact; assumption.
  - apply raw_close_like_slash in Hc. rewrite Hc in Ho. discriminate Ho.
Qed.

(* ---------- the close tag of a raw-text element ---------- *)
Section RawClose.
Hypothesis HltS : is_space cLT = false.
Hypothesis HgtS : is_space cGT = false.
Hypothesis HslL : forall c, to_lower c = cSLASH -> c = cSLASH.

(* its printed form is its source text without the white space *)
Lemma raw_close_exact t : raw_close_like t -> print_tag t = nsp (t_value t).
Proof.
  intros (Ha & Hn & (tb & Hv) & n & _ & Hp).
  rewrite print_tag_eq, Ha, Hn. cbn [pattrs flat_map app].
  assert (Hnb : nsp (t_value t) = cLT :: nsp tb ++ [cGT]).
  { rewrite Hv, nsp_app, (nsp_cons cLT), (nsp_nonspace cLT HltS).
    change (@cons N cGT (@nil N)) with (@cons rune cGT (@nil rune)).
    rewrite (nsp_nonspace cGT HgtS). reflexivity. }
  rewrite Hnb in Hp |- *.
  destruct (nsp tb) as [|c2 a].
  - exfalso. cbn [app Scan.lower map prefixb] in Hp.
    apply andb_true_iff in Hp as [_ Hp]. apply andb_true_iff in Hp as [Hp _].
    apply N.eqb_eq in Hp. apply HslL in Hp. discriminate Hp.
  - cbn [app Scan.lower map prefixb] in Hp.
    apply andb_true_iff in Hp as [_ Hp]. apply andb_true_iff in Hp as [Hp _].
    apply N.eqb_eq in Hp. apply HslL in Hp. subst c2.
    unfold written_close_name. cbn [app prefixb]. rewrite !N.eqb_refl. cbn [andb skipn].
    rewrite rev_unit, N.eqb_refl, rev_involutive. reflexivity.
Qed.

(* 1: every tag token without a synthetic else value *)
Theorem tag_print_nonspace (src : str) (toks : list token) :
  scan src = inl toks ->
  forall t, In t toks -> t_kind t = KTag -> no_synth_else t ->
  nsp (print_tag t) = nsp (t_value t).
Proof.
  intros H t Ht Hk Hn. destruct (tag_print_general src toks H t Ht Hk) as [He|Hc].
  - apply emitted_exact; assumption.
  - rewrite (raw_close_exact t Hc). apply nsp_idem.
Qed.
End RawClose.

(* 2: every attribute value is in the tag's source text, verbatim, at the reported position *)
Theorem tag_print_values_span (src : str) (toks : list token) :
  scan src = inl toks ->
  forall t a v, In t toks -> In a (t_attrs t) -> a_value a = Some v ->
  span_in (t_start t) (t_value t) v (a_vstart a) (a_vend a) \/ (a_name a = else_name /\ v = true_q).
Proof.
  intros H t a v Ht Ha Hv. apply scan_tokP in H. rewrite Forall_forall in H.
  destruct (H t Ht) as [_ Hva]. unfold vattrs_ok in Hva. rewrite Forall_forall in Hva.
  exact (Hva a Ha v Hv).
Qed.

Theorem tag_print_values_verbatim (src : str) (toks : list token) :
  scan src = inl toks ->
  forall t a v, In t toks -> In a (t_attrs t) -> a_value a = Some v ->
  ~ (a_name a = else_name /\ v = true_q) ->
  exists pre post, t_value t = pre ++ v ++ post.
Proof.
  intros H t a v Ht Ha Hv Hne.
  destruct (tag_print_values_span src toks H t a v Ht Ha Hv) as [(pre & post & E & _)|Hs].
  - exists pre, post. exact E.
  - contradiction.
Qed.
End P.

(* a tag without directive attributes (as in [plain_tok]) has no synthetic else value *)
Lemma prefixb_app_refl : forall e s, prefixb e (e ++ s) = true.
Proof. induction e as [|x e IH]; intros s; cbn [prefixb app]; [reflexivity|]. rewrite N.eqb_refl. apply IH. Qed.

Lemma no_prefix_no_synth attr_prefix (t : token) :
  (forall a, In a (t_attrs t) -> prefixb attr_prefix (a_name a) = false) -> no_synth_else attr_prefix t.
Proof.
  intros H a Ha Hn _. specialize (H a Ha). rewrite Hn in H. unfold else_name in H.
  rewrite prefixb_app_refl in H. discriminate.
Qed.

(* ---------- closed statements ---------- *)
Check (tag_print_general : forall (is_space : rune -> bool) (to_lower : rune -> rune) (text_tags : list str)
    (attr_prefix : str) (compile : attr -> bool), is_space cSP = true ->
  forall (src : str) (toks : list token),
  scan is_space to_lower text_tags attr_prefix compile src = inl toks ->
  forall t, In t toks -> t_kind t = KTag ->
  emitted_like is_space attr_prefix t \/ raw_close_like is_space to_lower text_tags t).
Check (tag_print_nonspace_open : forall (is_space : rune -> bool) (to_lower : rune -> rune) (text_tags : list str)
    (attr_prefix : str) (compile : attr -> bool), is_space cSP = true ->
  forall (src : str) (toks : list token),
  scan is_space to_lower text_tags attr_prefix compile src = inl toks ->
  forall t, In t toks -> t_kind t = KTag ->
  prefixb [cSLASH] (t_name t) = false -> no_synth_else attr_prefix t ->
  nsp is_space (print_tag t) = nsp is_space (t_value t)).
Check (tag_print_nonspace : forall (is_space : rune -> bool) (to_lower : rune -> rune) (text_tags : list str)
    (attr_prefix : str) (compile : attr -> bool), is_space cSP = true ->
  is_space cLT = false -> is_space cGT = false -> (forall c, to_lower c = cSLASH -> c = cSLASH) ->
  forall (src : str) (toks : list token),
  scan is_space to_lower text_tags attr_prefix compile src = inl toks ->
  forall t, In t toks -> t_kind t = KTag -> no_synth_else attr_prefix t ->
  nsp is_space (print_tag t) = nsp is_space (t_value t)).
Check (raw_close_exact : forall (is_space : rune -> bool) (to_lower : rune -> rune) (text_tags : list str),
  is_space cLT = false -> is_space cGT = false -> (forall c, to_lower c = cSLASH -> c = cSLASH) ->
  forall t, raw_close_like is_space to_lower text_tags t -> print_tag t = nsp is_space (t_value t)).
Check (tag_print_values_span : forall (is_space : rune -> bool) (to_lower : rune -> rune) (text_tags : list str)
    (attr_prefix : str) (compile : attr -> bool), is_space cSP = true ->
  forall (src : str) (toks : list token),
  scan is_space to_lower text_tags attr_prefix compile src = inl toks ->
  forall t a v, In t toks -> In a (t_attrs t) -> a_value a = Some v ->
  span_in (t_start t) (t_value t) v (a_vstart a) (a_vend a) \/
  (a_name a = else_name attr_prefix /\ v = true_q)).
Check (tag_print_values_verbatim : forall (is_space : rune -> bool) (to_lower : rune -> rune) (text_tags : list str)
    (attr_prefix : str) (compile : attr -> bool), is_space cSP = true ->
  forall (src : str) (toks : list token),
  scan is_space to_lower text_tags attr_prefix compile src = inl toks ->
  forall t a v, In t toks -> In a (t_attrs t) -> a_value a = Some v ->
  ~ (a_name a = else_name attr_prefix /\ v = true_q) ->
  exists pre post, t_value t = pre ++ v ++ post).
Print Assumptions tag_print_general.
Print Assumptions tag_print_nonspace.
Print Assumptions tag_print_nonspace_open.
Print Assumptions tag_print_values_span.
Print Assumptions tag_print_values_verbatim.

(* ---------- the exception is real ---------- *)
Definition ex_space (r : rune) : bool := N.eqb r 32 || N.eqb r 10 || N.eqb r 9 || N.eqb r 13.
Definition ex_lower (r : rune) : rune := if (65 <=? r) && (r <=? 90) then r + 32 else r.
Definition ex_text_tags : list str := [[115;99;114;105;112;116]; [115;116;121;108;101]]. (* script, style *)
Definition ex_scan := scan ex_space ex_lower ex_text_tags [58] (fun _ => true).
Definition ex_nsp := nsp ex_space.

(* "<p :else>": the value-less else directive is given the value "true" (quotes included), which is
   then printed although it is not in the source *)
Definition cex_else_src : str := [60;112;32;58;101;108;115;101;62].
Lemma cex_else :
  exists t, ex_scan cex_else_src = inl [t] /\ t_kind t = KTag /\
    t_value t = cex_else_src /\
    print_tag t = [60;112;32;58;101;108;115;101;61;34;116;114;117;101;34;62] /\   (* <p :else="true"> *)
    ex_nsp (print_tag t) <> ex_nsp (t_value t).
Proof.
  eexists. split; [vm_compute; reflexivity|]. cbn [t_kind t_value].
  split; [reflexivity|]. split; [reflexivity|]. split; [vm_compute; reflexivity|].
  vm_compute. discriminate.
Qed.

(* "<script>x</SCRIPT >": the close tag of a raw-text element keeps the name as written *)
Definition ex_raw_src : str := [60;115;99;114;105;112;116;62;120;60;47;83;67;82;73;80;84;32;62].
Example ex_raw_close :
  exists t1 t2 t3, ex_scan ex_raw_src = inl [t1; t2; t3] /\ t_kind t3 = KTag /\
    t_value t3 = [60;47;83;67;82;73;80;84;32;62] /\                (* </SCRIPT > *)
    t_name t3 = [47;83;67;82;73;80;84] /\                          (* /SCRIPT    *)
    print_tag t3 = [60;47;83;67;82;73;80;84;62] /\                 (* </SCRIPT>  *)
    print_tag t3 = ex_nsp (t_value t3).
Proof.
  eexists; eexists; eexists. split; [vm_compute; reflexivity|]. cbn [t_kind t_value t_name].
  split; [reflexivity|]. split; [reflexivity|]. split; [reflexivity|].
  split; vm_compute; reflexivity.
Qed.

(* white space anywhere inside such a close tag: "<style>a</ ST YLE >" *)
Example ex_raw_close_blanks :
  exists t1 t2 t3,
    ex_scan [60;115;116;121;108;101;62;97;60;47;32;83;84;32;89;76;69;32;62] = inl [t1; t2; t3] /\
    t_value t3 = [60;47;32;83;84;32;89;76;69;32;62] /\             (* </ ST YLE > *)
    print_tag t3 = [60;47;83;84;89;76;69;62].                       (* </STYLE>    *)
Proof.
  eexists; eexists; eexists. split; [vm_compute; reflexivity|]. cbn [t_value].
  split; [reflexivity|vm_compute; reflexivity].
Qed.

(* the hypothesis on to_lower is needed: if to_lower maps 'X' to '/', then "<script>a<Xscript>" ends the
   raw text, the written name is not recognised and the printed close tag is "</<Xscript>" *)
Definition bad_lower (r : rune) : rune := if N.eqb r 88 then cSLASH else ex_lower r.
Lemma tag_print_needs_slash_reflect :
  exists t1 t2 t3,
    scan ex_space bad_lower ex_text_tags [58] (fun _ => true)
         [60;115;99;114;105;112;116;62;97;60;88;115;99;114;105;112;116;62] = inl [t1; t2; t3] /\
    t_kind t3 = KTag /\ t_attrs t3 = [] /\
    t_value t3 = [60;88;115;99;114;105;112;116;62] /\                       (* <Xscript>   *)
    print_tag t3 = [60;47;60;88;115;99;114;105;112;116;62] /\               (* </<Xscript> *)
    ex_nsp (print_tag t3) <> ex_nsp (t_value t3).
Proof.
  eexists; eexists; eexists. split; [vm_compute; reflexivity|]. cbn [t_kind t_attrs t_value].
  split; [reflexivity|]. split; [reflexivity|]. split; [reflexivity|].
  split; [vm_compute; reflexivity|vm_compute; discriminate].
Qed.

(* a tricky tag on which the theorem applies non-trivially:
   <p  a = "x y"   b='1'\n c=d e>   is printed as   <p a="x y" b='1' c=d e> *)
Definition ex_tag_src : str :=
  [60;112;32;32;97;32;61;32;34;120;32;121;34;32;32;32;98;61;39;49;39;10;32;99;61;100;32;101;62].
Example tag_print_example :
  exists t, ex_scan ex_tag_src = inl [t] /\
    print_tag t = [60;112;32;97;61;34;120;32;121;34;32;98;61;39;49;39;32;99;61;100;32;101;62] /\
    print_tag t <> t_value t /\
    ex_nsp (print_tag t) = ex_nsp (t_value t) /\
    map a_value (t_attrs t) = [Some [34;120;32;121;34]; Some [39;49;39]; Some [100]; None].
Proof.
  eexists. split; [vm_compute; reflexivity|].
  split; [vm_compute; reflexivity|]. split; [vm_compute; discriminate|].
  split; vm_compute; reflexivity.
Qed.
