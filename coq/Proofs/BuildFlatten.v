(* The tree builder never drops, duplicates or reorders a token. *)
From Tpl Require Import Html.Scan Html.Tree.
From Coq Require Import Lia.
Open Scope N_scope.

Definition opt_tok (o : option token) : list token :=
  match o with Some x => [x] | None => [] end.

Lemma flatten_eq : forall i t ch e,
  flatten (Node i t ch e) = opt_tok t ++ flat_map flatten ch ++ opt_tok e.
Proof. reflexivity. Qed.

(* tokens of a reversed list of siblings, in document order *)
Definition flat_rev (cur : list node) : list token := flat_map flatten (rev cur).

Lemma flat_rev_nil : flat_rev [] = [].
Proof. reflexivity. Qed.

Lemma flat_rev_cons : forall n cur, flat_rev (n :: cur) = flat_rev cur ++ flatten n.
Proof.
  intros n cur. unfold flat_rev. cbn [rev].
  rewrite flat_map_app. cbn [flat_map]. rewrite app_nil_r. reflexivity.
Qed.

(* tokens held by the open ancestors: earlier siblings, then the ancestor's own token *)
Fixpoint sflat (st : list frame) : list token :=
  match st with
  | [] => []
  | f :: st' => sflat st' ++ flat_rev (f_sibs f) ++ opt_tok (f_tok f)
  end.

Definition zflat (b : bstate) : list token := sflat (b_stack b) ++ flat_rev (b_cur b).

Section Build.
Variable to_lower : rune -> rune.
Variable void_elements : list str.

Lemma zflat_leaf : forall cur st i n t,
  zflat (mkB (leaf i t :: cur) st n) = zflat (mkB cur st 0) ++ [t].
Proof.
  intros cur st i n t. unfold zflat. cbn [b_stack b_cur].
  rewrite flat_rev_cons. unfold leaf. rewrite flatten_eq.
  cbn [opt_tok flat_map]. cbn [app]. rewrite app_assoc. reflexivity.
Qed.

Lemma zflat_next : forall cur st n m, zflat (mkB cur st n) = zflat (mkB cur st m).
Proof. reflexivity. Qed.

Lemma bstep_zflat : forall b t,
  zflat (bstep to_lower void_elements b t) = zflat b ++ [t].
Proof.
  intros [cur st nx] t. unfold bstep. cbn [b_cur b_stack b_next].
  destruct (t_kind t);
    try (rewrite zflat_leaf; apply f_equal2; reflexivity).
  destruct (is_close t || is_void to_lower void_elements (t_name t)).
  - destruct (is_self_close t || is_void to_lower void_elements (t_name t)).
    + rewrite zflat_leaf. reflexivity.
    + destruct st as [|f st'].
      * rewrite zflat_leaf. reflexivity.
      * unfold zflat. cbn [b_stack b_cur sflat].
        rewrite flat_rev_cons, flatten_eq. cbn [opt_tok].
        fold (flat_rev cur).
        repeat rewrite <- app_assoc. reflexivity.
  - unfold zflat. cbn [b_stack b_cur sflat f_sibs f_tok opt_tok].
    rewrite flat_rev_nil, app_nil_r, <- app_assoc. reflexivity.
Qed.

Lemma fold_bstep_zflat : forall toks b,
  zflat (fold_left (bstep to_lower void_elements) toks b) = zflat b ++ toks.
Proof.
  induction toks as [|t toks IH]; intros b.
  - cbn [fold_left]. rewrite app_nil_r. reflexivity.
  - cbn [fold_left]. rewrite IH, bstep_zflat, <- app_assoc. reflexivity.
Qed.

Lemma close_all_flat : forall st cur,
  flat_rev (close_all cur st) = sflat st ++ flat_rev cur.
Proof.
  induction st as [|f st IH]; intros cur.
  - reflexivity.
  - cbn [close_all sflat]. rewrite IH, flat_rev_cons, flatten_eq.
    cbn [opt_tok]. fold (flat_rev cur). rewrite app_nil_r.
    repeat rewrite <- app_assoc. reflexivity.
Qed.

Lemma build_flatten_sec : forall toks, flatten (build to_lower void_elements toks) = toks.
Proof.
  intros toks. unfold build. rewrite flatten_eq. cbn [opt_tok].
  rewrite app_nil_r. cbn [app].
  fold (flat_rev (close_all (b_cur (fold_left (bstep to_lower void_elements) toks (mkB [] [] 1)))
                            (b_stack (fold_left (bstep to_lower void_elements) toks (mkB [] [] 1))))).
  rewrite close_all_flat.
  fold (zflat (fold_left (bstep to_lower void_elements) toks (mkB [] [] 1))).
  rewrite fold_bstep_zflat. reflexivity.
Qed.
End Build.

Theorem build_flatten : forall (to_lower : rune -> rune) (void_elements : list str) (toks : list token),
  flatten (build to_lower void_elements toks) = toks.
Proof. exact build_flatten_sec. Qed.


(* ---- node ids: the id of a node is the 1-based index of its own token ---- *)

Definition own_ok (toks : list token) (i : N) (t : option token) : Prop :=
  match t with
  | Some x => 1 <= i /\ nth_error toks (N.to_nat i - 1) = Some x
  | None => True
  end.

Fixpoint ids_ok (toks : list token) (n : node) : Prop :=
  let 'Node i t ch _ := n in
  own_ok toks i t /\
  (fix all (l : list node) : Prop :=
     match l with [] => True | c :: r => ids_ok toks c /\ all r end) ch.

Lemma ids_ok_eq : forall toks i t ch e,
  ids_ok toks (Node i t ch e) <-> own_ok toks i t /\ Forall (ids_ok toks) ch.
Proof.
  intros toks i t ch e. cbn [ids_ok].
  assert (Hall : (fix all (l : list node) : Prop :=
                    match l with [] => True | c :: r => ids_ok toks c /\ all r end) ch
                 <-> Forall (ids_ok toks) ch).
  { induction ch as [|c ch IH].
    - split; intros _; [constructor|exact I].
    - split.
      + intros [Hc Hr]. constructor; [exact Hc|apply IH; exact Hr].
      + intros HF. inversion HF as [|c' ch' Hc Hr]; subst.
        split; [exact Hc|apply IH; exact Hr]. }
  rewrite Hall. reflexivity.
Qed.

Section Ids.
Variable to_lower : rune -> rune.
Variable void_elements : list str.
Variable toks : list token.

Definition frame_ok (f : frame) : Prop :=
  own_ok toks (f_id f) (f_tok f) /\ Forall (ids_ok toks) (f_sibs f).

(* k tokens consumed so far *)
Definition BI (b : bstate) (k : nat) : Prop :=
  b_next b = N.of_nat k + 1 /\ Forall (ids_ok toks) (b_cur b) /\ Forall frame_ok (b_stack b).

Lemma own_next : forall k t,
  nth_error toks k = Some t -> own_ok toks (N.of_nat k + 1) (Some t).
Proof.
  intros k t Hn. cbn [own_ok]. split; [lia|].
  replace (N.to_nat (N.of_nat k + 1) - 1)%nat with k by lia. exact Hn.
Qed.

Lemma leaf_ok : forall k t, nth_error toks k = Some t -> ids_ok toks (leaf (N.of_nat k + 1) t).
Proof.
  intros k t Hn. unfold leaf. apply ids_ok_eq. split; [apply own_next; exact Hn|constructor].
Qed.

Lemma bstep_BI : forall b k t,
  BI b k -> nth_error toks k = Some t -> BI (bstep to_lower void_elements b t) (S k).
Proof.
  intros [cur st nx] k t [Hnx [Hcur Hst]] Hn. cbn [b_next b_cur b_stack] in Hnx, Hcur, Hst.
  subst nx.
  assert (Hnext : N.of_nat k + 1 + 1 = N.of_nat (S k) + 1) by lia.
  assert (Hleaf : BI (mkB (leaf (N.of_nat k + 1) t :: cur) st (N.of_nat k + 1 + 1)) (S k)).
  { split; [exact Hnext|]. cbn [b_cur b_stack]. split; [|exact Hst].
    constructor; [apply leaf_ok; exact Hn|exact Hcur]. }
  unfold bstep. cbn [b_cur b_stack b_next].
  destruct (t_kind t); try exact Hleaf.
  destruct (is_close t || is_void to_lower void_elements (t_name t)).
  - destruct (is_self_close t || is_void to_lower void_elements (t_name t)); [exact Hleaf|].
    destruct st as [|f st']; [exact Hleaf|].
    inversion Hst as [|f' st'' Hf Hst']; subst. destruct Hf as [Hown Hsibs].
    split; [exact Hnext|]. cbn [b_cur b_stack]. split; [|exact Hst'].
    constructor; [|exact Hsibs].
    apply ids_ok_eq. split; [exact Hown|apply Forall_rev; exact Hcur].
  - split; [exact Hnext|]. cbn [b_cur b_stack]. split; [constructor|].
    constructor; [|exact Hst].
    split; cbn [f_id f_tok f_sibs]; [apply own_next; exact Hn|exact Hcur].
Qed.

Lemma close_all_ok : forall st cur,
  Forall (ids_ok toks) cur -> Forall frame_ok st -> Forall (ids_ok toks) (close_all cur st).
Proof.
  induction st as [|f st IH]; intros cur Hcur Hst.
  - exact Hcur.
  - inversion Hst as [|f' st' Hf Hst']; subst. destruct Hf as [Hown Hsibs].
    cbn [close_all]. apply IH; [|exact Hst'].
    constructor; [|exact Hsibs].
    apply ids_ok_eq. split; [exact Hown|apply Forall_rev; exact Hcur].
Qed.
End Ids.

Lemma fold_bstep_BI : forall to_lower void_elements rest pre b,
  BI (pre ++ rest) b (length pre) ->
  BI (pre ++ rest) (fold_left (bstep to_lower void_elements) rest b) (length (pre ++ rest)).
Proof.
  intros to_lower void_elements.
  induction rest as [|t rest IH]; intros pre b HB.
  - cbn [fold_left]. rewrite app_nil_r in *. exact HB.
  - cbn [fold_left].
    assert (Heq : pre ++ t :: rest = (pre ++ [t]) ++ rest)
      by (rewrite <- app_assoc; reflexivity).
    rewrite Heq. apply IH. rewrite <- Heq.
    replace (length (pre ++ [t])) with (S (length pre)) by (rewrite app_length; cbn [length]; lia).
    apply bstep_BI; [exact HB|].
    rewrite nth_error_app2 by lia. replace (length pre - length pre)%nat with O by lia. reflexivity.
Qed.

(* Every node of the built tree that has a token carries the 1-based index of that token. *)
Theorem build_ids_ok : forall (to_lower : rune -> rune) (void_elements : list str) (toks : list token),
  ids_ok toks (build to_lower void_elements toks).
Proof.
  intros to_lower void_elements toks. unfold build. apply ids_ok_eq.
  split; [exact I|]. apply Forall_rev.
  assert (HB : BI toks (fold_left (bstep to_lower void_elements) toks (mkB [] [] 1)) (length toks)).
  { apply (fold_bstep_BI to_lower void_elements toks [] (mkB [] [] 1)).
    split; [reflexivity|]. split; constructor. }
  destruct HB as [_ [Hcur Hst]].
  apply close_all_ok; assumption.
Qed.

Print Assumptions build_flatten.
Print Assumptions build_ids_ok.
