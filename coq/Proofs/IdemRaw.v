(* C01, last clause, part 3: raw-text elements.
   (1) [raw_step]: what one rune does to the scanner inside raw text (source side), with the invariant
       that the pending close-tag text is '<' followed by runes other than '<' and '>'.
   (2) [raw_close_rescan]: scanning the white-space-free spelling  </name>  of a raw-text close tag in the same
       raw-text context ends the element with a close-tag token of the same name. *)
From Coq Require Import List NArith Bool Lia Arith.
From Tpl Require Import Html.Scan Proofs.ScanConcat Proofs.PrintScanDefs Proofs.PrintScanSteps Proofs.TagPrint.
Import ListNotations.
Open Scope N_scope.
Local Arguments adv : simpl never.

Definition tb_ok (tb : str) : Prop :=
  tb = [] \/ exists rest, tb = cLT :: rest /\ Forall (fun c => N.eqb c cLT = false /\ N.eqb c cGT = false) rest.

Lemma prefixb_app_l (a b c : str) : prefixb (a ++ b) c = true -> prefixb a c = true.
Proof.
  intros H. apply prefixb_spec in H as [t ->]. rewrite <- app_assoc. apply prefixb_app.
Qed.

Section P.
Variable is_space : rune -> bool.
Variable to_lower : rune -> rune.
Variable text_tags : list str.
Variable attr_prefix : str.
Variable compile : attr -> bool.
Hypothesis HltS : is_space cLT = false.
Hypothesis HgtS : is_space cGT = false.

Notation step := (Scan.step is_space to_lower text_tags attr_prefix compile).
Notation run := (@fold_left sstate rune (Scan.step is_space to_lower text_tags attr_prefix compile)).
Notation text_step := (Scan.text_step is_space to_lower).
Notation new_text := (Scan.new_text to_lower text_tags).
Notation raw_tag_of_last := (Scan.raw_tag_of_last to_lower text_tags).
Notation lower := (Scan.lower to_lower).
Notation nsp := (TagPrint.nsp is_space).
Notation tx_ok := (TagPrint.tx_ok is_space to_lower text_tags).

Definition rx_ok (x : textst) : Prop := tx_ok x /\ (x_raw x = true -> tb_ok (x_tagbuf x)).

Lemma new_text_rx toks p0 : rx_ok (new_text toks p0).
Proof.
  split; [apply new_text_ok|]. intros _. unfold Scan.new_text.
  destruct (raw_tag_of_last toks); text_cbn; left; reflexivity.
Qed.

Lemma lower_app (a b : str) : lower (a ++ b) = lower a ++ lower b.
Proof. unfold Scan.lower. apply map_app. Qed.

(* the tokens emitted when the close tag of a raw-text element is complete *)
Definition raw_emit (toks : list token) (x : textst) (r : rune) (p1 : pos) : list token :=
  let textv := firstn (length (x_buf x) + 1 - length (x_tagbuf x ++ [r])) (x_buf x) in
  let t2 := mkTok KTag (x_tagbuf x ++ [r]) (x_end x) p1
                  (written_close_name (if is_space r then x_namebuf x else x_namebuf x ++ [r])) [] in
  match textv with
  | [] => t2 :: toks
  | _ => t2 :: mkTok KText textv (x_start x) (x_end x) [] [] :: toks
  end.

(* ---------- (1) one rune inside raw text ---------- *)
Lemma raw_step toks x r p0 p1 :
  x_raw x = true -> rx_ok x ->
  (exists x', text_step toks x r p0 p1 = TR toks (MText x') false /\
     x_raw x' = true /\ x_buf x' = x_buf x ++ [r] /\ x_close x' = x_close x /\ rx_ok x' /\
     (x_tagbuf x' = [] \/ (N.eqb r cLT = true /\ x_tagbuf x' = [r]) \/
      (x_tagbuf x <> [] /\ N.eqb r cLT = false /\ x_tagbuf x' = x_tagbuf x ++ [r]))) \/
  (N.eqb r cGT = true /\ x_tagbuf x <> [] /\
   prefixb (lower (x_namebuf x ++ [r])) (x_close x) = true /\
   text_step toks x r p0 p1 = TR (raw_emit toks x r p1) MInit false).
Proof.
  intros Er (Hx & Htb). unfold TagPrint.tx_ok in Hx. destruct (Hx Er) as (Hnb & Hcl & Hin & Hlt).
  specialize (Htb Er). unfold Scan.text_step. rewrite Er.
  assert (Hrx : forall b st e (tb nb : str), nb = nsp tb -> tb_ok tb ->
            rx_ok (mkText b st true (x_close x) (x_rawname x) e tb nb)).
  { intros b st e tb nb E1 E2. split.
    - unfold TagPrint.tx_ok; text_cbn. intros _. split; [exact E1|]. split; [exact Hcl|]. split; [exact Hin|].
      destruct E2 as [->|(rest & -> & _)]; [left; reflexivity|right; exists rest; reflexivity].
    - intros _. text_cbn. exact E2. }
  destruct (N.eqb r cLT) eqn:Elt.
  - cbn [negb]. text_cbn. pose proof Elt as Elt'. apply N.eqb_eq in Elt'. subst r. rewrite HltS. cbn [app].
    left. destruct (prefixb _ _) eqn:Ecl.
    + replace (N.eqb cLT cGT) with false by reflexivity.
      eexists. split; [reflexivity|]. text_cbn. split; [reflexivity|]. split; [reflexivity|]. split; [reflexivity|].
      split; [|right; left; split; reflexivity].
      apply Hrx; [unfold TagPrint.nsp; cbn [filter]; rewrite HltS; reflexivity|].
      right. exists []. split; [reflexivity|constructor].
    + eexists. split; [reflexivity|]. text_cbn. split; [reflexivity|]. split; [reflexivity|]. split; [reflexivity|].
      split; [|left; reflexivity]. apply Hrx; [reflexivity|left; reflexivity].
  - destruct (x_tagbuf x) as [|t0 tb] eqn:Etb.
    + cbn [negb]. left. eexists. split; [reflexivity|]. text_cbn.
      split; [reflexivity|]. split; [reflexivity|]. split; [reflexivity|].
      split; [|left; reflexivity]. apply Hrx; [exact Hnb|left; reflexivity].
    + cbn [negb].
      assert (Hnb' : (if is_space r then x_namebuf x else x_namebuf x ++ [r]) = nsp ((t0 :: tb) ++ [r]))
        by (apply nsp_snoc_if; exact Hnb).
      destruct (prefixb _ _) eqn:Ecl.
      * destruct (N.eqb r cGT) eqn:Egt.
        -- right. split; [reflexivity|]. split; [discriminate|].
           pose proof Egt as Egt'. apply N.eqb_eq in Egt'. subst r. rewrite HgtS in Ecl |- *.
           split; [exact Ecl|]. unfold raw_emit. rewrite Etb, HgtS. destruct (firstn _ _); reflexivity.
        -- left. eexists. split; [reflexivity|]. text_cbn.
           split; [reflexivity|]. split; [reflexivity|]. split; [reflexivity|].
           split; [|right; right; split; [discriminate|split; reflexivity]].
           apply Hrx; [exact Hnb'|].
           destruct Htb as [Htb|(rest & Htb & Hf)]; [discriminate|]. injection Htb as -> ->.
           right. exists (rest ++ [r]). split; [reflexivity|]. apply Forall_app. split; [exact Hf|].
           constructor; [split; assumption|constructor].
      * left. eexists. split; [reflexivity|]. text_cbn.
        split; [reflexivity|]. split; [reflexivity|]. split; [reflexivity|].
        split; [|left; reflexivity]. apply Hrx; [reflexivity|left; reflexivity].
Qed.

(* the emitted close tag is what TagPrint calls raw_close_like *)
Lemma raw_emit_close toks x p1 :
  x_raw x = true -> rx_ok x -> x_tagbuf x <> [] ->
  prefixb (lower (x_namebuf x ++ [cGT])) (x_close x) = true ->
  exists t2 rest, (raw_emit toks x cGT p1 = t2 :: rest) /\
    raw_close_like is_space to_lower text_tags t2 /\ t_kind t2 = KTag /\
    t_value t2 = x_tagbuf x ++ [cGT] /\ nsp (t_value t2) = x_namebuf x ++ [cGT] /\
    (rest = toks \/ exists t1, rest = t1 :: toks /\ t_kind t1 = KText /\ t_name t1 = [] /\ t_attrs t1 = [] /\
                              t_value t1 = firstn (length (x_buf x) + 1 - length (x_tagbuf x ++ [cGT])) (x_buf x) /\
                              t_value t1 <> []) /\
    (rest = toks -> firstn (length (x_buf x) + 1 - length (x_tagbuf x ++ [cGT])) (x_buf x) = []).
Proof.
  intros Er (Hx & Htb) Hne Hp. destruct (Hx Er) as (Hnb & Hcl & Hin & Hlt).
  assert (Hn2 : nsp (x_tagbuf x ++ [cGT]) = x_namebuf x ++ [cGT]).
  { rewrite nsp_app, <- Hnb. f_equal. unfold TagPrint.nsp. cbn [filter]. rewrite HgtS. reflexivity. }
  unfold raw_emit. rewrite HgtS.
  set (t2 := mkTok KTag (x_tagbuf x ++ [cGT]) (x_end x) p1 (written_close_name (x_namebuf x ++ [cGT])) []).
  assert (Hc : raw_close_like is_space to_lower text_tags t2).
  { unfold raw_close_like, t2; cbn [t_attrs t_name t_value]. split; [reflexivity|]. rewrite Hn2.
    split; [reflexivity|]. split.
    - destruct Hlt as [E|(rest & E)]; [contradiction|]. exists rest. rewrite E. reflexivity.
    - exists (x_rawname x). split; [exact Hin|]. rewrite <- Hcl. exact Hp. }
  destruct (firstn _ (x_buf x)) as [|c tv] eqn:Ef.
  - exists t2, toks. split; [reflexivity|]. split; [exact Hc|]. split; [reflexivity|]. split; [reflexivity|].
    split; [exact Hn2|]. split; [left; reflexivity|reflexivity].
  - exists t2, (mkTok KText (c :: tv) (x_start x) (x_end x) [] [] :: toks).
    split; [reflexivity|]. split; [exact Hc|]. split; [reflexivity|]. split; [reflexivity|].
    split; [exact Hn2|]. split.
    + right. eexists. split; [reflexivity|]. cbn [t_kind t_name t_attrs t_value]. repeat split. discriminate.
    + intros E. exfalso. apply (f_equal (@length token)) in E. cbn [length] in E. lia.
Qed.

(* ---------- (2) scanning the blank-free close tag ---------- *)

(* a state in which raw text [pre] has been read and no close tag is pending *)
Definition rawready (s : sstate) (toks : list token) (pre close : str) : Prop :=
  s_toks s = toks /\
  ((pre = [] /\ s_mode s = MInit /\ exists n, raw_tag_of_last toks = Some n /\ close = [cLT; cSLASH] ++ n ++ [cGT]) \/
   (exists x0, s_mode s = MText x0 /\ x_raw x0 = true /\ x_buf x0 = pre /\ x_close x0 = close)).

Ltac open_text :=
  unfold Scan.step; cbn [s_toks s_pos s_mode dispatch]; unfold Scan.text_step; text_cbn.

Lemma raw_lt s toks (pre close : str) :
  rawready s toks pre close -> prefixb (lower [cLT]) close = true ->
  exists st rn, step s cLT =
    mkS toks (adv (s_pos s) cLT) (MText (mkText (pre ++ [cLT]) st true close rn (s_pos s) [cLT] [cLT])).
Proof.
  intros (Ht & [(-> & Hm & n & Hraw & ->)|(x0 & Hm & Er & Eb & Ec)]) Hp; destruct s as [tk p m]; cbn [s_toks s_mode s_pos] in *; subst tk m.
  - unfold Scan.step. cbn [s_toks s_pos s_mode dispatch]. rewrite Hraw. unfold Scan.new_text. rewrite Hraw.
    unfold Scan.text_step; text_cbn. replace (N.eqb cLT cLT) with true by reflexivity. cbn [negb app]. text_cbn.
    rewrite HltS. cbn [app] in Hp |- *. unfold rune in *. rewrite Hp. replace (N.eqb cLT cGT) with false by reflexivity.
    eexists _, _. reflexivity.
  - destruct x0 as [b st rw cl rn e tb nb]. text_cbn_in Er. text_cbn_in Eb. text_cbn_in Ec. subst rw b cl.
    open_text. replace (N.eqb cLT cLT) with true by reflexivity. cbn [negb app]. text_cbn.
    rewrite HltS. cbn [app]. unfold rune in *. rewrite Hp. replace (N.eqb cLT cGT) with false by reflexivity.
    eexists _, _. reflexivity.
Qed.

Lemma raw_char toks p (buf : str) st (close rn : str) e (t0 : rune) (tb nb : str) (r : rune) :
  N.eqb r cLT = false -> N.eqb r cGT = false -> is_space r = false ->
  prefixb (lower (nb ++ [r])) close = true ->
  step (mkS toks p (MText (mkText buf st true close rn e (t0 :: tb) nb))) r =
  mkS toks (adv p r) (MText (mkText (buf ++ [r]) st true close rn e ((t0 :: tb) ++ [r]) (nb ++ [r]))).
Proof.
  intros Hlt Hgt Hs Hp. open_text. rewrite Hlt. cbn [negb]. text_cbn. rewrite Hs, Hp, Hgt. reflexivity.
Qed.

Lemma raw_gt toks p (buf : str) st (close rn : str) e (t0 : rune) (tb nb : str) :
  prefixb (lower (nb ++ [cGT])) close = true ->
  step (mkS toks p (MText (mkText buf st true close rn e (t0 :: tb) nb))) cGT =
  mkS (raw_emit toks (mkText buf st true close rn e (t0 :: tb) nb) cGT (adv p cGT)) (adv p cGT) MInit.
Proof.
  intros Hp. open_text. replace (N.eqb cGT cLT) with false by reflexivity. cbn [negb]. text_cbn.
  unfold rune in *. rewrite HgtS, Hp. replace (N.eqb cGT cGT) with true by reflexivity.
  unfold raw_emit; text_cbn. rewrite HgtS. destruct (firstn _ _); reflexivity.
Qed.

Lemma raw_loop toks st (close rn : str) e : forall (body : str) p (buf : str) (t0 : rune) (tb nb : str),
  Forall (fun c => N.eqb c cLT = false /\ N.eqb c cGT = false /\ is_space c = false) body ->
  prefixb (lower (nb ++ body)) close = true ->
  exists p',
    run body (mkS toks p (MText (mkText buf st true close rn e (t0 :: tb) nb))) =
    mkS toks p' (MText (mkText (buf ++ body) st true close rn e ((t0 :: tb) ++ body) (nb ++ body))).
Proof.
  induction body as [|r body IH]; intros p buf t0 tb nb Hf Hp.
  - exists p. rewrite !app_nil_r. reflexivity.
  - inversion Hf as [|r' b' (H1 & H2 & H3) Hf']; subst r' b'.
    change (r :: body) with ([r] ++ body) in Hp. rewrite app_assoc in Hp.
    cbn [fold_left]. rewrite raw_char; try assumption.
    2:{ rewrite lower_app in Hp. apply prefixb_app_l in Hp. exact Hp. }
    destruct (IH (adv p r) (buf ++ [r]) t0 (tb ++ [r]) (nb ++ [r]) Hf' Hp) as (p' & E).
    exists p'. cbn [app] in E |- *. rewrite E. rewrite <- !app_assoc. reflexivity.
Qed.

(* nb = '<' :: body: the blank-free spelling of the close tag without its '>' *)
Theorem raw_close_rescan s toks (pre close body : str) :
  rawready s toks pre close ->
  Forall (fun c => N.eqb c cLT = false /\ N.eqb c cGT = false /\ is_space c = false) body ->
  prefixb (lower ((cLT :: body) ++ [cGT])) close = true ->
  exists p' st e e2,
    run ((cLT :: body) ++ [cGT]) s =
    mkS (mkTok KTag ((cLT :: body) ++ [cGT]) e p' (written_close_name ((cLT :: body) ++ [cGT])) [] ::
         match pre with [] => toks | _ => mkTok KText pre st e2 [] [] :: toks end) p' MInit.
Proof.
  intros Hr Hf Hp.
  assert (Hp1 : prefixb (lower [cLT]) close = true).
  { change ((cLT :: body) ++ [cGT]) with ([cLT] ++ body ++ [cGT]) in Hp. rewrite lower_app in Hp.
    apply prefixb_app_l in Hp. exact Hp. }
  destruct (raw_lt s toks pre close Hr Hp1) as (st & rn & E1).
  assert (Hp2 : prefixb (lower ([cLT] ++ body)) close = true).
  { change ((cLT :: body) ++ [cGT]) with (([cLT] ++ body) ++ [cGT]) in Hp. rewrite lower_app in Hp.
    apply prefixb_app_l in Hp. exact Hp. }
  destruct (raw_loop toks st close rn (s_pos s) body (adv (s_pos s) cLT) (pre ++ [cLT]) cLT [] [cLT] Hf Hp2) as (p' & E2).
  cbn [app] in E2.
  change ((cLT :: body) ++ [cGT]) with (cLT :: body ++ [cGT]). cbn [fold_left]. rewrite E1.
  unfold rune in *. rewrite fold_left_app, E2. cbn [fold_left].
  rewrite raw_gt by exact Hp.
  unfold raw_emit; text_cbn. rewrite HgtS.
  replace (firstn _ _) with pre.
  2:{ rewrite <- app_assoc. change ([cLT] ++ body) with (cLT :: body).
      symmetry. apply (firstn_pre_app pre (cLT :: body) cGT). }
  exists (adv p' cGT), st, (s_pos s), (s_pos s). destruct pre; reflexivity.
Qed.

End P.

Print Assumptions raw_step.
Print Assumptions raw_close_rescan.
