(* Specification-side definitions for the expression parser (C09, C10): printing an AST back to
   tokens, and the well-formedness condition under which the generated parser's levels reproduce it. *)
From Tpl Require Export Exp.Parse.
From Coq Require Import Arith.
Open Scope N_scope.

Definition punct_text (p : punct) : str :=
  match find (fun kv => match snd kv, p with
     | LPAREN, LPAREN | RPAREN, RPAREN | LCURLY, LCURLY | RCURLY, RCURLY | LBRACK, LBRACK | RBRACK, RBRACK
     | ASSIGN, ASSIGN | COMMA, COMMA | SEMI, SEMI | COLON, COLON | DOT, DOT | PLUSPLUS, PLUSPLUS
     | MINUSMINUS, MINUSMINUS | DECLARE, DECLARE | ELLIPSIS, ELLIPSIS | QUESTION, QUESTION | SAFEINDEX, SAFEINDEX
     | LOR, LOR | LAND, LAND | EQ, EQ | NE, NE | LT, LT | LE, LE | GT, GT | GE, GE | OR, OR | DIV, DIV | MOD, MOD
     | LSHIFT, LSHIFT | RSHIFT, RSHIFT | BITCLEAR, BITCLEAR | UNDERLYING, UNDERLYING | EXCL, EXCL | PLUS, PLUS
     | MINUS, MINUS | CARET, CARET | STAR, STAR | AMP, AMP | RECEIVE, RECEIVE => true | _, _ => false end) puncts with
  | Some kv => fst kv | None => [] end.
Definition ptok (p : punct) (l c : N) : etok := mkE (TP p) (punct_text p) l c.

Definition punct_of_binop (b : binop) : punct :=
  match b with
  | BMul => STAR | BDiv => DIV | BMod => MOD | BShl => LSHIFT | BShr => RSHIFT | BAnd => AMP | BAndNot => BITCLEAR
  | BAdd => PLUS | BSub => MINUS | BOr => OR | BXor => CARET
  | BEq => EQ | BNe => NE | BLt => LT | BLe => LE | BGt => GT | BGe => GE | BLAnd => LAND | BLOr => LOR
  end.
Definition punct_of_unop (u : unop) : punct :=
  match u with UPlus => PLUS | UMinus => MINUS | UNot => EXCL | UCaret => CARET | UStar => STAR | UAmp => AMP | URecv => RECEIVE end.
Definition kind_of_lit (k : litkind) : tkind :=
  match k with LNil => TNil | LInt => TInt | LFloat => TFloat | LImag => TImag | LStr => TStr end.

(* tokens of an expression (positions of punctuation that the AST does not record are 0:0;
   the parser ignores positions) *)
Fixpoint print (e : expr) : list etok :=
  let opt o := match o with Some x => print x | None => [] end in
  match e with
  | ELit k t l c => [mkE (kind_of_lit k) t l c]
  | EName s l c => [mkE TIdent s l c]
  | EParen a => ptok LPAREN 0 0 :: print a ++ [ptok RPAREN 0 0]
  | EUnary u a l c => ptok (punct_of_unop u) l c :: print a
  | EBin b x y l c => print x ++ ptok (punct_of_binop b) l c :: print y
  | ECond c x y => print c ++ ptok QUESTION 0 0 :: print x ++ ptok COLON 0 0 :: print y
  | EField a safe n => print a ++ [ptok (if safe then SAFEINDEX else DOT) 0 0; mkE TIdent n 0 0]
  | EIndex a i => print a ++ ptok LBRACK 0 0 :: print i ++ [ptok RBRACK 0 0]
  | ESlice a lo hi => print a ++ ptok LBRACK 0 0 :: opt lo ++ ptok COLON 0 0 :: opt hi ++ [ptok RBRACK 0 0]
  | ESlice3 a lo hi cp => print a ++ ptok LBRACK 0 0 :: opt lo ++ ptok COLON 0 0 :: print hi ++ ptok COLON 0 0 :: print cp ++ [ptok RBRACK 0 0]
  | ECall f args ell cm =>
    print f ++ ptok LPAREN 0 0 ::
      (fix go (l : list expr) : list etok :=
         match l with
         | [] => []
         | [x] => print x
         | x :: r => print x ++ ptok COMMA 0 0 :: go r
         end) args
      ++ (if ell then [ptok ELLIPSIS 0 0] else []) ++ (if cm then [ptok COMMA 0 0] else []) ++ [ptok RPAREN 0 0]
  end.

(* level of an expression as the generated parser sees it *)
Definition level (e : expr) : nat :=
  match e with
  | EUnary _ _ _ _ => 7
  | EBin b _ _ _ _ => blevel b
  | ECond _ _ _ => 1
  | _ => 8
  end.
