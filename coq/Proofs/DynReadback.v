(* C02 at render level for DYNAMIC ATTRIBUTES.

   The open tag printed for an element with dynamic attributes (DynReplaces.spec_open_tag:
   LT name, then  n=Q escape v Q  per dynamic attribute prefix++n in written order, then the kept plain
   attributes verbatim, GT; Q = the double quote), read by the scanner model between two tokens, is ONE tag
   token, with the name of the element, whose attributes are, in order,
     - one per dynamic attribute: name = the name behind the prefix, raw value = Q x Q (the scanner stores the
       raw value WITH its quotes) where  x = escape v  and  unescape5 x = v , for ANY string v;
     - the kept plain attributes, names and raw values as written.

     dyn_open_scan              the exact attribute shapes of that token
     dyn_render_readback        the read-back form (Forall2 over the dynamic attributes)
     dyn_structure_invariant    two lists of values: same kind, same tag name, same attribute NAMES, same plain values
     dyn_structure_invariant_doc  the same inside a document  pre ++ open tag ++ post : the tokens before are
                                identical, the tokens after are equal up to source positions
     printable_of_scan          the side conditions hold for every tag token of a successful scan that has
                                attributes, provided no kept plain attribute has an EMPTY name
     dyn_element_render_readback  combined with DynReplaces.dynamic_replaces_static_node: the output of exec_node
     a2_*                       non-vacuity on  a href id :href class  with url = a Q b LT c SQ GT AMP

   OBSERVED (see empty_name_static_observed): a plain attribute with an empty name ( =y ) that follows a
   value-less kept plain attribute in the PRINTED order (a dynamic attribute stood between them in the source)
   is read back as the value of that attribute ( a =y  reads as  a=y ).  This does not depend on the inserted
   values; it is excluded by the hypothesis that kept plain attributes have non-empty names.
   An empty value prints  n=QQ  and reads back as the raw value QQ (x empty), not as a value-less attribute. *)
From Coq Require Import List NArith ZArith Bool Lia String Ascii Permutation.
From Tpl Require Import Html.Scan Html.Exec Html.Manager Proofs.ExecSpec Proofs.EscapeProps Proofs.PrintScanDefs
  Proofs.PrintScanSteps Proofs.HoleSim Proofs.HoleEscape Proofs.IdemTagWf Proofs.IdemRescan Proofs.Idempotent
  Proofs.IdempotentMain Proofs.RenderPlain Proofs.Readback Proofs.ReadbackExample Proofs.DynReplaces.
Import ListNotations.
Open Scope N_scope.

(* ------------------------------------------------------------------------------------------ *)
(* (0) lists: a property of all elements but the last one                                      *)
(* ------------------------------------------------------------------------------------------ *)
Fixpoint all_but_last {A : Type} (Q : A -> Prop) (l : list A) : Prop :=
  match l with
  | [] => True
  | a :: r => (r <> [] -> Q a) /\ all_but_last Q r
  end.

Lemma abl_filter : forall (A : Type) (Q : A -> Prop) (f : A -> bool) l,
  all_but_last Q l -> all_but_last Q (filter f l).
Proof.
  intros A Q f. induction l as [|a l IH]; intros H; [exact I|].
  cbn [all_but_last] in H. destruct H as [Ha Hl]. cbn [filter].
  destruct (f a) eqn:Fa; [|apply IH; exact Hl].
  cbn [all_but_last]. split; [|apply IH; exact Hl].
  intros Hne. apply Ha. intros El. subst l. apply Hne. reflexivity.
Qed.

Lemma abl_app : forall (A : Type) (Q : A -> Prop) l1 l2,
  Forall Q l1 -> all_but_last Q l2 -> all_but_last Q (l1 ++ l2).
Proof.
  intros A Q. induction l1 as [|a l1 IH]; intros l2 H1 H2; [exact H2|].
  inversion H1 as [|x y Hx Hy]; subst x y. cbn [app all_but_last].
  split; [intros _; exact Hx|apply IH; assumption].
Qed.

Lemma abl_map : forall (A B : Type) (Q : B -> Prop) (g : A -> B) l,
  all_but_last (fun a => Q (g a)) l -> all_but_last Q (map g l).
Proof.
  intros A B Q g. induction l as [|a l IH]; intros H; [exact I|].
  cbn [all_but_last] in H. destruct H as [Ha Hl]. cbn [map all_but_last].
  split; [|apply IH; exact Hl]. intros Hne. apply Ha. intros El. subst l. apply Hne. reflexivity.
Qed.

Lemma abl_unmap : forall (A B : Type) (Q : B -> Prop) (g : A -> B) l,
  all_but_last Q (map g l) -> all_but_last (fun a => Q (g a)) l.
Proof.
  intros A B Q g. induction l as [|a l IH]; intros H; [exact I|].
  cbn [map all_but_last] in H. destruct H as [Ha Hl]. cbn [all_but_last].
  split; [|apply IH; exact Hl]. intros Hne. apply Ha. intros El. apply Hne.
  destruct l as [|b l]; [reflexivity|discriminate El].
Qed.

Lemma tl_snoc : forall (A : Type) (l : list A) a, l <> [] -> tl (l ++ [a]) = tl l ++ [a].
Proof. intros A l a H. destruct l as [|b l]; [contradiction H; reflexivity|reflexivity]. Qed.

Lemma rev_nil_inv : forall (A : Type) (l : list A), rev l = [] -> l = [].
Proof. intros A l H. rewrite <- (rev_involutive l), H. reflexivity. Qed.

Lemma abl_tl_rev : forall (A : Type) (Q : A -> Prop) l, all_but_last Q l -> Forall Q (tl (rev l)).
Proof.
  intros A Q. induction l as [|a l IH]; intros H; [constructor|].
  cbn [all_but_last] in H. destruct H as [Ha Hl]. cbn [rev].
  destruct l as [|b l]; [constructor|].
  assert (Hne : rev (b :: l) <> []) by (intros E; apply rev_nil_inv in E; discriminate E).
  rewrite tl_snoc by exact Hne. apply Forall_app. split; [apply IH; exact Hl|].
  constructor; [apply Ha; discriminate|constructor].
Qed.

Lemma tl_rev_abl : forall (A : Type) (Q : A -> Prop) l, Forall Q (tl (rev l)) -> all_but_last Q l.
Proof.
  intros A Q. induction l as [|a l IH]; intros H; [exact I|].
  cbn [rev] in H. cbn [all_but_last]. destruct l as [|b l]; [split; [intros Hne; contradiction Hne; reflexivity|exact I]|].
  assert (Hne : rev (b :: l) <> []) by (intros E; apply rev_nil_inv in E; discriminate E).
  rewrite tl_snoc in H by exact Hne. apply Forall_app in H. destruct H as [H1 H2].
  split; [intros _; inversion H2; assumption|apply IH; exact H1].
Qed.

Lemma Forall_tl : forall (A : Type) (Q : A -> Prop) l, Forall Q l -> Forall Q (tl l).
Proof. intros A Q l H. destruct H as [|a l Ha Hl]; [constructor|exact Hl]. Qed.

Lemma map_eq_Forall2 : forall (A B C : Type) (f : A -> C) (g : B -> C) la lb,
  map f la = map g lb -> Forall2 (fun a b => f a = g b) la lb.
Proof.
  intros A B C f g. induction la as [|a la IH]; intros lb H; destruct lb as [|b lb]; cbn [map] in H;
    try discriminate H; [constructor|].
  injection H as H1 H2. constructor; [exact H1|apply IH; exact H2].
Qed.

Lemma Forall2_one : forall (A B : Type) (R : A -> B -> Prop) l b, Forall2 R l [b] -> exists a, l = [a] /\ R a b.
Proof.
  intros A B R l b H. inversion H as [|x y lx ly Hxy Hrest E1 E2]. subst y ly.
  inversion Hrest as [E3 E4|]. exists x. split; [reflexivity|exact Hxy].
Qed.

Lemma forallb_app_r : forall (A : Type) (f : A -> bool) l1 l2, forallb f (l1 ++ l2) = true -> forallb f l2 = true.
Proof. intros A f l1 l2 H. rewrite forallb_app in H. apply andb_prop in H. exact (proj2 H). Qed.

(* ------------------------------------------------------------------------------------------ *)
(* (1) IdemTagWf.rwf (reversed shapes, head = latest) as pointwise + global conditions         *)
(* ------------------------------------------------------------------------------------------ *)
Section Shapes.
Variable is_space : rune -> bool.
Variable attr_prefix : str.
Hypothesis Hsp : is_space cSP = true.
Hypothesis Hdq : is_space cDQ = false.
Notation aplain := (PrintScanDefs.aplain is_space).
Notation plain := (PrintScanDefs.plain is_space).
Notation else_name := (Scan.else_name attr_prefix).
Notation rwf := (IdemTagWf.rwf is_space attr_prefix).
Notation val_ok := (IdemTagWf.val_ok is_space).

Definition elem_ok (x : ash) : Prop :=
  forallb aplain (fst x) = true /\ (fst x = [] -> snd x <> None) /\
  (snd x = None -> str_eqb (fst x) else_name = false) /\ val_ok (snd x).
(* an attribute with an empty name is not written right after a value-less one *)
Fixpoint adj_ok (l : list ash) : Prop :=
  match l with
  | [] => True
  | x :: r => (fst x = [] -> not_none r) /\ adj_ok r
  end.

Lemma rwf_intro : forall l, NoDup (map fst l) -> Forall elem_ok l -> Forall nonempty_val (tl l) -> adj_ok l -> rwf l.
Proof.
  induction l as [|[an v] r IH]; intros Hnd Hel Hne Hadj; [exact I|].
  cbn [map fst] in Hnd. inversion Hnd as [|x y Hx Hy]; subst x y.
  inversion Hel as [|x y Hex Hey]; subst x y. destruct Hex as (E1 & E2 & E3 & E4). cbn [fst snd] in E1, E2, E3, E4.
  cbn [adj_ok fst] in Hadj. destruct Hadj as [A1 A2]. cbn [tl] in Hne.
  cbn [IdemTagWf.rwf]. split; [exact Hx|]. split; [exact E1|].
  split; [intros E; split; [apply E2; exact E|apply A1; exact E]|].
  split; [exact E3|]. split; [exact E4|]. split; [exact Hne|].
  apply IH; [exact Hy|exact Hey|apply Forall_tl; exact Hne|exact A2].
Qed.

Lemma rwf_elim : forall l, rwf l -> NoDup (map fst l) /\ Forall elem_ok l /\ Forall nonempty_val (tl l) /\ adj_ok l.
Proof.
  induction l as [|[an v] r IH]; intros H.
  - split; [constructor|]. split; [constructor|]. split; [constructor|exact I].
  - cbn [IdemTagWf.rwf] in H. destruct H as (H1 & H2 & H3 & H4 & H5 & H6 & H7).
    destruct (IH H7) as (I1 & I2 & I3 & I4).
    split; [cbn [map fst]; constructor; assumption|].
    split; [constructor; [|exact I2]|].
    + unfold elem_ok. cbn [fst snd]. split; [exact H2|]. split; [intros E; exact (proj1 (H3 E))|]. split; [exact H4|exact H5].
    + split; [exact H6|]. cbn [adj_ok fst]. split; [intros E; exact (proj2 (H3 E))|exact I4].
Qed.

Lemma adj_ok_valued : forall l, Forall (fun x : ash => snd x <> None) l -> adj_ok l.
Proof.
  induction l as [|x r IH]; intros H; [exact I|].
  inversion H as [|a b Ha Hb]; subst a b. cbn [adj_ok]. split; [|apply IH; exact Hb].
  intros _. destruct r as [|[n [v|]] r']; cbn [not_none]; try exact I.
  inversion Hb as [|a b Hn _]; subst a b. apply Hn. reflexivity.
Qed.
Lemma adj_ok_named : forall l1 l2, Forall (fun x : ash => fst x <> []) l1 -> adj_ok l2 -> adj_ok (l1 ++ l2).
Proof.
  induction l1 as [|x l1 IH]; intros l2 H1 H2; [exact H2|].
  inversion H1 as [|a b Ha Hb]; subst a b. cbn [app adj_ok].
  split; [intros E; contradiction (Ha E)|apply IH; assumption].
Qed.

(* the quoted escaped value is a well-formed raw value *)
Lemma quoted_val_ok : forall x : str, ~ In cDQ x -> val_ok (Some (cDQ :: x ++ [cDQ])).
Proof.
  intros x Hx. cbn [IdemTagWf.val_ok]. split; [unfold PrintScanDefs.plain; rewrite Hdq; reflexivity|].
  cbn [value_okb]. change (is_quote cDQ) with true. cbv iota. rewrite rev_app_distr. cbn [rev app].
  change (N.eqb cDQ cDQ) with true. cbn [andb].
  apply forallb_forall. intros c Hc. apply negb_true_iff. apply N.eqb_neq. intros E. subst c.
  apply Hx. apply in_rev. exact Hc.
Qed.
End Shapes.

(* ------------------------------------------------------------------------------------------ *)
(* (2) the printed open tag as a list of attribute shapes                                      *)
(* ------------------------------------------------------------------------------------------ *)
Section Printed.
Variable mgr : manager.
Notation dname := (DynReplaces.dname mgr).
Notation kept := (DynReplaces.kept mgr).

(* what the scanner stores for a dynamic attribute printed with the content x: the raw value WITH its quotes *)
Definition dyn_shape (d : attr) (x : str) : ash := (dname d, Some (cDQ :: x ++ [cDQ])).
Definition dyn_shapes (dyns : list attr) (values : list str) : list ash :=
  map (fun dv => dyn_shape (fst dv) (escape (snd dv))) (combine dyns values).
Definition printed_shapes (statics dyns : list attr) (values : list str) : list ash :=
  dyn_shapes dyns values ++ map ashape (kept dyns statics).

Lemma dyn_print_pa : forall l : list (attr * str),
  flat_map (fun dv => dyn_print mgr (fst dv) (snd dv)) l
  = concat (map pa (map (fun dv => dyn_shape (fst dv) (escape (snd dv))) l)).
Proof.
  induction l as [|[d v] l IH]; [reflexivity|].
  cbn [flat_map map concat fst snd]. rewrite IH. reflexivity.
Qed.

Lemma spec_open_tag_pa : forall name statics dyns values,
  spec_open_tag mgr name statics dyns values
  = cLT :: name ++ concat (map pa (printed_shapes statics dyns values)) ++ [cGT].
Proof.
  intros name statics dyns values. unfold spec_open_tag, printed_shapes, dyn_shapes.
  rewrite map_app, concat_app, <- dyn_print_pa, <- pattrs_pa, <- app_assoc. reflexivity.
Qed.

Lemma dyn_shapes_names : forall dyns values, length values = length dyns ->
  map fst (dyn_shapes dyns values) = map dname dyns.
Proof.
  induction dyns as [|d dyns IH]; intros values Hlen; [reflexivity|].
  destruct values as [|v values]; [discriminate Hlen|].
  unfold dyn_shapes. cbn [combine map fst snd dyn_shape]. f_equal. apply IH. cbn [length] in Hlen. lia.
Qed.
Lemma printed_shapes_names : forall statics dyns values, length values = length dyns ->
  map fst (printed_shapes statics dyns values) = printed_names mgr statics dyns.
Proof.
  intros statics dyns values Hlen. unfold printed_shapes, printed_names.
  rewrite map_app, dyn_shapes_names by exact Hlen. rewrite map_map. reflexivity.
Qed.
(* the attribute names do not depend on the values *)
Lemma printed_shapes_names_eq : forall statics dyns v1 v2, length v1 = length dyns -> length v2 = length dyns ->
  map fst (printed_shapes statics dyns v1) = map fst (printed_shapes statics dyns v2).
Proof. intros statics dyns v1 v2 H1 H2. rewrite !printed_shapes_names by assumption. reflexivity. Qed.
End Printed.

(* ------------------------------------------------------------------------------------------ *)
(* (3) the scanner on the printed open tag                                                     *)
(* ------------------------------------------------------------------------------------------ *)
Section DynScan.
Variable is_space : rune -> bool.
Variable to_lower : rune -> rune.
Variable text_tags : list str.
Variable attr_prefix : str.          (* the prefix of the scanner that reads the OUTPUT *)
Variable compile : attr -> bool.
Variable mgr : manager.
Hypothesis Hsp : is_space cSP = true.
Hypothesis Hgt : is_space cGT = false.
Hypothesis Heq : is_space cEQ = false.
Hypothesis Hdq : is_space cDQ = false.

Notation run := (@fold_left sstate rune (Scan.step is_space to_lower text_tags attr_prefix compile)).
Notation scan := (Scan.scan is_space to_lower text_tags attr_prefix compile).
Notation aplain := (PrintScanDefs.aplain is_space).
Notation rwf := (IdemTagWf.rwf is_space attr_prefix).
Notation name_ok := (IdemTagWf.name_ok is_space).
Notation elem_ok := (elem_ok is_space attr_prefix).
Notation dname := (DynReplaces.dname mgr).
Notation kept := (DynReplaces.kept mgr).
Notation after_tag := (Readback.after_tag to_lower text_tags).

(* THE SIDE CONDITIONS on the tag name, the names behind the prefix and the kept plain attributes
   (no condition on the values of the dynamic attributes) *)
Definition printable (name : str) (statics dyns : list attr) : Prop :=
  name_ok name /\
  NoDup (printed_names mgr statics dyns) /\
  (forall d, In d dyns -> forallb aplain (dname d) = true) /\
  (forall s, In s (kept dyns statics) -> a_name s <> [] /\ elem_ok (ashape s)) /\
  all_but_last (fun s => a_value s <> Some []) (kept dyns statics).

Lemma dyn_shapes_ok : forall dyns values, (forall d, In d dyns -> forallb aplain (dname d) = true) ->
  Forall (fun x => elem_ok x /\ nonempty_val x /\ snd x <> None) (dyn_shapes mgr dyns values).
Proof.
  intros dyns values Hd. unfold dyn_shapes. apply Forall_forall. intros x Hx.
  apply in_map_iff in Hx. destruct Hx as [[d v] [Hx Hin]]. subst x. cbn [fst snd].
  assert (Hind : In d dyns) by exact (in_combine_l _ _ _ _ Hin).
  unfold dyn_shape, nonempty_val. cbn [fst snd]. split; [|split; discriminate].
  unfold DynReadback.elem_ok. cbn [fst snd]. split; [apply Hd; exact Hind|].
  split; [intros _; discriminate|]. split; [intros E; discriminate E|].
  apply (quoted_val_ok is_space Hdq). exact (proj1 (proj2 (proj2 (escape_no v)))).
Qed.

Lemma printable_rwf : forall name statics dyns values, printable name statics dyns -> length values = length dyns ->
  rwf (rev (printed_shapes mgr statics dyns values)).
Proof.
  intros name statics dyns values (Hn & Hnd & Hd & Hk & Hl) Hlen.
  pose proof (dyn_shapes_ok dyns values Hd) as HD. rewrite Forall_forall in HD.
  apply rwf_intro.
  - rewrite map_rev. apply NoDup_rev. rewrite printed_shapes_names by exact Hlen. exact Hnd.
  - apply Forall_rev. unfold printed_shapes. apply Forall_app. split.
    + apply Forall_forall. intros x Hx. exact (proj1 (HD x Hx)).
    + apply Forall_forall. intros x Hx. apply in_map_iff in Hx. destruct Hx as [s [Hs Hin]]. subst x.
      exact (proj2 (Hk s Hin)).
  - apply abl_tl_rev. unfold printed_shapes. apply abl_app.
    + apply Forall_forall. intros x Hx. exact (proj1 (proj2 (HD x Hx))).
    + apply abl_map. exact Hl.
  - unfold printed_shapes. rewrite rev_app_distr. apply adj_ok_named.
    + apply Forall_rev. apply Forall_forall. intros x Hx. apply in_map_iff in Hx. destruct Hx as [s [Hs Hin]]. subst x.
      exact (proj1 (Hk s Hin)).
    + apply adj_ok_valued. apply Forall_rev. apply Forall_forall. intros x Hx. exact (proj2 (proj2 (HD x Hx))).
Qed.

(* the exact token: read in the between-tokens state S (outside raw text), the printed open tag is ONE tag token *)
Theorem dyn_open_scan : forall name statics dyns values S,
  after_tag S -> printable name statics dyns -> length values = length dyns ->
  ccl compile (printed_shapes mgr statics dyns values) ->
  exists T p',
    run (spec_open_tag mgr name statics dyns values) S = mkS (T :: s_toks S) p' MInit /\
    t_kind T = KTag /\ t_name T = name /\
    map ashape (t_attrs T) = printed_shapes mgr statics dyns values.
Proof.
  intros name statics dyns values S [Hm Hraw] Hp Hlen Hcc.
  destruct S as [toks p m]. cbn [s_mode s_toks] in Hm, Hraw. subst m. cbn [s_toks].
  rewrite spec_open_tag_pa. cbn [fold_left].
  rewrite (init_lt is_space to_lower text_tags attr_prefix compile toks p Hraw).
  destruct (reprint_scan is_space to_lower text_tags attr_prefix compile Hsp Hgt Heq toks (adv p cLT) p name
              (printed_shapes mgr statics dyns values) (proj1 Hp) (printable_rwf name statics dyns values Hp Hlen) Hcc)
    as (p' & T & E & Hk & Hnm & Hsh).
  exists T, p'. split; [exact E|]. split; [exact Hk|]. split; [exact Hnm|exact Hsh].
Qed.

(* what the token says about each dynamic attribute *)
Definition reads_back (a : attr) (dv : attr * str) : Prop :=
  a_name a = dname (fst dv) /\
  exists x, a_value a = Some (cDQ :: x ++ [cDQ]) /\ x = escape (snd dv) /\ unescape5 x = snd dv.

Lemma shapes_read_back : forall (l : list attr) dyns values statics,
  map ashape l = printed_shapes mgr statics dyns values ->
  exists A K, l = A ++ K /\ Forall2 reads_back A (combine dyns values) /\
              map ashape K = map ashape (kept dyns statics).
Proof.
  intros l dyns values statics H. unfold printed_shapes in H.
  apply map_eq_app in H. destruct H as (A & K & Hl & HA & HK).
  exists A, K. split; [exact Hl|]. split; [|exact HK].
  unfold dyn_shapes in HA. apply map_eq_Forall2 in HA. clear Hl HK.
  induction HA as [|a [d v] la lb Hab _ IH]; constructor; [|exact IH].
  unfold ashape, dyn_shape in Hab. cbn [fst snd] in Hab. injection Hab as H1 H2.
  split; [exact H1|]. exists (escape v). split; [exact H2|]. split; [reflexivity|apply escape_roundtrip].
Qed.

(* (1) THE READ-BACK CLAUSE for dynamic attributes *)
Theorem dyn_render_readback : forall name statics dyns values S,
  after_tag S -> printable name statics dyns -> length values = length dyns ->
  ccl compile (printed_shapes mgr statics dyns values) ->
  exists T p' A K,
    run (spec_open_tag mgr name statics dyns values) S = mkS (T :: s_toks S) p' MInit /\
    t_kind T = KTag /\ t_name T = name /\ t_attrs T = A ++ K /\
    Forall2 reads_back A (combine dyns values) /\
    map ashape K = map ashape (kept dyns statics).
Proof.
  intros name statics dyns values S Haft Hp Hlen Hcc.
  destruct (dyn_open_scan name statics dyns values S Haft Hp Hlen Hcc) as (T & p' & E & Hk & Hn & Hsh).
  destruct (shapes_read_back _ _ _ _ Hsh) as (A & K & HA & HF & HK).
  exists T, p', A, K. auto 10.
Qed.

(* the open tag alone *)
Corollary dyn_render_readback_alone : forall name statics dyns values,
  printable name statics dyns -> length values = length dyns ->
  ccl compile (printed_shapes mgr statics dyns values) ->
  exists T A K,
    scan (spec_open_tag mgr name statics dyns values) = inl [T] /\
    t_kind T = KTag /\ t_name T = name /\ t_attrs T = A ++ K /\
    Forall2 reads_back A (combine dyns values) /\
    map ashape K = map ashape (kept dyns statics).
Proof.
  intros name statics dyns values Hp Hlen Hcc.
  destruct (dyn_render_readback name statics dyns values init (conj eq_refl eq_refl) Hp Hlen Hcc)
    as (T & p' & A & K & E & H).
  exists T, A, K. split; [|exact H]. unfold Scan.scan. rewrite E. reflexivity.
Qed.

(* (2) THE STRUCTURE CLAUSE: whatever the values, the same kind, tag name and attribute names;
   the raw values of the kept plain attributes are the same too *)
Theorem dyn_structure_invariant : forall name statics dyns values1 values2 S,
  after_tag S -> printable name statics dyns ->
  length values1 = length dyns -> length values2 = length dyns ->
  ccl compile (printed_shapes mgr statics dyns values1) -> ccl compile (printed_shapes mgr statics dyns values2) ->
  exists T1 T2 p1 p2,
    run (spec_open_tag mgr name statics dyns values1) S = mkS (T1 :: s_toks S) p1 MInit /\
    run (spec_open_tag mgr name statics dyns values2) S = mkS (T2 :: s_toks S) p2 MInit /\
    t_kind T1 = t_kind T2 /\ t_name T1 = t_name T2 /\
    map a_name (t_attrs T1) = map a_name (t_attrs T2) /\
    skipn (length dyns) (map ashape (t_attrs T1)) = skipn (length dyns) (map ashape (t_attrs T2)).
Proof.
  intros name statics dyns values1 values2 S Haft Hp Hl1 Hl2 Hc1 Hc2.
  destruct (dyn_open_scan name statics dyns values1 S Haft Hp Hl1 Hc1) as (T1 & p1 & E1 & Hk1 & Hn1 & Hs1).
  destruct (dyn_open_scan name statics dyns values2 S Haft Hp Hl2 Hc2) as (T2 & p2 & E2 & Hk2 & Hn2 & Hs2).
  exists T1, T2, p1, p2. split; [exact E1|]. split; [exact E2|].
  split; [rewrite Hk1, Hk2; reflexivity|]. split; [rewrite Hn1, Hn2; reflexivity|].
  split.
  - assert (H1 : map a_name (t_attrs T1) = map fst (map ashape (t_attrs T1))) by (rewrite map_map; reflexivity).
    assert (H2 : map a_name (t_attrs T2) = map fst (map ashape (t_attrs T2))) by (rewrite map_map; reflexivity).
    rewrite H1, H2, Hs1, Hs2. apply printed_shapes_names_eq; assumption.
  - rewrite Hs1, Hs2. unfold printed_shapes.
    assert (L1 : length (dyn_shapes mgr dyns values1) = length dyns).
    { unfold dyn_shapes. rewrite map_length, combine_length. lia. }
    assert (L2 : length (dyn_shapes mgr dyns values2) = length dyns).
    { unfold dyn_shapes. rewrite map_length, combine_length. lia. }
    rewrite <- L1 at 1. rewrite <- L2 at 1. rewrite !skipn_app, !skipn_all, !Nat.sub_diag. reflexivity.
Qed.
End DynScan.

Lemma reads_back_pair : forall mgr a d v, reads_back mgr a (d, v) ->
  a_name a = dname mgr d /\ exists x, a_value a = Some (cDQ :: x ++ [cDQ]) /\ x = escape v /\ unescape5 x = v.
Proof.
  intros mgr a d v [H1 (x & H2 & H3 & H4)]. split; [exact H1|]. exists x. split; [exact H2|]. split; [exact H3|exact H4].
Qed.

(* ------------------------------------------------------------------------------------------ *)
(* (4) the side conditions hold for the tag tokens of a scanned source                         *)
(* ------------------------------------------------------------------------------------------ *)
Section FromScan.
Variable is_space : rune -> bool.
Variable to_lower : rune -> rune.
Variable text_tags : list str.
Variable attr_prefix : str.
Variable mgr : manager.
Hypothesis Hsp : is_space cSP = true.
Hypothesis Hgt : is_space cGT = false.
Hypothesis Heq : is_space cEQ = false.
Hypothesis Hdq : is_space cDQ = false.
Hypothesis Hlt : is_space cLT = false.
Hypothesis Hsl : forall c, to_lower c = cSLASH -> c = cSLASH.
Notation dyns_of := (DynReplaces.dyns_of mgr).
Notation statics_of := (DynReplaces.statics_of mgr).
Notation kept := (DynReplaces.kept mgr).

Lemma printable_of_rwf : forall tok,
  IdemTagWf.name_ok is_space (t_name tok) -> IdemTagWf.rwf is_space attr_prefix (map ashape (rev (t_attrs tok))) ->
  (forall s, In s (kept (dyns_of (t_attrs tok)) (statics_of (t_attrs tok))) -> a_name s <> []) ->
  printable is_space attr_prefix mgr (t_name tok) (statics_of (t_attrs tok)) (dyns_of (t_attrs tok)).
Proof.
  intros tok Hn Hrwf Hnames.
  destruct (rwf_elim is_space attr_prefix _ Hrwf) as (Hnd & Hel & Hne & _).
  assert (Helem : forall a, In a (t_attrs tok) -> elem_ok is_space attr_prefix (ashape a)).
  { intros a Ha. rewrite Forall_forall in Hel. apply Hel. apply in_map. apply in_rev in Ha. exact Ha. }
  split; [exact Hn|]. split; [|split; [|split]].
  - apply printed_names_distinct.
    rewrite map_map, map_rev in Hnd. apply NoDup_rev in Hnd. rewrite rev_involutive in Hnd. exact Hnd.
  - intros d Hd. apply filter_In in Hd. destruct Hd as [Hin Hp].
    pose proof (proj1 (Helem d Hin)) as Ha. cbn [ashape fst] in Ha.
    unfold prefixed in Hp. rewrite (dr_prefixb_split _ _ Hp) in Ha.
    exact (forallb_app_r _ _ _ _ Ha).
  - intros s Hs. split; [apply Hnames; exact Hs|].
    apply filter_In in Hs. destruct Hs as [Hs _]. apply filter_In in Hs. destruct Hs as [Hs _].
    apply Helem. exact Hs.
  - rewrite map_rev in Hne. apply tl_rev_abl in Hne. apply abl_unmap in Hne.
    unfold DynReplaces.kept, DynReplaces.statics_of. apply abl_filter. apply abl_filter. exact Hne.
Qed.

(* every tag token with attributes of a successful scan (whatever the attribute compiler) *)
Theorem printable_of_scan : forall compile src toks tok,
  Scan.scan is_space to_lower text_tags attr_prefix compile src = inl toks -> In tok toks ->
  t_kind tok = KTag -> t_attrs tok <> [] ->
  (forall s, In s (kept (dyns_of (t_attrs tok)) (statics_of (t_attrs tok))) -> a_name s <> []) ->
  printable is_space attr_prefix mgr (t_name tok) (statics_of (t_attrs tok)) (dyns_of (t_attrs tok)).
Proof.
  intros compile src toks tok Hscan Hin Hk Hattrs Hnames.
  destruct (scan_names_values_gen is_space to_lower text_tags attr_prefix Hsp Hgt Heq Hdq Hlt Hsl compile src toks Hscan tok Hin)
    as [Htag _].
  destruct (Htag Hk) as [[Hn Hrwf]|[Hno _]]; [|contradiction (Hattrs Hno)].
  apply printable_of_rwf; assumption.
Qed.
End FromScan.

(* ------------------------------------------------------------------------------------------ *)
(* (5) inside a document                                                                        *)
(* ------------------------------------------------------------------------------------------ *)
Section DynDoc.
Variable is_space : rune -> bool.
Variable to_lower : rune -> rune.
Variable text_tags : list str.
Variable attr_prefix : str.
Variable compile : attr -> bool.
Variable mgr : manager.
Hypothesis Hsp : is_space cSP = true.
Hypothesis Hgt : is_space cGT = false.
Hypothesis Heq : is_space cEQ = false.
Hypothesis Hdq : is_space cDQ = false.
(* ASSUMPTION (as in Readback.v): the attribute compiler does not look at source positions *)
Hypothesis Hcomp : forall a1 a2, a_name a1 = a_name a2 -> a_value a1 = a_value a2 -> compile a1 = compile a2.
Notation run := (@fold_left sstate rune (Scan.step is_space to_lower text_tags attr_prefix compile)).
Notation scan := (Scan.scan is_space to_lower text_tags attr_prefix compile).
Notation after_tag := (Readback.after_tag to_lower text_tags).
Notation printable := (printable is_space attr_prefix mgr).

(* a token that has been emitted stays: the tokens of a longer source extend those of a prefix that ends
   between two tokens *)
Lemma scan_extends : forall (w rest : str) S T p', run w S = mkS (T :: s_toks S) p' MInit ->
  forall toks, Scan.finish (run rest (run w S)) = inl toks -> exists rr, toks = rev (s_toks S) ++ T :: rr.
Proof.
  intros w rest S T p' E toks Hf. rewrite E in Hf.
  assert (Hsim : simB to_lower text_tags (T :: s_toks S) (T :: s_toks S)
                      (mkS (T :: s_toks S) p' MInit) (mkS (T :: s_toks S) p' MInit)).
  { apply (SB to_lower text_tags (T :: s_toks S) (T :: s_toks S) [] [] p' p' MInit MInit eq_refl (MR_init)).
    intros _. reflexivity. }
  pose proof (runB is_space to_lower text_tags attr_prefix compile Hcomp _ _ rest _ _ Hsim) as Hrun.
  destruct (finishB to_lower text_tags _ _ _ _ Hrun) as [(e & E1 & _)|(r1 & r2 & E1 & _ & _)].
  - rewrite Hf in E1. discriminate E1.
  - rewrite Hf in E1. injection E1 as E1. exists r1. rewrite E1. cbn [rev]. rewrite <- app_assoc. reflexivity.
Qed.

(* (2), whole document: the two outputs differ only in the values of the dynamic attributes of that tag
   (and in source positions) *)
Theorem dyn_structure_invariant_doc : forall name statics dyns values1 values2 pre post,
  after_tag (run pre init) -> printable name statics dyns ->
  length values1 = length dyns -> length values2 = length dyns ->
  ccl compile (printed_shapes mgr statics dyns values1) -> ccl compile (printed_shapes mgr statics dyns values2) ->
  forall toks1, scan (pre ++ spec_open_tag mgr name statics dyns values1 ++ post) = inl toks1 ->
  exists toks2 T1 T2 r1 r2,
    scan (pre ++ spec_open_tag mgr name statics dyns values2 ++ post) = inl toks2 /\
    toks1 = rev (s_toks (run pre init)) ++ T1 :: r1 /\
    toks2 = rev (s_toks (run pre init)) ++ T2 :: r2 /\
    t_kind T1 = t_kind T2 /\ t_name T1 = t_name T2 /\ map a_name (t_attrs T1) = map a_name (t_attrs T2) /\
    map tok_np r1 = map tok_np r2.
Proof.
  intros name statics dyns values1 values2 pre post Haft Hp Hl1 Hl2 Hc1 Hc2 toks1 Hscan.
  destruct (dyn_structure_invariant is_space to_lower text_tags attr_prefix compile mgr Hsp Hgt Heq Hdq
              name statics dyns values1 values2 (run pre init) Haft Hp Hl1 Hl2 Hc1 Hc2)
    as (T1 & T2 & p1 & p2 & E1 & E2 & Hk & Hn & Hnames & _).
  unfold Scan.scan in *. rewrite !fold_left_app in *. rewrite E1 in Hscan. rewrite E2.
  set (o := s_toks (run pre init)) in *.
  assert (Hsim : simB to_lower text_tags (T1 :: o) (T2 :: o) (mkS (T1 :: o) p1 MInit) (mkS (T2 :: o) p2 MInit)).
  { apply (SB to_lower text_tags (T1 :: o) (T2 :: o) [] [] p1 p2 MInit MInit eq_refl (MR_init)).
    intros _. cbn [app]. unfold Scan.raw_tag_of_last. rewrite Hk, Hn. reflexivity. }
  pose proof (runB is_space to_lower text_tags attr_prefix compile Hcomp _ _ post _ _ Hsim) as Hrun.
  destruct (finishB to_lower text_tags _ _ _ _ Hrun) as [(e & F1 & _)|(r1 & r2 & F1 & F2 & Hr)].
  - rewrite Hscan in F1. discriminate F1.
  - rewrite Hscan in F1. injection F1 as F1. exists (rev (T2 :: o) ++ r2), T1, T2, r1, r2.
    split; [exact F2|]. cbn [rev]. rewrite <- !app_assoc. cbn [app].
    split; [rewrite F1; cbn [rev]; rewrite <- app_assoc; reflexivity|]. auto.
Qed.
End DynDoc.

(* ------------------------------------------------------------------------------------------ *)
(* (6) render level: the output of exec_node, tokenised again                                  *)
(* ------------------------------------------------------------------------------------------ *)
Lemma ccl_true : forall l, ccl (fun _ => true) l.
Proof. intros l an v _ ns ne vs ve. reflexivity. Qed.

(* (3) an element with plain and dynamic attributes only, rendered (dynamic_replaces_static_node), then read by
   the scanner model (no directive compiler: the output carries no directive): the FIRST token is the tag token
   of the element; its first attributes are the dynamic ones, each with a quoted raw value whose content
   unescapes to the evaluated string; then the kept plain attributes as written *)
Theorem dyn_element_render_readback :
  forall is_space to_lower is_letter is_udigit methods call_fn mgr text_tags attr_prefix
         fuel mask ctx n tok sc top t st values lg co t2 st2 out res t' st',
  let scan := Scan.scan is_space to_lower text_tags attr_prefix (fun _ => true) in
  let dyns := dyns_of mgr (t_attrs tok) in
  let statics := statics_of mgr (t_attrs tok) in
  is_space cSP = true -> is_space cGT = false -> is_space cEQ = false -> is_space cDQ = false ->
  dyn_elem to_lower mgr n tok -> no_plain_directive_name mgr (t_attrs tok) ->
  printable is_space attr_prefix mgr (t_name tok) statics dyns ->
  eval_dyns is_letter is_udigit methods call_fn mgr dyns sc (r_log st) = (inl values, lg) ->
  exec_list (exec_node is_space to_lower is_letter is_udigit methods call_fn mgr fuel)
            (n_children n) (n_children n) sc top t (set_log st lg) = (co, ROk, t2, st2) ->
  wok top st -> wok top st2 ->
  exec_node is_space to_lower is_letter is_udigit methods call_fn mgr (S fuel) mask ctx n sc top t st = (out, res, t', st') ->
  res = ROk /\
  out = spec_open_tag mgr (t_name tok) statics dyns values ++ co ++ end_text n /\
  forall toks, scan out = inl toks ->
    exists T rr A K,
      toks = T :: rr /\ t_kind T = KTag /\ t_name T = t_name tok /\ t_attrs T = A ++ K /\
      Forall2 (reads_back mgr) A (combine dyns values) /\
      map ashape K = map ashape (kept mgr dyns statics).
Proof.
  intros is_space to_lower is_letter is_udigit methods call_fn mgr text_tags attr_prefix
         fuel mask ctx n tok sc top t st values lg co t2 st2 out res t' st' scan dyns statics
         Hsp Hgt Heq Hdq He Hnp Hpr Hev Hch Hw Hw2 Hex.
  rewrite (dynamic_replaces_static_node is_space to_lower is_letter is_udigit methods call_fn mgr
             fuel mask ctx n tok sc top t st values lg co t2 st2 He Hnp Hev Hch Hw Hw2) in Hex.
  injection Hex as Hout Hres _ _. subst out res. fold dyns statics.
  split; [reflexivity|]. split; [reflexivity|]. intros toks Hscan.
  assert (Hlen : length values = length dyns) by exact (eval_dyns_length _ _ _ _ _ _ _ _ _ _ Hev).
  destruct (dyn_render_readback is_space to_lower text_tags attr_prefix (fun _ => true) mgr Hsp Hgt Heq Hdq
              (t_name tok) statics dyns values init (conj eq_refl eq_refl) Hpr Hlen (ccl_true _))
    as (T & p' & A & K & E & Hk & Hn & Ha & HF & HK).
  assert (Hfin : Scan.finish (fold_left (Scan.step is_space to_lower text_tags attr_prefix (fun _ => true)) (co ++ end_text n)
                    (fold_left (Scan.step is_space to_lower text_tags attr_prefix (fun _ => true))
                       (spec_open_tag mgr (t_name tok) statics dyns values) init)) = inl toks).
  { rewrite <- fold_left_app. exact Hscan. }
  destruct (scan_extends is_space to_lower text_tags attr_prefix (fun _ => true) (fun _ _ _ _ => eq_refl)
              _ (co ++ end_text n) init T p' E toks Hfin) as [rr Hrr].
  exists T, rr, A, K. cbn [init s_toks rev app] in Hrr. auto 10.
Qed.

(* the same for a token that comes from a scanned source: no side condition beyond non-empty names of the kept
   plain attributes *)
Corollary dyn_element_render_readback_scanned :
  forall is_space to_lower is_letter is_udigit methods call_fn mgr text_tags attr_prefix compile src stoks
         fuel mask ctx n tok sc top t st values lg co t2 st2 out res t' st',
  let scan := Scan.scan is_space to_lower text_tags attr_prefix (fun _ => true) in
  let dyns := dyns_of mgr (t_attrs tok) in
  let statics := statics_of mgr (t_attrs tok) in
  is_space cSP = true -> is_space cGT = false -> is_space cEQ = false -> is_space cDQ = false -> is_space cLT = false ->
  (forall c, to_lower c = cSLASH -> c = cSLASH) ->
  Scan.scan is_space to_lower text_tags attr_prefix compile src = inl stoks -> In tok stoks -> t_attrs tok <> [] ->
  (forall s, In s (kept mgr dyns statics) -> a_name s <> []) ->
  dyn_elem to_lower mgr n tok -> no_plain_directive_name mgr (t_attrs tok) ->
  eval_dyns is_letter is_udigit methods call_fn mgr dyns sc (r_log st) = (inl values, lg) ->
  exec_list (exec_node is_space to_lower is_letter is_udigit methods call_fn mgr fuel)
            (n_children n) (n_children n) sc top t (set_log st lg) = (co, ROk, t2, st2) ->
  wok top st -> wok top st2 ->
  exec_node is_space to_lower is_letter is_udigit methods call_fn mgr (S fuel) mask ctx n sc top t st = (out, res, t', st') ->
  res = ROk /\
  forall toks, scan out = inl toks ->
    exists T rr A K,
      toks = T :: rr /\ t_kind T = KTag /\ t_name T = t_name tok /\ t_attrs T = A ++ K /\
      Forall2 (reads_back mgr) A (combine dyns values) /\
      map ashape K = map ashape (kept mgr dyns statics).
Proof.
  intros is_space to_lower is_letter is_udigit methods call_fn mgr text_tags attr_prefix compile src stoks
         fuel mask ctx n tok sc top t st values lg co t2 st2 out res t' st' scan dyns statics
         Hsp Hgt Heq Hdq Hlt Hsl Hsrc Hin Hattrs Hnames He Hnp Hev Hch Hw Hw2 Hex.
  assert (Hpr : printable is_space attr_prefix mgr (t_name tok) statics dyns).
  { apply (printable_of_scan is_space to_lower text_tags attr_prefix mgr Hsp Hgt Heq Hdq Hlt Hsl compile src stoks tok Hsrc Hin);
      [exact (proj1 (proj2 He))|exact Hattrs|exact Hnames]. }
  destruct (dyn_element_render_readback is_space to_lower is_letter is_udigit methods call_fn mgr text_tags attr_prefix
              fuel mask ctx n tok sc top t st values lg co t2 st2 out res t' st'
              Hsp Hgt Heq Hdq He Hnp Hpr Hev Hch Hw Hw2 Hex) as (H1 & _ & H3).
  split; [exact H1|exact H3].
Qed.

(* ------------------------------------------------------------------------------------------ *)
(* (7) non-vacuity:  a href=Q#Q id=QkQ :href=Q${url}Q class=QcQ ,  url = a Q b LT c SQ GT AMP  *)
(* ------------------------------------------------------------------------------------------ *)
Definition src_a : str := s2l "<a href=""#"" id=""k"" :href=""${url}"" class=""c"">t</a>".
Definition v_url2 : str := s2l "a""b<c'>&".
Definition sc_url2 : scope := SData (VMap [(s2l "url", VStr v_url2)]).
Notation a_dyns := (dyns_of bx_mgr (t_attrs (tok_of n_a))).
Notation a_statics := (statics_of bx_mgr (t_attrs (tok_of n_a))).

Lemma bx_sp : bx_space cSP = true. Proof. reflexivity. Qed.
Lemma bx_gt : bx_space cGT = false. Proof. reflexivity. Qed.
Lemma bx_eq : bx_space cEQ = false. Proof. reflexivity. Qed.
Lemma bx_dq : bx_space cDQ = false. Proof. reflexivity. Qed.
Lemma bx_lt : bx_space cLT = false. Proof. reflexivity. Qed.
Lemma bx_sl : forall c, bx_lower c = cSLASH -> c = cSLASH. Proof. intros c H. exact H. Qed.

(* the token of the element is a token of the scanned source (the scanner of the pipeline, with its compiler) *)
Lemma a_scanned : exists stoks,
  Scan.scan bx_space bx_lower bx_tags [58] (Pipeline.compile_attr [58] bx_pok) src_a = inl stoks /\ In (tok_of n_a) stoks.
Proof. eexists. split; [vm_compute; reflexivity|]. vm_compute. left. reflexivity. Qed.
Lemma a_kept_named : forall s, In s (kept bx_mgr a_dyns a_statics) -> a_name s <> [].
Proof.
  assert (Hall : forallb (fun s => negb (str_eqb (a_name s) [])) (kept bx_mgr a_dyns a_statics) = true)
    by (vm_compute; reflexivity).
  intros s Hs E. rewrite forallb_forall in Hall. specialize (Hall s Hs). rewrite E in Hall. discriminate Hall.
Qed.
Lemma a_tag : t_kind (tok_of n_a) = KTag. Proof. vm_compute. reflexivity. Qed.
Lemma a_has_attrs : t_attrs (tok_of n_a) <> []. Proof. vm_compute. discriminate. Qed.
(* the side conditions, DERIVED from the scan of the source *)
Lemma a_printable : printable bx_space [58] bx_mgr (t_name (tok_of n_a)) a_statics a_dyns.
Proof.
  destruct a_scanned as (stoks & Hs & Hin).
  exact (printable_of_scan bx_space bx_lower bx_tags [58] bx_mgr bx_sp bx_gt bx_eq bx_dq bx_lt bx_sl
           (Pipeline.compile_attr [58] bx_pok) src_a stoks (tok_of n_a) Hs Hin a_tag a_has_attrs a_kept_named).
Qed.
Lemma a_values2 : exists lg,
  eval_dyns bx_letter bx_digit bx_methods bx_call bx_mgr a_dyns sc_url2 [] = (inl [v_url2], lg).
Proof. eexists. vm_compute. reflexivity. Qed.

(* closed facts about the element, by computation *)
Lemma a_name_eq : t_name (tok_of n_a) = s2l "a". Proof. vm_compute. reflexivity. Qed.
Lemma a_dname_eq : dname bx_mgr (dir_of n_a) = s2l "href". Proof. vm_compute. reflexivity. Qed.
Lemma a_comb_eq : combine a_dyns [v_url2] = [(dir_of n_a, v_url2)]. Proof. vm_compute. reflexivity. Qed.
Lemma a_kept_eq : map ashape (kept bx_mgr a_dyns a_statics) = [(s2l "id", Some (s2l """k""")); (s2l "class", Some (s2l """c"""))].
Proof. vm_compute. reflexivity. Qed.

(* (5) the main theorem on this element: whatever the scanner returns on the rendered element, its first token
   is the tag  a  with ONE href whose quoted raw value unescapes to the url, then id and class as written *)
Example a2_render_readback : forall out res t' st' toks,
  bx_node 5 0 [n_a] n_a sc_url2 true [] st0 = (out, res, t', st') -> bx_scan out = inl toks ->
  res = ROk /\
  exists T rr A K x,
    toks = T :: rr /\ t_kind T = KTag /\ t_name T = s2l "a" /\ t_attrs T = A :: K /\
    a_name A = s2l "href" /\ a_value A = Some (cDQ :: x ++ [cDQ]) /\ unescape5 x = v_url2 /\
    map ashape K = [(s2l "id", Some (s2l """k""")); (s2l "class", Some (s2l """c"""))].
Proof.
  intros out res t' st' toks Hex Hscan. destruct a_values2 as [lg Hev].
  assert (Hch : exec_list (bx_node 4) (n_children n_a) (n_children n_a) sc_url2 true [] (set_log st0 lg)
                = (s2l "t", ROk, [], set_log st0 lg)) by (vm_compute; reflexivity).
  destruct (dyn_element_render_readback bx_space bx_lower bx_letter bx_digit bx_methods bx_call bx_mgr bx_tags [58]
              4 0 [n_a] n_a (tok_of n_a) sc_url2 true [] st0 [v_url2] lg (s2l "t") [] (set_log st0 lg) out res t' st'
              bx_sp bx_gt bx_eq bx_dq n_a_elem n_a_names a_printable Hev Hch (or_intror eq_refl) (or_intror eq_refl) Hex)
    as (Hres & _ & Hrb).
  split; [exact Hres|].
  destruct (Hrb toks Hscan) as (T & rr & A & K & Ht & Hk & Hn & Ha & HF & HK).
  rewrite a_comb_eq in HF. destruct (Forall2_one _ _ _ _ _ HF) as (a & EA & Hab). subst A.
  destruct (reads_back_pair _ _ _ _ Hab) as [Hnm (x & Hv & _ & Hx)].
  rewrite a_name_eq in Hn. rewrite a_dname_eq in Hnm. rewrite a_kept_eq in HK.
  exists T, rr, a, K, x. auto 10.
Qed.

(* the scanner-only statement on the same tag: the open tag alone is one token *)
Example a2_open_readback : exists T A K,
  bx_scan (spec_open_tag bx_mgr (t_name (tok_of n_a)) a_statics a_dyns [v_url2]) = inl [T] /\
  t_kind T = KTag /\ t_name T = t_name (tok_of n_a) /\ t_attrs T = A ++ K /\
  Forall2 (reads_back bx_mgr) A (combine a_dyns [v_url2]) /\ map ashape K = map ashape (kept bx_mgr a_dyns a_statics).
Proof.
  apply (dyn_render_readback_alone bx_space bx_lower bx_tags [58] (fun _ => true) bx_mgr bx_sp bx_gt bx_eq bx_dq).
  - exact a_printable.
  - reflexivity.
  - apply ccl_true.
Qed.

(* and the models run directly agree *)
Example a2_computed :
  fst (fst (bx_node 5 0 [n_a] n_a sc_url2 true [] st0))
    = (s2l "<a href=""a&#34;b&lt;c&#39;&gt;&amp;"" id=""k"" class=""c"">t</a>", ROk) /\
  match bx_scan (s2l "<a href=""a&#34;b&lt;c&#39;&gt;&amp;"" id=""k"" class=""c"">t</a>") with
  | inl (T :: _) => map ashape (t_attrs T)
                    = [(s2l "href", Some (cDQ :: escape v_url2 ++ [cDQ])); (s2l "id", Some (s2l """k"""));
                       (s2l "class", Some (s2l """c"""))] /\ unescape5 (escape v_url2) = v_url2
  | _ => False
  end.
Proof. split; [vm_compute; reflexivity|]. vm_compute. split; reflexivity. Qed.

(* ------------------------------------------------------------------------------------------ *)
(* (8) hostile values, by computation: the scanner model on the printed open tag               *)
(* ------------------------------------------------------------------------------------------ *)
Definition a_open (v : str) : str := spec_open_tag bx_mgr (t_name (tok_of n_a)) a_statics a_dyns [v].
(* the shapes of the single token read on the open tag *)
Definition a_read (v : str) : option (str * list ash) :=
  match bx_scan (a_open v) with
  | inl [T] => Some (t_name T, map ashape (t_attrs T))
  | _ => None
  end.
Definition hostile : list str :=
  [ s2l "a""b<c"; s2l "' onmouseover='x"; s2l """ onmouseover=""x"; s2l ">"; s2l "&amp;"; s2l "&#34;"; [];
    [97; 10; 98; 9; 99]; [233; 128512]; [32]; s2l "a""b<c'>&" ].
Example hostile_values_computed :
  forallb (fun v => match a_read v with
                    | Some (nm, [(h, Some (q1 :: xq)); (i, Some iv); (c, Some cv)]) =>
                        str_eqb nm (s2l "a") && str_eqb h (s2l "href") && str_eqb i (s2l "id") && str_eqb c (s2l "class")
                        && N.eqb q1 cDQ && str_eqb xq (escape v ++ [cDQ]) && str_eqb (unescape5 (escape v)) v
                        && str_eqb iv (s2l """k""") && str_eqb cv (s2l """c""")
                    | _ => false
                    end) hostile = true.
Proof. vm_compute. reflexivity. Qed.
(* the empty string: printed  href=QQ , read as the raw value QQ (content empty), NOT as a value-less attribute *)
Example empty_value_observed :
  a_open [] = s2l "<a href="""" id=""k"" class=""c"">" /\
  a_read [] = Some (s2l "a", [(s2l "href", Some [cDQ; cDQ]); (s2l "id", Some (s2l """k""")); (s2l "class", Some (s2l """c"""))]).
Proof. split; vm_compute; reflexivity. Qed.

(* OBSERVED, excluded by the hypothesis on names:  p a :b=Q${url}Q =y  (the scanner gives the third attribute an
   empty name and the value y).  The render moves b in front:  p b=Q..Q a =y , which reads back as a=y: the
   value-less a and the nameless =y have merged.  The same happens for every value of url. *)
Definition n_q : node := elem "<p a :b=""${url}"" =y>t</p>".
Example empty_name_static_observed :
  map ashape (t_attrs (tok_of n_q)) = [(s2l "a", None); (s2l ":b", Some (s2l """${url}""")); ([], Some (s2l "y"))] /\
  fst (run_src "<p a :b=""${url}"" =y>t</p>") = s2l "<p b=""a&#34;b&lt;c"" a =y>t</p>" /\
  match bx_scan (s2l "<p b=""a&#34;b&lt;c"" a =y>t</p>") with
  | inl (T :: _) => map ashape (t_attrs T) = [(s2l "b", Some (s2l """a&#34;b&lt;c""")); (s2l "a", Some (s2l "y"))]
  | _ => False
  end.
Proof. split; [vm_compute; reflexivity|]. split; vm_compute; reflexivity. Qed.
(* a dynamic attribute whose name is the prefix alone prints an attribute with an EMPTY name; covered by the theorems *)
Example empty_dynamic_name_observed :
  fst (run_src "<p :=""${url}"" a=1>t</p>") = s2l "<p =""a&#34;b&lt;c"" a=1>t</p>" /\
  match bx_scan (s2l "<p =""a&#34;b&lt;c"" a=1>t</p>") with
  | inl (T :: _) => map ashape (t_attrs T) = [([], Some (s2l """a&#34;b&lt;c""")); (s2l "a", Some (s2l "1"))]
  | _ => False
  end.
Proof. split; vm_compute; reflexivity. Qed.

Print Assumptions dyn_open_scan.
Print Assumptions dyn_render_readback.
Print Assumptions dyn_render_readback_alone.
Print Assumptions dyn_structure_invariant.
Print Assumptions dyn_structure_invariant_doc.
Print Assumptions printable_of_scan.
Print Assumptions dyn_element_render_readback.
Print Assumptions dyn_element_render_readback_scanned.
Print Assumptions a2_render_readback.
Print Assumptions a2_open_readback.
