(* C02 read-back, non-vacuity: the theorems of Proofs/Readback.v on
     <p id=k :text=QUOTE${x}QUOTE>old</p>   with x = a<b&'cQUOTE    (text position; QUOTE = the double quote)
     <p a=QUOTE...QUOTE b>t</p>                                     (attribute value)
   The hypotheses (after_tag / attr_ctx) are discharged by computation, the conclusions are compared with
   the token lists the scanner model computes. *)
From Coq Require Import List NArith ZArith Bool Lia String Ascii.
From Tpl Require Import Html.Exec Html.Manager Proofs.ExecSpec Proofs.EscapeProps Proofs.PrintScanDefs Proofs.HoleSim
  Proofs.HoleInvariant Proofs.RenderPlain Proofs.ChainWith Proofs.RemoveModes Proofs.Readback.
Import ListNotations.
Open Scope N_scope.

Fixpoint s2l (s : string) : str := match s with EmptyString => [] | String a r => N_of_ascii a :: s2l r end.
Definition bx_space (r : rune) : bool := N.eqb r 32 || N.eqb r 10.
Definition bx_lower (r : rune) : rune := r.
Definition bx_letter (r : rune) : bool := (97 <=? r) && (r <=? 122).
Definition bx_digit (_ : rune) : bool := false.
Definition bx_methods (_ : N) (_ : bool) : list (str * N) := [].
Definition bx_call (_ : N) (_ : list value) : fres := FPanic.
Definition bx_mgr : manager := mkM [116; 58] [58] [] (SData (VMap [])).
Definition bx_pok (_ : pos) (s : str) : bool := match parse_code bx_letter bx_digit s with Some _ => true | None => false end.
Definition bx_tags : list str := [s2l "script"; s2l "style"].

Definition elem (s : string) : node :=
  match load bx_space bx_lower bx_tags [] [58] bx_pok (s2l s) with
  | inl (Node _ _ [n] _) => n
  | _ => Node 0 None [] None
  end.
Definition tok_of (n : node) : token := match n_tok n with Some t => t | None => mkTok KText [] (0,0) (0,0) [] [] end.
Definition dir_of (n : node) : attr :=
  match filter (pref [58]) (t_attrs (tok_of n)) with a :: _ => a | [] => mkAttr [] (0,0) (0,0) None (0,0) (0,0) end.

Definition n_p : node := elem "<p id=k :text=""${x}"">old</p>".
Definition v_x : str := s2l "a<b&'c""".
Definition sc_x : scope := SData (VMap [(s2l "x", VStr v_x)]).
Definition st0 : rst := mkR [] None.
Notation bx_node := (exec_node bx_space bx_lower bx_letter bx_digit bx_methods bx_call bx_mgr).
Notation bx_scan := (Scan.scan bx_space bx_lower bx_tags [58] (fun _ => true)).
Notation bx_run := (@fold_left sstate rune (Scan.step bx_space bx_lower bx_tags [58] (fun _ => true))).

Lemma n_p_single : single_dir bx_lower bx_mgr d_text n_p (tok_of n_p) (dir_of n_p).
Proof.
  assert (H1 : n_tok n_p = Some (tok_of n_p)) by (vm_compute; reflexivity).
  assert (H2 : t_kind (tok_of n_p) = KTag) by (vm_compute; reflexivity).
  assert (H3 : a_name (dir_of n_p) = m_attr_prefix bx_mgr ++ d_text) by (vm_compute; reflexivity).
  assert (H4 : filter (pref (m_attr_prefix bx_mgr)) (t_attrs (tok_of n_p)) = [dir_of n_p]) by (vm_compute; reflexivity).
  assert (H5 : str_eqb (block_key bx_lower (t_name (tok_of n_p))) (m_tag_prefix bx_mgr ++ d_block) = false) by (vm_compute; reflexivity).
  exact (conj H1 (conj H2 (conj H3 (conj H4 H5)))).
Qed.

Lemma n_p_eval : exists lg, attr_evaluate bx_letter bx_digit bx_methods bx_call bx_mgr (dir_of n_p) sc_x [] = (AOk v_x, lg).
Proof. eexists. vm_compute. reflexivity. Qed.

Lemma bx_node_S : forall f mask ctx n sc top t st,
  bx_node (S f) mask ctx n sc top t st
  = exec_body bx_space bx_lower bx_letter bx_digit bx_methods bx_call bx_mgr (bx_node f) mask ctx n sc top t st.
Proof. reflexivity. Qed.

(* B9: the render, by the theorem *)
Example p_render : exists lg,
  bx_node 5 0 [n_p] n_p sc_x true [] st0 = (s2l "<p id=k>a&lt;b&amp;&#39;c&#34;</p>", ROk, [], set_log st0 lg).
Proof.
  destruct n_p_eval as [lg Hev]. exists lg. rewrite (bx_node_S 4).
  rewrite (text_only_exec bx_space bx_lower bx_letter bx_digit bx_methods bx_call bx_mgr (bx_node 4) 0 [n_p] n_p
             (tok_of n_p) (dir_of n_p) sc_x true [] st0 v_x lg n_p_single (or_intror eq_refl) Hev).
  assert (Ho : open_tag bx_mgr d_text (tok_of n_p) ++ escape v_x ++ end_text n_p = s2l "<p id=k>a&lt;b&amp;&#39;c&#34;</p>")
    by (vm_compute; reflexivity).
  rewrite Ho. reflexivity.
Qed.

(* B9 + B7: the output, tokenised again, has one text token that unescapes to the value *)
Example p_readback : forall out res t' st' toks,
  bx_node 5 0 [n_p] n_p sc_x true [] st0 = (out, res, t', st') -> bx_scan out = inl toks ->
  res = ROk /\
  exists l x st1 en1 rr, bx_scan (s2l "<p id=k>") = inl l /\ toks = l ++ mkTok KText x st1 en1 [] [] :: rr /\ unescape5 x = v_x.
Proof.
  intros out res t' st' toks Hex Hscan. destruct n_p_eval as [lg Hev]. rewrite (bx_node_S 4) in Hex.
  assert (Hv : v_x <> []) by discriminate.
  assert (Hafter : after_tag bx_lower bx_tags (bx_run (open_tag bx_mgr d_text (tok_of n_p)) init)).
  { split; vm_compute; reflexivity. }
  assert (Hend : exists rest, end_text n_p = cLT :: rest) by (eexists; vm_compute; reflexivity).
  destruct (text_render_readback bx_space bx_lower bx_letter bx_digit bx_methods bx_call bx_mgr (bx_node 4) bx_tags [58]
              0 [n_p] n_p (tok_of n_p) (dir_of n_p) sc_x true [] st0 v_x lg out res t' st'
              n_p_single (or_intror eq_refl) Hev Hv Hex Hafter Hend toks Hscan) as [Hres H].
  split; [exact Hres|].
  assert (Hopen : open_tag bx_mgr d_text (tok_of n_p) = s2l "<p id=k>") by (vm_compute; reflexivity).
  rewrite Hopen in H. exact H.
Qed.

(* what the scanner model computes on that output: three tokens, the text value is the escaped string *)
Example p_readback_computed :
  match bx_scan (s2l "<p id=k>a&lt;b&amp;&#39;c&#34;</p>") with
  | inl toks => map t_kind toks = [KTag; KText; KTag] /\ map t_value (filter is_text_tok toks) = [escape v_x] /\
                unescape5 (escape v_x) = v_x
  | inr _ => False
  end.
Proof. vm_compute. repeat split. Qed.

(* a raw-text element: the hypothesis after_tag fails (and so does the property: the consumer does not unescape there) *)
Example after_tag_fails_in_script : ~ after_tag bx_lower bx_tags (bx_run (s2l "<script>") init).
Proof. intros [_ H]. vm_compute in H. discriminate H. Qed.

(* B8:  <p a=QUOTE | escape v | QUOTE b>t</p> *)
Definition a_pre : str := s2l "<p a=""".
Definition a_post : str := s2l """ b>t</p>".
Example a_ctx : attr_ctx cDQ (bx_run a_pre init) /\ hole_aval0 (bx_run a_pre init) = [cDQ].
Proof. split; [split; [reflexivity|]|vm_compute; reflexivity]. eexists. eexists. split; [vm_compute; reflexivity|]. split; reflexivity. Qed.

Example a_readback : forall v toks, bx_scan (a_pre ++ escape v ++ a_post) = inl toks ->
  exists T r A ra x, toks = T :: r /\ t_kind T = KTag /\ t_name T = s2l "p" /\ t_attrs T = A :: ra /\
    a_name A = s2l "a" /\ a_value A = Some (cDQ :: x ++ [cDQ]) /\ unescape5 x = v.
Proof.
  intros v toks Hscan.
  destruct (attr_readback_nocompile bx_space bx_lower bx_tags [58] cDQ a_pre a_post v (proj1 a_ctx) (proj2 a_ctx)
              (ex_intro _ _ eq_refl) toks Hscan) as (l & T & r & A & ra & x & H1 & H2 & H3 & H4 & H5 & H6 & H7 & _ & H9).
  assert (Hl : rev (s_toks (bx_run a_pre init)) = []) by (vm_compute; reflexivity).
  assert (Hn : hole_tname (bx_run a_pre init) = s2l "p") by (vm_compute; reflexivity).
  assert (Ha : hole_attrs0 (bx_run a_pre init) = []) by (vm_compute; reflexivity).
  assert (Han : hole_aname (bx_run a_pre init) = s2l "a") by (vm_compute; reflexivity).
  rewrite Hl in H2. subst l. rewrite Hn in H4. rewrite Ha in H5. rewrite Han in H6.
  exists T, r, A, ra, x. auto 10.
Qed.

Example a_readback_computed :
  match bx_scan (a_pre ++ escape v_x ++ a_post) with
  | inl toks => map (fun t => map a_value (t_attrs t)) toks = [[Some (cDQ :: escape v_x ++ [cDQ]); None]; []; []]
  | inr _ => False
  end.
Proof. vm_compute. reflexivity. Qed.

Print Assumptions p_readback.
Print Assumptions a_readback.
