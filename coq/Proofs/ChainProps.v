(* C03: if / else-if / else chains of sibling elements (Html/Exec.v).
   (a) one-step lemmas about eval_cond / cond_owner,
   (b) a chain element in isolation (cond_only_exec) and gap nodes (gap_exec),
   (c) the chain theorem chain_exec: exec_list over a chain = chain_spec, an executable
       specification that carries one boolean ("chain already satisfied") and never reads the
       condition table; corollaries chain_at_most_one_rendered, chain_none_rendered,
       chain_selected_fails, chain_eval_fails, chain_no_eval_after_selected, selected_final_table,
       none_final_table, chain_initial_table_irrelevant, chain_broken_by_tag, else_without_chain.
   Sections Chain/Step are proved for an ARBITRARY recursive call [exec].  The chain theorem needs ONE
   fact about it (keeps_own): the nested render of the selected element hands back a table whose
   entry for that element is still "true" -- the next chain element reads exactly this entry, so
   without it the property is false.  Section Touch proves that the renderer itself (exec_node f,
   any fuel) has this property (exec_node_touch: an invocation writes only its own entry and
   entries of strict descendants), giving chain_exec_node without assumptions on nested renders.
   Remarks on the model:
   - the condition attribute is NOT always first in sorted_attrs (a plain attribute named "with"
     placed right after it is sorted before it); only membership is used, plain attributes before
     it only touch the tag buffer, which is discarded (np = true);
   - an unselected chain element still performs one Write call with empty data (wr top []), which
     matters only for a top-level writer with a budget;
   - m_attr_prefix mgr <> [] is not needed anywhere. *)
From Tpl Require Import Html.Exec.
From Coq Require Import Lia.
Open Scope N_scope.

(* ------------------------------------------------------------------------------------------ *)
(* strings, tables, sequencing                                                                 *)
(* ------------------------------------------------------------------------------------------ *)
Lemma seqb_refl : forall s, str_eqb s s = true.
Proof. induction s as [|c s IH]; [reflexivity|]. cbn [str_eqb]. rewrite N.eqb_refl. exact IH. Qed.

Lemma seqb_eq : forall a b, str_eqb a b = true -> a = b.
Proof.
  induction a as [|x a IH]; intros [|y b] H; cbn [str_eqb] in H; try discriminate; [reflexivity|].
  apply andb_true_iff in H. destruct H as [H1 H2]. apply N.eqb_eq in H1. apply IH in H2. subst. reflexivity.
Qed.

Lemma seqb_neq : forall a b, a <> b -> str_eqb a b = false.
Proof. intros a b H. destruct (str_eqb a b) eqn:E; [|reflexivity]. apply seqb_eq in E. contradiction. Qed.

Lemma prefixb_app : forall p s, prefixb p (p ++ s) = true.
Proof. induction p as [|x p IH]; intros s; [reflexivity|]. cbn [prefixb app]. rewrite N.eqb_refl. apply IH. Qed.

Lemma skipn_app_len : forall (p s : str), skipn (length p) (p ++ s) = s.
Proof. induction p as [|x p IH]; intros s; [reflexivity|]. cbn [length app skipn]. apply IH. Qed.

Lemma cond_name_in : forall c, is_cond_name c = true -> In c cond_names.
Proof.
  intros c H. unfold is_cond_name in H. apply existsb_exists in H. destruct H as [x [Hin Hx]].
  apply seqb_eq in Hx. subst. exact Hin.
Qed.

Lemma cond_name_not_with : forall c, is_cond_name c = true -> str_eqb c d_with = false.
Proof.
  intros c H. apply cond_name_in in H. unfold cond_names in H. cbn [In] in H.
  destruct H as [H|[H|[H|[H|[H|[]]]]]]; subst c; reflexivity.
Qed.

Lemma tbl_get_set_same : forall t k b, tbl_get (tbl_set t k b) k = Some b.
Proof. intros t k b. unfold tbl_get, tbl_set. cbn [find fst snd]. rewrite N.eqb_refl. reflexivity. Qed.

Lemma tbl_get_set_other : forall t k k' b, k' <> k -> tbl_get (tbl_set t k b) k' = tbl_get t k'.
Proof.
  intros t k k' b Hne. unfold tbl_get, tbl_set. cbn [find fst snd].
  assert (Hkk : N.eqb k k' = false) by (apply N.eqb_neq; intro; subst; contradiction).
  rewrite Hkk.
  assert (Hf : find (fun kv : N * bool => N.eqb (fst kv) k')
                 (filter (fun kv : N * bool => negb (N.eqb (fst kv) k)) t)
               = find (fun kv : N * bool => N.eqb (fst kv) k') t).
  { induction t as [|[k0 b0] t IH]; [reflexivity|]. cbn [filter find fst].
    destruct (N.eqb k0 k) eqn:E0; cbn [negb].
    - apply N.eqb_eq in E0. subst k0. rewrite Hkk. exact IH.
    - cbn [find fst]. destruct (N.eqb k0 k'); [reflexivity|exact IH]. }
  rewrite Hf. reflexivity.
Qed.

Lemma seq2_wr_nop : forall top s t st (f : tbl -> rst -> R),
  (forall t2 st2, f t2 st2 = ([], ROk, t2, st2)) -> seq2 (wr top s t st) f = wr top s t st.
Proof.
  intros top s t st f Hf. unfold wr. destruct (write top s st) as [[o r] st'].
  destruct r; cbn [seq2]; try reflexivity. rewrite Hf. rewrite app_nil_r. reflexivity.
Qed.

Lemma write_log : forall top s st o r st', write top s st = (o, r, st') -> r_log st' = r_log st.
Proof.
  intros top s st o r st' H. unfold write in H. destruct top.
  - destruct (r_budget st) as [[|k]|]; inversion H; subst; reflexivity.
  - inversion H; subst; reflexivity.
Qed.

(* ------------------------------------------------------------------------------------------ *)
(* Tag.SortedAttr keeps the attributes (membership)                                            *)
(* ------------------------------------------------------------------------------------------ *)
Lemma in_insert_sorted : forall p a l x, In x (insert_sorted p a l) <-> x = a \/ In x l.
Proof.
  intros p a l x. induction l as [|b l IH]; cbn [insert_sorted In].
  - intuition.
  - destruct (attr_less p (a_name a) (a_name b)); cbn [In]; rewrite ?IH; intuition.
Qed.

Lemma in_sorted_attrs : forall p l x, In x (sorted_attrs p l) <-> In x l.
Proof.
  intros p l x. unfold sorted_attrs. rewrite <- in_rev.
  assert (H : forall acc, In x (fold_left (fun acc a => insert_sorted p a acc) l acc) <-> In x l \/ In x acc).
  { induction l as [|a l IH]; intros acc; cbn [fold_left In].
    - intuition.
    - rewrite IH, in_insert_sorted. intuition. }
  rewrite H. cbn [In]. intuition.
Qed.

Lemma split_first_prefixed : forall p a (l : list attr),
  (forall b, In b l -> prefixb p (a_name b) = true -> b = a) -> In a l -> prefixb p (a_name a) = true ->
  exists l1 l2, l = l1 ++ a :: l2 /\ Forall (fun b => prefixb p (a_name b) = false) l1.
Proof.
  intros p a l. induction l as [|x l IH]; intros Huniq Hin Hpa; [destruct Hin|].
  destruct (prefixb p (a_name x)) eqn:Ex.
  - assert (x = a) by (apply Huniq; [left; reflexivity|exact Ex]). subst x.
    exists [], l. split; [reflexivity|constructor].
  - destruct Hin as [Hin|Hin]; [subst x; rewrite Hpa in Ex; discriminate|].
    destruct IH as [l1 [l2 [Hl HF]]]; [intros b Hb; apply Huniq; right; exact Hb|exact Hin|exact Hpa|].
    exists (x :: l1), l2. split; [rewrite Hl; reflexivity|constructor; assumption].
Qed.

(* ------------------------------------------------------------------------------------------ *)
Section Chain.
Variable is_space : rune -> bool.
Variable to_lower : rune -> rune.
Variable is_letter : rune -> bool.
Variable is_udigit : rune -> bool.
Variable methods : N -> bool -> list (str * N).
Variable call_fn : N -> list value -> fres.
Variable mgr : manager.
Variable exec : N -> list node -> node -> scope -> bool -> tbl -> rst -> R.

Notation aeval := (attr_evaluate is_letter is_udigit methods call_fn mgr).
Notation econd := (eval_cond is_letter is_udigit methods call_fn mgr exec).
Notation cowner := (cond_owner is_letter is_udigit methods call_fn mgr exec).
Notation astep := (attr_step is_space is_letter is_udigit methods call_fn mgr exec).
Notation rattrs := (run_attrs is_space is_letter is_udigit methods call_fn mgr exec).
Notation rchild := (run_child is_space is_letter is_udigit methods call_fn mgr exec).
Notation etag := (exec_tag is_space to_lower is_letter is_udigit methods call_fn mgr exec).
Notation ebody := (exec_body is_space to_lower is_letter is_udigit methods call_fn mgr exec).
Notation ilstate := (init_lstate to_lower mgr).

(* ------------------------------------------------------------------------------------------ *)
(* (a) one-step lemmas                                                                         *)
(* ------------------------------------------------------------------------------------------ *)
Lemma cond_true : forall mask ctx n a ls t st s lg,
  aeval a (l_sc ls) (r_log st) = (AOk s, lg) -> str_eqb s s_true = true ->
  econd mask ctx n a ls t st =
    match exec (N.lor mask 1) ctx n (l_sc ls) false (tbl_set t (n_id n) true) (set_log st lg) with
    | (o, ROk, t2, st2) => (inl (add_direct (set_child ls CNop) o), t2, st2)
    | (_, r, t2, st2) => (inr r, t2, st2)
    end.
Proof. intros mask ctx n a ls t st s lg H1 H2. unfold eval_cond. rewrite H1, H2. reflexivity. Qed.

Lemma cond_not_true : forall mask ctx n a ls t st s lg,
  aeval a (l_sc ls) (r_log st) = (AOk s, lg) -> str_eqb s s_true = false ->
  econd mask ctx n a ls t st = (inl (set_child ls CNop), tbl_set t (n_id n) false, set_log st lg).
Proof. intros mask ctx n a ls t st s lg H1 H2. unfold eval_cond. rewrite H1, H2. reflexivity. Qed.

Lemma cond_eval_error : forall mask ctx n a ls t st c lg,
  aeval a (l_sc ls) (r_log st) = (AErr c, lg) ->
  econd mask ctx n a ls t st = (inr (RErr c), t, set_log st lg).
Proof. intros mask ctx n a ls t st c lg H1. unfold eval_cond. rewrite H1. reflexivity. Qed.

Lemma cond_eval_unmodelled : forall mask ctx n a ls t st lg,
  aeval a (l_sc ls) (r_log st) = (AUnm, lg) ->
  econd mask ctx n a ls t st = (inr RUnmodelled, t, set_log st lg).
Proof. intros mask ctx n a ls t st lg H1. unfold eval_cond. rewrite H1. reflexivity. Qed.

Lemma if_owner : forall mask ctx n a ls t st,
  cowner mask ctx n a d_if ls t st = econd mask ctx n a ls t st.
Proof. intros. unfold cond_owner. rewrite seqb_refl. reflexivity. Qed.

Lemma else_after_selected : forall mask ctx n a cmd ls t st p, str_eqb cmd d_if = false ->
  prev_tag ctx (n_id n) None = Some p -> tbl_get t (n_id p) = Some true ->
  cowner mask ctx n a cmd ls t st = (inl (set_child ls CNop), tbl_set t (n_id n) true, st).
Proof. intros mask ctx n a cmd ls t st p H1 H2 H3. unfold cond_owner. rewrite H1, H2, H3. reflexivity. Qed.

Lemma else_after_unselected : forall mask ctx n a cmd ls t st p, str_eqb cmd d_if = false ->
  prev_tag ctx (n_id n) None = Some p -> tbl_get t (n_id p) = Some false ->
  cowner mask ctx n a cmd ls t st = econd mask ctx n a ls t st.
Proof. intros mask ctx n a cmd ls t st p H1 H2 H3. unfold cond_owner. rewrite H1, H2, H3. reflexivity. Qed.

Lemma else_orphan : forall mask ctx n a cmd ls t st, str_eqb cmd d_if = false ->
  (prev_tag ctx (n_id n) None = None \/
   exists p, prev_tag ctx (n_id n) None = Some p /\ tbl_get t (n_id p) = None) ->
  cowner mask ctx n a cmd ls t st = (inr (RErr RSyntax), t, st).
Proof.
  intros mask ctx n a cmd ls t st H1 [H2|[p [H2 H3]]]; unfold cond_owner; rewrite H1, H2; [|rewrite H3]; reflexivity.
Qed.

(* ------------------------------------------------------------------------------------------ *)
(* (b) a chain element in isolation                                                            *)
(* ------------------------------------------------------------------------------------------ *)
(* a tag node whose ONLY directive attribute is the condition a (command cmd); all other
   attributes are plain; not a block tag *)
Definition cond_only (n : node) (tok : token) (a : attr) (cmd : str) : Prop :=
  n_tok n = Some tok /\ t_kind tok = KTag /\ In a (t_attrs tok) /\ a_name a = m_attr_prefix mgr ++ cmd /\
  is_cond_name cmd = true /\ a_value a <> None /\
  (forall b, In b (t_attrs tok) -> prefixb (m_attr_prefix mgr) (a_name b) = true -> b = a) /\
  str_eqb (block_key to_lower (t_name tok)) (m_tag_prefix mgr ++ d_block) = false.

Definition set_tagbuf (ls : lstate) (tb : str) : lstate :=
  mkL (l_sc ls) (l_np ls) (l_child ls) tb (l_content ls) (l_direct ls) (l_replace ls).

(* plain attributes only touch the tag buffer *)
Lemma run_attrs_plain : forall mask ctx n attrs l1 l2 t st,
  Forall (fun b => prefixb (m_attr_prefix mgr) (a_name b) = false) l1 ->
  forall ls, exists tb, rattrs mask ctx n attrs (l1 ++ l2) ls t st = rattrs mask ctx n attrs l2 (set_tagbuf ls tb) t st.
Proof.
  intros mask ctx n attrs l1 l2 t st HF. induction HF as [|b l1 Hb HF IH]; intros ls.
  - exists (l_tagbuf ls). destruct ls; reflexivity.
  - cbn [app run_attrs].
    assert (Hown : is_owner mgr mask b = false).
    { unfold is_owner, prefix. rewrite Hb. reflexivity. }
    unfold attr_step. cbv zeta. unfold prefix. rewrite Hb.
    destruct (has_attr_named attrs (m_attr_prefix mgr ++ a_name b)); rewrite Hown.
    + apply IH.
    + match goal with |- context [rattrs _ _ _ _ (l1 ++ l2) ?x _ _] => destruct (IH x) as [tb Htb] end.
      exists tb. rewrite Htb. reflexivity.
Qed.

Lemma cond_owner_tagbuf : forall mask ctx n a cmd ls tb t st,
  cowner mask ctx n a cmd (set_tagbuf ls tb) t st =
    match cowner mask ctx n a cmd ls t st with
    | (inl ls', t', st') => (inl (set_tagbuf ls' tb), t', st')
    | (inr r, t', st') => (inr r, t', st')
    end.
Proof.
  intros mask ctx n a cmd ls tb t st. unfold cond_owner, eval_cond. cbn [l_sc set_tagbuf].
  destruct (str_eqb cmd d_if);
    [|destruct (match prev_tag ctx (n_id n) None with Some p => tbl_get t (n_id p) | None => None end) as [[|]|];
      try reflexivity];
    (destruct (aeval a (l_sc ls) (r_log st)) as [[s|c|] lg]; try reflexivity;
     destruct (str_eqb s s_true); try reflexivity;
     destruct (exec (N.lor mask 1) ctx n (l_sc ls) false (tbl_set t (n_id n) true) (set_log st lg)) as [[[o r] t2] st2];
     destruct r; reflexivity).
Qed.

(* the lstate a condition step hands back: only child (CNop) and the direct output change *)
Lemma cond_owner_ls : forall mask ctx n a cmd ls t st ls' t' st',
  cowner mask ctx n a cmd ls t st = (inl ls', t', st') ->
  l_np ls' = l_np ls /\ l_child ls' = CNop /\ l_sc ls' = l_sc ls.
Proof.
  intros mask ctx n a cmd ls t st ls' t' st'. unfold cond_owner, eval_cond.
  destruct (str_eqb cmd d_if);
    [|destruct (match prev_tag ctx (n_id n) None with Some p => tbl_get t (n_id p) | None => None end) as [[|]|];
      try (intros H; inversion H; subst; cbn; auto; fail)];
    (destruct (aeval a (l_sc ls) (r_log st)) as [[s|c|] lg]; try (intros H; inversion H; fail);
     destruct (str_eqb s s_true); try (intros H; inversion H; subst; cbn; auto; fail);
     destruct (exec (N.lor mask 1) ctx n (l_sc ls) false (tbl_set t (n_id n) true) (set_log st lg)) as [[[o r] t2] st2];
     destruct r; intros H; inversion H; subst; cbn; auto).
Qed.

Lemma attr_step_cond : forall mask ctx n attrs a cmd ls t st,
  a_name a = m_attr_prefix mgr ++ cmd -> is_cond_name cmd = true -> a_value a <> None -> N.land mask 1 = 0 ->
  astep mask ctx n attrs a ls t st = cowner mask ctx n a cmd ls t st.
Proof.
  intros mask ctx n attrs a cmd ls t st Hname Hcn Hv Hmask.
  unfold attr_step. cbv zeta. unfold prefix. rewrite Hname, prefixb_app, skipn_app_len.
  rewrite (cond_name_not_with cmd Hcn), Hcn.
  destruct (a_value a) as [v|]; [|contradiction]. rewrite Hmask. reflexivity.
Qed.

Lemma is_owner_cond : forall mask a cmd,
  a_name a = m_attr_prefix mgr ++ cmd -> is_cond_name cmd = true -> N.land mask 1 = 0 ->
  is_owner mgr mask a = true.
Proof.
  intros mask a cmd Hname Hcn Hmask. unfold is_owner. cbv zeta. unfold prefix.
  rewrite Hname, prefixb_app, skipn_app_len, Hcn, Hmask. reflexivity.
Qed.

Lemma init_lstate_cond : forall tok a cmd sc,
  In a (t_attrs tok) -> a_name a = m_attr_prefix mgr ++ cmd -> is_cond_name cmd = true ->
  str_eqb (block_key to_lower (t_name tok)) (m_tag_prefix mgr ++ d_block) = false ->
  l_np (ilstate 0 tok sc) = true /\ l_child (ilstate 0 tok sc) = CNop /\
  l_direct (ilstate 0 tok sc) = [] /\ l_sc (ilstate 0 tok sc) = sc.
Proof.
  intros tok a cmd sc Hin Hname Hcn Hblk.
  assert (Hex : existsb (has_dir mgr (t_attrs tok)) cond_names = true).
  { apply existsb_exists. exists cmd. split; [apply cond_name_in; exact Hcn|].
    unfold has_dir, has_attr_named, prefix. apply existsb_exists. exists a. split; [exact Hin|].
    rewrite Hname. apply seqb_refl. }
  unfold init_lstate. cbv zeta. cbn [l_np l_child l_direct l_sc]. rewrite Hex, Hblk.
  change (N.eqb (N.land 0 1) 0) with true.
  destruct (has_dir mgr (t_attrs tok) d_define), (has_dir mgr (t_attrs tok) d_replace),
    (has_dir mgr (t_attrs tok) d_range), (has_dir mgr (t_attrs tok) d_insert); cbn; auto.
Qed.

Lemma cond_only_exec : forall ctx n tok a cmd sc top t st,
  cond_only n tok a cmd ->
  ebody 0 ctx n sc top t st =
    match cowner 0 ctx n a cmd (ilstate 0 tok sc) t st with
    | (inl ls, t', st') => wr top (l_direct ls) t' st'
    | (inr r, t', st') => ([], r, t', st')
    end.
Proof.
  intros ctx n tok a cmd sc top t st (Htok & Hkind & Hin & Hname & Hcn & Hv & Huniq & Hblk).
  unfold exec_body. rewrite Htok, Hkind. unfold exec_tag, prefix.
  assert (Hpa : prefixb (m_attr_prefix mgr) (a_name a) = true) by (rewrite Hname; apply prefixb_app).
  destruct (split_first_prefixed (m_attr_prefix mgr) a (sorted_attrs (m_attr_prefix mgr) (t_attrs tok)))
    as [l1 [l2 [Hsplit HF]]].
  { intros b Hb. apply Huniq. apply in_sorted_attrs in Hb. exact Hb. }
  { apply in_sorted_attrs. exact Hin. }
  { exact Hpa. }
  rewrite Hsplit.
  destruct (run_attrs_plain 0 ctx n (t_attrs tok) l1 (a :: l2) t st HF (ilstate 0 tok sc)) as [tb Htb].
  rewrite Htb. cbn [run_attrs].
  rewrite (attr_step_cond 0 ctx n (t_attrs tok) a cmd _ t st Hname Hcn Hv eq_refl).
  rewrite (is_owner_cond 0 a cmd Hname Hcn eq_refl).
  rewrite cond_owner_tagbuf.
  destruct (init_lstate_cond tok a cmd sc Hin Hname Hcn Hblk) as (Hnp & _ & _ & _).
  destruct (cowner 0 ctx n a cmd (ilstate 0 tok sc) t st) as [[[ls'|r] t'] st'] eqn:Eco; [|reflexivity].
  destruct (cond_owner_ls _ _ _ _ _ _ _ _ _ _ _ Eco) as (Hnp' & Hch' & _).
  rewrite Hnp in Hnp'.
  assert (Hbuf : token_buf (set_tagbuf ls' tb) = l_direct ls').
  { unfold token_buf. cbn [set_tagbuf l_direct l_np]. rewrite Hnp'. apply app_nil_r. }
  rewrite Hbuf. apply seq2_wr_nop. intros t2 st2.
  unfold run_child. cbn [set_tagbuf l_child l_np]. rewrite Hch', Hnp'. cbn [seq2].
  destruct (n_end n); reflexivity.
Qed.

(* text, comments and CDATA between the chain elements *)
Definition is_gap (g : node) : Prop := exists tok, n_tok g = Some tok /\ t_kind tok <> KTag.
Definition gap_text (g : node) : str :=
  match n_tok g with
  | Some tok => match t_kind tok with
                | KComment => if is_hidden_comment is_space (t_value tok) then [] else t_value tok
                | _ => t_value tok
                end
  | None => []
  end.

Lemma gap_exec : forall mask ctx g sc top t st, is_gap g ->
  ebody mask ctx g sc top t st = wr top (gap_text g) t st.
Proof.
  intros mask ctx g sc top t st [tok [Htok Hk]]. unfold exec_body, gap_text. rewrite Htok.
  destruct (t_kind tok); try reflexivity. contradiction.
Qed.

Lemma gap_not_tag : forall g, is_gap g -> is_tag_node g = false.
Proof.
  intros g [tok [Htok Hk]]. unfold is_tag_node. rewrite Htok. destruct (t_kind tok); try reflexivity. contradiction.
Qed.

Lemma cond_only_is_tag : forall n tok a cmd, cond_only n tok a cmd -> is_tag_node n = true.
Proof. intros n tok a cmd (Htok & Hkind & _). unfold is_tag_node. rewrite Htok, Hkind. reflexivity. Qed.


(* ------------------------------------------------------------------------------------------ *)
(* (c) chains                                                                                  *)
(* ------------------------------------------------------------------------------------------ *)
(* --- the previous tag sibling inside the parent's child list --- *)
Lemma prev_tag_gaps : forall gs id last rest, Forall is_gap gs -> ~ In id (map n_id gs) ->
  prev_tag (gs ++ rest) id last = prev_tag rest id last.
Proof.
  intros gs id last rest HF. induction HF as [|g gs Hg HF IH]; intros Hni; [reflexivity|].
  cbn [app prev_tag]. cbn [map In] in Hni.
  destruct (N.eqb (n_id g) id) eqn:E; [apply N.eqb_eq in E; exfalso; apply Hni; left; exact E|].
  rewrite (gap_not_tag g Hg). apply IH. intro H. apply Hni. right. exact H.
Qed.

Lemma prev_tag_pre : forall pre id last rest, ~ In id (map n_id pre) ->
  exists last', prev_tag (pre ++ rest) id last = prev_tag rest id last'.
Proof.
  induction pre as [|c pre IH]; intros id last rest Hni; [exists last; reflexivity|].
  cbn [app prev_tag]. cbn [map In] in Hni.
  destruct (N.eqb (n_id c) id) eqn:E; [apply N.eqb_eq in E; exfalso; apply Hni; left; exact E|].
  apply IH. intro H. apply Hni. right. exact H.
Qed.

Lemma prev_tag_chain : forall ctx pre p gs e post,
  ctx = pre ++ p :: gs ++ e :: post -> NoDup (map n_id ctx) -> is_tag_node p = true -> Forall is_gap gs ->
  prev_tag ctx (n_id e) None = Some p.
Proof.
  intros ctx pre p gs e post Hctx Hnd Hp Hgs. subst ctx.
  assert (Hni : ~ In (n_id e) (map n_id (pre ++ p :: gs))).
  { replace (pre ++ p :: gs ++ e :: post) with ((pre ++ p :: gs) ++ e :: post) in Hnd
      by (rewrite <- app_assoc; reflexivity).
    rewrite map_app in Hnd. cbn [map] in Hnd. apply NoDup_remove_2 in Hnd.
    intro H. apply Hnd. apply in_or_app. left. exact H. }
  rewrite map_app in Hni. cbn [map] in Hni.
  assert (H1 : ~ In (n_id e) (map n_id pre)) by (intro H; apply Hni; apply in_or_app; left; exact H).
  assert (H2 : n_id p <> n_id e) by (intro H; apply Hni; apply in_or_app; right; left; exact H).
  assert (H3 : ~ In (n_id e) (map n_id gs)) by (intro H; apply Hni; apply in_or_app; right; right; exact H).
  destruct (prev_tag_pre pre (n_id e) None (p :: gs ++ e :: post) H1) as [last' Hl]. rewrite Hl.
  cbn [prev_tag]. apply N.eqb_neq in H2. rewrite H2, Hp.
  rewrite (prev_tag_gaps gs (n_id e) (Some p) (e :: post) Hgs H3).
  cbn [prev_tag]. rewrite N.eqb_refl. reflexivity.
Qed.

Lemma prev_tag_none : forall gs e post, Forall is_gap gs -> ~ In (n_id e) (map n_id gs) ->
  prev_tag (gs ++ e :: post) (n_id e) None = None.
Proof.
  intros gs e post Hgs Hni. rewrite (prev_tag_gaps gs (n_id e) None (e :: post) Hgs Hni).
  cbn [prev_tag]. rewrite N.eqb_refl. reflexivity.
Qed.

(* --- chains: elements (tag with only a condition directive) and gap nodes --- *)
Record celem := mkCE { ce_node : node; ce_tok : token; ce_attr : attr; ce_cmd : str }.
Inductive item := IGap (g : node) | IElem (e : celem).
Definition item_node (i : item) : node := match i with IGap g => g | IElem e => ce_node e end.
Definition ce_id (e : celem) : N := n_id (ce_node e).
Definition ce_ok (e : celem) : Prop := cond_only (ce_node e) (ce_tok e) (ce_attr e) (ce_cmd e).
(* an else-if / elseif / elif / else element *)
Definition else_ok (e : celem) : Prop := ce_ok e /\ ce_cmd e <> d_if.
Definition item_ok (i : item) : Prop := match i with IGap g => is_gap g | IElem e => else_ok e end.
Fixpoint elem_ids (items : list item) : list N :=
  match items with [] => [] | IGap _ :: r => elem_ids r | IElem e :: r => ce_id e :: elem_ids r end.

(* The nested render of an element (the call with the condition mark set) must hand back a table
   in which the element's own entry is still what evaluateCondition stored: that entry is what the
   NEXT chain element reads.  (In the renderer it holds because the nested render only touches the
   entries of descendants.)  It is the only thing assumed about [exec]. *)
Definition keeps_own (ctx : list node) (n : node) : Prop :=
  forall sc t st o t2 st2, exec 1 ctx n sc false t st = (o, ROk, t2, st2) -> tbl_get t2 (n_id n) = tbl_get t (n_id n).

(* --- the executable specification: one boolean, no table lookups --- *)
Definition eval_branch (ctx : list node) (e : celem) (sc : scope) (top : bool) (t : tbl) (st : rst)
    (k : bool -> tbl -> rst -> R) : R :=
  match aeval (ce_attr e) sc (r_log st) with
  | (AOk s, lg) =>
    if str_eqb s s_true then
      match exec 1 ctx (ce_node e) sc false (tbl_set t (ce_id e) true) (set_log st lg) with
      | (o, ROk, t2, st2) => seq2 (wr top o t2 st2) (k true)
      | (_, r, t2, st2) => ([], r, t2, st2)
      end
    else seq2 (wr top [] (tbl_set t (ce_id e) false) (set_log st lg)) (k false)
  | (AErr c, lg) => ([], RErr c, t, set_log st lg)
  | (AUnm, lg) => ([], RUnmodelled, t, set_log st lg)
  end.

(* [sat]: an earlier element of the chain was selected *)
Fixpoint chain_spec (ctx : list node) (sat : bool) (items : list item) (sc : scope) (top : bool) (t : tbl) (st : rst) : R :=
  match items with
  | [] => ([], ROk, t, st)
  | IGap g :: r => seq2 (wr top (gap_text g) t st) (chain_spec ctx sat r sc top)
  | IElem e :: r =>
    if sat then seq2 (wr top [] (tbl_set t (ce_id e) true) st) (chain_spec ctx true r sc top)
    else eval_branch ctx e sc top t st (fun b => chain_spec ctx b r sc top)
  end.

Lemma seq2_wr_ext : forall top s t st (f g : tbl -> rst -> R),
  (forall st', f t st' = g t st') -> seq2 (wr top s t st) f = seq2 (wr top s t st) g.
Proof.
  intros top s t st f g H. unfold wr. destruct (write top s st) as [[o r] st'].
  destruct r; cbn [seq2]; try reflexivity. rewrite H. reflexivity.
Qed.

Lemma seq2_ext : forall x (f g : tbl -> rst -> R), (forall t st, f t st = g t st) -> seq2 x f = seq2 x g.
Proof.
  intros [[[o r] t] st] f g H. destruct r; cbn [seq2]; try reflexivity. rewrite H. reflexivity.
Qed.

(* an element whose condition is evaluated *)
Lemma elem_eval_step : forall ctx e sc top t st (K : tbl -> rst -> R) (K' : bool -> tbl -> rst -> R),
  ce_ok e -> keeps_own ctx (ce_node e) ->
  cowner 0 ctx (ce_node e) (ce_attr e) (ce_cmd e) (ilstate 0 (ce_tok e) sc) t st
    = econd 0 ctx (ce_node e) (ce_attr e) (ilstate 0 (ce_tok e) sc) t st ->
  (forall b t' st', tbl_get t' (ce_id e) = Some b -> K t' st' = K' b t' st') ->
  seq2 (ebody 0 ctx (ce_node e) sc top t st) K = eval_branch ctx e sc top t st K'.
Proof.
  intros ctx e sc top t st K K' Hok Hkeep Hco HK.
  rewrite (cond_only_exec ctx _ _ _ _ sc top t st Hok). rewrite Hco.
  destruct Hok as (Htok & Hkind & Hin & Hname & Hcn & Hv & Huniq & Hblk).
  destruct (init_lstate_cond (ce_tok e) (ce_attr e) (ce_cmd e) sc Hin Hname Hcn Hblk) as (_ & _ & Hdir & Hsc).
  unfold eval_cond, eval_branch, ce_id. rewrite Hsc.
  destruct (aeval (ce_attr e) sc (r_log st)) as [[s|c|] lg]; [|reflexivity|reflexivity].
  destruct (str_eqb s s_true).
  - change (N.lor 0 1) with 1.
    destruct (exec 1 ctx (ce_node e) sc false (tbl_set t (n_id (ce_node e)) true) (set_log st lg))
      as [[[o r] t2] st2] eqn:Ex.
    destruct r; try reflexivity.
    cbn [l_direct add_direct set_child]. rewrite Hdir. cbn [app].
    apply seq2_wr_ext. intros st'. apply HK. unfold ce_id.
    rewrite (Hkeep _ _ _ _ _ _ Ex). apply tbl_get_set_same.
  - cbn [l_direct set_child]. rewrite Hdir.
    apply seq2_wr_ext. intros st'. apply HK. apply tbl_get_set_same.
Qed.

(* an element behind an already selected one *)
Lemma elem_sat_step : forall ctx e p sc top t st (K K' : tbl -> rst -> R),
  else_ok e -> prev_tag ctx (ce_id e) None = Some p -> tbl_get t (n_id p) = Some true ->
  (forall t' st', tbl_get t' (ce_id e) = Some true -> K t' st' = K' t' st') ->
  seq2 (ebody 0 ctx (ce_node e) sc top t st) K = seq2 (wr top [] (tbl_set t (ce_id e) true) st) K'.
Proof.
  intros ctx e p sc top t st K K' [Hok Hne] Hprev Hget HK.
  rewrite (cond_only_exec ctx _ _ _ _ sc top t st Hok).
  rewrite (else_after_selected 0 ctx (ce_node e) (ce_attr e) (ce_cmd e) _ t st p (seqb_neq _ _ Hne) Hprev Hget).
  destruct Hok as (Htok & Hkind & Hin & Hname & Hcn & Hv & Huniq & Hblk).
  destruct (init_lstate_cond (ce_tok e) (ce_attr e) (ce_cmd e) sc Hin Hname Hcn Hblk) as (_ & _ & Hdir & _).
  cbn [l_direct set_child]. rewrite Hdir.
  apply seq2_wr_ext. intros st'. apply HK. apply tbl_get_set_same.
Qed.

Lemma chain_rest : forall ctx sc top items pre prev gs post sat t st,
  ctx = pre ++ prev :: gs ++ map item_node items ++ post ->
  NoDup (map n_id ctx) -> is_tag_node prev = true -> Forall is_gap gs -> Forall item_ok items ->
  (forall e, In (IElem e) items -> keeps_own ctx (ce_node e)) ->
  tbl_get t (n_id prev) = Some sat ->
  exec_list ebody ctx (map item_node items) sc top t st = chain_spec ctx sat items sc top t st.
Proof.
  intros ctx sc top items. induction items as [|[g|e] items IH];
    intros pre prev gs post sat t st Hctx Hnd Hprev Hgs Hok Hkeep Hget.
  - reflexivity.
  - cbn [map item_node exec_list chain_spec].
    inversion Hok as [|x l Hg Hok']; subst x l. cbn [item_ok] in Hg.
    rewrite (gap_exec 0 ctx g sc top t st Hg).
    apply seq2_wr_ext. intros st'.
    apply (IH pre prev (gs ++ [g]) post sat t st').
    + rewrite Hctx. cbn [map item_node]. rewrite <- (app_assoc gs). reflexivity.
    + exact Hnd.
    + exact Hprev.
    + apply Forall_app. split; [exact Hgs|constructor; [exact Hg|constructor]].
    + exact Hok'.
    + intros e He. apply Hkeep. right. exact He.
    + exact Hget.
  - cbn [map item_node exec_list chain_spec].
    inversion Hok as [|x l He Hok']; subst x l. cbn [item_ok] in He.
    assert (Hpt : prev_tag ctx (ce_id e) None = Some prev).
    { apply (prev_tag_chain ctx pre prev gs (ce_node e) (map item_node items ++ post)); assumption. }
    assert (Hnext : forall b t' st', tbl_get t' (ce_id e) = Some b ->
              exec_list ebody ctx (map item_node items) sc top t' st' = chain_spec ctx b items sc top t' st').
    { intros b t' st' Hb.
      apply (IH (pre ++ prev :: gs) (ce_node e) [] post b t' st').
      - rewrite Hctx. cbn [map item_node app]. rewrite <- app_assoc. reflexivity.
      - exact Hnd.
      - destruct He as [He _]. exact (cond_only_is_tag _ _ _ _ He).
      - constructor.
      - exact Hok'.
      - intros e' He'. apply Hkeep. right. exact He'.
      - exact Hb. }
    destruct sat.
    + apply (elem_sat_step ctx e prev sc top t st _ _ He Hpt Hget).
      intros t' st' Hb. apply Hnext. exact Hb.
    + destruct He as [Hce Hne].
      apply (elem_eval_step ctx e sc top t st _ (fun b => chain_spec ctx b items sc top) Hce).
      * apply Hkeep. left. reflexivity.
      * apply (else_after_unselected 0 ctx (ce_node e) (ce_attr e) (ce_cmd e) _ t st prev
                 (seqb_neq _ _ Hne) Hpt Hget).
      * intros b t' st' Hb. apply Hnext. exact Hb.
Qed.

(* THE CHAIN THEOREM.  e1 carries :if; rest = gaps and else-ish elements in document order; the
   nodes sit contiguously in the parent's child list ctx; t is ARBITRARY. *)
Definition chain_in (ctx : list node) (pre : list node) (e1 : celem) (rest : list item) (post : list node) : Prop :=
  ctx = pre ++ ce_node e1 :: map item_node rest ++ post /\ NoDup (map n_id ctx) /\
  ce_ok e1 /\ ce_cmd e1 = d_if /\ Forall item_ok rest /\
  (forall e, In (IElem e) (IElem e1 :: rest) -> keeps_own ctx (ce_node e)).

Theorem chain_exec : forall ctx pre e1 rest post sc top t st,
  chain_in ctx pre e1 rest post ->
  exec_list ebody ctx (ce_node e1 :: map item_node rest) sc top t st
    = chain_spec ctx false (IElem e1 :: rest) sc top t st.
Proof.
  intros ctx pre e1 rest post sc top t st (Hctx & Hnd & Hok & Hcmd & Hrest & Hkeep).
  cbn [exec_list chain_spec].
  apply (elem_eval_step ctx e1 sc top t st _ (fun b => chain_spec ctx b rest sc top) Hok).
  - apply Hkeep. left. reflexivity.
  - rewrite Hcmd. apply if_owner.
  - intros b t' st' Hb.
    apply (chain_rest ctx sc top rest pre (ce_node e1) [] post b t' st').
    + exact Hctx.
    + exact Hnd.
    + exact (cond_only_is_tag _ _ _ _ Hok).
    + constructor.
    + exact Hrest.
    + intros e He. apply Hkeep. right. exact He.
    + exact Hb.
Qed.


(* ------------------------------------------------------------------------------------------ *)
(* consequences                                                                                *)
(* ------------------------------------------------------------------------------------------ *)
(* text of the gap nodes of a chain segment *)
Fixpoint gaps_text (items : list item) : str :=
  match items with [] => [] | IGap g :: r => gap_text g ++ gaps_text r | IElem _ :: r => gaps_text r end.
(* record [b] for every element of the segment *)
Fixpoint set_elems (b : bool) (items : list item) (t : tbl) : tbl :=
  match items with [] => t | IGap _ :: r => set_elems b r t | IElem e :: r => set_elems b r (tbl_set t (ce_id e) b) end.
(* the behaviour of a chain segment behind the selected element: writes and table updates only;
   this function mentions neither attr_evaluate nor exec *)
Fixpoint inert (items : list item) (top : bool) (t : tbl) (st : rst) : R :=
  match items with
  | [] => ([], ROk, t, st)
  | IGap g :: r => seq2 (wr top (gap_text g) t st) (inert r top)
  | IElem e :: r => seq2 (wr top [] (tbl_set t (ce_id e) true) st) (inert r top)
  end.
(* evaluate the conditions of a segment left to right; Some lg' iff every one of them yields AOk s
   with s <> "true"; lg' is the log afterwards *)
Fixpoint conds_false (items : list item) (sc : scope) (lg : log) : option log :=
  match items with
  | [] => Some lg
  | IGap _ :: r => conds_false r sc lg
  | IElem e :: r =>
    match aeval (ce_attr e) sc lg with
    | (AOk s, lg') => if str_eqb s s_true then None else conds_false r sc lg'
    | _ => None
    end
  end.

Lemma chain_spec_sat : forall ctx sc top items t st, chain_spec ctx true items sc top t st = inert items top t st.
Proof.
  intros ctx sc top items. induction items as [|[g|e] items IH]; intros t st; cbn [chain_spec inert];
    [reflexivity|apply seq2_ext; exact IH|apply seq2_ext; exact IH].
Qed.

Lemma inert_log : forall items top t st o r t' st', inert items top t st = (o, r, t', st') -> r_log st' = r_log st.
Proof.
  intros items top. 
  assert (Hstep : forall s T st (f : tbl -> rst -> R),
            (forall t1 st1 o r t' st', f t1 st1 = (o, r, t', st') -> r_log st' = r_log st1) ->
            forall o r t' st', seq2 (wr top s T st) f = (o, r, t', st') -> r_log st' = r_log st).
  { intros s T st f Hf o r t' st'. unfold wr. destruct (write top s st) as [[o1 r1] st1] eqn:Ew.
    pose proof (write_log _ _ _ _ _ _ Ew) as Hl.
    destruct r1; cbn [seq2]; try (intros H; inversion H; subst; exact Hl).
    destruct (f T st1) as [[[o2 r2] t2] st2] eqn:Ef. intros H. inversion H; subst.
    rewrite (Hf _ _ _ _ _ _ Ef). exact Hl. }
  induction items as [|[g|e] items IH]; intros t st o r t' st'; cbn [inert].
  - intros H. inversion H; subst. reflexivity.
  - apply Hstep. intros t1 st1. apply IH.
  - apply Hstep. intros t1 st1. apply IH.
Qed.

Lemma inert_false : forall items t st, inert items false t st = (gaps_text items, ROk, set_elems true items t, st).
Proof.
  induction items as [|[g|e] items IH]; intros t st; cbn [inert gaps_text set_elems]; [reflexivity| |];
    unfold wr, write; cbn [seq2]; rewrite IH; reflexivity.
Qed.

Lemma set_log_same : forall st, set_log st (r_log st) = st.
Proof. intros [lg b]. reflexivity. Qed.

(* a segment whose conditions are all not "true" (buffer writer) *)
Lemma spec_prefix_false : forall ctx sc front rest lg t st,
  conds_false front sc (r_log st) = Some lg ->
  chain_spec ctx false (front ++ rest) sc false t st =
    (let '(o, r, t', st') := chain_spec ctx false rest sc false (set_elems false front t) (set_log st lg) in
     (gaps_text front ++ o, r, t', st')).
Proof.
  intros ctx sc front rest. induction front as [|[g|e] front IH]; intros lg t st Hc; cbn [conds_false] in Hc.
  - inversion Hc; subst. rewrite set_log_same. cbn [app set_elems gaps_text].
    destruct (chain_spec ctx false rest sc false t st) as [[[o r] t'] st']. reflexivity.
  - cbn [app chain_spec set_elems gaps_text]. unfold wr, write. cbn [seq2].
    rewrite (IH lg t st Hc).
    destruct (chain_spec ctx false rest sc false (set_elems false front t) (set_log st lg)) as [[[o r] t'] st'].
    rewrite app_assoc. reflexivity.
  - cbn [app chain_spec set_elems gaps_text]. unfold eval_branch.
    destruct (aeval (ce_attr e) sc (r_log st)) as [[s|c|] lg'] eqn:Ea; try discriminate.
    destruct (str_eqb s s_true); [discriminate|].
    unfold wr, write. cbn [seq2].
    rewrite (IH lg (tbl_set t (ce_id e) false) (set_log st lg') Hc).
    change (set_log (set_log st lg') lg) with (set_log st lg).
    destruct (chain_spec ctx false rest sc false (set_elems false front (tbl_set t (ce_id e) false)) (set_log st lg))
      as [[[o r] t'] st']. reflexivity.
Qed.

Lemma spec_none : forall ctx sc items lg t st,
  conds_false items sc (r_log st) = Some lg ->
  chain_spec ctx false items sc false t st = (gaps_text items, ROk, set_elems false items t, set_log st lg).
Proof.
  intros ctx sc items lg t st Hc.
  pose proof (spec_prefix_false ctx sc items [] lg t st Hc) as H. rewrite app_nil_r in H.
  rewrite H. cbn [chain_spec]. rewrite app_nil_r. reflexivity.
Qed.

Lemma spec_selected : forall ctx sc front ek back t st lg1 s lg2 o t2 st2,
  conds_false front sc (r_log st) = Some lg1 ->
  aeval (ce_attr ek) sc lg1 = (AOk s, lg2) -> str_eqb s s_true = true ->
  exec 1 ctx (ce_node ek) sc false (tbl_set (set_elems false front t) (ce_id ek) true) (set_log st lg2) = (o, ROk, t2, st2) ->
  chain_spec ctx false (front ++ IElem ek :: back) sc false t st
    = (gaps_text front ++ o ++ gaps_text back, ROk, set_elems true back t2, st2).
Proof.
  intros ctx sc front ek back t st lg1 s lg2 o t2 st2 Hc Ha Hs Hex.
  rewrite (spec_prefix_false ctx sc front (IElem ek :: back) lg1 t st Hc).
  cbn [chain_spec]. unfold eval_branch.
  change (r_log (set_log st lg1)) with lg1. rewrite Ha, Hs.
  change (set_log (set_log st lg1) lg2) with (set_log st lg2). rewrite Hex.
  unfold wr, write. cbn [seq2]. rewrite chain_spec_sat, inert_false. reflexivity.
Qed.

(* the selected element's nested render fails: its output is dropped, nothing after it runs *)
Lemma spec_selected_fails : forall ctx sc front ek back t st lg1 s lg2 o r t2 st2,
  conds_false front sc (r_log st) = Some lg1 ->
  aeval (ce_attr ek) sc lg1 = (AOk s, lg2) -> str_eqb s s_true = true ->
  exec 1 ctx (ce_node ek) sc false (tbl_set (set_elems false front t) (ce_id ek) true) (set_log st lg2) = (o, r, t2, st2) ->
  r <> ROk ->
  chain_spec ctx false (front ++ IElem ek :: back) sc false t st = (gaps_text front, r, t2, st2).
Proof.
  intros ctx sc front ek back t st lg1 s lg2 o r t2 st2 Hc Ha Hs Hex Hr.
  rewrite (spec_prefix_false ctx sc front (IElem ek :: back) lg1 t st Hc).
  cbn [chain_spec]. unfold eval_branch.
  change (r_log (set_log st lg1)) with lg1. rewrite Ha, Hs.
  change (set_log (set_log st lg1) lg2) with (set_log st lg2). rewrite Hex.
  destruct r; [contradiction| |]; rewrite app_nil_r; reflexivity.
Qed.

(* a condition fails to evaluate: the chain stops there *)
Lemma spec_eval_fails : forall ctx sc front ek back t st lg1 c lg2,
  conds_false front sc (r_log st) = Some lg1 ->
  aeval (ce_attr ek) sc lg1 = (AErr c, lg2) ->
  chain_spec ctx false (front ++ IElem ek :: back) sc false t st
    = (gaps_text front, RErr c, set_elems false front t, set_log st lg2).
Proof.
  intros ctx sc front ek back t st lg1 c lg2 Hc Ha.
  rewrite (spec_prefix_false ctx sc front (IElem ek :: back) lg1 t st Hc).
  cbn [chain_spec]. unfold eval_branch.
  change (r_log (set_log st lg1)) with lg1. rewrite Ha. rewrite app_nil_r. reflexivity.
Qed.

(* --- table entries --- *)
Lemma set_elems_keep : forall b items t id, tbl_get t id = Some b -> tbl_get (set_elems b items t) id = Some b.
Proof.
  intros b items. induction items as [|[g|e] items IH]; intros t id H; cbn [set_elems]; [exact H|apply IH; exact H|].
  apply IH. destruct (N.eq_dec id (ce_id e)) as [E|E].
  - subst id. apply tbl_get_set_same.
  - rewrite tbl_get_set_other; assumption.
Qed.

Lemma set_elems_in : forall b items t e, In (IElem e) items -> tbl_get (set_elems b items t) (ce_id e) = Some b.
Proof.
  intros b items. induction items as [|[g|e'] items IH]; intros t e Hin; [destruct Hin| |];
    cbn [set_elems]; destruct Hin as [H|H]; try discriminate; try (apply IH; exact H).
  inversion H; subst e'. apply set_elems_keep. apply tbl_get_set_same.
Qed.

Lemma set_elems_notin : forall b items t id, ~ In id (elem_ids items) -> tbl_get (set_elems b items t) id = tbl_get t id.
Proof.
  intros b items. induction items as [|[g|e] items IH]; intros t id Hni; cbn [set_elems elem_ids] in *;
    [reflexivity|apply IH; exact Hni|].
  rewrite IH; [|intro H; apply Hni; right; exact H].
  apply tbl_get_set_other. intro H. apply Hni. left. symmetry. exact H.
Qed.

Lemma elem_ids_app : forall l1 l2, elem_ids (l1 ++ l2) = elem_ids l1 ++ elem_ids l2.
Proof. induction l1 as [|[g|e] l1 IH]; intros l2; cbn [app elem_ids]; [reflexivity|apply IH|rewrite IH; reflexivity]. Qed.

Lemma elem_ids_in : forall items e, In (IElem e) items -> In (ce_id e) (elem_ids items).
Proof.
  induction items as [|[g|e'] items IH]; intros e Hin; [destruct Hin| |];
    destruct Hin as [H|H]; cbn [elem_ids]; try discriminate.
  - apply IH; exact H.
  - inversion H; subst. left; reflexivity.
  - right. apply IH; exact H.
Qed.

Lemma elem_ids_incl : forall items id, In id (elem_ids items) -> In id (map n_id (map item_node items)).
Proof.
  induction items as [|[g|e] items IH]; intros id H; cbn [elem_ids map item_node] in *; [exact H|right; apply IH; exact H|].
  destruct H as [H|H]; [left; exact H|right; apply IH; exact H].
Qed.

Lemma elem_ids_nodup : forall items, NoDup (map n_id (map item_node items)) -> NoDup (elem_ids items).
Proof.
  induction items as [|[g|e] items IH]; intros H; cbn [elem_ids map item_node] in *; inversion H; subst.
  - constructor.
  - apply IH; assumption.
  - constructor; [|apply IH; assumption]. intro Hin. apply elem_ids_incl in Hin. contradiction.
Qed.

Lemma nodup_app_r : forall (A : Type) (l l' : list A), NoDup (l ++ l') -> NoDup l'.
Proof. intros A l l'. induction l as [|x l IH]; intros H; [exact H|]. cbn [app] in H. inversion H; subst. apply IH. assumption. Qed.

Lemma nodup_app_l : forall (A : Type) (l l' : list A), NoDup (l ++ l') -> NoDup l.
Proof.
  intros A l l'. induction l as [|x l IH]; intros H; [constructor|]. cbn [app] in H. inversion H as [|y m Hni Hnd]; subst.
  constructor; [intro Hin; apply Hni; apply in_or_app; left; exact Hin|apply IH; exact Hnd].
Qed.

Lemma chain_ids_nodup : forall ctx pre e1 rest post, chain_in ctx pre e1 rest post -> NoDup (elem_ids (IElem e1 :: rest)).
Proof.
  intros ctx pre e1 rest post (Hctx & Hnd & _). subst ctx.
  rewrite map_app in Hnd. apply nodup_app_r in Hnd.
  change (ce_node e1 :: map item_node rest ++ post) with ((ce_node e1 :: map item_node rest) ++ post) in Hnd.
  rewrite map_app in Hnd. apply nodup_app_l in Hnd.
  apply (elem_ids_nodup (IElem e1 :: rest)). exact Hnd.
Qed.

(* the table after a chain in which ek was selected: false before ek, true from ek on; t2 is the
   table handed back by ek's nested render, assumed not to have touched the chain's entries *)
Theorem selected_final_table : forall front ek back (t t2 : tbl),
  NoDup (elem_ids (front ++ IElem ek :: back)) ->
  (forall id, In id (elem_ids (front ++ IElem ek :: back)) ->
     tbl_get t2 id = tbl_get (tbl_set (set_elems false front t) (ce_id ek) true) id) ->
  let final := set_elems true back t2 in
  (forall e, In (IElem e) front -> tbl_get final (ce_id e) = Some false) /\
  tbl_get final (ce_id ek) = Some true /\
  (forall e, In (IElem e) back -> tbl_get final (ce_id e) = Some true) /\
  (forall id, ~ In id (elem_ids (front ++ IElem ek :: back)) -> tbl_get final id = tbl_get t2 id).
Proof.
  intros front ek back t t2 Hnd Hkeep final. subst final.
  rewrite elem_ids_app in *. cbn [elem_ids] in *.
  assert (Hk : ~ In (ce_id ek) (elem_ids front ++ elem_ids back)) by (apply NoDup_remove_2; exact Hnd).
  repeat split.
  - intros e He. pose proof (elem_ids_in _ _ He) as Hin.
    assert (Hnb : ~ In (ce_id e) (elem_ids back)).
    { intro Hb. clear Hkeep Hk. induction (elem_ids front) as [|x l IH]; [destruct Hin|].
      cbn [app] in Hnd. inversion Hnd; subst. destruct Hin as [Hx|Hx].
      - subst x. match goal with H : ~ In _ _ |- _ => apply H end. apply in_or_app. right. right. exact Hb.
      - apply IH; assumption. }
    rewrite set_elems_notin by exact Hnb.
    rewrite Hkeep by (apply in_or_app; left; exact Hin).
    rewrite tbl_get_set_other.
    + apply set_elems_in. exact He.
    + intro Heq. apply Hk. apply in_or_app. left. rewrite <- Heq. exact Hin.
  - rewrite set_elems_notin by (intro H; apply Hk; apply in_or_app; right; exact H).
    rewrite Hkeep by (apply in_or_app; right; left; reflexivity).
    apply tbl_get_set_same.
  - intros e He. apply set_elems_in. exact He.
  - intros id Hni. apply set_elems_notin. intro H. apply Hni. apply in_or_app. right. right. exact H.
Qed.

(* the table after a chain without a true condition: every entry false, the rest untouched *)
Theorem none_final_table : forall items (t : tbl),
  (forall e, In (IElem e) items -> tbl_get (set_elems false items t) (ce_id e) = Some false) /\
  (forall id, ~ In id (elem_ids items) -> tbl_get (set_elems false items t) id = tbl_get t id).
Proof. intros items t. split; [intros e He; apply set_elems_in; exact He|intros id H; apply set_elems_notin; exact H]. Qed.

(* --- the corollaries for exec_list (buffer writer: top = false) --- *)
(* exactly the first element whose condition is "true" is rendered: the output is the gap texts
   plus o, the output of ek's nested render, at ek's position; exec is called once; the conditions
   of front and ek are evaluated (log lg2), those of back are not: the final state st2 is the one
   handed back by the nested render started with log lg2 *)
Theorem chain_at_most_one_rendered : forall ctx pre e1 rest post sc t st front ek back lg1 s lg2 o t2 st2,
  chain_in ctx pre e1 rest post ->
  IElem e1 :: rest = front ++ IElem ek :: back ->
  conds_false front sc (r_log st) = Some lg1 ->
  aeval (ce_attr ek) sc lg1 = (AOk s, lg2) -> str_eqb s s_true = true ->
  exec (N.lor 0 1) ctx (ce_node ek) sc false (tbl_set (set_elems false front t) (ce_id ek) true) (set_log st lg2)
    = (o, ROk, t2, st2) ->
  exec_list ebody ctx (ce_node e1 :: map item_node rest) sc false t st
    = (gaps_text front ++ o ++ gaps_text back, ROk, set_elems true back t2, st2).
Proof.
  intros ctx pre e1 rest post sc t st front ek back lg1 s lg2 o t2 st2 Hch Hsplit Hc Ha Hs Hex.
  rewrite (chain_exec ctx pre e1 rest post sc false t st Hch). rewrite Hsplit.
  exact (spec_selected ctx sc front ek back t st lg1 s lg2 o t2 st2 Hc Ha Hs Hex).
Qed.

(* no condition is "true": only the gaps are printed, every entry becomes false, exec is not called *)
Theorem chain_none_rendered : forall ctx pre e1 rest post sc t st lg,
  chain_in ctx pre e1 rest post ->
  conds_false (IElem e1 :: rest) sc (r_log st) = Some lg ->
  exec_list ebody ctx (ce_node e1 :: map item_node rest) sc false t st
    = (gaps_text rest, ROk, set_elems false (IElem e1 :: rest) t, set_log st lg).
Proof.
  intros ctx pre e1 rest post sc t st lg Hch Hc.
  rewrite (chain_exec ctx pre e1 rest post sc false t st Hch).
  exact (spec_none ctx sc (IElem e1 :: rest) lg t st Hc).
Qed.

Theorem chain_selected_fails : forall ctx pre e1 rest post sc t st front ek back lg1 s lg2 o r t2 st2,
  chain_in ctx pre e1 rest post ->
  IElem e1 :: rest = front ++ IElem ek :: back ->
  conds_false front sc (r_log st) = Some lg1 ->
  aeval (ce_attr ek) sc lg1 = (AOk s, lg2) -> str_eqb s s_true = true ->
  exec (N.lor 0 1) ctx (ce_node ek) sc false (tbl_set (set_elems false front t) (ce_id ek) true) (set_log st lg2)
    = (o, r, t2, st2) -> r <> ROk ->
  exec_list ebody ctx (ce_node e1 :: map item_node rest) sc false t st = (gaps_text front, r, t2, st2).
Proof.
  intros ctx pre e1 rest post sc t st front ek back lg1 s lg2 o r t2 st2 Hch Hsplit Hc Ha Hs Hex Hr.
  rewrite (chain_exec ctx pre e1 rest post sc false t st Hch). rewrite Hsplit.
  exact (spec_selected_fails ctx sc front ek back t st lg1 s lg2 o r t2 st2 Hc Ha Hs Hex Hr).
Qed.

Theorem chain_eval_fails : forall ctx pre e1 rest post sc t st front ek back lg1 c lg2,
  chain_in ctx pre e1 rest post ->
  IElem e1 :: rest = front ++ IElem ek :: back ->
  conds_false front sc (r_log st) = Some lg1 ->
  aeval (ce_attr ek) sc lg1 = (AErr c, lg2) ->
  exec_list ebody ctx (ce_node e1 :: map item_node rest) sc false t st
    = (gaps_text front, RErr c, set_elems false front t, set_log st lg2).
Proof.
  intros ctx pre e1 rest post sc t st front ek back lg1 c lg2 Hch Hsplit Hc Ha.
  rewrite (chain_exec ctx pre e1 rest post sc false t st Hch). rewrite Hsplit.
  exact (spec_eval_fails ctx sc front ek back t st lg1 c lg2 Hc Ha).
Qed.

(* Once the entry of the previous chain element is true, the rest of the chain is inert, for ANY
   writer (top arbitrary) and without any assumption about exec: [inert] mentions neither
   attr_evaluate nor exec, and the log is unchanged. *)
Theorem chain_no_eval_after_selected : forall ctx sc top items pre prev gs post t st,
  ctx = pre ++ prev :: gs ++ map item_node items ++ post ->
  NoDup (map n_id ctx) -> is_tag_node prev = true -> Forall is_gap gs -> Forall item_ok items ->
  tbl_get t (n_id prev) = Some true ->
  exec_list ebody ctx (map item_node items) sc top t st = inert items top t st /\
  (forall o r t' st', inert items top t st = (o, r, t', st') -> r_log st' = r_log st).
Proof.
  intros ctx sc top items pre prev gs post t st Hctx Hnd Hprev Hgs Hok Hget.
  split; [|intros o r t' st'; apply inert_log].
  revert pre prev gs post t st Hctx Hnd Hprev Hgs Hok Hget.
  induction items as [|[g|e] items IH]; intros pre prev gs post t st Hctx Hnd Hprev Hgs Hok Hget.
  - reflexivity.
  - cbn [map item_node exec_list inert].
    inversion Hok as [|x l Hg Hok']; subst x l. cbn [item_ok] in Hg.
    rewrite (gap_exec 0 ctx g sc top t st Hg).
    apply seq2_wr_ext. intros st'.
    apply (IH pre prev (gs ++ [g]) post t st'); try assumption.
    + rewrite Hctx. cbn [map item_node]. rewrite <- (app_assoc gs). reflexivity.
    + apply Forall_app. split; [exact Hgs|constructor; [exact Hg|constructor]].
  - cbn [map item_node exec_list inert].
    inversion Hok as [|x l He Hok']; subst x l. cbn [item_ok] in He.
    assert (Hpt : prev_tag ctx (ce_id e) None = Some prev).
    { apply (prev_tag_chain ctx pre prev gs (ce_node e) (map item_node items ++ post)); assumption. }
    apply (elem_sat_step ctx e prev sc top t st _ _ He Hpt Hget).
    intros t' st' Hb.
    apply (IH (pre ++ prev :: gs) (ce_node e) [] post t' st'); try assumption.
    + rewrite Hctx. cbn [map item_node app]. rewrite <- app_assoc. reflexivity.
    + destruct He as [He _]. exact (cond_only_is_tag _ _ _ _ He).
    + constructor.
Qed.

(* --- the initial table is irrelevant --- *)
Definition agree_outside (ids : list N) (t t' : tbl) : Prop := forall id, ~ In id ids -> tbl_get t id = tbl_get t' id.
Definition R_agree (ids : list N) (x y : R) : Prop :=
  match x, y with (o, r, t, st), (o', r', t', st') => o = o' /\ r = r' /\ st = st' /\ agree_outside ids t t' end.
(* the nested render of n does not look at the entries of [ids] (the chain's own ids) *)
Definition exec_frame (ctx : list node) (ids : list N) (n : node) : Prop :=
  forall sc t t' st, agree_outside ids t t' ->
    R_agree ids (exec 1 ctx n sc false t st) (exec 1 ctx n sc false t' st).

Lemma agree_set : forall ids t t' k b, agree_outside ids t t' -> agree_outside ids (tbl_set t k b) (tbl_set t' k b).
Proof.
  intros ids t t' k b H id Hni. destruct (N.eq_dec id k) as [E|E].
  - subst. rewrite !tbl_get_set_same. reflexivity.
  - rewrite !tbl_get_set_other by exact E. apply H. exact Hni.
Qed.

Lemma R_agree_seq2_wr : forall ids top s t t' st (f g : tbl -> rst -> R),
  agree_outside ids t t' -> (forall st', R_agree ids (f t st') (g t' st')) ->
  R_agree ids (seq2 (wr top s t st) f) (seq2 (wr top s t' st) g).
Proof.
  intros ids top s t t' st f g Hag H. unfold wr. destruct (write top s st) as [[o r] st1].
  destruct r; cbn [seq2]; try (cbn; auto; fail).
  specialize (H st1). destruct (f t st1) as [[[o2 r2] t2] st2], (g t' st1) as [[[o2' r2'] t2'] st2'].
  cbn in *. destruct H as (H1 & H2 & H3 & H4). subst. auto.
Qed.

Lemma spec_table_irrelevant : forall ctx ids sc top items sat t t' st,
  (forall e, In (IElem e) items -> exec_frame ctx ids (ce_node e)) ->
  agree_outside ids t t' ->
  R_agree ids (chain_spec ctx sat items sc top t st) (chain_spec ctx sat items sc top t' st).
Proof.
  intros ctx ids sc top items. induction items as [|[g|e] items IH]; intros sat t t' st Hfr Hag; cbn [chain_spec].
  - cbn. auto.
  - apply R_agree_seq2_wr; [exact Hag|]. intros st'. apply IH; [|exact Hag].
    intros e He. apply Hfr. right. exact He.
  - assert (Hfr' : forall e', In (IElem e') items -> exec_frame ctx ids (ce_node e'))
      by (intros e' He'; apply Hfr; right; exact He').
    destruct sat.
    + apply R_agree_seq2_wr; [apply agree_set; exact Hag|]. intros st'. apply IH; [exact Hfr'|apply agree_set; exact Hag].
    + unfold eval_branch.
      destruct (aeval (ce_attr e) sc (r_log st)) as [[s|c|] lg]; [|cbn; auto|cbn; auto].
      destruct (str_eqb s s_true).
      * pose proof (Hfr e (or_introl eq_refl) sc (tbl_set t (ce_id e) true) (tbl_set t' (ce_id e) true)
                      (set_log st lg) (agree_set _ _ _ _ _ Hag)) as Hx.
        destruct (exec 1 ctx (ce_node e) sc false (tbl_set t (ce_id e) true) (set_log st lg)) as [[[o r] t2] st2].
        destruct (exec 1 ctx (ce_node e) sc false (tbl_set t' (ce_id e) true) (set_log st lg)) as [[[o' r'] t2'] st2'].
        cbn in Hx. destruct Hx as (H1 & H2 & H3 & H4). subst o' r' st2'.
        destruct r; try (cbn; auto; fail).
        apply R_agree_seq2_wr; [exact H4|]. intros st'. apply IH; [exact Hfr'|exact H4].
      * apply R_agree_seq2_wr; [apply agree_set; exact Hag|]. intros st'.
        apply IH; [exact Hfr'|apply agree_set; exact Hag].
Qed.

(* ANY writer.  With ids := the ids of the chain elements: two initial tables that differ only in
   the chain's own entries give the same output, result and final state (log, budget), and final
   tables that again differ at most in the chain's entries (which selected_final_table /
   none_final_table determine). *)
Theorem chain_initial_table_irrelevant : forall ctx pre e1 rest post ids sc top t t' st,
  chain_in ctx pre e1 rest post ->
  (forall e, In (IElem e) (IElem e1 :: rest) -> exec_frame ctx ids (ce_node e)) ->
  agree_outside ids t t' ->
  R_agree ids (exec_list ebody ctx (ce_node e1 :: map item_node rest) sc top t st)
              (exec_list ebody ctx (ce_node e1 :: map item_node rest) sc top t' st).
Proof.
  intros ctx pre e1 rest post ids sc top t t' st Hch Hfr Hag.
  rewrite (chain_exec ctx pre e1 rest post sc top t st Hch).
  rewrite (chain_exec ctx pre e1 rest post sc top t' st Hch).
  apply spec_table_irrelevant; assumption.
Qed.

(* --- broken chains --- *)
(* an else-ish element whose previous tag sibling p has no entry (p is not a chain element) *)
Theorem chain_broken_by_tag : forall ctx pre p gs e post more sc top t st,
  ctx = pre ++ p :: gs ++ ce_node e :: post -> NoDup (map n_id ctx) ->
  is_tag_node p = true -> Forall is_gap gs -> else_ok e -> tbl_get t (n_id p) = None ->
  ebody 0 ctx (ce_node e) sc top t st = ([], RErr RSyntax, t, st) /\
  exec_list ebody ctx (ce_node e :: more) sc top t st = ([], RErr RSyntax, t, st).
Proof.
  intros ctx pre p gs e post more sc top t st Hctx Hnd Hp Hgs [Hok Hne] Hget.
  assert (H : ebody 0 ctx (ce_node e) sc top t st = ([], RErr RSyntax, t, st)).
  { rewrite (cond_only_exec ctx _ _ _ _ sc top t st Hok).
    rewrite (else_orphan 0 ctx (ce_node e) (ce_attr e) (ce_cmd e) _ t st (seqb_neq _ _ Hne)); [reflexivity|].
    right. exists p. split; [|exact Hget].
    apply (prev_tag_chain ctx pre p gs (ce_node e) post); assumption. }
  split; [exact H|]. cbn [exec_list]. rewrite H. reflexivity.
Qed.

(* an else-ish element without any preceding tag sibling *)
Theorem else_without_chain : forall ctx gs e post more sc top t st,
  ctx = gs ++ ce_node e :: post -> NoDup (map n_id ctx) -> Forall is_gap gs -> else_ok e ->
  ebody 0 ctx (ce_node e) sc top t st = ([], RErr RSyntax, t, st) /\
  exec_list ebody ctx (ce_node e :: more) sc top t st = ([], RErr RSyntax, t, st).
Proof.
  intros ctx gs e post more sc top t st Hctx Hnd Hgs [Hok Hne].
  assert (H : ebody 0 ctx (ce_node e) sc top t st = ([], RErr RSyntax, t, st)).
  { rewrite (cond_only_exec ctx _ _ _ _ sc top t st Hok).
    rewrite (else_orphan 0 ctx (ce_node e) (ce_attr e) (ce_cmd e) _ t st (seqb_neq _ _ Hne)); [reflexivity|].
    left. subst ctx. apply prev_tag_none; [exact Hgs|].
    rewrite map_app in Hnd. cbn [map] in Hnd. apply NoDup_remove_2 in Hnd.
    intro Hin. apply Hnd. apply in_or_app. left. exact Hin. }
  split; [exact H|]. cbn [exec_list]. rewrite H. reflexivity.
Qed.

End Chain.

(* ------------------------------------------------------------------------------------------ *)
(* The renderer itself satisfies keeps_own: an invocation writes only its own entry (when it   *)
(* owns the condition) and entries of strict descendants                                       *)
(* ------------------------------------------------------------------------------------------ *)

(* ids of the strict descendants of a node *)
Fixpoint sub_ids (n : node) : list N :=
  let 'Node _ _ ch _ := n in flat_map (fun c => n_id c :: sub_ids c) ch.
Lemma sub_ids_children : forall n, sub_ids n = flat_map (fun c => n_id c :: sub_ids c) (n_children n).
Proof. intros [i tk ch e]. reflexivity. Qed.

(* the entries an invocation may write: its own (only when it owns the condition) and its descendants' *)
Definition own (mask : N) (n : node) : list N := if N.eqb (N.land mask 1) 0 then [n_id n] else [].
Definition touch (S : list N) (t t2 : tbl) : Prop := forall id, ~ In id S -> tbl_get t2 id = tbl_get t id.
Definition R_touch (S : list N) (t : tbl) (x : R) : Prop := let '(_, _, t2, _) := x in touch S t t2.
Definition LR_touch (S : list N) (t : tbl) (x : LR) : Prop := let '(_, t2, _) := x in touch S t t2.

Lemma touch_refl : forall S t, touch S t t.
Proof. intros S t id _. reflexivity. Qed.
Lemma touch_trans : forall S t1 t2 t3, touch S t1 t2 -> touch S t2 t3 -> touch S t1 t3.
Proof. intros S t1 t2 t3 H1 H2 id Hni. rewrite (H2 id Hni). apply H1. exact Hni. Qed.
Lemma touch_set : forall S t0 t k b, In k S -> touch S t0 t -> touch S t0 (tbl_set t k b).
Proof.
  intros S t0 t k b Hin H id Hni. rewrite tbl_get_set_other; [apply H; exact Hni|].
  intro E. subst. contradiction.
Qed.

Lemma own_lor1 : forall mask n, own (N.lor mask 1) n = [].
Proof.
  intros mask n. unfold own. rewrite N.land_lor_distr_l. change (N.land 1 1) with 1.
  destruct (N.land mask 1) as [|p]; [reflexivity|]. destruct p; reflexivity.
Qed.
Lemma own_lor2 : forall mask n, own (N.lor mask 2) n = own mask n.
Proof.
  intros mask n. unfold own. rewrite N.land_lor_distr_l. change (N.land 2 1) with 0. rewrite N.lor_0_r. reflexivity.
Qed.

Lemma seq2_touch : forall S t0 (a : R) (f : tbl -> rst -> R),
  R_touch S t0 a -> (forall t1 s1, touch S t0 t1 -> R_touch S t0 (f t1 s1)) -> R_touch S t0 (seq2 a f).
Proof.
  intros S t0 [[[o r] t1] s1] f Ha Hf. cbn in Ha. destruct r; cbn [seq2]; try exact Ha.
  specialize (Hf t1 s1 Ha). destruct (f t1 s1) as [[[o2 r2] t2] s2]. exact Hf.
Qed.
Lemma wr_touch : forall S t0 top s t st, touch S t0 t -> R_touch S t0 (wr top s t st).
Proof. intros S t0 top s t st H. unfold wr. destruct (write top s st) as [[o r] st']. exact H. Qed.

Lemma abf_children_in : forall is_space ch c, In c (abf_children is_space ch) -> In c ch.
Proof.
  intros is_space ch c. unfold abf_children. intros H.
  apply in_app_or in H. destruct H as [H|H].
  - destruct ch as [|c0 r]; [destruct H|].
    destruct (negb (is_tag_node c0) && match find is_tag_node (c0 :: r) with Some _ => true | None => false end
              && is_blank_text is_space c0); [|destruct H].
    destruct H as [H|[]]. left. exact H.
  - apply in_app_or in H. destruct H as [H|H].
    + destruct (find is_tag_node ch) as [x|] eqn:E; [|destruct H]. destruct H as [H|[]]. subst x.
      apply find_some in E. exact (proj1 E).
    + destruct (rev ch) as [|cl r] eqn:E; [destruct H|].
      destruct (is_blank_text is_space cl); [|destruct H]. destruct H as [H|[]]. subst cl.
      apply in_rev. rewrite E. left. reflexivity.
Qed.

Section Touch.
Variable is_space : rune -> bool.
Variable to_lower : rune -> rune.
Variable is_letter : rune -> bool.
Variable is_udigit : rune -> bool.
Variable methods : N -> bool -> list (str * N).
Variable call_fn : N -> list value -> fres.
Variable mgr : manager.

Section Step.
Variable exec : N -> list node -> node -> scope -> bool -> tbl -> rst -> R.
Hypothesis Hexec : forall mask ctx n sc top t st, R_touch (own mask n ++ sub_ids n) t (exec mask ctx n sc top t st).

Notation aeval := (attr_evaluate is_letter is_udigit methods call_fn mgr).
Notation econd := (eval_cond is_letter is_udigit methods call_fn mgr exec).
Notation cowner := (cond_owner is_letter is_udigit methods call_fn mgr exec).
Notation riter := (range_iter exec).
Notation rowner := (range_owner is_space is_letter is_udigit methods call_fn exec).
Notation astep := (attr_step is_space is_letter is_udigit methods call_fn mgr exec).
Notation rattrs := (run_attrs is_space is_letter is_udigit methods call_fn mgr exec).
Notation rchild := (run_child is_space is_letter is_udigit methods call_fn mgr exec).
Notation etag := (exec_tag is_space to_lower is_letter is_udigit methods call_fn mgr exec).
Notation ebody := (exec_body is_space to_lower is_letter is_udigit methods call_fn mgr exec).

Lemma exec_touch_in : forall S mask ctx n sc top t0 t st,
  incl (own mask n ++ sub_ids n) S -> touch S t0 t -> R_touch S t0 (exec mask ctx n sc top t st).
Proof.
  intros S mask ctx n sc top t0 t st Hincl Ht. pose proof (Hexec mask ctx n sc top t st) as H.
  destruct (exec mask ctx n sc top t st) as [[[o r] t2] st2]. cbn in *.
  apply (touch_trans S t0 t t2 Ht). intros id Hni. apply H. intro Hin. apply Hni. apply Hincl. exact Hin.
Qed.

Lemma exec_list_touch : forall S ctx l sc top t0 t st,
  (forall c, In c l -> incl (n_id c :: sub_ids c) S) -> touch S t0 t ->
  R_touch S t0 (exec_list exec ctx l sc top t st).
Proof.
  intros S ctx l sc top t0. induction l as [|c l IH]; intros t st Hincl Ht; cbn [exec_list].
  - exact Ht.
  - apply seq2_touch.
    + apply exec_touch_in; [|exact Ht]. apply Hincl. left. reflexivity.
    + intros t1 s1 Ht1. apply IH; [|exact Ht1]. intros c' Hc'. apply Hincl. right. exact Hc'.
Qed.

Lemma eval_cond_touch : forall S mask ctx n a ls t0 t st,
  In (n_id n) S -> incl (sub_ids n) S -> touch S t0 t -> LR_touch S t0 (econd mask ctx n a ls t st).
Proof.
  intros S mask ctx n a ls t0 t st Hid Hsub Ht. unfold eval_cond.
  destruct (aeval a (l_sc ls) (r_log st)) as [[s|c|] lg]; try exact Ht.
  destruct (str_eqb s s_true).
  - pose proof (exec_touch_in S (N.lor mask 1) ctx n (l_sc ls) false t0 (tbl_set t (n_id n) true) (set_log st lg)) as H.
    rewrite own_lor1 in H. specialize (H Hsub (touch_set _ _ _ _ _ Hid Ht)).
    destruct (exec (N.lor mask 1) ctx n (l_sc ls) false (tbl_set t (n_id n) true) (set_log st lg)) as [[[o r] t2] st2].
    destruct r; exact H.
  - apply touch_set; assumption.
Qed.

Lemma cond_owner_touch : forall S mask ctx n a cmd ls t0 t st,
  In (n_id n) S -> incl (sub_ids n) S -> touch S t0 t -> LR_touch S t0 (cowner mask ctx n a cmd ls t st).
Proof.
  intros S mask ctx n a cmd ls t0 t st Hid Hsub Ht. unfold cond_owner.
  destruct (str_eqb cmd d_if); [apply eval_cond_touch; assumption|].
  destruct (match prev_tag ctx (n_id n) None with Some p => tbl_get t (n_id p) | None => None end) as [[|]|].
  - apply touch_set; assumption.
  - apply eval_cond_touch; assumption.
  - exact Ht.
Qed.

Lemma range_iter_touch : forall S mask ctx n idx item scope0 sep items first acc t0 t st,
  incl (own mask n ++ sub_ids n) S -> touch S t0 t ->
  let '(_, t2, _) := riter mask ctx n idx item scope0 sep items first acc t st in touch S t0 t2.
Proof.
  intros S mask ctx n idx item scope0 sep items. induction items as [|[k v] more IH];
    intros first acc t0 t st Hincl Ht; cbn [range_iter].
  - exact Ht.
  - pose proof (exec_touch_in S (N.lor mask 2) ctx n (range_scope idx item k v scope0) false t0 t st) as H.
    rewrite own_lor2 in H. specialize (H Hincl Ht).
    destruct (exec (N.lor mask 2) ctx n (range_scope idx item k v scope0) false t st) as [[[o r] t2] st2].
    destruct r; try exact H. apply IH; assumption.
Qed.

Lemma range_owner_touch : forall S mask ctx n av ls t0 t st,
  incl (own mask n ++ sub_ids n) S -> touch S t0 t -> LR_touch S t0 (rowner mask ctx n av ls t st).
Proof.
  intros S mask ctx n av ls t0 t st Hincl Ht. unfold range_owner.
  destruct (extract_range is_space (strip_quotes av)) as [[idx item] obj].
  destruct (parse_code is_letter is_udigit obj); [|exact Ht].
  destruct (eval_text is_letter is_udigit methods call_fn (with_default (l_sc ls)) obj (r_log st)) as [[v|c|] lg];
    try exact Ht.
  destruct (range_items v) as [items|]; [|exact Ht].
  match goal with |- context [riter ?m ?c ?n ?i ?it ?s0 ?sep ?its ?f ?acc ?t ?st] =>
    pose proof (range_iter_touch S m c n i it s0 sep its f acc t0 t st Hincl Ht) as H;
    destruct (riter m c n i it s0 sep its f acc t st) as [[[o|r] t2] st2] end; exact H.
Qed.

Lemma attr_step_touch : forall mask ctx n attrs a ls t0 t st,
  touch (own mask n ++ sub_ids n) t0 t ->
  LR_touch (own mask n ++ sub_ids n) t0 (astep mask ctx n attrs a ls t st).
Proof.
  intros mask ctx n attrs a ls t0 t st Ht. unfold attr_step. cbv zeta.
  set (cmd := skipn (length (prefix mgr)) (a_name a)).
  destruct (prefixb (prefix mgr) (a_name a)).
  2: { destruct (has_attr_named attrs (prefix mgr ++ a_name a)); exact Ht. }
  destruct (str_eqb cmd d_with).
  { destruct (negb (N.eqb mask 0)); [exact Ht|].
    destruct (with_assign is_space is_letter is_udigit methods call_fn mgr a (l_sc ls) (r_log st)) as [[sc'|e] lg]; exact Ht. }
  destruct (is_cond_name cmd).
  { destruct (a_value a); [|exact Ht].
    destruct (N.eqb (N.land mask 1) 0) eqn:E; cbn [negb]; [|exact Ht].
    apply cond_owner_touch; [|apply incl_appr; apply incl_refl|exact Ht].
    apply in_or_app. left. unfold own. rewrite E. left. reflexivity. }
  destruct (str_eqb cmd d_range).
  { destruct (a_value a); [|exact Ht].
    destruct (negb (N.eqb (N.land mask 2) 0)); [exact Ht|].
    apply range_owner_touch; [apply incl_refl|exact Ht]. }
  destruct (str_eqb cmd d_remove); [exact Ht|].
  destruct (str_eqb cmd d_text || str_eqb cmd d_raw).
  { destruct (l_child ls); exact Ht. }
  destruct (str_eqb cmd d_define); [exact Ht|].
  destruct (str_eqb cmd d_replace || str_eqb cmd d_insert).
  { destruct (aeval a (l_sc ls) (r_log st)) as [[name|c|] lg]; try exact Ht.
    destruct (assoc name (m_templates mgr)) as [tp|]; [|exact Ht].
    destruct (run_template exec tp (l_sc ls) (set_log st lg)) as [[o r] st2]. destruct r; exact Ht. }
  destruct (aeval a (l_sc ls) (r_log st)) as [[v|c|] lg]; exact Ht.
Qed.

Lemma run_attrs_touch : forall mask ctx n attrs l ls t0 t st,
  touch (own mask n ++ sub_ids n) t0 t ->
  LR_touch (own mask n ++ sub_ids n) t0 (rattrs mask ctx n attrs l ls t st).
Proof.
  intros mask ctx n attrs l. induction l as [|a l IH]; intros ls t0 t st Ht; cbn [run_attrs]; [exact Ht|].
  pose proof (attr_step_touch mask ctx n attrs a ls t0 t st Ht) as H.
  destruct (astep mask ctx n attrs a ls t st) as [[[ls'|r] t'] st']; [|exact H].
  destruct (is_owner mgr mask a); [exact H|]. apply IH. exact H.
Qed.

Lemma child_incl : forall S n c, incl (sub_ids n) S -> In c (n_children n) -> incl (n_id c :: sub_ids c) S.
Proof.
  intros S n c Hs Hc x Hx. apply Hs. rewrite sub_ids_children. apply in_flat_map. exists c. split; assumption.
Qed.

Lemma run_child_touch : forall S n ls top t0 t st,
  incl (sub_ids n) S -> touch S t0 t -> R_touch S t0 (rchild n ls top t st).
Proof.
  intros S n ls top t0 t st Hs Ht. unfold run_child. destruct (l_child ls) as [| |a esc|csc].
  - apply exec_list_touch; [|exact Ht]. intros c Hc. apply (child_incl S n c Hs Hc).
  - exact Ht.
  - destruct (aeval a (l_sc ls) (r_log st)) as [[v|c|] lg]; [apply wr_touch; exact Ht|exact Ht|exact Ht].
  - apply exec_list_touch; [|exact Ht]. intros c Hc. apply abf_children_in in Hc. apply (child_incl S n c Hs Hc).
Qed.

Lemma exec_body_touch : forall mask ctx n sc top t st,
  R_touch (own mask n ++ sub_ids n) t (ebody mask ctx n sc top t st).
Proof.
  intros mask ctx n sc top t st. unfold exec_body.
  assert (Hs : incl (sub_ids n) (own mask n ++ sub_ids n)) by (apply incl_appr; apply incl_refl).
  destruct (n_tok n) as [tok|].
  - destruct (t_kind tok); try (apply wr_touch; apply touch_refl).
    unfold exec_tag.
    pose proof (run_attrs_touch mask ctx n (t_attrs tok) (sorted_attrs (prefix mgr) (t_attrs tok))
                  (init_lstate to_lower mgr mask tok sc) t t st (touch_refl _ _)) as H.
    destruct (rattrs mask ctx n (t_attrs tok) (sorted_attrs (prefix mgr) (t_attrs tok))
                (init_lstate to_lower mgr mask tok sc) t st) as [[[ls|r] t'] st']; [|exact H].
    apply seq2_touch; [apply wr_touch; exact H|]. intros t2 s2 H2.
    apply seq2_touch; [apply run_child_touch; assumption|]. intros t3 s3 H3.
    destruct (n_end n) as [e|]; [|exact H3]. destruct (l_np ls); [exact H3|apply wr_touch; exact H3].
  - apply seq2_touch; [apply wr_touch; apply touch_refl|]. intros t1 s1 H1.
    apply exec_list_touch; [|exact H1]. intros c Hc. apply (child_incl _ n c Hs Hc).
Qed.
End Step.

(* the renderer itself *)
Theorem exec_node_touch : forall f mask ctx n sc top t st,
  R_touch (own mask n ++ sub_ids n) t
    (exec_node is_space to_lower is_letter is_udigit methods call_fn mgr f mask ctx n sc top t st).
Proof.
  induction f as [|f IH]; intros mask ctx n sc top t st.
  - cbn [exec_node]. apply touch_refl.
  - cbn [exec_node]. apply exec_body_touch. exact IH.
Qed.

(* a nested render (condition mark set) writes only entries of strict descendants *)
Corollary exec_node_nested_touch : forall f ctx n sc top t st o r t2 st2,
  exec_node is_space to_lower is_letter is_udigit methods call_fn mgr f 1 ctx n sc top t st = (o, r, t2, st2) ->
  forall id, ~ In id (sub_ids n) -> tbl_get t2 id = tbl_get t id.
Proof.
  intros f ctx n sc top t st o r t2 st2 H id Hni.
  pose proof (exec_node_touch f 1 ctx n sc top t st) as Ht. rewrite H in Ht. cbn in Ht. apply Ht. exact Hni.
Qed.

Corollary exec_node_keeps_own : forall f ctx n, ~ In (n_id n) (sub_ids n) ->
  keeps_own (exec_node is_space to_lower is_letter is_udigit methods call_fn mgr f) ctx n.
Proof.
  intros f ctx n Hni sc t st o t2 st2 H. exact (exec_node_nested_touch f ctx n sc false t st o ROk t2 st2 H _ Hni).
Qed.

(* chain_in for the renderer itself: no assumption about nested renders is left, only that no
   chain element has a descendant carrying its own id (node ids of a parsed tree are distinct) *)
Lemma chain_in_node : forall f ctx pre e1 rest post,
  ctx = pre ++ ce_node e1 :: map item_node rest ++ post -> NoDup (map n_id ctx) ->
  ce_ok to_lower mgr e1 -> ce_cmd e1 = d_if -> Forall (item_ok to_lower mgr) rest ->
  (forall e, In (IElem e) (IElem e1 :: rest) -> ~ In (ce_id e) (sub_ids (ce_node e))) ->
  chain_in to_lower mgr (exec_node is_space to_lower is_letter is_udigit methods call_fn mgr f) ctx pre e1 rest post.
Proof.
  intros f ctx pre e1 rest post Hctx Hnd Hok Hcmd Hrest Hids.
  unfold chain_in. split; [exact Hctx|]. split; [exact Hnd|]. split; [exact Hok|]. split; [exact Hcmd|]. split; [exact Hrest|].
  intros e He. apply exec_node_keeps_own. apply Hids. exact He.
Qed.

(* the chain theorem for the renderer: fuel S (S f) for the parent, S f for the chain elements,
   f for the nested render of the selected element *)
Theorem chain_exec_node : forall f ctx pre e1 rest post sc top t st,
  ctx = pre ++ ce_node e1 :: map item_node rest ++ post -> NoDup (map n_id ctx) ->
  ce_ok to_lower mgr e1 -> ce_cmd e1 = d_if -> Forall (item_ok to_lower mgr) rest ->
  (forall e, In (IElem e) (IElem e1 :: rest) -> ~ In (ce_id e) (sub_ids (ce_node e))) ->
  exec_list (exec_node is_space to_lower is_letter is_udigit methods call_fn mgr (S f)) ctx
            (ce_node e1 :: map item_node rest) sc top t st
  = chain_spec is_space is_letter is_udigit methods call_fn mgr
      (exec_node is_space to_lower is_letter is_udigit methods call_fn mgr f) ctx false (IElem e1 :: rest) sc top t st.
Proof.
  intros f ctx pre e1 rest post sc top t st Hctx Hnd Hok Hcmd Hrest Hids.
  change (exec_node is_space to_lower is_letter is_udigit methods call_fn mgr (S f))
    with (exec_body is_space to_lower is_letter is_udigit methods call_fn mgr
            (exec_node is_space to_lower is_letter is_udigit methods call_fn mgr f)).
  apply (chain_exec is_space to_lower is_letter is_udigit methods call_fn mgr _ ctx pre e1 rest post).
  apply chain_in_node; assumption.
Qed.
End Touch.

(* ------------------------------------------------------------------------------------------ *)
(* Non-vacuity: a concrete chain  <div class="x" :if="${a}">  text  <div .. :else-if="${b}">   *)
(* <div .. :else="true">  with attribute prefix ":" and tag prefix "t:"                        *)
(* ------------------------------------------------------------------------------------------ *)
Definition ex_mgr : manager := mkM [116;58] [58] [] (SData VNil).
Definition ex_lower (r : rune) : rune := r.
Definition ex_attr (cmd v : str) : attr := mkAttr ([58] ++ cmd) (1,1) (1,1) (Some v) (1,1) (1,1).
Definition ex_class : attr := mkAttr [99;108;97;115;115] (1,1) (1,1) (Some [34;120;34]) (1,1) (1,1).
Definition ex_tok (a : attr) : token := mkTok KTag [] (1,1) (1,1) [100;105;118] [ex_class; a].
Definition ex_elem (id : N) (cmd v : str) : celem :=
  mkCE (Node id (Some (ex_tok (ex_attr cmd v))) [] None) (ex_tok (ex_attr cmd v)) (ex_attr cmd v) cmd.
Definition ex_text : node := Node 2 (Some (mkTok KText [10] (1,1) (1,1) [] [])) [] None.
Definition ex_e1 : celem := ex_elem 1 d_if [34;36;123;97;125;34].
Definition ex_e2 : celem := ex_elem 3 d_else_if [34;36;123;98;125;34].
Definition ex_e3 : celem := ex_elem 4 d_else [34;116;114;117;101;34].
Definition ex_rest : list item := [IGap ex_text; IElem ex_e2; IElem ex_e3].
Definition ex_ctx : list node := ce_node ex_e1 :: map item_node ex_rest.

Example ex_cond_only : forall id cmd v, is_cond_name cmd = true -> ce_ok ex_lower ex_mgr (ex_elem id cmd v).
Proof.
  intros id cmd v Hc. unfold ce_ok, cond_only. cbn [ex_elem ce_node ce_tok ce_attr ce_cmd n_tok].
  split; [reflexivity|]. split; [reflexivity|]. split; [cbn; right; left; reflexivity|].
  split; [reflexivity|]. split; [exact Hc|]. split; [discriminate|]. split; [|reflexivity].
  intros b Hb Hp; cbn in Hb; destruct Hb as [H|[H|[]]]; subst b; [cbn in Hp; discriminate|reflexivity].
Qed.

Example ex_gap : is_gap ex_text.
Proof. eexists. split; [reflexivity|discriminate]. Qed.

Example ex_chain_in : forall exec,
  (forall e, In (IElem e) (IElem ex_e1 :: ex_rest) -> keeps_own exec ex_ctx (ce_node e)) ->
  chain_in ex_lower ex_mgr exec ex_ctx [] ex_e1 ex_rest [].
Proof.
  intros exec Hk. unfold chain_in. split; [reflexivity|].
  split. { cbn. repeat constructor; cbn; intuition discriminate. }
  split; [apply ex_cond_only; reflexivity|]. split; [reflexivity|]. split; [|exact Hk].
  constructor; [exact ex_gap|].
  constructor; [split; [apply ex_cond_only; reflexivity|discriminate]|].
  constructor; [split; [apply ex_cond_only; reflexivity|discriminate]|].
  constructor.
Qed.

(* a nested render that satisfies keeps_own, so that all hypotheses of chain_exec hold at once *)
Example ex_chain_exec : forall is_space is_letter is_udigit methods call_fn sc top t st,
  let exec := (fun (_ : N) (_ : list node) (_ : node) (_ : scope) (_ : bool) (t : tbl) (st : rst) => ([35], ROk, t, st)) : N -> list node -> node -> scope -> bool -> tbl -> rst -> R in
  exec_list (exec_body is_space ex_lower is_letter is_udigit methods call_fn ex_mgr exec) ex_ctx ex_ctx sc top t st
    = chain_spec is_space is_letter is_udigit methods call_fn ex_mgr exec ex_ctx false (IElem ex_e1 :: ex_rest) sc top t st.
Proof.
  intros. apply (chain_exec is_space ex_lower is_letter is_udigit methods call_fn ex_mgr exec ex_ctx [] ex_e1 ex_rest []).
  apply ex_chain_in. intros e _ sc' t' st' o t2 st2 H. unfold exec in H. inversion H; subst. reflexivity.
Qed.

(* the same chain rendered by the renderer itself (any fuel): every hypothesis is discharged *)
Example ex_chain_exec_node : forall is_space is_letter is_udigit methods call_fn f sc top t st,
  exec_list (exec_node is_space ex_lower is_letter is_udigit methods call_fn ex_mgr (S f)) ex_ctx ex_ctx sc top t st
    = chain_spec is_space is_letter is_udigit methods call_fn ex_mgr
        (exec_node is_space ex_lower is_letter is_udigit methods call_fn ex_mgr f) ex_ctx false (IElem ex_e1 :: ex_rest) sc top t st.
Proof.
  intros. apply (chain_exec_node is_space ex_lower is_letter is_udigit methods call_fn ex_mgr f ex_ctx [] ex_e1 ex_rest []).
  - reflexivity.
  - cbn. repeat constructor; cbn; intuition discriminate.
  - apply ex_cond_only; reflexivity.
  - reflexivity.
  - constructor; [exact ex_gap|].
    constructor; [split; [apply ex_cond_only; reflexivity|discriminate]|].
    constructor; [split; [apply ex_cond_only; reflexivity|discriminate]|].
    constructor.
  - intros e [H|[H|[H|[H|[]]]]]; try discriminate; inversion H; subst e; intros [].
Qed.

Print Assumptions cond_only_exec.
Print Assumptions chain_exec.
Print Assumptions chain_at_most_one_rendered.
Print Assumptions chain_none_rendered.
Print Assumptions chain_no_eval_after_selected.
Print Assumptions selected_final_table.
Print Assumptions chain_initial_table_irrelevant.
Print Assumptions chain_broken_by_tag.
Print Assumptions else_without_chain.
Print Assumptions ex_chain_exec.
Print Assumptions exec_node_touch.
Print Assumptions chain_exec_node.
Print Assumptions ex_chain_exec_node.
