(* C04 — :range renders the element once per item, with the index and the item bound.
   Everything is stated for an ARBITRARY recursive call [exec] (the variable of [Section Body] in
   Html/Exec.v), so the results hold whatever nested renders do. *)
From Tpl Require Import Proofs.ExecSpec.
From Coq Require Import Lia.
Open Scope N_scope.

(* the per-item loop: output = the items' renders, separated (between consecutive items only) by
   the blank text that follows the element *)
Fixpoint range_spec (sep_text : str) (outs : list str) : str :=
  match outs with
  | [] => []
  | [o] => o
  | o :: r => o ++ sep_text ++ range_spec sep_text r
  end.

(* the text of the separator node handed to [range_iter] *)
Definition sep_text_of (sep : option node) : str :=
  match sep with
  | Some x => match n_tok x with Some tk => t_value tk | None => [] end
  | None => []
  end.

(* ---------- small string facts ---------- *)
Lemma str_eqb_refl' : forall s, str_eqb s s = true.
Proof. induction s as [|c s IH]; cbn [str_eqb]; [reflexivity|]. rewrite N.eqb_refl, IH. reflexivity. Qed.
Lemma str_eqb_sym : forall a b, str_eqb a b = str_eqb b a.
Proof.
  induction a as [|x a IH]; intros [|y b]; cbn [str_eqb]; try reflexivity.
  rewrite (N.eqb_sym x y), (IH b). reflexivity.
Qed.

Lemma range_spec_cons : forall sp o r,
  range_spec sp (o :: r) = o ++ flat_map (fun x => sp ++ x) r.
Proof.
  intros sp o r. revert o. induction r as [|o' r IH]; intros o.
  - cbn [range_spec flat_map]. rewrite app_nil_r. reflexivity.
  - change (range_spec sp (o :: o' :: r)) with (o ++ sp ++ range_spec sp (o' :: r)).
    rewrite (IH o'). cbn [flat_map]. rewrite <- !app_assoc. reflexivity.
Qed.

Section Range.
(* the variables of [Section Exec] ... *)
Variable is_space : rune -> bool.
Variable to_lower : rune -> rune.
Variable is_letter : rune -> bool.
Variable is_udigit : rune -> bool.
Variable methods : N -> bool -> list (str * N).
Variable call_fn : N -> list value -> fres.
Variable mgr : manager.
(* ... plus the recursive call *)
Variable exec : N -> list node -> node -> scope -> bool -> tbl -> rst -> R.

Section Loop.
Variable mask : N.
Variable ctx : list node.
Variable n : node.
Variable idx item : str.
Variable scope0 : scope.

(* [iter_runs items t st outs t' st']: rendering the element once per item of [items], in order,
   each time in the scope binding that item (and its index), starting from table [t] and state
   [st], succeeds every time, produces the outputs [outs] (one per item) and ends in [t'], [st'].
   The table and the state are threaded from one item to the next. *)
Inductive iter_runs : list (value * value) -> tbl -> rst -> list str -> tbl -> rst -> Prop :=
| IR_nil : forall t st, iter_runs [] t st [] t st
| IR_cons : forall k v items t st o t1 st1 outs t2 st2,
    exec (N.lor mask 2) ctx n (range_scope idx item k v scope0) false t st = (o, ROk, t1, st1) ->
    iter_runs items t1 st1 outs t2 st2 ->
    iter_runs ((k, v) :: items) t st (o :: outs) t2 st2.

(* what the loop appends to its accumulator: nothing before the first item, the separator before
   every other one *)
Definition loop_out (sp : str) (first : bool) (outs : list str) : str :=
  if first then range_spec sp outs else flat_map (fun x => sp ++ x) outs.

Lemma range_iter_gen : forall sep items t st outs t' st',
  iter_runs items t st outs t' st' ->
  forall first acc,
  range_iter exec mask ctx n idx item scope0 sep items first acc t st
  = (inl (acc ++ loop_out (sep_text_of sep) first outs), t', st').
Proof.
  intros sep items t st outs t' st' Hruns.
  induction Hruns as [t st | k v items t st o t1 st1 outs t2 st2 Hex Hruns IH]; intros first acc.
  - cbn [range_iter]. unfold loop_out. destruct first; cbn [range_spec flat_map]; rewrite app_nil_r; reflexivity.
  - cbn [range_iter]. rewrite Hex. rewrite IH. unfold loop_out at 1. cbn [flat_map].
    unfold loop_out. destruct first.
    + rewrite range_spec_cons. destruct sep as [x|]; cbn [sep_text_of app]; rewrite <- ?app_assoc; reflexivity.
    + cbn [flat_map]. destruct sep as [x|]; cbn [sep_text_of app]; rewrite <- ?app_assoc; reflexivity.
Qed.

(* the loop as [range_owner] runs it: [first = true], empty accumulator *)
Theorem range_iter_ok : forall sep items t st outs t' st',
  iter_runs items t st outs t' st' ->
  range_iter exec mask ctx n idx item scope0 sep items true [] t st
  = (inl (range_spec (sep_text_of sep) outs), t', st').
Proof.
  intros sep items t st outs t' st' Hruns.
  rewrite (range_iter_gen sep items t st outs t' st' Hruns true []). reflexivity.
Qed.

(* the threading relation determines one output per item *)
Theorem iter_runs_length : forall items t st outs t' st',
  iter_runs items t st outs t' st' -> length outs = length items.
Proof.
  intros items t st outs t' st' H. induction H as [| k v items t st o t1 st1 outs t2 st2 _ _ IH]; cbn [length]; [reflexivity | rewrite IH; reflexivity].
Qed.

(* an empty collection renders nothing *)
Theorem range_iter_empty : forall sep first acc t st,
  range_iter exec mask ctx n idx item scope0 sep [] first acc t st = (inl acc, t, st).
Proof. reflexivity. Qed.

(* the first failing render ends the loop: its result, table and state are the loop's, whatever
   items follow (they are not rendered: [later] does not occur on the right-hand side) *)
Theorem range_iter_stops_at_failure : forall sep done k v later t st outs t1 st1 o r t' st' first acc,
  iter_runs done t st outs t1 st1 ->
  exec (N.lor mask 2) ctx n (range_scope idx item k v scope0) false t1 st1 = (o, r, t', st') ->
  r <> ROk ->
  range_iter exec mask ctx n idx item scope0 sep (done ++ (k, v) :: later) first acc t st = (inr r, t', st').
Proof.
  intros sep done k v later t st outs t1 st1 o r t' st' first acc Hruns.
  revert first acc.
  induction Hruns as [t st | k0 v0 items t st o0 t1 st1 outs t2 st2 Hex Hruns IH]; intros first acc Hfail Hr.
  - cbn [app range_iter]. rewrite Hfail. destruct r as [|c|]; [congruence| reflexivity | reflexivity].
  - cbn [app range_iter]. rewrite Hex. apply IH; assumption.
Qed.
End Loop.

(* ---------- the items a range header iterates over ---------- *)
Theorem range_items_slice : forall arr l ex,
  range_items (VSeq arr l ex) = Some (map (fun p => (VInt KInt (fst p), snd p)) (enumerate1 1%Z l)).
Proof. reflexivity. Qed.

Theorem range_items_map : forall m,
  range_items (VMap m) = Some (map (fun kv => (VStr (fst kv), snd kv)) m).
Proof. reflexivity. Qed.

Lemma enumerate1_length : forall A (l : list A) i, length (enumerate1 i l) = length l.
Proof. induction l as [|x l IH]; intros i; cbn [enumerate1 length]; [reflexivity | rewrite IH; reflexivity]. Qed.

(* positions are 1, 2, 3, ... and the items are the elements, in order *)
Theorem enumerate1_nth : forall A (l : list A) i k x,
  nth_error l k = Some x -> nth_error (enumerate1 i l) k = Some ((i + Z.of_nat k)%Z, x).
Proof.
  induction l as [|y l IH]; intros i k x H.
  - destruct k; discriminate H.
  - destruct k as [|k].
    + cbn [nth_error] in H. injection H as ->. cbn [enumerate1 nth_error]. rewrite Z.add_0_r. reflexivity.
    + cbn [nth_error] in H. cbn [enumerate1 nth_error]. rewrite (IH (i + 1)%Z k x H).
      replace (i + 1 + Z.of_nat k)%Z with (i + Z.of_nat (S k))%Z by lia. reflexivity.
Qed.

Theorem range_items_slice_nth : forall arr l ex k x,
  nth_error l k = Some x ->
  exists items, range_items (VSeq arr l ex) = Some items /\
                nth_error items k = Some (VInt KInt (1 + Z.of_nat k)%Z, x).
Proof.
  intros arr l ex k x H. eexists. split; [reflexivity|].
  rewrite nth_error_map, (enumerate1_nth _ l 1%Z k x H). reflexivity.
Qed.

Theorem range_items_length : forall v items, range_items v = Some items ->
  (length items = match v with
                  | VSeq _ l _ => length l
                  | VStr s => length (utf8_bytes s)
                  | VMap m => length m
                  | _ => 0
                  end)%nat.
Proof.
  intros v items H. destruct v; cbn [range_items] in H; try discriminate H; injection H as <-;
    rewrite map_length, ?enumerate1_length; reflexivity.
Qed.

Theorem range_non_collection : forall v,
  (match v with VSeq _ _ _ | VStr _ | VMap _ => False | _ => True end) -> range_items v = None.
Proof. intros v H. destruct v; try reflexivity; contradiction H. Qed.

(* ---------- both variables are visible, innermost first, to everything rendered for the item ---------- *)
(* [methods_of (VMap _)] is [] by definition, so no side condition is needed *)
Lemma methods_of_map : forall m, methods_of methods (VMap m) = [].
Proof. reflexivity. Qed.

Lemma get_value_map : forall name m,
  get_value methods name (VMap m) = match assoc name m with Some v => Found v | None => Absent end.
Proof. reflexivity. Qed.

Theorem range_scope_item : forall idx item k v sc,
  sget methods (range_scope idx item k v sc) item = Found v.
Proof.
  intros idx item k v sc. unfold range_scope. cbn [sget]. rewrite get_value_map.
  destruct (str_eqb idx item); unfold assoc; cbn [find fst snd]; rewrite str_eqb_refl'; reflexivity.
Qed.

Theorem range_scope_index : forall idx item k v sc, str_eqb idx item = false ->
  sget methods (range_scope idx item k v sc) idx = Found k.
Proof.
  intros idx item k v sc Hne. unfold range_scope. rewrite Hne. cbn [sget]. rewrite get_value_map.
  unfold assoc. cbn [find fst snd]. rewrite (str_eqb_sym item idx), Hne, str_eqb_refl'. reflexivity.
Qed.

Theorem range_scope_other : forall idx item k v sc name,
  str_eqb name idx = false -> str_eqb name item = false ->
  sget methods (range_scope idx item k v sc) name = sget methods sc name.
Proof.
  intros idx item k v sc name Hi Ht. unfold range_scope. cbn [sget]. rewrite get_value_map.
  destruct (str_eqb idx item); unfold assoc; cbn [find fst snd];
    rewrite ?(str_eqb_sym item name), ?(str_eqb_sym idx name), ?Ht, ?Hi; reflexivity.
Qed.

(* when index and item carry the same name the item wins (only the item is bound) *)
Theorem range_scope_same_name : forall x k v sc,
  sget methods (range_scope x x k v sc) x = Found v.
Proof. intros. apply range_scope_item. Qed.

(* [range_owner] runs the loop over [range_items] of the evaluated object, in the scope of the
   element (after :with) combined with the default scope, and appends the result to the direct
   output: the header's pieces put together *)
Theorem range_owner_ok : forall mask ctx n av ls t st idx item obj e v lg items outs t' st',
  extract_range is_space (strip_quotes av) = (idx, item, obj) ->
  parse_code is_letter is_udigit obj = Some e ->
  eval_text is_letter is_udigit methods call_fn (with_default (l_sc ls)) obj (r_log st) = (Ok v, lg) ->
  range_items v = Some items ->
  iter_runs mask ctx n idx item (with_default (l_sc ls)) items t (set_log st lg) outs t' st' ->
  range_owner is_space is_letter is_udigit methods call_fn exec mask ctx n av ls t st
  = (inl (add_direct ls (range_spec
       (sep_text_of (match next_sibling ctx (n_id n) with
                     | Some x => if is_blank_text is_space x then Some x else None
                     | None => None end)) outs)), t', st').
Proof.
  intros mask ctx n av ls t st idx item obj e v lg items outs t' st' Hx Hp Hev Hit Hruns.
  unfold range_owner. rewrite Hx, Hp, Hev, Hit.
  rewrite (range_iter_ok mask ctx n idx item (with_default (l_sc ls)) _ items t (set_log st lg) outs t' st' Hruns).
  reflexivity.
Qed.
End Range.

(* ---------- the header forms ---------- *)
Require Coq.Strings.String Coq.Strings.Ascii.
Module HeaderExamples.
Import Coq.Strings.String Coq.Strings.Ascii.
Definition s (x : string) : str := map N_of_ascii (list_ascii_of_string x).
Definition sp (r : rune) : bool := N.eqb r 32.

(*                                   header              index   item    object *)
Example header_object_only : extract_range sp (s "xs") = (s "", s "", s "xs").
Proof. vm_compute. reflexivity. Qed.
Example header_index : extract_range sp (s "i : xs") = (s "i", s "", s "xs").
Proof. vm_compute. reflexivity. Qed.
Example header_index_item : extract_range sp (s "i, x : xs") = (s "i", s "x", s "xs").
Proof. vm_compute. reflexivity. Qed.
Example header_item_only : extract_range sp (s ", x : xs") = (s "", s "x", s "xs").
Proof. vm_compute. reflexivity. Qed.
Example header_blank_index : extract_range sp (s "_, x : xs") = (s "_", s "x", s "xs").
Proof. vm_compute. reflexivity. Qed.
(* the object is an arbitrary expression: a comma AFTER the colon belongs to it *)
Example header_object_with_comma : extract_range sp (s "i, x : f(a, b)") = (s "i", s "x", s "f(a, b)").
Proof. vm_compute. reflexivity. Qed.
Example header_spaces : extract_range sp (s "  i ,x:xs  ") = (s "i", s "x", s "xs").
Proof. vm_compute. reflexivity. Qed.
End HeaderExamples.

Print Assumptions range_iter_ok.
Print Assumptions range_iter_empty.
Print Assumptions range_iter_stops_at_failure.
Print Assumptions range_items_slice.
Print Assumptions range_items_map.
Print Assumptions range_items_length.
Print Assumptions range_non_collection.
Print Assumptions range_scope_item.
Print Assumptions range_scope_index.
Print Assumptions range_scope_other.
Print Assumptions range_owner_ok.
Print Assumptions HeaderExamples.header_object_with_comma.
