(* C16: the tree hypothesis [tree_ok] is satisfiable: a forest in which every node has a token and
   all node ids are pairwise distinct (what the loader builds: ids are token indices) has a
   classifier [cid]. *)
From Coq Require Import List NArith Bool Lia.
From Tpl Require Import Html.Exec Html.Manager Proofs.PureRenderBase.
Import ListNotations.
Open Scope N_scope.

Section NodeInd.
Variable P : node -> Prop.
Hypothesis H : forall i tok ch e, Forall P ch -> P (Node i tok ch e).
Fixpoint node_ind' (n : node) : P n :=
  match n with
  | Node i tok ch e =>
    H i tok ch e ((fix go (l : list node) : Forall P l :=
                     match l with [] => Forall_nil P | c :: r => Forall_cons c (node_ind' c) (go r) end) ch)
  end.
End NodeInd.

(* a node and all its descendants *)
Fixpoint nodes (n : node) : list node := let 'Node _ _ ch _ := n in n :: flat_map nodes ch.
Lemma nodes_unfold n : nodes n = n :: flat_map nodes (n_children n).
Proof. destruct n; reflexivity. Qed.
Lemma nodes_self n : In n (nodes n).
Proof. rewrite nodes_unfold. left; reflexivity. Qed.
Lemma in_forest c l : In c l -> forall q, In q (nodes c) -> In q (flat_map nodes l).
Proof. intros Hc q Hq. apply in_flat_map. exists c. split; assumption. Qed.

Lemma NoDup_map_inj {A B} (f : A -> B) : forall l x y, NoDup (map f l) -> In x l -> In y l -> f x = f y -> x = y.
Proof.
  induction l as [|a l IH]; intros x y Hnd Hx Hy E; [destruct Hx|].
  cbn [map] in Hnd. apply NoDup_cons_iff in Hnd as [Hni Hnd].
  destruct Hx as [->|Hx], Hy as [->|Hy]; auto.
  - exfalso. apply Hni. rewrite E. apply in_map, Hy.
  - exfalso. apply Hni. rewrite <- E. apply in_map, Hx.
Qed.

Lemma NoDup_app_remove_l {A} : forall (l l' : list A), NoDup (l ++ l') -> NoDup l'.
Proof. induction l as [|a l IH]; intros l' H; [exact H|]. cbn [app] in H. apply NoDup_cons_iff in H as [_ H]. apply IH, H. Qed.
Lemma NoDup_app_remove_r {A} : forall (l l' : list A), NoDup (l ++ l') -> NoDup l.
Proof.
  induction l as [|a l IH]; intros l' H; [constructor|]. cbn [app] in H. apply NoDup_cons_iff in H as [Hn H].
  constructor; [|eapply IH, H]. intros Hin. apply Hn. apply in_or_app; left; exact Hin.
Qed.

Lemma NoDup_heads : forall ch, NoDup (map n_id (flat_map nodes ch)) -> NoDup (map n_id ch).
Proof.
  induction ch as [|c r IH]; intros H; [constructor|].
  cbn [flat_map] in H. rewrite nodes_unfold in H. cbn [app map] in H. rewrite map_app in H.
  apply NoDup_cons_iff in H as [Hni Hnd]. apply NoDup_app_remove_l in Hnd.
  cbn [map]. constructor; [|apply IH, Hnd].
  intros Hin. apply Hni. apply in_or_app; right.
  apply in_map_iff in Hin as (x & Ex & Hx). apply in_map_iff. exists x. split; [exact Ex|].
  apply (in_forest x r Hx), nodes_self.
Qed.
Lemma NoDup_part : forall ch c, NoDup (map n_id (flat_map nodes ch)) -> In c ch -> NoDup (map n_id (nodes c)).
Proof.
  induction ch as [|c0 r IH]; intros c H Hc; [destruct Hc|].
  cbn [flat_map] in H. rewrite map_app in H. destruct Hc as [->|Hc].
  - apply NoDup_app_remove_r in H. exact H.
  - apply NoDup_app_remove_l in H. apply IH; assumption.
Qed.

Section T.
Variable mgr : manager.

Lemma node_ok_of_forest cid : forall n,
  (forall q, In q (nodes n) -> n_tok q <> None /\ cid (n_id q) = has_cond mgr q) ->
  NoDup (map n_id (nodes n)) -> node_ok mgr cid n.
Proof.
  apply (node_ind' (fun n => (forall q, In q (nodes n) -> n_tok q <> None /\ cid (n_id q) = has_cond mgr q) ->
                             NoDup (map n_id (nodes n)) -> node_ok mgr cid n)).
  intros i tok ch e IH Hq Hnd. apply node_ok_unfold. cbn [n_tok n_id n_children].
  destruct (Hq _ (nodes_self _)) as [H1 H2]. cbn [n_tok n_id] in H1, H2.
  rewrite nodes_unfold in Hnd, Hq. cbn [n_children map] in Hnd, Hq. apply NoDup_cons_iff in Hnd as [_ Hnd].
  split; [exact H1|]. split; [exact H2|]. split; [apply NoDup_heads, Hnd|].
  rewrite Forall_forall in *. intros c Hc. apply IH; [exact Hc| |eapply NoDup_part; eauto].
  intros q Hqc. apply Hq. right. eapply in_forest; eauto.
Qed.

Definition cid_of (ctx : list node) (id : N) : bool :=
  existsb (fun p => N.eqb (n_id p) id && has_cond mgr p) (flat_map nodes ctx).

Lemma cid_of_spec ctx q : NoDup (map n_id (flat_map nodes ctx)) -> In q (flat_map nodes ctx) ->
  cid_of ctx (n_id q) = has_cond mgr q.
Proof.
  intros Hnd Hq. unfold cid_of. destruct (has_cond mgr q) eqn:E.
  - apply existsb_exists. exists q. split; [exact Hq|]. rewrite N.eqb_refl, E. reflexivity.
  - destruct (existsb _ _) eqn:Ex; [|reflexivity].
    apply existsb_exists in Ex as (p & Hp & H). apply andb_true_iff in H as [H1 H2]. apply N.eqb_eq in H1.
    assert (p = q) by (eapply NoDup_map_inj; eauto). congruence.
Qed.

Theorem tree_ok_exists : forall ctx,
  NoDup (map n_id (flat_map nodes ctx)) ->
  (forall q, In q (flat_map nodes ctx) -> n_tok q <> None) ->
  tree_ok mgr (cid_of ctx) ctx.
Proof.
  intros ctx Hnd Htok. split; [apply NoDup_heads, Hnd|].
  rewrite Forall_forall. intros c Hc. apply node_ok_of_forest; [|eapply NoDup_part; eauto].
  intros q Hq. pose proof (in_forest c ctx Hc q Hq) as Hf.
  split; [apply Htok, Hf|apply cid_of_spec; assumption].
Qed.
End T.
Print Assumptions tree_ok_exists.
