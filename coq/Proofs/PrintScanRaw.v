(* print_scan_raw: the print/scan round trip (C17, first sentence) EXTENDED to raw-text elements
   (script, style, textarea, title: the text_tags list), which wf_wtoks of PrintScanDefs.v excludes.

   A written raw-text element is  <name attrs> ++ content ++ </close_name> .  Scanning gives the open
   tag, ONE text token whose value is exactly the content (none when the content is empty) and the close tag
   (name = '/' followed by close_name as written).

   The condition on the content is EXACT: raw_content_okb runs the close-tag candidate automaton of
   Scan.text_step over the content and requires that it never completes
   (raw_content_exact: when it fails the scanner leaves the element inside the content).
   In words, for sane tables: the content has no factor  '<' blanks '/' blanks n1 blanks ... nk blanks '>'
   whose blank-free form lower-cases to  '<' '/' name '>' .  Blanks inside the candidate are skipped, any other
   rune that does not continue the name (also a second '<', which starts a new candidate) drops the candidate. *)
From Coq Require Import List NArith Bool Lia Arith.
From Coq Require String Ascii.
From Tpl Require Import Html.Scan Proofs.ScanConcat Proofs.PrintScanDefs Proofs.PrintScanSteps Proofs.PrintScan.
Import ListNotations.
Open Scope N_scope.
Local Arguments adv : simpl never.

(* ---------- written tokens with raw-text elements ---------- *)

Inductive wtokR :=
| WPlain (w : wtok)
| WRaw (name : str) (attrs : list wattr) (content : str) (close_name : str).
   (* printed <name attrs> content </close_name> *)

Definition print_wtokR (w : wtokR) : str :=
  match w with
  | WPlain w => print_wtok w
  | WRaw n attrs c cn => print_wtok (WTag n attrs) ++ c ++ print_wtok (WTag (cSLASH :: cn) [])
  end.
Definition print_wtoksR (ws : list wtokR) : str := concat (map print_wtokR ws).

(* the shapes of the tokens that one written token stands for *)
Definition shapes_of_wR (w : wtokR) : list shape :=
  match w with
  | WPlain w => [shape_of_w w]
  | WRaw n attrs c cn =>
      (KTag, n, map wshape attrs) ::
      match c with [] => [] | _ => [(KText, c, [])] end ++ [(KTag, cSLASH :: cn, [])]
  end.

Definition is_textR (w : wtokR) : bool := match w with WPlain w => is_text w | WRaw _ _ _ _ => false end.

(* no two text tokens are adjacent; a raw-text element begins and ends with a tag *)
Fixpoint sep_okR (ws : list wtokR) : bool :=
  match ws with
  | [] => true
  | w :: r => (negb (is_textR w) || match r with w2 :: _ => negb (is_textR w2) | [] => true end) && sep_okR r
  end.

Section WFR.
Variable is_space : rune -> bool.
Variable to_lower : rune -> rune.
Variable text_tags : list str.
Variable attr_prefix : str.
Variable compile : attr -> bool.
Notation lower := (Scan.lower to_lower).
Notation plain := (PrintScanDefs.plain is_space).

(* the close string the scanner looks for *)
Definition close_of (n : str) : str := [cLT; cSLASH] ++ lower n ++ [cGT].

(* The close-tag candidate automaton of text_step in raw mode.
   State: None = outside a candidate; Some nb = inside, nb = blank-free copy of the candidate read so far.
   Result None = the candidate is complete: the element ends at this rune. *)
Definition cand_next (close : str) (c : option str) (r : rune) : option (option str) :=
  match (if N.eqb r cLT then Some [] else c) with
  | None => Some None
  | Some nb =>
      let nb' := if is_space r then nb else nb ++ [r] in
      if prefixb (lower nb') close
      then if N.eqb r cGT then None else Some (Some nb')
      else Some None
  end.

Fixpoint raw_runb (close : str) (c : option str) (s : str) : bool :=
  match s with
  | [] => true
  | r :: s' => match cand_next close c r with
               | None => false
               | Some c' => raw_runb close c' s'
               end
  end.

(* THE condition on the content of a raw-text element with open-tag name n *)
Definition raw_content_okb (n content : str) : bool := raw_runb (close_of n) None content.

(* the additional facts about the Unicode tables *)
Definition raw_oracle_ok : Prop :=
  is_space cLT = false /\ is_space cSLASH = false /\
  to_lower cLT = cLT /\ to_lower cSLASH = cSLASH /\ to_lower cGT = cGT.

Definition wf_raw (n : str) (attrs : list wattr) (c cn : str) : Prop :=
  (* the open tag: as a plain tag, but its name IS a raw-text name *)
  forallb plain n = true /\ prefixb sBANGDD n = false /\ prefixb sCDATA n = false /\
  existsb (fun tt => str_eqb (lower n) (lower tt)) text_tags = true /\
  distinctb (map wname attrs) = true /\ Forall (wf_wattr is_space attr_prefix compile) attrs /\
  (* the close tag: same name up to case, no blank, GT or LT in it, and '/' ++ name is not itself a raw-text name *)
  lower cn = lower n /\ forallb plain cn = true /\ forallb (fun x => negb (N.eqb x cLT)) cn = true /\
  existsb (fun tt => str_eqb (lower (cSLASH :: cn)) (lower tt)) text_tags = false /\
  (* the content *)
  raw_content_okb n c = true.

Definition wf_wtokR (w : wtokR) : Prop :=
  match w with
  | WPlain w => wf_wtok is_space to_lower text_tags attr_prefix compile w
  | WRaw n attrs c cn => wf_raw n attrs c cn
  end.

Definition wf_wtoksR (ws : list wtokR) : Prop := sep_okR ws = true /\ Forall wf_wtokR ws.
End WFR.

(* ---------- string facts ---------- *)

Lemma prefixb_refl (s : str) : prefixb s s = true.
Proof. rewrite <- (app_nil_r s) at 2. apply prefixb_app. Qed.

Lemma lower_app f (a b : str) : Scan.lower f (a ++ b) = Scan.lower f a ++ Scan.lower f b.
Proof. apply map_app. Qed.

Lemma written_close_name_ok (cn : str) : written_close_name ([cLT; cSLASH] ++ cn ++ [cGT]) = cSLASH :: cn.
Proof.
  unfold written_close_name. cbn [app prefixb]. rewrite !N.eqb_refl. cbn [andb skipn].
  rewrite rev_app_distr. cbn [rev app]. rewrite N.eqb_refl, rev_involutive. reflexivity.
Qed.

(* ---------- one-rune transitions in raw-text mode ---------- *)
Section Steps.
Variable is_space : rune -> bool.
Variable to_lower : rune -> rune.
Variable text_tags : list str.
Variable attr_prefix : str.
Variable compile : attr -> bool.
Notation step := (Scan.step is_space to_lower text_tags attr_prefix compile).
Notation run := (@fold_left sstate rune (Scan.step is_space to_lower text_tags attr_prefix compile)).
Notation raw_tag_of_last := (Scan.raw_tag_of_last to_lower text_tags).
Notation lower := (Scan.lower to_lower).
Notation cand_next := (cand_next is_space to_lower).
Notation raw_runb := (raw_runb is_space to_lower).

Definition cand_of (tb nb : str) : option str := match tb with [] => None | _ => Some nb end.

(* right after a raw-text open tag the initial mode behaves as the fresh raw text mode *)
Lemma init_raw toks p n r : raw_tag_of_last toks = Some n ->
  step (mkS toks p MInit) r =
  step (mkS toks p (MText (mkText [] p true ([cLT; cSLASH] ++ n ++ [cGT]) n (0,0) [] []))) r.
Proof.
  intros H. unfold Scan.step. cbn [s_toks s_pos s_mode dispatch]. rewrite H.
  unfold new_text. rewrite H. reflexivity.
Qed.

(* case analysis on the tests of text_step that also occur in hypothesis H *)
Ltac raw_cases H r :=
  destruct (is_space r) eqn:?Es; cbv iota in H |- *;
  match type of H with context [prefixb ?a ?b] => destruct (prefixb a b) eqn:?Ep end;
  try discriminate H;
  try (destruct (N.eqb r cGT) eqn:?Eg; try discriminate H).

(* rewrite the prefix test of the goal with H, up to conversion (rune = N) *)
Ltac rw_prefix H :=
  match goal with |- context [prefixb ?a ?b] => replace (prefixb a b) with true by (symmetry; exact H) end.

(* any rune that does not complete a candidate is appended to the text *)
Lemma raw_step_cont toks p (buf : str) st (close rn : str) xe (tb nb : str) (r : rune) c' :
  cand_next close (cand_of tb nb) r = Some c' ->
  exists xe' tb' nb',
    step (mkS toks p (MText (mkText buf st true close rn xe tb nb))) r =
    mkS toks (adv p r) (MText (mkText (buf ++ [r]) st true close rn xe' tb' nb')) /\
    cand_of tb' nb' = c'.
Proof.
  unfold PrintScanRaw.cand_next.
  unfold Scan.step. cbn [s_toks s_pos s_mode dispatch]. unfold text_step. cbn [x_raw].
  destruct (N.eqb r cLT) eqn:Elt; intros H.
  - cbn [negb x_buf x_start x_close x_rawname x_end x_tagbuf x_namebuf app] in *.
    raw_cases H r; injection H as <-; eexists _, _, _; (split; [reflexivity|reflexivity]).
  - destruct tb as [|t0 tb0]; cbn [cand_of] in H.
    + injection H as <-. cbn [negb x_buf x_start x_close x_rawname x_end x_tagbuf x_namebuf].
      eexists _, _, _. split; [reflexivity|]. reflexivity.
    + cbn [negb x_buf x_start x_close x_rawname x_end x_tagbuf x_namebuf].
      raw_cases H r; injection H as <-; eexists _, _, _; (split; [reflexivity|reflexivity]).
Qed.

(* a rune that completes a candidate ends the element *)
Lemma raw_step_stop toks p (buf : str) st (close rn : str) xe (tb nb : str) (r : rune) :
  cand_next close (cand_of tb nb) r = None ->
  exists toks', step (mkS toks p (MText (mkText buf st true close rn xe tb nb))) r = mkS toks' (adv p r) MInit.
Proof.
  unfold PrintScanRaw.cand_next.
  unfold Scan.step. cbn [s_toks s_pos s_mode dispatch]. unfold text_step. cbn [x_raw].
  destruct (N.eqb r cLT) eqn:Elt; intros H.
  - cbn [negb x_buf x_start x_close x_rawname x_end x_tagbuf x_namebuf app] in *.
    raw_cases H r; destruct (firstn _ buf); eexists; reflexivity.
  - destruct tb as [|t0 tb0]; cbn [cand_of] in H; [discriminate|].
    cbn [negb x_buf x_start x_close x_rawname x_end x_tagbuf x_namebuf].
    raw_cases H r; destruct (firstn _ buf); eexists; reflexivity.
Qed.

(* the opening '<' of a candidate: the text so far ends before it *)
Lemma raw_lt toks p (buf : str) st (close rn : str) xe (tb nb : str) :
  is_space cLT = false -> prefixb (lower [cLT]) close = true ->
  step (mkS toks p (MText (mkText buf st true close rn xe tb nb))) cLT =
  mkS toks (adv p cLT) (MText (mkText (buf ++ [cLT]) st true close rn p [cLT] [cLT])).
Proof.
  intros Hs Hp. unfold Scan.step. cbn [s_toks s_pos s_mode dispatch]. unfold text_step. cbn [x_raw].
  rewrite N.eqb_refl. cbn [negb x_buf x_start x_close x_rawname x_end x_tagbuf x_namebuf app].
  rewrite Hs. cbv iota. rw_prefix Hp. replace (N.eqb cLT cGT) with false by reflexivity. reflexivity.
Qed.

(* a non-blank rune that continues the candidate *)
Lemma raw_in_char toks p (buf : str) st (close rn : str) xe (tb nb : str) (r : rune) :
  tb <> [] -> N.eqb r cLT = false -> is_space r = false -> N.eqb r cGT = false ->
  prefixb (lower (nb ++ [r])) close = true ->
  step (mkS toks p (MText (mkText buf st true close rn xe tb nb))) r =
  mkS toks (adv p r) (MText (mkText (buf ++ [r]) st true close rn xe (tb ++ [r]) (nb ++ [r]))).
Proof.
  intros Ht Hl Hs Hg Hp. unfold Scan.step. cbn [s_toks s_pos s_mode dispatch]. unfold text_step. cbn [x_raw].
  rewrite Hl. destruct tb as [|t0 tb0]; [contradiction|].
  cbn [negb x_buf x_start x_close x_rawname x_end x_tagbuf x_namebuf].
  rewrite Hs. cbv iota. rw_prefix Hp. rewrite Hg. reflexivity.
Qed.

(* the closing '>' of a complete candidate: text token (unless empty) and close tag token *)
Lemma raw_gt_end toks p (buf0 : str) st (close rn : str) xe (tb nb : str) :
  tb <> [] -> is_space cGT = false -> prefixb (lower (nb ++ [cGT])) close = true ->
  step (mkS toks p (MText (mkText (buf0 ++ tb) st true close rn xe tb nb))) cGT =
  mkS (mkTok KTag (tb ++ [cGT]) xe (adv p cGT) (written_close_name (nb ++ [cGT])) [] ::
       match buf0 with [] => toks | _ => mkTok KText buf0 st xe [] [] :: toks end) (adv p cGT) MInit.
Proof.
  intros Ht Hs Hp. unfold Scan.step. cbn [s_toks s_pos s_mode dispatch]. unfold text_step. cbn [x_raw].
  replace (N.eqb cGT cLT) with false by reflexivity. destruct tb as [|t0 tb0]; [contradiction|].
  cbn [negb x_buf x_start x_close x_rawname x_end x_tagbuf x_namebuf].
  rewrite Hs. cbv iota. rw_prefix Hp. rewrite N.eqb_refl. rewrite firstn_pre_app.
  destruct buf0; reflexivity.
Qed.

(* ----- the content: never completes a candidate ----- *)
Lemma content_loop (close : str) : forall (content : str) toks p (buf : str) st (rn : str) xe (tb nb : str),
  raw_runb close (cand_of tb nb) content = true ->
  exists p' xe' tb' nb',
    run content (mkS toks p (MText (mkText buf st true close rn xe tb nb))) =
    mkS toks p' (MText (mkText (buf ++ content) st true close rn xe' tb' nb')).
Proof.
  induction content as [|r content IH]; intros toks p buf st rn xe tb nb H.
  - exists p, xe, tb, nb. rewrite app_nil_r. reflexivity.
  - cbn [PrintScanRaw.raw_runb] in H.
    destruct (cand_next close (cand_of tb nb) r) as [c'|] eqn:Ec; [|discriminate].
    destruct (raw_step_cont toks p buf st close rn xe tb nb r c' Ec) as (xe1 & tb1 & nb1 & E1 & Hc1).
    rewrite <- Hc1 in H.
    destruct (IH toks (adv p r) (buf ++ [r]) st rn xe1 tb1 nb1 H) as (p' & xe' & tb' & nb' & E2).
    exists p', xe', tb', nb'. cbn [fold_left]. rewrite E1, E2, <- app_assoc. reflexivity.
Qed.

(* exactness: when the condition fails, the scanner leaves the raw text inside the content *)
Lemma content_stops (close : str) : forall (content : str) toks p (buf : str) st (rn : str) xe (tb nb : str),
  raw_runb close (cand_of tb nb) content = false ->
  exists c1 c2 toks' p', content = c1 ++ c2 /\ c1 <> [] /\
    run c1 (mkS toks p (MText (mkText buf st true close rn xe tb nb))) = mkS toks' p' MInit.
Proof.
  induction content as [|r content IH]; intros toks p buf st rn xe tb nb H; [discriminate|].
  cbn [PrintScanRaw.raw_runb] in H.
  destruct (cand_next close (cand_of tb nb) r) as [c'|] eqn:Ec.
  - destruct (raw_step_cont toks p buf st close rn xe tb nb r c' Ec) as (xe1 & tb1 & nb1 & E1 & Hc1).
    rewrite <- Hc1 in H.
    destruct (IH toks (adv p r) (buf ++ [r]) st rn xe1 tb1 nb1 H) as (c1 & c2 & toks' & p' & Hc & Hne & E2).
    exists (r :: c1), c2, toks', p'. split; [rewrite Hc; reflexivity|]. split; [discriminate|].
    cbn [fold_left]. rewrite E1. exact E2.
  - destruct (raw_step_stop toks p buf st close rn xe tb nb r Ec) as (toks' & E1).
    exists [r], content, toks', (adv p r). split; [reflexivity|]. split; [discriminate|].
    cbn [fold_left]. exact E1.
Qed.

(* ----- the close tag name: every rune continues the candidate ----- *)
Lemma cand_loop (close : str) : forall (rest tb : str) toks p (buf0 : str) st (rn : str) xe,
  tb <> [] ->
  (forall q1 q2, rest = q1 ++ q2 -> prefixb (lower (tb ++ q1)) close = true) ->
  forallb (PrintScanDefs.plain is_space) rest = true -> forallb (fun x => negb (N.eqb x cLT)) rest = true ->
  exists p',
    run rest (mkS toks p (MText (mkText (buf0 ++ tb) st true close rn xe tb tb))) =
    mkS toks p' (MText (mkText (buf0 ++ tb ++ rest) st true close rn xe (tb ++ rest) (tb ++ rest))).
Proof.
  induction rest as [|r rest IH]; intros tb toks p buf0 st rn xe Ht Hp Hpl Hlt.
  - exists p. rewrite !app_nil_r. reflexivity.
  - cbn [forallb] in Hpl, Hlt. apply andb_true_iff in Hpl as [Hr Hpl]. apply andb_true_iff in Hlt as [Hl Hlt].
    apply (plain_inv is_space) in Hr as [Hr1 Hr2]. apply negb_true_iff in Hl.
    cbn [fold_left]. rewrite raw_in_char; try assumption.
    2:{ apply (Hp [r] rest). reflexivity. }
    rewrite <- app_assoc.
    destruct (IH (tb ++ [r]) toks (adv p r) buf0 st rn xe) as (p' & E); try assumption.
    + intros E. apply app_eq_nil in E as [_ E]. discriminate.
    + intros q1 q2 Hq. rewrite <- app_assoc. apply (Hp (r :: q1) q2). rewrite Hq. reflexivity.
    + exists p'. rewrite E, <- !app_assoc. reflexivity.
Qed.

End Steps.

(* ================= sequences ================= *)
Local Arguments Scan.step : simpl never.

Section P.
Variable is_space : rune -> bool.
Variable to_lower : rune -> rune.
Variable text_tags : list str.
Variable attr_prefix : str.
Variable compile : attr -> bool.
Notation step := (Scan.step is_space to_lower text_tags attr_prefix compile).
Notation run := (@fold_left sstate rune (Scan.step is_space to_lower text_tags attr_prefix compile)).
Notation scan := (Scan.scan is_space to_lower text_tags attr_prefix compile).
Notation raw_tag_of_last := (Scan.raw_tag_of_last to_lower text_tags).
Notation lower := (Scan.lower to_lower).
Notation plain := (PrintScanDefs.plain is_space).
Notation wf_wtok := (PrintScanDefs.wf_wtok is_space to_lower text_tags attr_prefix compile).
Notation wf_raw := (PrintScanRaw.wf_raw is_space to_lower text_tags attr_prefix compile).
Notation wf_wtokR := (PrintScanRaw.wf_wtokR is_space to_lower text_tags attr_prefix compile).
Notation wf_wtoksR := (PrintScanRaw.wf_wtoksR is_space to_lower text_tags attr_prefix compile).
Notation sok := (PrintScan.sok to_lower text_tags).
Notation close_of := (PrintScanRaw.close_of to_lower).
Notation run_app := (PrintScan.run_app is_space to_lower text_tags attr_prefix compile).

Hypothesis Hor : oracle_ok is_space.
Hypothesis Hraw : raw_oracle_ok is_space to_lower.

Lemma Rs_lt : is_space cLT = false. Proof. destruct Hraw as (H & _); exact H. Qed.
Lemma Rs_sl : is_space cSLASH = false. Proof. destruct Hraw as (_ & H & _); exact H. Qed.
Lemma Rl_lt : to_lower cLT = cLT. Proof. destruct Hraw as (_ & _ & H & _); exact H. Qed.
Lemma Rl_sl : to_lower cSLASH = cSLASH. Proof. destruct Hraw as (_ & _ & _ & H & _); exact H. Qed.
Lemma Rl_gt : to_lower cGT = cGT. Proof. destruct Hraw as (_ & _ & _ & _ & H); exact H. Qed.

(* a '<' read between tokens opens a tag; the shapes produced so far are unchanged *)
Lemma sok_lt s sh : sok s sh ->
  exists toks' p1 p0, step s cLT = mkS toks' p1 (MTag (new_tag p0)) /\ map shape_of (rev toks') = sh.
Proof.
  intros Hs. destruct Hs as [toks p Hr|toks p buf st a b c d e].
  - exists toks, (adv p cLT), p. split; [apply init_lt; exact Hr|reflexivity].
  - exists (mkTok KText buf st p [] [] :: toks), (adv p cLT), p. split; [apply text_lt|].
    cbn [rev]. rewrite map_app. reflexivity.
Qed.

(* one plain written token (the step of PrintScan.run_seq) *)
Lemma plain_step w s sh :
  sok s sh -> wf_wtok w -> is_init s = true \/ is_text w = false ->
  sok (run (print_wtok w) s) (sh ++ [shape_of_w w]) /\ (is_text w = false -> is_init (run (print_wtok w) s) = true).
Proof.
  intros Hs Hw Hadj. destruct (is_text w) eqn:Ht.
  - destruct w as [s0| | |]; try discriminate.
    destruct Hadj as [Hadj|Hadj]; [|discriminate].
    destruct Hs as [toks p Hr|toks p buf st a b c d e]; [|discriminate].
    destruct (text_scan is_space to_lower text_tags attr_prefix compile toks p s0 Hr Hw)
      as (p' & st & a & b & c & d & e & E).
    cbn [print_wtok]. rewrite E. split; [|discriminate]. apply SText.
  - destruct (nontext_scan is_space to_lower text_tags attr_prefix compile Hor w Ht Hw) as (body & Hp & Hb).
    rewrite Hp. cbn [fold_left].
    destruct (sok_lt s sh Hs) as (toks' & p1 & p0 & E1 & Hsh1).
    rewrite E1. destruct (Hb toks' p1 p0) as (p2 & tok & E2 & Hsh2). rewrite E2.
    split; [|reflexivity].
    pose proof (SInit to_lower text_tags (tok :: toks') p2
                  (raw_of_shape is_space to_lower text_tags attr_prefix compile _ _ _ Hsh2 Hw)) as Hk.
    cbn [rev] in Hk. rewrite map_app, Hsh1 in Hk. cbn [map] in Hk. rewrite Hsh2 in Hk. exact Hk.
Qed.

(* lower-casing the written close tag gives the close string *)
Lemma lower_close (n cn : str) : lower cn = lower n ->
  lower ([cLT; cSLASH] ++ cn ++ [cGT]) = close_of n.
Proof.
  intros H. unfold PrintScanRaw.close_of. rewrite !lower_app, H. unfold Scan.lower at 1 3. cbn [map].
  rewrite Rl_lt, Rl_sl, Rl_gt. reflexivity.
Qed.

(* the close tag  </cn>  read in raw-text mode *)
Lemma close_scan toks p (buf0 : str) st (n rn cn : str) xe (tb nb : str) :
  lower cn = lower n -> forallb plain cn = true -> forallb (fun x => negb (N.eqb x cLT)) cn = true ->
  exists p' xe',
    run ([cLT; cSLASH] ++ cn ++ [cGT]) (mkS toks p (MText (mkText buf0 st true (close_of n) rn xe tb nb))) =
    mkS (mkTok KTag ([cLT; cSLASH] ++ cn ++ [cGT]) xe' p' (cSLASH :: cn) [] ::
         match buf0 with [] => toks | _ => mkTok KText buf0 st xe' [] [] :: toks end) p' MInit.
Proof.
  intros Hl Hpl Hlt. pose proof (lower_close n cn Hl) as Hc.
  assert (Hpre : forall q1 q2, [cLT; cSLASH] ++ cn ++ [cGT] = q1 ++ q2 -> prefixb (lower q1) (close_of n) = true).
  { intros q1 q2 Hq. rewrite <- Hc, Hq, lower_app. apply prefixb_app. }
  change ([cLT; cSLASH] ++ cn ++ [cGT]) with (cLT :: (cSLASH :: cn) ++ [cGT]). cbn [fold_left].
  rewrite raw_lt; [|exact Rs_lt|apply (Hpre [cLT] (cSLASH :: cn ++ [cGT])); reflexivity].
  rewrite run_app.
  destruct (cand_loop is_space to_lower text_tags attr_prefix compile (close_of n) (cSLASH :: cn) [cLT] toks (adv p cLT)
              buf0 st rn p) as (p1 & E1).
  - discriminate.
  - intros q1 q2 Hq. apply (Hpre ([cLT] ++ q1) (q2 ++ [cGT])).
    rewrite <- app_assoc. cbn [app]. f_equal. rewrite app_assoc, <- Hq. reflexivity.
  - cbn [forallb]. rewrite Hpl. unfold PrintScanDefs.plain. rewrite Rs_sl. reflexivity.
  - cbn [forallb]. rewrite Hlt. reflexivity.
  - rewrite E1. cbn [fold_left].
    rewrite (app_assoc buf0 [cLT] (cSLASH :: cn)).
    rewrite <- (app_assoc buf0 [cLT] (cSLASH :: cn)).
    rewrite raw_gt_end.
    + exists (adv p1 cGT), p. cbn [app].
      change (cLT :: cSLASH :: cn ++ [cGT]) with ([cLT; cSLASH] ++ cn ++ [cGT]).
      replace ((cLT :: cSLASH :: cn) ++ [cGT]) with ([cLT; cSLASH] ++ cn ++ [cGT]) by reflexivity.
      rewrite written_close_name_ok. reflexivity.
    + discriminate.
    + destruct Hor as (_ & H & _); exact H.
    + rewrite <- app_assoc. apply (Hpre _ []). rewrite app_nil_r. reflexivity.
Qed.

(* one written raw-text element, from any between-tokens state *)
Lemma raw_elem_scan s sh n attrs c cn :
  sok s sh -> wf_raw n attrs c cn ->
  exists toks p, run (print_wtokR (WRaw n attrs c cn)) s = mkS toks p MInit /\
                 raw_tag_of_last toks = None /\
                 map shape_of (rev toks) = sh ++ shapes_of_wR (WRaw n attrs c cn).
Proof.
  intros Hs (W1 & W2 & W3 & W4 & W5 & W6 & W7 & W8 & W9 & W10 & W11).
  destruct (sok_lt s sh Hs) as (toks' & p1 & p0 & E0 & Hsh0).
  (* the open tag *)
  destruct (name_loop is_space to_lower text_tags attr_prefix compile n [] toks' p1 [cLT] p0 [] [] [] [] (0,0) (0,0) []
              (0,0) (0,0) W1 W2 W3) as (p2 & buf2 & E1).
  cbn [app] in E1.
  assert (attrs_ok is_space attr_prefix compile ([] ++ attrs)) as Hok
    by (split; [apply distinctb_NoDup; exact W5|exact W6]).
  destruct (tag_attrs is_space to_lower text_tags attr_prefix compile Hor n attrs [] _ toks' p2
              (BName n buf2 p0 [] [] [] (0,0) (0,0) [] (0,0) (0,0)) Hok) as (g3 & p3 & E2 & B3).
  cbn [app] in B3, Hok.
  destruct (tag_close is_space to_lower text_tags attr_prefix compile Hor n attrs g3 toks' p3 B3 Hok) as (tok & E3 & Hsh3).
  assert (Hrt : raw_tag_of_last (tok :: toks') = Some (lower n)).
  { unfold Scan.raw_tag_of_last. unfold shape_of in Hsh3.
    destruct (t_kind tok) eqn:K; try discriminate. injection Hsh3 as Hn _. rewrite Hn, W4. reflexivity. }
  (* content and close tag, in raw-text mode *)
  set (x0 := mkText [] (adv p3 cGT) true ([cLT; cSLASH] ++ lower n ++ [cGT]) (lower n) (0,0) [] []).
  assert (Hinit : forall l, l <> [] ->
            run l (mkS (tok :: toks') (adv p3 cGT) MInit) = run l (mkS (tok :: toks') (adv p3 cGT) (MText x0))).
  { intros [|r l] Hne; [contradiction|]. cbn [fold_left]. rewrite (init_raw _ _ _ _ _ _ _ (lower n)) by exact Hrt.
    reflexivity. }
  destruct (content_loop is_space to_lower text_tags attr_prefix compile (close_of n) c (tok :: toks') (adv p3 cGT)
              [] (adv p3 cGT) (lower n) (0,0) [] []) as (p4 & xe4 & tb4 & nb4 & E4).
  { exact W11. }
  cbn [app] in E4.
  destruct (close_scan (tok :: toks') p4 c (adv p3 cGT) n (lower n) cn xe4 tb4 nb4 W7 W8 W9) as (p5 & xe5 & E5).
  eexists _, p5. split; [|split].
  - cbn [print_wtokR print_wtok map concat app]. cbn [fold_left]. rewrite E0.
    rewrite (run_app (n ++ concat (map print_wattr attrs) ++ [cGT])).
    rewrite (run_app n). unfold new_tag. rewrite E1.
    rewrite (run_app (concat (map print_wattr attrs))), E2. cbn [fold_left]. rewrite E3.
    rewrite Hinit.
    2:{ intros E. apply app_eq_nil in E as [_ E]. discriminate. }
    rewrite run_app. unfold x0. fold (close_of n). rewrite E4.
    change (cLT :: cSLASH :: cn ++ [cGT]) with ([cLT; cSLASH] ++ cn ++ [cGT]). exact E5.
  - unfold Scan.raw_tag_of_last. cbn [t_kind t_name]. rewrite W10. reflexivity.
  - cbn [shapes_of_wR]. destruct c as [|c0 c1].
    + cbn [rev app]. rewrite !map_app. cbn [map]. rewrite Hsh0, Hsh3, <- !app_assoc. reflexivity.
    + cbn [rev app]. rewrite !map_app. cbn [map]. rewrite Hsh0, Hsh3, <- !app_assoc. reflexivity.
Qed.

Definition first_not_textR (ws : list wtokR) : bool :=
  match ws with w :: _ => negb (is_textR w) | [] => true end.

Lemma run_seqR : forall ws s sh,
  sok s sh -> Forall wf_wtokR ws -> sep_okR ws = true ->
  is_init s = true \/ first_not_textR ws = true ->
  exists out, finish (run (print_wtoksR ws) s) = inl out /\
              map shape_of out = sh ++ concat (map shapes_of_wR ws).
Proof.
  induction ws as [|w ws IH]; intros s sh Hs Hwf Hsep Hadj.
  - cbn [print_wtoksR map concat fold_left]. rewrite app_nil_r.
    destruct Hs as [toks p Hr|toks p buf st a b c d e].
    + eexists. split; [reflexivity|reflexivity].
    + eexists. split; [reflexivity|]. cbn [s_toks s_pos x_buf x_start rev]. rewrite map_app. reflexivity.
  - inversion Hwf as [|w' ws' Hw Hws]; subst w' ws'.
    cbn [sep_okR] in Hsep. apply andb_true_iff in Hsep as [Hsep1 Hsep].
    change (print_wtoksR (w :: ws)) with (print_wtokR w ++ print_wtoksR ws). rewrite run_app.
    cbn [map concat]. rewrite app_assoc.
    destruct w as [w|n attrs c cn].
    + cbn [print_wtokR shapes_of_wR]. cbn [wf_wtokR] in Hw. cbn [is_textR] in Hsep1.
      destruct (plain_step w s sh Hs Hw) as (Hs' & Hi').
      { destruct Hadj as [Hadj|Hadj]; [left; exact Hadj|right].
        cbn [first_not_textR is_textR] in Hadj. apply negb_true_iff in Hadj. exact Hadj. }
      apply (IH _ _ Hs' Hws Hsep).
      destruct (is_text w) eqn:Ht.
      * right. cbn [negb orb] in Hsep1. exact Hsep1.
      * left. apply Hi'. reflexivity.
    + cbn [wf_wtokR] in Hw.
      destruct (raw_elem_scan s sh n attrs c cn Hs Hw) as (toks & p & E & Hr & Hsh).
      rewrite E. rewrite <- Hsh.
      apply (IH _ _ (SInit to_lower text_tags toks p Hr) Hws Hsep). left. reflexivity.
Qed.

Theorem print_scan_raw_section ws :
  wf_wtoksR ws ->
  exists toks, scan (print_wtoksR ws) = inl toks /\ map shape_of toks = concat (map shapes_of_wR ws).
Proof.
  intros [Hsep Hwf]. unfold Scan.scan, init.
  destruct (run_seqR ws (mkS [] (1,1) MInit) [] (SInit to_lower text_tags [] (1,1) eq_refl) Hwf Hsep) as (out & Ho & Hsh).
  { left. reflexivity. }
  exists out. split; [exact Ho|exact Hsh].
Qed.

End P.

(* ================= main statements ================= *)

(* C17, first sentence, with raw-text elements: scanning the printed form of a well-formed sequence of written
   tokens, raw-text elements included, recovers the sequence: per raw-text element the open tag (name, attribute
   names and raw values in order), ONE text token holding exactly the content (none for an empty content)
   and the close tag (name as written), interleaved in order with the plain tokens. *)
Theorem print_scan_raw : forall (is_space : rune -> bool) (to_lower : rune -> rune) (text_tags : list str)
    (attr_prefix : str) (compile : attr -> bool),
  oracle_ok is_space -> raw_oracle_ok is_space to_lower ->
  forall ws, wf_wtoksR is_space to_lower text_tags attr_prefix compile ws ->
  exists toks, scan is_space to_lower text_tags attr_prefix compile (print_wtoksR ws) = inl toks /\
               map shape_of toks = concat (map shapes_of_wR ws).
Proof. exact print_scan_raw_section. Qed.

(* the single-element form: from any between-tokens state (after a complete token outside raw text, or with a
   pending text) the printed element leaves the scanner in the initial mode outside raw text, having added
   exactly its shapes *)
Theorem raw_element_scan : forall (is_space : rune -> bool) (to_lower : rune -> rune) (text_tags : list str)
    (attr_prefix : str) (compile : attr -> bool),
  oracle_ok is_space -> raw_oracle_ok is_space to_lower ->
  forall s sh n attrs c cn,
  sok to_lower text_tags s sh -> wf_raw is_space to_lower text_tags attr_prefix compile n attrs c cn ->
  exists toks p,
    fold_left (Scan.step is_space to_lower text_tags attr_prefix compile) (print_wtokR (WRaw n attrs c cn)) s =
      mkS toks p MInit /\
    raw_tag_of_last to_lower text_tags toks = None /\
    map shape_of (rev toks) = sh ++ shapes_of_wR (WRaw n attrs c cn).
Proof. exact raw_elem_scan. Qed.

(* the content condition is exact: if it fails, the scanner has left the element before the content ends
   (so the text token cannot be the content) *)
Theorem raw_content_exact : forall (is_space : rune -> bool) (to_lower : rune -> rune) (text_tags : list str)
    (attr_prefix : str) (compile : attr -> bool) toks p n c,
  raw_tag_of_last to_lower text_tags toks = Some (lower to_lower n) ->
  raw_content_okb is_space to_lower n c = false ->
  exists c1 c2 toks' p', c = c1 ++ c2 /\ c1 <> [] /\
    fold_left (Scan.step is_space to_lower text_tags attr_prefix compile) c1 (mkS toks p MInit) = mkS toks' p' MInit.
Proof.
  intros is_space to_lower text_tags attr_prefix compile toks p n c Hr Hc.
  destruct (content_stops is_space to_lower text_tags attr_prefix compile (close_of to_lower n) c toks p [] p
              (lower to_lower n) (0,0) [] [] Hc) as (c1 & c2 & toks' & p' & E & Hne & Hrun).
  exists c1, c2, toks', p'. split; [exact E|]. split; [exact Hne|].
  destruct c1 as [|r c1]; [contradiction|]. cbn [fold_left] in Hrun |- *.
  rewrite (init_raw _ _ _ _ _ _ _ (lower to_lower n)) by exact Hr. exact Hrun.
Qed.

(* a simple sufficient condition: a content without '<' *)
Lemma raw_content_no_lt is_space to_lower (n c : str) :
  forallb (fun x => negb (N.eqb x cLT)) c = true -> raw_content_okb is_space to_lower n c = true.
Proof.
  unfold raw_content_okb. generalize (close_of to_lower n). intros close.
  induction c as [|r c IH]; intros H; [reflexivity|].
  cbn [forallb] in H. apply andb_true_iff in H as [Hr H]. apply negb_true_iff in Hr.
  cbn [raw_runb]. unfold cand_next. rewrite Hr. apply IH. exact H.
Qed.

(* print_scan_raw contains print_scan *)
Lemma plain_embed is_space to_lower text_tags attr_prefix compile ws :
  wf_wtoks is_space to_lower text_tags attr_prefix compile ws ->
  wf_wtoksR is_space to_lower text_tags attr_prefix compile (map WPlain ws) /\
  print_wtoksR (map WPlain ws) = print_wtoks ws /\
  concat (map shapes_of_wR (map WPlain ws)) = map shape_of_w ws.
Proof.
  intros [Hsep Hwf]. split; [split|split].
  - rewrite <- Hsep. clear. induction ws as [|w ws IH]; [reflexivity|].
    cbn [map sep_okR sep_ok is_textR]. rewrite IH. destruct ws; reflexivity.
  - clear Hsep. induction Hwf as [|w ws Hw Hws IH]; cbn [map]; [apply Forall_nil|apply Forall_cons; assumption].
  - unfold print_wtoksR, print_wtoks. rewrite map_map. reflexivity.
  - clear. induction ws as [|w ws IH]; [reflexivity|]. cbn [map concat shapes_of_wR app]. rewrite IH. reflexivity.
Qed.

(* ================= concrete tables and documents ================= *)
Import String.StringSyntax.
Local Open Scope string_scope.

Fixpoint s2l (s : String.string) : str :=
  match s with String.EmptyString => [] | String.String a r => Ascii.N_of_ascii a :: s2l r end.
Definition ascii_lower (r : rune) : rune := if (65 <=? r) && (r <=? 90) then r + 32 else r.
Definition rx_tags : list str := [s2l "script"; s2l "style"; s2l "textarea"; s2l "title"].
Definition rx_scan := Scan.scan ex_space ascii_lower rx_tags [58] (fun _ => true).
Definition rx_wf := wf_wtoksR ex_space ascii_lower rx_tags [58] (fun _ => true).

Lemma rx_raw_oracle : raw_oracle_ok ex_space ascii_lower.
Proof. repeat split; reflexivity. Qed.

(* ----- the content condition on examples, name script ----- *)
Example content_ok_examples :
  forallb (raw_content_okb ex_space ascii_lower (s2l "script"))
    [ s2l "a<b"; s2l "</"; s2l "</scr"; s2l "</scriptx>"; s2l "<!-- c -->"; s2l "if (a<b && c>d) {}";
      s2l "</script x>"; s2l "</script"; s2l "<"; s2l ""; s2l "</style>"; s2l "<//script>"; s2l "</scr</scr" ] = true.
Proof. vm_compute. reflexivity. Qed.

Example content_bad_examples :
  map (raw_content_okb ex_space ascii_lower (s2l "script"))
    [ s2l "</script>"; s2l "</SCRIPT >"; s2l "a</script>b"; s2l "x< / s c r ipt >y"; s2l "<</ScRiPt
>" ] = [false; false; false; false; false].
Proof. vm_compute. reflexivity. Qed.

Definition wa (n : String.string) (v : option String.string) : wattr := WA (s2l n) (option_map s2l v).
Definition raw (n : String.string) (attrs : list wattr) (c cn : String.string) : wtokR :=
  WRaw (s2l n) attrs (s2l c) (s2l cn).
Definition tag (n : String.string) (attrs : list wattr) : wtokR := WPlain (WTag (s2l n) attrs).
Definition txt (s : String.string) : wtokR := WPlain (WText (s2l s)).

Ltac wfR_tac :=
  repeat match goal with
  | |- rx_wf _ => unfold rx_wf, wf_wtoksR
  | |- _ /\ _ => split
  | |- Forall _ [] => apply Forall_nil
  | |- Forall _ (_ :: _) => apply Forall_cons
  | |- wf_wtokR _ _ _ _ _ _ => cbv [raw tag txt wa option_map]; cbn [wf_wtokR wf_wtok]; unfold wf_raw
  | |- wf_wattr _ _ _ _ => cbn [wf_wattr]
  | |- _ <> _ => discriminate
  | |- forall _, _ => intros; reflexivity
  | |- _ = _ => vm_compute; reflexivity
  end.

(* ----- the statement on concrete documents, by computation only (independent of the proof):
   upper-case names, attributes, partial candidates, content ending in '<' or '</', empty content,
   element followed by a tag / a text / the end of input, two elements in a row ----- *)
Definition rx_docs : list (list wtokR) :=
  [ [raw "SCRIPT" [] "x" "script"];
    [raw "script" [wa "type" (Some """x"""); wa "defer" None] "if (a<b && c>d) {}" "script"];
    [raw "script" [] "a</scr b</script x> c</scriptx>" "script"];
    [raw "script" [] "a<" "script"];
    [raw "script" [] "a</" "script"];
    [raw "script" [] "" "script"];
    [raw "script" [] "a" "script"; tag "p" []];
    [raw "script" [] "a" "script"; txt "tail"];
    [txt "hi"; raw "script" [] "a" "Script"];
    [raw "script" [] "a" "script"; raw "STYLE" [] "b" "style"];
    [raw "textarea" [] "<p>x</p><!-- c -->" "TEXTAREA"];
    [raw "script" [] "a</script" "script"];
    [WPlain (WComment (s2l " c ")); raw "title" [wa "id" (Some "t")] "</ title" "title"; WPlain (WCData (s2l "x"))];
    [raw "script" [wa "/" None] "a" "script"] ].

Example rx_docs_check :
  Forall (fun ws => rx_wf ws /\
            exists toks, rx_scan (print_wtoksR ws) = inl toks /\ map shape_of toks = concat (map shapes_of_wR ws))
         rx_docs.
Proof.
  unfold rx_docs.
  repeat (apply Forall_cons; [split; [wfR_tac|eexists; split; vm_compute; reflexivity]|]).
  apply Forall_nil.
Qed.

(* ----- non-vacuity: five written tokens, seven scanned tokens:
   hi<p><script type=QxQ>if (a<b) {}</SCRIPT></p>tail   (Q = the double quote) ----- *)
Definition rx_ws : list wtokR :=
  [ txt "hi"; tag "p" []; raw "script" [wa "type" (Some """x""")] "if (a<b) {}" "SCRIPT"; tag "/p" []; txt "tail" ].

Lemma rx_wf_ws : rx_wf rx_ws.
Proof. unfold rx_ws. wfR_tac. Qed.

Example print_scan_raw_example :
  print_wtoksR rx_ws = s2l "hi<p><script type=""x"">if (a<b) {}</SCRIPT></p>tail" /\
  exists toks,
    rx_scan (print_wtoksR rx_ws) = inl toks /\
    map shape_of toks = concat (map shapes_of_wR rx_ws) /\ length toks = 7%nat /\
    map shape_of toks =
      [ (KText, s2l "hi", []); (KTag, s2l "p", []);
        (KTag, s2l "script", [(s2l "type", Some (s2l """x"""))]); (KText, s2l "if (a<b) {}", []);
        (KTag, s2l "/SCRIPT", []); (KTag, s2l "/p", []); (KText, s2l "tail", []) ].
Proof.
  split; [vm_compute; reflexivity|].
  eexists. split; [vm_compute; reflexivity|]. repeat split; vm_compute; reflexivity.
Qed.

(* the same through the theorem *)
Example print_scan_raw_example_thm :
  exists toks, rx_scan (print_wtoksR rx_ws) = inl toks /\ map shape_of toks = concat (map shapes_of_wR rx_ws).
Proof. exact (print_scan_raw _ _ _ _ _ ex_oracle rx_raw_oracle rx_ws rx_wf_ws). Qed.

Lemma print_scan_raw_nonvacuous : exists is_space to_lower text_tags attr_prefix compile ws,
  oracle_ok is_space /\ raw_oracle_ok is_space to_lower /\
  wf_wtoksR is_space to_lower text_tags attr_prefix compile ws /\ length ws = 5%nat /\
  exists n attrs c cn, In (WRaw n attrs c cn) ws /\ c <> [].
Proof.
  exists ex_space, ascii_lower, rx_tags, [58], (fun _ => true), rx_ws.
  split; [exact ex_oracle|]. split; [exact rx_raw_oracle|]. split; [exact rx_wf_ws|]. split; [reflexivity|].
  eexists _, _, _, _. split; [right; right; left; reflexivity|discriminate].
Qed.

(* ================= each fact of raw_oracle_ok is necessary =================
   Tables that violate exactly one of the five facts: <script>x</script> is well formed, the scan succeeds,
   but the element is never closed (two tokens: the open tag and a text with everything up to the end). *)
Definition cex_ws : list wtokR := [raw "script" [] "x" "script"].
Definition cex_bad (is_space : rune -> bool) (to_lower : rune -> rune) : Prop :=
  oracle_ok is_space /\ wf_wtoksR is_space to_lower rx_tags [58] (fun _ => true) cex_ws /\
  exists toks, scan is_space to_lower rx_tags [58] (fun _ => true) (print_wtoksR cex_ws) = inl toks /\
               map shape_of toks <> concat (map shapes_of_wR cex_ws).

Ltac cex_tac :=
  split; [repeat split; try reflexivity;
          intros c Hc; cbn [In] in Hc; repeat (destruct Hc as [Hc|Hc]; [subst c; reflexivity|]); contradiction|];
  split; [unfold cex_ws; split; [reflexivity|]; apply Forall_cons; [|apply Forall_nil];
          cbn [wf_wtokR raw]; unfold wf_raw; repeat split; try (vm_compute; reflexivity); apply Forall_nil|];
  eexists; split; [vm_compute; reflexivity|vm_compute; discriminate].

Definition sp_lt (r : rune) : bool := ex_space r || N.eqb r cLT.
Definition sp_sl (r : rune) : bool := ex_space r || N.eqb r cSLASH.
Definition lo_lt (r : rune) : rune := if N.eqb r cLT then 0 else ascii_lower r.
Definition lo_sl (r : rune) : rune := if N.eqb r cSLASH then 0 else ascii_lower r.
Definition lo_gt (r : rune) : rune := if N.eqb r cGT then 0 else ascii_lower r.

Example need_space_lt :
  (sp_lt cSLASH = false /\ ascii_lower cLT = cLT /\ ascii_lower cSLASH = cSLASH /\ ascii_lower cGT = cGT) /\
  cex_bad sp_lt ascii_lower.
Proof. split; [repeat split; reflexivity|]. cex_tac. Qed.
Example need_space_slash :
  (sp_sl cLT = false /\ ascii_lower cLT = cLT /\ ascii_lower cSLASH = cSLASH /\ ascii_lower cGT = cGT) /\
  cex_bad sp_sl ascii_lower.
Proof. split; [repeat split; reflexivity|]. cex_tac. Qed.
Example need_lower_lt :
  (ex_space cLT = false /\ ex_space cSLASH = false /\ lo_lt cSLASH = cSLASH /\ lo_lt cGT = cGT) /\
  cex_bad ex_space lo_lt.
Proof. split; [repeat split; reflexivity|]. cex_tac. Qed.
Example need_lower_slash :
  (ex_space cLT = false /\ ex_space cSLASH = false /\ lo_sl cLT = cLT /\ lo_sl cGT = cGT) /\
  cex_bad ex_space lo_sl.
Proof. split; [repeat split; reflexivity|]. cex_tac. Qed.
Example need_lower_gt :
  (ex_space cLT = false /\ ex_space cSLASH = false /\ lo_gt cLT = cLT /\ lo_gt cSLASH = cSLASH) /\
  cex_bad ex_space lo_gt.
Proof. split; [repeat split; reflexivity|]. cex_tac. Qed.

(* the side condition on the close tag is necessary as well: when '/' ++ name is itself a raw-text name,
   the close tag opens a new raw text and the following tag is read as text *)
Example need_close_not_raw :
  let tags := [s2l "script"; s2l "/script"] in
  let ws := [raw "script" [] "x" "script"; tag "p" []] in
  exists toks, Scan.scan ex_space ascii_lower tags [58] (fun _ => true) (print_wtoksR ws) = inl toks /\
               map shape_of toks <> concat (map shapes_of_wR ws) /\
               map shape_of toks = [ (KTag, s2l "script", []); (KText, s2l "x", []); (KTag, s2l "/script", []);
                                     (KText, s2l "<p>", []) ].
Proof. eexists. split; [vm_compute; reflexivity|]. split; [vm_compute; discriminate|vm_compute; reflexivity]. Qed.

(* ----- behaviour of the model worth knowing (all by computation) ----- *)
Definition shapes_of_src (s : String.string) : list shape :=
  match rx_scan (s2l s) with inl toks => map shape_of toks | inr _ => [] end.
Definition values_of_src (s : String.string) : list str :=
  match rx_scan (s2l s) with inl toks => map t_value toks | inr _ => [] end.

(* blanks anywhere inside the close tag are skipped; the token name is the blank-free form, the value keeps them *)
Example blanks_in_close_tag :
  shapes_of_src "<script>a< / s c r ipt >b" =
    [ (KTag, s2l "script", []); (KText, s2l "a", []); (KTag, s2l "/script", []); (KText, s2l "b", []) ] /\
  values_of_src "<script>a< / s c r ipt >b" = [ s2l "<script>"; s2l "a"; s2l "< / s c r ipt >"; s2l "b" ].
Proof. split; vm_compute; reflexivity. Qed.

(* a close tag with anything but blanks after the name does NOT end the element (HTML itself ends it there) *)
Example close_tag_with_attribute_is_content :
  shapes_of_src "<script>a</script x>b</script>" =
    [ (KTag, s2l "script", []); (KText, s2l "a</script x>b", []); (KTag, s2l "/script", []) ].
Proof. vm_compute. reflexivity. Qed.

(* <script/> is a tag named script/ and opens no raw text; <script /> has the attribute / and does *)
Example self_closing_forms :
  shapes_of_src "<script/><p></script>" =
    [ (KTag, s2l "script/", []); (KTag, s2l "p", []); (KTag, s2l "/script", []) ] /\
  shapes_of_src "<script /><p></script>" =
    [ (KTag, s2l "script", [(s2l "/", None)]); (KText, s2l "<p>", []); (KTag, s2l "/script", []) ].
Proof. split; vm_compute; reflexivity. Qed.

Print Assumptions raw_element_scan.
Print Assumptions raw_content_exact.
Print Assumptions print_scan_raw_example.
Print Assumptions print_scan_raw_example_thm.
Print Assumptions print_scan_raw_nonvacuous.
Print Assumptions need_lower_gt.
Print Assumptions print_scan_raw.
