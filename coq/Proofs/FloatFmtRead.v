(* The interval of the %v formatter model (Exp/FloatFmt.v, [mk_fdec]) IS the round-to-nearest-even interval of the
   float: every decimal c * 10^k that [inside] accepts reads back ([f_of_dec], the correctly rounded decimal of
   Exp/Float.v, specified in Proofs/FloatSpec.v) as the very same bit pattern.  Together with
   [shortest_inside] (Proofs/FloatFmtProps.v): the digits printed for a finite non-zero float64 read back as that
   float64. *)
From Coq Require Import ZArith Reals Lia Lra Psatz Bool.
From Flocq Require Import Core.Core IEEE754.BinarySingleNaN IEEE754.Binary IEEE754.Bits.
From Tpl Require Import Exp.Float Exp.FloatFmt Proofs.FloatSpec Proofs.FloatFmtProps.
Open Scope R_scope.

Local Arguments Z.pow : simpl never.
Local Arguments Z.mul : simpl never.
Local Arguments Z.add : simpl never.

(* ------------------------------------------------------------------------------------------ *)
(** * 1. Rounding through the scaled mantissa                                                  *)
(* ------------------------------------------------------------------------------------------ *)

(* nearest-even of a real within 1/2 of the integer n (the two ties only for even n) is n *)
Lemma ZnearestE_within : forall t n,
  IZR n - /2 <= t <= IZR n + /2 ->
  (Z.even n = true \/ (IZR n - /2 < t < IZR n + /2)) ->
  ZnearestE t = n.
Proof.
  intros t n [Hlo Hhi] Hev.
  destruct (Req_dec t (IZR n + /2)) as [Eh|Nh].
  - (* upper tie *)
    destruct Hev as [Hev|Hs]; [|lra].
    assert (Hf : Zfloor t = n) by (apply Zfloor_imp; rewrite plus_IZR; lra).
    unfold Znearest. rewrite Hf.
    replace (t - IZR n) with (/2) by lra. rewrite Rcompare_Eq by reflexivity.
    rewrite Hev. reflexivity.
  - destruct (Req_dec t (IZR n - /2)) as [El|Nl].
    + (* lower tie *)
      destruct Hev as [Hev|Hs]; [|lra].
      assert (Hf : Zfloor t = (n - 1)%Z).
      { apply Zfloor_imp. replace (n - 1 + 1)%Z with n by ring. rewrite minus_IZR. lra. }
      assert (Hc : Zceil t = n).
      { rewrite Zceil_floor_neq; [rewrite Hf; ring|]. rewrite Hf, minus_IZR. lra. }
      unfold Znearest. rewrite Hf, Hc. rewrite minus_IZR.
      replace (t - (IZR n - 1)) with (/2) by lra. rewrite Rcompare_Eq by reflexivity.
      replace (n - 1)%Z with (Z.pred n) by reflexivity. rewrite Z.even_pred, <- Z.negb_even, Hev. reflexivity.
    + apply Znearest_imp. apply Rabs_lt. lra.
Qed.

(* the canonical exponent of v from bounds on v *)
Lemma cexp_from_bounds : forall v e, (-1074 <= e)%Z -> 0 < v ->
  v < bpow radix2 (53 + e) -> (bpow radix2 (52 + e) <= v \/ e = (-1074)%Z) ->
  cexp radix2 fexp v = e.
Proof.
  intros v e He Hv Hup Hlow.
  assert (Hm1 : (mag radix2 v <= 53 + e)%Z).
  { apply mag_le_bpow; [lra|]. rewrite Rabs_pos_eq by lra. exact Hup. }
  unfold cexp, FLT_exp. destruct Hlow as [Hlow|Hlow].
  - assert (Hm2 : (53 + e <= mag radix2 v)%Z).
    { apply mag_ge_bpow. replace (53 + e - 1)%Z with (52 + e)%Z by ring. rewrite Rabs_pos_eq by lra. exact Hlow. }
    lia.
  - lia.
Qed.

Lemma rnd_by_mantissa : forall v e n, (-1074 <= e)%Z -> 0 < v ->
  v < bpow radix2 (53 + e) -> (bpow radix2 (52 + e) <= v \/ e = (-1074)%Z) ->
  ZnearestE (v * bpow radix2 (- e)) = n ->
  rnd v = IZR n * bpow radix2 e.
Proof.
  intros v e n He Hv Hup Hlow Hn.
  unfold round, scaled_mantissa. rewrite (cexp_from_bounds v e He Hv Hup Hlow). rewrite Hn.
  unfold F2R. reflexivity.
Qed.

(* ------------------------------------------------------------------------------------------ *)
(** * 2. The rounding interval of m * 2^e                                                      *)
(* ------------------------------------------------------------------------------------------ *)

Lemma bpow_split : forall a e, bpow radix2 (a + e) = bpow radix2 (a + 2) * bpow radix2 (e - 2).
Proof. intros a e. rewrite <- bpow_plus. f_equal. ring. Qed.

Lemma bpow55 : bpow radix2 55 = 36028797018963968.
Proof. reflexivity. Qed.
Lemma bpow54 : bpow radix2 54 = 18014398509481984.
Proof. reflexivity. Qed.
Lemma bpow53 : bpow radix2 53 = 9007199254740992.
Proof. reflexivity. Qed.
Lemma bpow2 : bpow radix2 2 = 4.
Proof. reflexivity. Qed.
Lemma bpow1 : bpow radix2 1 = 2.
Proof. reflexivity. Qed.

(* x = m * 2^e is a binary64 number (normal: 2^52 <= m, or subnormal: e = -1074); a real u * 2^(e-2) with
   4m - lg <= u <= 4m + 2, the ends only for even m, rounds to x.  lg = 2 (half an ulp below) except
   at a power of two above the smallest normal, where the spacing below is half: lg = 1. *)
Lemma rnd_in_interval : forall m e lg u,
  (-1074 <= e)%Z -> (0 < m < 2 ^ 53)%Z ->
  ((lg = 1 /\ m = 2 ^ 52 /\ -1074 < e) \/ (lg = 2 /\ (2 ^ 52 < m \/ e = -1074)))%Z ->
  IZR (4 * m - lg) <= u <= IZR (4 * m + 2) ->
  (Z.even m = true \/ IZR (4 * m - lg) < u < IZR (4 * m + 2)) ->
  rnd (u * bpow radix2 (e - 2)) = IZR m * bpow radix2 e.
Proof.
  intros m e lg u He Hm Hlg Hu Hev.
  set (b := bpow radix2 (e - 2)).
  assert (Hb : 0 < b) by apply bpow_gt_0.
  assert (Ee : bpow radix2 e = 4 * b).
  { replace e with (0 + e)%Z at 1 by ring. rewrite bpow_split. fold b. rewrite Z.add_0_l, bpow2. reflexivity. }
  assert (Eme : bpow radix2 (- e) = / (4 * b)).
  { rewrite bpow_opp, Ee. reflexivity. }
  assert (E53 : bpow radix2 (53 + e) = 36028797018963968 * b).
  { rewrite bpow_split. fold b. change (53 + 2)%Z with 55%Z. rewrite bpow55. reflexivity. }
  assert (E52 : bpow radix2 (52 + e) = 18014398509481984 * b).
  { rewrite bpow_split. fold b. change (52 + 2)%Z with 54%Z. rewrite bpow54. reflexivity. }
  rewrite plus_IZR, minus_IZR, mult_IZR in Hu, Hev.
  set (M := IZR m) in *.
  assert (HM1 : 1 <= M) by (apply (IZR_le 1 m); lia).
  assert (HM2 : M <= 9007199254740991).
  { apply (IZR_le m 9007199254740991). change (2 ^ 53)%Z with 9007199254740992%Z in Hm. lia. }
  assert (Hscale : forall w, w * b * / (4 * b) = w / 4) by (intro w; field; lra).
  destruct Hlg as [(Elg & Em & He1)|(Elg & Hnorm)].
  - (* at a power of two *)
    subst lg.
    assert (EM : M = 4503599627370496) by (unfold M; rewrite Em; reflexivity).
    destruct (Rle_lt_dec (M * 4) u) as [Hge|Hlt].
    + apply rnd_by_mantissa; [exact He| | | |].
      * apply Rmult_lt_0_compat; lra.
      * rewrite E53. apply Rmult_lt_compat_r; lra.
      * left. rewrite E52. apply Rmult_le_compat_r; lra.
      * rewrite Eme, Hscale. apply ZnearestE_within; fold M; [lra|].
        destruct Hev as [Hev|Hs]; [left; exact Hev|right; lra].
    + assert (Eme1 : bpow radix2 (- (e - 1)) = / (2 * b)).
      { rewrite bpow_opp. f_equal. replace (e - 1)%Z with (1 + (e - 2))%Z by ring. rewrite bpow_plus, bpow1. reflexivity. }
      transitivity (IZR (2 ^ 53) * bpow radix2 (e - 1)).
      2:{ fold M. rewrite EM, Ee. replace (e - 1)%Z with (1 + (e - 2))%Z by ring. rewrite bpow_plus, bpow1. fold b.
          change (IZR (2 ^ 53)) with 9007199254740992. ring. }
      apply (rnd_by_mantissa (u * b) (e - 1)%Z (2 ^ 53)%Z); [lia| | | |].
      * apply Rmult_lt_0_compat; lra.
      * replace (53 + (e - 1))%Z with (52 + e)%Z by ring. rewrite E52. apply Rmult_lt_compat_r; lra.
      * left. replace (52 + (e - 1))%Z with (51 + e)%Z by ring. rewrite bpow_split. fold b.
        change (51 + 2)%Z with 53%Z. rewrite bpow53. apply Rmult_le_compat_r; lra.
      * rewrite Eme1. replace (u * b * / (2 * b)) with (u / 2) by (field; lra).
        apply ZnearestE_within; change (IZR (2 ^ 53)) with 9007199254740992; [lra|left; reflexivity].
  - subst lg.
    apply rnd_by_mantissa; [exact He| | | |].
    + apply Rmult_lt_0_compat; lra.
    + rewrite E53. apply Rmult_lt_compat_r; lra.
    + destruct Hnorm as [Hn|Hn]; [left|right; exact Hn].
      assert (HM3 : 4503599627370497 <= M).
      { apply (IZR_le 4503599627370497 m). change (2 ^ 52)%Z with 4503599627370496%Z in Hn. lia. }
      rewrite E52. apply Rmult_le_compat_r; lra.
    + rewrite Eme, Hscale. apply ZnearestE_within; fold M; [lra|].
      destruct Hev as [Hev|Hs]; [left; exact Hev|right; lra].
Qed.

(* ------------------------------------------------------------------------------------------ *)
(** * 3. The bit pattern as a real number                                                      *)
(* ------------------------------------------------------------------------------------------ *)

(* significand and exponent of the pattern with exponent field ef and mantissa field mf *)
Definition sig_of (ef mf : Z) : Z := if (ef =? 0)%Z then mf else (2 ^ 52 + mf)%Z.
Definition exp_of (ef : Z) : Z := if (ef =? 0)%Z then (-1074)%Z else (ef - 1075)%Z.

Lemma decode_fields : forall bits ef mf, (0 <= bits < 2 ^ 63)%Z -> decode bits = (0, ef, mf)%Z ->
  (0 <= ef < 2 ^ 11)%Z /\ (0 <= mf < 2 ^ 52)%Z /\ ((bits / 2 ^ 52) mod 2 ^ 11 = ef)%Z /\ (bits mod 2 ^ 52 = mf)%Z.
Proof.
  intros bits ef mf Hb Hd. unfold decode in Hd. injection Hd as _ He Hm.
  split; [rewrite <- He; apply Z.mod_pos_bound; reflexivity|].
  split; [rewrite <- Hm; apply Z.mod_pos_bound; reflexivity|]. split; assumption.
Qed.

Lemma bits_B2R : forall bits ef mf,
  (0 <= bits < 2 ^ 63)%Z -> decode bits = (0, ef, mf)%Z -> (ef < 2047)%Z -> (0 < ef \/ 0 < mf)%Z ->
  is_finite (b64_of_bits bits) = true /\
  B2R (b64_of_bits bits) = IZR (sig_of ef mf) * bpow radix2 (exp_of ef).
Proof.
  intros bits ef mf Hb Hd Hef Hnz.
  destruct (decode_fields bits ef mf Hb Hd) as (Ref & Rmf & Eef & Emf).
  unfold b64_of_bits, binary_float_of_bits. rewrite B2R_FF2B, is_finite_FF2B.
  unfold binary_float_of_bits_aux, split_bits. rewrite Eef, Emf. clear Eef Emf Hd.
  unfold sig_of, exp_of.
  change (SpecFloat.emin (52 + 1) (2 ^ (11 - 1))) with (-1074)%Z.
  destruct (Z.eqb_spec ef 0) as [E0|N0].
  - subst ef. cbn [Zeq_bool Z.compare].
    destruct mf as [|p|p]; [lia| |lia].
    split; [reflexivity|]. cbn [FF2R]. unfold F2R. cbn [Fnum Fexp cond_Zopp].
    destruct (2 ^ 52 * 2 ^ 11 <=? bits)%Z eqn:Es; [|reflexivity].
    apply Z.leb_le in Es. change (2 ^ 52 * 2 ^ 11)%Z with (2 ^ 63)%Z in Es. lia.
  - rewrite (Zeq_bool_false ef 0) by exact N0.
    change (2 ^ 11 - 1)%Z with 2047%Z. rewrite (Zeq_bool_false ef 2047) by lia.
    replace (mf + 2 ^ 52)%Z with (2 ^ 52 + mf)%Z by ring.
    destruct (2 ^ 52 + mf)%Z as [|p|p] eqn:Ep.
    + exfalso. assert (0 < 2 ^ 52)%Z by reflexivity. lia.
    + split; [reflexivity|]. cbn [FF2R]. unfold F2R. cbn [Fnum Fexp].
      replace (ef + -1074 - 1)%Z with (ef - 1075)%Z by ring.
      destruct (2 ^ 52 * 2 ^ 11 <=? bits)%Z eqn:Es; [|reflexivity].
      apply Z.leb_le in Es. change (2 ^ 52 * 2 ^ 11)%Z with (2 ^ 63)%Z in Es. lia.
    + exfalso. assert (0 < 2 ^ 52)%Z by reflexivity. lia.
Qed.

(* ------------------------------------------------------------------------------------------ *)
(** * 4. [cmp_scaled], [inside] and [mk_fdec] over the reals                                   *)
(* ------------------------------------------------------------------------------------------ *)

Lemma cmp_scaled_R : forall c k n d, (0 < d)%Z ->
  cmp_scaled c k n d = Rcompare (IZR c * powerRZ 10 k) (IZR n / IZR d).
Proof.
  intros c k n d Hd. assert (HD : 0 < IZR d) by (apply IZR_lt; exact Hd).
  unfold cmp_scaled, pow10. destruct (Z.leb_spec 0 k) as [Hk|Hk].
  - rewrite <- Rcompare_IZR, !mult_IZR, pow10_pos by exact Hk.
    rewrite <- (Rcompare_mult_r (IZR d) (IZR c * powerRZ 10 k)) by exact HD.
    f_equal. field. lra.
  - rewrite <- Rcompare_IZR, !mult_IZR. rewrite pow10_neg by exact Hk.
    set (Q := IZR (10 ^ (- k))).
    assert (HQ : 0 < Q) by (apply IZR_lt, Z.pow_pos_nonneg; lia).
    rewrite <- (Rcompare_mult_r (Q * IZR d) (IZR c * / Q)) by (apply Rmult_lt_0_compat; assumption).
    f_equal; field; lra.
Qed.

(* the numerators of [mk_fdec] over its denominator: N * 2^(e-2) *)
Lemma scaled_num_R : forall N sh,
  (if (0 <=? sh)%Z then IZR (N * 2 ^ sh) / IZR 1 else IZR N / IZR (2 ^ (- sh))) = IZR N * bpow radix2 sh.
Proof.
  intros N sh. destruct (Z.leb_spec 0 sh) as [H|H].
  - rewrite mult_IZR, IZR_pow2 by exact H. field.
  - rewrite IZR_pow2 by lia. rewrite bpow_opp. unfold Rdiv. rewrite Rinv_inv. reflexivity.
Qed.

Definition lowgap_of (ef mf : Z) : Z := if ((mf =? 0) && (1 <? ef))%Z then 1%Z else 2%Z.

Lemma mk_fdec_R : forall ef mf,
  let f := mk_fdec ef mf in
  let m := sig_of ef mf in
  let b := bpow radix2 (exp_of ef - 2) in
  (0 < fd_den f)%Z /\ fd_incl f = Z.even m /\
  IZR (fd_lo f) / IZR (fd_den f) = IZR (4 * m - lowgap_of ef mf) * b /\
  IZR (fd_hi f) / IZR (fd_den f) = IZR (4 * m + 2) * b /\
  IZR (fd_x f) / IZR (fd_den f) = IZR (4 * m) * b.
Proof.
  intros ef mf f m b. unfold f, mk_fdec. fold (sig_of ef mf) (exp_of ef) (lowgap_of ef mf). fold m.
  cbv zeta. unfold b. set (sh := (exp_of ef - 2)%Z).
  pose proof (scaled_num_R (4 * m - lowgap_of ef mf) sh) as Hlo.
  pose proof (scaled_num_R (4 * m + 2) sh) as Hhi.
  pose proof (scaled_num_R (4 * m) sh) as Hx.
  destruct (0 <=? sh)%Z eqn:Es; cbn [fd_den fd_incl fd_lo fd_hi fd_x].
  - split; [reflexivity|]. split; [reflexivity|]. split; [exact Hlo|]. split; [exact Hhi|exact Hx].
  - apply Z.leb_gt in Es. split; [apply Z.pow_pos_nonneg; lia|]. split; [reflexivity|].
    split; [exact Hlo|]. split; [exact Hhi|exact Hx].
Qed.

(* [inside] accepts exactly the decimals in the interval (ends included when the significand is even) *)
Lemma inside_R : forall ef mf c k,
  inside (mk_fdec ef mf) c k = true ->
  let m := sig_of ef mf in
  let u := IZR c * powerRZ 10 k * bpow radix2 (- (exp_of ef - 2)) in
  IZR (4 * m - lowgap_of ef mf) <= u <= IZR (4 * m + 2) /\
  (Z.even m = true \/ IZR (4 * m - lowgap_of ef mf) < u < IZR (4 * m + 2)).
Proof.
  intros ef mf c k Hin m u.
  destruct (mk_fdec_R ef mf) as (Hden & Hincl & Hlo & Hhi & _). fold m in Hincl, Hlo, Hhi.
  unfold inside in Hin. rewrite !cmp_scaled_R in Hin by exact Hden.
  rewrite Hlo, Hhi, Hincl in Hin.
  set (b := bpow radix2 (exp_of ef - 2)) in *.
  assert (Hb : 0 < b) by apply bpow_gt_0.
  assert (Ev : IZR c * powerRZ 10 k = u * b).
  { unfold u, b. rewrite Rmult_assoc, <- bpow_plus. replace (- (exp_of ef - 2) + (exp_of ef - 2))%Z with 0%Z by ring.
    simpl. ring. }
  rewrite Ev in Hin. rewrite !Rcompare_mult_r in Hin by exact Hb.
  destruct (Rcompare_spec u (IZR (4 * m - lowgap_of ef mf))) as [L|L|L];
    destruct (Rcompare_spec u (IZR (4 * m + 2))) as [H|H|H]; try discriminate Hin.
  - split; [lra|left; exact Hin].
  - split; [lra|left; exact Hin].
  - split; [lra|right; lra].
  - split; [lra|left; exact Hin].
Qed.

(* ------------------------------------------------------------------------------------------ *)
(** * 5. Reading back                                                                          *)
(* ------------------------------------------------------------------------------------------ *)

Lemma finite_nonzero_strict : forall x : binary64, is_finite x = true -> B2R x <> 0 -> Binary.is_finite_strict 53 1024 x = true.
Proof.
  intros x Fx Nz. destruct x as [s|s|s pl Hpl|s m e He]; try discriminate Fx.
  - exfalso. apply Nz. reflexivity.
  - reflexivity.
Qed.

(* the fields of a finite non-zero pattern: significand, exponent and lower gap are as [rnd_in_interval] wants *)
Lemma fields_ok : forall ef mf, (0 <= ef < 2047)%Z -> (0 <= mf < 2 ^ 52)%Z -> (0 < ef \/ 0 < mf)%Z ->
  (-1074 <= exp_of ef <= 971)%Z /\ (0 < sig_of ef mf < 2 ^ 53)%Z /\
  ((lowgap_of ef mf = 1 /\ sig_of ef mf = 2 ^ 52 /\ -1074 < exp_of ef) \/
   (lowgap_of ef mf = 2 /\ (2 ^ 52 < sig_of ef mf \/ exp_of ef = -1074)))%Z.
Proof.
  intros ef mf Hef Hmf Hnz. unfold exp_of, sig_of, lowgap_of.
  change (2 ^ 53)%Z with 9007199254740992%Z. change (2 ^ 52)%Z with 4503599627370496%Z in *.
  destruct (Z.eqb_spec ef 0) as [E0|N0].
  - subst ef. rewrite andb_false_r. split; [lia|]. split; [lia|]. right. split; [reflexivity|right; reflexivity].
  - split; [lia|]. split; [lia|].
    destruct (Z.eqb_spec mf 0) as [M0|M0]; destruct (Z.ltb_spec 1 ef) as [L|L]; cbn [andb].
    + left. split; [reflexivity|]. split; lia.
    + right. split; [reflexivity|]. right. lia.
    + right. split; [reflexivity|]. left. lia.
    + right. split; [reflexivity|]. right. lia.
Qed.

(* every decimal accepted by [inside] is positive: the lower end of the interval is *)
Lemma inside_pos : forall ef mf c k, (0 <= ef < 2047)%Z -> (0 <= mf < 2 ^ 52)%Z -> (0 < ef \/ 0 < mf)%Z ->
  inside (mk_fdec ef mf) c k = true -> (0 < c)%Z.
Proof.
  intros ef mf c k Hef Hmf Hnz Hin.
  destruct (fields_ok ef mf Hef Hmf Hnz) as (_ & Hm & Hlg).
  destruct (inside_R ef mf c k Hin) as ((Hlo & _) & _).
  set (m := sig_of ef mf) in *. set (lg := lowgap_of ef mf) in *.
  assert (H1 : 1 <= IZR (4 * m - lg)) by (apply (IZR_le 1); lia).
  destruct (Z.lt_ge_cases 0 c) as [Hc|Hc]; [exact Hc|exfalso].
  assert (Hc' : IZR c <= 0) by (apply (IZR_le c 0); exact Hc).
  assert (Hp : 0 < powerRZ 10 k * bpow radix2 (- (exp_of ef - 2))).
  { apply Rmult_lt_0_compat; [apply powerRZ_lt; lra|apply bpow_gt_0]. }
  rewrite Rmult_assoc in Hlo. nra.
Qed.

Theorem inside_reads_back : forall bits ef mf c k,
  (0 <= bits < 2 ^ 63)%Z ->
  decode bits = (0, ef, mf)%Z -> (ef < 2047)%Z -> (0 < ef \/ 0 < mf)%Z ->
  inside (mk_fdec ef mf) c k = true ->
  f_of_dec c k = bits.
Proof.
  intros bits ef mf c k Hb Hd Hef Hnz Hin.
  destruct (decode_fields bits ef mf Hb Hd) as (Ref & Rmf & _ & _).
  assert (Hef' : (0 <= ef < 2047)%Z) by lia.
  destruct (fields_ok ef mf Hef' Rmf Hnz) as (He & Hm & Hlg).
  pose proof (inside_pos ef mf c k Hef' Rmf Hnz Hin) as Hc.
  destruct (bits_B2R bits ef mf Hb Hd Hef Hnz) as (Fy & Vy).
  destruct (inside_R ef mf c k Hin) as (Hu & Hev).
  set (m := sig_of ef mf) in *. set (e := exp_of ef) in *. set (lg := lowgap_of ef mf) in *.
  set (v := IZR c * powerRZ 10 k) in *.
  set (u := v * bpow radix2 (- (e - 2))) in *.
  assert (Ev : v = u * bpow radix2 (e - 2)).
  { unfold u. rewrite Rmult_assoc, <- bpow_plus. replace (- (e - 2) + (e - 2))%Z with 0%Z by ring. simpl. ring. }
  assert (Hr : rnd v = IZR m * bpow radix2 e).
  { rewrite Ev. apply (rnd_in_interval m e lg u); [lia|exact Hm|exact Hlg|exact Hu|exact Hev]. }
  assert (Hxpos : 0 < IZR m * bpow radix2 e).
  { apply Rmult_lt_0_compat; [apply (IZR_lt 0); lia|apply bpow_gt_0]. }
  assert (Hxmax : IZR m * bpow radix2 e < fmax).
  { apply Rlt_le_trans with (bpow radix2 53 * bpow radix2 e).
    - apply Rmult_lt_compat_r; [apply bpow_gt_0|]. rewrite <- IZR_pow2 by lia. apply IZR_lt. lia.
    - rewrite <- bpow_plus. apply bpow_le. lia. }
  destruct (f_of_dec_spec c k ltac:(lia)) as (Hfin & _). cbv zeta in Hfin. fold v in Hfin.
  rewrite Hr in Hfin. rewrite Rabs_pos_eq in Hfin by lra.
  destruct (Hfin Hxmax) as (Fr & Vr).
  assert (Eq : b64_of_bits (f_of_dec c k) = b64_of_bits bits).
  { apply B2R_inj.
    - apply finite_nonzero_strict; [exact Fr|]. rewrite Vr. lra.
    - apply finite_nonzero_strict; [exact Fy|]. rewrite Vy. lra.
    - rewrite Vr, Vy. reflexivity. }
  rewrite <- (bits_of_b64_of_bits (f_of_dec c k)).
  - rewrite Eq. apply bits_of_b64_of_bits. unfold valid_bits.
    assert (2 ^ 63 < 2 ^ 64)%Z by reflexivity. lia.
  - pose proof (f_ops_valid 0%Z 0%Z 0%Z c k) as V. apply V.
Qed.

(* the digits the formatter prints for a finite non-zero float64 read back as that float64 *)
Corollary shortest_reads_back : forall bits ef mf fuel p n c k,
  (0 <= bits < 2 ^ 63)%Z ->
  decode bits = (0, ef, mf)%Z -> (ef < 2047)%Z -> (0 < ef \/ 0 < mf)%Z ->
  shortest fuel (mk_fdec ef mf) p n = Some (c, k) ->
  f_of_dec c k = bits.
Proof.
  intros bits ef mf fuel p n c k Hb Hd Hef Hnz Hs.
  apply (inside_reads_back bits ef mf c k Hb Hd Hef Hnz). exact (shortest_inside _ _ _ _ _ _ Hs).
Qed.

Print Assumptions inside_reads_back.
Print Assumptions shortest_reads_back.
