(* C01, last clause: "... and rendering the output again yields the same output."
   For a scanned document the printed tree  out = print_plain (build toks)  scans again, to tokens of the
   same kinds, names, attribute names and raw values (text, comments, CDATA and element-closing tags
   byte for byte, the other tags re-printed), and printing that tree gives [out] again.

   Method: one invariant over the run of the scanner on the SOURCE that describes, for every way of
   printing the tokens emitted so far (each verbatim or, tags only, by print_tag), the state of the scanner
   run on the PRINTED text.  Verbatim pieces are replayed with the position-insensitive simulation of
   HoleSim.v from the last token boundary of the source run (history invariant); re-printed tags use the
   name/value invariants of IdemTagWf.v and the re-scan lemma of IdemRescan.v; re-printed close tags of
   raw-text elements use IdemRaw.v. *)
From Coq Require Import List NArith Bool Lia Arith.
From Tpl Require Import Html.Scan Html.Tree Proofs.ScanSpec Proofs.ScanConcat Proofs.PrintScanDefs Proofs.PrintScanSteps
  Proofs.TagPrint Proofs.ExecSpec Proofs.TagPrintTree Proofs.HoleSim Proofs.IdemTagWf Proofs.IdemRescan Proofs.IdemRaw.
Import ListNotations.
Open Scope N_scope.
Local Arguments adv : simpl never.
Local Arguments Scan.step : simpl never.

(* same kind, name, attribute names and raw values *)
Definition tsame (t t2 : token) : Prop :=
  t_kind t2 = t_kind t /\ t_name t2 = t_name t /\ map ashape (t_attrs t2) = map ashape (t_attrs t).

(* source tokens, their printed pieces, the tokens scanned from the printed text *)
Inductive rel3 : list token -> list str -> list token -> Prop :=
| R3nil : rel3 [] [] []
| R3cons t o t2 l lo l2 : tsame t t2 -> t_value t2 = o -> rel3 l lo l2 -> rel3 (t :: l) (o :: lo) (t2 :: l2).

Lemma rel3_app a b c a' b' c' : rel3 a b c -> rel3 a' b' c' -> rel3 (a ++ a') (b ++ b') (c ++ c').
Proof. induction 1; intros H'; cbn [app]; [exact H'|constructor; auto]. Qed.

Lemma rel3_rev a b c : rel3 a b c -> rel3 (rev a) (rev b) (rev c).
Proof.
  induction 1 as [|t o t2 l lo l2 H1 H2 H3 IH]; [constructor|]. cbn [rev].
  apply rel3_app; [exact IH|]. constructor; [exact H1|exact H2|constructor].
Qed.

Lemma Forall2_rev {A B} (R : A -> B -> Prop) l l' : Forall2 R l l' -> Forall2 R (rev l) (rev l').
Proof.
  induction 1 as [|x y l l' Hxy _ IH]; [constructor|]. cbn [rev].
  apply Forall2_app; [exact IH|]. constructor; [exact Hxy|constructor].
Qed.

Lemma app_self_nil {A} (l a : list A) : l ++ a = a -> l = [].
Proof.
  intros H. apply (f_equal (@length A)) in H. rewrite app_length in H.
  destruct l; [reflexivity|cbn [length] in H; lia].
Qed.

Lemma tok_np_tsame t t2 : tok_np t = tok_np t2 -> tsame t t2 /\ t_value t2 = t_value t.
Proof. unfold tok_np, tsame. intros H. injection H as H1 H2 H3 H4. repeat split; congruence. Qed.

Lemma concat_rev_cons (o : str) (l : list str) : concat (rev (o :: l)) = concat (rev l) ++ o.
Proof. cbn [rev]. rewrite concat_app. cbn [concat]. rewrite app_nil_r. reflexivity. Qed.

Section P.
Variable is_space : rune -> bool.
Variable to_lower : rune -> rune.
Variable text_tags : list str.
Variable attr_prefix : str.
Variable compile : attr -> bool.
Hypothesis Hsp : is_space cSP = true.
Hypothesis Hgt : is_space cGT = false.
Hypothesis Heq : is_space cEQ = false.
Hypothesis Hdq : is_space cDQ = false.
Hypothesis HltS : is_space cLT = false.
Hypothesis HslL : forall c, to_lower c = cSLASH -> c = cSLASH.
(* the attribute compiler does not look at source positions *)
Hypothesis Hcomp : forall a1 a2, a_name a1 = a_name a2 -> a_value a1 = a_value a2 -> compile a1 = compile a2.

Notation step := (Scan.step is_space to_lower text_tags attr_prefix compile).
Notation run := (@fold_left sstate rune (Scan.step is_space to_lower text_tags attr_prefix compile)).
Notation scan := (Scan.scan is_space to_lower text_tags attr_prefix compile).
Notation text_step := (Scan.text_step is_space to_lower).
Notation tag_step := (Scan.tag_step is_space attr_prefix compile).
Notation new_text := (Scan.new_text to_lower text_tags).
Notation raw_tag_of_last := (Scan.raw_tag_of_last to_lower text_tags).
Notation lower := (Scan.lower to_lower).
Notation nsp := (TagPrint.nsp is_space).
Notation G := (IdemTagWf.G is_space attr_prefix compile).
Notation G0 := (IdemTagWf.G0 is_space attr_prefix compile).
Notation twf := (IdemTagWf.twf is_space attr_prefix compile).
Notation tokfacts := (IdemTagWf.tokfacts is_space attr_prefix compile).
Notation rx_ok := (IdemRaw.rx_ok is_space to_lower text_tags).
Notation simB := (HoleSim.simB to_lower text_tags).
Notation minv := ScanConcat.minv.

Lemma run_snoc (w : str) (r : rune) s : run (w ++ [r]) s = step (run w s) r.
Proof. rewrite fold_left_app. reflexivity. Qed.

Lemma rel3_raw a b c : rel3 a b c -> raw_tag_of_last a = raw_tag_of_last c.
Proof.
  intros [|t o t2 l lo l2 (Hk & Hn & _) _ _]; [reflexivity|].
  unfold Scan.raw_tag_of_last. rewrite Hk, Hn. reflexivity.
Qed.

(* ---------- the simulation of HoleSim, from a token boundary ---------- *)
Lemma simB_start o1 o2 p q m1 m2 :
  mode_rel m1 m2 -> raw_tag_of_last o1 = raw_tag_of_last o2 ->
  simB o1 o2 (mkS o1 p m1) (mkS o2 q m2).
Proof. intros Hm Hr. apply (SB to_lower text_tags o1 o2 [] []); [reflexivity|exact Hm|intros _; exact Hr]. Qed.

Lemma simB_inv o1 o2 n p m s2 :
  simB o1 o2 (mkS (n ++ o1) p m) s2 ->
  exists n2 q m2, s2 = mkS (n2 ++ o2) q m2 /\ map tok_np n = map tok_np n2 /\ mode_rel m m2.
Proof.
  intros H. inversion H as [n1 n2 p1 p2 m1 m2 Hn Hm Hraw E1 E2]. subst.
  apply app_inv_tail in E1. subst n1. exists n2, p2, m2. auto.
Qed.

Lemma run_sim o1 o2 (w : str) p q m1 m2 n p' m' :
  mode_rel m1 m2 -> raw_tag_of_last o1 = raw_tag_of_last o2 ->
  run w (mkS o1 p m1) = mkS (n ++ o1) p' m' ->
  exists n2 q' m2', run w (mkS o2 q m2) = mkS (n2 ++ o2) q' m2' /\ map tok_np n = map tok_np n2 /\ mode_rel m' m2'.
Proof.
  intros Hm Hr E.
  pose proof (runB is_space to_lower text_tags attr_prefix compile Hcomp o1 o2 w _ _ (simB_start o1 o2 p q m1 m2 Hm Hr)) as S.
  rewrite E in S. apply simB_inv in S. exact S.
Qed.

Lemma new_tag_rel p0 q0 : mode_rel (MTag (new_tag p0)) (MTag (new_tag q0)).
Proof. constructor. unfold new_tag. constructor; [apply buf_rel_refl|apply attrs_rel_0|reflexivity]. Qed.

(* ---------- what has been consumed since a boundary (ScanConcat) ---------- *)
Lemma consumed_init toks p (w : str) :
  minv (s_toks (run w (mkS toks p MInit))) (s_mode (run w (mkS toks p MInit))) (vals toks ++ w).
Proof.
  apply (ScanConcat.fold_inv is_space to_lower text_tags attr_prefix compile w (mkS toks p MInit) (vals toks)).
  reflexivity.
Qed.

Lemma consumed_tag toks p p0 (w : str) :
  minv (s_toks (run w (mkS toks p (MTag (new_tag p0))))) (s_mode (run w (mkS toks p (MTag (new_tag p0)))))
       ((vals toks ++ [cLT]) ++ w).
Proof.
  apply (ScanConcat.fold_inv is_space to_lower text_tags attr_prefix compile w (mkS toks p (MTag (new_tag p0))) (vals toks ++ [cLT])).
  cbn [s_toks s_mode ScanConcat.minv]. split; [reflexivity|]. unfold tag_ok, new_tag; tag_cbn. auto.
Qed.

(* ---------- the source-side invariant ---------- *)
Definition Hinv (s : sstate) : Prop :=
  match s_mode s with
  | MInit | MErr _ => True
  | MTag g => G g /\ exists (w : str) p p0, s = run w (mkS (s_toks s) p (MTag (new_tag p0)))
  | MText x => rx_ok x /\ exists (w : str) p, s = run w (mkS (s_toks s) p MInit) /\
       (x_raw x = true -> x_tagbuf x <> [] -> exists pre : str, x_buf x = pre ++ x_tagbuf x /\
            rawready to_lower text_tags (run pre (mkS (s_toks s) p MInit)) (s_toks s) pre (x_close x))
  end.

(* ---------- the invariant about the printed text ---------- *)
(* the valued attributes of the tag are accepted by the compiler wherever they stand *)
Definition tok_prem (t : token) : Prop := t_kind t = KTag -> ccond compile t.

Definition Jm (m : mode) (toks2 : list token) (O : sstate) : Prop :=
  match m with
  | MErr _ => True
  | MTag _ => exists q q0, step O cLT = mkS toks2 q (MTag (new_tag q0))
  | _ => exists q, O = mkS toks2 q MInit
  end.

Definition J (s : sstate) : Prop :=
  forall routs, Forall2 printed_as (s_toks s) routs -> Forall tok_prem (s_toks s) ->
  exists toks2, rel3 (s_toks s) routs toks2 /\ Jm (s_mode s) toks2 (run (concat (rev routs)) init).

(* every tag token emitted so far obeys the name/value facts, or is the close tag of a raw-text element *)
Definition tokP (t : token) : Prop :=
  (t_kind t = KTag -> twf t \/ raw_close_like is_space to_lower text_tags t) /\
  (t_kind t <> KTag -> t_attrs t = []).
Lemma tokP_nontag t : t_kind t <> KTag -> t_attrs t = [] -> tokP t.
Proof. intros H Ha. split; [intros Hk; contradiction|intros _; exact Ha]. Qed.

Definition Inv (s : sstate) : Prop := Hinv s /\ J s /\ Forall tokP (s_toks s).

Lemma J_err toks p e : J (mkS toks p (MErr e)).
Proof.
  intros routs F _. cbn [s_toks s_mode Jm] in *.
  assert (exists toks2, rel3 toks routs toks2) as (toks2 & H).
  { clear -F. induction F as [|t o l lo _ _ (l2 & IH)]; [exists []; constructor|].
    exists (mkTok (t_kind t) o (0,0) (0,0) (t_name t) (t_attrs t) :: l2). constructor; [|reflexivity|exact IH].
    repeat split. }
  exists toks2. split; [exact H|exact I].
Qed.

(* same tokens, same class of mode *)
Lemma J_same s toks p m :
  J s -> s_toks s = toks ->
  (forall toks2 O, Jm (s_mode s) toks2 O -> Jm m toks2 O) ->
  J (mkS toks p m).
Proof.
  intros HJ <- Hm routs F P. cbn [s_toks s_mode] in *.
  destruct (HJ routs F P) as (toks2 & R & M). exists toks2. split; [exact R|apply Hm; exact M].
Qed.

(* ---------- compile facts of an emitted tag ---------- *)
Lemma twf_ccond t : twf t -> no_synth_else attr_prefix t -> ccond compile t.
Proof.
  intros (_ & _ & Hc) Hn a v Hi Hv a' Hn' Hv'. rewrite Forall_forall in Hc.
  destruct (Hc a Hi) as [H|[H|[H1 H2]]].
  - rewrite Hv in H. discriminate.
  - rewrite (Hcomp a' a); [exact H|exact Hn'|rewrite Hv, Hv'; reflexivity].
  - exfalso. exact (Hn a Hi H1 H2).
Qed.

(* ================= the step cases ================= *)

(* ----- a token emitted from a tag state ----- *)
Lemma emit_from_tag s toks (w : str) pa p0 (r : rune) t p1 g :
  s = run w (mkS toks pa (MTag (new_tag p0))) -> s_toks s = toks -> s_mode s = MTag g ->
  step s r = mkS (t :: toks) p1 MInit ->
  tokfacts t -> J s -> J (mkS (t :: toks) p1 MInit).
Proof.
  intros Es Ht Hm E0 Hf HJ routs F P. cbn [s_toks s_mode Jm] in *.
  assert (E : run (w ++ [r]) (mkS toks pa (MTag (new_tag p0))) = mkS (t :: toks) p1 MInit)
    by (rewrite run_snoc, <- Es; exact E0).
  inversion F as [|t' o l routs0 Hto F0]; subst t' l routs.
  inversion P as [|t' l Pt P0]; subst t' l.
  unfold J in HJ. rewrite Ht in HJ. destruct (HJ routs0 F0 P0) as (toks2 & R & M). rewrite Hm in M.
  destruct M as (q & q0 & EO).
  pose proof (consumed_tag toks pa p0 (w ++ [r])) as C. rewrite E in C. cbn [s_toks s_mode ScanConcat.minv] in C.
  rewrite vals_cons, <- !app_assoc in C. apply app_inv_head in C.
  rewrite concat_rev_cons, fold_left_app.
  set (O := run (concat (rev routs0)) init) in *.
  destruct Hto as [Hnt [Ho|[Hk Ho]]].
  - (* verbatim *)
    rewrite Ho, C. cbn [app fold_left]. rewrite EO.
    destruct (run_sim toks toks2 (w ++ [r]) pa q _ _ [t] p1 MInit (new_tag_rel p0 q0) (rel3_raw _ _ _ R) E)
      as (n2 & q' & m2' & E2 & Hn & Hm2).
    rewrite E2. destruct n2 as [|t2 [|? ?]]; try discriminate Hn. cbn [map] in Hn. apply (f_equal (hd (tok_np t))) in Hn. cbn [hd] in Hn.
    apply tok_np_tsame in Hn as [Hs Hv]. inversion Hm2; subst.
    exists (t2 :: toks2). split; [|eexists; reflexivity].
    constructor; [exact Hs|rewrite Hv, C; reflexivity|exact R].
  - (* re-printed *)
    destruct Hf as [Hf _]. specialize (Hf Hk). specialize (Pt Hk).
    destruct (reprint_tag is_space to_lower text_tags attr_prefix compile Hsp Hgt Heq toks2 q q0 t Hf Pt)
      as (q' & tok & E2 & Hk2 & Hn2 & Ha2).
    assert (Hp : print_tag t = cLT :: tl (print_tag t)) by reflexivity.
    rewrite Ho, Hp. cbn [fold_left]. rewrite EO, E2.
    pose proof (consumed_tag toks2 q q0 (tl (print_tag t))) as C2. rewrite E2 in C2.
    cbn [s_toks s_mode ScanConcat.minv] in C2. rewrite vals_cons, <- !app_assoc in C2. apply app_inv_head in C2.
    exists (tok :: toks2). split; [|eexists; reflexivity].
    constructor; [|rewrite C2, Hp; reflexivity|exact R].
    split; [rewrite Hk2, Hk; reflexivity|]. split; assumption.
Qed.

(* ----- one rune in a tag state ----- *)
Lemma tag_mode_step toks p g (r : rune) : G g ->
  (exists g', step (mkS toks p (MTag g)) r = mkS toks (adv p r) (MTag g') /\ G g') \/
  (exists e, step (mkS toks p (MTag g)) r = mkS toks (adv p r) (MErr e)) \/
  (exists t, step (mkS toks p (MTag g)) r = mkS (t :: toks) (adv p r) MInit /\ tokfacts t).
Proof.
  intros HG. unfold Scan.step. cbn [s_toks s_pos s_mode dispatch].
  pose proof (tag_step_ok is_space attr_prefix compile Hsp Hdq toks g r p (adv p r) HG) as R.
  destruct (tag_step toks g r p (adv p r)) as [toks' m u].
  destruct m as [|x|g'|e]; destruct u; cbn [res_ok] in R; try contradiction.
  - destruct R as (t & -> & Hf). right; right. exists t. split; [reflexivity|exact Hf].
  - destruct R as (-> & HG0 & Hs & Hg). cbn [dispatch].
    pose proof (tag_step_ok0 is_space attr_prefix compile toks g' r p (adv p r) HG0 Hs Hg) as R2.
    destruct (tag_step toks g' r p (adv p r)) as [toks'' m'' u''].
    destruct m'' as [|x|g''|e]; try contradiction. destruct u''; [contradiction|].
    destruct R2 as (-> & HG2). left. exists g''. split; [reflexivity|exact HG2].
  - destruct R as (-> & HG'). left. exists g'. split; [reflexivity|exact HG'].
  - subst toks'. right; left. exists e. reflexivity.
Qed.

Lemma step_tag toks p g (r : rune) : Inv (mkS toks p (MTag g)) -> Inv (step (mkS toks p (MTag g)) r).
Proof.
  intros (HH & HJ & HT). unfold Hinv in HH. cbn [s_mode s_toks] in HH. destruct HH as (HG & w & pa & p0 & Es).
  destruct (tag_mode_step toks p g r HG) as [(g' & E & HG')|[(e & E)|(t & E & Hf)]]; rewrite E.
  - split; [|split; [|exact HT]].
    + unfold Hinv. cbn [s_mode s_toks]. split; [exact HG'|]. exists (w ++ [r]), pa, p0.
      rewrite run_snoc, <- Es. symmetry. exact E.
    + apply (J_same _ toks _ _ HJ eq_refl). intros toks2 O M. exact M.
  - split; [exact I|split; [apply J_err|exact HT]].
  - split; [exact I|]. split; [eapply (emit_from_tag _ toks w pa p0 r t (adv p r) g Es eq_refl eq_refl E Hf HJ)|].
    constructor; [|exact HT]. split; [intros Hk; left; exact (proj1 Hf Hk)|intros Hk; exact (proj2 (proj2 Hf Hk))].
Qed.

Lemma step_err toks p e (r : rune) : Inv (mkS toks p (MErr e)) -> Inv (step (mkS toks p (MErr e)) r).
Proof. intros (_ & _ & HT). split; [exact I|split; [apply J_err|exact HT]]. Qed.

Lemma rx_nonraw b st cl rn e tb nb : rx_ok (mkText b st false cl rn e tb nb).
Proof. split; [unfold TagPrint.tx_ok|]; text_cbn; intros H; discriminate H. Qed.

Lemma new_tag_inv toks p1 p0 : Hinv (mkS toks p1 (MTag (new_tag p0))).
Proof.
  unfold Hinv. cbn [s_mode s_toks]. split; [apply new_tag_G|]. exists [], p1, p0. reflexivity.
Qed.

(* ----- a text token completed by '<' ----- *)
Lemma emit_text_lt toks p (buf : str) st cl rn e tb nb (w : str) pa :
  mkS toks p (MText (mkText buf st false cl rn e tb nb)) = run w (mkS toks pa MInit) ->
  J (mkS toks p (MText (mkText buf st false cl rn e tb nb))) ->
  J (mkS (mkTok KText buf st p [] [] :: toks) (adv p cLT) (MTag (new_tag p))).
Proof.
  intros Es HJ routs F P. cbn [s_toks s_mode Jm] in *.
  inversion F as [|t' o l routs0 Hto F0]; subst t' l routs.
  inversion P as [|t' l Pt P0]; subst t' l.
  destruct (HJ routs0 F0 P0) as (toks2 & R & (q & EO)).
  destruct Hto as [Hnt _]. cbn [t_kind t_value] in Hnt. specialize (Hnt ltac:(discriminate)). subst o.
  pose proof (consumed_init toks pa w) as C. rewrite <- Es in C. cbn [s_toks s_mode ScanConcat.minv x_buf] in C.
  destruct C as [C _]. apply app_inv_head in C. subst w.
  destruct (run_sim toks toks2 buf pa q MInit MInit [] p _ MR_init (rel3_raw _ _ _ R) (eq_sym Es))
    as (n2 & q' & m2' & E2 & Hn & Hm2).
  destruct n2; [|discriminate Hn]. cbn [app] in E2.
  inversion Hm2 as [|x1 x2 Hx| |]; subst. inversion Hx; subst.
  rewrite concat_rev_cons, fold_left_app, EO, E2.
  eexists. split; [|eexists _, _; apply text_lt].
  constructor; [repeat split|reflexivity|exact R].
Qed.

Lemma rawready_sim toks toks2 (pre : str) pa q close :
  raw_tag_of_last toks = raw_tag_of_last toks2 ->
  rawready to_lower text_tags (run pre (mkS toks pa MInit)) toks pre close ->
  rawready to_lower text_tags (run pre (mkS toks2 q MInit)) toks2 pre close.
Proof.
  intros Hr (Ht & Hc). destruct (run pre (mkS toks pa MInit)) as [tk p' m'] eqn:E. cbn [s_toks s_mode] in *. subst tk.
  destruct (run_sim toks toks2 pre pa q MInit MInit [] p' m' MR_init Hr E) as (n2 & q' & m2' & E2 & Hn & Hm2).
  destruct n2; [|discriminate Hn]. cbn [app] in E2. rewrite E2. split; [reflexivity|]. cbn [s_mode].
  destruct Hc as [(-> & -> & n & Hn' & ->)|(x0 & -> & H1 & H2 & H3)].
  - left. inversion Hm2; subst. split; [reflexivity|]. split; [reflexivity|]. exists n. rewrite <- Hr. auto.
  - right. destruct x0 as [b0 st0 rw0 cl0 rn0 e0 tb0 nb0]. text_cbn_in H1. text_cbn_in H2. text_cbn_in H3.
    inversion Hm2 as [|x1 x2 Hx| |]; subst. inversion Hx; subst.
    eexists. split; [reflexivity|]. text_cbn. auto.
Qed.

Lemma nsp_forall (P : rune -> Prop) (l : str) :
  Forall P l -> Forall (fun c => P c /\ is_space c = false) (nsp l).
Proof.
  intros H. rewrite Forall_forall in *. intros c Hc. unfold TagPrint.nsp in Hc. apply filter_In in Hc as [Hi Hs].
  split; [apply H; exact Hi|]. apply negb_true_iff in Hs. exact Hs.
Qed.

(* ----- the close tag of a raw-text element (with the text before it) ----- *)
Lemma emit_raw toks p x (w : str) pa p1 :
  mkS toks p (MText x) = run w (mkS toks pa MInit) ->
  x_raw x = true -> rx_ok x ->
  (x_tagbuf x <> [] -> exists pre : str, x_buf x = pre ++ x_tagbuf x /\
       rawready to_lower text_tags (run pre (mkS toks pa MInit)) toks pre (x_close x)) ->
  x_tagbuf x <> [] -> prefixb (lower (x_namebuf x ++ [cGT])) (x_close x) = true ->
  step (mkS toks p (MText x)) cGT = mkS (raw_emit is_space toks x cGT p1) p1 MInit ->
  J (mkS toks p (MText x)) -> J (mkS (raw_emit is_space toks x cGT p1) p1 MInit).
Proof.
  intros Es Er Hrx RC Hne Hp E0 HJ.
  destruct (raw_emit_close is_space to_lower text_tags Hgt toks x p1 Er Hrx Hne Hp)
    as (t2 & rest & Hemit & Hc & Hk & Hv2 & Hn2 & Hrest & Hnil).
  rewrite Hemit in *.
  assert (E : run (w ++ [cGT]) (mkS toks pa MInit) = mkS (t2 :: rest) p1 MInit)
    by (rewrite run_snoc, <- Es; exact E0).
  pose proof (consumed_init toks pa (w ++ [cGT])) as C. rewrite E in C. cbn [s_toks s_mode ScanConcat.minv] in C.
  (* facts for the re-printed spelling *)
  assert (Hpr : exists (pre body : str),
             print_tag t2 = (cLT :: body) ++ [cGT] /\
             Forall (fun c => N.eqb c cLT = false /\ N.eqb c cGT = false /\ is_space c = false) body /\
             prefixb (lower ((cLT :: body) ++ [cGT])) (x_close x) = true /\
             t_name t2 = written_close_name ((cLT :: body) ++ [cGT]) /\
             firstn (length (x_buf x) + 1 - length (x_tagbuf x ++ [cGT])) (x_buf x) = pre /\
             rawready to_lower text_tags (run pre (mkS toks pa MInit)) toks pre (x_close x)).
  { destruct (RC Hne) as (pre & Hb & Hrr).
    destruct Hrx as (Htx & Htb). destruct (Htx Er) as (Hnb & _). destruct (Htb Er) as [Htb'|(rest0 & Htb' & Hf)]; [contradiction|].
    assert (Hnb2 : x_namebuf x = cLT :: nsp rest0).
    { rewrite Hnb, Htb'. unfold TagPrint.nsp. cbn [filter]. rewrite HltS. reflexivity. }
    exists pre, (nsp rest0). split; [|split; [|split; [|split; [|split]]]].
    - rewrite (raw_close_exact is_space to_lower text_tags HltS Hgt HslL t2 Hc), Hn2, Hnb2. reflexivity.
    - eapply Forall_impl; [|apply (nsp_forall _ _ Hf)]. intros c ((H1 & H2) & H3). auto.
    - rewrite <- Hnb2. exact Hp.
    - destruct Hc as (_ & Hn & _). rewrite Hn, Hn2, Hnb2. reflexivity.
    - rewrite Hb. apply (firstn_pre_app pre (x_tagbuf x) cGT).
    - exact Hrr. }
  intros routs F P. cbn [s_toks s_mode Jm] in *.
  inversion F as [|t' o2 l routs1 Hto2 F1]; subst t' l routs.
  inversion P as [|t' l Pt P1]; subst t' l.
  destruct Hrest as [->|(t1 & -> & Hk1 & Hn1 & Ha1 & Hv1 & Hne1)].
  - (* no text before the close tag *)
    destruct (HJ routs1 F1 P1) as (toks2 & R & (q & EO)).
    rewrite vals_cons in C. apply app_inv_head in C.
    rewrite concat_rev_cons, fold_left_app, EO.
    destruct Hto2 as [_ [Ho|[_ Ho]]].
    + rewrite Ho, C.
      destruct (run_sim toks toks2 (w ++ [cGT]) pa q MInit MInit [t2] p1 MInit MR_init (rel3_raw _ _ _ R) E)
        as (n2 & q' & m2' & E2 & Hn & Hm2).
      rewrite E2. destruct n2 as [|t2' [|? ?]]; try discriminate Hn. cbn [map] in Hn.
      apply (f_equal (hd (tok_np t2))) in Hn. cbn [hd] in Hn. apply tok_np_tsame in Hn as [Hs Hv]. inversion Hm2; subst.
      exists (t2' :: toks2). split; [|eexists; reflexivity].
      constructor; [exact Hs|rewrite Hv, C; reflexivity|exact R].
    + destruct Hpr as (pre & body & Hpt & Hfb & Hpb & Hnm & Hpre & Hrr).
      rewrite (Hnil eq_refl) in Hpre. subst pre.
      pose proof (rawready_sim toks toks2 [] pa q (x_close x) (rel3_raw _ _ _ R) Hrr) as Hrr2.
      destruct (raw_close_rescan is_space to_lower text_tags attr_prefix compile HltS Hgt _ toks2 [] (x_close x) body Hrr2 Hfb Hpb)
        as (p' & st & e & e2 & E2).
      cbn [fold_left] in E2. rewrite Ho, Hpt, E2.
      eexists. split; [|eexists; reflexivity].
      constructor; [|reflexivity|exact R].
      split; [rewrite Hk; reflexivity|]. split; [rewrite Hnm; reflexivity|].
      destruct Hc as (Ha & _). rewrite Ha. reflexivity.
  - (* text, then the close tag *)
    inversion F1 as [|t' o1 l routs0 Hto1 F0]; subst t' l routs1.
    inversion P1 as [|t' l Pt1 P0]; subst t' l.
    destruct (HJ routs0 F0 P0) as (toks2 & R & (q & EO)).
    destruct Hto1 as [Hnt1 _]. specialize (Hnt1 ltac:(rewrite Hk1; discriminate)). subst o1.
    rewrite !vals_cons, <- app_assoc in C. apply app_inv_head in C.
    rewrite !concat_rev_cons, <- app_assoc, fold_left_app, EO.
    destruct Hto2 as [_ [Ho|[_ Ho]]].
    + rewrite Ho, C.
      destruct (run_sim toks toks2 (w ++ [cGT]) pa q MInit MInit [t2; t1] p1 MInit MR_init (rel3_raw _ _ _ R) E)
        as (n2 & q' & m2' & E2 & Hn & Hm2).
      rewrite E2. destruct n2 as [|t2' [|t1' [|? ?]]]; try discriminate Hn. cbn [map] in Hn.
      pose proof (f_equal (hd (tok_np t2)) Hn) as Hna. cbn [hd] in Hna.
      pose proof (f_equal (fun l => hd (tok_np t1) (tl l)) Hn) as Hnb. cbn [hd tl] in Hnb.
      apply tok_np_tsame in Hna as [Hs2 Hv2']. apply tok_np_tsame in Hnb as [Hs1 Hv1']. inversion Hm2; subst.
      exists (t2' :: t1' :: toks2). split; [|eexists; reflexivity].
      constructor; [exact Hs2|exact Hv2'|]. constructor; [exact Hs1|exact Hv1'|exact R].
    + destruct Hpr as (pre & body & Hpt & Hfb & Hpb & Hnm & Hpre & Hrr).
      rewrite <- Hv1 in Hpre. subst pre.
      pose proof (rawready_sim toks toks2 (t_value t1) pa q (x_close x) (rel3_raw _ _ _ R) Hrr) as Hrr2.
      destruct (raw_close_rescan is_space to_lower text_tags attr_prefix compile HltS Hgt _ toks2 (t_value t1) (x_close x) body Hrr2 Hfb Hpb)
        as (p' & st & e & e2 & E2).
      rewrite fold_left_app, Ho, Hpt, E2.
      destruct (t_value t1) as [|c tv] eqn:Ev1; [contradiction Hne1; reflexivity|].
      eexists. split; [|eexists; reflexivity].
      constructor; [|reflexivity|].
      * split; [rewrite Hk; reflexivity|]. split; [rewrite Hnm; reflexivity|].
        destruct Hc as (Ha & _). rewrite Ha. reflexivity.
      * constructor; [|reflexivity|exact R].
        split; [rewrite Hk1; reflexivity|]. split; [rewrite Hn1; reflexivity|rewrite Ha1; reflexivity].
Qed.

(* ----- one rune in a text state ----- *)
Lemma step_text_eq toks p x (r : rune) t m :
  text_step toks x r p (adv p r) = TR t m false -> step (mkS toks p (MText x)) r = mkS t (adv p r) m.
Proof. intros E. unfold Scan.step. cbn [s_toks s_pos s_mode dispatch]. rewrite E. reflexivity. Qed.

Lemma step_init_raw_eq toks p (r : rune) n t m :
  raw_tag_of_last toks = Some n -> text_step toks (new_text toks p) r p (adv p r) = TR t m false ->
  step (mkS toks p MInit) r = mkS t (adv p r) m.
Proof. intros Hr E. unfold Scan.step. cbn [s_toks s_pos s_mode dispatch]. rewrite Hr, E. reflexivity. Qed.

Lemma step_text toks p x (r : rune) : Inv (mkS toks p (MText x)) -> Inv (step (mkS toks p (MText x)) r).
Proof.
  intros (HH & HJ & HT). unfold Hinv in HH. cbn [s_mode s_toks] in HH. destruct HH as (Hrx & w & pa & Es & RC).
  destruct (x_raw x) eqn:Er.
  - destruct (raw_step is_space to_lower text_tags HltS Hgt toks x r p (adv p r) Er Hrx)
      as [(x' & E & Er' & Hb' & Hcl' & Hrx' & Hcases)|(Hgt' & Hne & Hp & E)].
    + pose proof (step_text_eq _ _ _ _ _ _ E) as Est. rewrite Est. split; [|split; [|exact HT]].
      * unfold Hinv. cbn [s_mode s_toks]. split; [exact Hrx'|]. exists (w ++ [r]), pa.
        split; [rewrite run_snoc, <- Es; symmetry; exact Est|]. intros _ Hne'.
        destruct Hcases as [H|[(Hlt & Htb)|(Hne & Hlt & Htb)]]; [contradiction| |].
        -- exists (x_buf x). split; [rewrite Hb', Htb; reflexivity|].
           pose proof (consumed_init toks pa w) as C. rewrite <- Es in C. cbn [s_toks s_mode ScanConcat.minv] in C.
           destruct C as [C _]. apply app_inv_head in C. rewrite C, <- Es.
           split; [reflexivity|]. right. exists x. cbn [s_mode]. rewrite <- C. auto.
        -- destruct (RC eq_refl Hne) as (pre & Hb & Hrr). exists pre.
           split; [rewrite Hb', Hb, Htb, app_assoc; reflexivity|rewrite Hcl'; exact Hrr].
      * apply (J_same _ toks _ _ HJ eq_refl). intros toks2 O M. exact M.
    + apply N.eqb_eq in Hgt'. subst r. pose proof (step_text_eq _ _ _ _ _ _ E) as Est. rewrite Est.
      split; [exact I|]. split; [apply (emit_raw toks p x w pa (adv p cGT) Es Er Hrx (RC eq_refl) Hne Hp Est HJ)|].
      destruct (raw_emit_close is_space to_lower text_tags Hgt toks x (adv p cGT) Er Hrx Hne Hp)
        as (t2 & rest & Hemit & Hc & Hk2 & _ & _ & Hrest & _).
      cbn [s_toks]. rewrite Hemit. constructor; [split; [intros _; right; exact Hc|intros H; contradiction]|].
      destruct Hrest as [->|(t1 & -> & Hk1 & _ & Ha1 & _)]; [exact HT|].
      constructor; [apply tokP_nontag; [rewrite Hk1; discriminate|exact Ha1]|exact HT].
  - destruct x as [buf st rw cl rn e tb nb]. text_cbn_in Er. subst rw.
    destruct (N.eqb r cLT) eqn:Elt.
    + apply N.eqb_eq in Elt. subst r. rewrite text_lt. split; [apply new_tag_inv|].
      split; [apply (emit_text_lt toks p buf st cl rn e tb nb w pa Es HJ)|].
      constructor; [apply tokP_nontag; [discriminate|reflexivity]|exact HT].
    + rewrite text_char by exact Elt. split; [|split; [|exact HT]].
      * unfold Hinv. cbn [s_mode s_toks]. split; [apply rx_nonraw|]. exists (w ++ [r]), pa.
        split; [rewrite run_snoc, <- Es, text_char by exact Elt; reflexivity|]. text_cbn. intros H; discriminate H.
      * apply (J_same _ toks _ _ HJ eq_refl). intros toks2 O M. exact M.
Qed.

Lemma step_init toks p (r : rune) : Inv (mkS toks p MInit) -> Inv (step (mkS toks p MInit) r).
Proof.
  intros (_ & HJ & HT). destruct (raw_tag_of_last toks) as [n|] eqn:Eraw.
  - assert (Er : x_raw (new_text toks p) = true) by (unfold Scan.new_text; rewrite Eraw; reflexivity).
    assert (Eb : x_buf (new_text toks p) = [] /\ x_tagbuf (new_text toks p) = [] /\
                 x_close (new_text toks p) = [cLT; cSLASH] ++ n ++ [cGT])
      by (unfold Scan.new_text; rewrite Eraw; auto).
    destruct Eb as (Eb & Etb & Ecl).
    destruct (raw_step is_space to_lower text_tags HltS Hgt toks (new_text toks p) r p (adv p r) Er (new_text_rx is_space to_lower text_tags toks p))
      as [(x' & E & Er' & Hb' & Hcl' & Hrx' & Hcases)|(_ & Hne & _)]; [|contradiction].
    pose proof (step_init_raw_eq _ _ _ _ _ _ Eraw E) as Est. rewrite Est. split; [|split; [|exact HT]].
    + unfold Hinv. cbn [s_mode s_toks]. split; [exact Hrx'|]. exists [r], p.
      split; [cbn [fold_left]; symmetry; exact Est|]. intros _ Hne'.
      destruct Hcases as [H|[(Hlt & Htb)|(Hne & _)]]; [contradiction| |contradiction].
      exists []. split; [rewrite Hb', Eb, Htb; reflexivity|]. cbn [fold_left].
      split; [reflexivity|]. left. split; [reflexivity|]. split; [reflexivity|].
      exists n. split; [exact Eraw|rewrite Hcl'; exact Ecl].
    + apply (J_same _ toks _ _ HJ eq_refl). intros toks2 O M. exact M.
  - destruct (N.eqb r cLT) eqn:Elt.
    + apply N.eqb_eq in Elt. subst r. rewrite init_lt by exact Eraw. split; [apply new_tag_inv|].
      split; [|exact HT].
      intros routs F P. cbn [s_toks s_mode] in *. destruct (HJ routs F P) as (toks2 & R & (q & EO)).
      exists toks2. split; [exact R|]. cbn [Jm]. rewrite EO. exists (adv q cLT), q. apply init_lt.
      rewrite <- (rel3_raw _ _ _ R). exact Eraw.
    + rewrite init_char by assumption. split; [|split; [|exact HT]].
      * unfold Hinv. cbn [s_mode s_toks]. split; [apply rx_nonraw|]. exists [r], p.
        split; [cbn [fold_left]; rewrite init_char by assumption; reflexivity|]. text_cbn. intros H; discriminate H.
      * apply (J_same _ toks _ _ HJ eq_refl). intros toks2 O M. exact M.
Qed.

Lemma step_inv s (r : rune) : Inv s -> Inv (step s r).
Proof.
  destruct s as [toks p [|x|g|e]]; intros H.
  - apply step_init; exact H.
  - apply step_text; exact H.
  - apply step_tag; exact H.
  - apply step_err; exact H.
Qed.

Lemma run_inv (src : str) : forall s, Inv s -> Inv (run src s).
Proof. induction src as [|r src IH]; intros s H; cbn [fold_left]; [exact H|]. apply IH. apply step_inv. exact H. Qed.

Lemma init_inv : Inv init.
Proof.
  split; [exact I|]. split; [|constructor]. intros routs F _. cbn [init s_toks s_mode] in *. inversion F; subst.
  exists []. split; [constructor|]. cbn [Jm rev concat fold_left]. eexists. reflexivity.
Qed.

(* ================= the theorems ================= *)

(* every way of printing the tokens (each verbatim, or a tag by print_tag) scans back *)
Theorem rescan_pieces_sec (src : str) (toks : list token) (outs : list str) :
  scan src = inl toks -> Forall tok_prem toks -> Forall2 printed_as toks outs ->
  exists toks2, scan (concat outs) = inl toks2 /\ rel3 toks outs toks2.
Proof.
  unfold Scan.scan. intros Hs P F. pose proof (run_inv src init init_inv) as (HH & HJ & _).
  destruct (run src init) as [tk ps ms] eqn:Erun. unfold finish in Hs. cbn [s_mode s_toks s_pos] in Hs.
  destruct ms as [|x|g|e]; try discriminate Hs.
  - injection Hs as <-.
    apply Forall2_rev in F. rewrite rev_involutive in F. apply Forall_rev in P. rewrite rev_involutive in P.
    destruct (HJ (rev outs) F P) as (toks2 & R & (q & EO)). cbn [s_toks s_mode] in *.
    rewrite rev_involutive in EO. exists (rev toks2). split; [rewrite EO; reflexivity|].
    apply rel3_rev in R. rewrite rev_involutive in R. exact R.
  - injection Hs as Hs'. change (rev (mkTok KText (x_buf x) (x_start x) ps [] [] :: tk) = toks) in Hs'. subst toks.
    apply Forall2_rev in F. rewrite rev_involutive in F. apply Forall_rev in P. rewrite rev_involutive in P.
    inversion F as [|t' o l routs0 Hto F0 E1 E2]; subst t' l.
    inversion P as [|t' l Pt P0]; subst t' l.
    unfold Hinv in HH. cbn [s_mode s_toks] in HH. destruct HH as (Hrx & w & pa & Es & _).
    destruct (HJ routs0 F0 P0) as (toks2 & R & (q & EO)). cbn [s_toks s_mode] in *.
    destruct Hto as [Hnt _]. cbn [t_kind t_value] in Hnt. specialize (Hnt ltac:(discriminate)). subst o.
    pose proof (consumed_init tk pa w) as C. rewrite <- Es in C. cbn [s_toks s_mode ScanConcat.minv] in C.
    destruct C as [C _]. apply app_inv_head in C. subst w.
    destruct (run_sim tk toks2 (x_buf x) pa q MInit MInit [] ps _ MR_init (rel3_raw _ _ _ R) (eq_sym Es))
      as (n2 & q' & m2' & E2' & Hn & Hm2).
    destruct n2; [|discriminate Hn]. cbn [app] in E2'.
    inversion Hm2 as [|x1 x2 Hx| |]; subst. inversion Hx; subst.
    assert (Eo : outs = rev (x_buf {| x_buf := buf; x_start := st1; x_raw := raw; x_close := close; x_rawname := rawname;
                                     x_end := e1; x_tagbuf := tagbuf; x_namebuf := namebuf |} :: routs0)).
    { rewrite E2. apply (eq_sym (rev_involutive outs)). }
    text_cbn_in Eo. text_cbn_in E2'.
    rewrite Eo, concat_rev_cons, fold_left_app, EO, E2'. cbn [finish s_mode s_toks s_pos]. text_cbn.
    eexists. split; [reflexivity|].
    match goal with |- rel3 (rev ?a) (rev ?b) (rev ?c) => apply (rel3_rev a b c) end.
    constructor; [repeat split|reflexivity|exact R].
Qed.

(* (b) the name/value facts hold of every tag token of a successful scan *)
Theorem scan_names_values_sec (src : str) (toks : list token) :
  scan src = inl toks -> Forall tokP toks.
Proof.
  unfold Scan.scan. intros Hs. pose proof (run_inv src init init_inv) as (_ & _ & HT).
  destruct (run src init) as [tk ps ms]. unfold finish in Hs. cbn [s_mode s_toks s_pos] in *.
  destruct ms as [|x|g|e]; try discriminate Hs; injection Hs as <-.
  - apply Forall_rev. exact HT.
  - apply Forall_app. split; [apply Forall_rev; exact HT|]. constructor; [apply tokP_nontag; [discriminate|reflexivity]|constructor].
Qed.

(* ---------- the tree builder and the printer see only kinds, names and attribute shapes ---------- *)
Lemma shapes_last (l1 l2 : list attr) : map ashape l1 = map ashape l2 ->
  match rev l1, rev l2 with
  | [], [] => True
  | a :: _, b :: _ => a_name a = a_name b /\ a_value a = a_value b
  | _, _ => False
  end.
Proof.
  intros H. apply (f_equal (@rev _)) in H. rewrite <- !map_rev in H.
  destruct (rev l1) as [|a r1], (rev l2) as [|b r2]; cbn [map] in H; try discriminate H; [exact I|].
  apply (f_equal (hd (ashape a))) in H. cbn [hd] in H. unfold ashape in H. split; congruence.
Qed.

Lemma tsame_self_close t t2 : tsame t t2 -> is_self_close t2 = is_self_close t.
Proof.
  intros (_ & Hn & Ha). unfold is_self_close. pose proof (shapes_last _ _ Ha) as H.
  destruct (rev (t_attrs t2)) as [|a r1], (rev (t_attrs t)) as [|b r2]; try contradiction.
  - rewrite Hn. reflexivity.
  - destruct H as [H1 H2]. rewrite H1, H2. reflexivity.
Qed.

Lemma tsame_print t t2 : tsame t t2 -> print_tag t2 = print_tag t.
Proof. intros (_ & Hn & Ha). unfold print_tag. rewrite !pattrs_pa, Hn, Ha. reflexivity. Qed.

Variable tree_lower : rune -> rune.
Variable void_elements : list str.
Notation ptok := (TagPrintTree.ptok tree_lower void_elements).
Notation ptoks := (TagPrintTree.ptoks tree_lower void_elements).
Notation build := (Tree.build tree_lower void_elements).

Lemma ptok_same d t t2 : tsame t t2 -> t_value t2 = fst (ptok d t) -> ptok d t2 = ptok d t.
Proof.
  intros Hs Hv. pose proof (tsame_self_close _ _ Hs) as Hsc. pose proof (tsame_print _ _ Hs) as Hp.
  destruct Hs as (Hk & Hn & Ha). unfold TagPrintTree.ptok in *. unfold is_close in *. rewrite Hk, Hn, Hsc, Hp.
  destruct (t_kind t); [|cbn [fst] in Hv; rewrite Hv; reflexivity..].
  destruct (prefixb [cSLASH] (t_name t) || is_self_close t || is_void tree_lower void_elements (t_name t)); [|reflexivity].
  destruct (is_self_close t || is_void tree_lower void_elements (t_name t)); [reflexivity|].
  destruct d; [reflexivity|]. cbn [fst] in Hv. rewrite Hv. reflexivity.
Qed.

Lemma ptoks_same : forall toks d toks2, rel3 toks (ptoks d toks) toks2 -> ptoks d toks2 = ptoks d toks.
Proof.
  induction toks as [|t toks IH]; intros d toks2 R; cbn [TagPrintTree.ptoks] in R; inversion R; subst; [reflexivity|].
  cbn [TagPrintTree.ptoks]. rewrite (ptok_same d t t2) by assumption. f_equal. apply IH. assumption.
Qed.

Lemma rel3_shapes toks outs toks2 : rel3 toks outs toks2 -> Forall2 printed_as toks outs ->
  map shape_of toks2 = map shape_of toks.
Proof.
  induction 1 as [|t o t2 l lo l2 (Hk & Hn & Ha) Hv _ IH]; intros F; [reflexivity|].
  inversion F as [|? ? ? ? [Hnt _] F']; subst. cbn [map]. rewrite (IH F'). f_equal.
  unfold shape_of. rewrite Hk, Hn, Ha. destruct (t_kind t) eqn:Ek; try reflexivity;
    rewrite (Hnt ltac:(discriminate)); reflexivity.
Qed.

Theorem render_idempotent_sec (src : str) (toks : list token) :
  scan src = inl toks -> Forall tok_prem toks ->
  exists toks2,
    scan (print_plain (build toks)) = inl toks2 /\
    rel3 toks (ptoks 0 toks) toks2 /\
    map shape_of toks2 = map shape_of toks /\
    print_plain (build toks2) = print_plain (build toks).
Proof.
  intros Hs P. destruct (print_plain_tokens tree_lower void_elements toks) as [Hp F].
  destruct (rescan_pieces_sec src toks (ptoks 0 toks) Hs P F) as (toks2 & Hs2 & R).
  exists toks2. rewrite Hp. split; [exact Hs2|]. split; [exact R|]. split; [exact (rel3_shapes _ _ _ R F)|].
  rewrite <- Hp. destruct (print_plain_tokens tree_lower void_elements toks2) as [Hp2 _].
  rewrite Hp2, Hp, (ptoks_same toks 0 toks2 R). reflexivity.
Qed.

End P.

(* ================= closed statements ================= *)

(* (b) names and raw values of scanned tags *)
Theorem scan_names_values : forall (is_space : rune -> bool) (to_lower : rune -> rune) (text_tags : list str)
    (attr_prefix : str) (compile : attr -> bool),
  is_space cSP = true -> is_space cGT = false -> is_space cEQ = false -> is_space cDQ = false -> is_space cLT = false ->
  (forall c, to_lower c = cSLASH -> c = cSLASH) ->
  (forall a1 a2, a_name a1 = a_name a2 -> a_value a1 = a_value a2 -> compile a1 = compile a2) ->
  forall src toks, scan is_space to_lower text_tags attr_prefix compile src = inl toks ->
  forall t, In t toks ->
    (t_kind t = KTag -> twf is_space attr_prefix compile t \/ raw_close_like is_space to_lower text_tags t) /\
    (t_kind t <> KTag -> t_attrs t = []).
Proof.
  intros is_space to_lower text_tags attr_prefix compile H1 H2 H3 H4 H5 H6 H7 src toks Hs t Ht.
  pose proof (scan_names_values_sec is_space to_lower text_tags attr_prefix compile H1 H2 H3 H4 H5 H6 H7 src toks Hs) as F.
  rewrite Forall_forall in F. exact (F t Ht).
Qed.

(* (e0) every way of printing the tokens piece by piece scans back to tokens of the same shapes, piece by piece *)
Theorem rescan_pieces : forall (is_space : rune -> bool) (to_lower : rune -> rune) (text_tags : list str)
    (attr_prefix : str) (compile : attr -> bool),
  is_space cSP = true -> is_space cGT = false -> is_space cEQ = false -> is_space cDQ = false -> is_space cLT = false ->
  (forall c, to_lower c = cSLASH -> c = cSLASH) ->
  (forall a1 a2, a_name a1 = a_name a2 -> a_value a1 = a_value a2 -> compile a1 = compile a2) ->
  forall src toks outs, scan is_space to_lower text_tags attr_prefix compile src = inl toks ->
  Forall (fun t => t_kind t = KTag -> ccond compile t) toks ->
  Forall2 printed_as toks outs ->
  exists toks2, scan is_space to_lower text_tags attr_prefix compile (concat outs) = inl toks2 /\ rel3 toks outs toks2.
Proof. exact rescan_pieces_sec. Qed.

(* (e) the render is a fixed point *)
Theorem render_idempotent : forall (is_space : rune -> bool) (to_lower : rune -> rune) (text_tags : list str)
    (attr_prefix : str) (compile : attr -> bool),
  is_space cSP = true -> is_space cGT = false -> is_space cEQ = false -> is_space cDQ = false -> is_space cLT = false ->
  (forall c, to_lower c = cSLASH -> c = cSLASH) ->
  (forall a1 a2, a_name a1 = a_name a2 -> a_value a1 = a_value a2 -> compile a1 = compile a2) ->
  forall (tree_lower : rune -> rune) (void_elements : list str) src toks,
  scan is_space to_lower text_tags attr_prefix compile src = inl toks ->
  Forall (fun t => t_kind t = KTag -> ccond compile t) toks ->
  let out := print_plain (build tree_lower void_elements toks) in
  exists toks2,
    scan is_space to_lower text_tags attr_prefix compile out = inl toks2 /\
    rel3 toks (ptoks tree_lower void_elements 0 toks) toks2 /\
    map shape_of toks2 = map shape_of toks /\
    print_plain (build tree_lower void_elements toks2) = out.
Proof.
  intros is_space to_lower text_tags attr_prefix compile H1 H2 H3 H4 H5 H6 H7 tree_lower void_elements src toks Hs P.
  exact (render_idempotent_sec is_space to_lower text_tags attr_prefix compile H1 H2 H3 H4 H5 H6 H7
           tree_lower void_elements src toks Hs P).
Qed.

Print Assumptions scan_names_values.
Print Assumptions rescan_pieces.
Print Assumptions render_idempotent.
