(* C04 / C06 / C07 / C03, END TO END: from SOURCE TEXT to OUTPUT TEXT for the directives range, with, define / insert /
   replace and the conditional chain, FOR ALL DATA.

   Proofs/EndToEnd.v does this for the text directive with a literal (all Unicode tables, all data, the literal quantified).
   Here the SOURCE TEXT and the Unicode tables are CONCRETE (the ASCII tables bx_space, bx_lower, bx_letter, bx_digit,
   bx_methods, bx_call of Proofs/ReadbackExample.v, the default raw-text tags and void elements of Gen/Facts.v, the
   attribute prefix a colon), so that  load  is computed once and for all (the lemmas *_loads), and the DATA is universally
   quantified: each theorem holds for EVERY value of the variables the template reads, every condition table, every call
   log, an unlimited writer and every fuel from a small constant on.  Q below stands for the double quote.

   (A) range   <ul><li :range=Qi, x : xsQ :text=Q${x}Q>y</li> </ul>           xs = a slice / array of strings ss
         range_end_to_end      output  <ul> ++ join BLANK (map (fun s => <li> ++ escape s ++ </li>) ss) ++ BLANK ++ </ul>
                               (the blank text after the element separates consecutive items AND is printed once more,
                                as itself, after the last one; for the empty collection the output is <ul> </ul>)
         range_index_end_to_end  the same source with :text=Q${i}Q , xs = ANY slice / array l : the items are the decimal
                               numerals of 1 .. length l
   (B) range_non_collection    xs bound to a value that is not a sequence / string / map : output <ul>, an error result
   (C) with    <p :with=Qv := ${s}Q><b :text=Q${v}Q>1</b></p><i :text=Q${v}Q>2</i>
         with_no_leak          data binds s only: output <p><b> ++ escape s ++ </b></p><i> , then the no-such-value error
         with_shadow_restore   data binds s and v (to u): output <p><b> ++ escape s ++ </b></p><i> ++ escape u ++ </i>
   (D) fragments, through the manager (add_files / mk_mgr)
         <div :define=QfQ> <b :text=Q${t}Q>z</b> </div><main><span :insert=QfQ>old</span><span :replace=QfQ>old</span></main>
         fragment_end_to_end   output <main><span><b> ++ escape u ++ </b></span><b> ++ escape u ++ </b></main>
         fragment_two_files    the definition in one file, the page in another one, either loading order: the same output
         definition_file_invisible   the file that holds only the definition renders to the empty text, whatever the data
   (E) chain   <p :if=Q${a}Q>A</p> <!-- c --> <p :elif=Q${b}Q>B</p><p :else>C</p>
         chain_bool            a, b booleans: exactly the first true branch (else: C); the gaps are printed as they are
         chain_text            a ANY value whose condition text is txt: the branch is selected iff txt is the text true
         chain_string / chain_int    a = a string s: selected iff s = true ; a = an integer: never selected

   Method: whatever does not get stuck on the symbolic data is computed by vm_compute with the data as free variables
   (the stuck subterms escape s and the appends around it are folded back, refold_esc / refold_app); the range loop
   (induction on the list) and the string comparison of the condition are unfolded one layer at a time, with the recursive
   call of the renderer abstracted as a variable ex (so that vm_compute never normalises the renderer under a binder).
   The fuel is lifted by FuelMono.execute_fuel_mono_le.  No axiom of its own. *)
From Coq Require Import List NArith ZArith Bool Lia Arith String Ascii.
From Tpl Require Import Html.Exec Html.Manager Gen.Facts Proofs.ExecSpec Proofs.RenderPlain Proofs.RangeProps Proofs.FuelMono
  Proofs.ReadbackExample Proofs.EndToEnd.
Import ListNotations.
Open Scope N_scope.

(* ------------------------------------------------------------------------------------------ *)
(* 0. common                                                                                    *)
(* ------------------------------------------------------------------------------------------ *)
Notation bx_load := (load bx_space bx_lower default_text_tags default_void_elements [58] (parse_ok bx_letter bx_digit)).
Notation bx_execute := (execute bx_space bx_lower bx_letter bx_digit bx_methods bx_call).
Notation bx_enode := (exec_node bx_space bx_lower bx_letter bx_digit bx_methods bx_call).
Notation bx_body := (exec_body bx_space bx_lower bx_letter bx_digit bx_methods bx_call).
Notation bx_tag := (exec_tag bx_space bx_lower bx_letter bx_digit bx_methods bx_call).
Notation bx_step := (attr_step bx_space bx_letter bx_digit bx_methods bx_call).
Notation bx_attrs := (run_attrs bx_space bx_letter bx_digit bx_methods bx_call).
Notation bx_range_owner := (range_owner bx_space bx_letter bx_digit bx_methods bx_call).
Notation bx_cond_owner := (cond_owner bx_letter bx_digit bx_methods bx_call).
Notation bx_eval_cond := (eval_cond bx_letter bx_digit bx_methods bx_call).
Notation bx_eval_text := (eval_text bx_letter bx_digit bx_methods bx_call).
Notation bx_attr_eval := (attr_evaluate bx_letter bx_digit bx_methods bx_call).
Definition exec_t : Type := N -> list node -> node -> scope -> bool -> tbl -> rst -> R.

Definition no_root : node := Node 0 None [] None.
Definition no_tok : token := mkTok KText [] (0,0) (0,0) [] [].
Definition no_attr : attr := mkAttr [] (0,0) (0,0) None (0,0) (0,0).
Definition tp_of (root : node) : template := mkT (n_children root) (n_children root).
Definition root0 (root : node) : node := Node 0 None (n_children root) None.
Definition nth_child (i : nat) (n : node) : node := nth i (n_children n) no_root.
Definition tok_or (n : node) : token := match n_tok n with Some t => t | None => no_tok end.
(* the scope Execute builds from a non-nil data value *)
Definition data_scope (m : manager) (data : value) : scope := SCombine (SData data) (m_global m).
(* the source loads, and the loaded template satisfies P *)
Definition loads_and (src : str) (P : template -> Prop) : Prop := exists root, bx_load src = inl root /\ P (tp_of root).

(* after vm_compute on a goal with a free string x: fold the normal forms of  escape x  and of append back *)
Ltac refold_esc x := (let e := eval vm_compute in (escape x) in change e with (escape x)).
Ltac refold_app := (let a := eval vm_compute in (@app N) in change a with (@app N)).
Ltac norm_app := repeat progress (rewrite ?app_nil_r, <- ?app_assoc; cbn [app]).

Lemma fuel_lift : forall m F tp data t st out r t' st',
  r <> RErr RFuel -> bx_execute m F tp data t st = (out, r, t', st') ->
  forall fuel, (F <= fuel)%nat -> bx_execute m fuel tp data t st = (out, r, t', st').
Proof.
  intros m F tp data t st out r t' st' Hr H fuel Hle.
  rewrite (execute_fuel_mono_le bx_space bx_lower bx_letter bx_digit bx_methods bx_call m F fuel tp data t st Hle).
  - exact H.
  - rewrite H. exact Hr.
Qed.

Lemma seq2_nil_ok : forall t st (f : tbl -> rst -> R), seq2 ([], ROk, t, st) f = f t st.
Proof. intros t st f. cbn [seq2]. destruct (f t st) as [[[o r] t2] s2]. reflexivity. Qed.

(* Execute with one more unit of fuel = the list of the children of the root, rendered with the rest of the fuel *)
Lemma execute_children : forall m f tp data t lg,
  bx_execute m (S f) tp data t (mkR lg None) =
  exec_list (bx_enode m f) (tp_ctx tp) (tp_children tp)
    (SCombine (SData (match data with VNil => VMap [] | d => d end)) (m_global m)) true t (mkR lg None).
Proof.
  intros m f tp data t lg. unfold execute. cbv zeta. cbn [exec_node]. unfold exec_body. cbn [n_tok n_children].
  unfold wr, write. cbn [r_budget]. apply seq2_nil_ok.
Qed.

Lemma exec_body_tag : forall m (ex : exec_t) mask ctx n tok sc top t st,
  n_tok n = Some tok -> t_kind tok = KTag ->
  bx_body m ex mask ctx n sc top t st = bx_tag m ex mask ctx n tok sc top t st.
Proof. intros m ex mask ctx n tok sc top t st Hn Hk. unfold exec_body. rewrite Hn, Hk. reflexivity. Qed.

(* the attribute loop reaches the directive that this invocation owns *)
Lemma attr_step_range : forall m (ex : exec_t) mask ctx n attrs a ls t st av,
  prefixb (prefix m) (a_name a) = true -> skipn (length (prefix m)) (a_name a) = d_range ->
  a_value a = Some av -> N.land mask 2 = 0 ->
  bx_step m ex mask ctx n attrs a ls t st = bx_range_owner ex mask ctx n av ls t st.
Proof.
  intros m ex mask ctx n attrs a ls t st av Hp Hc Hv Hm. unfold attr_step. cbv zeta.
  rewrite Hp, Hc, Hv, Hm. reflexivity.
Qed.
Lemma attr_step_if : forall m (ex : exec_t) mask ctx n attrs a ls t st av,
  prefixb (prefix m) (a_name a) = true -> skipn (length (prefix m)) (a_name a) = d_if ->
  a_value a = Some av -> N.land mask 1 = 0 ->
  bx_step m ex mask ctx n attrs a ls t st = bx_eval_cond m ex mask ctx n a ls t st.
Proof.
  intros m ex mask ctx n attrs a ls t st av Hp Hc Hv Hm. unfold attr_step. cbv zeta.
  rewrite Hp, Hc, Hv, Hm. reflexivity.
Qed.
Lemma is_owner_range : forall m a, prefixb (prefix m) (a_name a) = true ->
  skipn (length (prefix m)) (a_name a) = d_range -> is_owner m 0 a = true.
Proof. intros m a Hp Hc. unfold is_owner. cbv zeta. fold (prefix m). rewrite Hp, Hc. reflexivity. Qed.
Lemma is_owner_if : forall m a, prefixb (prefix m) (a_name a) = true ->
  skipn (length (prefix m)) (a_name a) = d_if -> is_owner m 0 a = true.
Proof. intros m a Hp Hc. unfold is_owner. cbv zeta. fold (prefix m). rewrite Hp, Hc. reflexivity. Qed.

(* the value of an attribute that is one code block: the text of the value of the block *)
Lemma attr_eval_block : forall m a sc lg av t1 t2 t3 t4 t5 v txt,
  a_value a = Some av ->
  ctoks_of bx_letter bx_digit m a = [t1; t2; t3; t4; t5] ->
  c_kind t1 = BegEnd -> c_kind t2 = CodeStart -> c_kind t3 = CodeValue -> c_kind t4 = CodeEnd -> c_kind t5 = BegEnd ->
  bx_eval_text sc (c_value t3) lg = (Ok v, lg) -> fmt_v v = Some txt ->
  bx_attr_eval m a sc lg = (AOk txt, lg).
Proof.
  intros m a sc lg av t1 t2 t3 t4 t5 v txt Hav Hct K1 K2 K3 K4 K5 Hev Hfmt.
  unfold attr_evaluate. rewrite Hav, Hct. cbn [eval_ctoks]. rewrite K1, K2, K3, K4, K5. cbv iota.
  unfold eval_block. rewrite Hev, Hfmt. reflexivity.
Qed.

(* ------------------------------------------------------------------------------------------ *)
(* A. RANGE                                                                                     *)
(* ------------------------------------------------------------------------------------------ *)
(* an element whose first directive (in evaluation order) is a range over a collection: the items' renders joined by
   the separator; the element's own tag, children and end tag are not printed by this invocation *)
Lemma range_element : forall (ex : exec_t) ctx n tok a rest av idx item obj e sepv sc buf v lg t items outs,
  n_tok n = Some tok -> t_kind tok = KTag ->
  sorted_attrs (prefix bx_mgr) (t_attrs tok) = a :: rest ->
  init_lstate bx_lower bx_mgr 0 tok sc = mkL sc true CNop buf [] [] false ->
  prefixb (prefix bx_mgr) (a_name a) = true -> skipn (length (prefix bx_mgr)) (a_name a) = d_range ->
  a_value a = Some av ->
  extract_range bx_space (strip_quotes av) = (idx, item, obj) ->
  parse_code bx_letter bx_digit obj = Some e ->
  bx_eval_text (with_default sc) obj lg = (Ok v, lg) ->
  range_items v = Some items ->
  sep_text_of (match next_sibling ctx (n_id n) with
               | Some x => if is_blank_text bx_space x then Some x else None | None => None end) = sepv ->
  iter_runs ex 0 ctx n idx item (with_default sc) items t (mkR lg None) outs t (mkR lg None) ->
  bx_body bx_mgr ex 0 ctx n sc true t (mkR lg None) = (range_spec sepv outs, ROk, t, mkR lg None).
Proof.
  intros ex ctx n tok a rest av idx item obj e sepv sc buf v lg t items outs
         Hn Hk Hsort Hinit Hp Hc Hv Hhdr Hparse Hev Hitems Hsep Hruns.
  rewrite (exec_body_tag bx_mgr ex 0 ctx n tok sc true t (mkR lg None) Hn Hk).
  unfold exec_tag. rewrite Hsort, Hinit. cbn [run_attrs].
  rewrite (attr_step_range bx_mgr ex 0 ctx n (t_attrs tok) a _ t (mkR lg None) av Hp Hc Hv eq_refl).
  rewrite (RangeProps.range_owner_ok bx_space bx_letter bx_digit bx_methods bx_call ex 0 ctx n av
             (mkL sc true CNop buf [] [] false) t (mkR lg None) idx item obj e v lg items outs t (mkR lg None)
             Hhdr Hparse Hev Hitems Hruns).
  rewrite Hsep, (is_owner_range bx_mgr a Hp Hc). cbv iota.
  cbn [add_direct token_buf l_direct l_np l_sc l_child l_tagbuf l_content l_replace app].
  rewrite app_nil_r. unfold wr, write, run_child.
  cbn [r_budget r_log seq2 add_direct l_child app].
  destruct (n_end n) as [e0|]; rewrite app_nil_r; reflexivity.
Qed.

Lemma range_spec_join : forall sp outs, range_spec sp outs = join sp outs.
Proof. intros sp [|o r]; [reflexivity|]. apply range_spec_cons. Qed.

Definition range_pairs (z : Z) (l : list value) : list (value * value) :=
  map (fun p => (VInt KInt (fst p), snd p)) (enumerate1 z l).

Definition s_i : str := [105].
Definition s_x : str := [120].
Definition s_xs : str := [120; 115].
Definition ul_open : str := s2l "<ul>".
Definition ul_close : str := s2l "</ul>".
Definition li_open : str := s2l "<li>".
Definition li_close : str := s2l "</li>".
Definition li_buf : str := s2l "<li".
Definition e_xs : expr :=
  Eval vm_compute in match parse_code bx_letter bx_digit s_xs with Some e => e | None => ELit LNil [] 0 0 end.
Lemma parse_xs : parse_code bx_letter bx_digit s_xs = Some e_xs.
Proof. vm_compute. reflexivity. Qed.
(* the collection expression, in any scope whose data binds xs first *)
Lemma eval_xs : forall v g lg,
  bx_eval_text (with_default (SCombine (SData (VMap [(s_xs, v)])) g)) s_xs lg = (Ok v, lg).
Proof. intros v g lg. vm_compute. reflexivity. Qed.

(* ---- A1: the item ---- *)
Definition src_range : str := s2l "<ul><li :range=""i, x : xs"" :text=""${x}"">y</li> </ul>".
Definition root_range : node := Eval vm_compute in match bx_load src_range with inl r => r | inr _ => no_root end.
Lemma range_loads : bx_load src_range = inl root_range.
Proof. vm_compute. reflexivity. Qed.

Definition ul_range : node := Eval vm_compute in nth_child 0 root_range.
Definition li_range : node := Eval vm_compute in nth_child 0 ul_range.
Definition blank_range : node := Eval vm_compute in nth_child 1 ul_range.
Definition ctx_ul : list node := [li_range; blank_range].
Definition li_tok : token := Eval vm_compute in tok_or li_range.
Definition a_range : attr := Eval vm_compute in nth 0 (t_attrs li_tok) no_attr.
Definition a_text : attr := Eval vm_compute in nth 1 (t_attrs li_tok) no_attr.
Definition av_range : str := Eval vm_compute in match a_value a_range with Some v => v | None => [] end.

Lemma li_sorted : sorted_attrs (prefix bx_mgr) (t_attrs li_tok) = [a_range; a_text].
Proof. vm_compute. reflexivity. Qed.
Lemma li_init : forall sc, init_lstate bx_lower bx_mgr 0 li_tok sc = mkL sc true CNop li_buf [] [] false.
Proof. intros sc. vm_compute. reflexivity. Qed.
Lemma range_header : extract_range bx_space (strip_quotes av_range) = (s_i, s_x, s_xs).
Proof. vm_compute. reflexivity. Qed.
Lemma range_sep :
  sep_text_of (match next_sibling ctx_ul (n_id li_range) with
               | Some x => if is_blank_text bx_space x then Some x else None | None => None end) = [32].
Proof. vm_compute. reflexivity. Qed.

Definition item_out (s : str) : str := li_open ++ escape s ++ li_close.

(* the element re-executed for one item (mask 2): its tag, the escaped item, its end tag; for ANY nested renderer ex,
   any index value k, any enclosing scope sc0 *)
Lemma range_item : forall (ex : exec_t) k s sc0 t lg,
  bx_body bx_mgr ex 2 ctx_ul li_range (range_scope s_i s_x k (VStr s) sc0) false t (mkR lg None) =
  (item_out s, ROk, t, mkR lg None).
Proof.
  intros ex k s sc0 t lg. vm_compute. refold_esc s. refold_app. norm_app. reflexivity.
Qed.

Lemma range_runs : forall (ex : exec_t) sc0,
  (forall k s t lg, ex 2 ctx_ul li_range (range_scope s_i s_x k (VStr s) sc0) false t (mkR lg None)
                    = (item_out s, ROk, t, mkR lg None)) ->
  forall ss z t lg,
  iter_runs ex 0 ctx_ul li_range s_i s_x sc0 (range_pairs z (map VStr ss)) t (mkR lg None)
            (map item_out ss) t (mkR lg None).
Proof.
  intros ex sc0 Hitem ss. induction ss as [|s ss IH]; intros z t lg.
  - apply IR_nil.
  - unfold range_pairs. cbn [map enumerate1 fst snd].
    apply (IR_cons ex 0 ctx_ul li_range s_i s_x sc0 (VInt KInt z) (VStr s) _ t (mkR lg None) (item_out s) t (mkR lg None)).
    + apply Hitem.
    + apply IH.
Qed.

(* the invocation that owns the range *)
Lemma range_li_owner : forall (ex : exec_t) arr ss extra g t lg,
  (forall k s sc0 t lg, ex 2 ctx_ul li_range (range_scope s_i s_x k (VStr s) sc0) false t (mkR lg None)
                        = (item_out s, ROk, t, mkR lg None)) ->
  bx_body bx_mgr ex 0 ctx_ul li_range (SCombine (SData (VMap [(s_xs, VSeq arr (map VStr ss) extra)])) g) true t (mkR lg None) =
  (range_spec [32] (map item_out ss), ROk, t, mkR lg None).
Proof.
  intros ex arr ss extra g t lg Hitem.
  apply (range_element ex ctx_ul li_range li_tok a_range [a_text] av_range s_i s_x s_xs e_xs [32] _ li_buf
           (VSeq arr (map VStr ss) extra) lg t (range_pairs 1 (map VStr ss)) (map item_out ss)
           eq_refl eq_refl li_sorted (li_init _) eq_refl eq_refl eq_refl range_header parse_xs (eval_xs _ g lg) eq_refl range_sep).
  apply range_runs. intros k s t0 lg0. apply Hitem.
Qed.

(* the root and the ul around the li, for any renderer ex of the two children of the ul *)
Lemma range_outer : forall (ex : exec_t) sc t lg o,
  ex 0 ctx_ul li_range sc true t (mkR lg None) = (o, ROk, t, mkR lg None) ->
  ex 0 ctx_ul blank_range sc true t (mkR lg None) = ([32], ROk, t, mkR lg None) ->
  bx_body bx_mgr (bx_body bx_mgr ex) 0 (n_children root_range) (root0 root_range) sc true t (mkR lg None) =
  (ul_open ++ o ++ [32] ++ ul_close, ROk, t, mkR lg None).
Proof.
  intros ex sc t lg o H1 H2. vm_compute. vm_compute in H1. vm_compute in H2. rewrite H1. vm_compute. rewrite H2. vm_compute.
  refold_app. norm_app. reflexivity.
Qed.

Theorem range_end_to_end : forall (arr : bool) (ss : list str) (extra : list value) (t : tbl) (st : rst) (fuel : nat),
  r_budget st = None -> (4 <= fuel)%nat ->
  bx_execute bx_mgr fuel (tp_of root_range) (VMap [(s_xs, VSeq arr (map VStr ss) extra)]) t st =
  (ul_open ++ join [32] (map item_out ss) ++ [32] ++ ul_close, ROk, t, st).
Proof.
  intros arr ss extra t [lg b] fuel Hb Hf. cbn [r_budget] in Hb. subst b.
  apply (fuel_lift bx_mgr 4); [discriminate| |exact Hf].
  rewrite <- range_spec_join.
  apply (range_outer (bx_enode bx_mgr 2)).
  - apply (range_li_owner (bx_enode bx_mgr 1)). intros k s sc0 t0 lg0. apply range_item.
  - vm_compute. reflexivity.
Qed.

Theorem range_source_to_output : loads_and src_range (fun tp =>
  forall (ss : list str) (t : tbl) (st : rst) (fuel : nat), r_budget st = None -> (4 <= fuel)%nat ->
  bx_execute bx_mgr fuel tp (VMap [(s2l "xs", VSeq false (map VStr ss) [])]) t st =
  (s2l "<ul>" ++ join (s2l " ") (map (fun s => s2l "<li>" ++ escape s ++ s2l "</li>") ss) ++ s2l " </ul>", ROk, t, st)).
Proof.
  exists root_range. split; [exact range_loads|]. intros ss t st fuel Hb Hf.
  exact (range_end_to_end false ss [] t st fuel Hb Hf).
Qed.

(* the empty collection renders nothing of the element; the blank that follows it is an ordinary text node *)
Corollary range_empty : forall t st fuel, r_budget st = None -> (4 <= fuel)%nat ->
  bx_execute bx_mgr fuel (tp_of root_range) (VMap [(s_xs, VSeq false [] [])]) t st = (s2l "<ul> </ul>", ROk, t, st).
Proof. intros t st fuel Hb Hf. exact (range_end_to_end false [] [] t st fuel Hb Hf). Qed.
Example range_three :
  ul_open ++ join [32] (map item_out [s2l "a<"; s2l "b"; s2l "c"]) ++ [32] ++ ul_close
  = s2l "<ul><li>a&lt;</li> <li>b</li> <li>c</li> </ul>".
Proof. vm_compute. reflexivity. Qed.
(* four units of fuel are needed: root, ul, li as owner of the range, li per item *)
Example range_fuel_3 :
  bx_execute bx_mgr 3 (tp_of root_range) (VMap [(s_xs, VSeq false [VStr [97]] [])]) [] (mkR [] None)
  = (ul_open, RErr RFuel, [], mkR [] None).
Proof. vm_compute. reflexivity. Qed.

(* ---- A2: the index ---- *)
Definition src_index : str := s2l "<ul><li :range=""i, x : xs"" :text=""${i}"">y</li> </ul>".
Definition root_index : node := Eval vm_compute in match bx_load src_index with inl r => r | inr _ => no_root end.
Lemma index_loads : bx_load src_index = inl root_index.
Proof. vm_compute. reflexivity. Qed.

Definition ul_index : node := Eval vm_compute in nth_child 0 root_index.
Definition li_index : node := Eval vm_compute in nth_child 0 ul_index.
Definition blank_index : node := Eval vm_compute in nth_child 1 ul_index.
Definition ctx_ix : list node := [li_index; blank_index].
Definition li_tok_ix : token := Eval vm_compute in tok_or li_index.
Definition a_range_ix : attr := Eval vm_compute in nth 0 (t_attrs li_tok_ix) no_attr.
Definition a_text_ix : attr := Eval vm_compute in nth 1 (t_attrs li_tok_ix) no_attr.

Lemma li_sorted_ix : sorted_attrs (prefix bx_mgr) (t_attrs li_tok_ix) = [a_range_ix; a_text_ix].
Proof. vm_compute. reflexivity. Qed.
Lemma li_init_ix : forall sc, init_lstate bx_lower bx_mgr 0 li_tok_ix sc = mkL sc true CNop li_buf [] [] false.
Proof. intros sc. vm_compute. reflexivity. Qed.
Lemma range_sep_ix :
  sep_text_of (match next_sibling ctx_ix (n_id li_index) with
               | Some x => if is_blank_text bx_space x then Some x else None | None => None end) = [32].
Proof. vm_compute. reflexivity. Qed.

(* the decimal numeral of the position, as the model formats it (fmt_v of an integer is str_of_Z), then escaped *)
Definition index_out (z : Z) : str := li_open ++ escape (str_of_Z z) ++ li_close.
Fixpoint positions (z : Z) (n : nat) : list Z := match n with O => [] | S k => z :: positions (z + 1)%Z k end.

(* the element re-executed for one item (mask 2) when its other directive is text: stated for ANY text the directive
   evaluates to (the numeral of a symbolic integer must not be normalised: its normal form is exponentially large) *)
Lemma text_item : forall (ex : exec_t) ctx n tok a sc buf txt lg t e,
  n_tok n = Some tok -> t_kind tok = KTag -> n_end n = Some e ->
  (forall t st, bx_attrs bx_mgr ex 2 ctx n (t_attrs tok) (sorted_attrs (prefix bx_mgr) (t_attrs tok))
                  (init_lstate bx_lower bx_mgr 2 tok sc) t st
                = (inl (mkL sc false (CText a true) buf [] [] false), t, st)) ->
  bx_attr_eval bx_mgr a sc lg = (AOk txt, lg) ->
  bx_body bx_mgr ex 2 ctx n sc false t (mkR lg None) = ((buf ++ [cGT]) ++ escape txt ++ t_value e, ROk, t, mkR lg None).
Proof.
  intros ex ctx n tok a sc buf txt lg t e Hn Hk He Hattrs Hev.
  rewrite (exec_body_tag bx_mgr ex 2 ctx n tok sc false t (mkR lg None) Hn Hk).
  unfold exec_tag. rewrite Hattrs, He. unfold run_child. cbn [l_child l_sc]. unfold wr at 1, write.
  cbn [seq2 r_log]. rewrite Hev. unfold wr, write, set_log.
  cbn [seq2 token_buf l_direct l_np l_tagbuf l_content r_log r_budget app]. rewrite ?app_nil_r. reflexivity.
Qed.

Lemma ctoks_ix : exists t1 t2 t3 t4 t5,
  ctoks_of bx_letter bx_digit bx_mgr a_text_ix = [t1; t2; t3; t4; t5] /\
  c_kind t1 = BegEnd /\ c_kind t2 = CodeStart /\ c_kind t3 = CodeValue /\ c_kind t4 = CodeEnd /\ c_kind t5 = BegEnd /\
  c_value t3 = s_i.
Proof. do 5 eexists. vm_compute. repeat split. Qed.
Lemma eval_index_text : forall z v sc0 lg,
  bx_eval_text (range_scope s_i s_x (VInt KInt z) v sc0) s_i lg = (Ok (VInt KInt z), lg).
Proof. intros z v sc0 lg. vm_compute. reflexivity. Qed.
Lemma eval_index_attr : forall z v sc0 lg,
  bx_attr_eval bx_mgr a_text_ix (range_scope s_i s_x (VInt KInt z) v sc0) lg = (AOk (str_of_Z z), lg).
Proof.
  intros z v sc0 lg. destruct ctoks_ix as (t1 & t2 & t3 & t4 & t5 & Hct & K1 & K2 & K3 & K4 & K5 & Hc).
  apply (attr_eval_block bx_mgr a_text_ix _ lg _ t1 t2 t3 t4 t5 (VInt KInt z) (str_of_Z z) eq_refl Hct K1 K2 K3 K4 K5);
    [|reflexivity].
  rewrite Hc. apply eval_index_text.
Qed.
Lemma index_attrs : forall (ex : exec_t) sc t st,
  bx_attrs bx_mgr ex 2 ctx_ix li_index (t_attrs li_tok_ix) (sorted_attrs (prefix bx_mgr) (t_attrs li_tok_ix))
    (init_lstate bx_lower bx_mgr 2 li_tok_ix sc) t st
  = (inl (mkL sc false (CText a_text_ix true) li_buf [] [] false), t, st).
Proof. intros ex sc t st. vm_compute. reflexivity. Qed.

Lemma index_item : forall (ex : exec_t) z v sc0 t lg,
  bx_body bx_mgr ex 2 ctx_ix li_index (range_scope s_i s_x (VInt KInt z) v sc0) false t (mkR lg None) =
  (index_out z, ROk, t, mkR lg None).
Proof.
  intros ex z v sc0 t lg.
  rewrite (text_item ex ctx_ix li_index li_tok_ix a_text_ix _ li_buf (str_of_Z z) lg t
             (mkTok KTag li_close (1, 42) (1, 47) [47; 108; 105] []) eq_refl eq_refl eq_refl
             (index_attrs ex _) (eval_index_attr z v sc0 lg)).
  reflexivity.
Qed.

Lemma index_runs : forall (ex : exec_t) sc0,
  (forall z v t lg, ex 2 ctx_ix li_index (range_scope s_i s_x (VInt KInt z) v sc0) false t (mkR lg None)
                    = (index_out z, ROk, t, mkR lg None)) ->
  forall l z t lg,
  iter_runs ex 0 ctx_ix li_index s_i s_x sc0 (range_pairs z l) t (mkR lg None)
            (map index_out (positions z (length l))) t (mkR lg None).
Proof.
  intros ex sc0 Hitem l. induction l as [|v l IH]; intros z t lg.
  - apply IR_nil.
  - unfold range_pairs. cbn [map enumerate1 fst snd length positions].
    apply (IR_cons ex 0 ctx_ix li_index s_i s_x sc0 (VInt KInt z) v _ t (mkR lg None) (index_out z) t (mkR lg None)).
    + apply Hitem.
    + apply IH.
Qed.

Lemma index_outer : forall (ex : exec_t) sc t lg o,
  ex 0 ctx_ix li_index sc true t (mkR lg None) = (o, ROk, t, mkR lg None) ->
  ex 0 ctx_ix blank_index sc true t (mkR lg None) = ([32], ROk, t, mkR lg None) ->
  bx_body bx_mgr (bx_body bx_mgr ex) 0 (n_children root_index) (root0 root_index) sc true t (mkR lg None) =
  (ul_open ++ o ++ [32] ++ ul_close, ROk, t, mkR lg None).
Proof.
  intros ex sc t lg o H1 H2. vm_compute. vm_compute in H1. vm_compute in H2. rewrite H1. vm_compute. rewrite H2. vm_compute.
  refold_app. norm_app. reflexivity.
Qed.

(* digits and the minus sign are not escaped: the numeral is printed as it is *)
Lemma escape1_digit : forall d, 48 <= d -> d < 58 -> escape1 d = [d].
Proof.
  intros d H1 H2. unfold escape1, cAMP, cSQ, cLT, cGT, cDQ.
  repeat match goal with |- context [N.eqb d ?c] => destruct (N.eqb_spec d c) as [E|_]; [lia|] end.
  reflexivity.
Qed.
Definition plain_rune (r : rune) : Prop := escape1 r = [r].
Lemma escape_plain : forall s, Forall plain_rune s -> escape s = s.
Proof.
  intros s H. induction H as [|r s Hr _ IH]; [reflexivity|].
  unfold escape in *. cbn [flat_map]. rewrite Hr, IH. reflexivity.
Qed.
Lemma dec_digits_plain : forall f n acc, Forall plain_rune acc -> Forall plain_rune (dec_digits f n acc).
Proof.
  induction f as [|f IH]; intros n acc Hacc; cbn [dec_digits]; [exact Hacc|]. cbv zeta.
  assert (Hd : plain_rune (48 + n mod 10)).
  { assert (Hm : n mod 10 < 10) by (apply N.mod_lt; discriminate).
    set (m := n mod 10) in *. clearbody m. apply escape1_digit; lia. }
  destruct (n <? 10).
  - constructor; assumption.
  - apply IH. constructor; assumption.
Qed.
Lemma escape_numeral : forall z, escape (str_of_Z z) = str_of_Z z.
Proof.
  intros z. apply escape_plain. destruct z as [|p|p]; unfold str_of_Z, str_of_N.
  - constructor; [reflexivity|constructor].
  - apply dec_digits_plain. constructor.
  - constructor; [reflexivity|]. apply dec_digits_plain. constructor.
Qed.
Lemma positions_seq : forall n k, positions (Z.of_nat k) n = map Z.of_nat (seq k n).
Proof.
  induction n as [|n IH]; intros k; cbn [positions seq map]; [reflexivity|].
  f_equal. replace (Z.of_nat k + 1)%Z with (Z.of_nat (S k)) by lia. apply IH.
Qed.

Definition numeral_out (k : nat) : str := li_open ++ str_of_Z (Z.of_nat k) ++ li_close.

(* xs = ANY slice or array, whatever its elements *)
Theorem range_index_end_to_end : forall (arr : bool) (l extra : list value) (t : tbl) (st : rst) (fuel : nat),
  r_budget st = None -> (4 <= fuel)%nat ->
  bx_execute bx_mgr fuel (tp_of root_index) (VMap [(s_xs, VSeq arr l extra)]) t st =
  (ul_open ++ join [32] (map numeral_out (seq 1 (length l))) ++ [32] ++ ul_close, ROk, t, st).
Proof.
  intros arr l extra t [lg b] fuel Hb Hf. cbn [r_budget] in Hb. subst b.
  apply (fuel_lift bx_mgr 4); [discriminate| |exact Hf].
  assert (Ho : map numeral_out (seq 1 (length l)) = map index_out (positions 1 (length l))).
  { change 1%Z with (Z.of_nat 1). rewrite positions_seq, map_map. apply map_ext. intros k.
    unfold numeral_out, index_out. rewrite escape_numeral. reflexivity. }
  rewrite Ho, <- range_spec_join.
  apply (index_outer (bx_enode bx_mgr 2)).
  - apply (range_element (bx_enode bx_mgr 1) ctx_ix li_index li_tok_ix a_range_ix [a_text_ix] av_range s_i s_x s_xs e_xs [32] _ li_buf
             (VSeq arr l extra) lg t (range_pairs 1 l) (map index_out (positions 1 (length l)))
             eq_refl eq_refl li_sorted_ix (li_init_ix _) eq_refl eq_refl eq_refl range_header parse_xs
             (eval_xs _ (m_global bx_mgr) lg) eq_refl range_sep_ix).
    apply index_runs. intros z v t0 lg0. apply index_item.
  - vm_compute. reflexivity.
Qed.

Theorem index_source_to_output : loads_and src_index (fun tp =>
  forall (l : list value) (t : tbl) (st : rst) (fuel : nat), r_budget st = None -> (4 <= fuel)%nat ->
  bx_execute bx_mgr fuel tp (VMap [(s2l "xs", VSeq false l [])]) t st =
  (s2l "<ul>" ++ join (s2l " ") (map (fun k => s2l "<li>" ++ str_of_Z (Z.of_nat k) ++ s2l "</li>") (seq 1 (length l)))
     ++ s2l " </ul>", ROk, t, st)).
Proof.
  exists root_index. split; [exact index_loads|]. intros l t st fuel Hb Hf.
  exact (range_index_end_to_end false l [] t st fuel Hb Hf).
Qed.
Example index_three :
  ul_open ++ join [32] (map numeral_out (seq 1 3)) ++ [32] ++ ul_close = s2l "<ul><li>1</li> <li>2</li> <li>3</li> </ul>".
Proof. vm_compute. reflexivity. Qed.

(* ------------------------------------------------------------------------------------------ *)
(* B. a non-collection is an error                                                              *)
(* ------------------------------------------------------------------------------------------ *)
Definition non_collection (v : value) : Prop := match v with VSeq _ _ _ | VStr _ | VMap _ => False | _ => True end.

Theorem range_non_collection : forall (v : value) (t : tbl) (st : rst) (fuel : nat),
  non_collection v -> r_budget st = None -> (3 <= fuel)%nat ->
  bx_execute bx_mgr fuel (tp_of root_range) (VMap [(s_xs, v)]) t st =
  (ul_open, match v with VOpaque _ => RUnmodelled | _ => RErr (RC COther) end, t, st).
Proof.
  intros v t [lg b] fuel Hv Hb Hf. cbn [r_budget] in Hb. subst b.
  apply (fuel_lift bx_mgr 3); [destruct v; discriminate| |exact Hf].
  destruct v; try contradiction; vm_compute; reflexivity.
Qed.
Corollary range_non_collection_never_ok : forall v t st fuel out r t' st',
  non_collection v -> r_budget st = None -> (3 <= fuel)%nat ->
  bx_execute bx_mgr fuel (tp_of root_range) (VMap [(s_xs, v)]) t st = (out, r, t', st') -> r <> ROk /\ out = ul_open.
Proof.
  intros v t st fuel out r t' st' Hv Hb Hf H. rewrite (range_non_collection v t st fuel Hv Hb Hf) in H.
  injection H as <- <- _ _. split; [destruct v; discriminate|reflexivity].
Qed.
(* the instances of the property text: integers, booleans, nil *)
Corollary range_over_scalar : forall t st fuel, r_budget st = None -> (3 <= fuel)%nat ->
  (forall k z, bx_execute bx_mgr fuel (tp_of root_range) (VMap [(s_xs, VInt k z)]) t st = (ul_open, RErr (RC COther), t, st)) /\
  (forall b, bx_execute bx_mgr fuel (tp_of root_range) (VMap [(s_xs, VBool b)]) t st = (ul_open, RErr (RC COther), t, st)) /\
  bx_execute bx_mgr fuel (tp_of root_range) (VMap [(s_xs, VNil)]) t st = (ul_open, RErr (RC COther), t, st).
Proof.
  intros t st fuel Hb Hf. split; [|split].
  - intros k z. exact (range_non_collection (VInt k z) t st fuel I Hb Hf).
  - intros b. exact (range_non_collection (VBool b) t st fuel I Hb Hf).
  - exact (range_non_collection VNil t st fuel I Hb Hf).
Qed.

(* ------------------------------------------------------------------------------------------ *)
(* C. WITH: visible to the descendants, not to the siblings                                     *)
(* ------------------------------------------------------------------------------------------ *)
Definition src_with : str := s2l "<p :with=""v := ${s}""><b :text=""${v}"">1</b></p><i :text=""${v}"">2</i>".
Definition root_with : node := Eval vm_compute in match bx_load src_with with inl r => r | inr _ => no_root end.
Lemma with_loads : bx_load src_with = inl root_with.
Proof. vm_compute. reflexivity. Qed.

Definition s_s : str := [115].
Definition s_v : str := [118].

(* the data binds s only: the descendant sees v, the sibling does not; the open tag of the sibling is already written *)
Theorem with_no_leak : forall (s : str) (t : tbl) (st : rst) (fuel : nat), r_budget st = None -> (3 <= fuel)%nat ->
  bx_execute bx_mgr fuel (tp_of root_with) (VMap [(s_s, VStr s)]) t st =
  (s2l "<p><b>" ++ escape s ++ s2l "</b></p><i>", RErr (RC CNoSuchValue), t, st).
Proof.
  intros s t [lg b] fuel Hb Hf. cbn [r_budget] in Hb. subst b.
  apply (fuel_lift bx_mgr 3); [discriminate| |exact Hf].
  vm_compute. refold_esc s. refold_app. norm_app. reflexivity.
Qed.

(* the data binds v as well: the inner binding shadows it inside the element, the outer one is back for the sibling *)
Theorem with_shadow_restore : forall (s u : str) (t : tbl) (st : rst) (fuel : nat), r_budget st = None -> (3 <= fuel)%nat ->
  bx_execute bx_mgr fuel (tp_of root_with) (VMap [(s_s, VStr s); (s_v, VStr u)]) t st =
  (s2l "<p><b>" ++ escape s ++ s2l "</b></p><i>" ++ escape u ++ s2l "</i>", ROk, t, st).
Proof.
  intros s u t [lg b] fuel Hb Hf. cbn [r_budget] in Hb. subst b.
  apply (fuel_lift bx_mgr 3); [discriminate| |exact Hf].
  vm_compute. refold_esc s. refold_esc u. refold_app. norm_app. reflexivity.
Qed.

Theorem with_source_to_output : loads_and src_with (fun tp =>
  forall (s : str) (t : tbl) (st : rst) (fuel : nat), r_budget st = None -> (3 <= fuel)%nat ->
  bx_execute bx_mgr fuel tp (VMap [(s2l "s", VStr s)]) t st =
    (s2l "<p><b>" ++ escape s ++ s2l "</b></p><i>", RErr (RC CNoSuchValue), t, st) /\
  forall u : str,
  bx_execute bx_mgr fuel tp (VMap [(s2l "s", VStr s); (s2l "v", VStr u)]) t st =
    (s2l "<p><b>" ++ escape s ++ s2l "</b></p><i>" ++ escape u ++ s2l "</i>", ROk, t, st)).
Proof.
  exists root_with. split; [exact with_loads|]. intros s t st fuel Hb Hf. split.
  - exact (with_no_leak s t st fuel Hb Hf).
  - intros u. exact (with_shadow_restore s u t st fuel Hb Hf).
Qed.

(* ------------------------------------------------------------------------------------------ *)
(* D. FRAGMENTS, through the manager                                                            *)
(* ------------------------------------------------------------------------------------------ *)
Notation bx_add_files :=
  (add_files bx_space bx_lower bx_letter bx_digit bx_methods bx_call default_text_tags default_void_elements
             [116; 58] [58] (SData (VMap []))).
Definition bx_mk (tps : list (str * template)) : manager := mk_mgr [116; 58] [58] (SData (VMap [])) tps.
Definition no_tp : template := mkT [] [].
Definition tp_named (name : str) (tps : list (str * template)) : template :=
  match assoc name tps with Some tp => tp | None => no_tp end.

Definition s_page : str := s2l "page".
Definition s_lib : str := s2l "lib".
Definition s_t : str := [116].
Definition src_frag : str :=
  s2l "<div :define=""f""> <b :text=""${t}"">z</b> </div><main><span :insert=""f"">old</span><span :replace=""f"">old</span></main>".
Definition tps_frag : list (str * template) := Eval vm_compute in fst (bx_add_files [] [(s_page, src_frag)]).
Lemma frag_loads : bx_add_files [] [(s_page, src_frag)] = (tps_frag, None).
Proof. vm_compute. reflexivity. Qed.
(* two templates are registered: the file and the fragment f *)
Lemma frag_names : map fst tps_frag = [s_page; [102]].
Proof. vm_compute. reflexivity. Qed.
Definition tp_page : template := Eval vm_compute in tp_named s_page tps_frag.
Lemma frag_page : assoc s_page tps_frag = Some tp_page.
Proof. vm_compute. reflexivity. Qed.

Definition frag_out (u : str) : str :=
  s2l "<main><span><b>" ++ escape u ++ s2l "</b></span><b>" ++ escape u ++ s2l "</b></main>".

(* the definition is invisible where it is written; insert keeps the host tag and replaces its children, replace
   substitutes the host; the blank text at both ends of the definition is trimmed *)
Theorem fragment_end_to_end : forall (u : str) (t : tbl) (st : rst) (fuel : nat), r_budget st = None -> (4 <= fuel)%nat ->
  bx_execute (bx_mk tps_frag) fuel tp_page (VMap [(s_t, VStr u)]) t st = (frag_out u, ROk, t, st).
Proof.
  intros u t [lg b] fuel Hb Hf. cbn [r_budget] in Hb. subst b.
  apply (fuel_lift (bx_mk tps_frag) 4); [discriminate| |exact Hf].
  vm_compute. refold_esc u. refold_app. norm_app. reflexivity.
Qed.

Theorem fragment_source_to_output : exists tps tp,
  bx_add_files [] [(s2l "page", src_frag)] = (tps, None) /\ assoc (s2l "page") tps = Some tp /\
  forall (u : str) (t : tbl) (st : rst) (fuel : nat), r_budget st = None -> (4 <= fuel)%nat ->
  bx_execute (bx_mk tps) fuel tp (VMap [(s2l "t", VStr u)]) t st =
  (s2l "<main><span><b>" ++ escape u ++ s2l "</b></span><b>" ++ escape u ++ s2l "</b></main>", ROk, t, st).
Proof.
  exists tps_frag, tp_page. split; [exact frag_loads|]. split; [exact frag_page|]. exact fragment_end_to_end.
Qed.

(* the definition in a file of its own *)
Definition src_lib : str := s2l "<div :define=""f""> <b :text=""${t}"">z</b> </div>".
Definition src_page : str := s2l "<main><span :insert=""f"">old</span><span :replace=""f"">old</span></main>".
Definition tps_two : list (str * template) := Eval vm_compute in fst (bx_add_files [] [(s_lib, src_lib); (s_page, src_page)]).
Definition tps_two' : list (str * template) := Eval vm_compute in fst (bx_add_files [] [(s_page, src_page); (s_lib, src_lib)]).
Lemma two_loads : bx_add_files [] [(s_lib, src_lib); (s_page, src_page)] = (tps_two, None) /\
                  bx_add_files [] [(s_page, src_page); (s_lib, src_lib)] = (tps_two', None).
Proof. split; vm_compute; reflexivity. Qed.
Definition tp_page2 : template := Eval vm_compute in tp_named s_page tps_two.
Lemma two_page : assoc s_page tps_two = Some tp_page2 /\ assoc s_page tps_two' = Some tp_page2.
Proof. split; vm_compute; reflexivity. Qed.

Theorem fragment_two_files : forall (u : str) (t : tbl) (st : rst) (fuel : nat), r_budget st = None -> (4 <= fuel)%nat ->
  bx_execute (bx_mk tps_two) fuel tp_page2 (VMap [(s_t, VStr u)]) t st = (frag_out u, ROk, t, st) /\
  bx_execute (bx_mk tps_two') fuel tp_page2 (VMap [(s_t, VStr u)]) t st = (frag_out u, ROk, t, st).
Proof.
  intros u t [lg b] fuel Hb Hf. cbn [r_budget] in Hb. subst b. split.
  - apply (fuel_lift (bx_mk tps_two) 4); [discriminate| |exact Hf].
    vm_compute. refold_esc u. refold_app. norm_app. reflexivity.
  - apply (fuel_lift (bx_mk tps_two') 4); [discriminate| |exact Hf].
    vm_compute. refold_esc u. refold_app. norm_app. reflexivity.
Qed.
(* the file that holds only the definition renders to nothing *)
Theorem definition_file_invisible : forall (data : value) (t : tbl) (st : rst) (fuel : nat), r_budget st = None -> (2 <= fuel)%nat ->
  bx_execute (bx_mk tps_two) fuel (tp_named s_lib tps_two) data t st = ([], ROk, t, st).
Proof.
  intros data t [lg b] fuel Hb Hf. cbn [r_budget] in Hb. subst b.
  apply (fuel_lift (bx_mk tps_two) 2); [discriminate| |exact Hf].
  destruct data; vm_compute; reflexivity.
Qed.

(* ------------------------------------------------------------------------------------------ *)
(* E. CHAIN                                                                                     *)
(* ------------------------------------------------------------------------------------------ *)
Definition src_chain : str := s2l "<p :if=""${a}"">A</p> <!-- c --> <p :elif=""${b}"">B</p><p :else>C</p>".
Definition root_chain : node := Eval vm_compute in match bx_load src_chain with inl r => r | inr _ => no_root end.
Lemma chain_loads : bx_load src_chain = inl root_chain.
Proof. vm_compute. reflexivity. Qed.

Definition s_a : str := [97].
Definition s_b : str := [98].
Definition gap_chain : str := s2l " <!-- c --> ".
(* sel = the first condition holds; the gap (blank, comment, blank) is printed as it is, wherever the selected branch is;
   the ids of the three elements in the condition table are 1, 7, 10 *)
Definition chain_out (sel b : bool) : str :=
  (if sel then s2l "<p>A</p>" else []) ++ gap_chain ++ (if sel then [] else if b then s2l "<p>B</p>" else s2l "<p>C</p>").
Definition chain_tbl (t : tbl) (sel b : bool) : tbl := tbl_set (tbl_set (tbl_set t 1 sel) 7 (sel || b)) 10 true.

Theorem chain_bool : forall (a b : bool) (t : tbl) (st : rst) (fuel : nat), r_budget st = None -> (4 <= fuel)%nat ->
  bx_execute bx_mgr fuel (tp_of root_chain) (VMap [(s_a, VBool a); (s_b, VBool b)]) t st =
  (chain_out a b, ROk, chain_tbl t a b, st).
Proof.
  intros a b t [lg bd] fuel Hb Hf. cbn [r_budget] in Hb. subst bd.
  apply (fuel_lift bx_mgr 4); [discriminate| |exact Hf].
  destruct a, b; vm_compute; reflexivity.
Qed.

(* a condition that is not a boolean: its TEXT is compared with the text true *)
Definition p_if : node := Eval vm_compute in nth_child 0 root_chain.
Definition rest_chain : list node := Eval vm_compute in tl (n_children root_chain).
Definition p_tok : token := Eval vm_compute in tok_or p_if.
Definition a_if : attr := Eval vm_compute in nth 0 (t_attrs p_tok) no_attr.
Definition p_buf : str := s2l "<p".
Lemma chain_children : n_children root_chain = p_if :: rest_chain.
Proof. reflexivity. Qed.
Lemma p_sorted : sorted_attrs (prefix bx_mgr) (t_attrs p_tok) = [a_if].
Proof. vm_compute. reflexivity. Qed.
Lemma p_init : forall sc, init_lstate bx_lower bx_mgr 0 p_tok sc = mkL sc true CNop p_buf [] [] false.
Proof. intros sc. vm_compute. reflexivity. Qed.

(* the first element when the text of its condition is not true: nothing is printed, the entry of the element is false *)
Lemma if_not_selected : forall (ex : exec_t) sc txt t lg,
  bx_attr_eval bx_mgr a_if sc lg = (AOk txt, lg) -> str_eqb txt s_true = false ->
  bx_body bx_mgr ex 0 (n_children root_chain) p_if sc true t (mkR lg None) = ([], ROk, tbl_set t 1 false, mkR lg None).
Proof.
  intros ex sc txt t lg Hev Hne.
  rewrite (exec_body_tag bx_mgr ex 0 (n_children root_chain) p_if p_tok sc true t (mkR lg None) eq_refl eq_refl).
  unfold exec_tag. rewrite p_sorted, p_init. cbn [run_attrs].
  rewrite (attr_step_if bx_mgr ex 0 (n_children root_chain) p_if (t_attrs p_tok) a_if _ t (mkR lg None) _ eq_refl eq_refl eq_refl eq_refl).
  unfold eval_cond. cbn [l_sc r_log]. rewrite Hev, Hne.
  rewrite (is_owner_if bx_mgr a_if eq_refl eq_refl).
  cbn [set_child token_buf l_direct l_np l_sc l_child l_tagbuf l_content l_replace app set_log r_log r_budget].
  unfold wr, write, run_child. cbn [r_budget r_log seq2 l_child l_np app].
  destruct (n_end p_if) as [e0|]; reflexivity.
Qed.

(* the rest of the chain after a first element that was not selected *)
Lemma chain_rest : forall (va : value) (b : bool) (t : tbl) (lg : log),
  exec_list (bx_enode bx_mgr 3) (n_children root_chain) rest_chain
    (data_scope bx_mgr (VMap [(s_a, va); (s_b, VBool b)])) true (tbl_set t 1 false) (mkR lg None) =
  (chain_out false b, ROk, chain_tbl t false b, mkR lg None).
Proof. intros va b t lg. destruct b; vm_compute; reflexivity. Qed.

Theorem chain_text : forall (va : value) (txt : str) (b : bool) (t : tbl) (st : rst) (fuel : nat),
  (forall lg, bx_attr_eval bx_mgr a_if (data_scope bx_mgr (VMap [(s_a, va); (s_b, VBool b)])) lg = (AOk txt, lg)) ->
  str_eqb txt s_true = false ->
  r_budget st = None -> (4 <= fuel)%nat ->
  bx_execute bx_mgr fuel (tp_of root_chain) (VMap [(s_a, va); (s_b, VBool b)]) t st =
  (chain_out false b, ROk, chain_tbl t false b, st).
Proof.
  intros va txt b t [lg bd] fuel Hev Hne Hb Hf. cbn [r_budget] in Hb. subst bd.
  apply (fuel_lift bx_mgr 4); [discriminate| |exact Hf].
  rewrite execute_children. unfold tp_of. cbn [tp_ctx tp_children]. rewrite chain_children at 2.
  cbn [exec_list].
  change (bx_enode bx_mgr 3 0 (n_children root_chain) p_if) with (bx_body bx_mgr (bx_enode bx_mgr 2) 0 (n_children root_chain) p_if).
  change (SCombine (SData (VMap [(s_a, va); (s_b, VBool b)])) (m_global bx_mgr))
    with (data_scope bx_mgr (VMap [(s_a, va); (s_b, VBool b)])).
  rewrite (if_not_selected (bx_enode bx_mgr 2) _ txt t lg (Hev lg) Hne).
  rewrite seq2_nil_ok. apply chain_rest.
Qed.

Lemma eval_if_string : forall s vb lg,
  bx_attr_eval bx_mgr a_if (data_scope bx_mgr (VMap [(s_a, VStr s); (s_b, vb)])) lg = (AOk s, lg).
Proof. intros s vb lg. vm_compute. reflexivity. Qed.
Lemma ctoks_if : exists t1 t2 t3 t4 t5,
  ctoks_of bx_letter bx_digit bx_mgr a_if = [t1; t2; t3; t4; t5] /\
  c_kind t1 = BegEnd /\ c_kind t2 = CodeStart /\ c_kind t3 = CodeValue /\ c_kind t4 = CodeEnd /\ c_kind t5 = BegEnd /\
  c_value t3 = s_a.
Proof. do 5 eexists. vm_compute. repeat split. Qed.
Lemma eval_a : forall va vb lg,
  bx_eval_text (data_scope bx_mgr (VMap [(s_a, va); (s_b, vb)])) s_a lg = (Ok va, lg).
Proof. intros va vb lg. vm_compute. reflexivity. Qed.
(* the numeral of a symbolic integer is not normalised (its normal form is exponentially large) *)
Lemma eval_if_int : forall k z vb lg,
  bx_attr_eval bx_mgr a_if (data_scope bx_mgr (VMap [(s_a, VInt k z); (s_b, vb)])) lg = (AOk (str_of_Z z), lg).
Proof.
  intros k z vb lg. destruct ctoks_if as (t1 & t2 & t3 & t4 & t5 & Hct & K1 & K2 & K3 & K4 & K5 & Hc).
  apply (attr_eval_block bx_mgr a_if _ lg _ t1 t2 t3 t4 t5 (VInt k z) (str_of_Z z) eq_refl Hct K1 K2 K3 K4 K5);
    [|reflexivity].
  rewrite Hc. apply eval_a.
Qed.

(* a = a string: the first branch is selected iff the string is the text true *)
Theorem chain_string : forall (s : str) (b : bool) (t : tbl) (st : rst) (fuel : nat), r_budget st = None -> (4 <= fuel)%nat ->
  bx_execute bx_mgr fuel (tp_of root_chain) (VMap [(s_a, VStr s); (s_b, VBool b)]) t st =
  (chain_out (str_eqb s s_true) b, ROk, chain_tbl t (str_eqb s s_true) b, st).
Proof.
  intros s b t st fuel Hb Hf. destruct (str_eqb s s_true) eqn:E.
  - apply str_eqb_true in E. subst s. destruct st as [lg bd]. cbn [r_budget] in Hb. subst bd.
    apply (fuel_lift bx_mgr 4); [discriminate| |exact Hf].
    destruct b; vm_compute; reflexivity.
  - apply (chain_text (VStr s) s b t st fuel (eval_if_string s (VBool b)) E Hb Hf).
Qed.
Corollary chain_string_selected_iff : forall (s : str) (b : bool) (t : tbl) (st : rst) (fuel : nat),
  r_budget st = None -> (4 <= fuel)%nat ->
  (s = s_true ->
   bx_execute bx_mgr fuel (tp_of root_chain) (VMap [(s_a, VStr s); (s_b, VBool b)]) t st
   = (s2l "<p>A</p> <!-- c --> ", ROk, chain_tbl t true b, st)) /\
  (s <> s_true ->
   bx_execute bx_mgr fuel (tp_of root_chain) (VMap [(s_a, VStr s); (s_b, VBool b)]) t st
   = (gap_chain ++ (if b then s2l "<p>B</p>" else s2l "<p>C</p>"), ROk, chain_tbl t false b, st)).
Proof.
  intros s b t st fuel Hb Hf. split; intros Hs.
  - subst s. rewrite (chain_string s_true b t st fuel Hb Hf). reflexivity.
  - rewrite (chain_string s b t st fuel Hb Hf).
    destruct (str_eqb s s_true) eqn:E; [apply str_eqb_true in E; contradiction|reflexivity].
Qed.

(* a = an integer: its numeral is never the text true *)
Lemma dec_digits_head : forall f n acc, exists d r, dec_digits (S f) n acc = d :: r /\ d < 58.
Proof.
  induction f as [|f IH]; intros n acc.
  - cbn [dec_digits]. cbv zeta. exists (48 + n mod 10), acc.
    assert (Hm : n mod 10 < 10) by (apply N.mod_lt; discriminate).
    set (m := n mod 10) in *. clearbody m.
    destruct (n <? 10); (split; [reflexivity|lia]).
  - change (dec_digits (S (S f)) n acc) with
      (let acc' := (48 + n mod 10) :: acc in if n <? 10 then acc' else dec_digits (S f) (n / 10) acc').
    cbv zeta. destruct (n <? 10).
    + exists (48 + n mod 10), acc. assert (Hm : n mod 10 < 10) by (apply N.mod_lt; discriminate).
      set (m := n mod 10) in *. clearbody m. split; [reflexivity|lia].
    + apply IH.
Qed.
Lemma numeral_not_true : forall z, str_eqb (str_of_Z z) s_true = false.
Proof.
  intros z. destruct z as [|p|p]; [reflexivity| |reflexivity].
  unfold str_of_Z, str_of_N. destruct (dec_digits_head 79 (Npos p) []) as (d & r & E & Hd). rewrite E.
  unfold s_true. cbn [str_eqb]. destruct (N.eqb_spec d 116) as [E2|_]; [lia|reflexivity].
Qed.
Theorem chain_int : forall (k : ikind) (z : Z) (b : bool) (t : tbl) (st : rst) (fuel : nat), r_budget st = None -> (4 <= fuel)%nat ->
  bx_execute bx_mgr fuel (tp_of root_chain) (VMap [(s_a, VInt k z); (s_b, VBool b)]) t st =
  (chain_out false b, ROk, chain_tbl t false b, st).
Proof.
  intros k z b t st fuel Hb Hf.
  exact (chain_text (VInt k z) (str_of_Z z) b t st fuel (eval_if_int k z (VBool b)) (numeral_not_true z) Hb Hf).
Qed.

Theorem chain_source_to_output : loads_and src_chain (fun tp =>
  forall (b : bool) (t : tbl) (st : rst) (fuel : nat), r_budget st = None -> (4 <= fuel)%nat ->
  (forall a : bool,
     bx_execute bx_mgr fuel tp (VMap [(s2l "a", VBool a); (s2l "b", VBool b)]) t st = (chain_out a b, ROk, chain_tbl t a b, st)) /\
  (forall s : str,
     bx_execute bx_mgr fuel tp (VMap [(s2l "a", VStr s); (s2l "b", VBool b)]) t st =
     (chain_out (str_eqb s (s2l "true")) b, ROk, chain_tbl t (str_eqb s (s2l "true")) b, st)) /\
  (forall k z,
     bx_execute bx_mgr fuel tp (VMap [(s2l "a", VInt k z); (s2l "b", VBool b)]) t st = (chain_out false b, ROk, chain_tbl t false b, st))).
Proof.
  exists root_chain. split; [exact chain_loads|]. intros b t st fuel Hb Hf. split; [|split].
  - intros a. exact (chain_bool a b t st fuel Hb Hf).
  - intros s. exact (chain_string s b t st fuel Hb Hf).
  - intros k z. exact (chain_int k z b t st fuel Hb Hf).
Qed.
(* the four boolean cases, spelled out *)
Example chain_outputs :
  chain_out true true = s2l "<p>A</p> <!-- c --> " /\ chain_out true false = s2l "<p>A</p> <!-- c --> " /\
  chain_out false true = s2l " <!-- c --> <p>B</p>" /\ chain_out false false = s2l " <!-- c --> <p>C</p>".
Proof. vm_compute. repeat split; reflexivity. Qed.

Print Assumptions range_end_to_end.
Print Assumptions range_source_to_output.
Print Assumptions range_index_end_to_end.
Print Assumptions range_non_collection.
Print Assumptions with_no_leak.
Print Assumptions with_shadow_restore.
Print Assumptions fragment_end_to_end.
Print Assumptions fragment_source_to_output.
Print Assumptions fragment_two_files.
Print Assumptions chain_bool.
Print Assumptions chain_string.
Print Assumptions chain_int.
Print Assumptions chain_source_to_output.
