(* C02, clause "HTML-unescaping the emitted text / attribute value yields the original string",
   END TO END through the scanner model (Html/Scan.v): a consumer that tokenises
       pre ++ escape v ++ post
   reads, at the insertion point, ONE text token (resp. one quoted attribute value) whose content x is
   exactly  escape v , hence  unescape5 x = v .

     text_readback        insertion right after a complete tag (scanner in MInit, not in a raw-text
                          element), followed by '<', v non-empty
     text_readback_empty  v empty: no text token at the insertion point
     attr_readback        insertion right after the opening quote q of an attribute value, followed by
                          the closing quote
     text_only_exec       (B9) the renderer model on an element whose single directive is  prefix++"text" :
                          output = open tag ++ escape v ++ end tag, children not rendered
     text_render_readback (B9) text_only_exec + text_readback

   ASSUMPTIONS (hypotheses, as in HoleInvariant.v): Hcomp, the attribute compiler oracle does not look at
   source positions; attr_readback: Hhole, for the attribute that contains the hole the oracle does not
   depend on the value.  Both hold for [fun _ => true] (a rendered document has no directive). *)
From Coq Require Import List NArith Bool Lia.
From Tpl Require Import Proofs.ExecSpec Proofs.EscapeProps Proofs.PrintScanDefs Proofs.HoleSim Proofs.HoleInvariant
  Proofs.HoleEscape Proofs.EmitProps Proofs.ChainProps Proofs.RenderPlain Proofs.RemoveModes.
Import ListNotations.
Open Scope N_scope.

Lemma escape1_nonnil : forall c, escape1 c <> [].
Proof.
  intros c. destruct (escape1_cases c) as [[_ He]|[[_ He]|[[_ He]|[[_ He]|[[_ He]|(_ & _ & _ & _ & _ & He)]]]]];
    rewrite He; discriminate.
Qed.

Lemma escape_nil_inv : forall v, escape v = [] -> v = [].
Proof.
  intros [|c v] H; [reflexivity|]. rewrite escape_cons in H. apply app_eq_nil in H.
  destruct H as [H _]. exfalso. exact (escape1_nonnil c H).
Qed.

Lemma upto_head : forall q rest, upto q (q :: rest) = [].
Proof. intros q rest. cbn [upto]. rewrite N.eqb_refl. reflexivity. Qed.

Section Readback.
Variable is_space : rune -> bool.
Variable to_lower : rune -> rune.
Variable text_tags : list str.
Variable attr_prefix : str.
Variable compile : attr -> bool.
(* ASSUMPTION: the attribute compiler does not look at source positions *)
Hypothesis Hcomp : forall a1 a2, a_name a1 = a_name a2 -> a_value a1 = a_value a2 -> compile a1 = compile a2.
Notation run := (@fold_left sstate rune (Scan.step is_space to_lower text_tags attr_prefix compile)).
Notation scan := (Scan.scan is_space to_lower text_tags attr_prefix compile).

(* the scanner has just completed a token and is not inside a raw-text element *)
Definition after_tag (S : sstate) : Prop :=
  s_mode S = MInit /\ Scan.raw_tag_of_last to_lower text_tags (s_toks S) = None.

Lemma after_tag_ctx : forall S, after_tag S -> text_ctx to_lower text_tags S /\ pending S = [].
Proof. intros S [Hm Hr]. unfold text_ctx, pending. rewrite Hm. split; [exact Hr|reflexivity]. Qed.

Lemma after_tag_scan : forall pre, after_tag (run pre init) -> scan pre = inl (rev (s_toks (run pre init))).
Proof. intros pre [Hm _]. unfold Scan.scan, Scan.finish. rewrite Hm. reflexivity. Qed.

(* B7 *)
Theorem text_readback : forall pre post v,
  after_tag (run pre init) -> (exists rest, post = cLT :: rest) -> v <> [] ->
  forall toks, scan (pre ++ escape v ++ post) = inl toks ->
  exists l x st en r,
    scan pre = inl l /\
    toks = l ++ mkTok KText x st en [] [] :: r /\
    x = escape v /\ unescape5 x = v.
Proof.
  intros pre post v Hafter [rest Hpost] Hv toks Hscan.
  destruct (after_tag_ctx _ Hafter) as [Hctx Hpend].
  destruct (text_hole_decompose is_space to_lower text_tags attr_prefix compile Hcomp pre (escape v) (escape v) post Hctx
              (proj1 (escape_no v)) (proj1 (escape_no v)))
    as [(e & E1 & _)|(l & h1 & h2 & r1 & r2 & E1 & _ & Hl & D1 & _ & _)].
  - rewrite Hscan in E1. discriminate E1.
  - rewrite Hscan in E1. injection E1 as E1.
    rewrite Hpost, upto_head, app_nil_r in D1.
    exists l, (escape v). destruct D1 as [(_ & _ & Hnil)|(st & en & Hh & _)].
    + exfalso. apply Hv. apply escape_nil_inv. exact Hnil.
    + exists st, en, r1. split; [rewrite Hl; apply after_tag_scan; exact Hafter|].
      split; [|split; [reflexivity|apply escape_roundtrip]].
      rewrite E1, Hh, Hpend. reflexivity.
Qed.

(* the empty string leaves no text token; everything else is as for a non-empty string *)
Theorem text_readback_empty : forall pre post,
  after_tag (run pre init) -> (exists rest, post = cLT :: rest) ->
  forall toks, scan (pre ++ escape [] ++ post) = inl toks ->
  exists l r,
    scan pre = inl l /\ toks = l ++ r /\
    forall v toks', scan (pre ++ escape v ++ post) = inl toks' -> v <> [] ->
      exists st en r', toks' = l ++ mkTok KText (escape v) st en [] [] :: r' /\ map tok_np r' = map tok_np r.
Proof.
  intros pre post Hafter [rest Hpost] toks Hscan.
  destruct (after_tag_ctx _ Hafter) as [Hctx Hpend].
  assert (Hno : ~ In cLT (escape [])) by (intros []).
  exists (rev (s_toks (run pre init))).
  assert (Hfirst : exists r, toks = rev (s_toks (run pre init)) ++ r /\
            forall v toks', scan (pre ++ escape v ++ post) = inl toks' -> v <> [] ->
              exists st en r', toks' = rev (s_toks (run pre init)) ++ mkTok KText (escape v) st en [] [] :: r' /\
                               map tok_np r' = map tok_np r).
  { destruct (text_hole_decompose is_space to_lower text_tags attr_prefix compile Hcomp pre (escape []) (escape []) post Hctx Hno Hno)
      as [(e & E1 & _)|(l & h1 & h2 & r1 & r2 & E1 & _ & Hl & D1 & _ & _)]; [rewrite Hscan in E1; discriminate E1|].
    rewrite Hscan in E1. injection E1 as E1. rewrite Hpost, upto_head in D1. cbn [escape flat_map app] in D1.
    assert (Hh1 : h1 = []).
    { destruct D1 as [(H & _)|(st & en & _ & Hne)]; [exact H|]. exfalso. apply (Hne (proj1 Hafter)). reflexivity. }
    subst h1. cbn [app] in E1. exists r1. split; [rewrite E1, Hl; reflexivity|].
    intros v toks' Hscan' Hv.
    destruct (text_hole_decompose is_space to_lower text_tags attr_prefix compile Hcomp pre (escape v) (escape []) post Hctx
                (proj1 (escape_no v)) Hno)
      as [(e & E1' & _)|(l' & h1' & h2' & r1' & r2' & E1' & E2' & Hl' & D1' & D2' & Hr')]; [rewrite Hscan' in E1'; discriminate E1'|].
    rewrite Hscan' in E1'. injection E1' as E1'. rewrite Hscan in E2'. injection E2' as E2'.
    rewrite Hpost, upto_head in D1', D2'. cbn [escape flat_map app] in D2'. rewrite app_nil_r in D1'.
    assert (Hh2 : h2' = []).
    { destruct D2' as [(H & _)|(st & en & _ & Hne)]; [exact H|]. exfalso. apply (Hne (proj1 Hafter)). reflexivity. }
    subst h2'. cbn [app] in E2'.
    assert (Hr2 : r2' = r1).
    { rewrite E1, Hl, Hl' in E2'. apply app_inv_head in E2'. symmetry. exact E2'. }
    subst r2'.
    destruct D1' as [(_ & _ & Hnil)|(st & en & Hh & _)]; [exfalso; apply Hv; apply escape_nil_inv; exact Hnil|].
    exists st, en, r1'. split; [|exact Hr']. rewrite E1', Hl', Hh, Hpend. reflexivity. }
  destruct Hfirst as [r [H1 H2]]. exists r. split; [apply after_tag_scan; exact Hafter|]. split; [exact H1|exact H2].
Qed.

(* B8 *)
Theorem attr_readback : forall q pre post v,
  attr_ctx q (run pre init) -> hole_aval0 (run pre init) = [q] -> (exists rest, post = q :: rest) ->
  (forall a1 a2, a_name a1 = hole_aname (run pre init) -> a_name a2 = hole_aname (run pre init) -> compile a1 = compile a2) ->
  forall toks, scan (pre ++ escape v ++ post) = inl toks ->
  exists l T r A ra x,
    toks = l ++ T :: r /\ l = rev (s_toks (run pre init)) /\
    t_kind T = KTag /\ t_name T = hole_tname (run pre init) /\
    t_attrs T = hole_attrs0 (run pre init) ++ A :: ra /\
    a_name A = hole_aname (run pre init) /\ a_value A = Some (q :: x ++ [q]) /\
    x = escape v /\ unescape5 x = v.
Proof.
  intros q pre post v Hctx Hav0 [rest Hpost] Hhole toks Hscan.
  pose proof (escape_no_quote q v (proj1 Hctx)) as Hnq.
  unfold Scan.scan in Hscan. rewrite (HoleSim.run_app is_space to_lower text_tags attr_prefix compile pre) in Hscan.
  destruct (attr_hole_core is_space to_lower text_tags attr_prefix compile Hcomp q _ (escape v) (escape v) post Hctx Hnq Hnq Hhole)
    as [(e & E1 & _)|(nb & st1 & st2 & en1 & en2 & ns1 & ns2 & ne1 & ne2 & vs1 & vs2 & ve1 & ve2 & ra1 & ra2 & r1 & r2 & E1 & _)].
  - rewrite Hscan in E1. discriminate E1.
  - rewrite Hscan in E1. injection E1 as E1. rewrite Hpost, upto_head, Hav0 in E1. cbn [app] in E1.
    do 4 eexists. exists ra1, (escape v). split; [exact E1|]. cbn [t_kind t_name t_attrs a_name a_value].
    repeat split. apply escape_roundtrip.
Qed.
End Readback.

(* without directive compiler (a rendered document carries no directive attribute) *)
Corollary text_readback_nocompile : forall is_space to_lower text_tags attr_prefix pre post v,
  let run := @fold_left sstate rune (Scan.step is_space to_lower text_tags attr_prefix (fun _ => true)) in
  let scan := Scan.scan is_space to_lower text_tags attr_prefix (fun _ => true) in
  after_tag to_lower text_tags (run pre init) -> (exists rest, post = cLT :: rest) -> v <> [] ->
  forall toks, scan (pre ++ escape v ++ post) = inl toks ->
  exists l x st en r, scan pre = inl l /\ toks = l ++ mkTok KText x st en [] [] :: r /\ x = escape v /\ unescape5 x = v.
Proof.
  intros is_space to_lower text_tags attr_prefix pre post v run scan.
  apply (text_readback is_space to_lower text_tags attr_prefix (fun _ => true) (fun _ _ _ _ => eq_refl)).
Qed.

Corollary attr_readback_nocompile : forall is_space to_lower text_tags attr_prefix q pre post v,
  let run := @fold_left sstate rune (Scan.step is_space to_lower text_tags attr_prefix (fun _ => true)) in
  let scan := Scan.scan is_space to_lower text_tags attr_prefix (fun _ => true) in
  attr_ctx q (run pre init) -> hole_aval0 (run pre init) = [q] -> (exists rest, post = q :: rest) ->
  forall toks, scan (pre ++ escape v ++ post) = inl toks ->
  exists l T r A ra x,
    toks = l ++ T :: r /\ l = rev (s_toks (run pre init)) /\
    t_kind T = KTag /\ t_name T = hole_tname (run pre init) /\
    t_attrs T = hole_attrs0 (run pre init) ++ A :: ra /\
    a_name A = hole_aname (run pre init) /\ a_value A = Some (q :: x ++ [q]) /\
    x = escape v /\ unescape5 x = v.
Proof.
  intros is_space to_lower text_tags attr_prefix q pre post v run scan Hctx Hav Hpost.
  apply (attr_readback is_space to_lower text_tags attr_prefix (fun _ => true) (fun _ _ _ _ => eq_refl) q pre post v Hctx Hav Hpost).
  reflexivity.
Qed.

(* ------------------------------------------------------------------------------------------ *)
(* B9: the renderer model on  <p ... :text="..."> ... </p>                                     *)
(* ------------------------------------------------------------------------------------------ *)
Section TextOnly.
Variable is_space : rune -> bool.
Variable to_lower : rune -> rune.
Variable is_letter : rune -> bool.
Variable is_udigit : rune -> bool.
Variable methods : N -> bool -> list (str * N).
Variable call_fn : N -> list value -> fres.
Variable mgr : manager.
Variable exec : N -> list node -> node -> scope -> bool -> tbl -> rst -> R.
Notation pfx := (m_attr_prefix mgr).
Notation attr_ev := (attr_evaluate is_letter is_udigit methods call_fn mgr).
Notation astep := (attr_step is_space is_letter is_udigit methods call_fn mgr exec).
Notation ebody := (exec_body is_space to_lower is_letter is_udigit methods call_fn mgr exec).

Definition text_F (r : attr) (ls : lstate) : lstate :=
  match l_child ls with CDefault => set_child ls (CText r true) | _ => ls end.

Lemma attr_step_text : forall mask ctx n attrs r ls t st, a_name r = pfx ++ d_text ->
  astep mask ctx n attrs r ls t st = (inl (text_F r ls), t, st).
Proof.
  intros mask ctx n attrs r ls t st Hr. unfold attr_step. cbv zeta. unfold prefix.
  rewrite Hr, prefixb_app, skipn_app_len. unfold text_F.
  change (str_eqb d_text d_with) with false. change (is_cond_name d_text) with false.
  change (str_eqb d_text d_range) with false. change (str_eqb d_text d_remove) with false.
  change (str_eqb d_text d_text) with true. cbn [orb].
  destruct (l_child ls); reflexivity.
Qed.

Lemma is_owner_text : forall mask r, a_name r = pfx ++ d_text -> is_owner mgr mask r = false.
Proof.
  intros mask r Hr. unfold is_owner. cbv zeta. unfold prefix. rewrite Hr, prefixb_app, skipn_app_len. reflexivity.
Qed.

Lemma text_F_tagbuf : forall r ls o, text_F r (add_tagbuf ls o) = add_tagbuf (text_F r ls) o.
Proof. intros r [sc np ch tb co di re] o. unfold text_F, add_tagbuf, set_child. cbn [l_sc l_np l_child l_tagbuf l_content l_direct l_replace]. destruct ch; reflexivity. Qed.

Lemma text_F_ls0 : forall r sc buf, text_F r (ls0 sc buf) = mkL sc false (CText r true) buf [] [] false.
Proof. reflexivity. Qed.

(* an element whose single directive is :text (value evaluating to v): the open tag without the
   directive, the escaped value, the end tag; the children are not rendered ([exec] is not called) *)
Theorem text_only_exec : forall mask ctx n tok r sc top t st v lg,
  single_dir to_lower mgr d_text n tok r -> RenderPlain.wok top st ->
  attr_ev r sc (r_log st) = (AOk v, lg) ->
  ebody mask ctx n sc top t st = (open_tag mgr d_text tok ++ escape v ++ end_text n, ROk, t, set_log st lg).
Proof.
  intros mask ctx n tok r sc top t st v lg Hsd Hw Hev.
  assert (Hr : a_name r = pfx ++ d_text) by (destruct Hsd as (_ & _ & Hr & _); exact Hr).
  rewrite (single_body_gen is_space to_lower is_letter is_udigit methods call_fn mgr exec d_text mask ctx n tok r sc top t st (text_F r) Hsd (inert_text)).
  - cbv zeta. rewrite text_F_ls0, token_buf_open. fold (open_tag mgr d_text tok). rewrite (wr_ok top _ t st Hw).
    apply seq2_ok.
    rewrite (text_emits_escape is_space is_letter is_udigit methods call_fn mgr exec n
               (mkL sc false (CText r true) (open_buf mgr d_text tok) [] [] false) top t st r v lg eq_refl Hev).
    assert (Hw' : RenderPlain.wok top (set_log st lg)) by (destruct Hw as [Hw|Hw]; [left; exact Hw|right; exact Hw]).
    rewrite (wr_ok top _ t _ Hw'). apply seq2_ok. cbn [l_np]. apply end_ok. exact Hw'.
  - intros ls t' st'. apply attr_step_text. exact Hr.
  - apply is_owner_text. exact Hr.
  - apply text_F_tagbuf.
Qed.
End TextOnly.

(* the rendered element read back by the scanner: whenever the printed open tag leaves the scanner in
   MInit outside raw text (true for every tag that is not a raw-text tag) and the end tag starts with '<' *)
Theorem text_render_readback :
  forall is_space to_lower is_letter is_udigit methods call_fn mgr exec text_tags attr_prefix
         mask ctx n tok r sc top t st v lg out res t' st',
  let run := @fold_left sstate rune (Scan.step is_space to_lower text_tags attr_prefix (fun _ => true)) in
  let scan := Scan.scan is_space to_lower text_tags attr_prefix (fun _ => true) in
  single_dir to_lower mgr d_text n tok r -> RenderPlain.wok top st ->
  attr_evaluate is_letter is_udigit methods call_fn mgr r sc (r_log st) = (AOk v, lg) -> v <> [] ->
  exec_body is_space to_lower is_letter is_udigit methods call_fn mgr exec mask ctx n sc top t st = (out, res, t', st') ->
  after_tag to_lower text_tags (run (open_tag mgr d_text tok) init) -> (exists rest, end_text n = cLT :: rest) ->
  forall toks, scan out = inl toks ->
  res = ROk /\
  exists l x st1 en1 rr,
    scan (open_tag mgr d_text tok) = inl l /\ toks = l ++ mkTok KText x st1 en1 [] [] :: rr /\ unescape5 x = v.
Proof.
  intros is_space to_lower is_letter is_udigit methods call_fn mgr exec text_tags attr_prefix
         mask ctx n tok r sc top t st v lg out res t' st' run scan Hsd Hw Hev Hv Hex Hafter Hend toks Hscan.
  rewrite (text_only_exec is_space to_lower is_letter is_udigit methods call_fn mgr exec mask ctx n tok r sc top t st v lg Hsd Hw Hev) in Hex.
  injection Hex as Hout Hres _ _. subst out res. split; [reflexivity|].
  destruct (text_readback_nocompile is_space to_lower text_tags attr_prefix _ _ v Hafter Hend Hv toks Hscan)
    as (l & x & st1 & en1 & rr & H1 & H2 & _ & H4).
  exists l, x, st1, en1, rr. auto.
Qed.

Print Assumptions text_readback.
Print Assumptions text_readback_empty.
Print Assumptions attr_readback.
Print Assumptions text_readback_nocompile.
Print Assumptions attr_readback_nocompile.
Print Assumptions text_only_exec.
Print Assumptions text_render_readback.
