(* The code scanner loses no text: its token values concatenate back to the (consumed part of
   the) source, and its tokens abut with correct positions. *)
From Tpl Require Import Base.Runes Html.Code.
From Coq Require Import Lia.
Open Scope N_scope.

Fixpoint cchain (p : pos) (toks : list ctok) : Prop :=
  match toks with [] => True | t :: r => c_start t = p /\ c_end t = pos_after p (c_value t) /\ cchain (c_end t) r end.

(* the same for the reversed token list kept in the state, ending at e *)
Fixpoint rchain (start : pos) (toks : list ctok) (e : pos) : Prop :=
  match toks with
  | [] => e = start
  | t :: r => c_end t = e /\ c_end t = pos_after (c_start t) (c_value t) /\ rchain start r (c_start t)
  end.

Lemma rchain_cchain_gen : forall start toks e tl,
  rchain start toks e -> cchain e tl -> cchain start (rev toks ++ tl).
Proof.
  induction toks as [|t toks IH]; intros e tl Hr Hc.
  - cbn [rchain] in Hr. subst e. exact Hc.
  - cbn [rchain] in Hr. destruct Hr as [He [Hv Hr]].
    cbn [rev]. rewrite <- app_assoc. cbn [app].
    apply (IH (c_start t)); [exact Hr|].
    cbn [cchain]. split; [reflexivity|]. split; [exact Hv|].
    rewrite He. exact Hc.
Qed.

Lemma rchain_cchain : forall start toks e, rchain start toks e -> cchain start (rev toks).
Proof.
  intros start toks e Hr. rewrite <- (app_nil_r (rev toks)).
  apply (rchain_cchain_gen start toks e []); [exact Hr|exact I].
Qed.

Definition emitted (toks : list ctok) : str := concat (map c_value (rev toks)).

Lemma emitted_cons : forall t toks, emitted (t :: toks) = emitted toks ++ c_value t.
Proof.
  intros t toks. unfold emitted. cbn [rev].
  rewrite map_app, concat_app. cbn [map concat]. rewrite app_nil_r. reflexivity.
Qed.

Lemma pos_after_snoc : forall st buf r, pos_after st (buf ++ [r]) = adv (pos_after st buf) r.
Proof. intros st buf r. unfold pos_after. rewrite fold_left_app. reflexivity. Qed.

Section C.
Variable compile : pos -> str -> bool.
Variable start : pos.

(* Invariant before reading a rune at position p, [cons] being the text consumed so far.
   For CDone it describes the moment the closing quote was consumed. *)
Definition Inv (toks : list ctok) (m : cmode) (p : pos) (cons : str) : Prop :=
  match m with
  | CErr _ => True
  | CInit | CEndQ | CClosed | CDone => rchain start toks p /\ emitted toks = cons
  | CText buf st _ => rchain start toks st /\ pos_after st buf = p /\ emitted toks ++ buf = cons
  | CDollar buf st endp =>
      rchain start toks st /\ pos_after st buf = endp /\ adv endp cDOLLAR = p /\
      emitted toks ++ buf ++ [cDOLLAR] = cons
  | CBlock buf st _ => rchain start toks st /\ pos_after st buf = p /\ emitted toks ++ buf = cons
  | CStr _ _ buf st => rchain start toks st /\ pos_after st buf = p /\ emitted toks ++ buf = cons
  end.

Definition RInv (p0 : pos) (r : rune) (cons : str) (c : cres) : Prop :=
  match c with
  | CR t _ _ m again =>
      if again then Inv t m p0 cons /\ m <> CDone else Inv t m (adv p0 r) (cons ++ [r])
  end.

Ltac split_ifs :=
  repeat match goal with
  | |- context [if ?c then _ else _] => let E := fresh "E" in destruct c eqn:E
  | |- context [match ?b with [] => _ | _ :: _ => _ end] => is_var b; destruct b
  end.

Ltac eqb_subst :=
  repeat match goal with
  | H : N.eqb ?a ?b = true |- _ => apply N.eqb_eq in H; try subst a
  end.

Lemma disp_inv : forall toks f b m r p0 cons,
  m <> CDone -> Inv toks m p0 cons ->
  RInv p0 r cons (cdispatch compile toks f b m r p0 (adv p0 r)).
Proof.
  intros toks f b m r p0 cons Hnd HI.
  destruct m as [| | | |buf st endp|buf st endp|buf st endp|q esc buf st|e];
    try (exfalso; apply Hnd; reflexivity);
    cbn [cdispatch]; cbn [Inv] in HI; split_ifs; cbn [RInv Inv];
    try exact I;
    repeat match goal with H : _ /\ _ |- _ => destruct H as [? ?] end;
    eqb_subst; subst;
    cbn [pos_after fold_left] in *;
    repeat match goal with
    | |- _ /\ _ => split
    | |- _ <> _ => discriminate
    end;
    cbn [rchain c_value c_start c_end];
    repeat match goal with |- _ /\ _ => split end;
    rewrite ?emitted_cons, ?pos_after_snoc; cbn [c_value];
    repeat rewrite <- app_assoc; cbn [app pos_after fold_left];
    try reflexivity; try assumption; try congruence.
Qed.

(* Re-dispatch ("UnRead") chains are short: CDollar -> CText -> CEndQ. *)
Definition lvl (m : cmode) : nat :=
  match m with CDollar _ _ _ => 2 | CText _ _ _ => 1 | _ => 0 end%nat.
Definition mu (c : cres) : nat :=
  match c with CR _ _ _ m again => if again then S (lvl m) else O end.

Lemma disp_mu : forall toks f b m r p0 p1,
  (mu (cdispatch compile toks f b m r p0 p1) <= lvl m)%nat.
Proof.
  intros toks f b m r p0 p1.
  destruct m as [| | | |buf st endp|buf st endp|buf st endp|q esc buf st|e];
    cbn [cdispatch]; split_ifs; cbn [mu lvl]; lia.
Qed.

Definition cgo (r : rune) (p0 p1 : pos) (c : cres) : cres :=
  match c with
  | CR t f b m again => if again then cdispatch compile t f b m r p0 p1 else CR t f b m false
  end.

Lemma cstep_eq : forall s r,
  cstep compile s r =
  match cgo r (k_pos s) (adv (k_pos s) r) (cgo r (k_pos s) (adv (k_pos s) r) (cgo r (k_pos s) (adv (k_pos s) r)
          (cdispatch compile (k_toks s) (k_first s) (k_brace s) (k_mode s) r (k_pos s) (adv (k_pos s) r)))) with
  | CR t f b m _ => mkCS t (adv (k_pos s) r) f b m
  end.
Proof. reflexivity. Qed.

Lemma cgo_inv : forall r p0 cons c, RInv p0 r cons c -> RInv p0 r cons (cgo r p0 (adv p0 r) c).
Proof.
  intros r p0 cons [t f b m again] HR. cbn [cgo]. destruct again.
  - cbn [RInv] in HR. destruct HR as [HI Hnd]. apply disp_inv; assumption.
  - exact HR.
Qed.

Lemma cgo_mu : forall r p0 p1 c, (mu (cgo r p0 p1 c) <= pred (mu c))%nat.
Proof.
  intros r p0 p1 [t f b m again]. cbn [cgo]. destruct again.
  - cbn [mu pred]. apply disp_mu.
  - cbn [mu]. lia.
Qed.

Lemma lvl_le2 : forall m, (lvl m <= 2)%nat.
Proof. intros m. destruct m; cbn [lvl]; lia. Qed.

Lemma RInv_mu0 : forall p0 r cons t f b m again,
  RInv p0 r cons (CR t f b m again) -> mu (CR t f b m again) = O ->
  Inv t m (adv p0 r) (cons ++ [r]).
Proof.
  intros p0 r cons t f b m again HR Hm. destruct again.
  - cbn [mu] in Hm. discriminate.
  - exact HR.
Qed.

(* one rune, from a state that is not CDone *)
Lemma cstep_inv : forall s r cons,
  k_mode s <> CDone -> Inv (k_toks s) (k_mode s) (k_pos s) cons ->
  Inv (k_toks (cstep compile s r)) (k_mode (cstep compile s r)) (k_pos (cstep compile s r)) (cons ++ [r]).
Proof.
  intros s r cons Hnd HI. rewrite cstep_eq.
  pose proof (disp_inv (k_toks s) (k_first s) (k_brace s) (k_mode s) r (k_pos s) cons Hnd HI) as H0.
  pose proof (disp_mu (k_toks s) (k_first s) (k_brace s) (k_mode s) r (k_pos s) (adv (k_pos s) r)) as M0.
  pose proof (lvl_le2 (k_mode s)) as L.
  set (c0 := cdispatch compile (k_toks s) (k_first s) (k_brace s) (k_mode s) r (k_pos s) (adv (k_pos s) r)) in *.
  pose proof (cgo_inv r (k_pos s) cons c0 H0) as H1.
  pose proof (cgo_mu r (k_pos s) (adv (k_pos s) r) c0) as M1.
  set (c1 := cgo r (k_pos s) (adv (k_pos s) r) c0) in *.
  pose proof (cgo_inv r (k_pos s) cons c1 H1) as H2.
  pose proof (cgo_mu r (k_pos s) (adv (k_pos s) r) c1) as M2.
  set (c2 := cgo r (k_pos s) (adv (k_pos s) r) c1) in *.
  pose proof (cgo_inv r (k_pos s) cons c2 H2) as H3.
  pose proof (cgo_mu r (k_pos s) (adv (k_pos s) r) c2) as M3.
  set (c3 := cgo r (k_pos s) (adv (k_pos s) r) c2) in *.
  assert (Hz : mu c3 = O) by lia.
  destruct c3 as [t f b m again]. cbn [k_toks k_mode k_pos].
  apply (RInv_mu0 (k_pos s) r cons t f b m again H3 Hz).
Qed.

(* once the closing quote has been read, the rest of the input is ignored *)
Lemma cstep_done : forall s r,
  k_mode s = CDone ->
  k_mode (cstep compile s r) = CDone /\ k_toks (cstep compile s r) = k_toks s.
Proof.
  intros s r Hd. rewrite cstep_eq. rewrite Hd. cbn [cdispatch cgo k_mode k_toks].
  split; reflexivity.
Qed.

Definition run (src : str) : cst := fold_left (cstep compile) src (cinit start).

Lemma run_snoc : forall l r, run (l ++ [r]) = cstep compile (run l) r.
Proof. intros l r. unfold run. rewrite fold_left_app. reflexivity. Qed.

(* The consumed text splits into the part read up to and including the closing quote, which is
   exactly what the tokens (and buffers) hold, and an ignored remainder (only in mode CDone). *)
Lemma run_inv : forall src,
  exists pre rest p,
    src = pre ++ rest /\
    Inv (k_toks (run src)) (k_mode (run src)) p pre /\
    (k_mode (run src) <> CDone -> rest = [] /\ p = k_pos (run src)) /\
    cfinish (run pre) = cfinish (run src).
Proof.
  induction src as [|r l IH] using rev_ind.
  - exists [], [], start. split; [reflexivity|]. split.
    + unfold run. cbn [fold_left cinit k_toks k_mode Inv rchain]. split; reflexivity.
    + split; [|reflexivity]. intros _. split; reflexivity.
  - destruct IH as [pre [rest [p [Hsrc [HI [Hnd Hfin]]]]]].
    destruct (k_mode (run l)) eqn:Hm;
      try (specialize (Hnd ltac:(discriminate)); destruct Hnd as [Hrest Hp]; subst rest p;
           rewrite app_nil_r in Hsrc; subst pre;
           exists (l ++ [r]), [], (k_pos (run (l ++ [r])));
           split; [rewrite app_nil_r; reflexivity|];
           split; [rewrite run_snoc; apply cstep_inv; [rewrite Hm; discriminate|rewrite Hm; exact HI]|];
           split; [intros _; split; reflexivity|reflexivity]).
    destruct (cstep_done (run l) r Hm) as [Hm' Ht'].
    exists pre, (rest ++ [r]), p.
    split; [rewrite Hsrc, app_assoc; reflexivity|].
    split; [rewrite run_snoc, Hm', Ht'; exact HI|].
    split; [intros Hc; exfalso; apply Hc; rewrite run_snoc; exact Hm'|].
    rewrite Hfin. unfold cfinish. rewrite run_snoc, Hm', Ht', Hm. reflexivity.
Qed.

Lemma cfinish_inl : forall s toks,
  cfinish s = inl toks -> toks = rev (k_toks s) /\ (k_mode s = CClosed \/ k_mode s = CDone).
Proof.
  intros s toks H. unfold cfinish in H.
  destruct (k_mode s); try discriminate; injection H as H; subst toks; auto.
Qed.

Lemma Inv_closed_done : forall toks m p cons,
  m = CClosed \/ m = CDone -> Inv toks m p cons -> rchain start toks p /\ emitted toks = cons.
Proof. intros toks m p cons [Hm|Hm] HI; subst m; exact HI. Qed.

(* Everything at once: the token values concatenate to a prefix of the source; scanning that
   prefix alone yields the same tokens; the remainder is empty unless the scan ended in CDone. *)
Theorem cscan_concat_strong_sec : forall src toks,
  cscan compile start src = inl toks ->
  exists rest, concat (map c_value toks) ++ rest = src /\
               cscan compile start (concat (map c_value toks)) = inl toks /\
               (k_mode (fold_left (cstep compile) src (cinit start)) <> CDone -> rest = []).
Proof.
  intros src toks H. unfold cscan in H. fold (run src) in *.
  destruct (run_inv src) as [pre [rest [p [Hsrc [HI [Hnd Hfin]]]]]].
  destruct (cfinish_inl _ _ H) as [Ht Hm].
  destruct (Inv_closed_done _ _ _ _ Hm HI) as [_ He].
  unfold emitted in He. rewrite <- Ht in He.
  exists rest. rewrite He. split; [symmetry; exact Hsrc|]. split.
  - unfold cscan. fold (run pre). rewrite Hfin. exact H.
  - intros Hc. apply Hnd. exact Hc.
Qed.

Theorem cscan_positions_sec : forall src toks,
  cscan compile start src = inl toks -> cchain start toks.
Proof.
  intros src toks H. unfold cscan in H. fold (run src) in *.
  destruct (run_inv src) as [pre [rest [p [Hsrc [HI [Hnd Hfin]]]]]].
  destruct (cfinish_inl _ _ H) as [Ht Hm].
  destruct (Inv_closed_done _ _ _ _ Hm HI) as [Hr _].
  subst toks. apply (rchain_cchain start _ p). exact Hr.
Qed.
End C.

Theorem cscan_concat : forall (compile : pos -> str -> bool) (start : pos) (src : str) (toks : list ctok),
  cscan compile start src = inl toks ->
  exists rest, concat (map c_value toks) ++ rest = src.
Proof.
  intros compile start src toks H.
  destruct (cscan_concat_strong_sec compile start src toks H) as [rest [Hc _]].
  exists rest. exact Hc.
Qed.

(* Strong form. *)
Theorem cscan_concat_strong : forall (compile : pos -> str -> bool) (start : pos) (src : str) (toks : list ctok),
  cscan compile start src = inl toks ->
  exists rest, concat (map c_value toks) ++ rest = src /\
               cscan compile start (concat (map c_value toks)) = inl toks /\
               (k_mode (fold_left (cstep compile) src (cinit start)) <> CDone -> rest = []).
Proof. exact cscan_concat_strong_sec. Qed.

(* The form suggested in the task: a scan that ends in CClosed consumed everything. *)
Theorem cscan_concat_closed : forall (compile : pos -> str -> bool) (start : pos) (src : str) (toks : list ctok),
  cscan compile start src = inl toks ->
  k_mode (fold_left (cstep compile) src (cinit start)) = CClosed ->
  concat (map c_value toks) = src.
Proof.
  intros compile start src toks H Hm.
  destruct (cscan_concat_strong_sec compile start src toks H) as [rest [Hc [_ Hr]]].
  rewrite Hr in Hc; [|rewrite Hm; discriminate].
  rewrite app_nil_r in Hc. exact Hc.
Qed.

Theorem cscan_positions : forall compile start src toks, cscan compile start src = inl toks -> cchain start toks.
Proof. exact cscan_positions_sec. Qed.

Print Assumptions cscan_concat.
Print Assumptions cscan_concat_strong.
Print Assumptions cscan_concat_closed.
Print Assumptions cscan_positions.
