(* C16: the output and error of an execution do not depend on the condition table the template
   object carries from earlier executions.  Lockstep simulation of two runs from two tables. *)
From Coq Require Import List NArith ZArith Bool Lia Arith.
From Tpl Require Import Html.Exec Html.Manager Proofs.PureRenderBase.
Import ListNotations.
Open Scope N_scope.

Definition is_inl {A B} (x : A + B) : Prop := match x with inl _ => True | inr _ => False end.
Definition res_of (a : R) : rres := snd (fst (fst a)).
Definition tbl_of {A} (x : A * tbl * rst) : tbl := snd (fst x).

Ltac bm := match goal with |- context [match ?x with _ => _ end] => destruct x eqn:? end.

Section Lock.
Variable is_space : rune -> bool.
Variable to_lower : rune -> rune.
Variable is_letter : rune -> bool.
Variable is_udigit : rune -> bool.
Variable methods : N -> bool -> list (str * N).
Variable call_fn : N -> list value -> fres.
Variable mgr : manager.
Variable cid : N -> bool.

Notation hc := (has_cond mgr).
Notation nok := (node_ok mgr cid).
Notation wft := (wf cid).
Notation EXEC := (N -> list node -> node -> scope -> bool -> tbl -> rst -> R).

(* two results (first component, table, writer/log state) of runs started from t1 and t2 *)
Definition Trel {A} (t1 t2 : tbl) (x1 x2 : A * tbl * rst) : Prop :=
  fst (fst x1) = fst (fst x2) /\ snd x1 = snd x2 /\ wft (tbl_of x1) /\ wft (tbl_of x2) /\
  ext t1 t2 (tbl_of x1) (tbl_of x2).

Lemma Trel_intro {A} t1 t2 (x1 x2 : A) u1 u2 s1 s2 :
  x1 = x2 -> s1 = s2 -> wft u1 -> wft u2 -> ext t1 t2 u1 u2 -> Trel t1 t2 (x1, u1, s1) (x2, u2, s2).
Proof. intros; unfold Trel, tbl_of; cbn [fst snd]; auto. Qed.
Lemma Trel_same {A} t1 t2 (x : A) s : wft t1 -> wft t2 -> Trel t1 t2 (x, t1, s) (x, t2, s).
Proof. intros; apply Trel_intro; auto. apply ext_refl. Qed.
Lemma Trel_ext_l {A} t1 t2 u1 u2 (x1 x2 : A * tbl * rst) :
  ext t1 t2 u1 u2 -> Trel u1 u2 x1 x2 -> Trel t1 t2 x1 x2.
Proof. intros H (H1 & H2 & H3 & H4 & H5). repeat split; auto. eapply ext_trans; eauto. Qed.

Definition pre_ok (ctx : list node) (n : node) (t1 t2 : tbl) : Prop :=
  hc n = true -> forall p, prev_tag ctx (n_id n) None = Some p -> agree t1 t2 (n_id p).
Lemma pre_ok_ext ctx n t1 t2 u1 u2 : ext t1 t2 u1 u2 -> pre_ok ctx n t1 t2 -> pre_ok ctx n u1 u2.
Proof. intros H Hp Hc p E. apply H, Hp; assumption. Qed.

Lemma seq2_rel t1 t2 (a1 a2 : R) (f : tbl -> rst -> R) :
  Trel t1 t2 a1 a2 ->
  (res_of a1 = ROk -> forall s, Trel (tbl_of a1) (tbl_of a2) (f (tbl_of a1) s) (f (tbl_of a2) s)) ->
  Trel t1 t2 (seq2 a1 f) (seq2 a2 f).
Proof.
  destruct a1 as [[[o1 r1] u1] s1], a2 as [[[o2 r2] u2] s2].
  unfold Trel at 1, tbl_of, res_of; cbn [fst snd].
  intros (E1 & E2 & W1 & W2 & X) Hf. inversion E1; subst o2 r2 s2.
  unfold seq2. destruct r1; [|apply Trel_intro; auto|apply Trel_intro; auto].
  specialize (Hf eq_refl s1).
  destruct (f u1 s1) as [[[o1' r1'] v1] s1'], (f u2 s1) as [[[o2' r2'] v2] s2'].
  destruct Hf as (F1 & F2 & F3 & F4 & F5); unfold tbl_of in *; cbn [fst snd] in *.
  inversion F1; subst. apply Trel_intro; auto. eapply ext_trans; eauto.
Qed.

Lemma wr_rel top s t1 t2 st : wft t1 -> wft t2 -> Trel t1 t2 (wr top s t1 st) (wr top s t2 st).
Proof. intros. unfold wr. destruct (write top s st) as [[o r] st']. apply Trel_same; assumption. Qed.

(* the lockstep property of the recursive call *)
Definition node_lock (exec : EXEC) : Prop :=
  forall mask ctx n sc top t1 t2 st,
    nok n -> wft t1 -> wft t2 -> pre_ok ctx n t1 t2 ->
    Trel t1 t2 (exec mask ctx n sc top t1 st) (exec mask ctx n sc top t2 st) /\
    (hc n = true -> N.land mask 1 = 0 -> res_of (exec mask ctx n sc top t1 st) = ROk ->
     agree (tbl_of (exec mask ctx n sc top t1 st)) (tbl_of (exec mask ctx n sc top t2 st)) (n_id n)).

Lemma nok_cid n : nok n -> cid (n_id n) = hc n.
Proof. intros H. apply node_ok_unfold in H. apply H. Qed.

Section Body.
Variable exec : EXEC.
Hypothesis Hexec : node_lock exec.

Notation EVAL_COND := (eval_cond is_letter is_udigit methods call_fn mgr exec).
Notation COND_OWNER := (cond_owner is_letter is_udigit methods call_fn mgr exec).
Notation RANGE_OWNER := (range_owner is_space is_letter is_udigit methods call_fn exec).
Notation ATTR_STEP := (attr_step is_space is_letter is_udigit methods call_fn mgr exec).
Notation RUN_ATTRS := (run_attrs is_space is_letter is_udigit methods call_fn mgr exec).
Notation RUN_CHILD := (run_child is_space is_letter is_udigit methods call_fn mgr exec).
Notation EXEC_TAG := (exec_tag is_space to_lower is_letter is_udigit methods call_fn mgr exec).
Notation EXEC_BODY := (exec_body is_space to_lower is_letter is_udigit methods call_fn mgr exec).

(* ---------- child lists ---------- *)
Lemma exec_list_lock ctx sc top : forall l done t1 t2 st,
  Forall nok l -> (forall p, In p ctx -> cid (n_id p) = hc p) -> wft t1 -> wft t2 ->
  closedf mgr ctx done l -> (forall id, In id done -> agree t1 t2 id) ->
  Trel t1 t2 (exec_list exec ctx l sc top t1 st) (exec_list exec ctx l sc top t2 st).
Proof.
  induction l as [|c r IH]; intros done t1 t2 st Hok Hctx W1 W2 Hcl Hd; cbn [exec_list].
  - apply Trel_same; assumption.
  - inversion Hok as [|? ? Hc Hr]; subst. destruct Hcl as [Hc1 Hc2].
    assert (Hpre : pre_ok ctx c t1 t2).
    { intros Hcc p Hp. destruct (hc p) eqn:Ep.
      - apply Hd. apply (Hc1 Hcc p Hp Ep).
      - apply wf_agree_none with (cid := cid); auto. rewrite Hctx, Ep; auto.
        apply prev_tag_In in Hp as [Hp|Hp]; [discriminate|exact Hp]. }
    destruct (Hexec 0 ctx c sc top t1 t2 st Hc W1 W2 Hpre) as [HT Hag].
    apply seq2_rel; [exact HT|]. intros Hres s.
    destruct HT as (_ & _ & W1' & W2' & X).
    apply (IH (n_id c :: done)); auto.
    intros id [<-|Hid].
    + destruct (hc c) eqn:Ec.
      * apply Hag; auto.
      * apply wf_agree_none with (cid := cid); auto. rewrite nok_cid, Ec; auto.
    + apply X, Hd, Hid.
Qed.

(* ---------- if / else ---------- *)
Lemma eval_cond_lock mask ctx n a ls t1 t2 st :
  nok n -> hc n = true -> wft t1 -> wft t2 -> pre_ok ctx n t1 t2 ->
  Trel t1 t2 (EVAL_COND mask ctx n a ls t1 st) (EVAL_COND mask ctx n a ls t2 st) /\
  (is_inl (fst (fst (EVAL_COND mask ctx n a ls t1 st))) ->
   agree (tbl_of (EVAL_COND mask ctx n a ls t1 st)) (tbl_of (EVAL_COND mask ctx n a ls t2 st)) (n_id n)).
Proof.
  intros Hn Hc W1 W2 Hpre. pose proof (nok_cid n Hn) as Hcid. rewrite Hc in Hcid.
  unfold eval_cond. destruct (attr_evaluate is_letter is_udigit methods call_fn mgr a (l_sc ls) (r_log st)) as [[s|c|] lg].
  - destruct (str_eqb s s_true).
    + set (u1 := tbl_set t1 (n_id n) true). set (u2 := tbl_set t2 (n_id n) true).
      assert (Wu1 : wft u1) by (apply wf_set; assumption).
      assert (Wu2 : wft u2) by (apply wf_set; assumption).
      assert (Hpu : pre_ok ctx n u1 u2) by (eapply pre_ok_ext; [apply ext_set|exact Hpre]).
      destruct (Hexec (N.lor mask 1) ctx n (l_sc ls) false u1 u2 (set_log st lg) Hn Wu1 Wu2 Hpu) as [HT _].
      destruct (exec (N.lor mask 1) ctx n (l_sc ls) false u1 (set_log st lg)) as [[[o1 r1] v1] s1].
      destruct (exec (N.lor mask 1) ctx n (l_sc ls) false u2 (set_log st lg)) as [[[o2 r2] v2] s2].
      destruct HT as (E1 & E2 & Wv1 & Wv2 & X); unfold tbl_of in *; cbn [fst snd] in *.
      inversion E1; subst o2 r2 s2.
      assert (X' : ext t1 t2 v1 v2) by (eapply ext_trans; [apply ext_set|exact X]).
      destruct r1; (split; [apply Trel_intro; auto|]); cbn [fst snd is_inl]; intros Hi; try contradiction.
      apply X. apply agree_set_same.
    + split; [apply Trel_intro; auto; try (apply wf_set; assumption); apply ext_set|].
      intros _. unfold tbl_of; cbn [fst snd]. apply agree_set_same.
  - split; [apply Trel_same; assumption|intros []].
  - split; [apply Trel_same; assumption|intros []].
Qed.

Lemma cond_owner_lock mask ctx n a cmd ls t1 t2 st :
  nok n -> hc n = true -> wft t1 -> wft t2 -> pre_ok ctx n t1 t2 ->
  Trel t1 t2 (COND_OWNER mask ctx n a cmd ls t1 st) (COND_OWNER mask ctx n a cmd ls t2 st) /\
  (is_inl (fst (fst (COND_OWNER mask ctx n a cmd ls t1 st))) ->
   agree (tbl_of (COND_OWNER mask ctx n a cmd ls t1 st)) (tbl_of (COND_OWNER mask ctx n a cmd ls t2 st)) (n_id n)).
Proof.
  intros Hn Hc W1 W2 Hpre. pose proof (nok_cid n Hn) as Hcid. rewrite Hc in Hcid.
  unfold cond_owner. destruct (str_eqb cmd d_if); [apply eval_cond_lock; assumption|].
  assert (Hread : match prev_tag ctx (n_id n) None with Some p => tbl_get t1 (n_id p) | None => None end
                = match prev_tag ctx (n_id n) None with Some p => tbl_get t2 (n_id p) | None => None end).
  { destruct (prev_tag ctx (n_id n) None) as [p|] eqn:Ep; [|reflexivity]. apply Hpre; auto. }
  rewrite Hread.
  destruct (match prev_tag ctx (n_id n) None with Some p => tbl_get t2 (n_id p) | None => None end) as [[|]|].
  - split; [apply Trel_intro; auto; try (apply wf_set; assumption); apply ext_set|].
    intros _. unfold tbl_of; cbn [fst snd]. apply agree_set_same.
  - apply eval_cond_lock; assumption.
  - split; [apply Trel_same; assumption|intros []].
Qed.

(* ---------- range ---------- *)
Lemma range_iter_lock mask ctx n idx item sc0 sep : forall items first acc t1 t2 st,
  nok n -> wft t1 -> wft t2 -> pre_ok ctx n t1 t2 ->
  Trel t1 t2 (range_iter exec mask ctx n idx item sc0 sep items first acc t1 st)
             (range_iter exec mask ctx n idx item sc0 sep items first acc t2 st).
Proof.
  induction items as [|[k v] more IH]; intros first acc t1 t2 st Hn W1 W2 Hpre; cbn [range_iter].
  - apply Trel_same; assumption.
  - destruct (Hexec (N.lor mask 2) ctx n (range_scope idx item k v sc0) false t1 t2 st Hn W1 W2 Hpre) as [HT _].
    destruct (exec (N.lor mask 2) ctx n (range_scope idx item k v sc0) false t1 st) as [[[o1 r1] v1] s1].
    destruct (exec (N.lor mask 2) ctx n (range_scope idx item k v sc0) false t2 st) as [[[o2 r2] v2] s2].
    destruct HT as (E1 & E2 & Wv1 & Wv2 & X); unfold tbl_of in *; cbn [fst snd] in *.
    inversion E1; subst o2 r2 s2.
    destruct r1; [|apply Trel_intro; auto|apply Trel_intro; auto].
    eapply Trel_ext_l; [exact X|]. apply IH; auto. eapply pre_ok_ext; eauto.
Qed.

Lemma range_owner_lock mask ctx n av ls t1 t2 st :
  nok n -> wft t1 -> wft t2 -> pre_ok ctx n t1 t2 ->
  Trel t1 t2 (RANGE_OWNER mask ctx n av ls t1 st) (RANGE_OWNER mask ctx n av ls t2 st).
Proof.
  intros Hn W1 W2 Hpre. unfold range_owner.
  destruct (extract_range is_space (strip_quotes av)) as [[idx item] obj].
  destruct (parse_code is_letter is_udigit obj); [|apply Trel_same; assumption].
  destruct (eval_text is_letter is_udigit methods call_fn (with_default (l_sc ls)) obj (r_log st)) as [[v|c|] lg];
    [|apply Trel_same; assumption|apply Trel_same; assumption].
  destruct (range_items v) as [items|]; [|apply Trel_same; assumption].
  match goal with |- context [range_iter exec mask ctx n idx item ?sc0 ?sep items true [] t1 ?st'] =>
    pose proof (range_iter_lock mask ctx n idx item sc0 sep items true [] t1 t2 st' Hn W1 W2 Hpre) as HT;
    destruct (range_iter exec mask ctx n idx item sc0 sep items true [] t1 st') as [[x1 v1] s1];
    destruct (range_iter exec mask ctx n idx item sc0 sep items true [] t2 st') as [[x2 v2] s2]
  end.
  destruct HT as (E1 & E2 & Wv1 & Wv2 & X); unfold tbl_of in *; cbn [fst snd] in *. subst x2 s2.
  destruct x1; apply Trel_intro; auto.
Qed.

(* ---------- one attribute ---------- *)
Lemma attr_step_lock mask ctx n tok a ls t1 t2 st :
  n_tok n = Some tok -> t_kind tok = KTag -> In a (t_attrs tok) ->
  nok n -> wft t1 -> wft t2 -> pre_ok ctx n t1 t2 ->
  Trel t1 t2 (ATTR_STEP mask ctx n (t_attrs tok) a ls t1 st) (ATTR_STEP mask ctx n (t_attrs tok) a ls t2 st) /\
  (is_cond_attr mgr a = true -> N.land mask 1 = 0 ->
   is_inl (fst (fst (ATTR_STEP mask ctx n (t_attrs tok) a ls t1 st))) ->
   agree (tbl_of (ATTR_STEP mask ctx n (t_attrs tok) a ls t1 st))
         (tbl_of (ATTR_STEP mask ctx n (t_attrs tok) a ls t2 st)) (n_id n)).
Proof.
  intros Htok Hkind Hin Hn W1 W2 Hpre. unfold attr_step, prefix.
  destruct (prefixb (m_attr_prefix mgr) (a_name a)) eqn:Ep.
  2: { destruct (has_attr_named (t_attrs tok) (m_attr_prefix mgr ++ a_name a));
       (split; [apply Trel_same; assumption|]); intros Hc; unfold is_cond_attr in Hc; rewrite Ep in Hc; discriminate. }
  assert (Hca : is_cond_attr mgr a = is_cond_name (skipn (length (m_attr_prefix mgr)) (a_name a))).
  { unfold is_cond_attr, a_cmd. rewrite Ep. reflexivity. }
  set (cmd := skipn (length (m_attr_prefix mgr)) (a_name a)) in *.
  destruct (str_eqb cmd d_with) eqn:Ew.
  { assert (Hnc : is_cond_attr mgr a = true -> False).
    { rewrite Hca. intros Hc. apply cond_name_not_with in Hc. congruence. }
    destruct (negb (N.eqb mask 0)); [split; [apply Trel_same; assumption|intros Hc; destruct (Hnc Hc)]|].
    destruct (with_assign is_space is_letter is_udigit methods call_fn mgr a (l_sc ls) (r_log st)) as [[sc'|e] lg];
      (split; [apply Trel_same; assumption|intros Hc; destruct (Hnc Hc)]). }
  destruct (is_cond_name cmd) eqn:Ec.
  { destruct (a_value a); [|split; [apply Trel_same; assumption|intros _ _ []]].
    destruct (negb (N.eqb (N.land mask 1) 0)) eqn:Em.
    { split; [apply Trel_same; assumption|]. intros _ Hm. rewrite Hm in Em. discriminate. }
    assert (Hc : hc n = true).
    { unfold has_cond. rewrite Htok, Hkind. apply cond_attr_has_cond with (a := a); [exact Hin|exact Hca]. }
    destruct (cond_owner_lock mask ctx n a cmd ls t1 t2 st Hn Hc W1 W2 Hpre) as [H1 H2].
    split; [exact H1|intros _ _; exact H2]. }
  assert (Hnc : is_cond_attr mgr a = true -> False) by (rewrite Hca; discriminate).
  destruct (str_eqb cmd d_range).
  { destruct (a_value a) as [av|]; [|split; [apply Trel_same; assumption|intros Hc; destruct (Hnc Hc)]].
    destruct (negb (N.eqb (N.land mask 2) 0)); [split; [apply Trel_same; assumption|intros Hc; destruct (Hnc Hc)]|].
    split; [apply range_owner_lock; assumption|intros Hc; destruct (Hnc Hc)]. }
  destruct (str_eqb cmd d_remove); [split; [apply Trel_same; assumption|intros Hc; destruct (Hnc Hc)]|].
  destruct (str_eqb cmd d_text || str_eqb cmd d_raw).
  { destruct (l_child ls); (split; [apply Trel_same; assumption|intros Hc; destruct (Hnc Hc)]). }
  destruct (str_eqb cmd d_define); [split; [apply Trel_same; assumption|intros Hc; destruct (Hnc Hc)]|].
  destruct (str_eqb cmd d_replace || str_eqb cmd d_insert).
  { destruct (attr_evaluate is_letter is_udigit methods call_fn mgr a (l_sc ls) (r_log st)) as [[name|c|] lg];
      try (split; [apply Trel_same; assumption|intros Hc; destruct (Hnc Hc)]).
    destruct (assoc name (m_templates mgr)) as [tp|];
      [|split; [apply Trel_same; assumption|intros Hc; destruct (Hnc Hc)]].
    destruct (run_template exec tp (l_sc ls) (set_log st lg)) as [[o r] st2].
    destruct r; (split; [apply Trel_same; assumption|intros Hc; destruct (Hnc Hc)]). }
  destruct (attr_evaluate is_letter is_udigit methods call_fn mgr a (l_sc ls) (r_log st)) as [[v|c|] lg];
    (split; [apply Trel_same; assumption|intros Hc; destruct (Hnc Hc)]).
Qed.

(* ---------- a step never fails with "no error" ---------- *)
Lemma with_assign_nok a sc lg r lg' :
  with_assign is_space is_letter is_udigit methods call_fn mgr a sc lg = (inr r, lg') -> r <> ROk.
Proof.
  unfold with_assign. repeat bm; intros H; inversion H; subst; discriminate.
Qed.
Lemma range_iter_nok mask ctx n idx item sc0 sep : forall items first acc t st r u s,
  range_iter exec mask ctx n idx item sc0 sep items first acc t st = (inr r, u, s) -> r <> ROk.
Proof.
  induction items as [|[k v] more IH]; intros first acc t st r u s; cbn [range_iter]; [discriminate|].
  destruct (exec (N.lor mask 2) ctx n (range_scope idx item k v sc0) false t st) as [[[o1 r1] v1] s1].
  destruct r1; try (intros H; inversion H; subst; discriminate). apply IH.
Qed.
Lemma attr_step_nok mask ctx n attrs a ls t st r u s :
  ATTR_STEP mask ctx n attrs a ls t st = (inr r, u, s) -> r <> ROk.
Proof.
  unfold attr_step, cond_owner, eval_cond, range_owner.
  repeat match goal with
  | |- context [with_assign is_space is_letter is_udigit methods call_fn mgr ?a ?sc ?lg] =>
      let E := fresh "Ewa" in destruct (with_assign is_space is_letter is_udigit methods call_fn mgr a sc lg) as [[?|?] ?] eqn:E;
      [|apply with_assign_nok in E]
  | |- context [range_iter exec ?m ?c ?n' ?i ?it ?s0 ?sp ?its ?f ?ac ?t' ?st'] =>
      let E := fresh "Eri" in destruct (range_iter exec m c n' i it s0 sp its f ac t' st') as [[[?|?] ?] ?] eqn:E;
      [|apply range_iter_nok in E]
  | _ => bm
  end; intros H; inversion H; subst; try discriminate; assumption.
Qed.
Lemma run_attrs_nok mask ctx n attrs : forall l ls t st r u s,
  RUN_ATTRS mask ctx n attrs l ls t st = (inr r, u, s) -> r <> ROk.
Proof.
  induction l as [|a rest IH]; intros ls t st r u s; cbn [run_attrs]; [discriminate|].
  destruct (ATTR_STEP mask ctx n attrs a ls t st) as [[[ls'|r'] u'] s'] eqn:E.
  - destruct (is_owner mgr mask a); [discriminate|apply IH].
  - intros H; inversion H; subst. eapply attr_step_nok; eauto.
Qed.

(* ---------- the attribute loop ---------- *)
Lemma run_attrs_lock mask ctx n tok :
  n_tok n = Some tok -> t_kind tok = KTag -> nok n ->
  forall l ls t1 t2 st, (forall a, In a l -> In a (t_attrs tok)) -> wft t1 -> wft t2 -> pre_ok ctx n t1 t2 ->
  Trel t1 t2 (RUN_ATTRS mask ctx n (t_attrs tok) l ls t1 st) (RUN_ATTRS mask ctx n (t_attrs tok) l ls t2 st) /\
  (cond_first mgr l = true -> N.land mask 1 = 0 ->
   is_inl (fst (fst (RUN_ATTRS mask ctx n (t_attrs tok) l ls t1 st))) ->
   agree (tbl_of (RUN_ATTRS mask ctx n (t_attrs tok) l ls t1 st))
         (tbl_of (RUN_ATTRS mask ctx n (t_attrs tok) l ls t2 st)) (n_id n)).
Proof.
  intros Htok Hkind Hn. induction l as [|a rest IH]; intros ls t1 t2 st Hl W1 W2 Hpre; cbn [run_attrs].
  - split; [apply Trel_same; assumption|]. cbn [cond_first]. discriminate.
  - destruct (attr_step_lock mask ctx n tok a ls t1 t2 st Htok Hkind (Hl a (or_introl eq_refl)) Hn W1 W2 Hpre) as [HT Hag].
    destruct (ATTR_STEP mask ctx n (t_attrs tok) a ls t1 st) as [[x1 u1] s1].
    destruct (ATTR_STEP mask ctx n (t_attrs tok) a ls t2 st) as [[x2 u2] s2].
    destruct HT as (E1 & E2 & Wu1 & Wu2 & X); unfold tbl_of in *; cbn [fst snd] in *. subst x2 s2.
    destruct x1 as [ls'|r]; [|split; [apply Trel_intro; auto|intros _ _ []]].
    cbn [cond_first].
    destruct (is_owner mgr mask a) eqn:Eo.
    + split; [apply Trel_intro; auto|]. cbn [fst snd]. intros Hcf Hm _.
      destruct (is_cond_attr mgr a) eqn:Eca; [apply Hag; auto; exact I|].
      destruct (is_range_attr mgr a) eqn:Era; [discriminate|]. exfalso.
      unfold is_owner, is_cond_attr, is_range_attr, a_cmd, prefix in *.
      destruct (prefixb (m_attr_prefix mgr) (a_name a)); cbn [andb] in *; [|discriminate].
      rewrite Eca, Era in Eo. cbn [andb orb] in Eo. discriminate.
    + assert (Hpre' : pre_ok ctx n u1 u2) by (eapply pre_ok_ext; eauto).
      destruct (IH ls' u1 u2 s1 (fun a' H => Hl a' (or_intror H)) Wu1 Wu2 Hpre') as [HT' Hag'].
      split; [eapply Trel_ext_l; eauto|].
      intros Hcf Hm Hinl.
      destruct (is_cond_attr mgr a) eqn:Eca.
      * destruct HT' as (_ & _ & _ & _ & X'). apply X'. apply Hag; auto. exact I.
      * destruct (is_range_attr mgr a); [discriminate|]. apply Hag'; auto.
Qed.

(* ---------- children ---------- *)
Lemma run_child_lock n ls top t1 t2 st :
  nok n -> wft t1 -> wft t2 ->
  Trel t1 t2 (RUN_CHILD n ls top t1 st) (RUN_CHILD n ls top t2 st).
Proof.
  intros Hn W1 W2. apply node_ok_unfold in Hn as (_ & _ & Hnd & Hch).
  assert (Hctx : forall p, In p (n_children n) -> cid (n_id p) = hc p).
  { intros p Hp. apply nok_cid. rewrite Forall_forall in Hch. apply Hch, Hp. }
  unfold run_child. destruct (l_child ls) as [| |a esc|csc].
  - apply (exec_list_lock (n_children n) (l_sc ls) top (n_children n) []); auto.
    + apply closed_self, Hnd.
    + intros id [].
  - apply Trel_same; assumption.
  - destruct (attr_evaluate is_letter is_udigit methods call_fn mgr a (l_sc ls) (r_log st)) as [[v|c|] lg];
      [apply wr_rel; assumption|apply Trel_same; assumption|apply Trel_same; assumption].
  - destruct (closed_abf is_space mgr (n_children n) Hnd) as [Hincl Hcl].
    apply (exec_list_lock (n_children n) csc top (abf_children is_space (n_children n)) []); auto.
    + rewrite Forall_forall in *. intros c Hc. apply Hch, Hincl, Hc.
    + intros id [].
Qed.

(* ---------- an element ---------- *)
Lemma exec_tag_lock mask ctx n tok sc top t1 t2 st :
  n_tok n = Some tok -> t_kind tok = KTag -> nok n -> wft t1 -> wft t2 -> pre_ok ctx n t1 t2 ->
  Trel t1 t2 (EXEC_TAG mask ctx n tok sc top t1 st) (EXEC_TAG mask ctx n tok sc top t2 st) /\
  (hc n = true -> N.land mask 1 = 0 -> res_of (EXEC_TAG mask ctx n tok sc top t1 st) = ROk ->
   agree (tbl_of (EXEC_TAG mask ctx n tok sc top t1 st)) (tbl_of (EXEC_TAG mask ctx n tok sc top t2 st)) (n_id n)).
Proof.
  intros Htok Hkind Hn W1 W2 Hpre. unfold exec_tag, prefix.
  assert (Hl : forall a, In a (sorted_attrs (m_attr_prefix mgr) (t_attrs tok)) -> In a (t_attrs tok)).
  { intros a Ha. apply sorted_in in Ha. exact Ha. }
  destruct (run_attrs_lock mask ctx n tok Htok Hkind Hn (sorted_attrs (m_attr_prefix mgr) (t_attrs tok))
              (init_lstate to_lower mgr mask tok sc) t1 t2 st Hl W1 W2 Hpre) as [HT Hag].
  destruct (RUN_ATTRS mask ctx n (t_attrs tok) (sorted_attrs (m_attr_prefix mgr) (t_attrs tok))
              (init_lstate to_lower mgr mask tok sc) t1 st) as [[x1 u1] s1] eqn:E1.
  destruct (RUN_ATTRS mask ctx n (t_attrs tok) (sorted_attrs (m_attr_prefix mgr) (t_attrs tok))
              (init_lstate to_lower mgr mask tok sc) t2 st) as [[x2 u2] s2] eqn:E2.
  destruct HT as (Ex & Es & Wu1 & Wu2 & X); unfold tbl_of in Wu1, Wu2, X, Hag; cbn [fst snd] in Ex, Es, Wu1, Wu2, X, Hag.
  subst x2 s2.
  destruct x1 as [ls|r].
  - match goal with |- Trel _ _ (seq2 ?A1 ?F) (seq2 ?A2 _) /\ _ =>
      assert (HR : Trel u1 u2 (seq2 A1 F) (seq2 A2 F)) end.
    { apply seq2_rel; [apply wr_rel; assumption|]. intros _ s.
      match goal with |- Trel ?a ?b _ _ => assert (Wa : wft a /\ wft b) end.
      { pose proof (wr_rel top (token_buf ls) u1 u2 s1 Wu1 Wu2) as (_ & _ & ? & ? & _). split; assumption. }
      destruct Wa as [Wa Wb].
      apply seq2_rel; [apply run_child_lock; assumption|]. intros _ s'.
      match goal with |- Trel ?a ?b _ _ => assert (Wa' : wft a /\ wft b) end.
      { match goal with |- wft (tbl_of (?rc _ _ _ ?a ?s0)) /\ wft (tbl_of (?rc _ _ _ ?b ?s0)) =>
          pose proof (run_child_lock n ls top a b s0 Hn Wa Wb) as (_ & _ & ? & ? & _) end. split; assumption. }
      destruct Wa' as [Wa' Wb'].
      destruct (n_end n) as [e|]; [|apply Trel_same; assumption].
      destruct (l_np ls); [apply Trel_same; assumption|apply wr_rel; assumption]. }
    split; [eapply Trel_ext_l; eauto|].
    intros Hc Hm _. destruct HR as (_ & _ & _ & _ & X'). apply X'. apply Hag; auto; [|exact I].
    apply cond_first_sorted. unfold has_cond in Hc. rewrite Htok, Hkind in Hc. exact Hc.
  - split; [apply Trel_intro; auto|]. intros _ _ Hr. unfold res_of in Hr; cbn [fst snd] in Hr. subst r.
    apply run_attrs_nok in E1. congruence.
Qed.

Lemma exec_body_lock : node_lock EXEC_BODY.
Proof.
  intros mask ctx n sc top t1 t2 st Hn W1 W2 Hpre. unfold exec_body.
  destruct (n_tok n) as [tok|] eqn:Htok.
  2: { apply node_ok_unfold in Hn as (Hn & _). congruence. }
  destruct (t_kind tok) eqn:Hkind.
  - apply exec_tag_lock; assumption.
  - split; [apply wr_rel; assumption|]. intros Hc. unfold has_cond in Hc. rewrite Htok, Hkind in Hc. discriminate.
  - split; [apply wr_rel; assumption|]. intros Hc. unfold has_cond in Hc. rewrite Htok, Hkind in Hc. discriminate.
  - split; [apply wr_rel; assumption|]. intros Hc. unfold has_cond in Hc. rewrite Htok, Hkind in Hc. discriminate.
Qed.
End Body.

Notation EXEC_NODE := (exec_node is_space to_lower is_letter is_udigit methods call_fn mgr).
Notation EXECUTE := (execute is_space to_lower is_letter is_udigit methods call_fn mgr).

Lemma exec_node_lock : forall fuel, node_lock (EXEC_NODE fuel).
Proof.
  induction fuel as [|f IH].
  - intros mask ctx n sc top t1 t2 st Hn W1 W2 Hpre. cbn [exec_node].
    split; [apply Trel_same; assumption|]. unfold res_of; cbn [fst snd]. discriminate.
  - intros mask ctx n sc top t1 t2 st. cbn [exec_node]. apply exec_body_lock. exact IH.
Qed.

Lemma execute_rel fuel tp d t1 t2 st :
  tree_ok mgr cid (tp_ctx tp) -> closed mgr (tp_ctx tp) (tp_children tp) -> wft t1 -> wft t2 ->
  Trel t1 t2 (EXECUTE fuel tp d t1 st) (EXECUTE fuel tp d t2 st).
Proof.
  intros [Hnd Hok] [Hincl Hcl] W1 W2. unfold execute.
  destruct fuel as [|f]; cbn [exec_node]; [apply Trel_same; assumption|].
  unfold exec_body. cbn [n_tok n_children].
  apply seq2_rel; [apply wr_rel; assumption|]. intros _ s.
  unfold wr. destruct (write true [] st) as [[o r] st']. unfold tbl_of; cbn [fst snd].
  rewrite Forall_forall in Hok.
  apply (exec_list_lock (EXEC_NODE f) (exec_node_lock f) (tp_ctx tp) _ true (tp_children tp) []); auto.
  - rewrite Forall_forall. intros c Hc. apply Hok, Hincl, Hc.
  - intros p Hp. apply nok_cid, Hok, Hp.
  - intros id [].
Qed.

Theorem execute_state_independent_s : forall fuel tp d t1 t2 st,
  tree_ok mgr cid (tp_ctx tp) -> closed mgr (tp_ctx tp) (tp_children tp) -> wft t1 -> wft t2 ->
  forall o1 r1 t1' s1 o2 r2 t2' s2,
  EXECUTE fuel tp d t1 st = (o1, r1, t1', s1) ->
  EXECUTE fuel tp d t2 st = (o2, r2, t2', s2) ->
  o1 = o2 /\ r1 = r2 /\ s1 = s2 /\ wft t1' /\ wft t2'.
Proof.
  intros fuel tp d t1 t2 st Ht Hc W1 W2 o1 r1 t1' s1 o2 r2 t2' s2 E1 E2.
  pose proof (execute_rel fuel tp d t1 t2 st Ht Hc W1 W2) as H. rewrite E1, E2 in H.
  destruct H as (H1 & H2 & H3 & H4 & _); unfold tbl_of in *; cbn [fst snd] in *.
  inversion H1; subst. auto.
Qed.
End Lock.

(* ---------- the theorems ---------- *)
Section Final.
Variable is_space : rune -> bool.
Variable to_lower : rune -> rune.
Variable is_letter : rune -> bool.
Variable is_udigit : rune -> bool.
Variable methods : N -> bool -> list (str * N).
Variable call_fn : N -> list value -> fres.
Variable mgr : manager.

Notation EXECUTE := (execute is_space to_lower is_letter is_udigit methods call_fn mgr).

(* Output, result and final writer/log state of an execution do not depend on the condition table
   the template object carries; the invariant wf is re-established for the next execution. *)
Theorem execute_state_independent : forall cid fuel tp d t1 t2 st,
  tree_ok mgr cid (tp_ctx tp) -> closed mgr (tp_ctx tp) (tp_children tp) -> wf cid t1 -> wf cid t2 ->
  forall o1 r1 t1' s1 o2 r2 t2' s2,
  EXECUTE fuel tp d t1 st = (o1, r1, t1', s1) ->
  EXECUTE fuel tp d t2 st = (o2, r2, t2', s2) ->
  o1 = o2 /\ r1 = r2 /\ s1 = s2 /\ wf cid t1' /\ wf cid t2'.
Proof. intros cid. apply execute_state_independent_s. Qed.

Theorem exec_preserves_wf : forall cid fuel tp d t st o r t' s,
  tree_ok mgr cid (tp_ctx tp) -> closed mgr (tp_ctx tp) (tp_children tp) -> wf cid t ->
  EXECUTE fuel tp d t st = (o, r, t', s) -> wf cid t'.
Proof.
  intros cid fuel tp d t st o r t' s Ht Hc W E.
  destruct (execute_state_independent cid fuel tp d t t st Ht Hc W W _ _ _ _ _ _ _ _ E E) as (_ & _ & _ & H & _).
  exact H.
Qed.

Lemma history_pure_from : forall cid fuel tp,
  tree_ok mgr cid (tp_ctx tp) -> closed mgr (tp_ctx tp) (tp_children tp) ->
  forall runs t i d b, wf cid t ->
  nth_error runs i = Some (d, b) ->
  nth_error (run_history is_space to_lower is_letter is_udigit methods call_fn fuel mgr tp runs t) i =
    Some (let '(o, r, _, st) := EXECUTE fuel tp d [] (mkR [] b) in (o, r, r_log st)).
Proof.
  intros cid fuel tp Ht Hc. induction runs as [|[d0 b0] runs IH]; intros t i d b W Hn.
  - destruct i; discriminate Hn.
  - cbn [run_history].
    destruct (EXECUTE fuel tp d0 t (mkR [] b0)) as [[[o r] t'] s] eqn:E1.
    destruct i as [|i]; cbn [nth_error] in Hn |- *.
    + inversion Hn; subst d0 b0.
      destruct (EXECUTE fuel tp d [] (mkR [] b)) as [[[o2 r2] t2'] s2] eqn:E2.
      destruct (execute_state_independent cid fuel tp d t [] (mkR [] b) Ht Hc W (wf_nil cid) _ _ _ _ _ _ _ _ E1 E2)
        as (-> & -> & -> & _). reflexivity.
    + apply IH; [|exact Hn]. eapply exec_preserves_wf; eauto.
Qed.

(* a history of executions on ONE template object: the i-th result is what a fresh object gives
   for the i-th data *)
Theorem history_pure : forall cid fuel tp runs i d b,
  tree_ok mgr cid (tp_ctx tp) -> closed mgr (tp_ctx tp) (tp_children tp) ->
  nth_error runs i = Some (d, b) ->
  nth_error (run_history is_space to_lower is_letter is_udigit methods call_fn fuel mgr tp runs []) i =
    Some (let '(o, r, _, st) := EXECUTE fuel tp d [] (mkR [] b) in (o, r, r_log st)).
Proof.
  intros cid fuel tp runs i d b Ht Hc Hn.
  apply (history_pure_from cid fuel tp Ht Hc runs [] i d b (wf_nil cid) Hn).
Qed.

(* the two shapes of template objects the manager registers (a file: all children of the root;
   a fragment: the children of its :define element without leading/trailing blank text) satisfy
   the closedness hypothesis as soon as the tree hypothesis holds *)
Lemma closed_file : forall cid ctx, tree_ok mgr cid ctx -> closed mgr ctx ctx.
Proof. intros cid ctx [H _]. apply closed_self, H. Qed.
Lemma closed_fragment : forall cid ctx, tree_ok mgr cid ctx -> closed mgr ctx (trim_blank_ends is_space ctx).
Proof. intros cid ctx [H _]. apply closed_trim, H. Qed.
End Final.

Print Assumptions execute_state_independent.
Print Assumptions exec_preserves_wf.
Print Assumptions history_pure.
