(* The comparison operators of the evaluator model are mutually consistent. *)
From Tpl Require Import Exp.Eval.
From Coq Require Import Lia.
From Flocq Require Import IEEE754.BinarySingleNaN IEEE754.Binary IEEE754.Bits.
Open Scope N_scope.

Section RelProps.
Variable methods : N -> bool -> list (str * N).
Variable call_fn : N -> list value -> fres.

Definition vb (r : res value) : option bool := match r with Ok (VBool b) => Some b | _ => None end.

(* ---------- != versus == ---------- *)
Theorem ne_negates_eq : forall a b,
  rel_op BNe a b = match rel_op BEq a b with Ok (VBool x) => Ok (VBool (negb x)) | r => r end.
Proof.
  intros a b. unfold rel_op.
  destruct (loose_equal a b) as [x | c |]; reflexivity.
Qed.

Theorem eq_is_bool_or_fails : forall a b,
  match rel_op BEq a b with Ok (VBool _) | Err _ | Unmodelled => True | Ok _ => False end.
Proof.
  intros a b. unfold rel_op.
  destruct (loose_equal a b) as [x | c |]; exact I.
Qed.

(* ---------- the ordered operators on two numbers ---------- *)
Lemma rel_ord_num : forall op a b c, num_compare a b = Some c ->
  rel_op op a b =
  match op with
  | BNe => Ok (VBool (negb (cmp_holds BEq c)))
  | BEq | BLt | BLe | BGt | BGe => Ok (VBool (cmp_holds op c))
  | _ => Ok (VBool false)
  end.
Proof.
  intros op a b c Hc.
  destruct op; unfold rel_op, loose_equal; rewrite Hc; try reflexivity;
    destruct c as [[]|]; reflexivity.
Qed.

Theorem trichotomy : forall a b c, num_compare a b = Some (Some c) ->
  exists lt eq gt, rel_op BLt a b = Ok (VBool lt) /\ rel_op BEq a b = Ok (VBool eq) /\ rel_op BGt a b = Ok (VBool gt) /\
    ((lt = true /\ eq = false /\ gt = false) \/ (lt = false /\ eq = true /\ gt = false) \/ (lt = false /\ eq = false /\ gt = true)).
Proof.
  intros a b c Hc.
  exists (cmp_holds BLt (Some c)), (cmp_holds BEq (Some c)), (cmp_holds BGt (Some c)).
  rewrite (rel_ord_num BLt _ _ _ Hc), (rel_ord_num BEq _ _ _ Hc), (rel_ord_num BGt _ _ _ Hc).
  repeat split.
  destruct c; cbn [cmp_holds]; auto.
Qed.

Theorem le_ge_unions : forall a b c, num_compare a b = Some c ->
  exists lt eq gt, rel_op BLt a b = Ok (VBool lt) /\ rel_op BEq a b = Ok (VBool eq) /\ rel_op BGt a b = Ok (VBool gt) /\
    rel_op BLe a b = Ok (VBool (lt || eq)) /\ rel_op BGe a b = Ok (VBool (gt || eq)).
Proof.
  intros a b c Hc.
  exists (cmp_holds BLt c), (cmp_holds BEq c), (cmp_holds BGt c).
  rewrite (rel_ord_num BLt _ _ _ Hc), (rel_ord_num BEq _ _ _ Hc), (rel_ord_num BGt _ _ _ Hc),
          (rel_ord_num BLe _ _ _ Hc), (rel_ord_num BGe _ _ _ Hc).
  repeat split; destruct c as [[]|]; reflexivity.
Qed.

(* an unordered pair (a NaN is involved): every ordered operator and == is false, != is true *)
Theorem unordered_all_false : forall a b, num_compare a b = Some None ->
  rel_op BLt a b = Ok (VBool false) /\ rel_op BLe a b = Ok (VBool false) /\ rel_op BGt a b = Ok (VBool false) /\
  rel_op BGe a b = Ok (VBool false) /\ rel_op BEq a b = Ok (VBool false) /\ rel_op BNe a b = Ok (VBool true).
Proof.
  intros a b Hc.
  rewrite (rel_ord_num BLt _ _ _ Hc), (rel_ord_num BLe _ _ _ Hc), (rel_ord_num BGt _ _ _ Hc),
          (rel_ord_num BGe _ _ _ Hc), (rel_ord_num BEq _ _ _ Hc), (rel_ord_num BNe _ _ _ Hc).
  repeat split.
Qed.

(* ---------- integers ---------- *)
Lemma wrap64_small : forall z, (- two63 <= z < two63)%Z -> wrap64 z = z.
Proof.
  intros z Hz. unfold wrap64.
  rewrite Z.mod_small; unfold two63 in *; lia.
Qed.

Lemma num_compare_int : forall k1 k2 z1 z2,
  num_compare (VInt k1 z1) (VInt k2 z2) = Some (Some (Z.compare (wrap64 z1) (wrap64 z2))).
Proof. reflexivity. Qed.

Theorem int_compare_kind_independent : forall k1 k2 k1' k2' z1 z2 op,
  (- two63 <= z1 < two63)%Z -> (- two63 <= z2 < two63)%Z ->
  rel_op op (VInt k1 z1) (VInt k2 z2) = rel_op op (VInt k1' z1) (VInt k2' z2).
Proof.
  intros k1 k2 k1' k2' z1 z2 op _ _.
  rewrite (rel_ord_num op _ _ _ (num_compare_int k1 k2 z1 z2)).
  rewrite (rel_ord_num op _ _ _ (num_compare_int k1' k2' z1 z2)).
  reflexivity.
Qed.

Theorem int_eq_iff : forall k1 k2 z1 z2, (- two63 <= z1 < two63)%Z -> (- two63 <= z2 < two63)%Z ->
  rel_op BEq (VInt k1 z1) (VInt k2 z2) = Ok (VBool (Z.eqb z1 z2)).
Proof.
  intros k1 k2 z1 z2 H1 H2.
  rewrite (rel_ord_num BEq _ _ _ (num_compare_int k1 k2 z1 z2)).
  rewrite (wrap64_small z1 H1), (wrap64_small z2 H2).
  cbn [cmp_holds]. rewrite Z.eqb_compare.
  destruct (Z.compare z1 z2); reflexivity.
Qed.

Theorem int_lt_iff : forall k1 k2 z1 z2, (- two63 <= z1 < two63)%Z -> (- two63 <= z2 < two63)%Z ->
  rel_op BLt (VInt k1 z1) (VInt k2 z2) = Ok (VBool (Z.ltb z1 z2)).
Proof.
  intros k1 k2 z1 z2 H1 H2.
  rewrite (rel_ord_num BLt _ _ _ (num_compare_int k1 k2 z1 z2)).
  rewrite (wrap64_small z1 H1), (wrap64_small z2 H2).
  cbn [cmp_holds]. unfold Z.ltb.
  destruct (Z.compare z1 z2); reflexivity.
Qed.

Theorem int_le_iff : forall k1 k2 z1 z2, (- two63 <= z1 < two63)%Z -> (- two63 <= z2 < two63)%Z ->
  rel_op BLe (VInt k1 z1) (VInt k2 z2) = Ok (VBool (Z.leb z1 z2)).
Proof.
  intros k1 k2 z1 z2 H1 H2.
  rewrite (rel_ord_num BLe _ _ _ (num_compare_int k1 k2 z1 z2)).
  rewrite (wrap64_small z1 H1), (wrap64_small z2 H2).
  cbn [cmp_holds]. unfold Z.leb.
  destruct (Z.compare z1 z2); reflexivity.
Qed.

(* ---------- two numbers that are not NaN are always ordered ---------- *)
Lemma b64_roundtrip : forall x : binary64, b64_of_bits (bits_of_b64 x) = x.
Proof.
  intros x. unfold b64_of_bits, bits_of_b64.
  exact (binary_float_of_bits_of_binary_float 52 11 (refl_equal _) (refl_equal _) (refl_equal _) x).
Qed.

Lemma f_of_Z_not_nan : forall z, f_is_nan (f_of_Z z) = false.
Proof.
  intros z. unfold f_is_nan, f_of_Z, f_of_Zexp.
  rewrite b64_roundtrip.
  pose proof (is_nan_BSN2B' 53 1024 _
                (is_nan_binary_normalize 53 1024 Hprec64 Hmax64 mode_NE z 0 false)) as Hn.
  unfold Binary.binary_normalize.
  unfold Binary.is_nan in Hn.
  exact Hn.
Qed.

Lemma f_cmp_ordered : forall a b, f_is_nan a = false -> f_is_nan b = false -> exists c, f_cmp a b = Some c.
Proof.
  intros a b Ha Hb. unfold f_is_nan in Ha, Hb. unfold f_cmp, b64_compare, Binary.Bcompare, BinarySingleNaN.Bcompare.
  destruct (b64_of_bits a) as [sa | sa | sa pa Ea | sa ma ea Ea]; try discriminate Ha;
  destruct (b64_of_bits b) as [sb | sb | sb pb Eb | sb mb eb Eb]; try discriminate Hb;
  cbn [B2BSN B2SF SpecFloat.SFcompare]; eexists; reflexivity.
Qed.

Theorem numbers_ordered : forall a b,
  (is_int a <> None \/ (exists f, is_float a = Some f /\ f_is_nan f = false)) ->
  (is_int b <> None \/ (exists g, is_float b = Some g /\ f_is_nan g = false)) ->
  exists c, num_compare a b = Some (Some c).
Proof.
  intros a b Ha Hb.
  assert (Ca : (exists k z, a = VInt k z) \/ (exists s f, a = VFloat s f /\ f_is_nan f = false)).
  { destruct Ha as [Ha | [f [Hf Hfn]]].
    - left. destruct a; cbn [is_int] in Ha; try congruence. eauto.
    - right. destruct a; cbn [is_float] in Hf; try discriminate Hf.
      injection Hf as Hf. subst. eauto. }
  assert (Cb : (exists k z, b = VInt k z) \/ (exists s f, b = VFloat s f /\ f_is_nan f = false)).
  { destruct Hb as [Hb | [f [Hf Hfn]]].
    - left. destruct b; cbn [is_int] in Hb; try congruence. eauto.
    - right. destruct b; cbn [is_float] in Hf; try discriminate Hf.
      injection Hf as Hf. subst. eauto. }
  clear Ha Hb.
  destruct Ca as [[k1 [z1 Ea]] | [s1 [f [Ea Hfn]]]]; destruct Cb as [[k2 [z2 Eb]] | [s2 [g [Eb Hgn]]]]; subst a b;
    unfold num_compare; cbn [is_int is_float].
  - eexists; reflexivity.
  - destruct (f_cmp_ordered (f_of_Z (wrap64 z1)) g (f_of_Z_not_nan _) Hgn) as [c Hc].
    exists c. rewrite Hc. reflexivity.
  - destruct (f_cmp_ordered f (f_of_Z (wrap64 z2)) Hfn (f_of_Z_not_nan _)) as [c Hc].
    exists c. rewrite Hc. reflexivity.
  - destruct (f_cmp_ordered f g Hfn Hgn) as [c Hc].
    exists c. rewrite Hc. reflexivity.
Qed.

End RelProps.

Print Assumptions ne_negates_eq.
Print Assumptions eq_is_bool_or_fails.
Print Assumptions trichotomy.
Print Assumptions le_ge_unions.
Print Assumptions unordered_all_false.
Print Assumptions int_compare_kind_independent.
Print Assumptions int_eq_iff.
Print Assumptions int_lt_iff.
Print Assumptions int_le_iff.
Print Assumptions numbers_ordered.

(* ---------- the carrier kind of a float, and of either operand of a mixed comparison, is irrelevant ---------- *)
(* (a float32 datum is carried by the float64 bit pattern of the same real number: the conversion is exact) *)
Theorem float_compare_kind_independent : forall f1 f2 f1' f2' b1 b2 op,
  rel_op op (VFloat f1 b1) (VFloat f2 b2) = rel_op op (VFloat f1' b1) (VFloat f2' b2).
Proof.
  intros f1 f2 f1' f2' b1 b2 op.
  assert (H : forall g1 g2, num_compare (VFloat g1 b1) (VFloat g2 b2) = Some (f_cmp b1 b2)) by reflexivity.
  rewrite (rel_ord_num op _ _ _ (H f1 f2)), (rel_ord_num op _ _ _ (H f1' f2')). reflexivity.
Qed.
Theorem mixed_compare_kind_independent : forall k k' f f' z b op,
  rel_op op (VInt k z) (VFloat f b) = rel_op op (VInt k' z) (VFloat f' b) /\
  rel_op op (VFloat f b) (VInt k z) = rel_op op (VFloat f' b) (VInt k' z).
Proof.
  intros k k' f f' z b op.
  assert (H1 : forall kk ff, num_compare (VInt kk z) (VFloat ff b) = Some (f_cmp (f_of_Z (wrap64 z)) b)) by reflexivity.
  assert (H2 : forall kk ff, num_compare (VFloat ff b) (VInt kk z) = Some (f_cmp b (f_of_Z (wrap64 z)))) by reflexivity.
  split.
  - rewrite (rel_ord_num op _ _ _ (H1 k f)), (rel_ord_num op _ _ _ (H1 k' f')). reflexivity.
  - rewrite (rel_ord_num op _ _ _ (H2 k f)), (rel_ord_num op _ _ _ (H2 k' f')). reflexivity.
Qed.
Print Assumptions float_compare_kind_independent.
Print Assumptions mixed_compare_kind_independent.
