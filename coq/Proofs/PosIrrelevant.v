(* C05, support for the source-level statement of the irrelevance of the written order of the attributes.

   Two SOURCE TEXTS that differ in the written order of the attributes of a tag do NOT load to trees related by
   OrderIrrelevant.reorder_eq: the scanner records, in every attribute, the positions of its name and of its value, and, in
   the token of the tag, the raw text of the tag; both change when the attributes are written in another order.
   This file proves that the renderer reads none of these:

     attr_sim   two attributes with the same name, the same value and the same code tokens up to the positions
     pos_eq     two trees with the same ids, kinds, names, texts, whose attributes are pairwise attr_sim (same order),
                whatever the positions and whatever the raw text of the tokens of kind tag
     exec_node_pos_irrelevant / execute_pos_irrelevant
                the renderer gives the same result (output, result, condition table, state) on pos_eq trees,
                for every fuel, scope, table and state.

   Composed with OrderIrrelevant.execute_order_irrelevant (reorder_eq: the same attribute records in another order) this
   gives the statement for two trees LOADED from two source texts (Proofs/EndToEndMore.v). *)
From Tpl Require Import Proofs.ExecSpec Proofs.SortProps Proofs.OrderIrrelevant.
From Coq Require Import Lia ZArith.
Open Scope N_scope.

Section PosIrr.
Variable is_space : rune -> bool.
Variable to_lower : rune -> rune.
Variable is_letter : rune -> bool.
Variable is_udigit : rune -> bool.
Variable methods : N -> bool -> list (str * N).
Variable call_fn : N -> list value -> fres.
Variable mgr : manager.

Notation ctoks := (ctoks_of is_letter is_udigit mgr).
Notation aeval := (attr_evaluate is_letter is_udigit methods call_fn mgr).
Notation ectoks := (eval_ctoks is_letter is_udigit methods call_fn).
Notation blank := (is_blank_text is_space).
Notation abf := (abf_children is_space).

Definition ck (t : ctok) : ckind * str := (c_kind t, c_value t).
Definition attr_sim (a a' : attr) : Prop :=
  a_name a = a_name a' /\ a_value a = a_value a' /\ map ck (ctoks a) = map ck (ctoks a').

Lemma map_ck_cons : forall c l c' l', map ck (c :: l) = map ck (c' :: l') ->
  c_kind c = c_kind c' /\ c_value c = c_value c' /\ map ck l = map ck l'.
Proof.
  intros c l c' l' H. cbn [map] in H. assert (H1 : ck c = ck c') by congruence. assert (H2 : map ck l = map ck l') by congruence.
  unfold ck in H1. split; [congruence|]. split; [congruence|exact H2].
Qed.

(* ---------- evaluation of an attribute ---------- *)
Lemma eval_ctoks_sim : forall l l', map ck l = map ck l' -> forall sc acc lg, ectoks sc l acc lg = ectoks sc l' acc lg.
Proof.
  induction l as [|c l IH]; intros l' H sc acc lg; destruct l' as [|c' l']; try discriminate H; [reflexivity|].
  apply map_ck_cons in H. destruct H as (Hk & Hv & Hl). cbn [eval_ctoks]. rewrite Hk, Hv.
  destruct (c_kind c'); try (apply IH; exact Hl).
  destruct (eval_block is_letter is_udigit methods call_fn sc (c_value c') lg) as [[s|e|] lg']; [|reflexivity|reflexivity].
  apply IH. exact Hl.
Qed.

Lemma attr_evaluate_sim : forall a a', attr_sim a a' -> forall sc lg, aeval a sc lg = aeval a' sc lg.
Proof.
  intros a a' (Hn & Hv & Hc) sc lg. unfold attr_evaluate. rewrite <- Hv.
  destruct (a_value a) as [v|]; [|reflexivity].
  destruct (ctoks a) as [|c l] eqn:E1; destruct (ctoks a') as [|c' l'] eqn:E2; cbn [map] in Hc; try discriminate Hc; [reflexivity|].
  rewrite (eval_ctoks_sim (c :: l) (c' :: l') Hc sc [] lg). reflexivity.
Qed.

Definition ocodes_sim (x x' : option (list str * list ctok)) : Prop :=
  match x, x' with
  | Some (n1, c1), Some (n2, c2) => n1 = n2 /\ map ck c1 = map ck c2
  | None, None => True
  | _, _ => False
  end.

Lemma map_ck_length : forall l l', map ck l = map ck l' -> length l = length l'.
Proof. intros l l' H. rewrite <- (map_length ck l), <- (map_length ck l'), H. reflexivity. Qed.

Lemma with_collect_sim : forall l l', map ck l = map ck l' -> forall names codes codes', map ck codes = map ck codes' ->
  ocodes_sim (with_collect is_space l names codes) (with_collect is_space l' names codes').
Proof.
  induction l as [|c l IH]; intros l' H names codes codes' Hcodes; destruct l' as [|c' l']; try discriminate H.
  - cbn [with_collect ocodes_sim]. split; [reflexivity|]. rewrite !map_rev, Hcodes. reflexivity.
  - apply map_ck_cons in H. destruct H as (Hk & Hv & Hl). cbn [with_collect]. rewrite Hk, Hv.
    pose proof (map_ck_length codes codes' Hcodes) as Hlen. rewrite Hlen.
    destruct (c_kind c') eqn:Ek'.
    + apply IH; assumption.
    + cbv zeta. destruct (trim is_space (c_value c')) as [|r0 nm] eqn:En; [apply IH; assumption|].
      destruct (Nat.ltb (length names) (length codes')); [exact I|].
      destruct (negb (suffixb s_assign (r0 :: nm))); [exact I|].
      destruct names as [|n0 ns]; [apply IH; assumption|].
      destruct (prefixb [cSEMI] (trim is_space (drop_last 2 (r0 :: nm)))); [apply IH; assumption|exact I].
    + apply IH; assumption.
    + destruct (Nat.eqb (length names) (S (length codes'))); [|exact I].
      apply IH; [assumption|]. cbn [map]. f_equal; [unfold ck; congruence|exact Hcodes].
    + apply IH; assumption.
Qed.

Lemma with_eval_sim : forall sc names codes codes', map ck codes = map ck codes' -> forall acc lg,
  with_eval is_letter is_udigit methods call_fn sc names codes acc lg
  = with_eval is_letter is_udigit methods call_fn sc names codes' acc lg.
Proof.
  intros sc names. induction names as [|n ns IH]; intros codes codes' H acc lg; [destruct codes, codes'; reflexivity|].
  destruct codes as [|c cs]; destruct codes' as [|c' cs']; try discriminate H; [reflexivity|].
  apply map_ck_cons in H. destruct H as (_ & Hv & Hl). cbn [with_eval]. rewrite Hv.
  destruct (eval_text is_letter is_udigit methods call_fn sc (c_value c') lg) as [[v|e|] lg']; [|reflexivity|reflexivity].
  apply IH. exact Hl.
Qed.

Lemma with_assign_sim : forall a a', attr_sim a a' -> forall sc lg,
  with_assign is_space is_letter is_udigit methods call_fn mgr a sc lg
  = with_assign is_space is_letter is_udigit methods call_fn mgr a' sc lg.
Proof.
  intros a a' (Hn & Hv & Hc) sc lg. unfold with_assign. rewrite <- Hv.
  destruct (a_value a) as [v|]; [|reflexivity].
  pose proof (with_collect_sim (ctoks a) (ctoks a') Hc [] [] [] eq_refl) as H.
  destruct (with_collect is_space (ctoks a) [] []) as [[n1 c1]|];
    destruct (with_collect is_space (ctoks a') [] []) as [[n2 c2]|]; cbn [ocodes_sim] in H; try contradiction; [|reflexivity].
  destruct H as [Hnm Hcs]. subst n2. rewrite (map_ck_length c1 c2 Hcs).
  destruct n1 as [|n0 ns]; [reflexivity|].
  destruct (negb (Nat.eqb (length c2) (length (n0 :: ns)))); [reflexivity|].
  rewrite (with_eval_sim sc (n0 :: ns) c1 c2 Hcs [] lg). reflexivity.
Qed.

(* ---------- the state of the attribute loop ---------- *)
Definition child_sim (c c' : child_action) : Prop :=
  match c, c' with
  | CDefault, CDefault => True
  | CNop, CNop => True
  | CText a e, CText a' e' => attr_sim a a' /\ e = e'
  | CAllButFirst s, CAllButFirst s' => s = s'
  | _, _ => False
  end.
Inductive ls_sim : lstate -> lstate -> Prop :=
| LS : forall sc np ch ch' tb ct dr rp, child_sim ch ch' -> ls_sim (mkL sc np ch tb ct dr rp) (mkL sc np ch' tb ct dr rp).
Definition LR_sim (x x' : LR) : Prop :=
  match x, x' with
  | (inl ls, t, st), (inl ls', t', st') => ls_sim ls ls' /\ t = t' /\ st = st'
  | (inr r, t, st), (inr r', t', st') => r = r' /\ t = t' /\ st = st'
  | _, _ => False
  end.
Lemma LR_inl : forall ls ls' t st, ls_sim ls ls' -> LR_sim (inl ls, t, st) (inl ls', t, st).
Proof. intros ls ls' t st H. cbn [LR_sim]. repeat split. exact H. Qed.
Lemma LR_inr : forall r t st, LR_sim (inr r, t, st) (inr r, t, st).
Proof. intros r t st. cbn [LR_sim]. repeat split. Qed.

(* ---------- trees ---------- *)
Definition tok_sim (tk tk' : token) : Prop :=
  t_kind tk = t_kind tk' /\ t_name tk = t_name tk' /\ Forall2 attr_sim (t_attrs tk) (t_attrs tk') /\
  (t_kind tk = KTag \/ t_value tk = t_value tk').
Definition otok_sim (o o' : option token) : Prop :=
  match o, o' with
  | None, None => True
  | Some tk, Some tk' => tok_sim tk tk'
  | _, _ => False
  end.
Inductive pos_eq : node -> node -> Prop :=
| PE_node : forall id tok tok' ch ch' e e',
    otok_sim tok tok' -> Forall2 pos_eq ch ch' -> option_map t_value e = option_map t_value e' ->
    pos_eq (Node id tok ch e) (Node id tok' ch' e').

Lemma p_id : forall x x', pos_eq x x' -> n_id x = n_id x'.
Proof. intros x x' H. destruct H. reflexivity. Qed.
Lemma p_end : forall x x', pos_eq x x' -> option_map t_value (n_end x) = option_map t_value (n_end x').
Proof. intros x x' H. destruct H as [id tok tok' ch ch' e e' _ _ He]. exact He. Qed.
Lemma p_children : forall x x', pos_eq x x' -> Forall2 pos_eq (n_children x) (n_children x').
Proof. intros x x' H. destruct H as [id tok tok' ch ch' e e' _ Hch _]. exact Hch. Qed.
Lemma p_tok : forall x x', pos_eq x x' -> otok_sim (n_tok x) (n_tok x').
Proof. intros x x' H. destruct H as [id tok tok' ch ch' e e' Htok _ _]. exact Htok. Qed.

Lemma p_is_tag : forall x x', pos_eq x x' -> is_tag_node x = is_tag_node x'.
Proof.
  intros x x' H. apply p_tok in H. unfold is_tag_node.
  destruct (n_tok x) as [tk|], (n_tok x') as [tk'|]; cbn [otok_sim] in H; try contradiction; [|reflexivity].
  destruct H as (Hk & _). rewrite Hk. reflexivity.
Qed.
Lemma p_blank : forall x x', pos_eq x x' -> blank x = blank x'.
Proof.
  intros x x' H. apply p_tok in H. unfold is_blank_text.
  destruct (n_tok x) as [tk|], (n_tok x') as [tk'|]; cbn [otok_sim] in H; try contradiction; [|reflexivity].
  destruct H as (Hk & _ & _ & [Ht|Hv]).
  - rewrite <- Hk, Ht. reflexivity.
  - rewrite <- Hk, Hv. reflexivity.
Qed.
(* the text of a blank text node *)
Lemma p_sep_text : forall x x', pos_eq x x' -> blank x = true -> sep_text (Some x) = sep_text (Some x').
Proof.
  intros x x' H Hb. apply p_tok in H. unfold sep_text. unfold is_blank_text in Hb.
  destruct (n_tok x) as [tk|], (n_tok x') as [tk'|]; cbn [otok_sim] in H; try contradiction; [|reflexivity].
  destruct H as (_ & _ & _ & [Ht|Hv]); [rewrite Ht in Hb; discriminate Hb|exact Hv].
Qed.

Lemma p_prev_tag : forall c c', Forall2 pos_eq c c' -> forall id last last',
  option_map n_id last = option_map n_id last' ->
  option_map n_id (prev_tag c id last) = option_map n_id (prev_tag c' id last').
Proof.
  intros c c' H. induction H as [|x x' r r' Hx Hr IH]; intros id last last' Hlast; cbn [prev_tag]; [reflexivity|].
  rewrite (p_id x x' Hx). destruct (N.eqb (n_id x') id); [exact Hlast|].
  apply IH. rewrite (p_is_tag x x' Hx). destruct (is_tag_node x'); [|exact Hlast].
  cbn [option_map]. rewrite (p_id x x' Hx). reflexivity.
Qed.
Lemma p_next_sibling : forall c c', Forall2 pos_eq c c' -> forall id,
  match next_sibling c id, next_sibling c' id with
  | Some x, Some x' => pos_eq x x'
  | None, None => True
  | _, _ => False
  end.
Proof.
  intros c c' H. induction H as [|x x' r r' Hx Hr IH]; intros id; cbn [next_sibling]; [exact I|].
  rewrite (p_id x x' Hx). destruct (N.eqb (n_id x') id); [|apply IH].
  destruct Hr as [|y y' q q' Hy _]; [exact I|exact Hy].
Qed.
Definition sepn (ctx : list node) (id : N) : option node :=
  match next_sibling ctx id with
  | Some x => if blank x then Some x else None
  | None => None
  end.
Lemma p_sep : forall c c', Forall2 pos_eq c c' -> forall id, sep_text (sepn c id) = sep_text (sepn c' id).
Proof.
  intros c c' H id. unfold sepn. pose proof (p_next_sibling c c' H id) as Hn.
  destruct (next_sibling c id) as [x|], (next_sibling c' id) as [x'|]; try contradiction; [|reflexivity].
  rewrite <- (p_blank x x' Hn). destruct (blank x) eqn:Eb; [apply p_sep_text; assumption|reflexivity].
Qed.
Lemma p_find_tag : forall c c', Forall2 pos_eq c c' ->
  match find is_tag_node c, find is_tag_node c' with
  | Some x, Some x' => pos_eq x x'
  | None, None => True
  | _, _ => False
  end.
Proof.
  intros c c' H. induction H as [|x x' r r' Hx Hr IH]; cbn [find]; [exact I|].
  rewrite (p_is_tag x x' Hx). destruct (is_tag_node x'); [exact Hx|exact IH].
Qed.
Lemma p_abf : forall c c', Forall2 pos_eq c c' -> Forall2 pos_eq (abf c) (abf c').
Proof.
  intros c c' H. unfold abf_children. cbv zeta.
  pose proof (p_find_tag c c' H) as Hfind. pose proof (Forall2_rev' _ _ _ c c' H) as Hrev.
  remember (find is_tag_node c) as ft eqn:Eft. remember (find is_tag_node c') as ft' eqn:Eft'. clear Eft Eft'.
  remember (rev c) as rc eqn:Erc. remember (rev c') as rc' eqn:Erc'. clear Erc Erc'.
  apply Forall2_app; [|apply Forall2_app].
  - destruct H as [|x x' r r' Hx _]; [constructor|].
    rewrite (p_is_tag x x' Hx), (p_blank x x' Hx).
    destruct ft as [y|], ft' as [y'|]; try contradiction;
      (destruct (negb (is_tag_node x') && _ && blank x'); [constructor; [exact Hx|constructor]|constructor]).
  - destruct ft as [y|], ft' as [y'|]; try contradiction; [constructor; [exact Hfind|constructor]|constructor].
  - destruct Hrev as [|z z' q q' Hz _]; [constructor|].
    rewrite (p_blank z z' Hz). destruct (blank z'); [constructor; [exact Hz|constructor]|constructor].
Qed.

(* ---------- the attribute lists: only the names are looked at ---------- *)
Lemma has_attr_named_sim : forall l l', Forall2 attr_sim l l' -> forall nm, has_attr_named l nm = has_attr_named l' nm.
Proof.
  intros l l' H nm. unfold has_attr_named. induction H as [|a a' r r' Ha Hr IH]; cbn [existsb]; [reflexivity|].
  destruct Ha as (Hn & _). rewrite Hn, IH. reflexivity.
Qed.
Lemma insert_sorted_sim : forall p a a', attr_sim a a' -> forall l l', Forall2 attr_sim l l' ->
  Forall2 attr_sim (insert_sorted p a l) (insert_sorted p a' l').
Proof.
  intros p a a' Ha l l' H. induction H as [|b b' r r' Hb Hr IH]; cbn [insert_sorted].
  - constructor; [exact Ha|constructor].
  - destruct Ha as (Hn & Hrest). destruct Hb as (Hnb & Hrestb). rewrite Hn, Hnb.
    destruct (attr_less p (a_name a') (a_name b')).
    + constructor; [exact (conj Hnb Hrestb)|exact IH].
    + constructor; [exact (conj Hn Hrest)|]. constructor; [exact (conj Hnb Hrestb)|exact Hr].
Qed.
Lemma sorted_attrs_sim : forall p l l', Forall2 attr_sim l l' -> Forall2 attr_sim (sorted_attrs p l) (sorted_attrs p l').
Proof.
  intros p l l' H. unfold sorted_attrs. apply Forall2_rev'.
  assert (G : forall acc acc', Forall2 attr_sim acc acc' ->
            Forall2 attr_sim (fold_left (fun acc a => insert_sorted p a acc) l acc)
                             (fold_left (fun acc a => insert_sorted p a acc) l' acc')).
  { induction H as [|a a' r r' Ha Hr IH]; intros acc acc' Hacc; cbn [fold_left]; [exact Hacc|].
    apply IH. apply insert_sorted_sim; assumption. }
  apply G. constructor.
Qed.
Lemma init_lstate_sim : forall mask tok tok' sc, t_name tok = t_name tok' -> Forall2 attr_sim (t_attrs tok) (t_attrs tok') ->
  init_lstate to_lower mgr mask tok sc = init_lstate to_lower mgr mask tok' sc.
Proof.
  intros mask tok tok' sc Hname Ha. unfold init_lstate. cbv zeta. rewrite <- Hname.
  assert (Hd : forall d, has_dir mgr (t_attrs tok) d = has_dir mgr (t_attrs tok') d).
  { intros d. unfold has_dir. apply has_attr_named_sim. exact Ha. }
  rewrite (Hd d_define), (Hd d_replace), (Hd d_range), (Hd d_insert).
  rewrite (existsb_ext' _ (has_dir mgr (t_attrs tok)) (has_dir mgr (t_attrs tok')) cond_names Hd).
  reflexivity.
Qed.
Lemma is_owner_sim : forall mask a a', attr_sim a a' -> is_owner mgr mask a = is_owner mgr mask a'.
Proof. intros mask a a' (Hn & _). unfold is_owner. rewrite Hn. reflexivity. Qed.
Lemma remove_step_sim : forall a a' ls ls', attr_sim a a' -> ls_sim ls ls' -> ls_sim (remove_step a ls) (remove_step a' ls').
Proof.
  intros a a' ls ls' (_ & Hv & _) Hls. unfold remove_step. rewrite <- Hv. cbv zeta.
  destruct Hls as [sc np ch ch' tb ct dr rp Hch]. unfold set_child. cbn [l_sc l_np l_child l_tagbuf l_content l_direct l_replace].
  destruct (existsb _ (remove_values s_all)); [constructor; exact I|].
  destruct (existsb _ (remove_values s_body)); [constructor; exact I|].
  destruct (existsb _ (remove_values s_tag)); [constructor; exact Hch|].
  destruct (existsb _ (remove_values s_abf)); [|constructor; exact Hch].
  destruct ch, ch'; cbn [child_sim] in Hch; try contradiction; constructor; try exact Hch; reflexivity.
Qed.

(* ---------- one invocation, for a recursive call that respects the relation ---------- *)
Section Tree.
Variable exec : N -> list node -> node -> scope -> bool -> tbl -> rst -> R.
Hypothesis Hexec : forall m c c' x x' s tp tb stt, Forall2 pos_eq c c' -> pos_eq x x' ->
  exec m c x s tp tb stt = exec m c' x' s tp tb stt.

Notation econd := (eval_cond is_letter is_udigit methods call_fn mgr exec).
Notation cowner := (cond_owner is_letter is_udigit methods call_fn mgr exec).
Notation riter := (range_iter exec).
Notation rowner := (range_owner is_space is_letter is_udigit methods call_fn exec).
Notation astep := (attr_step is_space is_letter is_udigit methods call_fn mgr exec).
Notation rattrs := (run_attrs is_space is_letter is_udigit methods call_fn mgr exec).
Notation rchild := (run_child is_space is_letter is_udigit methods call_fn mgr exec).
Notation etag := (exec_tag is_space to_lower is_letter is_udigit methods call_fn mgr exec).
Notation ebody := (exec_body is_space to_lower is_letter is_udigit methods call_fn mgr exec).

Lemma p_exec_list : forall c c', Forall2 pos_eq c c' -> forall l l', Forall2 pos_eq l l' ->
  forall s tp tb stt, exec_list exec c l s tp tb stt = exec_list exec c' l' s tp tb stt.
Proof.
  intros c c' Hc l l' Hl. induction Hl as [|x x' r r' Hx Hr IH]; intros s tp tb stt; cbn [exec_list]; [reflexivity|].
  rewrite (Hexec 0 c c' x x' s tp tb stt Hc Hx). apply seq2_ext. intros t2 st2. apply IH.
Qed.

Variables ctx ctx' : list node.
Variables n n' : node.
Hypothesis Hctx : Forall2 pos_eq ctx ctx'.
Hypothesis Hn : pos_eq n n'.

Lemma p_eval_cond : forall mask a a' ls ls' t st, attr_sim a a' -> ls_sim ls ls' ->
  LR_sim (econd mask ctx n a ls t st) (econd mask ctx' n' a' ls' t st).
Proof.
  intros mask a a' ls ls' t st Ha Hls. unfold eval_cond.
  destruct Hls as [sc np ch ch' tb ct dr rp Hch]. cbn [l_sc].
  rewrite (attr_evaluate_sim a a' Ha sc (r_log st)).
  destruct (aeval a' sc (r_log st)) as [[s|c|] lg]; [|apply LR_inr|apply LR_inr].
  cbv zeta. rewrite <- (p_id n n' Hn). destruct (str_eqb s s_true).
  - rewrite (Hexec (N.lor mask 1) ctx ctx' n n' sc false (tbl_set t (n_id n) true) (set_log st lg) Hctx Hn).
    destruct (exec (N.lor mask 1) ctx' n' sc false (tbl_set t (n_id n) true) (set_log st lg)) as [[[o r] t2] st2].
    destruct r; [|apply LR_inr|apply LR_inr].
    apply LR_inl. unfold add_direct, set_child. cbn [l_sc l_np l_child l_tagbuf l_content l_direct l_replace]. constructor. exact I.
  - apply LR_inl. unfold set_child. cbn [l_sc l_np l_child l_tagbuf l_content l_direct l_replace]. constructor. exact I.
Qed.

Lemma p_cond_owner : forall mask a a' cmd ls ls' t st, attr_sim a a' -> ls_sim ls ls' ->
  LR_sim (cowner mask ctx n a cmd ls t st) (cowner mask ctx' n' a' cmd ls' t st).
Proof.
  intros mask a a' cmd ls ls' t st Ha Hls. unfold cond_owner.
  destruct (str_eqb cmd d_if); [apply p_eval_cond; assumption|].
  pose proof (p_prev_tag ctx ctx' Hctx (n_id n) None None eq_refl) as Hp. rewrite <- (p_id n n' Hn).
  destruct (prev_tag ctx (n_id n) None) as [p|]; destruct (prev_tag ctx' (n_id n) None) as [p'|];
    cbn [option_map] in Hp; try discriminate Hp; [|apply LR_inr].
  injection Hp as Hp. rewrite <- Hp.
  destruct (tbl_get t (n_id p)) as [[|]|]; [|apply p_eval_cond; assumption|apply LR_inr].
  apply LR_inl. destruct Hls as [sc np ch ch' tb ct dr rp Hch]. unfold set_child.
  cbn [l_sc l_np l_child l_tagbuf l_content l_direct l_replace]. constructor. exact I.
Qed.

Lemma p_range_iter : forall mask idx item scope0 sep sep', sep_text sep = sep_text sep' ->
  forall items first acc t st,
  riter mask ctx n idx item scope0 sep items first acc t st
  = riter mask ctx' n' idx item scope0 sep' items first acc t st.
Proof.
  intros mask idx item scope0 sep sep' Hsep. induction items as [|[k v] more IH]; intros first acc t st;
    cbn [range_iter]; [reflexivity|]. cbv zeta.
  rewrite (Hexec (N.lor mask 2) ctx ctx' n n' _ false t st Hctx Hn), !sep_out_text, Hsep.
  destruct (exec (N.lor mask 2) ctx' n' (range_scope idx item k v scope0) false t st) as [[[o r] t2] st2].
  destruct r; [|reflexivity|reflexivity]. apply IH.
Qed.

Lemma p_range_owner : forall mask av ls ls' t st, ls_sim ls ls' ->
  LR_sim (rowner mask ctx n av ls t st) (rowner mask ctx' n' av ls' t st).
Proof.
  intros mask av ls ls' t st Hls. unfold range_owner.
  destruct Hls as [sc np ch ch' tb ct dr rp Hch]. cbn [l_sc].
  destruct (extract_range is_space (strip_quotes av)) as [[idx item] obj].
  destruct (parse_code is_letter is_udigit obj) as [c|]; [|apply LR_inr]. cbv zeta.
  destruct (eval_text is_letter is_udigit methods call_fn (with_default sc) obj (r_log st)) as [[v|c'|] lg];
    [|apply LR_inr|apply LR_inr].
  destruct (range_items v) as [items|]; [|apply LR_inr].
  pose proof (p_sep ctx ctx' Hctx (n_id n)) as Hs. unfold sepn in Hs. rewrite <- (p_id n n' Hn).
  rewrite (p_range_iter mask idx item (with_default sc) _ _ Hs items true [] t (set_log st lg)).
  destruct (riter mask ctx' n' idx item (with_default sc) _ items true [] t (set_log st lg)) as [[[o|r] t2] st2];
    [|apply LR_inr].
  apply LR_inl. unfold add_direct. cbn [l_sc l_np l_child l_tagbuf l_content l_direct l_replace]. constructor. exact Hch.
Qed.

Lemma p_attr_step : forall mask attrs attrs' a a' ls ls' t st,
  (forall nm, has_attr_named attrs nm = has_attr_named attrs' nm) -> attr_sim a a' -> ls_sim ls ls' ->
  LR_sim (astep mask ctx n attrs a ls t st) (astep mask ctx' n' attrs' a' ls' t st).
Proof.
  intros mask attrs attrs' a a' ls ls' t st Hmem Ha Hls. unfold attr_step. cbv zeta.
  pose proof Ha as (Hnm & Hv & _). rewrite <- Hnm, <- Hv, <- Hmem.
  destruct (prefixb (prefix mgr) (a_name a)).
  - destruct (str_eqb (skipn (length (prefix mgr)) (a_name a)) d_with).
    { destruct (negb (N.eqb mask 0)); [apply LR_inl; exact Hls|].
      destruct Hls as [sc np ch ch' tb ct dr rp Hch]. cbn [l_sc l_np l_child l_tagbuf l_content l_direct l_replace].
      rewrite (with_assign_sim a a' Ha sc (r_log st)).
      destruct (with_assign is_space is_letter is_udigit methods call_fn mgr a' sc (r_log st)) as [[sc'|e] lg];
        [apply LR_inl; constructor; exact Hch|apply LR_inr]. }
    destruct (is_cond_name (skipn (length (prefix mgr)) (a_name a))).
    { destruct (a_value a) as [av|]; [|apply LR_inr].
      destruct (negb (N.eqb (N.land mask 1) 0)); [apply LR_inl; exact Hls|apply p_cond_owner; assumption]. }
    destruct (str_eqb (skipn (length (prefix mgr)) (a_name a)) d_range).
    { destruct (a_value a) as [av|]; [|apply LR_inr].
      destruct (negb (N.eqb (N.land mask 2) 0)); [apply LR_inl; exact Hls|apply p_range_owner; assumption]. }
    destruct (str_eqb (skipn (length (prefix mgr)) (a_name a)) d_remove).
    { apply LR_inl. apply remove_step_sim; assumption. }
    destruct (str_eqb (skipn (length (prefix mgr)) (a_name a)) d_text || str_eqb (skipn (length (prefix mgr)) (a_name a)) d_raw).
    { destruct Hls as [sc np ch ch' tb ct dr rp Hch]. unfold set_child.
      cbn [l_sc l_np l_child l_tagbuf l_content l_direct l_replace].
      destruct ch, ch'; cbn [child_sim] in Hch; try contradiction; apply LR_inl; constructor; cbn [child_sim]; try exact Hch.
      split; [exact Ha|reflexivity]. }
    destruct (str_eqb (skipn (length (prefix mgr)) (a_name a)) d_define); [apply LR_inl; exact Hls|].
    destruct Hls as [sc np ch ch' tb ct dr rp Hch]. cbn [l_sc l_np l_child l_tagbuf l_content l_direct l_replace].
    rewrite (attr_evaluate_sim a a' Ha sc (r_log st)).
    destruct (str_eqb (skipn (length (prefix mgr)) (a_name a)) d_replace || str_eqb (skipn (length (prefix mgr)) (a_name a)) d_insert).
    + destruct (aeval a' sc (r_log st)) as [[name|c|] lg]; [|apply LR_inr|apply LR_inr].
      destruct (assoc name (m_templates mgr)) as [tp|]; [|apply LR_inr].
      destruct (run_template exec tp sc (set_log st lg)) as [[o r] st2].
      destruct r; [|apply LR_inr|apply LR_inr].
      apply LR_inl. destruct (rp || _); constructor; exact Hch.
    + destruct (aeval a' sc (r_log st)) as [[v|c|] lg]; [|apply LR_inr|apply LR_inr].
      apply LR_inl. unfold add_tagbuf. cbn [l_sc l_np l_child l_tagbuf l_content l_direct l_replace]. constructor. exact Hch.
  - destruct (has_attr_named attrs (prefix mgr ++ a_name a)); [apply LR_inl; exact Hls|].
    apply LR_inl. destruct Hls as [sc np ch ch' tb ct dr rp Hch]. unfold add_tagbuf.
    cbn [l_sc l_np l_child l_tagbuf l_content l_direct l_replace]. constructor. exact Hch.
Qed.

Lemma p_run_attrs : forall mask attrs attrs', (forall nm, has_attr_named attrs nm = has_attr_named attrs' nm) ->
  forall l l', Forall2 attr_sim l l' -> forall ls ls' t st, ls_sim ls ls' ->
  LR_sim (rattrs mask ctx n attrs l ls t st) (rattrs mask ctx' n' attrs' l' ls' t st).
Proof.
  intros mask attrs attrs' Hmem l l' Hl. induction Hl as [|a a' r r' Ha Hr IH]; intros ls ls' t st Hls; cbn [run_attrs].
  - apply LR_inl. exact Hls.
  - pose proof (p_attr_step mask attrs attrs' a a' ls ls' t st Hmem Ha Hls) as Hs.
    destruct (astep mask ctx n attrs a ls t st) as [[[l1|r1] t1] st1];
      destruct (astep mask ctx' n' attrs' a' ls' t st) as [[[l2|r2] t2] st2]; cbn [LR_sim] in Hs; try contradiction.
    + destruct Hs as (Hl12 & Ht & Hst). subst t2 st2. rewrite <- (is_owner_sim mask a a' Ha).
      destruct (is_owner mgr mask a); [apply LR_inl; exact Hl12|apply IH; exact Hl12].
    + destruct Hs as (Hr12 & Ht & Hst). subst r2 t2 st2. apply LR_inr.
Qed.

Lemma p_run_child : forall ls ls' top t st, ls_sim ls ls' -> rchild n ls top t st = rchild n' ls' top t st.
Proof.
  intros ls ls' top t st Hls. unfold run_child. destruct Hls as [sc np ch ch' tb ct dr rp Hch].
  cbn [l_sc l_np l_child l_tagbuf l_content l_direct l_replace].
  pose proof (p_children n n' Hn) as Hc.
  destruct ch, ch'; cbn [child_sim] in Hch; try contradiction.
  - apply p_exec_list; assumption.
  - reflexivity.
  - destruct Hch as [Ha He]. subst esc0. rewrite (attr_evaluate_sim a a0 Ha sc (r_log st)). reflexivity.
  - subst sc1. apply p_exec_list; [assumption|]. apply p_abf. exact Hc.
Qed.

Lemma p_exec_tag : forall mask tok tok' sc top t st,
  t_name tok = t_name tok' -> Forall2 attr_sim (t_attrs tok) (t_attrs tok') ->
  etag mask ctx n tok sc top t st = etag mask ctx' n' tok' sc top t st.
Proof.
  intros mask tok tok' sc top t st Hname Ha. unfold exec_tag.
  rewrite (init_lstate_sim mask tok tok' sc Hname Ha).
  pose proof (p_run_attrs mask (t_attrs tok) (t_attrs tok') (has_attr_named_sim _ _ Ha)
                _ _ (sorted_attrs_sim (prefix mgr) _ _ Ha) (init_lstate to_lower mgr mask tok' sc)
                (init_lstate to_lower mgr mask tok' sc) t st) as Hs.
  assert (Hrefl : ls_sim (init_lstate to_lower mgr mask tok' sc) (init_lstate to_lower mgr mask tok' sc)).
  { unfold init_lstate. cbv zeta. constructor. destruct (_ || _ || _ || _); exact I. }
  specialize (Hs Hrefl).
  destruct (rattrs mask ctx n (t_attrs tok) (sorted_attrs (prefix mgr) (t_attrs tok)) (init_lstate to_lower mgr mask tok' sc) t st)
    as [[[l1|r1] t1] st1];
  destruct (rattrs mask ctx' n' (t_attrs tok') (sorted_attrs (prefix mgr) (t_attrs tok')) (init_lstate to_lower mgr mask tok' sc) t st)
    as [[[l2|r2] t2] st2]; cbn [LR_sim] in Hs; try contradiction.
  - destruct Hs as (Hl12 & Ht & Hst). subst t2 st2.
    assert (Hbuf : token_buf l1 = token_buf l2 /\ l_np l1 = l_np l2).
    { destruct Hl12 as [sc0 np ch ch' tb ct dr rp Hch]. split; reflexivity. }
    destruct Hbuf as [Hbuf Hnp]. rewrite Hbuf, Hnp.
    apply seq2_ext. intros t3 st3. rewrite (p_run_child l1 l2 top t3 st3 Hl12).
    apply seq2_ext. intros t4 st4. pose proof (p_end n n' Hn) as He.
    destruct (n_end n) as [e|]; destruct (n_end n') as [e'|]; cbn [option_map] in He; try discriminate He; [|reflexivity].
    injection He as He. rewrite He. reflexivity.
  - destruct Hs as (Hr12 & Ht & Hst). subst r2 t2 st2. reflexivity.
Qed.

Theorem p_exec_body : forall mask sc top t st, ebody mask ctx n sc top t st = ebody mask ctx' n' sc top t st.
Proof.
  intros mask sc top t st.
  pose proof (p_tok n n' Hn) as Htok. pose proof (p_children n n' Hn) as Hch.
  unfold exec_body.
  destruct (n_tok n) as [tk|], (n_tok n') as [tk'|]; cbn [otok_sim] in Htok; try contradiction.
  - destruct Htok as (Hk & Hname & Hattrs & Hv). rewrite <- Hk.
    destruct (t_kind tk) eqn:Ek; try (apply p_exec_tag; assumption);
      (destruct Hv as [Hv|Hv]; [discriminate Hv|rewrite Hv; reflexivity]).
  - apply seq2_ext. intros t2 st2. apply p_exec_list; assumption.
Qed.
End Tree.

Notation enode := (exec_node is_space to_lower is_letter is_udigit methods call_fn mgr).

Theorem exec_node_pos_irrelevant : forall fuel mask ctx ctx' n n' sc top t st,
  Forall2 pos_eq ctx ctx' -> pos_eq n n' ->
  enode fuel mask ctx n sc top t st = enode fuel mask ctx' n' sc top t st.
Proof.
  induction fuel as [|f IH]; intros mask ctx ctx' n n' sc top t st Hctx Hn; cbn [exec_node]; [reflexivity|].
  apply p_exec_body; [|exact Hctx|exact Hn].
  intros m c c' x x' s tp tb stt Hc Hx. apply IH; assumption.
Qed.

Theorem execute_pos_irrelevant : forall fuel tp tp' data t st,
  Forall2 pos_eq (tp_children tp) (tp_children tp') -> Forall2 pos_eq (tp_ctx tp) (tp_ctx tp') ->
  execute is_space to_lower is_letter is_udigit methods call_fn mgr fuel tp data t st
  = execute is_space to_lower is_letter is_udigit methods call_fn mgr fuel tp' data t st.
Proof.
  intros fuel tp tp' data t st Hch Hctx. unfold execute.
  apply exec_node_pos_irrelevant; [exact Hctx|]. constructor; [exact I|exact Hch|reflexivity].
Qed.
End PosIrr.

Print Assumptions exec_node_pos_irrelevant.
Print Assumptions execute_pos_irrelevant.
