(* The evaluator model is strict: the first failure is the failure of the whole expression (same
   cause, same call log), nothing is evaluated after it, and unselected operands are not
   evaluated at all. *)
From Tpl Require Import Exp.Eval.
From Coq Require Import Lia.
Open Scope N_scope.

(* induction principle for the nested expression type *)
Section ExprInd.
Variable P : expr -> Prop.
Definition Popt (o : option expr) : Prop := match o with Some x => P x | None => True end.
Hypothesis HLit : forall k t l c, P (ELit k t l c).
Hypothesis HName : forall s l c, P (EName s l c).
Hypothesis HParen : forall e, P e -> P (EParen e).
Hypothesis HUnary : forall op e l c, P e -> P (EUnary op e l c).
Hypothesis HBin : forall op a b l c, P a -> P b -> P (EBin op a b l c).
Hypothesis HCond : forall c a b, P c -> P a -> P b -> P (ECond c a b).
Hypothesis HField : forall e s n, P e -> P (EField e s n).
Hypothesis HIndex : forall e i, P e -> P i -> P (EIndex e i).
Hypothesis HSlice : forall e lo hi, P e -> Popt lo -> Popt hi -> P (ESlice e lo hi).
Hypothesis HSlice3 : forall e lo hi cp, P e -> Popt lo -> P hi -> P cp -> P (ESlice3 e lo hi cp).
Hypothesis HCall : forall f args ell cm, P f -> Forall P args -> P (ECall f args ell cm).

Fixpoint expr_ind' (e : expr) : P e :=
  match e as e0 return P e0 with
  | ELit k t l c => HLit k t l c
  | EName s l c => HName s l c
  | EParen a => HParen a (expr_ind' a)
  | EUnary op a l c => HUnary op a l c (expr_ind' a)
  | EBin op a b l c => HBin op a b l c (expr_ind' a) (expr_ind' b)
  | ECond c a b => HCond c a b (expr_ind' c) (expr_ind' a) (expr_ind' b)
  | EField a s n => HField a s n (expr_ind' a)
  | EIndex a i => HIndex a i (expr_ind' a) (expr_ind' i)
  | ESlice a lo hi =>
    HSlice a lo hi (expr_ind' a)
      (match lo as o return Popt o with Some x => expr_ind' x | None => I end)
      (match hi as o return Popt o with Some x => expr_ind' x | None => I end)
  | ESlice3 a lo hi cp =>
    HSlice3 a lo hi cp (expr_ind' a)
      (match lo as o return Popt o with Some x => expr_ind' x | None => I end)
      (expr_ind' hi) (expr_ind' cp)
  | ECall f args ell cm =>
    HCall f args ell cm (expr_ind' f)
      ((fix go (l : list expr) : Forall P l :=
          match l as l0 return Forall P l0 with
          | [] => Forall_nil P
          | x :: r => Forall_cons x (expr_ind' x) (go r)
          end) args)
  end.
End ExprInd.

Section EvalStrict.
Variable methods : N -> bool -> list (str * N).
Variable call_fn : N -> list value -> fres.
Variable sc : scope.

Notation ev := (eval methods call_fn sc).

(* ---------- the argument evaluator, as a top-level function ---------- *)
Fixpoint eval_args (l : list expr) (acc : list value) (lg : log) : res (list value) * log :=
  match l with
  | [] => (Ok (rev acc), lg)
  | x :: r => thread (ev x lg) (fun v lg' => eval_args r (v :: acc) lg')
  end.

(* what happens once the arguments are known *)
Definition apply_args (id : N) (bound : list value) (ell : bool) (vs : list value) (lg2 : log) : res value * log :=
  let vs' := if ell then
               match rev vs with
               | VSeq false l _ :: front => Ok (rev front ++ l)
               | VOpaque _ :: _ => Unmodelled
               | _ => Err COther
               end
             else Ok vs in
  match vs' with
  | Ok vs' => finish_call call_fn id (bound ++ vs') lg2
  | Err c => (Err c, lg2)
  | Unmodelled => (Unmodelled, lg2)
  end.

(* the local [eval_args] fixpoint inside [eval] is this function *)
Lemma eval_call_eq : forall f args ell cm lg,
  ev (ECall f args ell cm) lg =
  thread (ev f lg) (fun fv lg1 =>
    match fv with
    | VFunc id bound => thread (eval_args args [] lg1) (apply_args id bound ell)
    | VOpaque _ => (Unmodelled, lg1)
    | _ => (Err COther, lg1)
    end).
Proof. intros. reflexivity. Qed.

(* ---------- thread ---------- *)
Lemma thread_ok : forall A B (a : A) lg (f : A -> log -> res B * log), thread (Ok a, lg) f = f a lg.
Proof. reflexivity. Qed.
Lemma thread_err : forall A B c lg (f : A -> log -> res B * log), thread (Err c, lg) f = (Err c, lg).
Proof. reflexivity. Qed.
Lemma thread_unm : forall A B lg (f : A -> log -> res B * log), thread (Unmodelled, lg) f = (Unmodelled, lg).
Proof. reflexivity. Qed.

Lemma thread_inv : forall A B (p : res A * log) (f : A -> log -> res B * log) r lg',
  thread p f = (r, lg') ->
  (exists a lg1, p = (Ok a, lg1) /\ f a lg1 = (r, lg')) \/
  (exists c, p = (Err c, lg') /\ r = Err c) \/
  (p = (Unmodelled, lg') /\ r = Unmodelled).
Proof.
  intros A B [[a | c |] lg1] f r lg' H; cbn [thread] in H.
  - left. eauto.
  - right. left. injection H as H1 H2. subst. eauto.
  - right. right. injection H as H1 H2. subst. eauto.
Qed.

(* ---------- the call log only grows ---------- *)
Definition extends (lg lg' : log) : Prop := exists d, lg' = d ++ lg.
Lemma extends_refl : forall lg, extends lg lg.
Proof. intros lg. exists []. reflexivity. Qed.
Lemma extends_trans : forall a b c, extends a b -> extends b c -> extends a c.
Proof. intros a b c [d1 H1] [d2 H2]. exists (d2 ++ d1). subst. rewrite app_assoc. reflexivity. Qed.

Ltac same_log H := apply (f_equal snd) in H; cbn [snd] in H; subst; apply extends_refl.

Lemma lift_extends : forall A (x : res A) lg r lg', lift x lg = (r, lg') -> extends lg lg'.
Proof. intros A x lg r lg' H. unfold lift in H. same_log H. Qed.

Lemma thread_extends : forall A B (p : res A * log) (f : A -> log -> res B * log) lg r lg',
  (forall a lg1, p = (Ok a, lg1) -> extends lg lg1) ->
  (forall c lg1, p = (Err c, lg1) -> extends lg lg1) ->
  (p = (Unmodelled, snd p) -> extends lg (snd p)) ->
  (forall a lg1 r2 lg2, p = (Ok a, lg1) -> f a lg1 = (r2, lg2) -> extends lg1 lg2) ->
  thread p f = (r, lg') -> extends lg lg'.
Proof.
  intros A B p f lg r lg' Hok Herr Hun Hf H.
  destruct (thread_inv _ _ _ _ _ _ H) as [[a [lg1 [Hp Hfa]]] | [[c [Hp Hr]] | [Hp Hr]]].
  - eapply extends_trans; [apply (Hok _ _ Hp) | apply (Hf _ _ _ _ Hp Hfa)].
  - apply (Herr _ _ Hp).
  - rewrite Hp in Hun. cbn [snd] in Hun. apply Hun. reflexivity.
Qed.

(* simpler form: the first stage is known to extend the log whatever its result *)
Lemma thread_extends' : forall A B (p : res A * log) (f : A -> log -> res B * log) lg r lg',
  (forall r1 lg1, p = (r1, lg1) -> extends lg lg1) ->
  (forall a lg1 r2 lg2, f a lg1 = (r2, lg2) -> extends lg1 lg2) ->
  thread p f = (r, lg') -> extends lg lg'.
Proof.
  intros A B p f lg r lg' Hp Hf H.
  eapply thread_extends; try eassumption.
  - intros; eapply Hp; eassumption.
  - intros; eapply Hp; eassumption.
  - intros; eapply Hp; eassumption.
  - intros; eapply Hf; eassumption.
Qed.

Lemma finish_call_extends : forall id args lg r lg',
  finish_call call_fn id args lg = (r, lg') -> extends lg lg'.
Proof.
  intros id args lg r lg' H. unfold finish_call in H.
  destruct (existsb _ args).
  { same_log H. }
  destruct (is_builtin id).
  { same_log H. }
  destruct (call_fn id args); injection H as _ H; subst;
    first [ exists [(id, args)]; reflexivity | exists []; reflexivity ].
Qed.

Lemma apply_args_extends : forall id bound ell vs lg r lg',
  apply_args id bound ell vs lg = (r, lg') -> extends lg lg'.
Proof.
  intros id bound ell vs lg r lg' H. unfold apply_args in H.
  match type of H with (match ?X with _ => _ end) = _ => destruct X as [vs' | c |] end.
  - eapply finish_call_extends; eassumption.
  - same_log H.
  - same_log H.
Qed.

Definition ext_prop (e : expr) : Prop := forall lg r lg', ev e lg = (r, lg') -> extends lg lg'.

Lemma eval_args_extends : forall l, Forall ext_prop l ->
  forall acc lg r lg', eval_args l acc lg = (r, lg') -> extends lg lg'.
Proof.
  intros l Hl. induction Hl as [| x rest Hx Hrest IH]; intros acc lg r lg' H; cbn [eval_args] in H.
  - same_log H.
  - eapply thread_extends'; [| | exact H].
    + intros r1 lg1 E. eapply Hx; eassumption.
    + intros a lg1 r2 lg2 E. cbv beta in E. eapply IH; eassumption.
Qed.

Lemma ext_as_int : forall x, ext_prop x ->
  forall lg (r : res Z) lg', thread (ev x lg) (fun xv => lift (as_int xv)) = (r, lg') -> extends lg lg'.
Proof.
  intros x Hx lg r lg' H.
  eapply thread_extends'; [| | exact H].
  - intros r1 lg1 E. eapply Hx; eassumption.
  - intros a lg1 r2 lg2 E. cbv beta in E. eapply lift_extends; eassumption.
Qed.

Lemma ext_opt : forall o dflt, Popt ext_prop o ->
  forall lg (r : res Z) lg',
  match o with None => (Ok dflt, lg) | Some x => thread (ev x lg) (fun xv => lift (as_int xv)) end = (r, lg') ->
  extends lg lg'.
Proof.
  intros o dflt Ho lg r lg' H. destruct o as [x|].
  - eapply ext_as_int; eassumption.
  - same_log H.
Qed.

Lemma eval_ext_all : forall e, ext_prop e.
Proof.
  induction e using expr_ind'; unfold ext_prop; intros lg r lg' Hev.
  - (* ELit *) destruct k; cbn [eval] in Hev; same_log Hev.
  - (* EName *) cbn [eval] in Hev. same_log Hev.
  - (* EParen *) cbn [eval] in Hev. eapply IHe; eassumption.
  - (* EUnary *) cbn [eval] in Hev.
    eapply thread_extends'; [| | exact Hev].
    + intros; eapply IHe; eassumption.
    + intros; eapply lift_extends; cbv beta in *; eassumption.
  - (* EBin *)
    assert (Hgen : forall lv lg1 r2 lg2,
               thread (ev e2 lg1) (fun r0 => lift (bin_op op lv r0)) = (r2, lg2) -> extends lg1 lg2).
    { intros lv lg1 r2 lg2 E; cbv beta in E. eapply thread_extends'; [| | exact E].
      - intros; eapply IHe2; eassumption.
      - intros; eapply lift_extends; cbv beta in *; eassumption. }
    destruct op; cbn [eval] in Hev;
      (eapply thread_extends'; [| | exact Hev]; [intros; eapply IHe1; eassumption |]);
      intros lv lg1 r2 lg2 E; cbv beta in E; try (eapply Hgen; eassumption).
    + (* BLAnd *) destruct lv as [| [|] | | | | | | | | |]; try (eapply Hgen; eassumption).
      same_log E.
    + (* BLOr *) destruct lv as [| [|] | | | | | | | | |]; try (eapply Hgen; eassumption).
      same_log E.
  - (* ECond *) cbn [eval] in Hev.
    eapply thread_extends'; [| | exact Hev].
    + intros; eapply IHe1; eassumption.
    + intros cv lg1 r2 lg2 E; cbv beta in E.
      destruct cv as [| [|] | | | | | | | | |];
        try (same_log E).
      * eapply IHe2; eassumption.
      * eapply IHe3; eassumption.
  - (* EField *) cbn [eval] in Hev.
    eapply thread_extends'; [| | exact Hev].
    + intros; eapply IHe; eassumption.
    + intros; eapply lift_extends; cbv beta in *; eassumption.
  - (* EIndex *) cbn [eval] in Hev.
    eapply thread_extends'; [| | exact Hev].
    + intros; eapply IHe1; eassumption.
    + intros v lg1 r2 lg2 E; cbv beta in E.
      eapply thread_extends'; [| | exact E].
      * intros; eapply IHe2; eassumption.
      * intros; eapply lift_extends; cbv beta in *; eassumption.
  - (* ESlice *) cbn [eval] in Hev.
    eapply thread_extends'; [| | exact Hev].
    + intros; eapply IHe; eassumption.
    + intros v lg1 r2 lg2 E; cbv beta in E.
      destruct v; try (same_log E).
      eapply thread_extends'; [| | exact E].
      * intros r1 lg3 E1. eapply (ext_opt lo); [| eassumption]; assumption.
      * intros s lg3 r3 lg4 E2; cbv beta in E2.
        eapply thread_extends'; [| | exact E2].
        -- intros r1 lg5 E1. eapply (ext_opt hi); [| eassumption]; assumption.
        -- intros; eapply lift_extends; cbv beta in *; eassumption.
  - (* ESlice3 *) cbn [eval] in Hev.
    eapply thread_extends'; [| | exact Hev].
    + intros; eapply IHe1; eassumption.
    + intros v lg1 r2 lg2 E; cbv beta in E.
      destruct v; try (same_log E).
      eapply thread_extends'; [| | exact E].
      * intros r1 lg3 E1. eapply (ext_opt lo); [| eassumption]; assumption.
      * intros s lg3 r3 lg4 E2; cbv beta in E2.
        eapply thread_extends'; [| | exact E2].
        -- intros r1 lg5 E1. eapply ext_as_int; [| eassumption]; assumption.
        -- intros e' lg5 r4 lg6 E3; cbv beta in E3.
           eapply thread_extends'; [| | exact E3].
           ++ intros r1 lg7 E1. eapply ext_as_int; [| eassumption]; assumption.
           ++ intros; eapply lift_extends; cbv beta in *; eassumption.
  - (* ECall *) rewrite eval_call_eq in Hev.
    eapply thread_extends'; [| | exact Hev].
    + intros; eapply IHe; eassumption.
    + intros fv lg1 r2 lg2 E; cbv beta in E.
      destruct fv; try (same_log E).
      eapply thread_extends'; [| | exact E].
      * intros r1 lg3 E1. eapply eval_args_extends; eassumption.
      * intros vs lg3 r3 lg4 E2; cbv beta in E2. eapply apply_args_extends; eassumption.
Qed.

Theorem eval_log_extends : forall e lg r lg', ev e lg = (r, lg') -> exists d, lg' = d ++ lg.
Proof. intros e lg r lg' H. exact (eval_ext_all e lg r lg' H). Qed.

(* ---------- short circuit and selection ---------- *)
Theorem and_short_circuit : forall a b l c lg lg1, ev a lg = (Ok (VBool false), lg1) ->
  ev (EBin BLAnd a b l c) lg = (Ok (VBool false), lg1).
Proof. intros a b l c lg lg1 H. cbn [eval]. rewrite H. reflexivity. Qed.

Theorem or_short_circuit : forall a b l c lg lg1, ev a lg = (Ok (VBool true), lg1) ->
  ev (EBin BLOr a b l c) lg = (Ok (VBool true), lg1).
Proof. intros a b l c lg lg1 H. cbn [eval]. rewrite H. reflexivity. Qed.

Theorem cond_selects : forall c a b lg lg1 x, ev c lg = (Ok (VBool x), lg1) ->
  ev (ECond c a b) lg = ev (if x then a else b) lg1.
Proof. intros c a b lg lg1 x H. cbn [eval]. rewrite H. destruct x; reflexivity. Qed.

(* ---------- failures propagate ---------- *)
Definition fails (e : expr) (lg : log) (c : cause) (lg' : log) : Prop := ev e lg = (Err c, lg').

Theorem err_unary : forall op a l k lg c lg', fails a lg c lg' -> fails (EUnary op a l k) lg c lg'.
Proof. unfold fails. intros op a l k lg c lg' H. cbn [eval]. rewrite H. reflexivity. Qed.

Theorem err_paren : forall a lg c lg', fails a lg c lg' -> fails (EParen a) lg c lg'.
Proof. unfold fails. intros a lg c lg' H. cbn [eval]. exact H. Qed.

Theorem err_bin_left : forall op a b l k lg c lg', fails a lg c lg' -> fails (EBin op a b l k) lg c lg'.
Proof. unfold fails. intros op a b l k lg c lg' H. destruct op; cbn [eval]; rewrite H; reflexivity. Qed.

Theorem err_bin_right : forall op a b l k v lg lg1 c lg', ev a lg = (Ok v, lg1) ->
  (op = BLAnd -> v <> VBool false) -> (op = BLOr -> v <> VBool true) ->
  fails b lg1 c lg' -> fails (EBin op a b l k) lg c lg'.
Proof.
  unfold fails. intros op a b l k v lg lg1 c lg' Ha Hand Hor Hb.
  destruct op; cbn [eval]; rewrite Ha; cbn [thread]; try (rewrite Hb; reflexivity).
  - destruct v as [| [|] | | | | | | | | |]; try (rewrite Hb; reflexivity).
    exfalso. apply Hand; reflexivity.
  - destruct v as [| [|] | | | | | | | | |]; try (rewrite Hb; reflexivity).
    exfalso. apply Hor; reflexivity.
Qed.

Theorem err_cond_test : forall t a b lg c lg', fails t lg c lg' -> fails (ECond t a b) lg c lg'.
Proof. unfold fails. intros t a b lg c lg' H. cbn [eval]. rewrite H. reflexivity. Qed.

(* only the selected branch is evaluated, and its failure is the failure of the conditional *)
Theorem err_cond_branch : forall t a b x lg lg1 c lg', ev t lg = (Ok (VBool x), lg1) ->
  fails (if x then a else b) lg1 c lg' -> fails (ECond t a b) lg c lg'.
Proof.
  unfold fails. intros t a b x lg lg1 c lg' Ht H.
  rewrite (cond_selects t a b lg lg1 x Ht). exact H.
Qed.

(* a test that is not a boolean is an error, and neither branch is evaluated *)
Theorem err_cond_not_bool : forall t a b v lg lg1, ev t lg = (Ok v, lg1) ->
  (forall x, v <> VBool x) -> fails (ECond t a b) lg COther lg1.
Proof.
  unfold fails. intros t a b v lg lg1 Ht Hv. cbn [eval]. rewrite Ht. cbn [thread].
  destruct v as [| x | | | | | | | | |]; try reflexivity.
  exfalso. apply (Hv x). reflexivity.
Qed.

Theorem err_field : forall a s name lg c lg', fails a lg c lg' -> fails (EField a s name) lg c lg'.
Proof. unfold fails. intros a s name lg c lg' H. cbn [eval]. rewrite H. reflexivity. Qed.

Theorem err_index_base : forall a i lg c lg', fails a lg c lg' -> fails (EIndex a i) lg c lg'.
Proof. unfold fails. intros a i lg c lg' H. cbn [eval]. rewrite H. reflexivity. Qed.

Theorem err_index_index : forall a i v lg lg1 c lg', ev a lg = (Ok v, lg1) ->
  fails i lg1 c lg' -> fails (EIndex a i) lg c lg'.
Proof. unfold fails. intros a i v lg lg1 c lg' Ha Hi. cbn [eval]. rewrite Ha. cbn [thread]. rewrite Hi. reflexivity. Qed.

(* --- two-index slices --- *)
Theorem err_slice_base : forall a lo hi lg c lg', fails a lg c lg' -> fails (ESlice a lo hi) lg c lg'.
Proof. unfold fails. intros a lo hi lg c lg' H. cbn [eval]. rewrite H. reflexivity. Qed.

Theorem err_slice_lo : forall a lo hi arr l ex lg lg1 c lg', ev a lg = (Ok (VSeq arr l ex), lg1) ->
  fails lo lg1 c lg' -> fails (ESlice a (Some lo) hi) lg c lg'.
Proof.
  unfold fails. intros a lo hi arr l ex lg lg1 c lg' Ha Hlo.
  cbn [eval]. rewrite Ha. cbn [thread]. rewrite Hlo. reflexivity.
Qed.

(* the lower bound, when present, evaluated to an integer *)
Definition lo_ok (lo : option expr) (lg1 : log) (s : Z) (lg2 : log) : Prop :=
  match lo with
  | None => s = 0%Z /\ lg2 = lg1
  | Some x => exists xv, ev x lg1 = (Ok xv, lg2) /\ as_int xv = Ok s
  end.

Lemma lo_ok_eval : forall lo lg1 s lg2, lo_ok lo lg1 s lg2 ->
  match lo with None => (Ok 0%Z, lg1) | Some x => thread (ev x lg1) (fun xv => lift (as_int xv)) end = (Ok s, lg2).
Proof.
  intros lo lg1 s lg2 H. destruct lo as [x|]; cbn [lo_ok] in H.
  - destruct H as [xv [E1 E2]]. rewrite E1. cbn [thread]. unfold lift. rewrite E2. reflexivity.
  - destruct H as [E1 E2]. subst. reflexivity.
Qed.

Theorem err_slice_hi : forall a lo hi arr l ex lg lg1 s lg2 c lg', ev a lg = (Ok (VSeq arr l ex), lg1) ->
  lo_ok lo lg1 s lg2 ->
  fails hi lg2 c lg' -> fails (ESlice a lo (Some hi)) lg c lg'.
Proof.
  unfold fails. intros a lo hi arr l ex lg lg1 s lg2 c lg' Ha Hlo Hhi.
  cbn [eval]. rewrite Ha. cbn [thread].
  rewrite (lo_ok_eval lo lg1 s lg2 Hlo). cbn [thread]. rewrite Hhi. reflexivity.
Qed.

(* a bound that is not an integer is an error at that point; the upper bound is not evaluated *)
Theorem err_slice_lo_not_int : forall a lo hi arr l ex xv lg lg1 lg2, ev a lg = (Ok (VSeq arr l ex), lg1) ->
  ev lo lg1 = (Ok xv, lg2) -> is_int xv = None -> (forall id, xv <> VOpaque id) ->
  fails (ESlice a (Some lo) hi) lg COther lg2.
Proof.
  unfold fails. intros a lo hi arr l ex xv lg lg1 lg2 Ha Hlo Hni Hno.
  cbn [eval]. rewrite Ha. cbn [thread]. rewrite Hlo. cbn [thread]. unfold lift, as_int. rewrite Hni.
  destruct xv; try reflexivity. exfalso. eapply Hno. reflexivity.
Qed.

(* --- three-index slices --- *)
Theorem err_slice3_base : forall a lo hi cp lg c lg', fails a lg c lg' -> fails (ESlice3 a lo hi cp) lg c lg'.
Proof. unfold fails. intros a lo hi cp lg c lg' H. cbn [eval]. rewrite H. reflexivity. Qed.

Theorem err_slice3_lo : forall a lo hi cp arr l ex lg lg1 c lg', ev a lg = (Ok (VSeq arr l ex), lg1) ->
  fails lo lg1 c lg' -> fails (ESlice3 a (Some lo) hi cp) lg c lg'.
Proof.
  unfold fails. intros a lo hi cp arr l ex lg lg1 c lg' Ha Hlo.
  cbn [eval]. rewrite Ha. cbn [thread]. rewrite Hlo. reflexivity.
Qed.

Theorem err_slice3_hi : forall a lo hi cp arr l ex lg lg1 s lg2 c lg', ev a lg = (Ok (VSeq arr l ex), lg1) ->
  lo_ok lo lg1 s lg2 ->
  fails hi lg2 c lg' -> fails (ESlice3 a lo hi cp) lg c lg'.
Proof.
  unfold fails. intros a lo hi cp arr l ex lg lg1 s lg2 c lg' Ha Hlo Hhi.
  cbn [eval]. rewrite Ha. cbn [thread].
  rewrite (lo_ok_eval lo lg1 s lg2 Hlo). cbn [thread]. rewrite Hhi. reflexivity.
Qed.

Theorem err_slice3_cap : forall a lo hi cp arr l ex lg lg1 s lg2 hv e' lg3 c lg',
  ev a lg = (Ok (VSeq arr l ex), lg1) ->
  lo_ok lo lg1 s lg2 ->
  ev hi lg2 = (Ok hv, lg3) -> as_int hv = Ok e' ->
  fails cp lg3 c lg' -> fails (ESlice3 a lo hi cp) lg c lg'.
Proof.
  unfold fails. intros a lo hi cp arr l ex lg lg1 s lg2 hv e' lg3 c lg' Ha Hlo Hhi Hint Hcp.
  cbn [eval]. rewrite Ha. cbn [thread].
  rewrite (lo_ok_eval lo lg1 s lg2 Hlo). cbn [thread]. rewrite Hhi. cbn [thread]. unfold lift at 1.
  rewrite Hint. cbn [thread]. rewrite Hcp. reflexivity.
Qed.

(* --- calls --- *)
Theorem err_call_callee : forall f args ell cm lg c lg', fails f lg c lg' -> fails (ECall f args ell cm) lg c lg'.
Proof. unfold fails. intros f args ell cm lg c lg' H. rewrite eval_call_eq. rewrite H. reflexivity. Qed.

(* a callee that is not a function is an error and no argument is evaluated *)
Theorem err_call_not_func : forall f args ell cm v lg lg1, ev f lg = (Ok v, lg1) ->
  (forall id bound, v <> VFunc id bound) -> (forall id, v <> VOpaque id) ->
  fails (ECall f args ell cm) lg COther lg1.
Proof.
  unfold fails. intros f args ell cm v lg lg1 Hf Hnf Hno. rewrite eval_call_eq. rewrite Hf. cbn [thread].
  destruct v; try reflexivity.
  - exfalso. eapply Hnf. reflexivity.
  - exfalso. eapply Hno. reflexivity.
Qed.

(* the arguments [l] evaluate, left to right, to the values [vs], taking the log from lg to lg' *)
Inductive args_ok : list expr -> log -> list value -> log -> Prop :=
| args_ok_nil : forall lg, args_ok [] lg [] lg
| args_ok_cons : forall x r lg v lg1 vs lg2,
    ev x lg = (Ok v, lg1) -> args_ok r lg1 vs lg2 -> args_ok (x :: r) lg (v :: vs) lg2.

Lemma eval_args_app_ok : forall pre lg vs lgk, args_ok pre lg vs lgk ->
  forall acc rest, eval_args (pre ++ rest) acc lg = eval_args rest (rev vs ++ acc) lgk.
Proof.
  intros pre lg vs lgk H. induction H as [lg | x r lg v lg1 vs lg2 Hx Hr IH]; intros acc rest.
  - reflexivity.
  - cbn [app eval_args]. rewrite Hx. cbn [thread]. rewrite IH.
    cbn [rev]. rewrite <- app_assoc. reflexivity.
Qed.

(* all arguments evaluate: eval_args returns them in order *)
Lemma eval_args_ok : forall l lg vs lg', args_ok l lg vs lg' -> eval_args l [] lg = (Ok vs, lg').
Proof.
  intros l lg vs lg' H.
  rewrite <- (app_nil_r l). rewrite (eval_args_app_ok l lg vs lg' H [] []).
  cbn [eval_args]. rewrite app_nil_r, rev_involutive. reflexivity.
Qed.

Lemma eval_args_ok_inv : forall l acc lg vs lg', eval_args l acc lg = (Ok vs, lg') ->
  exists ws, vs = rev acc ++ ws /\ args_ok l lg ws lg'.
Proof.
  induction l as [| x r IH]; intros acc lg vs lg' H; cbn [eval_args] in H.
  - injection H as H1 H2. subst. exists []. rewrite app_nil_r. split; [reflexivity | constructor].
  - destruct (thread_inv _ _ _ _ _ _ H) as [[v [lg1 [Hx Hr]]] | [[c [_ Hc]] | [_ Hc]]]; try discriminate.
    destruct (IH _ _ _ _ Hr) as [ws [E Hok]].
    exists (v :: ws). split.
    + rewrite E. cbn [rev]. rewrite <- app_assoc. reflexivity.
    + econstructor; eassumption.
Qed.

(* the i-th argument fails after the callee and the earlier arguments evaluated: the call fails with
   that cause, and the log is the one at the failure — in particular the user function is not called
   and the later arguments are not evaluated *)
Theorem err_call_arg : forall f pre x post ell cm id bound vs lg lg1 lgk c lg',
  ev f lg = (Ok (VFunc id bound), lg1) ->
  args_ok pre lg1 vs lgk ->
  fails x lgk c lg' ->
  fails (ECall f (pre ++ x :: post) ell cm) lg c lg'.
Proof.
  unfold fails. intros f pre x post ell cm id bound vs lg lg1 lgk c lg' Hf Hpre Hx.
  rewrite eval_call_eq. rewrite Hf. cbn [thread].
  rewrite (eval_args_app_ok pre lg1 vs lgk Hpre).
  cbn [eval_args]. rewrite Hx. reflexivity.
Qed.

(* and when every argument evaluates, the call is finish_call on the values in order *)
Theorem call_all_args_ok : forall f args cm id bound vs lg lg1 lg2,
  ev f lg = (Ok (VFunc id bound), lg1) ->
  args_ok args lg1 vs lg2 ->
  ev (ECall f args false cm) lg = finish_call call_fn id (bound ++ vs) lg2.
Proof.
  intros f args cm id bound vs lg lg1 lg2 Hf Hargs.
  rewrite eval_call_eq. rewrite Hf. cbn [thread].
  rewrite (eval_args_ok args lg1 vs lg2 Hargs). reflexivity.
Qed.

End EvalStrict.

Print Assumptions eval_call_eq.
Print Assumptions eval_log_extends.
Print Assumptions and_short_circuit.
Print Assumptions or_short_circuit.
Print Assumptions cond_selects.
Print Assumptions err_unary.
Print Assumptions err_paren.
Print Assumptions err_bin_left.
Print Assumptions err_bin_right.
Print Assumptions err_cond_test.
Print Assumptions err_cond_branch.
Print Assumptions err_cond_not_bool.
Print Assumptions err_field.
Print Assumptions err_index_base.
Print Assumptions err_index_index.
Print Assumptions err_slice_base.
Print Assumptions err_slice_lo.
Print Assumptions err_slice_hi.
Print Assumptions err_slice_lo_not_int.
Print Assumptions err_slice3_base.
Print Assumptions err_slice3_lo.
Print Assumptions err_slice3_hi.
Print Assumptions err_slice3_cap.
Print Assumptions err_call_callee.
Print Assumptions err_call_not_func.
Print Assumptions err_call_arg.
Print Assumptions call_all_args_ok.
