(* C16, part 1: definitions (has_cond, tree_ok, wf, closed) and the list-level facts the lockstep
   proof of PureRender.v needs: the condition table, prev_tag, closedness of the child lists the
   renderer walks, and the relative order of if/else and range directives in Tag.SortedAttr. *)
From Coq Require Import List NArith ZArith Bool Lia Arith.
From Tpl Require Import Html.Exec Html.Manager.
Import ListNotations.
Open Scope N_scope.

(* ---------- strings ---------- *)
Lemma pr_str_eqb_eq a b : str_eqb a b = true -> a = b.
Proof.
  revert b; induction a as [|x a IH]; destruct b as [|y b]; cbn [str_eqb]; try discriminate; auto.
  intros H. apply andb_true_iff in H as [H1 H2]. apply N.eqb_eq in H1. f_equal; auto.
Qed.
Lemma pr_str_eqb_refl s : str_eqb s s = true.
Proof. induction s as [|c s IH]; [reflexivity|]. cbn [str_eqb]. rewrite N.eqb_refl. exact IH. Qed.
Lemma pr_prefixb_app p s : prefixb p (p ++ s) = true.
Proof. induction p as [|x p IH]; [reflexivity|]. cbn [prefixb app]. rewrite N.eqb_refl. exact IH. Qed.
Lemma pr_skipn_app (p s : str) : skipn (length p) (p ++ s) = s.
Proof. induction p as [|x p IH]; [reflexivity|]. cbn [length app skipn]. exact IH. Qed.
Lemma pr_prefixb_split p s : prefixb p s = true -> s = p ++ skipn (length p) s.
Proof.
  revert s; induction p as [|x p IH]; intros s H; [reflexivity|].
  destruct s as [|y s]; cbn [prefixb] in H; [discriminate|].
  apply andb_true_iff in H as [H1 H2]. apply N.eqb_eq in H1; subst y.
  cbn [length skipn app]. f_equal. apply IH; exact H2.
Qed.

(* ---------- the condition table ---------- *)
Lemma tbl_get_set t k b k' : tbl_get (tbl_set t k b) k' = if N.eqb k k' then Some b else tbl_get t k'.
Proof.
  unfold tbl_get, tbl_set. cbn [find fst snd]. destruct (N.eqb k k') eqn:E; [reflexivity|].
  induction t as [|[k0 b0] t IH]; cbn [filter find fst]; [reflexivity|].
  destruct (N.eqb k0 k) eqn:E0; cbn [negb].
  - apply N.eqb_eq in E0; subst k0. rewrite E. exact IH.
  - cbn [find fst]. destruct (N.eqb k0 k'); [reflexivity| exact IH].
Qed.
Lemma tbl_get_nil k : tbl_get [] k = None.
Proof. reflexivity. Qed.

Definition agree (t1 t2 : tbl) (id : N) : Prop := tbl_get t1 id = tbl_get t2 id.
(* agreement is never lost *)
Definition ext (t1 t2 u1 u2 : tbl) : Prop := forall id, agree t1 t2 id -> agree u1 u2 id.

Lemma ext_refl t1 t2 : ext t1 t2 t1 t2.
Proof. intros id H; exact H. Qed.
Lemma ext_trans t1 t2 u1 u2 v1 v2 : ext t1 t2 u1 u2 -> ext u1 u2 v1 v2 -> ext t1 t2 v1 v2.
Proof. intros H1 H2 id H. apply H2, H1, H. Qed.
Lemma agree_set t1 t2 k b id : agree t1 t2 id -> agree (tbl_set t1 k b) (tbl_set t2 k b) id.
Proof. unfold agree; intros H. rewrite !tbl_get_set. destruct (N.eqb k id); [reflexivity|exact H]. Qed.
Lemma agree_set_same t1 t2 k b : agree (tbl_set t1 k b) (tbl_set t2 k b) k.
Proof. unfold agree. rewrite !tbl_get_set, N.eqb_refl. reflexivity. Qed.
Lemma ext_set t1 t2 k b : ext t1 t2 (tbl_set t1 k b) (tbl_set t2 k b).
Proof. intros id H. apply agree_set, H. Qed.

Section PR.
Variable is_space : rune -> bool.
Variable mgr : manager.
Notation pfx := (m_attr_prefix mgr).

(* the element carries an if / else-if / elseif / elif / else directive *)
Definition has_cond_attrs (attrs : list attr) : bool := existsb (has_dir mgr attrs) cond_names.
Definition has_cond (n : node) : bool :=
  match n_tok n with
  | Some tok => match t_kind tok with KTag => has_cond_attrs (t_attrs tok) | _ => false end
  | None => false
  end.

Variable cid : N -> bool.

(* every node below (and including) n has a token, its id is classified by cid, and the ids in
   every child list are pairwise distinct *)
Fixpoint node_ok (n : node) : Prop :=
  let 'Node i tok ch _ := n in
  tok <> None /\ cid i = has_cond n /\ NoDup (map n_id ch) /\
  (fix all (l : list node) : Prop := match l with [] => True | c :: r => node_ok c /\ all r end) ch.
Definition tree_ok (ctx : list node) : Prop := NoDup (map n_id ctx) /\ Forall node_ok ctx.

Lemma node_ok_unfold n :
  node_ok n <-> n_tok n <> None /\ cid (n_id n) = has_cond n /\ NoDup (map n_id (n_children n)) /\ Forall node_ok (n_children n).
Proof.
  destruct n as [i tok ch e]. cbn [node_ok n_tok n_id n_children].
  assert (H : forall l, (fix all (l : list node) : Prop := match l with [] => True | c :: r => node_ok c /\ all r end) l
                        <-> Forall node_ok l).
  { induction l as [|c r IH]; split; intros H.
    - constructor.
    - exact I.
    - destruct H as [H1 H2]. constructor; [exact H1|apply IH, H2].
    - inversion H; subst. split; [assumption|apply IH; assumption]. }
  rewrite H. reflexivity.
Qed.

Definition wf (t : tbl) : Prop := forall id b, tbl_get t id = Some b -> cid id = true.

Lemma wf_nil : wf [].
Proof. intros id b H. rewrite tbl_get_nil in H. discriminate. Qed.
Lemma wf_set t k b : wf t -> cid k = true -> wf (tbl_set t k b).
Proof.
  intros Hw Hk id b' H. rewrite tbl_get_set in H. destruct (N.eqb k id) eqn:E.
  - apply N.eqb_eq in E; subst id. exact Hk.
  - eapply Hw, H.
Qed.
Lemma wf_agree_none t1 t2 id : wf t1 -> wf t2 -> cid id = false -> agree t1 t2 id.
Proof.
  intros H1 H2 Hc. unfold agree.
  destruct (tbl_get t1 id) eqn:E1; [apply H1 in E1; congruence|].
  destruct (tbl_get t2 id) eqn:E2; [apply H2 in E2; congruence|]. reflexivity.
Qed.

(* ---------- closed child lists ---------- *)
(* walking l in order, every else-ish element finds its previous tag sibling (in ctx) either
   without a condition directive or among the elements walked before it *)
Fixpoint closedf (ctx : list node) (done : list N) (l : list node) : Prop :=
  match l with
  | [] => True
  | c :: r =>
    (has_cond c = true -> forall p, prev_tag ctx (n_id c) None = Some p -> has_cond p = true -> In (n_id p) done)
    /\ closedf ctx (n_id c :: done) r
  end.
Definition closed (ctx l : list node) : Prop := incl l ctx /\ closedf ctx [] l.

Lemma has_cond_tag n : has_cond n = true -> is_tag_node n = true.
Proof. unfold has_cond, is_tag_node. destruct (n_tok n) as [tok|]; [|discriminate]. destruct (t_kind tok); auto. Qed.
Lemma blank_not_tag n : is_blank_text is_space n = true -> is_tag_node n = false.
Proof. unfold is_blank_text, is_tag_node. destruct (n_tok n) as [tok|]; [|reflexivity]. destruct (t_kind tok); auto; discriminate. Qed.

Lemma prev_tag_pre : forall pre c r last p,
  ~ In (n_id c) (map n_id pre) -> prev_tag (pre ++ c :: r) (n_id c) last = Some p ->
  last = Some p \/ (In p pre /\ is_tag_node p = true).
Proof.
  induction pre as [|x pre IH]; intros c r last p Hni H.
  - cbn [app prev_tag] in H. rewrite N.eqb_refl in H. left; exact H.
  - cbn [app prev_tag] in H. cbn [map In] in Hni.
    destruct (N.eqb (n_id x) (n_id c)) eqn:E.
    { apply N.eqb_eq in E. exfalso; apply Hni; left; exact E. }
    apply IH in H; [|intros Hin; apply Hni; right; exact Hin].
    destruct H as [H|[H1 H2]].
    + destruct (is_tag_node x) eqn:Ex.
      * inversion H; subst p. right; split; [left; reflexivity|exact Ex].
      * left; exact H.
    + right; split; [right; exact H1|exact H2].
Qed.

Lemma prev_tag_In : forall ctx id last p, prev_tag ctx id last = Some p -> last = Some p \/ In p ctx.
Proof.
  induction ctx as [|x ctx IH]; intros id last p H; cbn [prev_tag] in H; [discriminate|].
  destruct (N.eqb (n_id x) id); [left; exact H|].
  apply IH in H. destruct H as [H|H]; [|right; right; exact H].
  destruct (is_tag_node x); [inversion H; right; left; reflexivity|left; exact H].
Qed.

Lemma NoDup_mid_notin (pre : list node) c r : NoDup (map n_id (pre ++ c :: r)) -> ~ In (n_id c) (map n_id pre).
Proof.
  rewrite map_app. cbn [map]. intros H Hin. apply NoDup_remove_2 in H. apply H. apply in_or_app; left; exact Hin.
Qed.

Lemma closedf_mid : forall l pre0 pre post done,
  NoDup (map n_id (pre0 ++ pre ++ l ++ post)) ->
  (forall x, In x pre0 -> is_tag_node x = false) ->
  (forall x, In x pre -> In (n_id x) done) ->
  closedf (pre0 ++ pre ++ l ++ post) done l.
Proof.
  induction l as [|c r IH]; intros pre0 pre post done Hnd H0 Hd; [exact I|].
  cbn [closedf]. split.
  - intros _ p Hp _.
    assert (E : pre0 ++ pre ++ (c :: r) ++ post = (pre0 ++ pre) ++ c :: (r ++ post)).
    { rewrite <- app_assoc. reflexivity. }
    rewrite E in Hp, Hnd. apply prev_tag_pre in Hp; [|apply NoDup_mid_notin with (r := r ++ post); exact Hnd].
    destruct Hp as [Hp|[Hp1 Hp2]]; [discriminate|].
    apply in_app_or in Hp1 as [Hp1|Hp1].
    + apply H0 in Hp1. congruence.
    + apply Hd, Hp1.
  - assert (E : pre0 ++ pre ++ (c :: r) ++ post = pre0 ++ (pre ++ [c]) ++ r ++ post).
    { rewrite <- (app_assoc pre [c]). reflexivity. }
    rewrite E. apply IH.
    + rewrite <- E. exact Hnd.
    + exact H0.
    + intros x Hx. apply in_app_or in Hx as [Hx|Hx].
      * right. apply Hd, Hx.
      * destruct Hx as [Hx|[]]. subst x. left; reflexivity.
Qed.

Lemma closed_self ctx : NoDup (map n_id ctx) -> closed ctx ctx.
Proof.
  intros H. split; [apply incl_refl|].
  pose proof (closedf_mid ctx [] [] [] []) as L. cbn [app] in L. rewrite app_nil_r in L.
  apply L; [exact H| |]; intros x [].
Qed.

Lemma closedf_trivial ctx : forall l done,
  (forall c, In c l -> has_cond c = true -> forall p, prev_tag ctx (n_id c) None = Some p -> False) ->
  closedf ctx done l.
Proof.
  induction l as [|c r IH]; intros done H; [exact I|]. cbn [closedf]. split.
  - intros Hc p Hp _. exfalso. eapply H; [left; reflexivity|exact Hc|exact Hp].
  - apply IH. intros c' Hin. apply H. right; exact Hin.
Qed.

Lemma find_split {A} (f : A -> bool) : forall l x, find f l = Some x ->
  exists l1 l2, l = l1 ++ x :: l2 /\ forall y, In y l1 -> f y = false.
Proof.
  induction l as [|a l IH]; intros x H; cbn [find] in H; [discriminate|].
  destruct (f a) eqn:E.
  - inversion H; subst a. exists [], l. split; [reflexivity|intros y []].
  - apply IH in H as (l1 & l2 & -> & H). exists (a :: l1), l2. split; [reflexivity|].
    intros y [->|Hy]; [exact E|apply H, Hy].
Qed.

Lemma abf_in ch c : In c (abf_children is_space ch) ->
  In c ch /\ (is_blank_text is_space c = true \/ find is_tag_node ch = Some c).
Proof.
  unfold abf_children. intros H.
  apply in_app_or in H as [H|H]; [|apply in_app_or in H as [H|H]].
  - destruct ch as [|c0 r]; [destruct H|].
    destruct (negb (is_tag_node c0) && match find is_tag_node (c0 :: r) with Some _ => true | None => false end);
      cbn [andb] in H; [|destruct H].
    destruct (is_blank_text is_space c0) eqn:E; [|destruct H].
    destruct H as [H|[]]; subst c. split; [left; reflexivity|left; exact E].
  - destruct (find is_tag_node ch) as [x|] eqn:E; [|destruct H].
    destruct H as [H|[]]; subst c. split; [|right; reflexivity].
    apply find_some in E. apply E.
  - destruct (rev ch) as [|cl r] eqn:E; [destruct H|].
    destruct (is_blank_text is_space cl) eqn:Eb; [|destruct H].
    destruct H as [H|[]]; subst c. split; [|left; exact Eb].
    apply in_rev. rewrite E. left; reflexivity.
Qed.

Lemma closed_abf ch : NoDup (map n_id ch) -> closed ch (abf_children is_space ch).
Proof.
  intros Hnd. split.
  - intros c Hc. apply abf_in in Hc. apply Hc.
  - apply closedf_trivial. intros c Hin Hc p Hp.
    apply abf_in in Hin as [_ [Hb|Hf]].
    + apply blank_not_tag in Hb. apply has_cond_tag in Hc. congruence.
    + apply find_split in Hf as (l1 & l2 & E & Hl1). subst ch.
      apply prev_tag_pre in Hp; [|apply NoDup_mid_notin with (r := l2); exact Hnd].
      destruct Hp as [Hp|[Hp1 Hp2]]; [discriminate|]. apply Hl1 in Hp1. congruence.
Qed.

Lemma trim_split ch : exists pre0 post,
  ch = pre0 ++ trim_blank_ends is_space ch ++ post /\ forall x, In x pre0 -> is_tag_node x = false.
Proof.
  assert (G : forall (pre0 df : list node), (forall x, In x pre0 -> is_tag_node x = false) ->
            exists pre0' post, pre0 ++ df = pre0' ++
              match rev df with l :: r => if is_blank_text is_space l then rev r else df | [] => [] end ++ post
              /\ forall x, In x pre0' -> is_tag_node x = false).
  { intros pre0 df H0. destruct (rev df) as [|l r] eqn:E.
    - exists [], (pre0 ++ df). split; [reflexivity|intros x []].
    - assert (Ed : df = rev r ++ [l]). { rewrite <- (rev_involutive df), E. reflexivity. }
      destruct (is_blank_text is_space l).
      + exists pre0, [l]. split; [rewrite Ed; reflexivity|exact H0].
      + exists pre0, []. split; [rewrite app_nil_r; reflexivity|exact H0]. }
  unfold trim_blank_ends. destruct ch as [|c [|c' r]].
  - exists [], []. split; [reflexivity|intros x []].
  - destruct (is_blank_text is_space c) eqn:E.
    + exists [c], []. split; [reflexivity|]. intros x [<-|[]]. apply blank_not_tag, E.
    + exists [], []. split; [reflexivity|intros x []].
  - destruct (is_blank_text is_space c) eqn:E.
    + apply (G [c] (c' :: r)). intros x [<-|[]]. apply blank_not_tag, E.
    + apply (G [] (c :: c' :: r)). intros x [].
Qed.

Lemma closed_trim ch : NoDup (map n_id ch) -> closed ch (trim_blank_ends is_space ch).
Proof.
  intros Hnd. destruct (trim_split ch) as (pre0 & post & E & H0).
  split.
  - intros c Hc. rewrite E. apply in_or_app; right. apply in_or_app; left. exact Hc.
  - pose proof (closedf_mid (trim_blank_ends is_space ch) pre0 [] post []) as L. cbn [app] in L.
    rewrite <- E in L. apply L; [exact Hnd|exact H0|intros x []].
Qed.

(* ---------- Tag.SortedAttr: an if/else directive is never preceded by a range directive ---------- *)
Definition a_cmd (a : attr) : str := skipn (length pfx) (a_name a).
Definition is_cond_attr (a : attr) : bool := prefixb pfx (a_name a) && is_cond_name (a_cmd a).
Definition is_range_attr (a : attr) : bool := prefixb pfx (a_name a) && str_eqb (a_cmd a) d_range.
Definition isW (a : attr) : bool := prefixb pfx (a_name a) && (weight (a_cmd a) <=? -3)%Z.
Definition isRg (a : attr) : bool := prefixb pfx (a_name a) && (weight (a_cmd a) =? -2)%Z.

(* the first directive of l that could end the attribute loop is an if/else directive *)
Fixpoint cond_first (l : list attr) : bool :=
  match l with
  | [] => false
  | a :: r => if is_cond_attr a then true else if is_range_attr a then false else cond_first r
  end.

Lemma cond_name_not_with c : is_cond_name c = true -> str_eqb c d_with = false.
Proof.
  intros H. destruct (str_eqb c d_with) eqn:E; [|reflexivity].
  apply pr_str_eqb_eq in E; subst c. vm_compute in H. discriminate.
Qed.
Lemma cond_name_not_range c : is_cond_name c = true -> str_eqb c d_range = false.
Proof.
  intros H. destruct (str_eqb c d_range) eqn:E; [|reflexivity].
  apply pr_str_eqb_eq in E; subst c. vm_compute in H. discriminate.
Qed.
Lemma cond_attr_W a : is_cond_attr a = true -> isW a = true.
Proof.
  unfold is_cond_attr, isW. intros H. apply andb_true_iff in H as [H1 H2]. rewrite H1. cbn [andb].
  unfold weight. rewrite (cond_name_not_with _ H2), H2. reflexivity.
Qed.
Lemma range_attr_Rg a : is_range_attr a = true -> isRg a = true.
Proof.
  unfold is_range_attr, isRg. intros H. apply andb_true_iff in H as [H1 H2]. rewrite H1. cbn [andb].
  apply pr_str_eqb_eq in H2. rewrite H2. reflexivity.
Qed.
Lemma W_not_Rg a : isW a = true -> isRg a = false.
Proof.
  unfold isW, isRg. destruct (prefixb pfx (a_name a)); cbn [andb]; [|reflexivity].
  intros H. apply Z.leb_le in H. apply Z.eqb_neq. lia.
Qed.
Lemma less_Rg_W a b : isW b = true -> isRg a = true -> attr_less pfx (a_name a) (a_name b) = false.
Proof.
  unfold isW, isRg, attr_less, a_cmd.
  destruct (prefixb pfx (a_name a)), (prefixb pfx (a_name b)); cbn [andb negb]; try discriminate.
  intros H1 H2. apply Z.leb_le in H1. apply Z.eqb_eq in H2. apply Z.ltb_ge. lia.
Qed.
Lemma less_W_stop a b : isW a = true -> attr_less pfx (a_name a) (a_name b) = false -> isW b = true.
Proof.
  unfold isW, attr_less, a_cmd.
  destruct (prefixb pfx (a_name a)), (prefixb pfx (a_name b)); cbn [andb negb]; try discriminate.
  intros H1 H2. apply Z.leb_le in H1. apply Z.ltb_ge in H2. apply Z.leb_le. lia.
Qed.

(* on the reversed list (last placed first): nothing placed before a with/if/else directive is a range *)
Fixpoint rev_ok (l : list attr) : Prop :=
  match l with
  | [] => True
  | b :: r => (isW b = true -> forall x, In x r -> isRg x = false) /\ rev_ok r
  end.

Lemma insert_in a : forall r x, In x (insert_sorted pfx a r) <-> x = a \/ In x r.
Proof.
  induction r as [|b r IH]; intros x; cbn [insert_sorted].
  - cbn [In]. intuition.
  - destruct (attr_less pfx (a_name a) (a_name b)); cbn [In]; [rewrite IH|]; intuition.
Qed.
Lemma insert_rev_ok a : forall r, rev_ok r -> rev_ok (insert_sorted pfx a r).
Proof.
  induction r as [|b r IH]; intros H; cbn [insert_sorted].
  - cbn [rev_ok]. split; [intros _ x []|exact I].
  - destruct H as [Hb Hr]. destruct (attr_less pfx (a_name a) (a_name b)) eqn:E.
    + cbn [rev_ok]. split; [|apply IH, Hr].
      intros HW x Hx. apply insert_in in Hx as [->|Hx]; [|apply Hb; assumption].
      destruct (isRg a) eqn:Ea; [|reflexivity].
      rewrite (less_Rg_W a b HW Ea) in E. discriminate.
    + cbn [rev_ok]. split; [|split; assumption].
      intros HW x Hx. pose proof (less_W_stop a b HW E) as HWb.
      destruct Hx as [<-|Hx]; [apply W_not_Rg, HWb|apply Hb; assumption].
Qed.
Lemma fold_rev_ok : forall l acc, rev_ok acc -> rev_ok (fold_left (fun acc a => insert_sorted pfx a acc) l acc).
Proof. induction l as [|a l IH]; intros acc H; cbn [fold_left]; [exact H|]. apply IH, insert_rev_ok, H. Qed.
Lemma fold_in : forall l acc x, In x (fold_left (fun acc a => insert_sorted pfx a acc) l acc) <-> In x acc \/ In x l.
Proof.
  induction l as [|a l IH]; intros acc x; cbn [fold_left].
  - cbn [In]. intuition.
  - rewrite IH, insert_in. cbn [In]. intuition.
Qed.
Lemma sorted_in l x : In x (sorted_attrs pfx l) <-> In x l.
Proof. unfold sorted_attrs. rewrite <- in_rev, fold_in. cbn [In]. intuition. Qed.

Lemma rev_ok_split : forall l1 x l2, rev_ok (l1 ++ x :: l2) -> isW x = true -> forall y, In y l2 -> isRg y = false.
Proof.
  induction l1 as [|b l1 IH]; intros x l2 H HW y Hy; cbn [app rev_ok] in H.
  - destruct H as [H _]. apply H; assumption.
  - destruct H as [_ H]. eapply IH; eassumption.
Qed.

Lemma cond_first_fwd : forall L,
  (forall l1 x l2, L = l1 ++ x :: l2 -> isW x = true -> forall y, In y l1 -> isRg y = false) ->
  (exists a, In a L /\ is_cond_attr a = true) -> cond_first L = true.
Proof.
  induction L as [|a0 L IH]; intros Hord [a [Hin Hc]]; [destruct Hin|].
  cbn [cond_first]. destruct (is_cond_attr a0) eqn:E0; [reflexivity|].
  destruct Hin as [->|Hin]; [congruence|].
  destruct (is_range_attr a0) eqn:E1.
  - exfalso. apply in_split in Hin as (l1 & l2 & ->).
    pose proof (Hord (a0 :: l1) a l2 eq_refl (cond_attr_W _ Hc) a0 (or_introl eq_refl)) as H.
    rewrite (range_attr_Rg _ E1) in H. discriminate.
  - apply IH; [|exists a; split; assumption].
    intros l1 x l2 -> HW y Hy. apply (Hord (a0 :: l1) x l2 eq_refl HW). right; exact Hy.
Qed.

Lemma cond_attr_has_cond attrs a : In a attrs -> is_cond_attr a = true -> has_cond_attrs attrs = true.
Proof.
  unfold is_cond_attr, has_cond_attrs. intros Hin H. apply andb_true_iff in H as [H1 H2].
  unfold is_cond_name in H2. apply existsb_exists in H2 as (c & Hc & Hcc). apply pr_str_eqb_eq in Hcc.
  apply existsb_exists. exists c. split; [exact Hc|].
  unfold has_dir, has_attr_named, prefix. apply existsb_exists. exists a. split; [exact Hin|].
  rewrite (pr_prefixb_split _ _ H1) at 1. fold (a_cmd a). rewrite Hcc. apply pr_str_eqb_refl.
Qed.
Lemma has_cond_cond_attr attrs : has_cond_attrs attrs = true -> exists a, In a attrs /\ is_cond_attr a = true.
Proof.
  unfold has_cond_attrs. intros H. apply existsb_exists in H as (c & Hc & H).
  unfold has_dir, has_attr_named, prefix in H. apply existsb_exists in H as (a & Ha & H).
  apply pr_str_eqb_eq in H. exists a. split; [exact Ha|].
  unfold is_cond_attr, a_cmd. rewrite H, pr_prefixb_app, pr_skipn_app. cbn [andb].
  unfold is_cond_name. apply existsb_exists. exists c. split; [exact Hc|apply pr_str_eqb_refl].
Qed.

Lemma cond_first_sorted attrs : has_cond_attrs attrs = true -> cond_first (sorted_attrs pfx attrs) = true.
Proof.
  intros H. apply has_cond_cond_attr in H as (a & Ha & Hc).
  apply cond_first_fwd; [|exists a; split; [apply sorted_in, Ha|exact Hc]].
  unfold sorted_attrs. intros l1 x l2 E HW y Hy.
  assert (Hok : rev_ok (fold_left (fun acc a => insert_sorted pfx a acc) attrs [])) by (apply fold_rev_ok; exact I).
  assert (E' : fold_left (fun acc a => insert_sorted pfx a acc) attrs [] = rev l2 ++ x :: rev l1).
  { rewrite <- (rev_involutive (fold_left _ attrs [])), E, rev_app_distr. cbn [rev]. rewrite <- app_assoc. reflexivity. }
  rewrite E' in Hok. apply (rev_ok_split _ _ _ Hok HW). apply -> in_rev. exact Hy.
Qed.
End PR.
